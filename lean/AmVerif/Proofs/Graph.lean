import AmVerif.Model.Graph
/-
  Proofs about M5 (`AmVerif.Model.Graph`): change graph, pending queue, `apply_changes`.

  §0  list utilities (core Lean only)
  §1  `sortHashes` sorts and removes duplicates (`bytesLt` is a strict total order)
  §2  `DepsClosed` (topological order) and `headsOf`
  §3  the document invariant `Doc.Inv`
  §4  `remove_actor_branch_from`
  §5  `collectBatch` (the filter / `ChangeBatch::push` loop)
  §6  Kahn's algorithm (`kahnLoop`, `popTopoSortedReady`)
  §7  `applyBatch` preserves `Doc.Inv`; `localCommit`; `Reachable`
  §8  `missing_deps_from`
  §9  delivery schedules (C01, delivery half)

  Hashes are opaque byte strings in the model.  Nothing below assumes anything about how a hash
  is computed; where acyclicity of the dependency relation is needed (§9) it is a hypothesis
  (`WF.acyclic`) — in the implementation it follows from SHA-256 preimage resistance, as a
  change's hash covers the hashes of its dependencies.
-/
namespace AmVerif.Crdt
open AmVerif

/-! ## §0 list utilities -/

theorem snoc_induction {α : Type} {P : List α → Prop} (nil : P [])
    (snoc : ∀ l a, P l → P (l ++ [a])) : ∀ l, P l := by
  have : ∀ r : List α, P r.reverse := by
    intro r
    induction r with
    | nil => exact nil
    | cons a r ih => simpa using snoc _ a ih
  intro l
  simpa using this l.reverse

theorem nodup_subset_length_le {α : Type} [DecidableEq α] :
    ∀ {l m : List α}, l.Nodup → (∀ x ∈ l, x ∈ m) → l.length ≤ m.length
  | [], _, _, _ => Nat.zero_le _
  | a :: l, m, hn, hs => by
    have ha : a ∈ m := hs a List.mem_cons_self
    have hn' := List.nodup_cons.mp hn
    have : l.length ≤ (m.erase a).length := by
      apply nodup_subset_length_le hn'.2
      intro x hx
      have hne : x ≠ a := fun h => hn'.1 (h ▸ hx)
      exact (List.mem_erase_of_ne hne).mpr (hs x (List.mem_cons_of_mem _ hx))
    have hl := List.length_erase_of_mem ha
    have hpos : 0 < m.length := List.length_pos_of_mem ha
    simp only [List.length_cons]
    omega

theorem nodup_filter {α : Type} {l : List α} (p : α → Bool) (h : l.Nodup) : (l.filter p).Nodup :=
  List.Nodup.sublist List.filter_sublist h

/-- strict decrease of a filter's length when the predicate shrinks and loses a witness -/
theorem filter_length_lt {α : Type} (p q : α → Bool) :
    ∀ (l : List α), (∀ x ∈ l, q x = true → p x = true) → (∃ x ∈ l, p x = true ∧ q x = false) →
      (l.filter q).length < (l.filter p).length
  | [], _, ⟨_, hx, _⟩ => by cases hx
  | a :: l, himp, ⟨x, hx, hpx, hqx⟩ => by
    have himp' : ∀ x ∈ l, q x = true → p x = true := fun y hy => himp y (List.mem_cons_of_mem _ hy)
    have hle : ∀ (l : List α), (∀ x ∈ l, q x = true → p x = true) →
        (l.filter q).length ≤ (l.filter p).length := by
      intro l
      induction l with
      | nil => intro _; simp
      | cons b l ih =>
        intro hi
        have := ih (fun y hy => hi y (List.mem_cons_of_mem _ hy))
        have hb := hi b List.mem_cons_self
        simp only [List.filter_cons]
        by_cases hqb : q b = true
        · simp [hqb, hb hqb]; omega
        · by_cases hpb : p b = true
          · simp [hqb, hpb]; omega
          · simp [hqb, hpb]; omega
    rcases List.mem_cons.mp hx with rfl | hx'
    · have := hle l himp'
      simp [hpx, hqx]; omega
    · have ih := filter_length_lt p q l himp' ⟨x, hx', hpx, hqx⟩
      have ha := himp a List.mem_cons_self
      simp only [List.filter_cons]
      by_cases hqa : q a = true
      · simp [hqa, ha hqa]; omega
      · by_cases hpa : p a = true
        · simp [hqa, hpa]; omega
        · simp [hqa, hpa]; omega

/-! ## §1 `sortHashes` -/

namespace GraphOrd

theorem bytesLt_irrefl (a : Bytes) : bytesLt a a = false := by
  induction a with
  | nil => rfl
  | cons x xs ih => simp [bytesLt, ih]

theorem bytesLt_trans : ∀ {a b c : Bytes}, bytesLt a b = true → bytesLt b c = true → bytesLt a c = true
  | [], [], _, h, _ => by simp [bytesLt] at h
  | [], _ :: _, [], _, h => by simp [bytesLt] at h
  | [], _ :: _, _ :: _, _, _ => by simp [bytesLt]
  | _ :: _, [], _, h, _ => by simp [bytesLt] at h
  | _ :: _, _ :: _, [], _, h => by simp [bytesLt] at h
  | x :: xs, y :: ys, z :: zs, h₁, h₂ => by
    simp only [bytesLt, Bool.or_eq_true, Bool.and_eq_true, decide_eq_true_eq, beq_iff_eq] at *
    rcases h₁ with h₁ | ⟨rfl, h₁⟩
    · rcases h₂ with h₂ | ⟨rfl, _⟩
      · exact .inl (UInt8.lt_trans h₁ h₂)
      · exact .inl h₁
    · rcases h₂ with h₂ | ⟨rfl, h₂⟩
      · exact .inl h₂
      · exact .inr ⟨rfl, bytesLt_trans h₁ h₂⟩

theorem bytesLt_total : ∀ {a b : Bytes}, a ≠ b → bytesLt a b = true ∨ bytesLt b a = true
  | [], [], h => absurd rfl h
  | [], _ :: _, _ => by simp [bytesLt]
  | _ :: _, [], _ => by simp [bytesLt]
  | x :: xs, y :: ys, h => by
    simp only [bytesLt, Bool.or_eq_true, Bool.and_eq_true, decide_eq_true_eq, beq_iff_eq]
    by_cases hxy : x = y
    · subst hxy
      have : xs ≠ ys := fun he => h (by rw [he])
      rcases bytesLt_total this with h' | h'
      · exact .inl (.inr ⟨rfl, h'⟩)
      · exact .inr (.inr ⟨rfl, h'⟩)
    · rcases UInt8.lt_or_lt_of_ne hxy with h' | h'
      · exact .inl (.inl h')
      · exact .inr (.inl h')

end GraphOrd

/-- strictly ascending in byte order (hence duplicate-free) -/
def SortedHashes (l : List Hash) : Prop := l.Pairwise (fun a b => bytesLt a b = true)

instance (l : List Hash) : Decidable (SortedHashes l) := by unfold SortedHashes; infer_instance

theorem SortedHashes.nodup {l : List Hash} (h : SortedHashes l) : l.Nodup := by
  refine List.Pairwise.imp ?_ h
  intro a b hab he
  subst he
  rw [GraphOrd.bytesLt_irrefl] at hab
  cases hab

theorem mem_insertHash {k x : Hash} {l : List Hash} : x ∈ insertHash k l ↔ x = k ∨ x ∈ l := by
  induction l with
  | nil => simp [insertHash]
  | cons y ys ih =>
    simp only [insertHash]
    split
    · rename_i h
      have : k = y := by simpa using h
      subst this
      simp
    · split
      · simp
      · simp only [List.mem_cons, ih]
        constructor
        · rintro (h | h | h) <;> simp [h]
        · rintro (h | h | h) <;> simp [h]

theorem insertHash_sorted (k : Hash) {l : List Hash} (h : SortedHashes l) :
    SortedHashes (insertHash k l) := by
  unfold SortedHashes at *
  induction l with
  | nil => exact List.pairwise_singleton _ _
  | cons y ys ih =>
    simp only [insertHash]
    split
    · exact h
    · rename_i hne
      have hne : k ≠ y := by simpa using hne
      split
      · rename_i hlt
        refine List.Pairwise.cons (fun b hb => ?_) h
        rcases List.mem_cons.mp hb with rfl | hb
        · exact hlt
        · exact GraphOrd.bytesLt_trans hlt (List.rel_of_pairwise_cons h hb)
      · rename_i hnlt
        refine List.Pairwise.cons (fun b hb => ?_) (ih (List.Pairwise.of_cons h))
        rcases mem_insertHash.mp hb with rfl | hb
        · rcases GraphOrd.bytesLt_total hne with h' | h'
          · exact absurd h' hnlt
          · exact h'
        · exact List.rel_of_pairwise_cons h hb

theorem mem_sortHashes {l : List Hash} {h : Hash} : h ∈ sortHashes l ↔ h ∈ l := by
  induction l with
  | nil => simp [sortHashes]
  | cons x xs ih =>
    have : sortHashes (x :: xs) = insertHash x (sortHashes xs) := rfl
    rw [this, mem_insertHash, ih]; simp

theorem sortHashes_sorted (l : List Hash) : SortedHashes (sortHashes l) := by
  induction l with
  | nil => exact List.Pairwise.nil
  | cons x xs ih => exact insertHash_sorted x ih

/-! ## §2 `DepsClosed` and `headsOf` -/

def hashes (l : List Change) : List Hash := l.map (·.hash)

@[simp] theorem hashes_nil : hashes [] = [] := rfl
@[simp] theorem hashes_append (l m : List Change) : hashes (l ++ m) = hashes l ++ hashes m := by
  simp [hashes]
@[simp] theorem hashes_cons (c : Change) (l : List Change) : hashes (c :: l) = c.hash :: hashes l := rfl

theorem mem_hashes {l : List Change} {h : Hash} : h ∈ hashes l ↔ ∃ c ∈ l, c.hash = h := by
  simp [hashes]

theorem mem_hashes_of_mem {l : List Change} {c : Change} (h : c ∈ l) : c.hash ∈ hashes l :=
  mem_hashes.mpr ⟨c, h, rfl⟩

theorem any_hash_iff {l : List Change} {h : Hash} :
    l.any (fun r => r.hash == h) = true ↔ h ∈ hashes l := by
  simp [mem_hashes]

theorem hasChange_iff {d : Doc} {h : Hash} : d.hasChange h = true ↔ h ∈ hashes d.applied := by
  unfold Doc.hasChange; exact any_hash_iff

theorem queueHas_iff {d : Doc} {h : Hash} : d.queueHas h = true ↔ h ∈ hashes d.queue := by
  unfold Doc.queueHas; exact any_hash_iff

theorem hasChange_false_iff {d : Doc} {h : Hash} : d.hasChange h = false ↔ h ∉ hashes d.applied := by
  rw [← hasChange_iff]; simp

/-- reverse-order reading of `DepsClosed` (head = latest change) -/
def DepsClosedRev : List Change → Prop
  | [] => True
  | c :: earlier => (∀ dep ∈ c.deps, dep ∈ hashes earlier) ∧ DepsClosedRev earlier

instance : (l : List Change) → Decidable (DepsClosedRev l)
  | [] => isTrue trivial
  | c :: earlier =>
    have : Decidable (DepsClosedRev earlier) := instDecidableDepsClosedRev earlier
    by unfold DepsClosedRev; infer_instance

/-- topological order: every dep of a change in the list is the hash of an EARLIER change -/
def DepsClosed (l : List Change) : Prop := DepsClosedRev l.reverse

instance (l : List Change) : Decidable (DepsClosed l) := by unfold DepsClosed; infer_instance

@[simp] theorem depsClosed_nil : DepsClosed [] := trivial

theorem depsClosed_snoc {l : List Change} {c : Change} :
    DepsClosed (l ++ [c]) ↔ DepsClosed l ∧ ∀ dep ∈ c.deps, dep ∈ hashes l := by
  unfold DepsClosed
  simp only [List.reverse_append, List.reverse_cons, List.reverse_nil, List.nil_append,
    List.singleton_append, DepsClosedRev]
  constructor
  · rintro ⟨h₁, h₂⟩
    refine ⟨h₂, fun dep hd => ?_⟩
    have := h₁ dep hd
    simpa [hashes] using this
  · rintro ⟨h₁, h₂⟩
    refine ⟨fun dep hd => ?_, h₁⟩
    have := h₂ dep hd
    simpa [hashes] using this

theorem DepsClosed.prefix {l m : List Change} (h : DepsClosed (l ++ m)) : DepsClosed l := by
  induction m using snoc_induction with
  | nil => simpa using h
  | snoc m a ih =>
    rw [← List.append_assoc] at h
    exact ih (depsClosed_snoc.mp h).1

/-- the pointwise reading: deps of the element at any split point are hashes of the prefix -/
theorem DepsClosed.deps_mem {l : List Change} (h : DepsClosed l) {pre post : List Change} {c : Change}
    (hl : l = pre ++ c :: post) : ∀ dep ∈ c.deps, dep ∈ hashes pre := by
  subst hl
  have : DepsClosed ((pre ++ [c]) ++ post) := by simpa using h
  exact (depsClosed_snoc.mp this.prefix).2

theorem DepsClosed.deps_applied {l : List Change} (h : DepsClosed l) {c : Change} (hc : c ∈ l) :
    ∀ dep ∈ c.deps, dep ∈ hashes l := by
  obtain ⟨pre, post, rfl⟩ := List.append_of_mem hc
  intro dep hd
  have := h.deps_mem rfl dep hd
  simp [this]

theorem headsOf_snoc (l : List Change) (c : Change) :
    headsOf (l ++ [c]) = (headsOf l).filter (fun h => !c.deps.contains h) ++ [c.hash] := by
  simp [headsOf, List.foldl_append]

/-- **C04 (heads)**: `update_heads` folded over a topologically ordered list of changes with
    distinct hashes leaves exactly the hashes no other change depends on. -/
theorem headsOf_spec {applied : List Change} (hc : DepsClosed applied) (hn : (hashes applied).Nodup)
    (h : Hash) :
    h ∈ headsOf applied ↔ (∃ c ∈ applied, c.hash = h) ∧ ¬ ∃ c ∈ applied, h ∈ c.deps := by
  induction applied using snoc_induction generalizing h with
  | nil => simp [headsOf]
  | snoc l c ih =>
    obtain ⟨hcl, hdeps⟩ := depsClosed_snoc.mp hc
    rw [hashes_append, List.nodup_append] at hn
    obtain ⟨hnl, _, hdisj⟩ := hn
    have hfresh : c.hash ∉ hashes l := fun hm => hdisj _ hm c.hash (by simp [hashes]) rfl
    rw [headsOf_snoc]
    simp only [List.mem_append, List.mem_filter, ih hcl hnl, Bool.not_eq_true',
      List.mem_cons, List.not_mem_nil, or_false]
    constructor
    · rintro (⟨⟨⟨x, hx, rfl⟩, hno⟩, hnd⟩ | rfl)
      · refine ⟨⟨x, .inl hx, rfl⟩, ?_⟩
        rintro ⟨y, hy | rfl, hyd⟩
        · exact hno ⟨y, hy, hyd⟩
        · rw [List.contains_iff_mem.mpr hyd] at hnd; cases hnd
      · refine ⟨⟨c, .inr rfl, rfl⟩, ?_⟩
        rintro ⟨y, hy | rfl, hyd⟩
        · exact hfresh (hcl.deps_applied hy _ hyd)
        · exact hfresh (hdeps _ hyd)
    · rintro ⟨⟨x, hx | rfl, rfl⟩, hno⟩
      · left
        refine ⟨⟨⟨x, hx, rfl⟩, fun ⟨y, hy, hyd⟩ => hno ⟨y, .inl hy, hyd⟩⟩, ?_⟩
        cases hcd : c.deps.contains x.hash
        · rfl
        · exact (hno ⟨c, .inr rfl, List.contains_iff_mem.mp hcd⟩).elim
      · right; rfl

/-! ## §3 the document invariant -/

def actorSeqs (l : List Change) : List (Bytes × Nat) := l.map (fun c => (c.actor, c.seq))

@[simp] theorem actorSeqs_append (l m : List Change) : actorSeqs (l ++ m) = actorSeqs l ++ actorSeqs m := by
  simp [actorSeqs]

theorem mem_actorSeqs {l : List Change} {p : Bytes × Nat} :
    p ∈ actorSeqs l ↔ ∃ c ∈ l, c.actor = p.1 ∧ c.seq = p.2 := by
  simp only [actorSeqs, List.mem_map]
  constructor
  · rintro ⟨c, hc, rfl⟩; exact ⟨c, hc, rfl, rfl⟩
  · rintro ⟨c, hc, h₁, h₂⟩; exact ⟨c, hc, by rw [h₁, h₂]⟩

theorem nodup_of_map {α β : Type} (f : α → β) {l : List α} (h : (l.map f).Nodup) : l.Nodup := by
  unfold List.Nodup at *
  rw [List.pairwise_map] at h
  exact h.imp (fun hab he => hab (by rw [he]))

theorem inj_of_nodup_map {α β : Type} (f : α → β) :
    ∀ {l : List α}, (l.map f).Nodup → ∀ a ∈ l, ∀ b ∈ l, f a = f b → a = b
  | [], _, _, ha, _, _, _ => by cases ha
  | x :: l, h, a, ha, b, hb, hab => by
    simp only [List.map_cons, List.nodup_cons, List.mem_map, not_exists, not_and] at h
    rcases List.mem_cons.mp ha with rfl | ha' <;> rcases List.mem_cons.mp hb with rfl | hb'
    · rfl
    · exact (h.1 b hb' hab.symm).elim
    · exact (h.1 a ha' hab).elim
    · exact inj_of_nodup_map f h.2 a ha' b hb' hab

theorem hash_inj {l : List Change} (h : (hashes l).Nodup) {a b : Change} (ha : a ∈ l) (hb : b ∈ l)
    (hab : a.hash = b.hash) : a = b := inj_of_nodup_map _ h a ha b hb hab

theorem nodup_of_hashes {l : List Change} (h : (hashes l).Nodup) : l.Nodup := nodup_of_map _ h

/-- The invariant of every reachable document.
    (i) all known changes (applied or queued) have pairwise distinct hashes — in particular the
        queue is disjoint from the applied changes;
    (ii) the applied changes are in a topological order of the dependency relation;
    (iii) no queued change is causally ready;
    (iv) **C38**: all known changes have pairwise distinct (actor, seq). -/
structure Doc.Inv (d : Doc) : Prop where
  hashNodup : (hashes (d.applied ++ d.queue)).Nodup
  depsClosed : DepsClosed d.applied
  noneReady : ∀ c ∈ d.queue, ∃ dep ∈ c.deps, d.hasChange dep = false
  seqNodup : (actorSeqs (d.applied ++ d.queue)).Nodup

instance (d : Doc) : Decidable d.Inv :=
  decidable_of_iff
    ((hashes (d.applied ++ d.queue)).Nodup ∧ DepsClosed d.applied ∧
      (∀ c ∈ d.queue, ∃ dep ∈ c.deps, d.hasChange dep = false) ∧
      (actorSeqs (d.applied ++ d.queue)).Nodup)
    ⟨fun ⟨a, b, c, e⟩ => ⟨a, b, c, e⟩, fun h => ⟨h.1, h.2, h.3, h.4⟩⟩

/-- `Inv` without (iii): what holds between `ChangeQueue::extend` and `pop_topo_sorted_ready` -/
structure Doc.Inv0 (d : Doc) : Prop where
  hashNodup : (hashes (d.applied ++ d.queue)).Nodup
  depsClosed : DepsClosed d.applied
  seqNodup : (actorSeqs (d.applied ++ d.queue)).Nodup

theorem Doc.Inv.inv0 {d : Doc} (h : d.Inv) : d.Inv0 := ⟨h.hashNodup, h.depsClosed, h.seqNodup⟩

theorem Doc.empty_inv : Doc.empty.Inv := by decide

theorem Doc.Inv0.applied_nodup {d : Doc} (h : d.Inv0) : (hashes d.applied).Nodup := by
  have := h.hashNodup
  rw [hashes_append, List.nodup_append] at this
  exact this.1

theorem Doc.Inv0.queue_nodup {d : Doc} (h : d.Inv0) : (hashes d.queue).Nodup := by
  have := h.hashNodup
  rw [hashes_append, List.nodup_append] at this
  exact this.2.1

theorem Doc.Inv0.disjoint {d : Doc} (h : d.Inv0) {x : Hash} (ha : x ∈ hashes d.applied)
    (hq : x ∈ hashes d.queue) : False := by
  have := h.hashNodup
  rw [hashes_append, List.nodup_append] at this
  exact this.2.2 x ha x hq rfl

/-- a known change is applied iff all its deps are applied: "takes effect exactly when its last
    missing ancestor arrives" as a state invariant -/
theorem Doc.Inv.applied_iff_ready {d : Doc} (h : d.Inv) {c : Change} (hc : c ∈ d.applied ++ d.queue) :
    c ∈ d.applied ↔ ∀ dep ∈ c.deps, d.hasChange dep = true := by
  constructor
  · intro ha dep hd
    exact hasChange_iff.mpr (h.depsClosed.deps_applied ha dep hd)
  · intro hall
    rcases List.mem_append.mp hc with ha | hq
    · exact ha
    · obtain ⟨dep, hd, hf⟩ := h.noneReady c hq
      rw [hall dep hd] at hf; cases hf

/-- **C04**: `get_heads` of a document satisfying the invariant -/
theorem Doc.Inv0.mem_heads {d : Doc} (h : d.Inv0) (x : Hash) :
    x ∈ d.heads ↔ (∃ c ∈ d.applied, c.hash = x) ∧ ¬ ∃ c ∈ d.applied, x ∈ c.deps := by
  unfold Doc.heads
  rw [mem_sortHashes, headsOf_spec h.depsClosed h.applied_nodup]

theorem Doc.heads_sorted (d : Doc) : SortedHashes d.heads := sortHashes_sorted _

/-! ### `seq_for_actor` -/

theorem foldl_max_le (l : List Change) (m : Nat) :
    m ≤ l.foldl (fun m c => max m c.seq) m ∧ ∀ c ∈ l, c.seq ≤ l.foldl (fun m c => max m c.seq) m := by
  induction l generalizing m with
  | nil => simp
  | cons x l ih =>
    simp only [List.foldl_cons, List.mem_cons, forall_eq_or_imp]
    have h1 := (ih (max m x.seq)).1
    have h2 := (ih (max m x.seq)).2
    refine ⟨by omega, by omega, h2⟩

theorem foldl_max_attained (l : List Change) (m : Nat) :
    l.foldl (fun m c => max m c.seq) m = m ∨ ∃ c ∈ l, c.seq = l.foldl (fun m c => max m c.seq) m := by
  induction l generalizing m with
  | nil => simp
  | cons x l ih =>
    simp only [List.foldl_cons, List.mem_cons]
    rcases ih (max m x.seq) with h | ⟨c, hc, he⟩
    · rw [h]
      by_cases hm : x.seq ≤ m
      · left; omega
      · right; exact ⟨x, .inl rfl, by omega⟩
    · right; exact ⟨c, .inr hc, he⟩

theorem le_seqForActor {d : Doc} {x : Change} (hx : x ∈ d.applied) : x.seq ≤ d.seqForActor x.actor := by
  unfold Doc.seqForActor
  apply (foldl_max_le _ 0).2
  simp [hx]

theorem seqForActor_attained {d : Doc} {a : Bytes} (h : 0 < d.seqForActor a) :
    ∃ x ∈ d.applied, x.actor = a ∧ x.seq = d.seqForActor a := by
  unfold Doc.seqForActor at *
  rcases foldl_max_attained (d.applied.filter (fun c => c.actor == a)) 0 with h0 | ⟨c, hc, he⟩
  · omega
  · simp only [List.mem_filter, beq_iff_eq] at hc
    exact ⟨c, hc.1, hc.2, he⟩

theorem hasActorSeq_false {d : Doc} {c : Change} (h : d.hasActorSeq c = false) :
    (c.actor, c.seq) ∉ actorSeqs d.applied := by
  intro hm
  obtain ⟨x, hx, ha, hs⟩ := mem_actorSeqs.mp hm
  have := le_seqForActor hx
  simp only [Doc.hasActorSeq, decide_eq_false_iff_not] at h
  simp only at ha hs
  rw [ha] at this
  omega

theorem queueHasActorSeq_iff {q : List Change} {c : Change} :
    queueHasActorSeq q c = true ↔ (c.actor, c.seq) ∈ actorSeqs q := by
  simp only [queueHasActorSeq, List.any_eq_true, Bool.and_eq_true, beq_iff_eq, mem_actorSeqs]

/-! ## §4 `remove_actor_branch_from` -/

/-- the hashes `remove_actor_branch_from q actor seq` has to remove: queued changes of `actor` with
    sequence number ≥ `seq` and, transitively, queued changes depending on one of them -/
inductive InBranch (q : List Change) (actor : Bytes) (seq : Nat) : Hash → Prop
  | base {c : Change} : c ∈ q → c.actor = actor → seq ≤ c.seq → InBranch q actor seq c.hash
  | step {c : Change} {dep : Hash} :
      InBranch q actor seq dep → c ∈ q → dep ∈ c.deps → InBranch q actor seq c.hash

theorem closeRemoved_spec (q : List Change) (a : Bytes) (n : Nat) :
    ∀ (fuel : Nat) (removed : List Hash),
      (q.filter (fun c => !removed.contains c.hash)).length ≤ fuel →
      (∀ h ∈ removed, InBranch q a n h) →
      (∀ h ∈ removed, h ∈ closeRemoved q fuel removed) ∧
      (∀ h ∈ closeRemoved q fuel removed, InBranch q a n h) ∧
      (∀ c ∈ q, c.hash ∉ closeRemoved q fuel removed →
        ∀ dep ∈ c.deps, dep ∉ closeRemoved q fuel removed) := by
  intro fuel
  induction fuel with
  | zero =>
    intro removed hlen hin
    simp only [closeRemoved]
    refine ⟨fun h hh => hh, hin, ?_⟩
    intro c hc hnot
    have hnil : q.filter (fun c => !removed.contains c.hash) = [] :=
      List.eq_nil_of_length_eq_zero (Nat.le_zero.mp hlen)
    have := List.filter_eq_nil_iff.mp hnil c hc
    simp only [Bool.not_eq_true', Bool.not_eq_false, List.contains_iff_mem] at this
    exact (hnot this).elim
  | succ fuel ih =>
    intro removed hlen hin
    simp only [closeRemoved]
    split
    · rename_i hemp
      refine ⟨fun h hh => hh, hin, ?_⟩
      intro c hc hnot dep hd hdr
      have hnil := List.isEmpty_iff.mp hemp
      rw [List.map_eq_nil_iff] at hnil
      have := List.filter_eq_nil_iff.mp hnil c hc
      apply this
      simp only [Bool.and_eq_true, Bool.not_eq_true', List.any_eq_true, List.contains_iff_mem]
      refine ⟨?_, dep, hd, hdr⟩
      cases hcc : removed.contains c.hash
      · rfl
      · exact (hnot (List.contains_iff_mem.mp hcc)).elim
    · rename_i hne
      generalize hmore : (q.filter (fun c => !removed.contains c.hash &&
        c.deps.any (fun d => removed.contains d))).map (·.hash) = more at hne
      have hmem : ∀ h ∈ more, ∃ c ∈ q, c.hash = h ∧ c.hash ∉ removed ∧ ∃ dep ∈ c.deps, dep ∈ removed := by
        intro h hh
        rw [← hmore] at hh
        simp only [List.mem_map, List.mem_filter, Bool.and_eq_true, Bool.not_eq_true',
          List.any_eq_true, List.contains_iff_mem] at hh
        obtain ⟨c, ⟨hc, hnr, dep, hd, hdr⟩, rfl⟩ := hh
        refine ⟨c, hc, rfl, ?_, dep, hd, hdr⟩
        intro hm
        rw [List.contains_iff_mem.mpr hm] at hnr; cases hnr
      have hin' : ∀ h ∈ removed ++ more, InBranch q a n h := by
        intro h hh
        rcases List.mem_append.mp hh with hh | hh
        · exact hin h hh
        · obtain ⟨c, hc, rfl, _, dep, hd, hdr⟩ := hmem h hh
          exact .step (hin dep hdr) hc hd
      have hlen' : (q.filter (fun c => !(removed ++ more).contains c.hash)).length ≤ fuel := by
        have hex : ∃ h, h ∈ more := by
          cases more with
          | nil => simp at hne
          | cons h t => exact ⟨h, List.mem_cons_self⟩
        obtain ⟨h, hh⟩ := hex
        obtain ⟨c, hc, rfl, hnr, _⟩ := hmem h hh
        have := filter_length_lt (fun c => !removed.contains c.hash)
          (fun c => !(removed ++ more).contains c.hash) q
          (by
            intro x _ hx
            simp only [Bool.not_eq_true', List.contains_eq_mem, List.mem_append,
              decide_eq_false_iff_not, not_or] at hx ⊢
            exact hx.1)
          ⟨c, hc, by simp [hnr], by simp [hh]⟩
        omega
      obtain ⟨h1, h2, h3⟩ := ih (removed ++ more) hlen' hin'
      exact ⟨fun h hh => h1 h (List.mem_append_left _ hh), h2, h3⟩

/-- **C38 (third sentence)**: `remove_actor_branch_from` removes exactly the conflicting branch:
    the queued changes of the actor at or after the claimed sequence number and everything queued
    that transitively depends on them; every other queued change stays, in order. -/
theorem mem_removeActorBranchFrom {q : List Change} {a : Bytes} {n : Nat} {x : Change} :
    x ∈ removeActorBranchFrom q a n ↔ x ∈ q ∧ ¬ InBranch q a n x.hash := by
  unfold removeActorBranchFrom
  generalize hr0 : (q.filter (fun c => c.actor == a && decide (c.seq ≥ n))).map (·.hash) = removed0
  have hin0 : ∀ h ∈ removed0, InBranch q a n h := by
    intro h hh
    rw [← hr0] at hh
    simp only [List.mem_map, List.mem_filter, Bool.and_eq_true, beq_iff_eq, decide_eq_true_eq] at hh
    obtain ⟨c, ⟨hc, ha, hs⟩, rfl⟩ := hh
    exact .base hc ha hs
  obtain ⟨h1, h2, h3⟩ := closeRemoved_spec q a n q.length removed0 (List.length_filter_le _ _) hin0
  have hall : ∀ h, InBranch q a n h → h ∈ closeRemoved q q.length removed0 := by
    intro h hb
    induction hb with
    | base hc ha hs =>
      apply h1
      rw [← hr0]
      simp only [List.mem_map, List.mem_filter, Bool.and_eq_true, beq_iff_eq, decide_eq_true_eq]
      exact ⟨_, ⟨hc, ha, hs⟩, rfl⟩
    | @step c dep _ hc hd ih =>
      by_cases hm : c.hash ∈ closeRemoved q q.length removed0
      · exact hm
      · exact (h3 c hc hm dep hd ih).elim
  simp only [List.mem_filter, Bool.not_eq_true', List.contains_eq_mem, decide_eq_false_iff_not]
  constructor
  · rintro ⟨hx, hn⟩
    exact ⟨hx, fun hb => hn (hall _ hb)⟩
  · rintro ⟨hx, hn⟩
    exact ⟨hx, fun hm => hn (h2 _ hm)⟩

theorem removeActorBranchFrom_eq_filter (q : List Change) (a : Bytes) (n : Nat) :
    ∃ p : Change → Bool, removeActorBranchFrom q a n = q.filter p := ⟨_, rfl⟩

theorem removeActorBranchFrom_sublist (q : List Change) (a : Bytes) (n : Nat) :
    (removeActorBranchFrom q a n).Sublist q := List.filter_sublist

/-! ## §5 `collectBatch` -/

/-- what the `ChangeBatch` being filled satisfies relative to the document -/
structure BatchOK (d : Doc) (batch : List Change) : Prop where
  hashNodup : (hashes batch).Nodup
  fresh : ∀ c ∈ batch, c.hash ∉ hashes d.applied ∧ c.hash ∉ hashes d.queue
  seqNodup : (actorSeqs batch).Nodup
  seqFresh : ∀ c ∈ batch, (c.actor, c.seq) ∉ actorSeqs d.applied ∧ (c.actor, c.seq) ∉ actorSeqs d.queue

theorem BatchOK.nil (d : Doc) : BatchOK d [] :=
  ⟨by simp, by simp, by simp [actorSeqs], by simp⟩

theorem collectBatch_ok {d : Doc} : ∀ {cs batch : List Change} {q b' : List Change},
    BatchOK d batch → collectBatch d cs batch = (q, .ok b') →
    BatchOK d b' ∧ q = d.queue ∧ (∃ new, b' = batch ++ new ∧ ∀ c ∈ new, c ∈ cs) ∧
      (∀ c ∈ cs, c.hash ∈ hashes d.applied ∨ c.hash ∈ hashes d.queue ∨ c.hash ∈ hashes b')
  | [], batch, q, b', hb, h => by
    simp only [collectBatch, Prod.mk.injEq, Except.ok.injEq] at h
    obtain ⟨rfl, rfl⟩ := h
    exact ⟨hb, rfl, ⟨[], by simp, by simp⟩, by simp⟩
  | c :: cs, batch, q, b', hb, h => by
    simp only [collectBatch] at h
    split at h
    · -- already applied or queued
      rename_i hskip
      obtain ⟨h1, h2, ⟨new, h3, h4⟩, h5⟩ := collectBatch_ok hb h
      refine ⟨h1, h2, ⟨new, h3, fun x hx => List.mem_cons_of_mem _ (h4 x hx)⟩, ?_⟩
      intro x hx
      rcases List.mem_cons.mp hx with rfl | hx
      · simp only [Bool.or_eq_true, hasChange_iff, queueHas_iff] at hskip
        rcases hskip with hs | hs
        · exact .inl hs
        · exact .inr (.inl hs)
      · exact h5 x hx
    · rename_i hnskip
      simp only [Bool.or_eq_true, hasChange_iff, queueHas_iff, not_or] at hnskip
      split at h
      · simp at h
      · rename_i hnas
        split at h
        · simp at h
        · rename_i hnqs
          split at h
          · -- already in the batch
            rename_i hinb
            obtain ⟨h1, h2, ⟨new, h3, h4⟩, h5⟩ := collectBatch_ok hb h
            refine ⟨h1, h2, ⟨new, h3, fun x hx => List.mem_cons_of_mem _ (h4 x hx)⟩, ?_⟩
            intro x hx
            rcases List.mem_cons.mp hx with rfl | hx
            · right; right
              rw [h3, hashes_append]
              exact List.mem_append_left _ (any_hash_iff.mp hinb)
            · exact h5 x hx
          · rename_i hninb
            split at h
            · simp at h
            · rename_i hnbs
              have hb' : BatchOK d (batch ++ [c]) := by
                have hnas' := hasActorSeq_false (Bool.eq_false_iff.mpr hnas)
                have hnqs' : (c.actor, c.seq) ∉ actorSeqs d.queue :=
                  fun hm => hnqs (queueHasActorSeq_iff.mpr hm)
                have hnbs' : (c.actor, c.seq) ∉ actorSeqs batch :=
                  fun hm => hnbs (queueHasActorSeq_iff.mpr hm)
                have hninb' : c.hash ∉ hashes batch := fun hm => hninb (any_hash_iff.mpr hm)
                refine ⟨?_, ?_, ?_, ?_⟩
                · rw [hashes_append, List.nodup_append]
                  refine ⟨hb.hashNodup, by simp [hashes], ?_⟩
                  intro x hx y hy hxy
                  simp only [hashes, List.map_cons, List.map_nil, List.mem_singleton] at hy
                  subst hy; subst hxy
                  exact hninb' hx
                · intro x hx
                  rcases List.mem_append.mp hx with hx | hx
                  · exact hb.fresh x hx
                  · simp only [List.mem_singleton] at hx; subst hx; exact hnskip
                · rw [actorSeqs_append, List.nodup_append]
                  refine ⟨hb.seqNodup, by simp [actorSeqs], ?_⟩
                  intro x hx y hy hxy
                  simp only [actorSeqs, List.map_cons, List.map_nil, List.mem_singleton] at hy
                  subst hy; subst hxy
                  exact hnbs' hx
                · intro x hx
                  rcases List.mem_append.mp hx with hx | hx
                  · exact hb.seqFresh x hx
                  · simp only [List.mem_singleton] at hx; subst hx; exact ⟨hnas', hnqs'⟩
              obtain ⟨h1, h2, ⟨new, h3, h4⟩, h5⟩ := collectBatch_ok hb' h
              refine ⟨h1, h2, ⟨c :: new, by simp [h3], ?_⟩, ?_⟩
              · intro x hx
                rcases List.mem_cons.mp hx with rfl | hx
                · exact List.mem_cons_self
                · exact List.mem_cons_of_mem _ (h4 x hx)
              · intro x hx
                rcases List.mem_cons.mp hx with rfl | hx
                · right; right
                  rw [h3]; simp [hashes]
                · exact h5 x hx

/-- on the error paths the queue is the old queue or the old queue pruned by
    `remove_actor_branch_from` (§6-D4: the pruning happens although the call fails) -/
theorem collectBatch_err {d : Doc} : ∀ {cs batch : List Change} {q : List Change} {e : ApplyErr},
    collectBatch d cs batch = (q, .error e) →
    ∃ c ∈ cs, e = .duplicateSeq c.seq c.actor ∧
      (q = d.queue ∨ q = removeActorBranchFrom d.queue c.actor (c.seq + 1))
  | [], batch, q, e, h => by simp [collectBatch] at h
  | c :: cs, batch, q, e, h => by
    simp only [collectBatch] at h
    have lift : (∃ x ∈ cs, e = .duplicateSeq x.seq x.actor ∧
        (q = d.queue ∨ q = removeActorBranchFrom d.queue x.actor (x.seq + 1))) →
        ∃ x ∈ c :: cs, e = .duplicateSeq x.seq x.actor ∧
        (q = d.queue ∨ q = removeActorBranchFrom d.queue x.actor (x.seq + 1)) :=
      fun ⟨x, hx, hh⟩ => ⟨x, List.mem_cons_of_mem _ hx, hh⟩
    split at h
    · exact lift (collectBatch_err h)
    · split at h
      · simp only [Prod.mk.injEq, Except.error.injEq] at h
        exact ⟨c, List.mem_cons_self, h.2.symm, .inr h.1.symm⟩
      · split at h
        · simp only [Prod.mk.injEq, Except.error.injEq] at h
          exact ⟨c, List.mem_cons_self, h.2.symm, .inl h.1.symm⟩
        · split at h
          · exact lift (collectBatch_err h)
          · split at h
            · simp only [Prod.mk.injEq, Except.error.injEq] at h
              exact ⟨c, List.mem_cons_self, h.2.symm, .inl h.1.symm⟩
            · exact lift (collectBatch_err h)

/-! ## §6 Kahn's algorithm -/

theorem isSat_iff {d : Doc} {rel : List Change} {x : Change} :
    isSat d rel x = true ↔ ∀ dep ∈ x.deps, dep ∈ hashes d.applied ∨ dep ∈ hashes rel := by
  simp only [isSat, List.all_eq_true, Bool.or_eq_true, hasChange_iff, any_hash_iff]

theorem isSat_mono {d : Doc} {rel rel' : List Change} {x : Change}
    (hsub : ∀ h ∈ hashes rel, h ∈ hashes rel') (h : isSat d rel x = true) : isSat d rel' x = true := by
  rw [isSat_iff] at *
  intro dep hd
  rcases h dep hd with h | h
  · exact .inl h
  · exact .inr (hsub _ h)

theorem any_hash_false_iff {l : List Change} {h : Hash} :
    l.any (fun r => r.hash == h) = false ↔ h ∉ hashes l := by
  rw [← any_hash_iff]; simp

/-- the changes whose last unsatisfied dep was `c` (body of the `waiting_on.remove(&hash)` loop) -/
def newlyReady (d : Doc) (pool : List Change) (c : Change) (rest done : List Change) : List Change :=
  pool.filter (fun x =>
    x.deps.contains c.hash && isSat d (done ++ [c]) x && !isSat d done x
      && !((done ++ [c]).any (fun r => r.hash == x.hash)) && !(rest.any (fun r => r.hash == x.hash)))

theorem kahnLoop_cons (d : Doc) (pool : List Change) (fuel : Nat) (c : Change) (rest done : List Change) :
    kahnLoop d pool (fuel + 1) (c :: rest) done
      = kahnLoop d pool fuel (rest ++ newlyReady d pool c rest done) (done ++ [c]) := rfl

theorem mem_newlyReady {d : Doc} {pool : List Change} {c : Change} {rest done : List Change} {x : Change} :
    x ∈ newlyReady d pool c rest done ↔
      x ∈ pool ∧ c.hash ∈ x.deps ∧ isSat d (done ++ [c]) x = true ∧ isSat d done x = false ∧
        x.hash ∉ hashes (done ++ [c]) ∧ x.hash ∉ hashes rest := by
  simp only [newlyReady, List.mem_filter, Bool.and_eq_true, List.contains_iff_mem, Bool.not_eq_true',
    any_hash_false_iff]
  constructor
  · rintro ⟨h0, ⟨⟨⟨h1, h2⟩, h3⟩, h4⟩, h5⟩; exact ⟨h0, h1, h2, h3, h4, h5⟩
  · rintro ⟨h0, h1, h2, h3, h4, h5⟩; exact ⟨h0, ⟨⟨⟨h1, h2⟩, h3⟩, h4⟩, h5⟩

structure KInv (d : Doc) (pool ready done : List Change) : Prop where
  sub : ∀ x ∈ done ++ ready, x ∈ pool
  nodup : (done ++ ready).Nodup
  readySat : ∀ x ∈ ready, isSat d done x = true
  closed : DepsClosed (d.applied ++ done)
  complete : ∀ x ∈ pool, isSat d done x = true → x ∈ done ∨ x ∈ ready

theorem KInv.step {d : Doc} {pool : List Change} (hpn : (hashes pool).Nodup)
    {c : Change} {rest done : List Change} (k : KInv d pool (c :: rest) done) :
    KInv d pool (rest ++ newlyReady d pool c rest done) (done ++ [c]) := by
  have hcpool : c ∈ pool := k.sub c (by simp)
  have hmono : ∀ h ∈ hashes done, h ∈ hashes (done ++ [c]) := by
    intro h hh; rw [hashes_append]; exact List.mem_append_left _ hh
  have heq : (done ++ [c]) ++ (rest ++ newlyReady d pool c rest done)
      = (done ++ c :: rest) ++ newlyReady d pool c rest done := by simp
  refine ⟨?_, ?_, ?_, ?_, ?_⟩
  · intro x hx
    rw [heq] at hx
    rcases List.mem_append.mp hx with hx | hx
    · exact k.sub x hx
    · exact (mem_newlyReady.mp hx).1
  · rw [heq, List.nodup_append]
    refine ⟨k.nodup, nodup_filter _ (nodup_of_hashes hpn), ?_⟩
    intro a ha b hb hab
    subst hab
    obtain ⟨_, _, _, _, h4, h5⟩ := mem_newlyReady.mp hb
    have : a ∈ (done ++ [c]) ++ rest := by simpa using ha
    rcases List.mem_append.mp this with h | h
    · exact h4 (mem_hashes_of_mem h)
    · exact h5 (mem_hashes_of_mem h)
  · intro x hx
    rcases List.mem_append.mp hx with hx | hx
    · exact isSat_mono hmono (k.readySat x (List.mem_cons_of_mem _ hx))
    · exact (mem_newlyReady.mp hx).2.2.1
  · rw [← List.append_assoc, depsClosed_snoc]
    refine ⟨k.closed, ?_⟩
    intro dep hd
    have := isSat_iff.mp (k.readySat c List.mem_cons_self) dep hd
    rw [hashes_append]
    exact List.mem_append.mpr this
  · intro x hx hsat
    by_cases hold : isSat d done x = true
    · rcases k.complete x hx hold with h | h
      · exact .inl (List.mem_append_left _ h)
      · rcases List.mem_cons.mp h with rfl | h
        · exact .inl (by simp)
        · exact .inr (List.mem_append_left _ h)
    · by_cases h4 : x.hash ∈ hashes (done ++ [c])
      · obtain ⟨y, hy, hyx⟩ := mem_hashes.mp h4
        have hyp : y ∈ pool := k.sub y (by
          rcases List.mem_append.mp hy with h | h
          · exact List.mem_append_left _ h
          · simp only [List.mem_singleton] at h; subst h; simp)
        have := hash_inj hpn hyp hx hyx
        subst this
        exact .inl hy
      · by_cases h5 : x.hash ∈ hashes rest
        · obtain ⟨y, hy, hyx⟩ := mem_hashes.mp h5
          have hyp : y ∈ pool := k.sub y (by simp [hy])
          have := hash_inj hpn hyp hx hyx
          subst this
          exact .inr (List.mem_append_left _ hy)
        · right
          apply List.mem_append_right
          rw [mem_newlyReady]
          refine ⟨hx, ?_, hsat, by simpa using hold, h4, h5⟩
          -- the only hash that became available is `c.hash`
          have hns : ¬ ∀ dep ∈ x.deps, dep ∈ hashes d.applied ∨ dep ∈ hashes done :=
            fun h => hold (isSat_iff.mpr h)
          have hs := isSat_iff.mp hsat
          apply Classical.byContradiction
          intro hcx
          apply hns
          intro dep hd
          rcases hs dep hd with h | h
          · exact .inl h
          · rw [hashes_append] at h
            rcases List.mem_append.mp h with h | h
            · exact .inr h
            · simp only [hashes, List.map_cons, List.map_nil, List.mem_singleton] at h
              subst h
              exact (hcx hd).elim

theorem kahnLoop_spec {d : Doc} {pool : List Change} (hpn : (hashes pool).Nodup) :
    ∀ (fuel : Nat) (ready done : List Change), KInv d pool ready done →
      pool.length + 1 ≤ fuel + done.length →
      (∃ more, kahnLoop d pool fuel ready done = done ++ more) ∧
      (∀ x ∈ kahnLoop d pool fuel ready done, x ∈ pool) ∧
      (kahnLoop d pool fuel ready done).Nodup ∧
      DepsClosed (d.applied ++ kahnLoop d pool fuel ready done) ∧
      (∀ x ∈ pool, isSat d (kahnLoop d pool fuel ready done) x = true →
        x ∈ kahnLoop d pool fuel ready done) := by
  intro fuel
  induction fuel with
  | zero =>
    intro ready done k hf
    have hdn : done.Nodup := (List.nodup_append.mp k.nodup).1
    have := nodup_subset_length_le hdn (fun x hx => k.sub x (List.mem_append_left _ hx))
    omega
  | succ fuel ih =>
    intro ready done k hf
    cases ready with
    | nil =>
      have hk : kahnLoop d pool (fuel + 1) [] done = done := by simp [kahnLoop]
      rw [hk]
      refine ⟨⟨[], by simp⟩, fun x hx => k.sub x (by simpa using hx), by simpa using k.nodup,
        k.closed, ?_⟩
      intro x hx hs
      rcases k.complete x hx hs with h | h
      · exact h
      · cases h
    | cons c rest =>
      rw [kahnLoop_cons]
      have k' := k.step hpn
      have hf' : pool.length + 1 ≤ fuel + (done ++ [c]).length := by
        simp only [List.length_append, List.length_cons, List.length_nil]; omega
      obtain ⟨⟨more, h1⟩, h2, h3, h4, h5⟩ := ih _ _ k' hf'
      refine ⟨⟨c :: more, by rw [h1]; simp⟩, h2, h3, h4, h5⟩

theorem KInv.init {d : Doc} {pool : List Change} (hpn : (hashes pool).Nodup) (hc : DepsClosed d.applied) :
    KInv d pool (pool.filter (fun x => x.deps.all (fun dep => d.hasChange dep))) [] := by
  refine ⟨?_, ?_, ?_, by simpa using hc, ?_⟩
  · intro x hx
    simp only [List.nil_append, List.mem_filter] at hx
    exact hx.1
  · simpa using nodup_filter _ (nodup_of_hashes hpn)
  · intro x hx
    simp only [List.mem_filter, List.all_eq_true, hasChange_iff] at hx
    exact isSat_iff.mpr (fun dep hd => .inl (hx.2 dep hd))
  · intro x hx hs
    right
    simp only [List.mem_filter, List.all_eq_true, hasChange_iff]
    refine ⟨hx, fun dep hd => ?_⟩
    rcases isSat_iff.mp hs dep hd with h | h
    · exact h
    · cases h

/-- `pop_topo_sorted_ready` on a document whose queue has distinct hashes: the released list is a
    duplicate-free part of the queue, in topological order after the applied changes; the rest of
    the queue keeps its order; and nothing that is (or became) ready stays behind. -/
theorem popTopoSortedReady_spec {d : Doc} (hqn : (hashes d.queue).Nodup) (hc : DepsClosed d.applied) :
    (∀ x ∈ (popTopoSortedReady d).1, x ∈ d.queue) ∧
    (popTopoSortedReady d).1.Nodup ∧
    DepsClosed (d.applied ++ (popTopoSortedReady d).1) ∧
    (popTopoSortedReady d).2.Sublist d.queue ∧
    ((popTopoSortedReady d).1 ++ (popTopoSortedReady d).2).Perm d.queue ∧
    (∀ x ∈ (popTopoSortedReady d).2,
      ∃ dep ∈ x.deps, dep ∉ hashes (d.applied ++ (popTopoSortedReady d).1)) := by
  obtain ⟨_, h2, h3, h4, h5⟩ := kahnLoop_spec hqn (d.queue.length + 1) _ [] (KInv.init hqn hc)
    (by simp)
  simp only [popTopoSortedReady]
  generalize kahnLoop d d.queue (d.queue.length + 1)
    (d.queue.filter (fun x => x.deps.all (fun dep => d.hasChange dep))) [] = topo at *
  have hrest : ∀ x, x ∈ d.queue.filter (fun x => !(topo.any (fun r => r.hash == x.hash))) ↔
      x ∈ d.queue ∧ x.hash ∉ hashes topo := by
    intro x
    simp only [List.mem_filter, Bool.not_eq_true', ← Bool.not_eq_true, any_hash_iff]
  refine ⟨h2, h3, h4, List.filter_sublist, ?_, ?_⟩
  · rw [List.perm_ext_iff_of_nodup ?_ (nodup_of_hashes hqn)]
    · intro a
      rw [List.mem_append, hrest]
      constructor
      · rintro (h | h)
        · exact h2 a h
        · exact h.1
      · intro ha
        by_cases hm : a.hash ∈ hashes topo
        · obtain ⟨y, hy, hya⟩ := mem_hashes.mp hm
          have := hash_inj hqn (h2 y hy) ha hya
          subst this
          exact .inl hy
        · exact .inr ⟨ha, hm⟩
    · rw [List.nodup_append]
      refine ⟨h3, nodup_filter _ (nodup_of_hashes hqn), ?_⟩
      intro a ha b hb hab
      subst hab
      exact ((hrest a).mp hb).2 (mem_hashes_of_mem ha)
  · intro x hx
    obtain ⟨hxq, hxt⟩ := (hrest x).mp hx
    have hns : ¬ isSat d topo x = true := by
      intro hs
      exact hxt (mem_hashes_of_mem (h5 x hxq hs))
    rw [isSat_iff] at hns
    apply Classical.byContradiction
    intro hcon
    apply hns
    intro dep hd
    apply Classical.byContradiction
    intro hno
    apply hcon
    refine ⟨dep, hd, ?_⟩
    rw [hashes_append, List.mem_append]
    exact hno

/-! ## §7 `applyBatch`, `localCommit`, reachable documents -/

theorem Doc.Inv.queue_sublist {d : Doc} (h : d.Inv) {q : List Change} (hq : q.Sublist d.queue) :
    Doc.Inv { d with queue := q } := by
  have hs : (d.applied ++ q).Sublist (d.applied ++ d.queue) := hq.append_left _
  refine ⟨List.Nodup.sublist (hs.map _) h.hashNodup, h.depsClosed, ?_,
    List.Nodup.sublist (hs.map _) h.seqNodup⟩
  intro c hc
  exact h.noneReady c (hq.subset hc)

/-- `ChangeQueue::extend` with a batch accepted by `collectBatch` -/
theorem Doc.Inv0.extend {d : Doc} (h : d.Inv0) {batch : List Change} (hb : BatchOK d batch) :
    Doc.Inv0 { d with queue := d.queue ++ batch } := by
  refine ⟨?_, h.depsClosed, ?_⟩
  · show (hashes (d.applied ++ (d.queue ++ batch))).Nodup
    rw [← List.append_assoc, hashes_append, List.nodup_append]
    refine ⟨h.hashNodup, hb.hashNodup, ?_⟩
    intro a ha b hb' hab
    subst hab
    obtain ⟨c, hc, rfl⟩ := mem_hashes.mp hb'
    rw [hashes_append] at ha
    rcases List.mem_append.mp ha with ha | ha
    · exact (hb.fresh c hc).1 ha
    · exact (hb.fresh c hc).2 ha
  · show (actorSeqs (d.applied ++ (d.queue ++ batch))).Nodup
    rw [← List.append_assoc, actorSeqs_append, List.nodup_append]
    refine ⟨h.seqNodup, hb.seqNodup, ?_⟩
    intro a ha b hb' hab
    subst hab
    obtain ⟨c, hc, h1, h2⟩ := mem_actorSeqs.mp hb'
    have hac : a = (c.actor, c.seq) := by rw [h1, h2]
    subst hac
    rw [actorSeqs_append] at ha
    rcases List.mem_append.mp ha with ha | ha
    · exact (hb.seqFresh c hc).1 ha
    · exact (hb.seqFresh c hc).2 ha

/-- `pop_topo_sorted_ready` + `add_changes` re-establish the full invariant -/
theorem popTopo_inv {d : Doc} (h : d.Inv0) :
    Doc.Inv { applied := d.applied ++ (popTopoSortedReady d).1, queue := (popTopoSortedReady d).2 } := by
  obtain ⟨_, _, h3, _, h5, h6⟩ := popTopoSortedReady_spec h.queue_nodup h.depsClosed
  have hperm : ((d.applied ++ (popTopoSortedReady d).1) ++ (popTopoSortedReady d).2).Perm
      (d.applied ++ d.queue) := by
    rw [List.append_assoc]; exact h5.append_left _
  refine ⟨?_, h3, ?_, ?_⟩
  · exact ((hperm.map _).nodup_iff).mpr h.hashNodup
  · intro c hc
    obtain ⟨dep, hd, hn⟩ := h6 c hc
    exact ⟨dep, hd, hasChange_false_iff.mpr hn⟩
  · exact ((hperm.map _).nodup_iff).mpr h.seqNodup

theorem applyBatch_of_err {d : Doc} {cs q : List Change} {e : ApplyErr}
    (h : collectBatch d cs [] = (q, .error e)) : applyBatch d cs = ({ d with queue := q }, .error e) := by
  simp [applyBatch, h]

theorem applyBatch_of_ok {d : Doc} {cs q batch : List Change}
    (h : collectBatch d cs [] = (q, .ok batch)) :
    applyBatch d cs =
      if (d.queue ++ batch).isEmpty then ({ d with queue := d.queue ++ batch }, .ok ())
      else ({ applied := d.applied ++ (popTopoSortedReady { d with queue := d.queue ++ batch }).1,
              queue := (popTopoSortedReady { d with queue := d.queue ++ batch }).2 }, .ok ()) := by
  simp only [applyBatch, h]

/-- the successful path of `applyBatch`, given the batch `collectBatch` accepted -/
theorem applyBatch_ok_spec {d : Doc} {cs q batch : List Change} (hinv : d.Inv)
    (hcb : collectBatch d cs [] = (q, .ok batch)) :
    ∃ topo, BatchOK d batch ∧ (∀ c ∈ batch, c ∈ cs) ∧
        (∀ c ∈ cs, c.hash ∈ hashes d.applied ∨ c.hash ∈ hashes d.queue ∨ c.hash ∈ hashes batch) ∧
        (applyBatch d cs).2 = .ok () ∧
        (applyBatch d cs).1.applied = d.applied ++ topo ∧
        (topo ++ (applyBatch d cs).1.queue).Perm (d.queue ++ batch) ∧
        (applyBatch d cs).1.queue.Sublist (d.queue ++ batch) ∧
        (applyBatch d cs).1.Inv := by
  obtain ⟨hb, _, ⟨new, hnew, hsub⟩, hcov⟩ := collectBatch_ok (BatchOK.nil d) hcb
  simp only [List.nil_append] at hnew
  subst hnew
  have hext := hinv.inv0.extend hb
  rw [applyBatch_of_ok hcb]
  split
  · rename_i hemp
    have hnil : d.queue ++ batch = [] := List.isEmpty_iff.mp hemp
    refine ⟨[], hb, hsub, hcov, rfl, by simp, by simp, List.Sublist.refl _, ?_⟩
    refine ⟨hext.hashNodup, hext.depsClosed, ?_, hext.seqNodup⟩
    intro c hc
    rw [show ({ d with queue := d.queue ++ batch } : Doc).queue = d.queue ++ batch from rfl, hnil] at hc
    cases hc
  · obtain ⟨_, _, _, h4, h5, _⟩ := popTopoSortedReady_spec hext.queue_nodup hext.depsClosed
    exact ⟨_, hb, hsub, hcov, rfl, rfl, h5, h4, popTopo_inv hext⟩

/-- Everything `applyBatch` does, in one statement.  Either it fails on some offered change `c`
    with `DuplicateSeqNumber`, the applied changes are untouched and the queue is the old one or
    the old one pruned; or it succeeds with a batch of new changes, the applied list is extended
    by a list `topo`, and `topo` with the new queue is a rearrangement of old queue + batch. -/
theorem applyBatch_cases (d : Doc) (cs : List Change) (hinv : d.Inv) :
    (∃ c ∈ cs, ∃ q, applyBatch d cs = ({ d with queue := q }, .error (.duplicateSeq c.seq c.actor)) ∧
        (q = d.queue ∨ q = removeActorBranchFrom d.queue c.actor (c.seq + 1))) ∨
    (∃ batch topo, BatchOK d batch ∧ (∀ c ∈ batch, c ∈ cs) ∧
        (∀ c ∈ cs, c.hash ∈ hashes d.applied ∨ c.hash ∈ hashes d.queue ∨ c.hash ∈ hashes batch) ∧
        (applyBatch d cs).2 = .ok () ∧
        (applyBatch d cs).1.applied = d.applied ++ topo ∧
        (topo ++ (applyBatch d cs).1.queue).Perm (d.queue ++ batch) ∧
        (applyBatch d cs).1.queue.Sublist (d.queue ++ batch) ∧
        (applyBatch d cs).1.Inv) := by
  rcases hcb : collectBatch d cs [] with ⟨q, e | batch⟩
  · left
    obtain ⟨c, hc, rfl, hq⟩ := collectBatch_err hcb
    exact ⟨c, hc, q, applyBatch_of_err hcb, hq⟩
  · right
    obtain ⟨topo, h⟩ := applyBatch_ok_spec hinv hcb
    exact ⟨batch, topo, h⟩

/-- a failing call: which error, and what happened to the document (no invariant needed) -/
theorem applyBatch_err_spec {d d' : Doc} {cs : List Change} {e : ApplyErr}
    (h : applyBatch d cs = (d', .error e)) :
    ∃ c ∈ cs, e = .duplicateSeq c.seq c.actor ∧ d'.applied = d.applied ∧
      (d'.queue = d.queue ∨ d'.queue = removeActorBranchFrom d.queue c.actor (c.seq + 1)) := by
  rcases hcb : collectBatch d cs [] with ⟨q, e' | batch⟩
  · rw [applyBatch_of_err hcb] at h
    simp only [Prod.mk.injEq, Except.error.injEq] at h
    obtain ⟨rfl, rfl⟩ := h
    obtain ⟨c, hc, he, hq⟩ := collectBatch_err hcb
    exact ⟨c, hc, he, rfl, hq⟩
  · rw [applyBatch_of_ok hcb] at h
    split at h <;> simp at h

/-- **C38 / C05**: `apply_changes` preserves the invariant whatever is offered and whether or not
    the call fails (no hypothesis on `cs`: colliding hashes, reused (actor, seq), missing deps and
    duplicates are all allowed). -/
theorem applyBatch_inv (d : Doc) (cs : List Change) (hinv : d.Inv) : (applyBatch d cs).1.Inv := by
  rcases applyBatch_cases d cs hinv with ⟨c, _, q, heq, hq⟩ | ⟨_, _, _, _, _, _, _, _, _, h⟩
  · rw [heq]
    rcases hq with rfl | rfl
    · exact hinv
    · exact hinv.queue_sublist (removeActorBranchFrom_sublist _ _ _)
  · exact h

/-- a local commit (`transaction_args` + `commit`): the new change is appended and the queue is
    pruned of the actor's conflicting branch.  Mirrors `crdt.local` of the driver. -/
def localCommit (d : Doc) (c : Change) : Doc :=
  { applied := d.applied ++ [c], queue := removeActorBranchFrom d.queue c.actor c.seq }

/-- what `transaction_args`/`commit` guarantee about the change they produce -/
structure LocalOK (d : Doc) (c : Change) : Prop where
  /-- `seq = seq_for_actor + 1` -/
  seq : c.seq = d.seqForActor c.actor + 1
  /-- `deps` = the heads (plus the actor's last change): all applied -/
  deps : ∀ dep ∈ c.deps, d.hasChange dep = true
  /-- the hash of the freshly made change is new: no known change has it … -/
  fresh : c.hash ∉ hashes (d.applied ++ d.queue)
  /-- … and no queued change names it as a dependency (both would need a SHA-256 collision or
      preimage; hashes are opaque in the model, so this is a hypothesis) -/
  freshDep : ∀ x ∈ d.queue, c.hash ∉ x.deps

theorem localCommit_inv {d : Doc} {c : Change} (hinv : d.Inv) (hl : LocalOK d c) :
    (localCommit d c).Inv := by
  have hsub := removeActorBranchFrom_sublist d.queue c.actor c.seq
  have hfresh := hl.fresh
  rw [hashes_append, List.mem_append, not_or] at hfresh
  refine ⟨?_, ?_, ?_, ?_⟩
  · show (hashes ((d.applied ++ [c]) ++ removeActorBranchFrom d.queue c.actor c.seq)).Nodup
    rw [hashes_append, List.nodup_append]
    refine ⟨?_, List.Nodup.sublist (hsub.map _) hinv.inv0.queue_nodup, ?_⟩
    · rw [hashes_append, List.nodup_append]
      refine ⟨hinv.inv0.applied_nodup, by simp [hashes], ?_⟩
      intro a ha b hb hab
      simp only [hashes, List.map_cons, List.map_nil, List.mem_singleton] at hb
      subst hb; subst hab
      exact hfresh.1 ha
    · intro a ha b hb hab
      subst hab
      have hbq : a ∈ hashes d.queue := (hsub.map _).subset hb
      rw [hashes_append] at ha
      rcases List.mem_append.mp ha with ha | ha
      · exact hinv.inv0.disjoint ha hbq
      · simp only [hashes, List.map_cons, List.map_nil, List.mem_singleton] at ha
        subst ha
        exact hfresh.2 hbq
  · show DepsClosed (d.applied ++ [c])
    rw [depsClosed_snoc]
    exact ⟨hinv.depsClosed, fun dep hd => hasChange_iff.mp (hl.deps dep hd)⟩
  · intro x hx
    have hxq : x ∈ d.queue := hsub.subset hx
    obtain ⟨dep, hd, hn⟩ := hinv.noneReady x hxq
    refine ⟨dep, hd, ?_⟩
    rw [hasChange_false_iff] at hn ⊢
    show dep ∉ hashes (d.applied ++ [c])
    rw [hashes_append, List.mem_append, not_or]
    refine ⟨hn, ?_⟩
    simp only [hashes, List.map_cons, List.map_nil, List.mem_singleton]
    intro he
    subst he
    exact hl.freshDep x hxq hd
  · show (actorSeqs ((d.applied ++ [c]) ++ removeActorBranchFrom d.queue c.actor c.seq)).Nodup
    have hold := hinv.seqNodup
    rw [actorSeqs_append, List.nodup_append] at hold
    obtain ⟨hna, hnq, hdisj⟩ := hold
    have hca : (c.actor, c.seq) ∉ actorSeqs d.applied := by
      intro hm
      obtain ⟨x, hx, h1, h2⟩ := mem_actorSeqs.mp hm
      have := le_seqForActor hx
      simp only at h1 h2
      rw [h1] at this
      have := hl.seq
      omega
    rw [actorSeqs_append, List.nodup_append]
    refine ⟨?_, List.Nodup.sublist (hsub.map _) hnq, ?_⟩
    · rw [actorSeqs_append, List.nodup_append]
      refine ⟨hna, by simp [actorSeqs], ?_⟩
      intro a ha b hb hab
      simp only [actorSeqs, List.map_cons, List.map_nil, List.mem_singleton] at hb
      subst hb; subst hab
      exact hca ha
    · intro a ha b hb hab
      subst hab
      rw [actorSeqs_append] at ha
      rcases List.mem_append.mp ha with ha | ha
      · exact hdisj a ha a ((hsub.map _).subset hb) rfl
      · simp only [actorSeqs, List.map_cons, List.map_nil, List.mem_singleton] at ha
        subst ha
        obtain ⟨x, hx, h1, h2⟩ := mem_actorSeqs.mp hb
        simp only at h1 h2
        exact (mem_removeActorBranchFrom.mp hx).2 (.base (hsub.subset hx) h1 (by omega))

/-- the documents a program can reach: start empty; `apply_changes` with ANY list of changes
    (successful or failing); local commits -/
inductive Reachable : Doc → Prop
  | empty : Reachable Doc.empty
  | apply {d : Doc} (cs : List Change) : Reachable d → Reachable (applyBatch d cs).1
  | localCommit {d : Doc} {c : Change} : Reachable d → LocalOK d c → Reachable (localCommit d c)

theorem Reachable.inv {d : Doc} (h : Reachable d) : d.Inv := by
  induction h with
  | empty => exact Doc.empty_inv
  | apply cs _ ih => exact applyBatch_inv _ cs ih
  | localCommit _ hl ih => exact localCommit_inv ih hl

/-! ## §8 `missing_deps_from` / `get_missing_deps` -/

/-- the hashes the held changes or the given heads need, directly or through other held changes:
    the hashes of the held changes and the heads themselves, closed under "dep of a held change" -/
inductive Needed (d : Doc) (hs : List Hash) : Hash → Prop
  | base {h : Hash} : h ∈ hashes d.queue ++ hs → Needed d hs h
  | dep {c : Change} {dep : Hash} : Needed d hs c.hash → c ∈ d.queue → dep ∈ c.deps → Needed d hs dep

/-- potential of the DFS: deps (+1) of the queued changes not yet visited -/
def mWeight : List Change → List Hash → Nat
  | [], _ => 0
  | c :: q, seen => (if c.hash ∈ seen then 0 else c.deps.length + 1) + mWeight q seen

theorem foldl_eq_mWeight (q : List Change) (n : Nat) :
    q.foldl (fun n c => n + c.deps.length + 1) n = n + mWeight q [] := by
  induction q generalizing n with
  | nil => simp [mWeight]
  | cons c q ih => simp only [List.foldl_cons, ih, mWeight, List.not_mem_nil, if_false]; omega

theorem mWeight_mono (q : List Change) (h : Hash) (seen : List Hash) :
    mWeight q (h :: seen) ≤ mWeight q seen := by
  induction q with
  | nil => simp [mWeight]
  | cons c q ih =>
    simp only [mWeight, List.mem_cons]
    by_cases h1 : c.hash ∈ seen <;> by_cases h2 : c.hash = h <;> simp [h1, h2] <;> omega

theorem mWeight_found {q : List Change} {c : Change} {h : Hash} {seen : List Hash}
    (hc : c ∈ q) (hh : c.hash = h) (hns : h ∉ seen) :
    mWeight q (h :: seen) + c.deps.length + 1 ≤ mWeight q seen := by
  induction q with
  | nil => cases hc
  | cons x q ih =>
    simp only [mWeight, List.mem_cons]
    rcases List.mem_cons.mp hc with rfl | hc'
    · have := mWeight_mono q h seen
      simp [hns, hh]; omega
    · have := ih hc'
      by_cases h1 : x.hash ∈ seen <;> by_cases h2 : x.hash = h <;> simp [h1, h2] <;> omega

structure MInv (d : Doc) (hs : List Hash) (stack seen missing : List Hash) : Prop where
  reach : ∀ h ∈ stack ++ seen, Needed d hs h
  notApplied : ∀ h ∈ seen, h ∉ hashes d.applied
  missingIff : ∀ h, h ∈ missing ↔ h ∈ seen ∧ h ∉ hashes d.queue
  closed : ∀ c ∈ d.queue, c.hash ∈ seen →
    ∀ dep ∈ c.deps, dep ∈ seen ∨ dep ∈ stack ∨ dep ∈ hashes d.applied
  start : ∀ h ∈ hashes d.queue ++ hs, h ∈ seen ∨ h ∈ stack ∨ h ∈ hashes d.applied

theorem missingLoop_inv {d : Doc} {hs : List Hash} (hqn : (hashes d.queue).Nodup) :
    ∀ (fuel : Nat) (stack seen missing : List Hash), MInv d hs stack seen missing →
      stack.length + mWeight d.queue seen < fuel →
      ∃ seen', MInv d hs [] seen' (missingLoop d fuel stack seen missing) := by
  intro fuel
  induction fuel with
  | zero => intro _ _ _ _ hf; omega
  | succ fuel ih =>
    intro stack seen missing m hf
    cases stack with
    | nil => exact ⟨seen, by simpa [missingLoop] using m⟩
    | cons h rest =>
      simp only [missingLoop]
      split
      · -- applied or already seen
        rename_i hskip
        simp only [Bool.or_eq_true, hasChange_iff, List.contains_iff_mem] at hskip
        apply ih
        · refine ⟨fun x hx => m.reach x ?_, m.notApplied, m.missingIff, ?_, ?_⟩
          · rcases List.mem_append.mp hx with hx | hx
            · exact List.mem_append_left _ (List.mem_cons_of_mem _ hx)
            · exact List.mem_append_right _ hx
          · intro c hc hcs dep hd
            rcases m.closed c hc hcs dep hd with h1 | h1 | h1
            · exact .inl h1
            · rcases List.mem_cons.mp h1 with rfl | h1
              · rcases hskip with hs' | hs'
                · exact .inr (.inr hs')
                · exact .inl hs'
              · exact .inr (.inl h1)
            · exact .inr (.inr h1)
          · intro x hx
            rcases m.start x hx with h1 | h1 | h1
            · exact .inl h1
            · rcases List.mem_cons.mp h1 with rfl | h1
              · rcases hskip with hs' | hs'
                · exact .inr (.inr hs')
                · exact .inl hs'
              · exact .inr (.inl h1)
            · exact .inr (.inr h1)
        · simp only [List.length_cons] at hf; omega
      · rename_i hnskip
        simp only [Bool.or_eq_true, hasChange_iff, List.contains_iff_mem, not_or] at hnskip
        obtain ⟨hna, hns⟩ := hnskip
        have hneeded : Needed d hs h := m.reach h (by simp)
        split
        · -- a queued change: descend into its deps
          rename_i c hfind
          have hcq : c ∈ d.queue := List.mem_of_find?_eq_some hfind
          have hch : c.hash = h := by simpa using List.find?_some hfind
          apply ih
          · refine ⟨?_, ?_, ?_, ?_, ?_⟩
            · intro x hx
              rcases List.mem_append.mp hx with hx | hx
              · rcases List.mem_append.mp hx with hx | hx
                · exact .dep (hch ▸ hneeded) hcq hx
                · exact m.reach x (List.mem_append_left _ (List.mem_cons_of_mem _ hx))
              · rcases List.mem_cons.mp hx with rfl | hx
                · exact hneeded
                · exact m.reach x (List.mem_append_right _ hx)
            · intro x hx
              rcases List.mem_cons.mp hx with rfl | hx
              · exact hna
              · exact m.notApplied x hx
            · intro x
              rw [m.missingIff]
              constructor
              · rintro ⟨h1, h2⟩; exact ⟨List.mem_cons_of_mem _ h1, h2⟩
              · rintro ⟨h1, h2⟩
                rcases List.mem_cons.mp h1 with rfl | h1
                · exact (h2 (hch ▸ mem_hashes_of_mem hcq)).elim
                · exact ⟨h1, h2⟩
            · intro c' hc' hcs dep hd
              rcases List.mem_cons.mp hcs with hcs | hcs
              · have : c' = c := hash_inj hqn hc' hcq (by rw [hcs, hch])
                subst this
                exact .inr (.inl (List.mem_append_left _ hd))
              · rcases m.closed c' hc' hcs dep hd with h1 | h1 | h1
                · exact .inl (List.mem_cons_of_mem _ h1)
                · rcases List.mem_cons.mp h1 with rfl | h1
                  · exact .inl List.mem_cons_self
                  · exact .inr (.inl (List.mem_append_right _ h1))
                · exact .inr (.inr h1)
            · intro x hx
              rcases m.start x hx with h1 | h1 | h1
              · exact .inl (List.mem_cons_of_mem _ h1)
              · rcases List.mem_cons.mp h1 with rfl | h1
                · exact .inl List.mem_cons_self
                · exact .inr (.inl (List.mem_append_right _ h1))
              · exact .inr (.inr h1)
          · have := mWeight_found hcq hch hns
            simp only [List.length_cons, List.length_append] at hf ⊢
            omega
        · -- neither applied nor queued: missing
          rename_i hfind
          have hnq : h ∉ hashes d.queue := by
            intro hm
            obtain ⟨c, hc, hch⟩ := mem_hashes.mp hm
            have := List.find?_eq_none.mp hfind c hc
            simp [hch] at this
          apply ih
          · refine ⟨?_, ?_, ?_, ?_, ?_⟩
            · intro x hx
              rcases List.mem_append.mp hx with hx | hx
              · exact m.reach x (List.mem_append_left _ (List.mem_cons_of_mem _ hx))
              · rcases List.mem_cons.mp hx with rfl | hx
                · exact hneeded
                · exact m.reach x (List.mem_append_right _ hx)
            · intro x hx
              rcases List.mem_cons.mp hx with rfl | hx
              · exact hna
              · exact m.notApplied x hx
            · intro x
              simp only [List.mem_cons, m.missingIff]
              constructor
              · rintro (rfl | ⟨h1, h2⟩)
                · exact ⟨.inl rfl, hnq⟩
                · exact ⟨.inr h1, h2⟩
              · rintro ⟨rfl | h1, h2⟩
                · exact .inl rfl
                · exact .inr ⟨h1, h2⟩
            · intro c' hc' hcs dep hd
              rcases List.mem_cons.mp hcs with hcs | hcs
              · exact (hnq (hcs ▸ mem_hashes_of_mem hc')).elim
              · rcases m.closed c' hc' hcs dep hd with h1 | h1 | h1
                · exact .inl (List.mem_cons_of_mem _ h1)
                · rcases List.mem_cons.mp h1 with rfl | h1
                  · exact .inl List.mem_cons_self
                  · exact .inr (.inl h1)
                · exact .inr (.inr h1)
            · intro x hx
              rcases m.start x hx with h1 | h1 | h1
              · exact .inl (List.mem_cons_of_mem _ h1)
              · rcases List.mem_cons.mp h1 with rfl | h1
                · exact .inl List.mem_cons_self
                · exact .inr (.inl h1)
              · exact .inr (.inr h1)
          · have := mWeight_mono d.queue h seen
            simp only [List.length_cons] at hf
            omega

/-- **C05**: `get_missing_deps(heads)` lists exactly the hashes that are neither applied nor held
    and that the held changes or the given heads need, directly or through other held changes. -/
theorem missing_deps_spec {d : Doc} (hinv : d.Inv0) (hs : List Hash) (h : Hash) :
    h ∈ d.missingDeps hs ↔ h ∉ hashes d.applied ∧ h ∉ hashes d.queue ∧ Needed d hs h := by
  unfold Doc.missingDeps
  simp only [mem_sortHashes]
  have hstart : d.queue.map (·.hash) ++ hs = hashes d.queue ++ hs := rfl
  have m0 : MInv d hs (hashes d.queue ++ hs) [] [] := by
    refine ⟨fun x hx => .base (by simpa using hx), by simp, by simp, by simp, ?_⟩
    intro x hx; exact .inr (.inl hx)
  obtain ⟨seen', m⟩ := missingLoop_inv hinv.queue_nodup
    ((d.queue.map (·.hash) ++ hs).length + d.queue.foldl (fun n c => n + c.deps.length + 1) 0 + 1)
    (hashes d.queue ++ hs) [] [] m0 (by rw [foldl_eq_mWeight, hstart]; omega)
  rw [hstart] at m ⊢
  rw [m.missingIff]
  constructor
  · rintro ⟨h1, h2⟩
    exact ⟨m.notApplied h h1, h2, m.reach h (by simpa using h1)⟩
  · rintro ⟨h1, h2, h3⟩
    refine ⟨?_, h2⟩
    have hall : ∀ x, Needed d hs x → x ∉ hashes d.applied → x ∈ seen' := by
      intro x hx
      induction hx with
      | base hb =>
        intro hna
        rcases m.start _ hb with h | h | h
        · exact h
        · cases h
        · exact (hna h).elim
      | @dep c dep _ hc hd ih =>
        intro hna
        have hcs := ih (fun ha => hinv.disjoint ha (mem_hashes_of_mem hc))
        rcases m.closed c hc hcs dep hd with h | h | h
        · exact h
        · cases h
        · exact (hna h).elim
    exact hall h h3 h1

theorem missingDeps_sorted (d : Doc) (hs : List Hash) : SortedHashes (d.missingDeps hs) :=
  sortHashes_sorted _

theorem actorSeq_inj {l : List Change} (h : (actorSeqs l).Nodup) {a b : Change} (ha : a ∈ l)
    (hb : b ∈ l) (h1 : a.actor = b.actor) (h2 : a.seq = b.seq) : a = b :=
  inj_of_nodup_map (fun c : Change => (c.actor, c.seq)) h a ha b hb (by rw [h1, h2])

/-! ### re-delivery of known changes is a no-op -/

theorem collectBatch_known {d : Doc} : ∀ {cs : List Change} (batch : List Change),
    (∀ c ∈ cs, c.hash ∈ hashes (d.applied ++ d.queue)) → collectBatch d cs batch = (d.queue, .ok batch)
  | [], batch, _ => rfl
  | c :: cs, batch, hk => by
    have hc := hk c List.mem_cons_self
    rw [hashes_append, List.mem_append, ← hasChange_iff, ← queueHas_iff] at hc
    have : (d.hasChange c.hash || d.queueHas c.hash) = true := by simpa using hc
    simp only [collectBatch, this, if_true]
    exact collectBatch_known batch (fun x hx => hk x (List.mem_cons_of_mem _ hx))

theorem popTopoSortedReady_noneReady {d : Doc}
    (h : ∀ c ∈ d.queue, ∃ dep ∈ c.deps, d.hasChange dep = false) :
    popTopoSortedReady d = ([], d.queue) := by
  have hnil : d.queue.filter (fun x => x.deps.all (fun dep => d.hasChange dep)) = [] := by
    rw [List.filter_eq_nil_iff]
    intro c hc hall
    obtain ⟨dep, hd, hf⟩ := h c hc
    rw [List.all_eq_true] at hall
    rw [hall dep hd] at hf; cases hf
  simp [popTopoSortedReady, hnil, kahnLoop]

/-- **C01 ("duplicated") / C38 ("discarded")**: offering changes whose hashes are already known
    (applied or held) changes nothing at all and succeeds -/
theorem applyBatch_known {d : Doc} (hinv : d.Inv) {cs : List Change}
    (hk : ∀ c ∈ cs, c.hash ∈ hashes (d.applied ++ d.queue)) : applyBatch d cs = (d, .ok ()) := by
  rw [applyBatch_of_ok (collectBatch_known [] hk)]
  have hd : ({ d with queue := d.queue ++ [] } : Doc) = d := by cases d; simp
  rw [hd]
  split
  · rfl
  · rw [popTopoSortedReady_noneReady hinv.noneReady]
    cases d; simp

/-! ## §9 delivery schedules (C01, delivery half) -/

/-- two strictly sorted hash lists with the same members are equal -/
theorem SortedHashes.ext : ∀ {l₁ l₂ : List Hash}, SortedHashes l₁ → SortedHashes l₂ →
    (∀ x, x ∈ l₁ ↔ x ∈ l₂) → l₁ = l₂
  | [], [], _, _, _ => rfl
  | [], b :: l₂, _, _, h => by have := (h b).mpr List.mem_cons_self; cases this
  | a :: l₁, [], _, _, h => by have := (h a).mp List.mem_cons_self; cases this
  | a :: l₁, b :: l₂, h₁, h₂, h => by
    have hasym : ∀ x y : Hash, bytesLt x y = true → bytesLt y x = true → False := by
      intro x y hxy hyx
      have := GraphOrd.bytesLt_trans hxy hyx
      rw [GraphOrd.bytesLt_irrefl] at this; cases this
    have am : a ∈ b :: l₂ := (h a).mp List.mem_cons_self
    have bm : b ∈ a :: l₁ := (h b).mpr List.mem_cons_self
    have ab : a = b := by
      rcases List.mem_cons.mp am with rfl | am
      · rfl
      · rcases List.mem_cons.mp bm with rfl | bm
        · rfl
        · exact (hasym _ _ (List.rel_of_pairwise_cons h₁ bm) (List.rel_of_pairwise_cons h₂ am)).elim
    subst ab
    have ht : ∀ x, x ∈ l₁ ↔ x ∈ l₂ := by
      intro x
      constructor
      · intro hx
        rcases List.mem_cons.mp ((h x).mp (List.mem_cons_of_mem _ hx)) with rfl | hx'
        · exact (hasym _ _ (List.rel_of_pairwise_cons h₁ hx) (List.rel_of_pairwise_cons h₁ hx)).elim
        · exact hx'
      · intro hx
        rcases List.mem_cons.mp ((h x).mpr (List.mem_cons_of_mem _ hx)) with rfl | hx'
        · exact (hasym _ _ (List.rel_of_pairwise_cons h₂ hx) (List.rel_of_pairwise_cons h₂ hx)).elim
        · exact hx'
    rw [SortedHashes.ext (List.Pairwise.of_cons h₁) (List.Pairwise.of_cons h₂) ht]

/-- a well-formed finite universe of changes (what a set of honestly produced changes satisfies) -/
structure WF (cs : List Change) : Prop where
  /-- distinct changes have distinct hashes -/
  hashNodup : (hashes cs).Nodup
  /-- distinct changes have distinct (actor, seq) -/
  seqNodup : (actorSeqs cs).Nodup
  /-- the universe is closed under dependencies -/
  depsIn : ∀ c ∈ cs, ∀ dep ∈ c.deps, dep ∈ hashes cs
  /-- the dependency relation is acyclic.  Hashes are opaque in the model, so this is a
      hypothesis; for real changes it follows from SHA-256 preimage resistance (a change's hash
      covers the hashes of its deps). -/
  acyclic : ∃ rank : Hash → Nat, ∀ c ∈ cs, ∀ dep ∈ c.deps, rank dep < rank c.hash
  /-- an actor's changes are numbered 1, 2, … and each names its predecessor as a dependency
      (`transaction_args`: `deps.push(last_hash)`) -/
  seqChain : ∀ c ∈ cs, c.seq = 1 ∨
    ∃ p ∈ cs, p.actor = c.actor ∧ p.seq + 1 = c.seq ∧ p.hash ∈ c.deps

/-- run a schedule of `apply_changes` calls (the results are discarded: see `deliver_no_error`) -/
def deliverFrom (d : Doc) (σ : List (List Change)) : Doc :=
  σ.foldl (fun d cs => (applyBatch d cs).1) d

def deliverAll (σ : List (List Change)) : Doc := deliverFrom Doc.empty σ

@[simp] theorem deliverFrom_nil (d : Doc) : deliverFrom d [] = d := rfl
@[simp] theorem deliverFrom_cons (d : Doc) (cs : List Change) (σ : List (List Change)) :
    deliverFrom d (cs :: σ) = deliverFrom (applyBatch d cs).1 σ := rfl
theorem deliverFrom_append (d : Doc) (σ τ : List (List Change)) :
    deliverFrom d (σ ++ τ) = deliverFrom (deliverFrom d σ) τ := by
  simp [deliverFrom, List.foldl_append]

/-- invariant of a delivery run inside the universe `cs` -/
structure DInv (cs : List Change) (d : Doc) : Prop where
  inv : d.Inv
  sub : ∀ c ∈ d.applied ++ d.queue, c ∈ cs

theorem collectBatch_no_err {d : Doc} {U : List Change}
    (h1 : ∀ c ∈ U, c.hash ∉ hashes d.applied → c.hash ∉ hashes d.queue →
      d.hasActorSeq c = false ∧ queueHasActorSeq d.queue c = false)
    (h2 : ∀ x ∈ U, ∀ c ∈ U, x.actor = c.actor → x.seq = c.seq → x.hash = c.hash) :
    ∀ (cs batch : List Change), (∀ c ∈ cs, c ∈ U) → (∀ c ∈ batch, c ∈ U) →
      ∃ b', collectBatch d cs batch = (d.queue, .ok b')
  | [], batch, _, _ => ⟨batch, rfl⟩
  | c :: cs, batch, hcs, hb => by
    have hcU := hcs c List.mem_cons_self
    have hcs' : ∀ x ∈ cs, x ∈ U := fun x hx => hcs x (List.mem_cons_of_mem _ hx)
    simp only [collectBatch]
    split
    · exact collectBatch_no_err h1 h2 cs batch hcs' hb
    · rename_i hnskip
      simp only [Bool.or_eq_true, hasChange_iff, queueHas_iff, not_or] at hnskip
      obtain ⟨e1, e2⟩ := h1 c hcU hnskip.1 hnskip.2
      simp only [e1, e2, Bool.false_eq_true, if_false]
      split
      · exact collectBatch_no_err h1 h2 cs batch hcs' hb
      · rename_i hninb
        split
        · rename_i hbs
          exfalso
          obtain ⟨x, hx, hxa, hxs⟩ := mem_actorSeqs.mp (queueHasActorSeq_iff.mp hbs)
          apply hninb
          rw [any_hash_iff]
          exact mem_hashes.mpr ⟨x, hx, h2 x (hb x hx) c hcU hxa hxs⟩
        · apply collectBatch_no_err h1 h2 cs (batch ++ [c]) hcs'
          intro x hx
          rcases List.mem_append.mp hx with hx | hx
          · exact hb x hx
          · simp only [List.mem_singleton] at hx; subst hx; exact hcU

theorem seq_pos {cs : List Change} (wf : WF cs) {c : Change} (hc : c ∈ cs) : 1 ≤ c.seq := by
  rcases wf.seqChain c hc with h | ⟨p, _, _, h, _⟩ <;> omega

/-- inside a well-formed universe, an applied change has all its actor's earlier changes applied -/
theorem applied_seq_chain {cs : List Change} (wf : WF cs) {d : Doc} (hd : DInv cs d) :
    ∀ (n : Nat) (x : Change), x ∈ d.applied → x.seq = n → ∀ m, 1 ≤ m → m ≤ n →
      ∃ y ∈ d.applied, y.actor = x.actor ∧ y.seq = m := by
  intro n
  induction n with
  | zero => intro x _ _ m h1 h2; omega
  | succ n ih =>
    intro x hx hxs m h1 h2
    by_cases hm : m = n + 1
    · exact ⟨x, hx, rfl, by omega⟩
    · have hxc : x ∈ cs := hd.sub x (List.mem_append_left _ hx)
      rcases wf.seqChain x hxc with h | ⟨p, hp, hpa, hps, hpd⟩
      · omega
      · have hph : p.hash ∈ hashes d.applied := hd.inv.depsClosed.deps_applied hx _ hpd
        obtain ⟨p', hp', hpp⟩ := mem_hashes.mp hph
        have : p' = p := hash_inj wf.hashNodup (hd.sub p' (List.mem_append_left _ hp')) hp hpp
        subst this
        obtain ⟨y, hy, hya, hys⟩ := ih p' hp' (by omega) m h1 (by omega)
        exact ⟨y, hy, by rw [hya, hpa], hys⟩

theorem deliver_step {cs : List Change} (wf : WF cs) {d : Doc} (hd : DInv cs d)
    {call : List Change} (hcall : ∀ c ∈ call, c ∈ cs) :
    (applyBatch d call).2 = .ok () ∧ DInv cs (applyBatch d call).1 ∧
    (∀ c ∈ d.applied, c ∈ (applyBatch d call).1.applied) ∧
    (∀ c ∈ d.applied ++ d.queue, c ∈ (applyBatch d call).1.applied ++ (applyBatch d call).1.queue) ∧
    (∀ c ∈ call, c ∈ (applyBatch d call).1.applied ++ (applyBatch d call).1.queue) := by
  have h1 : ∀ c ∈ cs, c.hash ∉ hashes d.applied → c.hash ∉ hashes d.queue →
      d.hasActorSeq c = false ∧ queueHasActorSeq d.queue c = false := by
    intro c hc hna hnq
    constructor
    · cases hh : d.hasActorSeq c
      · rfl
      · exfalso
        simp only [Doc.hasActorSeq, decide_eq_true_eq] at hh
        have hpos := seq_pos wf hc
        obtain ⟨x, hx, hxa, hxs⟩ := seqForActor_attained (d := d) (a := c.actor) (by omega)
        obtain ⟨y, hy, hya, hys⟩ := applied_seq_chain wf hd _ x hx rfl c.seq hpos (by omega)
        have hyc : y ∈ cs := hd.sub y (List.mem_append_left _ hy)
        have : y = c := actorSeq_inj wf.seqNodup hyc hc (by rw [hya, hxa]) hys
        subst this
        exact hna (mem_hashes_of_mem hy)
    · cases hh : queueHasActorSeq d.queue c
      · rfl
      · exfalso
        obtain ⟨x, hx, hxa, hxs⟩ := mem_actorSeqs.mp (queueHasActorSeq_iff.mp hh)
        have hxc : x ∈ cs := hd.sub x (List.mem_append_right _ hx)
        have : x = c := actorSeq_inj wf.seqNodup hxc hc hxa hxs
        subst this
        exact hnq (mem_hashes_of_mem hx)
  have h2 : ∀ x ∈ cs, ∀ c ∈ cs, x.actor = c.actor → x.seq = c.seq → x.hash = c.hash := by
    intro x hx c hc ha hs
    rw [actorSeq_inj wf.seqNodup hx hc ha hs]
  obtain ⟨batch, hcb⟩ := collectBatch_no_err h1 h2 call [] hcall (by simp)
  obtain ⟨topo, hb, hbsub, hcov, hok, happ, hperm, _, hinv'⟩ := applyBatch_ok_spec hd.inv hcb
  have hknown : ∀ c, c ∈ topo ++ (applyBatch d call).1.queue ↔ c ∈ d.queue ++ batch := fun c => hperm.mem_iff
  have hsub' : ∀ c ∈ (applyBatch d call).1.applied ++ (applyBatch d call).1.queue, c ∈ cs := by
    intro c hc
    rw [happ, List.append_assoc] at hc
    rcases List.mem_append.mp hc with hc | hc
    · exact hd.sub c (List.mem_append_left _ hc)
    · rcases List.mem_append.mp ((hknown c).mp hc) with hc | hc
      · exact hd.sub c (List.mem_append_right _ hc)
      · exact hcall c (hbsub c hc)
  have hmono : ∀ c ∈ d.applied ++ d.queue,
      c ∈ (applyBatch d call).1.applied ++ (applyBatch d call).1.queue := by
    intro c hc
    rw [happ, List.append_assoc]
    rcases List.mem_append.mp hc with hc | hc
    · exact List.mem_append_left _ hc
    · exact List.mem_append_right _ ((hknown c).mpr (List.mem_append_left _ hc))
  refine ⟨hok, ⟨hinv', hsub'⟩, ?_, hmono, ?_⟩
  · intro c hc; rw [happ]; exact List.mem_append_left _ hc
  · intro c hc
    have hex : ∃ y ∈ (applyBatch d call).1.applied ++ (applyBatch d call).1.queue, y.hash = c.hash := by
      rcases hcov c hc with h | h | h
      · obtain ⟨y, hy, hyc⟩ := mem_hashes.mp h
        exact ⟨y, hmono y (List.mem_append_left _ hy), hyc⟩
      · obtain ⟨y, hy, hyc⟩ := mem_hashes.mp h
        exact ⟨y, hmono y (List.mem_append_right _ hy), hyc⟩
      · obtain ⟨y, hy, hyc⟩ := mem_hashes.mp h
        refine ⟨y, ?_, hyc⟩
        rw [happ, List.append_assoc]
        exact List.mem_append_right _ ((hknown y).mpr (List.mem_append_right _ hy))
    obtain ⟨y, hy, hyc⟩ := hex
    have : y = c := hash_inj wf.hashNodup (hsub' y hy) (hcall c hc) hyc
    subst this
    exact hy

theorem DInv.empty (cs : List Change) : DInv cs Doc.empty := ⟨Doc.empty_inv, by simp [Doc.empty]⟩

theorem deliver_run {cs : List Change} (wf : WF cs) :
    ∀ (σ : List (List Change)) (d : Doc), DInv cs d → (∀ call ∈ σ, ∀ c ∈ call, c ∈ cs) →
      DInv cs (deliverFrom d σ) ∧
      (∀ c ∈ d.applied ++ d.queue, c ∈ (deliverFrom d σ).applied ++ (deliverFrom d σ).queue) ∧
      (∀ call ∈ σ, ∀ c ∈ call, c ∈ (deliverFrom d σ).applied ++ (deliverFrom d σ).queue)
  | [], d, hd, _ => ⟨hd, fun c hc => hc, by simp⟩
  | call :: σ, d, hd, hσ => by
    obtain ⟨_, hd', _, hmono, hcall⟩ := deliver_step wf hd (hσ call List.mem_cons_self)
    obtain ⟨h1, h2, h3⟩ := deliver_run wf σ _ hd' (fun k hk => hσ k (List.mem_cons_of_mem _ hk))
    refine ⟨h1, fun c hc => h2 c (hmono c hc), ?_⟩
    intro k hk c hc
    rcases List.mem_cons.mp hk with rfl | hk
    · exact h2 c (hcall c hc)
    · exact h3 k hk c hc

/-- no call of a schedule inside a well-formed universe fails -/
theorem deliver_no_error {cs : List Change} (wf : WF cs) {σ : List (List Change)}
    (hσ : ∀ call ∈ σ, ∀ c ∈ call, c ∈ cs) {σ₁ σ₂ : List (List Change)} {call : List Change}
    (hsplit : σ = σ₁ ++ call :: σ₂) : (applyBatch (deliverAll σ₁) call).2 = .ok () := by
  subst hsplit
  have h1 := (deliver_run wf σ₁ Doc.empty (DInv.empty cs)
    (fun k hk => hσ k (List.mem_append_left _ hk))).1
  exact (deliver_step wf h1 (hσ call (by simp))).1

/-- a complete schedule ends with everything applied and nothing held -/
theorem deliver_complete {cs : List Change} (wf : WF cs) {σ : List (List Change)}
    (hσ : ∀ call ∈ σ, ∀ c ∈ call, c ∈ cs) (hall : ∀ c ∈ cs, ∃ call ∈ σ, c ∈ call) :
    (deliverAll σ).applied.Perm cs ∧ (deliverAll σ).queue = [] := by
  obtain ⟨hd, _, hknown⟩ := deliver_run wf σ Doc.empty (DInv.empty cs) hσ
  change DInv cs (deliverAll σ) at hd
  change ∀ call ∈ σ, ∀ c ∈ call, c ∈ (deliverAll σ).applied ++ (deliverAll σ).queue at hknown
  obtain ⟨rank, hrank⟩ := wf.acyclic
  have hnoq : ∀ (n : Nat) (c : Change), c ∈ (deliverAll σ).queue → rank c.hash = n → False := by
    intro n
    induction n using Nat.strongRecOn with
    | _ n ih =>
      intro c hc hn
      have hcc : c ∈ cs := hd.sub c (List.mem_append_right _ hc)
      obtain ⟨dep, hdep, hna⟩ := hd.inv.noneReady c hc
      rw [hasChange_false_iff] at hna
      obtain ⟨p, hp, hpd⟩ := mem_hashes.mp (wf.depsIn c hcc dep hdep)
      obtain ⟨call, hcall, hpc⟩ := hall p hp
      rcases List.mem_append.mp (hknown call hcall p hpc) with h | h
      · exact hna (hpd ▸ mem_hashes_of_mem h)
      · have := hrank c hcc dep hdep
        exact ih (rank p.hash) (by rw [hpd]; omega) p h rfl
  have hq : (deliverAll σ).queue = [] := by
    cases hq : (deliverAll σ).queue with
    | nil => rfl
    | cons c q => exact (hnoq _ c (by rw [hq]; exact List.mem_cons_self) rfl).elim
  refine ⟨?_, hq⟩
  have happn : (deliverAll σ).applied.Nodup := nodup_of_hashes hd.inv.inv0.applied_nodup
  rw [List.perm_ext_iff_of_nodup happn (nodup_of_hashes wf.hashNodup)]
  intro c
  constructor
  · intro hc; exact hd.sub c (List.mem_append_left _ hc)
  · intro hc
    obtain ⟨call, hcall, hcc⟩ := hall c hc
    have := hknown call hcall c hcc
    rw [hq, List.append_nil] at this
    exact this

/-- **C01 (delivery half)**: two complete schedules over the same universe — any order, any
    batching, any duplication — end with the same set of applied changes, nothing held, the same
    heads and the same multiset of operations (hence, by `showDoc_perm` of `Proofs/Spec`, the same
    visible document). -/
theorem deliver_any_order {cs : List Change} (wf : WF cs) {σ τ : List (List Change)}
    (hσ : ∀ call ∈ σ, ∀ c ∈ call, c ∈ cs) (hσall : ∀ c ∈ cs, ∃ call ∈ σ, c ∈ call)
    (hτ : ∀ call ∈ τ, ∀ c ∈ call, c ∈ cs) (hτall : ∀ c ∈ cs, ∃ call ∈ τ, c ∈ call) :
    (deliverAll σ).applied.Perm (deliverAll τ).applied ∧
    (deliverAll σ).queue = [] ∧ (deliverAll τ).queue = [] ∧
    (deliverAll σ).heads = (deliverAll τ).heads ∧
    (deliverAll σ).ops.Perm (deliverAll τ).ops := by
  obtain ⟨p1, q1⟩ := deliver_complete wf hσ hσall
  obtain ⟨p2, q2⟩ := deliver_complete wf hτ hτall
  have hp : (deliverAll σ).applied.Perm (deliverAll τ).applied := p1.trans p2.symm
  have i1 := (deliver_run wf σ Doc.empty (DInv.empty cs) hσ).1.inv.inv0
  have i2 := (deliver_run wf τ Doc.empty (DInv.empty cs) hτ).1.inv.inv0
  change (deliverAll σ).Inv0 at i1
  change (deliverAll τ).Inv0 at i2
  refine ⟨hp, q1, q2, ?_, hp.flatMap_right _⟩
  apply SortedHashes.ext (Doc.heads_sorted _) (Doc.heads_sorted _)
  intro x
  rw [i1.mem_heads, i2.mem_heads]
  constructor
  · rintro ⟨⟨c, hc, hcx⟩, hno⟩
    exact ⟨⟨c, hp.mem_iff.mp hc, hcx⟩, fun ⟨y, hy, hyx⟩ => hno ⟨y, hp.mem_iff.mpr hy, hyx⟩⟩
  · rintro ⟨⟨c, hc, hcx⟩, hno⟩
    exact ⟨⟨c, hp.mem_iff.mpr hc, hcx⟩, fun ⟨y, hy, hyx⟩ => hno ⟨y, hp.mem_iff.mp hy, hyx⟩⟩

/-- **C38 ("rejected")**: a change with an unknown hash that claims the (actor, seq) of a known
    change is rejected with `DuplicateSeqNumber`; the applied changes are untouched and the queue
    can only lose entries. -/
theorem applyBatch_conflict {d : Doc} {c x : Change} (hx : x ∈ d.applied ++ d.queue)
    (ha : x.actor = c.actor) (hs : x.seq = c.seq) (hnew : c.hash ∉ hashes (d.applied ++ d.queue)) :
    ∃ q, applyBatch d [c] = ({ d with queue := q }, .error (.duplicateSeq c.seq c.actor)) ∧
      q.Sublist d.queue := by
  rw [hashes_append, List.mem_append, not_or, ← hasChange_iff, ← queueHas_iff] at hnew
  have hskip : (d.hasChange c.hash || d.queueHas c.hash) = false := by
    simp [hnew.1, hnew.2]
  by_cases h1 : d.hasActorSeq c = true
  · refine ⟨removeActorBranchFrom d.queue c.actor (c.seq + 1), ?_, removeActorBranchFrom_sublist _ _ _⟩
    apply applyBatch_of_err
    simp [collectBatch, hskip, h1]
  · have h2 : queueHasActorSeq d.queue c = true := by
      rcases List.mem_append.mp hx with hx | hx
      · exfalso
        apply h1
        have := le_seqForActor hx
        simp only [Doc.hasActorSeq, decide_eq_true_eq]
        rw [← ha, ← hs]; exact this
      · exact queueHasActorSeq_iff.mpr (mem_actorSeqs.mpr ⟨x, hx, ha, hs⟩)
    refine ⟨d.queue, ?_, List.Sublist.refl _⟩
    apply applyBatch_of_err
    simp [collectBatch, hskip, h1, h2]

/-- **C38**: a change `c` that differs from a known change `x` with the same (actor, seq) is not
    in the document after ANY `apply_changes` call (whatever else the call offers, and whether it
    succeeds or fails): it is rejected or discarded, never applied and never queued. -/
theorem conflicting_never_enters {d : Doc} (hinv : d.Inv) {c x : Change}
    (hx : x ∈ d.applied ++ d.queue) (ha : x.actor = c.actor) (hs : x.seq = c.seq) (hne : c ≠ x)
    (cs : List Change) :
    c ∉ (applyBatch d cs).1.applied ++ (applyBatch d cs).1.queue := by
  have hold : c ∉ d.applied ++ d.queue := fun hc => hne (actorSeq_inj hinv.seqNodup hc hx ha.symm hs.symm)
  rcases applyBatch_cases d cs hinv with ⟨_, _, q, heq, hq⟩ | ⟨batch, topo, _, _, _, _, happ, hperm, _, hinv'⟩
  · rw [heq]
    intro hc
    apply hold
    rcases List.mem_append.mp hc with hc | hc
    · exact List.mem_append_left _ hc
    · apply List.mem_append_right
      rcases hq with rfl | rfl
      · exact hc
      · exact (removeActorBranchFrom_sublist _ _ _).subset hc
  · intro hc
    have hx' : x ∈ (applyBatch d cs).1.applied ++ (applyBatch d cs).1.queue := by
      rw [happ, List.append_assoc]
      rcases List.mem_append.mp hx with hx | hx
      · exact List.mem_append_left _ hx
      · exact List.mem_append_right _ (hperm.mem_iff.mpr (List.mem_append_left _ hx))
    exact hne (actorSeq_inj hinv'.seqNodup hc hx' ha.symm hs.symm)

deriving instance DecidableEq for Doc

instance : DecidableEq (Except ApplyErr Unit)
  | .ok (), .ok () => isTrue rfl
  | .error a, .error b =>
    if h : a = b then isTrue (by rw [h]) else isFalse (by intro he; cases he; exact h rfl)
  | .ok _, .error _ => isFalse (by intro h; cases h)
  | .error _, .ok _ => isFalse (by intro h; cases h)

/-! ## example data for the non-vacuity checks in `Props/` -/
namespace Ex

def putOp (ctr : Nat) (actor : Bytes) (v : Int) (pred : List OpId) : Op :=
  ⟨⟨ctr, actor⟩, .root, .map [107], false, .put (.int v), pred⟩

/-- a change nobody has yet -/
def m0 : Change := ⟨[0], [0xF], 1, 1, [], [putOp 1 [0xF] 5 []]⟩
/-- root of a diamond -/
def a1 : Change := ⟨[1], [0xA], 1, 1, [], [putOp 1 [0xA] 10 []]⟩
def b1 : Change := ⟨[2], [0xB], 1, 2, [[1]], [putOp 2 [0xB] 20 [⟨1, [0xA]⟩]]⟩
def c1 : Change := ⟨[3], [0xC], 1, 2, [[1]], [putOp 2 [0xC] 30 [⟨1, [0xA]⟩]]⟩
/-- joins the diamond -/
def b2 : Change := ⟨[4], [0xB], 2, 3, [[2], [3]], [putOp 3 [0xB] 40 [⟨2, [0xB]⟩, ⟨2, [0xC]⟩]]⟩
/-- depends on the join and on `m0` -/
def e1 : Change := ⟨[5], [0xE], 1, 4, [[4], [0]], [putOp 4 [0xE] 50 [⟨3, [0xB]⟩]]⟩
def e2 : Change := ⟨[6], [0xE], 2, 5, [[5]], [putOp 5 [0xE] 60 [⟨4, [0xE]⟩]]⟩
/-- a different change claiming (actor B, seq 1) -/
def b1' : Change := ⟨[7], [0xB], 1, 2, [[1]], [putOp 2 [0xB] 21 [⟨1, [0xA]⟩]]⟩
/-- actor B, seq 3, waiting for a hash nobody has -/
def b3 : Change := ⟨[8], [0xB], 3, 9, [[4], [99]], []⟩

def allChanges : List Change := [m0, a1, b1, c1, b2, e1, e2]

theorem allChanges_wf : WF allChanges :=
  ⟨by decide, by decide, by decide, ⟨fun h => (h.headD 0).toNat, by decide⟩, by decide⟩

/-- everything but `m0` delivered in one call, out of order: the diamond is applied, `e1`/`e2` held -/
def doc1 : Doc := (applyBatch Doc.empty [e2, b2, e1, b1, c1, a1]).1

theorem doc1_reachable : Reachable doc1 := .apply _ .empty

/-- `doc1` after `b3` arrived as well (held: one of its deps is unknown) -/
def doc2 : Doc := (applyBatch doc1 [b3]).1

theorem doc2_reachable : Reachable doc2 := .apply _ doc1_reachable

end Ex
end AmVerif.Crdt
