import AmVerif.Model.HexaneCodec
/-
  Helper lemmas: the `leb128`-crate readers invert hexane's varint writers
  (`readU (encU n ++ rest) = (n, rest)` for `n < 2^64`, `readS (encS z ++ rest) = (z, rest)` for
  `z` in the `i64` range).
-/
namespace AmVerif.Hexane
open AmVerif

theorem u8_toNat_ofNat (b : Nat) (h : b < 256) : (UInt8.ofNat b).toNat = b := by
  simp [UInt8.toNat_ofNat']; omega

theorem u8_ofNat_ne (b c : Nat) (hb : b < 256) (hc : c < 256) (h : b ≠ c) : UInt8.ofNat b ≠ UInt8.ofNat c := by
  intro he
  have := congrArg UInt8.toNat he
  rw [u8_toNat_ofNat b hb, u8_toNat_ofNat c hc] at this
  exact h this

theorem pow_shift7 (s : Nat) : 2 ^ (s + 7) = 128 * 2 ^ s := by
  rw [Nat.pow_add]; omega

/-! ### unsigned -/

theorem encUF_ne_nil (f n : Nat) : encUF (f + 1) n ≠ [] := by
  unfold encUF; split <;> simp

theorem readULoop_encUF : ∀ (f n res shift : Nat) (rest : Bytes),
    n < 128 ^ (f + 1) → n * 2 ^ shift < 2 ^ 64 →
    readULoop (encUF (f + 1) n ++ rest) res shift = .ok (res + n * 2 ^ shift, rest) := by
  intro f
  induction f with
  | zero =>
    intro n res shift rest hn hs
    have hn' : n < 128 := by simpa using hn
    simp only [encUF, hn', if_true, List.cons_append, List.nil_append, readULoop]
    have hb : (UInt8.ofNat n).toNat = n := u8_toNat_ofNat n (by omega)
    have h63 : ¬ (shift = 63 ∧ UInt8.ofNat n ≠ 0 ∧ UInt8.ofNat n ≠ 1) := by
      rintro ⟨h1, h2, h3⟩
      subst h1
      have : n ≤ 1 := by omega
      rcases Nat.le_one_iff_eq_zero_or_eq_one.mp this with h | h <;> subst h <;> simp at h2 h3
    rw [if_neg h63, hb]
    have : n % 128 = n := Nat.mod_eq_of_lt hn'
    simp [this, hn']
  | succ f ih =>
    intro n res shift rest hn hs
    by_cases hlt : n < 128
    · simp only [encUF, hlt, if_true, List.cons_append, List.nil_append, readULoop]
      have hb : (UInt8.ofNat n).toNat = n := u8_toNat_ofNat n (by omega)
      have h63 : ¬ (shift = 63 ∧ UInt8.ofNat n ≠ 0 ∧ UInt8.ofNat n ≠ 1) := by
        rintro ⟨h1, h2, h3⟩
        subst h1
        have : n ≤ 1 := by omega
        rcases Nat.le_one_iff_eq_zero_or_eq_one.mp this with h | h <;> subst h <;> simp at h2 h3
      rw [if_neg h63, hb]
      have : n % 128 = n := Nat.mod_eq_of_lt hlt
      simp [this, hlt]
    · rw [encUF]
      simp only [hlt, if_false, List.cons_append, readULoop]
      have hb : (UInt8.ofNat (n % 128 + 128)).toNat = n % 128 + 128 := u8_toNat_ofNat _ (by omega)
      have hp : 0 < 2 ^ shift := Nat.pos_of_ne_zero (by simp)
      have h63 : ¬ (shift = 63 ∧ UInt8.ofNat (n % 128 + 128) ≠ 0 ∧ UInt8.ofNat (n % 128 + 128) ≠ 1) := by
        rintro ⟨h1, _, _⟩
        subst h1
        omega
      rw [if_neg h63, hb]
      have hmod : (n % 128 + 128) % 128 = n % 128 := by omega
      have hge : ¬ (n % 128 + 128 < 128) := by omega
      rw [if_neg hge, hmod]
      have hdiv : n / 128 < 128 ^ (f + 1) := by
        have : 128 ^ (f + 1 + 1) = 128 * 128 ^ (f + 1) := by rw [Nat.pow_succ]; omega
        rw [this] at hn
        exact Nat.div_lt_of_lt_mul hn
      have hs' : n / 128 * 2 ^ (shift + 7) < 2 ^ 64 := by
        rw [pow_shift7]
        have h1 : n / 128 * (128 * 2 ^ shift) = (128 * (n / 128)) * 2 ^ shift := by grind
        rw [h1]
        have h2 : 128 * (n / 128) ≤ n := Nat.mul_div_le n 128
        exact Nat.lt_of_le_of_lt (Nat.mul_le_mul_right _ h2) hs
      rw [ih (n / 128) _ (shift + 7) rest hdiv hs', pow_shift7]
      have := Nat.mod_add_div n 128
      congr 2
      grind

theorem readU_encU (n : Nat) (rest : Bytes) (h : n < 2 ^ 64) :
    readU (encU n ++ rest) = .ok (n, rest) := by
  unfold readU encU
  have := readULoop_encUF 9 n 0 0 rest (by omega) (by simpa using h)
  simpa using this

theorem encU_ne_nil (n : Nat) : encU n ≠ [] := encUF_ne_nil 9 n

/-! ### signed -/

theorem encSF_ne_nil (f : Nat) (z : Int) : encSF (f + 1) z ≠ [] := by
  unfold encSF; simp only; split <;> simp

theorem toI64_small (p : Nat) (h : p < two63) : toI64 p = p := by
  unfold toI64 two64 two63 at *
  have : p % 2 ^ 64 = p := Nat.mod_eq_of_lt (by omega)
  rw [this, if_pos h]

/-- the general loop invariant: reading `encSF (f+1) z` at bit position `shift` (a multiple of 7
    below 64) with the low bits `res` already accumulated yields `res + z * 2^shift` -/
theorem readSLoop_encSF : ∀ (f : Nat) (z : Int) (res shift : Nat) (rest : Bytes),
    -(64 * 128 ^ f : Int) ≤ z → z < (64 * 128 ^ f : Int) →
    shift % 7 = 0 → shift ≤ 63 → res < 2 ^ shift →
    -(2 ^ (63 - shift) : Int) ≤ z → z < (2 ^ (63 - shift) : Int) →
    readSLoop (encSF (f + 1) z ++ rest) res shift = .ok ((res : Int) + z * (2 ^ shift : Nat), rest) := by
  intro f
  induction f with
  | zero =>
    intro z res shift rest hlo hhi hs7 hs63 hres hzlo hzhi
    have hlo' : -64 ≤ z := by simpa using hlo
    have hhi' : z < 64 := by simpa using hhi
    -- terminal byte
    have hterm : (z / 128 = 0 ∧ (z % 128).toNat < 64) ∨ (z / 128 = -1 ∧ 64 ≤ (z % 128).toNat) := by omega
    simp only [encSF, hterm, if_true, List.cons_append, List.nil_append, readSLoop]
    have hbyte : (z % 128).toNat < 128 := by omega
    have hb : (UInt8.ofNat (z % 128).toNat).toNat = (z % 128).toNat := u8_toNat_ofNat _ (by omega)
    by_cases h63 : shift = 63
    · subst h63
      have hz : z = 0 ∨ z = -1 := by
        have h1 : -(1 : Int) ≤ z := by simpa using hzlo
        have h2 : z < 1 := by simpa using hzhi
        omega
      rcases hz with hz | hz <;> subst hz
      · have e : res % two64 = res := Nat.mod_eq_of_lt (by unfold two64; omega)
        simp [e, toI64_small res (by unfold two63; omega)]
      · have h1 : ((-1 : Int) % 128).toNat = 127 := by decide
        have hb' : (UInt8.ofNat 127).toNat = 127 := by decide
        have hne1 : UInt8.ofNat 127 = 127 := by decide
        have hsum : (res + 127 * 2 ^ 63) % two64 = res + 2 ^ 63 := by unfold two64; omega
        have hto : toI64 (res + 2 ^ 63) = (res : Int) - 2 ^ 63 := by
          unfold toI64 two64 two63
          have : (res + 2 ^ 63) % 2 ^ 64 = res + 2 ^ 63 := Nat.mod_eq_of_lt (by omega)
          rw [this, if_neg (by omega)]; omega
        simp [h1, hb', hne1, hsum, hto]
        omega
    · have hsle : shift ≤ 56 := by omega
      have hne : ¬ (shift = 63 ∧ UInt8.ofNat (z % 128).toNat ≠ 0 ∧ UInt8.ofNat (z % 128).toNat ≠ 0x7f) := by
        rintro ⟨h, _⟩; exact h63 h
      rw [if_neg hne, hb]
      have hmod : (z % 128).toNat % 128 = (z % 128).toNat := Nat.mod_eq_of_lt hbyte
      simp only [hmod, hbyte, if_true]
      have hp : 0 < 2 ^ shift := Nat.pos_of_ne_zero (by simp)
      have hlt : res + (z % 128).toNat * 2 ^ shift < 2 ^ (shift + 7) := by
        rw [pow_shift7]
        have : (z % 128).toNat * 2 ^ shift ≤ 127 * 2 ^ shift := Nat.mul_le_mul_right _ (by omega)
        omega
      have hle63 : 2 ^ (shift + 7) ≤ 2 ^ 63 := Nat.pow_le_pow_right (by omega) (by omega)
      have hsum : (res + (z % 128).toNat * 2 ^ shift) % two64 = res + (z % 128).toNat * 2 ^ shift := by
        unfold two64; exact Nat.mod_eq_of_lt (by omega)
      rw [hsum]
      have hsh : shift + 7 < 64 := by omega
      rcases hterm with ⟨hq, hbl⟩ | ⟨hq, hbl⟩
      · -- non-negative
        have hcond : ¬ (shift + 7 < 64 ∧ 64 ≤ (z % 128).toNat) := by omega
        rw [if_neg hcond, toI64_small _ (by unfold two63; omega)]
        have hz : (z % 128).toNat = z.toNat := by omega
        have hz2 : (z.toNat : Int) = z := by omega
        simp only [Prod.mk.injEq, and_true, Except.ok.injEq]
        rw [hz]
        push_cast
        rw [hz2]
      · have hcond : shift + 7 < 64 ∧ 64 ≤ (z % 128).toNat := ⟨hsh, hbl⟩
        rw [if_pos hcond]
        simp only [Prod.mk.injEq, and_true, Except.ok.injEq]
        rw [pow_shift7]
        have hz : ((z % 128).toNat : Int) = z + 128 := by omega
        push_cast
        rw [hz]
        grind
  | succ f ih =>
    intro z res shift rest hlo hhi hs7 hs63 hres hzlo hzhi
    by_cases hterm : (z / 128 = 0 ∧ (z % 128).toNat < 64) ∨ (z / 128 = -1 ∧ 64 ≤ (z % 128).toNat)
    · -- same bytes as with fuel 1
      have hz : -64 ≤ z ∧ z < 64 := by omega
      have h1 := ih z res shift rest
      -- use the base-case statement through a fresh instance: encSF emits one byte
      have e1 : encSF (f + 1 + 1) z = encSF 1 z := by
        simp only [encSF, hterm, if_true]
      have e2 : encSF (f + 1) z = encSF 1 z := by
        simp only [encSF, hterm, if_true]
      rw [e1, ← e2]
      apply h1
      · have : (1 : Int) ≤ 128 ^ f := by
          have := Nat.one_le_two_pow (n := 7 * f)
          have h2 : (128 : Int) ^ f = ((128 ^ f : Nat) : Int) := by push_cast; rfl
          have h3 : 1 ≤ 128 ^ f := Nat.one_le_pow _ _ (by omega)
          omega
        omega
      · have h3 : 1 ≤ 128 ^ f := Nat.one_le_pow _ _ (by omega)
        have h2 : (128 : Int) ^ f = ((128 ^ f : Nat) : Int) := by push_cast; rfl
        omega
      · exact hs7
      · exact hs63
      · exact hres
      · exact hzlo
      · exact hzhi
    · rw [encSF]
      simp only [hterm, if_false, List.cons_append, readSLoop]
      have hbyte : (z % 128).toNat < 128 := by omega
      have hb : (UInt8.ofNat ((z % 128).toNat + 128)).toNat = (z % 128).toNat + 128 := u8_toNat_ofNat _ (by omega)
      -- not at the last position: there only 0 / -1 remain, which are terminal
      have h63 : shift ≠ 63 := by
        intro h; subst h
        have h1 : -(1 : Int) ≤ z := by simpa using hzlo
        have h2 : z < 1 := by simpa using hzhi
        apply hterm
        omega
      have hsle : shift ≤ 56 := by omega
      have hne : ¬ (shift = 63 ∧ UInt8.ofNat ((z % 128).toNat + 128) ≠ 0 ∧ UInt8.ofNat ((z % 128).toNat + 128) ≠ 0x7f) := by
        rintro ⟨h, _⟩; exact h63 h
      rw [if_neg hne, hb]
      have hmod : ((z % 128).toNat + 128) % 128 = (z % 128).toNat := by omega
      have hge : ¬ ((z % 128).toNat + 128 < 128) := by omega
      rw [if_neg hge, hmod]
      have hp : 0 < 2 ^ shift := Nat.pos_of_ne_zero (by simp)
      have hlt : res + (z % 128).toNat * 2 ^ shift < 2 ^ (shift + 7) := by
        rw [pow_shift7]
        have : (z % 128).toNat * 2 ^ shift ≤ 127 * 2 ^ shift := Nat.mul_le_mul_right _ (by omega)
        omega
      have hle63 : 2 ^ (shift + 7) ≤ 2 ^ 63 := Nat.pow_le_pow_right (by omega) (by omega)
      have hsum : (res + (z % 128).toNat * 2 ^ shift) % two64 = res + (z % 128).toNat * 2 ^ shift := by
        unfold two64; exact Nat.mod_eq_of_lt (by omega)
      rw [hsum]
      have hpow : (128 : Int) ^ (f + 1) = 128 * 128 ^ f := by rw [Int.pow_succ]; omega
      rw [hpow] at hlo hhi
      have e63 : (2 : Int) ^ (63 - shift) = 128 * 2 ^ (63 - (shift + 7)) := by
        have : 63 - shift = (63 - (shift + 7)) + 7 := by omega
        rw [this, Int.pow_add]; omega
      rw [e63] at hzlo hzhi
      rw [ih (z / 128) _ (shift + 7) rest (by omega) (by omega) (by omega) (by omega) hlt (by omega) (by omega)]
      simp only [Prod.mk.injEq, and_true, Except.ok.injEq]
      rw [pow_shift7]
      have hz : ((z % 128).toNat : Int) = z % 128 := by omega
      push_cast
      rw [hz]
      have := Int.emod_add_mul_ediv z 128
      grind

theorem readS_encS (z : Int) (rest : Bytes) (hlo : -(two63 : Int) ≤ z) (hhi : z < (two63 : Int)) :
    readS (encS z ++ rest) = .ok (z, rest) := by
  unfold readS encS
  unfold two63 at hlo hhi
  have e9 : (64 * 128 ^ 9 : Int) = 590295810358705651712 := by decide
  have e63 : ((2 ^ 63 : Nat) : Int) = 9223372036854775808 := by decide
  rw [e63] at hlo hhi
  have := readSLoop_encSF 9 z 0 0 rest (by rw [e9]; omega) (by rw [e9]; omega) (by omega) (by omega)
    (by omega) (by simp; omega) (by simp; omega)
  simpa using this

theorem encS_ne_nil (z : Int) : encS z ≠ [] := encSF_ne_nil 9 z

end AmVerif.Hexane
