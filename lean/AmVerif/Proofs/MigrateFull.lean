import AmVerif.Proofs.Migrate
/-
  String migration, list elements (C40 at full strength), part 1: one conversion.

  §1  `make_text_splice`: a `make text` op of the transaction followed by `splice_text(0, 0, s)`
      into the new object (the part of a conversion that does not depend on where the make op goes)
  §2  `convert_list_step`: `put_object(list, i, Text)` + `splice_text(new, 0, 0, s)`
      (the map step is `convert_map_step` of Proofs/Migrate.lean)
-/
namespace AmVerif.Crdt
open AmVerif

/-! ## §1 a make-text op and the splice into the new object -/

theorem make_text_splice {e : Enc} {ops : List Op} {t : Tx} {o : Op} {s : Bytes} {more : List Op}
    (inv : TxInv ops t) (hoid : o.id = t.nextId) (hoact : o.action = .make .text) (hoins : o.insert = false)
    (hoty : ∃ ty, objType ops o.obj = some ty)
    (hopred : ∀ q ∈ o.pred, ∃ y ∈ ops, y.id = q)
    (hokey : ∀ el, o.key = .elem el → ∃ y ∈ ops, y.id = el)
    (h2 : localSpliceText e (ops ++ [o]) { t with pending := t.pending ++ [o] } (.id o.id) 0 0 s = .ok more) :
    objType (ops ++ [o] ++ more) (.id t.nextId) = some .text ∧
    textOf (seqElems (ops ++ [o] ++ more) (.id t.nextId)) = s ∧
    (∀ obj' k', mapRegister (ops ++ [o] ++ more) obj' k' = mapRegister (ops ++ [o]) obj' k') ∧
    (∀ obj', obj' ≠ .id t.nextId → seqElems (ops ++ [o] ++ more) obj' = seqElems (ops ++ [o]) obj') ∧
    (∀ o', objType (ops ++ [o] ++ more) o' = objType (ops ++ [o]) o') ∧
    TxInv (ops ++ [o] ++ more) { t with pending := t.pending ++ [o] ++ more } := by
  obtain ⟨hlt, hnp, _⟩ := inv.ctr.fresh (n := t.nextId) (Nat.le_refl _)
  have hobjf := inv.objs.fresh (n := t.nextId) (Nat.le_refl _)
  obtain ⟨ty, hty⟩ := hoty
  have hoo : o.obj ≠ .id o.id := by rw [hoid]; exact obj_ne_next_of_objType hlt hty
  have hlt' : ∀ x ∈ ops, x.id.lt o.id = true := by rw [hoid]; exact hlt
  obtain ⟨hnty, _, hnseq⟩ := new_object_empty hlt' (by rw [hoid]; exact hobjf) hoo hoact
  rw [hoid] at hnty hnseq
  have hb0 : t.nextId.ctr = t.startOp + t.pending.length := rfl
  have inv1 : TxInv (ops ++ [o]) { t with pending := t.pending ++ [o] } := by
    refine ⟨strictIds_append_fresh inv.strict hlt', ?_,
      refsSmaller_append inv.refs (by intro h; rw [hoins] at h; cases h), ?_⟩
    · intro x hx
      simp only [List.length_append, List.length_cons, List.length_nil]
      rcases List.mem_append.mp hx with hx | hx
      · exact (inv.ctr.mono (by omega)) x hx
      · have : x = o := by simpa using hx
        subst this
        refine ⟨by rw [hoid, hb0]; omega, fun q hq => ?_, ?_⟩
        · obtain ⟨y, hy, rfl⟩ := hopred q hq
          have := (inv.ctr y hy).1
          omega
        · cases hk : x.key with
          | elem el =>
            obtain ⟨y, hy, rfl⟩ := hokey el hk
            have := (inv.ctr y hy).1
            simp; omega
          | _ => rfl
    · intro x hx
      simp only [List.length_append, List.length_cons, List.length_nil]
      rcases List.mem_append.mp hx with hx | hx
      · exact (inv.objs.mono (by omega)) x hx
      · have : x = o := by simpa using hx
        subst this
        cases hobj : x.obj with
        | root => rfl
        | id i =>
          rw [hobj] at hty
          obtain ⟨y, hy, hyi⟩ := objType_some_mem hty
          have := (inv.ctr y hy).1
          rw [hyi] at this
          simp; omega
  obtain ⟨_, hmore⟩ := splice_zero h2
  rw [hoid] at hmore
  have hTb : (match (ObjId.id t.nextId) with | .id o => decide (o.ctr < t.startOp + t.pending.length + 1) | .root => true) = true := by
    simp [hb0]
  have hobjs1 : ObjBelow (ops ++ [o]) (t.startOp + t.pending.length + 1) := by
    apply inv1.objs.mono
    simp only [List.length_append, List.length_cons, List.length_nil]; omega
  have hctr1 : CtrBelow (ops ++ [o]) (({ t with pending := t.pending ++ [o] } : Tx).startOp +
      ({ t with pending := t.pending ++ [o] } : Tx).pending.length + 0) := inv1.ctr
  obtain ⟨i1, i2, i3, i4, i5, i6, i7⟩ := chain_others { t with pending := t.pending ++ [o] } (.id t.nextId)
    (t.startOp + t.pending.length + 1) hTb (utf8Chars s) .head 0 (ops ++ [o]) inv1.strict hctr1 inv1.refs
    hobjs1 (.inl rfl)
  rw [← hmore] at i1 i2 i3 i4 i5 i6 i7
  have hlen : more.length = (utf8Chars s).length := by rw [hmore, chainInserts_length]
  refine ⟨?_, ?_, i1, fun obj' hne => i2 obj' hne, i3, ?_⟩
  · rw [i3, hnty]
  · by_cases hs0 : s = []
    · subst hs0
      have : more = [] := by rw [hmore, utf8Chars_nil]; rfl
      rw [this, List.append_nil, hnseq]; rfl
    · obtain ⟨j, hj, _, _, htext⟩ := splice_text_content inv1.strict inv1.ctr inv1.refs
        (by rw [hoid] at h2; exact h2) hs0
      rw [htext, hnseq]
      simp [textOf]
  · refine ⟨i4, ?_, i6, ?_⟩
    · have : ({ t with pending := t.pending ++ [o] ++ more } : Tx).startOp +
          ({ t with pending := t.pending ++ [o] ++ more } : Tx).pending.length =
          t.startOp + (t.pending ++ [o]).length + 0 + (utf8Chars s).length := by
        simp only [List.length_append, hlen]; omega
      rw [this]; exact i5
    · apply i7.mono
      simp only [List.length_append, List.length_cons, List.length_nil]; omega

/-! ## §2 one conversion of a list element -/

/-- an element of the element order is keyed on HEAD or on another element, never on a map key -/
theorem rgaFrom_key_not_map {ops : List Op} {obj : ObjId} {x : Op} :
    ∀ {f : Nat} {p : Key}, (∀ k, p ≠ .map k) → x ∈ rgaFrom ops obj f p → ∀ k, x.key ≠ .map k
  | 0, _, _, h => by cases h
  | f + 1, p, hp, h => by
    rw [rgaFrom_succ, List.mem_flatMap] at h
    obtain ⟨c, hc, hx⟩ := h
    rcases List.mem_cons.mp hx with rfl | hx
    · obtain ⟨_, _, _, h4⟩ := mem_children.mp hc
      intro k hk; exact hp k (h4 ▸ hk)
    · exact rgaFrom_key_not_map (fun k hk => by cases hk) hx

/-- an op on an element of the element order does not touch any map register (of any object) -/
theorem TxOp.elem_any_mapRegister {ops : List Op} {o : Op} {obj : ObjId} {el : OpId}
    (h : TxOp ops o (elemSel obj el)) (hk : o.key = .elem el)
    (hel : ∃ c ∈ rgaOrder ops obj, c.id = el) (obj' : ObjId) (k' : Bytes) :
    mapRegister (ops ++ [o]) obj' k' = mapRegister ops obj' k' := by
  rw [mapRegister_eq, mapRegister_eq]
  apply h.other_register
  · intro x hx h1 h2
    simp only [mapSel, elemSel, Bool.and_eq_true, beq_iff_eq] at h1 h2
    have he := h1.2
    have hk' := h2.2
    unfold Op.elem at he
    rw [hk'] at he
    split at he
    · obtain ⟨c, hc, hce⟩ := hel
      have hxe : x.id = c.id := by rw [hce]; exact Option.some.inj he
      have hcm := (mem_rgaFrom hc).1
      have hxc : x = c := h.strict.distinctIds x hx c hcm hxe
      subst hxc
      exact rgaFrom_key_not_map (fun k hk => by cases hk) hc k' hk'
    · cases he
  · simp [mapSel, hk]

/-- **one conversion of a list element** (`put_object(obj, i, Text)` then
    `splice_text(new, 0, 0, s)`), `obj` a list: the element at position `i` keeps its id and its
    position and holds exactly the new text object, which spells `s`; the other positions of
    `obj`, every map register, the elements of every other object and the type of every existing
    object are as before; and the well-formedness carries over to the next call. -/
theorem convert_list_step {e : Enc} {ops : List Op} {t : Tx} {obj : ObjId} {i : Nat} {s : Bytes}
    {newOps more : List Op} {mk : Op} (inv : TxInv ops t) (hty : objType ops obj = some .list)
    (h1 : localPut e ops t obj (.inr i) (.make .text) true = .ok newOps)
    (hmk : newOps.head? = some mk)
    (h2 : localSpliceText e (ops ++ newOps) { t with pending := t.pending ++ newOps } (.id mk.id) 0 0 s
      = .ok more) :
    (∃ el r, (seqElems ops obj)[i]? = some (el, r) ∧
      seqElems (ops ++ newOps ++ more) obj =
        (seqElems ops obj).take i ++ [(el, [⟨t.nextId, .obj .text⟩])] ++ (seqElems ops obj).drop (i + 1)) ∧
    objType (ops ++ newOps ++ more) (.id t.nextId) = some .text ∧
    textOf (seqElems (ops ++ newOps ++ more) (.id t.nextId)) = s ∧
    (∀ obj' k', mapRegister (ops ++ newOps ++ more) obj' k' = mapRegister ops obj' k') ∧
    (∀ obj', obj' ≠ obj → obj' ≠ .id t.nextId →
      seqElems (ops ++ newOps ++ more) obj' = seqElems ops obj') ∧
    (∀ o', o' ≠ .id t.nextId → objType (ops ++ newOps ++ more) o' = objType ops o') ∧
    TxInv (ops ++ newOps ++ more) { t with pending := t.pending ++ newOps ++ more } := by
  obtain ⟨hlt, hnp, _⟩ := inv.ctr.fresh (n := t.nextId) (Nat.le_refl _)
  -- the call emits exactly one op
  have hsingle : newOps = [mk] := by
    rw [localPut_of_type hty] at h1
    simp only at h1
    split at h1
    · cases h1
    · rw [localListOp_eq] at h1
      split at h1
      · cases h1
      · split at h1
        · cases h1
        · rw [emitOp_make] at h1
          cases h1
          simp only [List.head?_cons, Option.some.injEq] at hmk
          rw [hmk]
  subst hsingle
  generalize mk = o at *
  obtain ⟨ty', el, st, act, preds, hty', _, hseek, hne, ho, hsub, hc⟩ := localPut_list_shape h1
  have hact : act = .make .text := by
    rcases hc with ⟨ha, _⟩ | ⟨v, _, hv, _⟩
    · exact ha
    · cases hv
  subst hact
  have hk : o.key = .elem el := by rw [ho]; rfl
  have hoid : o.id = t.nextId := by rw [ho]; rfl
  have hoobj : o.obj = obj := by rw [ho]; rfl
  have hoins : o.insert = false := by rw [ho]; rfl
  have hoact : o.action = .make .text := by rw [ho]; rfl
  have hopred : o.pred = preds.map (·.id) := by rw [ho]; rfl
  obtain ⟨htx, _, _, _⟩ := localPut_list_txOp inv.strict hlt hnp h1 hk
  have hnd := rgaOrder_ids_nodup inv.strict inv.refs obj
  obtain ⟨el', hk', hget, horder, hseq⟩ := list_op_at_list inv.strict hlt hnp inv.refs hnd hty h1
  have hee : el' = el := by rw [hk] at hk'; cases hk'; rfl
  subst hee
  have hreg : elemRegister (ops ++ [o]) obj el' = [⟨t.nextId, .obj .text⟩] := by
    have := list_value_effect inv.strict hlt hnp h1 hk (by simp [Op.isValue, hoact])
    simpa [Val.ofAction] using this
  rw [hreg] at hseq
  obtain ⟨c, hcr, _, hcid, _, _⟩ := mem_seqRegs (seekByIndex_some_mem hseek)
  have hcm := (mem_rgaFrom hcr).1
  obtain ⟨g1, g2, g3, g4, g5, g6⟩ := make_text_splice (s := s) (more := more) inv hoid hoact hoins
    ⟨.list, by rw [hoobj]; exact hty⟩
    (by
      intro q hq
      rw [hopred] at hq
      obtain ⟨y, hy, rfl⟩ := List.mem_map.mp hq
      exact ⟨y, (mem_regOps.mp (elemRegOps_eq ops obj el' ▸ hsub y hy)).1, rfl⟩)
    (by
      intro el2 hk2
      rw [hk] at hk2; cases hk2
      exact ⟨c, hcm, hcid⟩)
    h2
  have hobjne : obj ≠ .id t.nextId := obj_ne_next_of_objType hlt hty
  refine ⟨⟨el', elemRegister ops obj el', hget, ?_⟩, g1, g2, ?_, ?_, ?_, g6⟩
  · rw [g4 obj hobjne, hseq]; rfl
  · intro obj' k'
    rw [g3, htx.elem_any_mapRegister hk ⟨c, hcr, hcid⟩]
  · intro obj' hne1 hne2
    rw [g4 obj' hne2]
    exact seqElems_congr (rgaOrder_append_noninsert inv.refs hoins obj')
      (fun c' _ => htx.elem_other_elemRegister hoobj hk hoins (.inl hne1))
  · intro o' hne'
    rw [g5, objType_append_old (by rw [hoid]; exact hne')]

end AmVerif.Crdt
