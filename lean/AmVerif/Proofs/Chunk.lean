import AmVerif.Model.Chunk
import AmVerif.Proofs.Leb128
/-
  Proofs about the framing model (`AmVerif.Model.Chunk`): round trip and prefix incompleteness of
  `parseChunk`, what a successful parse has read, `loadChunks`/`loadFile` on concatenations and cuts
  of well-formed chunks, and the single-position-change analysis behind C14.

  `Sha256.sha256` and `Inflate.inflateExact` are opaque here, with one exception: `sha256_length`
  (the digest is 32 bytes long), a structural fact needed because the stored checksum is the
  first four digest bytes.  No cryptographic or compression property is used.
-/
namespace AmVerif.Chunk
open AmVerif AmVerif.Leb

theorem sha256_length (bs : Bytes) : (Sha256.sha256 bs).length = 32 := by
  simp [Sha256.sha256, Sha256.wordBytes]

theorem takeN_append (a b : Bytes) (n : Nat) (h : a.length = n) : takeN n (a ++ b) = .ok (a, b) := by
  subst h
  simp [takeN]

theorem takeN_short (a : Bytes) (n : Nat) (h : a.length < n) : takeN n a = .error .incomplete := by
  simp [takeN, h]

theorem parseHeader_encodeWith (cks : Bytes) (hc : cks.length = 4) (ty : Nat) (hty : ty ≤ 3)
    (data rest : Bytes) (hd : data.length < 2 ^ 64) :
    parseHeader (encodeChunkWith cks ty data ++ rest) =
      .ok (⟨cks, ty, data.length, 9 + (ulebEncode data.length).length, chunkHash ty data⟩,
           data ++ rest) := by
  have e : encodeChunkWith cks ty data ++ rest =
      Consts.MAGIC_BYTES ++ (cks ++ (UInt8.ofNat ty :: (ulebEncode data.length ++ (data ++ rest)))) := by
    simp [encodeChunkWith]
  have hlen : (encodeChunkWith cks ty data ++ rest).length - (data ++ rest).length
      = 9 + (ulebEncode data.length).length := by
    rw [e]; simp [Consts.MAGIC_BYTES, hc]; omega
  unfold parseHeader
  generalize hL : (encodeChunkWith cks ty data ++ rest).length = L
  rw [e, takeN_append _ _ 4 rfl]
  simp only [ne_eq, not_true_eq_false, if_false]
  rw [takeN_append _ _ 4 hc]
  simp only
  rw [toNat_ofNat_lt (by omega), if_neg (by omega), uleb64_encode _ hd]
  simp only
  rw [takeN_append _ _ _ rfl, ← hL, hlen]

/-- the bytes the chunk hash is computed over -/
def hashedBytes (ty : Nat) (data : Bytes) : Bytes :=
  UInt8.ofNat ty :: (ulebEncode data.length ++ data)

theorem chunkHash_eq (ty : Nat) (data : Bytes) :
    chunkHash ty data = Sha256.sha256 (hashedBytes ty data) := rfl

theorem chunkHash_length (ty : Nat) (data : Bytes) : (chunkHash ty data).length = 32 :=
  sha256_length _

theorem checksum_length (ty : Nat) (data : Bytes) : ((chunkHash ty data).take 4).length = 4 := by
  rw [List.length_take, chunkHash_length]; rfl

theorem encodeChunkWith_length (cks : Bytes) (hc : cks.length = 4) (ty : Nat) (data : Bytes) :
    (encodeChunkWith cks ty data).length = 9 + (ulebEncode data.length).length + data.length := by
  simp [encodeChunkWith, Consts.MAGIC_BYTES, hc]; omega

theorem encodeChunk_length (ty : Nat) (data : Bytes) :
    (encodeChunk ty data).length = 9 + (ulebEncode data.length).length + data.length :=
  encodeChunkWith_length _ (checksum_length _ _) _ _

theorem encodeChunkWith_length_ge (cks : Bytes) (hc : cks.length = 4) (ty : Nat) (data : Bytes) :
    10 ≤ (encodeChunkWith cks ty data).length := by
  have := ulebEncode_length_pos data.length
  rw [encodeChunkWith_length _ hc]; omega

theorem parseChunk_encodeWith_plain (bodyOk : Nat → Bytes → Bool) (cks : Bytes) (hc : cks.length = 4)
    (ty : Nat) (hty : ty ≤ 3) (hty2 : ty ≠ 2) (data rest : Bytes) (hd : data.length < 2 ^ 64) :
    parseChunk bodyOk (encodeChunkWith cks ty data ++ rest) =
      if bodyOk ty data then .ok (⟨ty, cks, data, data, chunkHash ty data⟩, rest)
      else .error .invalid := by
  unfold parseChunk
  rw [parseHeader_encodeWith cks hc ty hty data rest hd]
  simp only [Consts.CHUNK_TYPE_COMPRESSED, if_neg hty2, List.take_left, List.drop_left]

theorem parseChunk_encodeWith_compressed (bodyOk : Nat → Bytes → Bool) (cks : Bytes)
    (hc : cks.length = 4) (data rest : Bytes) (hd : data.length < 2 ^ 64) :
    parseChunk bodyOk (encodeChunkWith cks 2 data ++ rest) =
      match Inflate.inflateExact data with
      | none => .error .invalid
      | some dec =>
        if bodyOk 1 dec then .ok (⟨2, cks, data, dec, chunkHash 1 dec⟩, rest) else .error .invalid := by
  unfold parseChunk
  rw [parseHeader_encodeWith cks hc 2 (by omega) data rest hd]
  simp only [Consts.CHUNK_TYPE_COMPRESSED, Consts.CHUNK_TYPE_CHANGE, if_true, List.take_left,
    List.drop_left]
  cases Inflate.inflateExact data <;> rfl

theorem take_append_ge {α : Type} (a b : List α) (k : Nat) (h : a.length ≤ k) :
    (a ++ b).take k = a ++ b.take (k - a.length) := by
  rw [List.take_append, List.take_of_length_le h]

theorem parseHeader_short (input : Bytes) (h : input.length < 4) :
    parseHeader input = .error .incomplete := by
  unfold parseHeader
  rw [takeN_short _ _ h]

theorem parseHeader_prefix_incomplete (cks : Bytes) (hc : cks.length = 4) (ty : Nat) (hty : ty ≤ 3)
    (data : Bytes) (hd : data.length < 2 ^ 64) (k : Nat)
    (hk : k < (encodeChunkWith cks ty data).length) :
    parseHeader ((encodeChunkWith cks ty data).take k) = .error .incomplete := by
  rw [encodeChunkWith_length _ hc] at hk
  have e : encodeChunkWith cks ty data =
      Consts.MAGIC_BYTES ++ (cks ++ (UInt8.ofNat ty :: (ulebEncode data.length ++ data))) := by
    simp [encodeChunkWith]
  by_cases h4 : k < 4
  · apply parseHeader_short
    rw [List.length_take]; omega
  rw [e, take_append_ge _ _ _ (by simp [Consts.MAGIC_BYTES]; omega)]
  unfold parseHeader
  generalize (Consts.MAGIC_BYTES ++ _).length = L
  rw [takeN_append _ _ 4 rfl]
  simp only [ne_eq, not_true_eq_false, if_false]
  have hm : Consts.MAGIC_BYTES.length = 4 := rfl
  rw [hm]
  by_cases h8 : k - 4 < 4
  · rw [takeN_short]
    rw [List.length_take]; omega
  rw [take_append_ge _ _ _ (by omega), takeN_append _ _ 4 hc, hc]
  simp only
  obtain ⟨j, hj⟩ : ∃ j, k - 4 - 4 = j := ⟨_, rfl⟩
  rw [hj]
  cases j with
  | zero => simp
  | succ j =>
    rw [List.take_succ_cons]
    simp only
    rw [toNat_ofNat_lt (by omega), if_neg (by omega)]
    by_cases hu : j < (ulebEncode data.length).length
    · rw [List.take_append_of_le_length (by omega), uleb64_prefix_incomplete _ hd _ hu]
    · rw [take_append_ge _ _ _ (by omega), uleb64_encode _ hd]
      simp only
      rw [takeN_short]
      rw [List.length_take]; omega

theorem takeN_ok {n : Nat} {bs a b : Bytes} (h : takeN n bs = .ok (a, b)) :
    bs = a ++ b ∧ a.length = n ∧ a = bs.take n := by
  unfold takeN at h
  split at h
  · cases h
  · simp only [Except.ok.injEq, Prod.mk.injEq] at h
    obtain ⟨rfl, rfl⟩ := h
    refine ⟨(List.take_append_drop _ _).symm, ?_, rfl⟩
    rw [List.length_take]; omega

/-- what a successful `parseHeader` has read -/
theorem parseHeader_ok_inv {input : Bytes} {h : Header} {i4 : Bytes}
    (hp : parseHeader input = .ok (h, i4)) :
    input = Consts.MAGIC_BYTES ++ (h.checksum ++ (UInt8.ofNat h.ty :: (ulebEncode h.dataLen ++ i4))) ∧
    h.checksum.length = 4 ∧ h.ty ≤ 3 ∧ h.dataLen < 2 ^ 64 ∧ h.dataLen ≤ i4.length ∧
    h.hash = chunkHash h.ty (i4.take h.dataLen) := by
  unfold parseHeader at hp
  split at hp
  · cases hp
  rename_i magic i1 h1
  split at hp
  · cases hp
  rename_i hm
  split at hp
  · cases hp
  rename_i cks i2 h2
  split at hp
  · cases hp
  rename_i tyb i3
  split at hp
  · cases hp
  rename_i hty
  split at hp
  · cases hp
  rename_i len i4' h3
  split at hp
  · cases hp
  rename_i data rest h4
  simp only [Except.ok.injEq, Prod.mk.injEq] at hp
  obtain ⟨rfl, rfl⟩ := hp
  obtain ⟨e1, -, -⟩ := takeN_ok h1
  obtain ⟨e2, l2, -⟩ := takeN_ok h2
  obtain ⟨l3, e3⟩ := uleb64_canonical _ _ _ h3
  obtain ⟨e4, l4, e4'⟩ := takeN_ok h4
  have hm' : magic = Consts.MAGIC_BYTES := by simpa using hm
  simp only
  refine ⟨?_, l2, by omega, ?_, ?_, ?_⟩
  · rw [e1, hm', e2, e3, UInt8.ofNat_toNat, l4]
  · rw [l4]; exact l3
  · rw [l4, e4]; simp; omega
  · rw [l4, ← e4']

/-- what a successful `parseChunk` has read: the input is the framing of the returned chunk
    followed by the returned remainder -/
theorem parseChunk_ok_inv {bodyOk : Nat → Bytes → Bool} {input : Bytes} {ch : Chunk} {rest : Bytes}
    (hp : parseChunk bodyOk input = .ok (ch, rest)) :
    input = encodeChunkWith ch.checksum ch.ty ch.data ++ rest ∧
    ch.checksum.length = 4 ∧ ch.ty ≤ 3 ∧ ch.data.length < 2 ^ 64 ∧
    ((ch.ty ≠ 2 ∧ ch.body = ch.data ∧ ch.hash = chunkHash ch.ty ch.data ∧ bodyOk ch.ty ch.data = true) ∨
     (ch.ty = 2 ∧ Inflate.inflateExact ch.data = some ch.body ∧ ch.hash = chunkHash 1 ch.body ∧
        bodyOk 1 ch.body = true)) := by
  unfold parseChunk at hp
  split at hp
  · cases hp
  rename_i h i hh
  obtain ⟨e, hc, hty, hl, hle, hhash⟩ := parseHeader_ok_inv hh
  have elen : (List.take h.dataLen i).length = h.dataLen := by
    rw [List.length_take]; omega
  have einp : input = encodeChunkWith h.checksum h.ty (List.take h.dataLen i) ++ List.drop h.dataLen i := by
    rw [e]
    simp [encodeChunkWith, elen]
  simp only at hp
  by_cases h2 : h.ty = Consts.CHUNK_TYPE_COMPRESSED
  · rw [if_pos h2] at hp
    split at hp
    · cases hp
    rename_i dec hinf
    split at hp
    · rename_i hb
      simp only [Except.ok.injEq, Prod.mk.injEq] at hp
      obtain ⟨rfl, rfl⟩ := hp
      exact ⟨einp, hc, hty, by simpa [elen] using hl, Or.inr ⟨h2, hinf, rfl, hb⟩⟩
    · cases hp
  · rw [if_neg h2] at hp
    split at hp
    · rename_i hb
      simp only [Except.ok.injEq, Prod.mk.injEq] at hp
      obtain ⟨rfl, rfl⟩ := hp
      exact ⟨einp, hc, hty, by simpa [elen] using hl, Or.inl ⟨h2, rfl, hhash, hb⟩⟩
    · cases hp
/-! ### Stored chunks -/

/-- a chunk as the writer stores it: an uncompressed chunk of type `ty` (0 document, 1 change,
    3 bundle) with body `data`, or a compressed change whose stored bytes `data` inflate to `dec`
    (the checksum of a compressed change is that of the uncompressed change chunk) -/
inductive Stored where
  | plain (ty : Nat) (data : Bytes)
  | compressed (data dec : Bytes)
  deriving DecidableEq, Repr

/-- the bytes written -/
def Stored.bytes : Stored → Bytes
  | .plain ty data => encodeChunk ty data
  | .compressed data dec => encodeChunkWith ((chunkHash 1 dec).take 4) 2 data

/-- the chunk the reader is to return -/
def Stored.chunk : Stored → Chunk
  | .plain ty data => ⟨ty, (chunkHash ty data).take 4, data, data, chunkHash ty data⟩
  | .compressed data dec => ⟨2, (chunkHash 1 dec).take 4, data, dec, chunkHash 1 dec⟩

/-- well-formedness: a known uncompressed type, a length that fits `u64`, and a body its parser
    accepts; for a compressed change the stored bytes inflate to an acceptable change body -/
def Stored.WF (bodyOk : Nat → Bytes → Bool) : Stored → Prop
  | .plain ty data => ty ≤ 3 ∧ ty ≠ 2 ∧ data.length < 2 ^ 64 ∧ bodyOk ty data = true
  | .compressed data dec =>
      data.length < 2 ^ 64 ∧ Inflate.inflateExact data = some dec ∧ bodyOk 1 dec = true

/-- a well-formed stored *uncompressed* chunk, as a predicate on bytes -/
def WFChunk (bodyOk : Nat → Bytes → Bool) (c : Bytes) : Prop :=
  ∃ ty data, ty ≤ 3 ∧ ty ≠ 2 ∧ data.length < 2 ^ 64 ∧ bodyOk ty data = true ∧ c = encodeChunk ty data

theorem WFChunk_iff (bodyOk : Nat → Bytes → Bool) (c : Bytes) :
    WFChunk bodyOk c ↔ ∃ ty data, (Stored.plain ty data).WF bodyOk ∧ c = (Stored.plain ty data).bytes := by
  constructor
  · rintro ⟨ty, data, h1, h2, h3, h4, rfl⟩; exact ⟨ty, data, ⟨h1, h2, h3, h4⟩, rfl⟩
  · rintro ⟨ty, data, ⟨h1, h2, h3, h4⟩, rfl⟩; exact ⟨ty, data, h1, h2, h3, h4, rfl⟩

theorem Stored.chunk_valid (s : Stored) : s.chunk.checksumValid = true := by
  cases s <;> simp [Stored.chunk, Chunk.checksumValid]

theorem Stored.bytes_length_ge (s : Stored) : 10 ≤ s.bytes.length := by
  cases s
  · exact encodeChunkWith_length_ge _ (checksum_length _ _) _ _
  · exact encodeChunkWith_length_ge _ (checksum_length _ _) _ _

theorem Stored.parse {bodyOk : Nat → Bytes → Bool} {s : Stored} (h : s.WF bodyOk) (rest : Bytes) :
    parseChunk bodyOk (s.bytes ++ rest) = .ok (s.chunk, rest) := by
  cases s with
  | plain ty data =>
    obtain ⟨h1, h2, h3, h4⟩ := h
    rw [Stored.bytes, encodeChunk, parseChunk_encodeWith_plain bodyOk _ (checksum_length _ _) ty h1 h2 data
      rest h3, if_pos h4]
    rfl
  | compressed data dec =>
    obtain ⟨h1, h2, h3⟩ := h
    rw [Stored.bytes, parseChunk_encodeWith_compressed bodyOk _ (checksum_length _ _) data rest h1, h2]
    simp only [h3, if_true]
    rfl

theorem parseChunk_of_parseHeader_error {bodyOk : Nat → Bytes → Bool} {input : Bytes} {e : PErr}
    (h : parseHeader input = .error e) : parseChunk bodyOk input = .error e := by
  unfold parseChunk; rw [h]

theorem Stored.prefix_incomplete {bodyOk : Nat → Bytes → Bool} {s : Stored} (h : s.WF bodyOk) (k : Nat)
    (hk : k < s.bytes.length) : parseChunk bodyOk (s.bytes.take k) = .error .incomplete := by
  apply parseChunk_of_parseHeader_error
  cases s with
  | plain ty data =>
    exact parseHeader_prefix_incomplete _ (checksum_length _ _) ty h.1 data h.2.2.1 k hk
  | compressed data dec =>
    exact parseHeader_prefix_incomplete _ (checksum_length _ _) 2 (by omega) data h.1 k hk

/-- the file made of the stored chunks `ss`, in order -/
def fileOf (ss : List Stored) : Bytes := (ss.map Stored.bytes).flatten

theorem fileOf_nil : fileOf [] = [] := rfl
theorem fileOf_cons (s : Stored) (ss : List Stored) : fileOf (s :: ss) = s.bytes ++ fileOf ss := rfl
theorem fileOf_append (a b : List Stored) : fileOf (a ++ b) = fileOf a ++ fileOf b := by
  simp [fileOf]

theorem fileOf_length_ge (ss : List Stored) : 10 * ss.length ≤ (fileOf ss).length := by
  induction ss with
  | nil => simp [fileOf]
  | cons s ss ih =>
    have := s.bytes_length_ge
    rw [fileOf_cons, List.length_append, List.length_cons]; omega

/-! ### `loadChunks` -/

theorem loadChunks_nil (bodyOk : Nat → Bytes → Bool) (fuel : Nat) (acc : List Chunk) :
    loadChunks bodyOk fuel [] acc = ⟨acc, none⟩ := by
  cases fuel <;> simp [loadChunks]

theorem loadChunks_step {bodyOk : Nat → Bytes → Bool} {s : Stored} (h : s.WF bodyOk) (fuel : Nat)
    (rest : Bytes) (acc : List Chunk) :
    loadChunks bodyOk (fuel + 1) (s.bytes ++ rest) acc = loadChunks bodyOk fuel rest (acc ++ [s.chunk]) := by
  have hne : (s.bytes ++ rest).isEmpty = false := by
    have := s.bytes_length_ge
    cases hb : s.bytes with
    | nil => rw [hb] at this; simp at this
    | cons _ _ => rfl
  rw [loadChunks, hne, Stored.parse h]
  simp [s.chunk_valid]

/-- the loop reads a run of well-formed chunks and continues behind it -/
theorem loadChunks_append {bodyOk : Nat → Bytes → Bool} (ss : List Stored)
    (h : ∀ s ∈ ss, s.WF bodyOk) (fuel : Nat) (rest : Bytes) (acc : List Chunk) :
    loadChunks bodyOk (fuel + ss.length) (fileOf ss ++ rest) acc =
      loadChunks bodyOk fuel rest (acc ++ ss.map Stored.chunk) := by
  induction ss generalizing acc with
  | nil => simp [fileOf]
  | cons s ss ih =>
    rw [fileOf_cons, List.append_assoc, List.length_cons, ← Nat.add_assoc,
      loadChunks_step (h s (List.mem_cons_self ..)),
      ih (fun t ht => h t (List.mem_cons_of_mem _ ht))]
    simp


/-- the chunks of `ss` lying completely inside the first `k` bytes of `fileOf ss` -/
def within : List Stored → Nat → List Stored
  | [], _ => []
  | s :: ss, k => if s.bytes.length ≤ k then s :: within ss (k - s.bytes.length) else []

/-- `k` is the end of a chunk of `fileOf ss` (or `0`) -/
abbrev IsBoundary (ss : List Stored) (k : Nat) : Prop := (fileOf (within ss k)).length = k

theorem within_prefix (ss : List Stored) (k : Nat) : ∃ m, within ss k = ss.take m := by
  induction ss generalizing k with
  | nil => exact ⟨0, rfl⟩
  | cons s ss ih =>
    unfold within
    split
    · obtain ⟨m, hm⟩ := ih (k - s.bytes.length)
      exact ⟨m + 1, by rw [hm]; rfl⟩
    · exact ⟨0, rfl⟩

theorem within_length_le (ss : List Stored) (k : Nat) : (fileOf (within ss k)).length ≤ k := by
  induction ss generalizing k with
  | nil => simp [within, fileOf]
  | cons s ss ih =>
    unfold within
    split
    · have := ih (k - s.bytes.length)
      rw [fileOf_cons, List.length_append]; omega
    · simp [fileOf]

/-- boundaries are exactly the lengths of the files made of the first `m` chunks -/
theorem isBoundary_iff (ss : List Stored) (k : Nat) :
    IsBoundary ss k ↔ ∃ m, m ≤ ss.length ∧ k = (fileOf (ss.take m)).length := by
  unfold IsBoundary
  induction ss generalizing k with
  | nil =>
    simp only [within, fileOf_nil, List.length_nil, List.take_nil, Nat.le_zero_eq]
    constructor
    · intro h; exact ⟨0, rfl, h.symm⟩
    · rintro ⟨_, _, h⟩; exact h.symm
  | cons s ss ih =>
    have hs := s.bytes_length_ge
    unfold within
    split
    · rename_i hle
      rw [fileOf_cons, List.length_append]
      constructor
      · intro h
        obtain ⟨m, hm, e⟩ := (ih (k - s.bytes.length)).1 (by omega)
        refine ⟨m + 1, by simpa using hm, ?_⟩
        rw [List.take_succ_cons, fileOf_cons, List.length_append]; omega
      · rintro ⟨m, hm, e⟩
        cases m with
        | zero => simp [fileOf] at e; omega
        | succ m =>
          rw [List.take_succ_cons, fileOf_cons, List.length_append] at e
          have := (ih (k - s.bytes.length)).2 ⟨m, by simpa using hm, by omega⟩
          omega
    · rename_i hlt
      simp only [fileOf_nil, List.length_nil]
      constructor
      · intro h; exact ⟨0, by omega, by simp [fileOf, ← h]⟩
      · rintro ⟨m, hm, e⟩
        cases m with
        | zero => simp [fileOf] at e; omega
        | succ m =>
          rw [List.take_succ_cons, fileOf_cons, List.length_append] at e
          omega

/-- `load_changes` on a cut file: the chunks inside the cut, and `Incomplete` unless the cut is at
    a chunk boundary -/
theorem loadChunks_take {bodyOk : Nat → Bytes → Bool} (ss : List Stored)
    (h : ∀ s ∈ ss, s.WF bodyOk) (k fuel : Nat) (hf : k < fuel) (acc : List Chunk) :
    loadChunks bodyOk fuel ((fileOf ss).take k) acc =
      ⟨acc ++ (within ss k).map Stored.chunk,
       if IsBoundary ss k ∨ (fileOf ss).length < k then none else some (.parse .incomplete)⟩ := by
  induction ss generalizing k fuel acc with
  | nil =>
    simp [fileOf, loadChunks_nil, within, IsBoundary]
    omega
  | cons s ss ih =>
    have hs := s.bytes_length_ge
    have hwf := h s (List.mem_cons_self ..)
    obtain ⟨fuel, rfl⟩ : ∃ f, fuel = f + 1 := ⟨fuel - 1, by omega⟩
    unfold IsBoundary within
    by_cases hle : s.bytes.length ≤ k
    · rw [if_pos hle, fileOf_cons, take_append_ge _ _ _ hle, loadChunks_step hwf,
        ih (fun t ht => h t (List.mem_cons_of_mem _ ht)) _ _ (by omega)]
      simp only [IsBoundary, fileOf_cons, List.length_append, List.map_cons, List.append_assoc,
        List.singleton_append]
      congr 1
      split <;> split <;> first | rfl | (exfalso; omega)
    · rw [if_neg hle, fileOf_cons, List.take_append_of_le_length (by omega)]
      simp only [fileOf_nil, List.length_nil, List.map_nil, List.append_nil, List.length_append]
      by_cases hk : k = 0
      · subst hk; simp [loadChunks_nil]
      · have hne : (s.bytes.take k).isEmpty = false := by
          cases hb : s.bytes.take k with
          | nil =>
            have := congrArg List.length hb
            rw [List.length_take, List.length_nil] at this; omega
          | cons _ _ => rfl
        rw [loadChunks, hne, Stored.prefix_incomplete hwf k (by omega)]
        simp
        omega

/-! ### `loadFile` -/

theorem isEmpty_false_of_length_pos {bs : Bytes} (h : 0 < bs.length) : bs.isEmpty = false := by
  cases bs with
  | nil => simp at h
  | cons _ _ => rfl

/-- `load_with_options` on a cut file of well-formed chunks, both modes -/
theorem loadFile_take {bodyOk : Nat → Bytes → Bool} (s : Stored) (ss : List Stored)
    (h : ∀ t ∈ s :: ss, t.WF bodyOk) (mode : OnPartial) (k : Nat)
    (hk : k ≤ (fileOf (s :: ss)).length) :
    loadFile bodyOk mode ((fileOf (s :: ss)).take k) =
      if k = 0 then .ok []
      else if k < s.bytes.length then .error (.parse .incomplete)
      else if mode = .ignore ∨ IsBoundary (s :: ss) k then .ok ((within (s :: ss) k).map Stored.chunk)
      else .error (.parse .incomplete) := by
  have hs := s.bytes_length_ge
  have hwf := h s (List.mem_cons_self ..)
  by_cases h0 : k = 0
  · subst h0; simp [loadFile]
  rw [if_neg h0]
  by_cases hlt : k < s.bytes.length
  · rw [if_pos hlt, fileOf_cons, List.take_append_of_le_length (by omega), loadFile,
      isEmpty_false_of_length_pos (by rw [List.length_take]; omega),
      Stored.prefix_incomplete hwf k hlt]
    rfl
  · rw [if_neg hlt, fileOf_cons, take_append_ge _ _ _ (by omega), loadFile,
      isEmpty_false_of_length_pos (by rw [List.length_append]; omega), Stored.parse hwf]
    rw [fileOf_cons, List.length_append] at hk
    simp only [s.chunk_valid, Bool.not_true, Bool.false_eq_true, if_false]
    rw [loadChunks_take ss (fun t ht => h t (List.mem_cons_of_mem _ ht)) _ _
      (by rw [List.length_take]; omega)]
    have hw : within (s :: ss) k = s :: within ss (k - s.bytes.length) := by
      rw [within, if_pos (by omega)]
    have hb : IsBoundary (s :: ss) k ↔ IsBoundary ss (k - s.bytes.length) := by
      unfold IsBoundary
      rw [hw, fileOf_cons, List.length_append]; omega
    simp only [List.nil_append, hw, List.map_cons]
    by_cases hbd : IsBoundary ss (k - s.bytes.length)
    · rw [if_pos (Or.inl hbd), if_pos (Or.inr (hb.2 hbd))]
    · rw [if_neg (by intro hh; rcases hh with hh | hh; exact hbd hh; omega)]
      cases mode with
      | error =>
        rw [if_neg (by intro hh; rcases hh with hh | hh; cases hh; exact hbd (hb.1 hh))]
      | ignore => rw [if_pos (Or.inl rfl)]

/-- C12, chunk level: `load_changes` on a concatenation of well-formed chunks returns exactly
    those chunks, in order, and no error (any fuel above the number of chunks) -/
theorem loadChunks_concat {bodyOk : Nat → Bytes → Bool} (ss : List Stored)
    (h : ∀ s ∈ ss, s.WF bodyOk) (fuel : Nat) (hf : ss.length ≤ fuel) :
    loadChunks bodyOk fuel (fileOf ss) [] = ⟨ss.map Stored.chunk, none⟩ := by
  obtain ⟨f, rfl⟩ : ∃ f, fuel = f + ss.length := ⟨fuel - ss.length, by omega⟩
  have := loadChunks_append ss h f [] []
  rw [List.append_nil, List.nil_append, loadChunks_nil] at this
  exact this

/-- the fuel `loadFile` passes (`rest.length + 1`) is enough: every chunk has at least 10 bytes -/
theorem loadChunks_concat_fileFuel {bodyOk : Nat → Bytes → Bool} (ss : List Stored)
    (h : ∀ s ∈ ss, s.WF bodyOk) :
    loadChunks bodyOk ((fileOf ss).length + 1) (fileOf ss) [] = ⟨ss.map Stored.chunk, none⟩ :=
  loadChunks_concat ss h _ (by have := fileOf_length_ge ss; omega)

theorem loadFile_concat {bodyOk : Nat → Bytes → Bool} (s : Stored) (ss : List Stored)
    (h : ∀ t ∈ s :: ss, t.WF bodyOk) (mode : OnPartial) :
    loadFile bodyOk mode (fileOf (s :: ss)) = .ok ((s :: ss).map Stored.chunk) := by
  have hs := s.bytes_length_ge
  rw [fileOf_cons, loadFile, isEmpty_false_of_length_pos (by rw [List.length_append]; omega),
    Stored.parse (h s (List.mem_cons_self ..))]
  simp only [s.chunk_valid, Bool.not_true, Bool.false_eq_true, if_false]
  rw [loadChunks_concat_fileFuel ss (fun t ht => h t (List.mem_cons_of_mem _ ht))]
  rfl
/-! ### Single-position changes -/

/-- `b` has the length of `a` and differs from it in position `i` and nowhere else -/
def DiffersAt (a b : Bytes) (i : Nat) : Prop :=
  b.length = a.length ∧ i < a.length ∧ b[i]? ≠ a[i]? ∧ ∀ j, j ≠ i → b[j]? = a[j]?

namespace DiffersAt
variable {a b : Bytes} {i : Nat}

theorem take_eq (h : DiffersAt a b i) {n : Nat} (hn : n ≤ i) : b.take n = a.take n := by
  apply List.ext_getElem?
  intro j
  simp only [List.getElem?_take]
  split
  · exact h.2.2.2 j (by omega)
  · rfl

theorem drop_eq (h : DiffersAt a b i) {n : Nat} (hn : i < n) : b.drop n = a.drop n := by
  apply List.ext_getElem?
  intro j
  simp only [List.getElem?_drop]
  exact h.2.2.2 _ (by omega)

theorem take_ne (h : DiffersAt a b i) {n : Nat} (hn : i < n) : b.take n ≠ a.take n := by
  intro e
  apply h.2.2.1
  have := congrArg (·[i]?) e
  simpa [List.getElem?_take, hn] using this

theorem ne (h : DiffersAt a b i) : b ≠ a := fun e => h.2.2.1 (by rw [e])

theorem drop (h : DiffersAt a b i) {n : Nat} (hn : n ≤ i) :
    DiffersAt (a.drop n) (b.drop n) (i - n) := by
  obtain ⟨h1, h2, h3, h4⟩ := h
  refine ⟨by simp [h1], by simp; omega, ?_, ?_⟩
  · simp only [List.getElem?_drop]
    rwa [show n + (i - n) = i by omega]
  · intro j hj
    simp only [List.getElem?_drop]
    exact h4 _ (by omega)

end DiffersAt

/-- flip bit `bit` of byte `i` -/
def flipBit (bs : Bytes) (i bit : Nat) : Bytes :=
  bs.modify i (fun b => b ^^^ ((1 : UInt8) <<< UInt8.ofNat bit))

theorem xor_bit_ne (b : UInt8) (bit : Nat) (hb : bit < 8) :
    b ^^^ ((1 : UInt8) <<< UInt8.ofNat bit) ≠ b := by
  have key : ∀ j : Fin 8, (1 : UInt8) <<< UInt8.ofNat j.val ≠ 0 := by decide
  intro e
  apply key ⟨bit, hb⟩
  have : b ^^^ ((1 : UInt8) <<< UInt8.ofNat bit) = b ^^^ 0 := by rw [e, UInt8.xor_zero]
  exact (UInt8.xor_right_inj b).1 this

/-- a bit flip is a single-position change -/
theorem flipBit_differsAt (bs : Bytes) (i bit : Nat) (hi : i < bs.length) (hb : bit < 8) :
    DiffersAt bs (flipBit bs i bit) i := by
  refine ⟨List.length_modify _ _ _, hi, ?_, ?_⟩
  · rw [flipBit, List.getElem?_modify, List.getElem?_eq_getElem hi]
    simp only [Option.map_eq_map, Option.map_some, if_true, ne_eq, Option.some.injEq]
    exact xor_bit_ne _ _ hb
  · intro j hj
    rw [flipBit, List.getElem?_modify]
    simp only [if_neg (Ne.symm hj)]
    cases bs[j]? <;> rfl


/-! ### A changed chunk -/

theorem encodeChunkWith_eq (cks : Bytes) (ty : Nat) (data : Bytes) :
    encodeChunkWith cks ty data = (Consts.MAGIC_BYTES ++ cks) ++ hashedBytes ty data := by
  simp [encodeChunkWith, hashedBytes]

theorem magic_cks_length {cks : Bytes} (hc : cks.length = 4) : (Consts.MAGIC_BYTES ++ cks).length = 8 := by
  simp [Consts.MAGIC_BYTES, hc]

theorem parseHeader_bad_magic (input : Bytes) (hl : 4 ≤ input.length)
    (hm : input.take 4 ≠ Consts.MAGIC_BYTES) : parseHeader input = .error .invalid := by
  unfold parseHeader takeN
  rw [if_neg (by omega)]
  simp only [ne_eq, hm, not_false_eq_true, if_true]

/-- a change inside the magic bytes: `Chunk::parse` fails with "invalid magic bytes" -/
theorem change_in_magic {bodyOk : Nat → Bytes → Bool} {cks : Bytes} {ty : Nat} {data tail inp' : Bytes}
    {i : Nat} (hdf : DiffersAt (encodeChunkWith cks ty data ++ tail) inp' i) (hi : i < 4) :
    parseChunk bodyOk inp' = .error .invalid := by
  apply parseChunk_of_parseHeader_error
  have e : (encodeChunkWith cks ty data ++ tail).take 4 = Consts.MAGIC_BYTES := by
    simp only [encodeChunkWith, List.append_assoc]
    exact List.take_left' rfl
  apply parseHeader_bad_magic
  · have h1 := hdf.1
    have : 4 ≤ (encodeChunkWith cks ty data ++ tail).length := by
      simp [encodeChunkWith, Consts.MAGIC_BYTES]
    omega
  · rw [← e]; exact hdf.take_ne hi

/-- a change inside the checksum field leaves a chunk with the same type and data and another
    checksum -/
theorem change_in_checksum_shape {cks : Bytes} (hc : cks.length = 4) {ty : Nat} {data tail inp' : Bytes}
    {i : Nat} (hdf : DiffersAt (encodeChunkWith cks ty data ++ tail) inp' i) (h4 : 4 ≤ i)
    (h8 : i < 8) :
    ∃ cks', cks' ≠ cks ∧ cks'.length = 4 ∧ inp' = encodeChunkWith cks' ty data ++ tail := by
  have eo : encodeChunkWith cks ty data ++ tail =
      Consts.MAGIC_BYTES ++ (cks ++ (hashedBytes ty data ++ tail)) := by
    simp [encodeChunkWith, hashedBytes]
  have hlen : 8 ≤ inp'.length := by
    have h1 := hdf.1
    rw [h1, eo]; simp [Consts.MAGIC_BYTES, hc]
  have e4 : inp'.take 4 = Consts.MAGIC_BYTES := by
    rw [hdf.take_eq h4, eo]; exact List.take_left' rfl
  have e8 : inp'.drop 8 = hashedBytes ty data ++ tail := by
    rw [hdf.drop_eq h8, eo, ← List.append_assoc]
    exact List.drop_left' (magic_cks_length hc)
  refine ⟨(inp'.take 8).drop 4, ?_, ?_, ?_⟩
  · intro e
    apply hdf.take_ne h8
    rw [eo, ← List.append_assoc, List.take_left' (magic_cks_length hc), ← e, ← e4]
    have : inp'.take 4 = (inp'.take 8).take 4 := by rw [List.take_take]; rfl
    rw [this, List.take_append_drop]
  · rw [List.length_drop, List.length_take]; omega
  · have e : inp' = (inp'.take 8).take 4 ++ ((inp'.take 8).drop 4 ++ inp'.drop 8) := by
      rw [← List.append_assoc, List.take_append_drop, List.take_append_drop]
    rw [List.take_take, show min 4 8 = 4 from rfl, e4, e8] at e
    exact e.trans (by simp [encodeChunkWith, hashedBytes])

/-- a change inside the checksum field: the hash is computed over unchanged bytes, so the stored
    checksum no longer matches — unconditionally -/
theorem change_in_checksum {bodyOk : Nat → Bytes → Bool} {ty : Nat} {data tail inp' : Bytes} {i : Nat}
    (hty : ty ≤ 3) (hty2 : ty ≠ 2) (hd : data.length < 2 ^ 64)
    (hdf : DiffersAt (encodeChunk ty data ++ tail) inp' i) (h4 : 4 ≤ i) (h8 : i < 8) :
    parseChunk bodyOk inp' = .error .invalid ∨
    ∃ ch, parseChunk bodyOk inp' = .ok (ch, tail) ∧ ch.checksumValid = false := by
  obtain ⟨cks', hne, hl, rfl⟩ := change_in_checksum_shape (checksum_length ty data) hdf h4 h8
  rw [parseChunk_encodeWith_plain bodyOk cks' hl ty hty hty2 data tail hd]
  by_cases hb : bodyOk ty data = true
  · right
    rw [if_pos hb]
    refine ⟨_, rfl, ?_⟩
    simp only [Chunk.checksumValid, beq_eq_false_iff_ne, ne_eq]
    exact fun e => hne e.symm
  · left; rw [if_neg hb]

theorem getElem?_8 {cks : Bytes} (hc : cks.length = 4) (x : UInt8) (r : Bytes) :
    ((Consts.MAGIC_BYTES ++ cks) ++ (x :: r))[8]? = some x := by
  rw [List.getElem?_append_right (by rw [magic_cks_length hc]; omega), magic_cks_length hc]
  rfl

theorem encodeChunkWith_getElem?_8 {cks : Bytes} (hc : cks.length = 4) (ty : Nat) (data rest : Bytes) :
    (encodeChunkWith cks ty data ++ rest)[8]? = some (UInt8.ofNat ty) := by
  rw [encodeChunkWith_eq, hashedBytes, List.append_assoc, List.cons_append, getElem?_8 hc]

theorem ofNat_inj_le3 {a b : Nat} (ha : a ≤ 3) (hb : b ≤ 3) (h : UInt8.ofNat a = UInt8.ofNat b) :
    a = b := by
  have := congrArg UInt8.toNat h
  rwa [toNat_ofNat_lt (by omega), toNat_ofNat_lt (by omega)] at this

/-- the bytes the hash of a parsed chunk is computed over: type byte, LEB128 length and data as
    read from the input — for a compressed change: of the inflated change -/
def Chunk.hashed (c : Chunk) : Bytes :=
  if c.ty = 2 then hashedBytes 1 c.body else hashedBytes c.ty c.data

/-- the accepted chunk `ch` collides with the original chunk `(ty, data)`: it carries the
    original checksum, its hash is the digest of bytes *other* than those hashed for the original,
    and the two digests agree in their first four bytes -/
def Collides (ty : Nat) (data : Bytes) (ch : Chunk) : Prop :=
  ch.hashed ≠ hashedBytes ty data ∧ ch.hash = Sha256.sha256 ch.hashed ∧
  (Sha256.sha256 ch.hashed).take 4 = (Sha256.sha256 (hashedBytes ty data)).take 4

/-- a change behind the checksum field: the accepted chunk carries the old checksum, and its
    hash is computed over bytes other than the original ones — except possibly when a change
    chunk is turned into a compressed one -/
theorem change_in_body {bodyOk : Nat → Bytes → Bool} {cks : Bytes} (hc : cks.length = 4) {ty : Nat}
    (hty : ty ≤ 3) {data tail inp' : Bytes} {i : Nat}
    (hdf : DiffersAt (encodeChunkWith cks ty data ++ tail) inp' i) (h8 : 8 ≤ i)
    (hi : i < (encodeChunkWith cks ty data).length) {ch : Chunk} {rest' : Bytes}
    (hp : parseChunk bodyOk inp' = .ok (ch, rest')) :
    ch.checksum = cks ∧ ch.hash = Sha256.sha256 ch.hashed ∧
      (ch.hashed ≠ hashedBytes ty data ∨ (ty = 1 ∧ i = 8 ∧ ch.ty = 2)) := by
  obtain ⟨einp, hc', hty', hdl, hcase⟩ := parseChunk_ok_inv hp
  rw [encodeChunkWith_eq, List.append_assoc] at einp hdf
  rw [encodeChunkWith_eq, List.length_append, magic_cks_length hc] at hi
  -- the checksum field is unchanged
  have hck : ch.checksum = cks := by
    have := hdf.take_eq h8
    rw [List.take_left' (magic_cks_length hc), einp, List.take_left' (magic_cks_length hc')] at this
    exact List.append_cancel_left this
  rw [hck] at einp
  -- the bytes read as type, length and data are not the original ones
  have key : hashedBytes ch.ty ch.data ≠ hashedBytes ty data := by
    intro e
    rw [e] at einp
    have hl := hdf.1
    rw [einp] at hl
    simp only [List.length_append] at hl
    have hd := hdf.drop_eq (n := 8 + (hashedBytes ty data).length) (by omega)
    rw [← List.append_assoc,
      List.drop_left' (by rw [List.length_append, magic_cks_length hc]), einp,
      ← List.append_assoc, List.drop_left' (by rw [List.length_append, magic_cks_length hc])] at hd
    apply hdf.ne
    rw [einp, hd, List.append_assoc]
  refine ⟨hck, ?_⟩
  rcases hcase with ⟨h2, -, hh, -⟩ | ⟨h2, -, hh, -⟩
  · have e : ch.hashed = hashedBytes ch.ty ch.data := by rw [Chunk.hashed, if_neg h2]
    rw [e]; exact ⟨hh, Or.inl key⟩
  · have e : ch.hashed = hashedBytes 1 ch.body := by rw [Chunk.hashed, if_pos h2]
    rw [e]; refine ⟨hh, ?_⟩
    by_cases hy : hashedBytes 1 ch.body = hashedBytes ty data
    · right
      have ht : ty = 1 := (ofNat_inj_le3 (by omega) hty (List.cons.inj hy).1).symm
      refine ⟨ht, ?_, h2⟩
      apply Classical.byContradiction
      intro hne
      have := hdf.2.2.2 8 (fun e => hne e.symm)
      rw [einp] at this
      simp only [hashedBytes, List.cons_append] at this
      rw [getElem?_8 hc, getElem?_8 hc, h2, ht] at this
      simp only [Option.some.injEq] at this
      exact absurd (ofNat_inj_le3 (by omega) (by omega) this) (by omega)
    · exact Or.inl hy


/-- Acceptance of a chunk changed in one position.  `encodeChunk ty data ++ tail` is changed in
    one position inside the chunk; if `Chunk::parse` still succeeds with a valid checksum, then
    some byte string other than the originally hashed one has a SHA-256 digest with the same first
    four bytes — or (not possible for a single-bit flip) the type byte of a change chunk was
    changed to "compressed" and the data inflate to a change with the original hash. -/
theorem change_accept {bodyOk : Nat → Bytes → Bool} {ty : Nat} {data tail inp' : Bytes} {i : Nat}
    (hty : ty ≤ 3) (hty2 : ty ≠ 2) (hd : data.length < 2 ^ 64)
    (hdf : DiffersAt (encodeChunk ty data ++ tail) inp' i) (hi : i < (encodeChunk ty data).length)
    {ch : Chunk} {rest' : Bytes} (hp : parseChunk bodyOk inp' = .ok (ch, rest'))
    (hv : ch.checksumValid = true) :
    Collides ty data ch ∨
    (ty = 1 ∧ i = 8 ∧ inp'[8]? = some 2 ∧ ch.ty = 2 ∧ ch.hash = chunkHash 1 data) := by
  by_cases h4 : i < 4
  · rw [change_in_magic hdf h4] at hp; cases hp
  by_cases h8 : i < 8
  · rcases change_in_checksum (bodyOk := bodyOk) hty hty2 hd hdf (by omega) h8 with h | ⟨ch', h, hv'⟩
    · rw [h] at hp; cases hp
    · rw [h] at hp
      simp only [Except.ok.injEq, Prod.mk.injEq] at hp
      rw [hp.1, hv] at hv'; cases hv'
  · obtain ⟨hck, hh, hy⟩ :=
      change_in_body (checksum_length ty data) hty hdf (by omega) hi hp
    have hv' : ch.hash.take 4 = ch.checksum := by simpa [Chunk.checksumValid] using hv
    rw [hck, hh, chunkHash_eq] at hv'
    rcases hy with hy | ⟨h1, h2, h3⟩
    · exact Or.inl ⟨hy, hh, hv'⟩
    · by_cases hy : ch.hashed = hashedBytes ty data
      · right
        refine ⟨h1, h2, ?_, h3, ?_⟩
        · obtain ⟨einp, hc', -, -, -⟩ := parseChunk_ok_inv hp
          rw [einp, encodeChunkWith_getElem?_8 hc', h3]; rfl
        · rw [hh, hy, h1]; rfl
      · exact Or.inl ⟨hy, hh, hv'⟩

/-- a single-bit flip cannot turn the byte 1 ("change") into 2 ("compressed") -/
theorem flipBit_one_ne_two {bs : Bytes} {i bit : Nat} (hb : bit < 8) (h1 : bs[i]? = some 1)
    (h2 : (flipBit bs i bit)[i]? = some 2) : False := by
  rw [flipBit, List.getElem?_modify, h1] at h2
  simp only [if_true, Option.map_eq_map, Option.map_some, Option.some.injEq] at h2
  have key : ∀ j : Fin 8, (1 : UInt8) ^^^ ((1 : UInt8) <<< UInt8.ofNat j.val) ≠ 2 := by decide
  exact key ⟨bit, hb⟩ h2

/-! ### Loads that succeed have parsed and checked their first chunk -/

theorem loadFile_ok_first {bodyOk : Nat → Bytes → Bool} {mode : OnPartial} {inp : Bytes}
    {chunks : List Chunk} (h : loadFile bodyOk mode inp = .ok chunks) (hne : inp.isEmpty = false) :
    ∃ ch rest more, parseChunk bodyOk inp = .ok (ch, rest) ∧ ch.checksumValid = true ∧
      chunks = ch :: more := by
  unfold loadFile at h
  rw [hne] at h
  simp only [Bool.false_eq_true, if_false] at h
  split at h
  · cases h
  · rename_i ch rest hp
    cases hv : ch.checksumValid
    · rw [hv] at h; simp at h
    · rw [hv] at h
      simp only [Bool.not_true, Bool.false_eq_true, if_false] at h
      refine ⟨ch, rest, (loadChunks bodyOk (rest.length + 1) rest []).chunks, hp, hv, ?_⟩
      split at h
      · exact (Except.ok.inj h).symm
      · cases mode
        · cases h
        · exact (Except.ok.inj h).symm

theorem loadChunks_ok_first {bodyOk : Nat → Bytes → Bool} {fuel : Nat} {inp : Bytes} {acc : List Chunk}
    (h : (loadChunks bodyOk (fuel + 1) inp acc).error = none) (hne : inp.isEmpty = false) :
    ∃ ch rest, parseChunk bodyOk inp = .ok (ch, rest) ∧ ch.checksumValid = true := by
  rw [loadChunks, hne] at h
  simp only [Bool.false_eq_true, if_false] at h
  split at h
  · cases h
  · rename_i ch rest hp
    refine ⟨ch, rest, hp, ?_⟩
    cases hv : ch.checksumValid
    · rw [hv] at h; simp at h
    · rfl


/-- the loop only ever appends to its accumulator -/
theorem loadChunks_acc_subset (bodyOk : Nat → Bytes → Bool) (fuel : Nat) (inp : Bytes)
    (acc : List Chunk) (c : Chunk) (hc : c ∈ acc) : c ∈ (loadChunks bodyOk fuel inp acc).chunks := by
  induction fuel generalizing inp acc with
  | zero => simpa [loadChunks] using hc
  | succ fuel ih =>
    rw [loadChunks]
    split
    · exact hc
    · split
      · exact hc
      · split
        · exact hc
        · exact ih _ _ (by simp [hc])

/-- what the first chunk of a successful load is: it is read from the front of the input, its hash
    is the digest of `Chunk.hashed`, and the stored checksum is the first four digest bytes -/
theorem loadFile_ok_first_read {bodyOk : Nat → Bytes → Bool} {mode : OnPartial} {inp : Bytes}
    {chunks : List Chunk} (h : loadFile bodyOk mode inp = .ok chunks) (hne : inp.isEmpty = false) :
    ∃ ch rest more, chunks = ch :: more ∧
      inp = encodeChunkWith ch.checksum ch.ty ch.data ++ rest ∧
      ch.hash = Sha256.sha256 ch.hashed ∧ ch.hash.take 4 = ch.checksum ∧
      (ch.ty ≠ 2 → ch.body = ch.data) ∧ (ch.ty = 2 → Inflate.inflateExact ch.data = some ch.body) := by
  obtain ⟨ch, rest, more, hp, hv, rfl⟩ := loadFile_ok_first h hne
  obtain ⟨einp, -, -, -, hcase⟩ := parseChunk_ok_inv hp
  have hv' : ch.hash.take 4 = ch.checksum := by simpa [Chunk.checksumValid] using hv
  refine ⟨ch, rest, more, rfl, einp, ?_, hv', ?_, ?_⟩
  · rcases hcase with ⟨h2, -, hh, -⟩ | ⟨h2, -, hh, -⟩
    · rw [Chunk.hashed, if_neg h2]; exact hh
    · rw [Chunk.hashed, if_pos h2]; exact hh
  · rcases hcase with ⟨h2, hb, -, -⟩ | ⟨h2, -, -, -⟩
    · exact fun _ => hb
    · exact fun hn => absurd h2 hn
  · rcases hcase with ⟨h2, -, -, -⟩ | ⟨h2, hi, -, -⟩
    · exact fun hn => absurd hn h2
    · exact fun _ => hi

/-! ### C14 at the level of `loadFile` -/

theorem DiffersAt.isEmpty_false {a b : Bytes} {i : Nat} (h : DiffersAt a b i) : b.isEmpty = false :=
  isEmpty_false_of_length_pos (by have := h.1; have := h.2.1; omega)

/-- change in the magic bytes of the first chunk: rejected, whatever follows -/
theorem loadFile_change_in_magic {bodyOk : Nat → Bytes → Bool} {mode : OnPartial} {ty : Nat}
    {data tail file' : Bytes} {i : Nat}
    (hdf : DiffersAt (encodeChunk ty data ++ tail) file' i) (hi : i < 4) :
    loadFile bodyOk mode file' = .error (.parse .invalid) := by
  rw [loadFile, hdf.isEmpty_false, change_in_magic hdf hi]
  rfl

/-- change in the checksum field of the first chunk: rejected, whatever follows -/
theorem loadFile_change_in_checksum {bodyOk : Nat → Bytes → Bool} {mode : OnPartial} {ty : Nat}
    {data tail file' : Bytes} {i : Nat} (hty : ty ≤ 3) (hty2 : ty ≠ 2) (hd : data.length < 2 ^ 64)
    (hb : bodyOk ty data = true)
    (hdf : DiffersAt (encodeChunk ty data ++ tail) file' i) (h4 : 4 ≤ i) (h8 : i < 8) :
    loadFile bodyOk mode file' = .error .badChecksum := by
  obtain ⟨cks', hne, hl, rfl⟩ := change_in_checksum_shape (checksum_length ty data) hdf h4 h8
  rw [loadFile, hdf.isEmpty_false, parseChunk_encodeWith_plain bodyOk cks' hl ty hty hty2 data tail hd,
    if_pos hb]
  have : (Chunk.checksumValid ⟨ty, cks', data, data, chunkHash ty data⟩) = false := by
    simp only [Chunk.checksumValid, beq_eq_false_iff_ne, ne_eq]
    exact fun e => hne e.symm
  simp [this]

/-- change anywhere in the first chunk, either mode: a successful load exhibits a collision
    (or the change-to-compressed case, which keeps the change hash) -/
theorem loadFile_change_accept {bodyOk : Nat → Bytes → Bool} {mode : OnPartial} {ty : Nat}
    {data tail file' : Bytes} {i : Nat} (hty : ty ≤ 3) (hty2 : ty ≠ 2) (hd : data.length < 2 ^ 64)
    (hdf : DiffersAt (encodeChunk ty data ++ tail) file' i) (hi : i < (encodeChunk ty data).length)
    {chunks : List Chunk} (h : loadFile bodyOk mode file' = .ok chunks) :
    ∃ ch more, chunks = ch :: more ∧
      (Collides ty data ch ∨
       (ty = 1 ∧ i = 8 ∧ file'[8]? = some 2 ∧ ch.ty = 2 ∧ ch.hash = chunkHash 1 data)) := by
  obtain ⟨ch, rest, more, hp, hv, rfl⟩ := loadFile_ok_first h hdf.isEmpty_false
  exact ⟨ch, more, rfl, change_accept hty hty2 hd hdf hi hp hv⟩

/-- change in a later chunk, strict load: the chunks before it are well-formed, so the loop
    reaches the changed chunk and must accept it -/
theorem loadFile_change_later_accept {bodyOk : Nat → Bytes → Bool} (pre : List Stored)
    (hpre : ∀ s ∈ pre, s.WF bodyOk) {ty : Nat} {data tail file' : Bytes} {i : Nat}
    (hty : ty ≤ 3) (hty2 : ty ≠ 2) (hd : data.length < 2 ^ 64)
    (hdf : DiffersAt (fileOf pre ++ (encodeChunk ty data ++ tail)) file' i)
    (hlo : (fileOf pre).length ≤ i) (hhi : i < (fileOf pre).length + (encodeChunk ty data).length)
    {chunks : List Chunk} (h : loadFile bodyOk .error file' = .ok chunks) :
    ∃ ch, ch ∈ chunks ∧
      (Collides ty data ch ∨
       (ty = 1 ∧ i = (fileOf pre).length + 8 ∧ file'[i]? = some 2 ∧ ch.ty = 2 ∧
          ch.hash = chunkHash 1 data)) := by
  -- split the changed file behind the unchanged chunks
  have hd' := hdf.drop hlo
  rw [List.drop_left] at hd'
  have ef : file' = fileOf pre ++ file'.drop (fileOf pre).length := by
    have := hdf.take_eq hlo
    rw [List.take_left] at this
    conv => rhs; lhs; rw [← this]
    rw [List.take_append_drop]
  generalize file'.drop (fileOf pre).length = inp' at hd' ef
  subst ef
  cases pre with
  | nil =>
    rw [fileOf_nil, List.nil_append] at h
    rw [fileOf_nil, List.length_nil, Nat.sub_zero] at hd'
    obtain ⟨ch, more, rfl, hc | ⟨h1, h2, hb, h3, h4⟩⟩ :=
      loadFile_change_accept hty hty2 hd hd' (by simpa [fileOf] using hhi) h
    · exact ⟨ch, List.mem_cons_self .., Or.inl hc⟩
    · have h2' : i = 8 := by simpa using h2
      exact ⟨ch, List.mem_cons_self .., Or.inr ⟨h1, by simpa [fileOf] using h2',
        by rw [h2']; simpa [fileOf] using hb, h3, h4⟩⟩
  | cons p ps =>
    have hp := hpre p (List.mem_cons_self ..)
    have hps : ∀ s ∈ ps, s.WF bodyOk := fun t ht => hpre t (List.mem_cons_of_mem _ ht)
    have hpl := p.bytes_length_ge
    rw [fileOf_cons, List.append_assoc, loadFile,
      isEmpty_false_of_length_pos (by rw [List.length_append]; omega), Stored.parse hp] at h
    simp only [p.chunk_valid, Bool.not_true, Bool.false_eq_true, if_false] at h
    have hfuel : (fileOf ps ++ inp').length + 1 = (fileOf ps ++ inp').length - ps.length + 1 + ps.length := by
      have := fileOf_length_ge ps
      rw [List.length_append]; omega
    rw [hfuel, loadChunks_append ps hps] at h
    split at h
    · rename_i herr
      obtain ⟨ch, rest, hpc, hv⟩ := loadChunks_ok_first herr hd'.isEmpty_false
      have hi' : i - (fileOf (p :: ps)).length < (encodeChunk ty data).length := by omega
      have hmem : ch ∈ chunks := by
        have hc := (Except.ok.inj h).symm
        rw [hc]
        apply List.mem_cons_of_mem
        -- the changed chunk is the next one the loop appends
        rw [loadChunks, hd'.isEmpty_false, hpc]
        simp only [hv, Bool.not_true, Bool.false_eq_true, if_false]
        exact loadChunks_acc_subset _ _ _ _ _ (by simp)
      refine ⟨ch, hmem, ?_⟩
      rcases change_accept hty hty2 hd hd' hi' hpc hv with hc | ⟨h1, h2, hb, h3, h4⟩
      · exact Or.inl hc
      · have hi8 : i = (fileOf (p :: ps)).length + 8 := by omega
        refine Or.inr ⟨h1, hi8, ?_, h3, h4⟩
        rw [hi8, fileOf_cons, List.append_assoc, ← List.append_assoc,
          List.getElem?_append_right (by rw [← fileOf_cons]; omega), ← fileOf_cons,
          Nat.add_sub_cancel_left]
        exact hb
    · cases h


/-! ### Single-bit flips -/

theorem encodeChunk_getElem?_8 (ty : Nat) (data rest : Bytes) :
    (encodeChunk ty data ++ rest)[8]? = some (UInt8.ofNat ty) :=
  encodeChunkWith_getElem?_8 (checksum_length _ _) ty data rest

/-- single-bit flip in the first chunk, either mode: a successful load exhibits a collision -/
theorem loadFile_flip_accept {bodyOk : Nat → Bytes → Bool} {mode : OnPartial} {ty : Nat}
    {data tail : Bytes} {i bit : Nat} (hty : ty ≤ 3) (hty2 : ty ≠ 2) (hd : data.length < 2 ^ 64)
    (hi : i < (encodeChunk ty data).length) (hb : bit < 8) {chunks : List Chunk}
    (h : loadFile bodyOk mode (flipBit (encodeChunk ty data ++ tail) i bit) = .ok chunks) :
    ∃ ch more, chunks = ch :: more ∧ Collides ty data ch := by
  have hdf := flipBit_differsAt (encodeChunk ty data ++ tail) i bit
    (by rw [List.length_append]; omega) hb
  obtain ⟨ch, more, hcm, hc | ⟨h1, h2, h3, -⟩⟩ := loadFile_change_accept hty hty2 hd hdf hi h
  · exact ⟨ch, more, hcm, hc⟩
  · subst h1 h2
    exact (flipBit_one_ne_two hb (encodeChunk_getElem?_8 1 data tail) h3).elim

/-- single-bit flip in a later chunk, strict load -/
theorem loadFile_flip_later_accept {bodyOk : Nat → Bytes → Bool} (pre : List Stored)
    (hpre : ∀ s ∈ pre, s.WF bodyOk) {ty : Nat} {data tail : Bytes} {i bit : Nat}
    (hty : ty ≤ 3) (hty2 : ty ≠ 2) (hd : data.length < 2 ^ 64)
    (hlo : (fileOf pre).length ≤ i) (hhi : i < (fileOf pre).length + (encodeChunk ty data).length)
    (hb : bit < 8) {chunks : List Chunk}
    (h : loadFile bodyOk .error (flipBit (fileOf pre ++ (encodeChunk ty data ++ tail)) i bit)
      = .ok chunks) :
    ∃ ch, ch ∈ chunks ∧ Collides ty data ch := by
  have hdf := flipBit_differsAt (fileOf pre ++ (encodeChunk ty data ++ tail)) i bit
    (by simp only [List.length_append] at hhi ⊢; omega) hb
  obtain ⟨ch, hm, hc | ⟨h1, h2, h3, -⟩⟩ :=
    loadFile_change_later_accept pre hpre hty hty2 hd hdf hlo hhi h
  · exact ⟨ch, hm, hc⟩
  · subst h1 h2
    refine (flipBit_one_ne_two hb ?_ h3).elim
    rw [List.getElem?_append_right (by omega), Nat.add_sub_cancel_left]
    exact encodeChunk_getElem?_8 1 data tail

/-! ### The loop bound -/

/-- a successful `Chunk::parse` consumes at least ten bytes -/
theorem parseChunk_consumes {bodyOk : Nat → Bytes → Bool} {input : Bytes} {ch : Chunk} {rest : Bytes}
    (hp : parseChunk bodyOk input = .ok (ch, rest)) : rest.length + 10 ≤ input.length := by
  obtain ⟨e, hc, -, -, -⟩ := parseChunk_ok_inv hp
  have := encodeChunkWith_length_ge ch.checksum hc ch.ty ch.data
  rw [e, List.length_append]; omega

/-- the loop bound of the model's `loadChunks` is immaterial once it exceeds the input length
    (as the bound `loadFile` passes does): `load_changes` is modelled without truncation -/
theorem loadChunks_fuel_irrelevant (bodyOk : Nat → Bytes → Bool) (f1 f2 : Nat) (data : Bytes)
    (acc : List Chunk) (h1 : data.length < f1) (h2 : data.length < f2) :
    loadChunks bodyOk f1 data acc = loadChunks bodyOk f2 data acc := by
  induction f1 generalizing f2 data acc with
  | zero => omega
  | succ n ih =>
    obtain ⟨m, rfl⟩ : ∃ m, f2 = m + 1 := ⟨f2 - 1, by omega⟩
    rw [loadChunks, loadChunks]
    split
    · rfl
    · split
      · rfl
      · rename_i c rest hp
        have := parseChunk_consumes hp
        split
        · rfl
        · exact ih _ _ _ (by omega) (by omega)

/-! ### The statements of the task in `WFChunk` form -/

/-- round trip of a well-formed uncompressed chunk, whatever follows it -/
theorem parseChunk_encode {bodyOk : Nat → Bytes → Bool} {ty : Nat} {data : Bytes} (hty : ty ≤ 3)
    (hty2 : ty ≠ 2) (hd : data.length < 2 ^ 64) (hb : bodyOk ty data = true) (rest : Bytes) :
    ∃ chunk, parseChunk bodyOk (encodeChunk ty data ++ rest) = .ok (chunk, rest) ∧
      chunk.checksumValid = true ∧ chunk.ty = ty ∧ chunk.data = data ∧ chunk.body = data ∧
      chunk.hash = chunkHash ty data :=
  ⟨(Stored.plain ty data).chunk, Stored.parse (s := .plain ty data) ⟨hty, hty2, hd, hb⟩ rest,
    Stored.chunk_valid _, rfl, rfl, rfl, rfl⟩

/-- every proper prefix of a well-formed chunk is `Incomplete` -/
theorem parseChunk_prefix_incomplete {bodyOk : Nat → Bytes → Bool} {c : Bytes}
    (h : WFChunk bodyOk c) (k : Nat) (hk : k < c.length) :
    parseChunk bodyOk (c.take k) = .error .incomplete := by
  obtain ⟨ty, data, h1, h2, h3, h4, rfl⟩ := h
  exact Stored.prefix_incomplete (s := .plain ty data) ⟨h1, h2, h3, h4⟩ k hk

end AmVerif.Chunk
