import AmVerif.Proofs.DocCodec
/-
  Helper lemmas for C11 (document chunk): the COLUMN level — the validating hexane loader
  (`loadRle`, with `with_length` and `with_fill`) on the bytes `encodeDoc` writes for a column.
-/
namespace AmVerif.DocCodec
open AmVerif
open AmVerif.Hexane (ValCodec Item Weight cU64 cU32 cI64 cStr rleEncode rleLoad two63 two64 HErr itemsOf itemsLen
  Lawful ListValid expand account finish)

/-- `finish` with the `with_length` check, for the weights that cannot fail -/
theorem finish_plain_len (w : Weight) (hw : w.plain) (st : Hexane.AState) (n : Nat)
    (h : st.closed + st.slabLen = n) (hn : n < two64) : finish w (some n) st = .ok n := by
  unfold finish
  have hn' : ¬ ¬ (st.closed + st.slabLen < two64) := by rw [h]; simpa using hn
  have he : ¬ st.closed + st.slabLen ≠ n := by simp [h]
  simp only [hn', if_false, he]
  rw [h]
  cases w with
  | len => rfl
  | prefixWide => rfl
  | prefixU l => exact absurd hw (by simp [Weight.plain])
  | delta lo hi => exact absurd hw (by simp [Weight.plain])

/-- loading the encoder's own bytes with the right `with_length` gives back the encoder's segments -/
theorem rleLoad_encode_len {α : Type} [DecidableEq α] {c : ValCodec α} {Valid : α → Prop} (law : Lawful c Valid)
    (nullable : Bool) (w : Weight) (hw : w.plain) (num : α → Int) (xs : List (Option α))
    (hlen : xs.length < two63) (hv : ListValid Valid nullable xs) :
    rleLoad c nullable w num (some xs.length) (rleEncode c xs) = .ok (itemsOf xs) := by
  unfold rleLoad Hexane.parseAll rleEncode
  rw [Hexane.parse_write law nullable (itemsOf xs) {} _ (Hexane.canon_itemsOf Valid nullable xs hlen hv) (by omega)]
  have hl : itemsLen (itemsOf xs) < two64 := by
    rw [Hexane.itemsLen_itemsOf]; unfold two63 two64 at *; omega
  obtain ⟨st', h1, h2⟩ := Hexane.account_plain w hw num (itemsOf xs) {} (by simpa using hl)
  simp only [h1]
  rw [finish_plain_len w hw st' xs.length (by rw [Hexane.itemsLen_itemsOf] at h2; simpa using h2)
    (by unfold two63 two64 at *; omega)]

/-- the encoding of a non-empty list is not empty -/
theorem rleEncode_ne_nil {α : Type} [DecidableEq α] {c : ValCodec α} {Valid : α → Prop} (law : Lawful c Valid)
    (nullable : Bool) (xs : List (Option α)) (hne : xs ≠ [])
    (hlen : xs.length < two63) (hv : ListValid Valid nullable xs) : rleEncode c xs ≠ [] := by
  intro he
  have h := Hexane.rleLoad_encode law nullable .len trivial (fun _ => 0) xs hlen hv
  rw [he] at h
  have h0 : rleLoad c nullable .len (fun _ => 0) none [] = .ok [] := by
    simp [rleLoad, Hexane.parseAll, Hexane.parse, account, finish, finish.finishW, two64]
  rw [h0] at h
  have hl := Hexane.itemsLen_itemsOf xs
  have : itemsOf xs = [] := by injection h with h; exact h.symm
  rw [this] at hl
  simp [itemsLen] at hl
  exact hne (List.eq_nil_of_length_eq_zero hl.symm)

theorem all_none_replicate {α : Type} : ∀ xs : List (Option α), xs.all (fun x => x.isNone) = true →
    xs = List.replicate xs.length none
  | [], _ => rfl
  | x :: xs, h => by
    simp only [List.all_cons, Bool.and_eq_true] at h
    cases x with
    | none => simp only [List.length_cons, List.replicate_succ]; rw [← all_none_replicate xs h.2]
    | some v => simp at h

/-- **a non-nullable column**: `Column<T>::load_with(with_length)` of `save_to` -/
theorem loadRle_nonnull {α : Type} [DecidableEq α] {c : ValCodec α} {Valid : α → Prop} (law : Lawful c Valid)
    (w : Weight) (hw : w.plain) (num : α → Int) (xs : List α)
    (hlen : xs.length < two63) (hv : ∀ x ∈ xs, Valid x) :
    loadRle c false w num xs.length none (encNonNull c xs) = .ok (xs.map some) := by
  have hv' : ListValid Valid false (xs.map some) := by
    intro x hx
    obtain ⟨y, hy, rfl⟩ := List.mem_map.mp hx
    exact hv y hy
  have h := rleLoad_encode_len law false w hw num (xs.map some) (by simpa using hlen) hv'
  simp only [List.length_map] at h
  unfold loadRle encNonNull
  cases hb : (rleEncode c (xs.map some)).isEmpty <;> simp only [h, Hexane.expand_itemsOf]

/-- **a nullable column**: `Column<Option<T>>::load_with(with_length, with_fill(None))` of
    `save_to_unless(None)` -/
theorem loadRle_nullable {α : Type} [DecidableEq α] {c : ValCodec α} {Valid : α → Prop} (law : Lawful c Valid)
    (w : Weight) (hw : w.plain) (num : α → Int) (xs : List (Option α))
    (hlen : xs.length < two63) (hv : ∀ x ∈ xs, ∀ v, x = some v → Valid v) :
    loadRle c true w num xs.length (some none) (encNullable c xs) = .ok xs := by
  have hv' : ListValid Valid true xs := by
    intro x hx
    cases x with
    | none => rfl
    | some v => exact hv _ hx v rfl
  unfold loadRle encNullable
  by_cases hall : xs.all (fun x => x.isNone) = true
  · simp only [hall, if_true, List.isEmpty_nil]
    by_cases h0 : xs.length = 0
    · simp only [h0, if_true]
      rw [List.eq_nil_of_length_eq_zero h0]
    · have hl : ¬ ¬ xs.length < two63 := by simpa using hlen
      simp only [h0, if_false, hl]
      rw [← all_none_replicate xs hall]
  · simp only [hall, Bool.false_eq_true, if_false]
    have hne : xs ≠ [] := by intro h; rw [h] at hall; simp at hall
    have hb : (rleEncode c xs).isEmpty = false := by
      have := rleEncode_ne_nil law true xs hne hlen hv'
      cases hr : rleEncode c xs with
      | nil => exact absurd hr this
      | cons a b => rfl
    rw [hb]
    simp only [rleLoad_encode_len law true w hw num xs hlen hv', Hexane.expand_itemsOf]

/-! ### prefix columns (`PrefixColumn<u32>`, `PrefixColumn<ValueMeta>`): the `u64` accumulator -/

/-- what a value adds to the prefix accumulator -/
def wtOf {α : Type} (num : α → Int) : Option α → Nat
  | some v => (num v).toNat
  | none => 0

/-- the accumulated prefix of a segment list -/
def itemsW {α : Type} (num : α → Int) : List (Item α) → Nat
  | [] => 0
  | .head _ :: r => itemsW num r
  | .litv v :: r => (num v).toNat + itemsW num r
  | .run n v :: r => (num v).toNat * n + itemsW num r
  | .null _ :: r => itemsW num r

theorem sum_replicate (n k : Nat) : (List.replicate n k).sum = k * n := by
  induction n with
  | zero => simp
  | succ m ih => simp [List.replicate_succ, ih, Nat.mul_succ, Nat.add_comm]

theorem itemsW_expand {α : Type} (num : α → Int) : ∀ items : List (Item α),
    itemsW num items = ((expand items).map (wtOf num)).sum
  | [] => rfl
  | .head _ :: r => by simp only [itemsW, expand, itemsW_expand num r]
  | .litv v :: r => by simp only [itemsW, expand, List.map_cons, List.sum_cons, wtOf, itemsW_expand num r]
  | .run n v :: r => by
    simp only [itemsW, expand, List.map_append, List.sum_append, List.map_replicate, wtOf, sum_replicate,
      itemsW_expand num r]
  | .null n :: r => by
    simp only [itemsW, expand, List.map_append, List.sum_append, List.map_replicate, wtOf, sum_replicate,
      itemsW_expand num r]
    omega

theorem acctStep_prefixU (limit : Nat) (st : Hexane.AState) (count : Nat) (v : Option Int)
    (h : st.slabLen + count < two64) (hw : st.preClosed + st.pre + (match v with | some x => x.toNat * count | none => 0) < limit) :
    ∃ st', Hexane.acctStep (.prefixU limit) st count v = .ok st' ∧
      st'.closed + st'.slabLen = st.closed + st.slabLen + count ∧
      st'.preClosed + st'.pre = st.preClosed + st.pre + (match v with | some x => x.toNat * count | none => 0) := by
  unfold Hexane.acctStep
  have hn : ¬ ¬ (st.slabLen + count < two64) := by simpa using h
  rw [if_neg hn]
  cases v with
  | none =>
    simp only
    split
    · exact ⟨_, rfl, by simp only; omega, by simp only⟩
    · exact ⟨_, rfl, by simp only; omega, by simp only; omega⟩
  | some x =>
    simp only at hw ⊢
    have h1 : ¬ ¬ (x.toNat * count < limit) := by simp; omega
    have h2 : ¬ ¬ (st.pre + x.toNat * count < limit) := by simp; omega
    simp only [h1, h2, if_false]
    split
    · exact ⟨_, rfl, by simp only; omega, by simp only; omega⟩
    · exact ⟨_, rfl, by simp only; omega, by simp only; omega⟩

theorem account_prefixU {α : Type} (limit : Nat) (num : α → Int) :
    ∀ (items : List (Item α)) (st : Hexane.AState), st.closed + st.slabLen + itemsLen items < two64 →
      st.preClosed + st.pre + itemsW num items < limit →
      ∃ st', account (.prefixU limit) num items st = .ok st' ∧
        st'.closed + st'.slabLen = st.closed + st.slabLen + itemsLen items ∧
        st'.preClosed + st'.pre = st.preClosed + st.pre + itemsW num items := by
  intro items
  induction items with
  | nil => intro st _ _; exact ⟨st, rfl, by simp [itemsLen], by simp [itemsW]⟩
  | cons x r ih =>
    intro st h hw
    rw [Hexane.itemsLen_cons] at h
    cases x with
    | head k =>
      simp only [Hexane.itemCount, itemsW] at h hw
      obtain ⟨st', h1, h2, h3⟩ := ih st (by omega) hw
      exact ⟨st', by simpa [account] using h1, by rw [Hexane.itemsLen_cons]; simp only [Hexane.itemCount]; omega,
        by simp only [itemsW]; exact h3⟩
    | litv v =>
      simp only [Hexane.itemCount, itemsW] at h hw
      obtain ⟨s1, e1, e2, e3⟩ := acctStep_prefixU limit st 1 (some (num v)) (by omega) (by simp only; omega)
      simp only [Nat.mul_one] at e3
      obtain ⟨st', h1, h2, h3⟩ := ih s1 (by omega) (by omega)
      refine ⟨st', by simp only [account, e1, h1], by rw [Hexane.itemsLen_cons]; simp only [Hexane.itemCount]; omega,
        by simp only [itemsW]; omega⟩
    | run n v =>
      simp only [Hexane.itemCount, itemsW] at h hw
      obtain ⟨s1, e1, e2, e3⟩ := acctStep_prefixU limit st n (some (num v)) (by omega) (by simp only; omega)
      simp only at e3
      obtain ⟨st', h1, h2, h3⟩ := ih s1 (by omega) (by omega)
      refine ⟨st', by simp only [account, e1, h1], by rw [Hexane.itemsLen_cons]; simp only [Hexane.itemCount]; omega,
        by simp only [itemsW]; omega⟩
    | null n =>
      simp only [Hexane.itemCount, itemsW] at h hw
      obtain ⟨s1, e1, e2, e3⟩ := acctStep_prefixU limit st n none (by omega) (by simp only; omega)
      simp only [Nat.add_zero] at e3
      obtain ⟨st', h1, h2, h3⟩ := ih s1 (by omega) (by omega)
      refine ⟨st', by simp only [account, e1, h1], by rw [Hexane.itemsLen_cons]; simp only [Hexane.itemCount]; omega,
        by simp only [itemsW]; omega⟩

/-- **a non-nullable prefix column** whose accumulated prefix fits the `u64` accumulator -/
theorem loadRle_prefixU {α : Type} [DecidableEq α] {c : ValCodec α} {Valid : α → Prop} (law : Lawful c Valid)
    (num : α → Int) (xs : List α) (hlen : xs.length < two63) (hv : ∀ x ∈ xs, Valid x)
    (hsum : (xs.map (fun x => (num x).toNat)).sum < two64) :
    loadRle c false (.prefixU two64) num xs.length none (encNonNull c xs) = .ok (xs.map some) := by
  have hv' : ListValid Valid false (xs.map some) := by
    intro x hx
    obtain ⟨y, hy, rfl⟩ := List.mem_map.mp hx
    exact hv y hy
  have hl : (xs.map some).length < two63 := by simpa using hlen
  have hW : itemsW num (itemsOf (xs.map some)) = (xs.map (fun x => (num x).toNat)).sum := by
    rw [itemsW_expand, Hexane.expand_itemsOf, List.map_map]
    rfl
  have hL : itemsLen (itemsOf (xs.map some)) = xs.length := by rw [Hexane.itemsLen_itemsOf]; simp
  obtain ⟨st', h1, h2, h3⟩ := account_prefixU two64 num (itemsOf (xs.map some)) {}
    (by simp only [hL]; unfold two63 two64 at *; simp; omega) (by simp only [hW]; simpa using hsum)
  have hload : rleLoad c false (.prefixU two64) num (some xs.length) (rleEncode c (xs.map some))
      = .ok (itemsOf (xs.map some)) := by
    unfold rleLoad Hexane.parseAll rleEncode
    rw [Hexane.parse_write law false (itemsOf (xs.map some)) {} _
      (Hexane.canon_itemsOf Valid false (xs.map some) hl hv') (by omega)]
    simp only [h1]
    simp only [hL, hW] at h2 h3
    have ht : st'.closed + st'.slabLen = xs.length := by simpa using h2
    have hp : st'.preClosed + st'.pre < two64 := by
      have : st'.preClosed + st'.pre = (xs.map (fun x => (num x).toNat)).sum := by simpa using h3
      omega
    unfold finish
    have hn' : ¬ ¬ (st'.closed + st'.slabLen < two64) := by rw [ht]; unfold two63 two64 at *; simp; omega
    have he : ¬ st'.closed + st'.slabLen ≠ xs.length := by simp [ht]
    have hp' : ¬ ¬ (st'.preClosed + st'.pre < two64) := by simpa using hp
    simp only [hn', if_false, he, finish.finishW, hp']
  unfold loadRle encNonNull
  cases hb : (rleEncode c (xs.map some)).isEmpty <;> simp only [hload, Hexane.expand_itemsOf]

/-! ### the codecs of the typed columns -/

def validActor (n : Nat) : Prop := n < 2 ^ 32
def validAction (n : Nat) : Prop := n ≤ 7

theorem lawful_actor : Lawful cActor validActor := by
  refine ⟨fun v rest h => ?_, fun v => Hexane.encU_ne_nil v⟩
  unfold validActor at h
  show (match Hexane.readU (Hexane.encU v ++ rest) with
    | .ok (v, r) => Except.ok (v % 2 ^ 32, r)
    | .error e => .error e) = _
  rw [Hexane.readU_encU v rest (by omega)]
  simp [Nat.mod_eq_of_lt h]

theorem lawful_action : Lawful cAction validAction := by
  refine ⟨fun v rest h => ?_, fun v => Hexane.encU_ne_nil v⟩
  unfold validAction at h
  show (match Hexane.readU (Hexane.encU v ++ rest) with
    | .ok (v, r) => if v ≤ 7 then Except.ok (v, r) else .error HErr.value
    | .error e => .error e) = _
  rw [Hexane.readU_encU v rest (by omega)]
  simp [h]

end AmVerif.DocCodec
