import AmVerif.Proofs.StoreInsert
/-
  The store invariant and its preservation by `insertRemote`.

  `OpsWF ops`     — what every history made by the library satisfies (ids identify ops, an element is
                 created after its reference element and updated after it is created, one kind of
                 key per object).
  `Fresh ops N` — causal delivery of `N`: nothing in the store refers to `N` yet, the element `N` is
                 keyed on is in the store.
  `StoreInv ops s` — the rows of `s` are the stored ops of `ops` in canonical order (`canon ops`) and
                 every successor list is the list of ops naming the row as predecessor, ascending by
                 id, increments recorded with their amount only on counters.
-/
namespace AmVerif.Crdt
open AmVerif

structure OpsWF (ops : List Op) : Prop where
  strict : StrictIds ops
  refs : RefsSmaller ops
  /-- all ops of one object use one kind of key (map keys in maps, elements in sequences) -/
  kinds : ∀ x ∈ ops, ∀ y ∈ ops, x.obj = y.obj → x.key.isMap = y.key.isMap
  /-- an insert is keyed on an element (or HEAD) and is not a delete -/
  insSeq : ∀ x ∈ ops, x.insert = true → x.key.isMap = false ∧ x.isDel = false
  /-- only inserts are keyed on HEAD -/
  updKey : ∀ x ∈ ops, x.insert = false → x.key ≠ .head
  /-- an element is updated after it was created -/
  updLater : ∀ x ∈ ops, x.insert = false → ∀ e, x.key = .elem e → e.lt x.id = true

structure Fresh (ops : List Op) (N : Op) : Prop where
  noPred : ∀ x ∈ ops ++ [N], N.id ∉ x.pred
  noKey : ∀ x ∈ ops ++ [N], x.key ≠ .elem N.id
  refIn : ∀ e, N.key = .elem e → ∃ c ∈ rgaOrder ops N.obj, c.id = e

theorem strictIds_of_append {l₁ l₂ : List Op} (h : StrictIds (l₁ ++ l₂)) : StrictIds l₁ := by
  unfold StrictIds at *
  exact (List.pairwise_append.mp h).1

theorem OpsWF.init {ops : List Op} {N : Op} (h : OpsWF (ops ++ [N])) : OpsWF ops where
  strict := strictIds_of_append h.strict
  refs := fun o ho hi => h.refs o (List.mem_append_left _ ho) hi
  kinds := fun x hx y hy => h.kinds x (List.mem_append_left _ hx) y (List.mem_append_left _ hy)
  insSeq := fun x hx => h.insSeq x (List.mem_append_left _ hx)
  updKey := fun x hx => h.updKey x (List.mem_append_left _ hx)
  updLater := fun x hx => h.updLater x (List.mem_append_left _ hx)

theorem OpsWF.fresh_id {ops : List Op} {N : Op} (h : OpsWF (ops ++ [N])) : ∀ x ∈ ops, x.id ≠ N.id := by
  intro x hx
  have := h.strict
  unfold StrictIds at this
  exact (List.pairwise_append.mp this).2.2 x hx N (by simp)

/-! ## how the segments change with one more op -/

theorem mapSeg_append_other {ops : List Op} {N : Op} {obj : ObjId}
    (h : (N.obj == obj && !N.isDel && N.key.isMap) = false) :
    mapSeg (ops ++ [N]) obj = mapSeg ops obj := by
  unfold mapSeg
  rw [filter_append_singleton, h]
  simp

theorem mapSeg_append_self {ops : List Op} {N : Op} (hs : StrictIds (ops ++ [N]))
    (hd : N.isDel = false) (hm : N.key.isMap = true) :
    mapSeg (ops ++ [N]) N.obj = insertKI N (mapSeg ops N.obj) := by
  unfold mapSeg
  rw [filter_append_singleton]
  have : (N.obj == N.obj && !N.isDel && N.key.isMap) = true := by simp [hd, hm]
  rw [if_pos this]
  apply sortKI_append_singleton
  · apply hs.distinctIds.subset
    intro x hx
    rcases List.mem_append.mp hx with hx | hx
    · exact List.mem_append_left _ (List.mem_filter.mp hx).1
    · exact List.mem_append_right _ hx
  · intro x hx
    rcases List.mem_append.mp hx with hx | hx
    · have := (List.mem_filter.mp hx).2
      simp only [Bool.and_eq_true] at this
      exact this.2
    · have : x = N := by simpa using hx
      subst this; exact hm

theorem updatesOf_append_other {ops : List Op} {N : Op} {obj : ObjId} {e : OpId}
    (h : (N.obj == obj && !N.isDel && !N.insert && N.key == .elem e) = false) :
    updatesOf (ops ++ [N]) obj e = updatesOf ops obj e := by
  unfold updatesOf
  rw [filter_append_singleton, h]
  simp

theorem updatesOf_append_self {ops : List Op} {N : Op} {e : OpId} (hs : StrictIds (ops ++ [N]))
    (hd : N.isDel = false) (hi : N.insert = false) (hk : N.key = .elem e) :
    updatesOf (ops ++ [N]) N.obj e = insertById N (updatesOf ops N.obj e) := by
  unfold updatesOf
  rw [filter_append_singleton]
  have : (N.obj == N.obj && !N.isDel && !N.insert && N.key == .elem e) = true := by simp [hd, hi, hk]
  rw [if_pos this]
  rw [sortById_eq_of_perm (l₂ := N :: ops.filter _) List.perm_append_comm]
  · rfl
  · apply hs.distinctIds.subset
    intro x hx
    rcases List.mem_append.mp hx with hx | hx
    · exact List.mem_append_left _ (List.mem_filter.mp hx).1
    · exact List.mem_append_right _ hx

theorem seg_append_other {ops : List Op} {N : Op} {obj : ObjId} (hr : RefsSmaller ops)
    (hne : obj ≠ N.obj) : seg (ops ++ [N]) obj = seg ops obj := by
  have hno : (N.obj == obj) = false := by simp; exact fun h => hne h.symm
  unfold seg seqSeg
  rw [mapSeg_append_other (by simp [hno]), rgaOrder_append_other hr hne]
  congr 1
  apply flatMap_congr'
  intro c _
  unfold block
  rw [updatesOf_append_other (by simp [hno])]

theorem canon_append_del {ops : List Op} {N : Op} (hr : RefsSmaller ops) (hd : N.isDel = true)
    (hi : N.insert = false) : canon (ops ++ [N]) = canon ops := by
  unfold canon
  rw [objsOf_append, if_pos hd]
  apply flatMap_congr'
  intro obj _
  unfold seg seqSeg
  rw [mapSeg_append_other (by simp [hd]), rgaOrder_append_noninsert hr hi]
  congr 1
  apply flatMap_congr'
  intro c _
  unfold block
  rw [updatesOf_append_other (by simp [hd])]

/-! ## the rows of the op's own object -/

theorem blocks_of_rga (ops : List Op) (N : Op) :
    Blocks N (rgaOrder ops N.obj) (fun e => updatesOf ops N.obj e.id) where
  elem := fun e he => ⟨(mem_rgaFrom he).2.1, (mem_rgaFrom he).2.2⟩
  upd := fun e _ u hu => ⟨(mem_updatesOf.mp hu).2.1, (mem_updatesOf.mp hu).2.2.2.1⟩

theorem seg_place {ops : List Op} {N : Op} (hw : OpsWF (ops ++ [N])) (hf : Fresh ops N)
    (hd : N.isDel = false) : placeInObjO N (seg ops N.obj) = seg (ops ++ [N]) N.obj := by
  have hw0 := hw.init
  have hNm : N ∈ ops ++ [N] := by simp
  have hobj : ∀ x ∈ seg ops N.obj, x.obj = N.obj := fun x hx => obj_of_mem_seg hx
  cases hkm : N.key.isMap
  · -- a sequence op: the object holds no map-keyed op
    have hnomap : ∀ (l : List Op), (∀ x ∈ l, x ∈ ops ++ [N]) →
        l.filter (fun o => o.obj == N.obj && !o.isDel && o.key.isMap) = [] := by
      intro l hl
      rw [List.filter_eq_nil_iff]
      intro x hx
      by_cases ho : x.obj = N.obj
      · have := hw.kinds x (hl x hx) N hNm ho
        simp [this, hkm]
      · simp [ho]
    have hm0 : mapSeg ops N.obj = [] := by
      unfold mapSeg; rw [hnomap ops (fun x hx => List.mem_append_left _ hx)]; rfl
    have hm1 : mapSeg (ops ++ [N]) N.obj = [] := by
      unfold mapSeg; rw [hnomap _ (fun x hx => hx)]; rfl
    unfold seg
    rw [hm0, hm1, List.nil_append, List.nil_append]
    unfold seqSeg
    have hb := blocks_of_rga ops N
    cases hi : N.insert
    · -- an update of element `e`
      cases hk : N.key with
      | map k => rw [hk] at hkm; cases hkm
      | head => exact absurd hk (hw.updKey N hNm hi)
      | elem e =>
        rw [placeInObjO_elemUpd hk hi, rgaOrder_append_noninsert hw0.refs hi]
        have := seekUpdO_blocks (N := N) (e := e) hb (rgaOrder_ids_nodup hw0.strict hw0.refs N.obj)
          (hf.refIn e hk)
        unfold block
        rw [this]
        apply flatMap_congr'
        intro c _
        by_cases hce : c.id = e
        · rw [if_pos hce, hce, updatesOf_append_self hw.strict hd hi hk]
        · rw [if_neg hce, updatesOf_append_other]
          have : (N.key == Key.elem c.id) = false := by
            rw [hk]; simp; exact fun h => hce h.symm
          simp [this]
    · -- an insert
      have hnr : ∀ x ∈ ops ++ [N], x.insert = true → x.key ≠ .elem N.id :=
        fun x hx _ => hf.noKey x hx
      have hU' : ∀ c ∈ rgaOrder ops N.obj,
          updatesOf (ops ++ [N]) N.obj c.id = updatesOf ops N.obj c.id := by
        intro c _
        apply updatesOf_append_other
        simp [hi]
      have hN0 : updatesOf (ops ++ [N]) N.obj N.id = [] := by
        unfold updatesOf
        have : (ops ++ [N]).filter
            (fun o => o.obj == N.obj && !o.isDel && !o.insert && o.key == .elem N.id) = [] := by
          rw [List.filter_eq_nil_iff]
          intro x hx
          have := hf.noKey x hx
          simp [this]
        rw [this]; rfl
      have horder := rgaOrder_insert_general hw.strict hw.refs hnr hi
      cases hk : N.key with
      | map k => rw [hk] at hkm; cases hkm
      | head =>
        rw [placeInObjO_headIns hk hi, horder, if_pos hk]
        unfold block
        exact skipGtO_blocks (U' := fun e => updatesOf (ops ++ [N]) N.obj e.id) hb hU' hN0
      | elem e =>
        rw [placeInObjO_elemIns hk hi, horder, if_neg (by rw [hk]; intro h; cases h)]
        unfold block
        exact seekInsO_blocks (U' := fun e => updatesOf (ops ++ [N]) N.obj e.id) hb hk hU' hN0
          (hf.refIn e hk)
  · -- a map op: the object holds no insert op
    have hnoins : ∀ x ∈ ops ++ [N], x.obj = N.obj → x.insert = false := by
      intro x hx ho
      cases hxi : x.insert
      · rfl
      · have h1 := (hw.insSeq x hx hxi).1
        have h2 := hw.kinds x hx N hNm ho
        rw [h1, hkm] at h2; cases h2
    have hr0 : rgaOrder ops N.obj = [] :=
      rgaOrder_nil_of_no_inserts (fun x hx ho => hnoins x (List.mem_append_left _ hx) ho)
    have hr1 : rgaOrder (ops ++ [N]) N.obj = [] := rgaOrder_nil_of_no_inserts hnoins
    obtain ⟨k, hk⟩ : ∃ k, N.key = .map k := by
      cases hk : N.key with
      | map k => exact ⟨k, rfl⟩
      | head => rw [hk] at hkm; cases hkm
      | elem e => rw [hk] at hkm; cases hkm
    unfold seg seqSeg
    rw [hr0, hr1]
    simp only [List.flatMap_nil, List.append_nil]
    rw [placeInObjO_mapKey hk, mapSeg_append_self hw.strict hd hkm]
    apply mapPlaceO_eq_insertKI
    intro x hx
    exact (mem_mapSeg.mp hx).2.1

/-! ## the canonical order after one more stored op -/

theorem head_flatMap_seg {ops : List Op} {C : List ObjId} {y : Op}
    (h : (C.flatMap (seg ops)).head? = some y) : y.obj ∈ C := by
  have hm : y ∈ C.flatMap (seg ops) := List.mem_of_mem_head? h
  obtain ⟨c, hc, hy⟩ := List.mem_flatMap.mp hm
  rw [obj_of_mem_seg hy]; exact hc

/-- **placing a stored op in the canonical order gives the canonical order** -/
theorem placeRowO_canon {ops : List Op} {N : Op} (hw : OpsWF (ops ++ [N])) (hf : Fresh ops N)
    (hd : N.isDel = false) : placeRowO N (canon ops) = canon (ops ++ [N]) := by
  have hw0 := hw.init
  have hdelins : ∀ x ∈ ops, x.isDel = true → x.insert = false := by
    intro x hx hxd
    cases hxi : x.insert
    · rfl
    · rw [(hw0.insSeq x hx hxi).2] at hxd; cases hxd
  obtain ⟨A, C, h1, h2, h3, h4⟩ := sorted_split N.obj (objsOf_sorted ops)
  have hmid : (if N.obj ∈ objsOf ops then [N.obj] else []).flatMap (seg ops) = seg ops N.obj := by
    split
    · simp
    · rename_i hnm
      rw [seg_nil_of_not_mem hnm hdelins]; rfl
  have hcanon : canon ops = A.flatMap (seg ops) ++ (seg ops N.obj ++ C.flatMap (seg ops)) := by
    unfold canon
    conv => lhs; rw [h1]
    rw [List.flatMap_append, List.flatMap_append, hmid, List.append_assoc]
  have hsegA : A.flatMap (seg (ops ++ [N])) = A.flatMap (seg ops) := by
    apply flatMap_congr'
    intro a ha
    apply seg_append_other hw0.refs
    intro he
    have := h3 a ha
    rw [he, ObjId.lt_irrefl] at this; cases this
  have hsegC : C.flatMap (seg (ops ++ [N])) = C.flatMap (seg ops) := by
    apply flatMap_congr'
    intro c hc
    apply seg_append_other hw0.refs
    intro he
    have := h4 c hc
    rw [he, ObjId.lt_irrefl] at this; cases this
  have hcanon' : canon (ops ++ [N]) =
      A.flatMap (seg ops) ++ (seg (ops ++ [N]) N.obj ++ C.flatMap (seg ops)) := by
    unfold canon
    rw [objsOf_append, hd]
    simp only [Bool.false_eq_true, if_false]
    rw [h2, List.flatMap_append, List.flatMap_append, hsegA, hsegC]
    simp
  rw [hcanon, hcanon', placeRowO_skip, placeInObjO_append, seg_place hw hf hd]
  · -- the rows behind the object belong to greater objects
    intro y hy
    have := h4 _ (head_flatMap_seg hy)
    intro he
    rw [he, ObjId.lt_irrefl] at this; cases this
  · intro x hx
    obtain ⟨a, ha, hxa⟩ := List.mem_flatMap.mp hx
    rw [obj_of_mem_seg hxa]; exact h3 a ha
  · intro y hy
    have hm : y ∈ seg ops N.obj ++ C.flatMap (seg ops) := List.mem_of_mem_head? hy
    rcases List.mem_append.mp hm with hm | hm
    · rw [obj_of_mem_seg hm, ObjId.lt_irrefl]
    · obtain ⟨c, hc, hyc⟩ := List.mem_flatMap.mp hm
      rw [obj_of_mem_seg hyc]
      cases hlt : c.lt N.obj
      · rfl
      · exact (ObjId.lt_asymm hlt (h4 c hc)).elim

theorem placeRowO_perm (N : Op) (l : List Op) : (placeRowO N l).Perm (N :: l) := by
  have h := (placeRow_perm ⟨N, [], false, false, none⟩
    (l.map (fun o => (⟨o, [], false, false, none⟩ : Row)))).map (·.op)
  rw [placeRow_map] at h
  simpa [List.map_map, Function.comp_def] using h

/-! ## successor lists -/

/-- the ops naming `o` as predecessor, ascending by id, as `o`'s successor list records them -/
def succOf (ops : List Op) (o : Op) : List (OpId × Option Int) :=
  (sortById (ops.filter (fun p => p.pred.contains o.id))).map (fun p => (p.id, incFor p o))

theorem map_insertById (N o : Op) (L : List Op) :
    (insertById N L).map (fun p => (p.id, incFor p o)) =
      insertSucc N.id (incFor N o) (L.map (fun p => (p.id, incFor p o))) := by
  induction L with
  | nil => rfl
  | cons x xs ih =>
    simp only [insertById, List.map_cons, insertSucc]
    split
    · rfl
    · rw [List.map_cons, ih]

theorem succOf_append {ops : List Op} {N : Op} (hd : DistinctIds (ops ++ [N])) (o : Op) :
    succOf (ops ++ [N]) o =
      if N.pred.contains o.id then insertSucc N.id (incFor N o) (succOf ops o) else succOf ops o := by
  unfold succOf
  rw [filter_append_singleton]
  split
  · rw [sortById_eq_of_perm (l₂ := N :: ops.filter _) List.perm_append_comm]
    · show (insertById N _).map _ = _
      rw [map_insertById]
      rfl
    · apply hd.subset
      intro x hx
      rcases List.mem_append.mp hx with hx | hx
      · exact List.mem_append_left _ (List.mem_filter.mp hx).1
      · exact List.mem_append_right _ hx
  · rw [List.append_nil]

theorem succOf_fresh {ops : List Op} {N : Op} (h : ∀ x ∈ ops, N.id ∉ x.pred) : succOf ops N = [] := by
  unfold succOf
  have : ops.filter (fun p => p.pred.contains N.id) = [] := by
    rw [List.filter_eq_nil_iff]
    intro x hx
    simpa using h x hx
  rw [this]; rfl

/-! ## the invariant -/

structure StoreInv (ops : List Op) (s : Store) : Prop where
  /-- the rows are in the code's order -/
  order : s.map (·.op) = canon ops
  /-- successor lists = exactly the ops naming the row as predecessor, with the increment rule -/
  succ : ∀ r ∈ s, r.succ = succOf ops r.op
  /-- every stored op has its row -/
  complete : (canon ops).Perm (stored ops)

theorem StoreInv.mem_ops {ops : List Op} {s : Store} (h : StoreInv ops s) {r : Row} (hr : r ∈ s) :
    r.op ∈ ops := by
  have : r.op ∈ canon ops := by rw [← h.order]; exact List.mem_map.mpr ⟨r, hr, rfl⟩
  exact (List.mem_filter.mp (h.complete.mem_iff.mp this)).1

theorem storeInv_nil : StoreInv [] [] where
  order := rfl
  succ := fun _ h => by cases h
  complete := List.Perm.refl _

theorem updateRow_op (w : Op → Nat) (o : Op) (acc : TopAcc) (x : Row) : (updateRow w o acc x).op = x.op := by
  unfold updateRow
  split
  · rfl
  · dsimp only
    split <;> split <;> split <;> (try split) <;> rfl

theorem updateRow_succ (w : Op → Nat) (o : Op) (acc : TopAcc) (x : Row) :
    (updateRow w o acc x).succ =
      if x.op.id == o.id then x.succ
      else if o.pred.contains x.op.id then insertSucc o.id (incFor o x.op) x.succ else x.succ := by
  unfold updateRow
  split
  · rfl
  · dsimp only
    split <;> split <;> split <;> (try split) <;> rfl

theorem insertRemote_ops (w : Op → Nat) (s : Store) (N : Op) :
    (insertRemote w s N).map (·.op) =
      if N.isDel then s.map (·.op) else placeRowO N (s.map (·.op)) := by
  unfold insertRemote
  simp only [List.map_map]
  have : ((fun x : Row => x.op) ∘ updateRow w N (topRun N (if N.isDel = true then s
      else placeRow ⟨N, [], false, false, none⟩ s))) = (fun x : Row => x.op) := by
    funext x
    exact updateRow_op _ _ _ _
  rw [this]
  split
  · rfl
  · rw [placeRow_map]

/-- **`insertRemote` preserves the invariant** under causal delivery -/
theorem insertRemote_inv {w : Op → Nat} {ops : List Op} {s : Store} {N : Op}
    (hw : OpsWF (ops ++ [N])) (hf : Fresh ops N) (hi : StoreInv ops s) :
    StoreInv (ops ++ [N]) (insertRemote w s N) := by
  have hw0 := hw.init
  have hNm : N ∈ ops ++ [N] := by simp
  have hdelins : N.isDel = true → N.insert = false := by
    intro hd
    cases hni : N.insert
    · rfl
    · rw [(hw.insSeq N hNm hni).2] at hd; cases hd
  have horder : (insertRemote w s N).map (·.op) = canon (ops ++ [N]) := by
    rw [insertRemote_ops, hi.order]
    cases hd : N.isDel
    · simp only [Bool.false_eq_true, if_false]
      exact placeRowO_canon hw hf hd
    · simp only [if_true]
      exact (canon_append_del hw0.refs hd (hdelins hd)).symm
  refine ⟨horder, ?_, ?_⟩
  · -- successor lists
    intro r hr
    unfold insertRemote at hr
    obtain ⟨x, hx, rfl⟩ := List.mem_map.mp hr
    rw [updateRow_succ, updateRow_op]
    have hx' : x = ⟨N, [], false, false, none⟩ ∨ x ∈ s := by
      split at hx
      · exact .inr hx
      · rcases List.mem_cons.mp ((placeRow_perm _ s).mem_iff.mp hx) with h | h
        · exact .inl h
        · exact .inr h
    rcases hx' with rfl | hxs
    · simp only [beq_self_eq_true, if_true]
      exact (succOf_fresh (fun y hy => hf.noPred y hy)).symm
    · have hne : (x.op.id == N.id) = false := by
        have := hw.fresh_id x.op (hi.mem_ops hxs)
        simpa using this
      rw [hne, succOf_append hw.strict.distinctIds, hi.succ x hxs]
      simp
  · -- completeness
    cases hd : N.isDel
    · rw [← placeRowO_canon hw hf hd]
      refine (placeRowO_perm N _).trans ?_
      unfold stored
      rw [filter_append_singleton]
      simp only [hd, Bool.not_false, if_true]
      exact (List.Perm.cons N hi.complete).trans
        (List.perm_append_comm (l₁ := [N]) (l₂ := stored ops))
    · rw [canon_append_del hw0.refs hd (hdelins hd)]
      unfold stored
      rw [filter_append_singleton]
      simp only [hd, Bool.not_true, Bool.false_eq_true, if_false, List.append_nil]
      exact hi.complete

/-- the ops held by the store after `insertRemote` -/
theorem insertRemote_perm {w : Op → Nat} (s : Store) (N : Op) :
    ((insertRemote w s N).map (·.op)).Perm (s.map (·.op) ++ (if N.isDel then [] else [N])) := by
  rw [insertRemote_ops]
  split
  · simp
  · exact (placeRowO_perm N _).trans (List.perm_append_comm (l₁ := [N]))

end AmVerif.Crdt
