import AmVerif.Proofs.DocCodecEx
/-
  C11 / C16 (document chunk): what an accepted reconstruction guarantees (`rebuild = ok`): the heads
  stored in the chunk are the heads of the rebuilt changes, one change is rebuilt per change row, the
  mark order is valid; and the facts about the op store behind "predecessors are derived from
  successors": a row lists an op as successor exactly when the op names the row as predecessor, the
  rows are the stored (non-delete) ops, once each.
-/
namespace AmVerif.DocCodec
open AmVerif AmVerif.Crdt

theorem finishChanges_length (actors : List Bytes) (bs : List Builder) :
    ∀ (l : List (Nat × ChangeMeta)) (seqs maxOps : List Nat) (built r : List DChange),
      finishChanges actors bs l seqs maxOps built = .ok r → r.length = built.length + l.length
  | [], _, _, built, r, h => by
    simp only [finishChanges] at h
    cases h
    simp
  | (i, c) :: rest, seqs, maxOps, built, r, h => by
    unfold finishChanges at h
    split at h
    · split at h
      · cases h
      · split at h
        · cases h
        · split at h
          · cases h
          · split at h
            · cases h
            · cases h
            · split at h
              · cases h
              · cases h
              · have := finishChanges_length actors bs rest _ _ _ r h
                simp only [List.length_append, List.length_cons, List.length_nil] at this ⊢
                omega
    · cases h

/-- the steps of an accepted reconstruction -/
theorem rebuild_steps {actors heads : List Bytes} {changes : List ChangeMeta} {rows : List OpRow}
    {fail : Option (DErr ⊕ PanicSite)} {built : List DChange}
    (h : rebuild actors heads changes rows fail = .ok built) :
    ∃ st1 st2, placeAll (emitRows rows ⟨none, []⟩).1 (mkBuilders changes, 0) = .ok st1 ∧
      placeAll (flushOps (emitRows rows ⟨none, []⟩).2) st1 = .ok st2 ∧ st2.2 = 0 ∧
      finishChanges actors st2.1 ((List.range changes.length).zip changes)
        (List.replicate actors.length 0) (List.replicate actors.length 0) [] = .ok built ∧
      sortHashes (headsOf (built.map (·.c))) = heads ∧ markOrderOk rows [] = true ∧ fail = none := by
  simp only [rebuild] at h
  cases h1 : placeAll (emitRows rows ⟨none, []⟩).1 (mkBuilders changes, 0) with
  | err e => simp only [h1] at h; cases h
  | panic p => simp only [h1] at h; cases h
  | ok st1 =>
    simp only [h1] at h
    cases fail with
    | some f => cases f <;> simp only [] at h <;> cases h
    | none =>
      simp only [] at h
      cases h2 : placeAll (flushOps (emitRows rows ⟨none, []⟩).2) st1 with
      | err e => simp only [h2] at h; cases h
      | panic p => simp only [h2] at h; cases h
      | ok st2 =>
        simp only [h2] at h
        split at h
        · cases h
        · rename_i hu
          split at h
          · cases h
          · cases h
          · rename_i hf
            split at h
            · cases h
            · split at h
              · cases h
              · cases h
                rename_i hm hh
                exact ⟨st1, st2, rfl, h2, by omega, hf, by simpa using hh, by simpa using hm, rfl⟩

/-- **what `Document::reconstruct` has verified when it accepts**: the stored heads are the heads of
    the rebuilt changes (sorted), every change row was rebuilt, every mark end follows its begin -/
theorem rebuild_ok {actors heads : List Bytes} {changes : List ChangeMeta} {rows : List OpRow}
    {fail : Option (DErr ⊕ PanicSite)} {built : List DChange}
    (h : rebuild actors heads changes rows fail = .ok built) :
    sortHashes (headsOf (built.map (·.c))) = heads ∧ built.length = changes.length ∧
      markOrderOk rows [] = true ∧ fail = none := by
  obtain ⟨_, st2, _, _, _, hf, hh, hm, hn⟩ := rebuild_steps h
  have hl := finishChanges_length _ _ _ _ _ _ _ hf
  simp only [List.length_nil, List.length_zip, List.length_range, Nat.min_self, Nat.zero_add] at hl
  exact ⟨hh, hl, hm, hn⟩

/-- an accepted `decodeDoc` read every row -/
theorem decodeDoc_parts {limit : Nat} {body : Bytes} {img : DocImage} (h : decodeDoc limit body = .ok img) :
    decodeParts limit body = .ok ⟨img.actors, img.heads, img.changes, img.ops, none, img.headIdx⟩ := by
  unfold decodeDoc at h
  split at h
  · cases h
  · cases h
  · rename_i d hd
    split at h
    · cases h
    · cases h
    · rename_i hf
      cases h
      obtain ⟨a, b, c, e, f, g⟩ := d
      simp only at hf
      subst hf
      exact hd

theorem zip_map_fst_mem {α β : Type} {l1 : List Nat} {l2 : List β} {f : Nat × β → α} {g : α → Nat}
    (hg : ∀ p, g (f p) = p.1) {c : α} (h : c ∈ (l1.zip l2).map f) : g c ∈ l1 := by
  obtain ⟨p, hp, rfl⟩ := List.mem_map.mp h
  rw [hg]
  exact (List.of_mem_zip hp).1

theorem loadChangeCols_actor_bound {limit n : Nat} {cols : List (Nat × ChangeCodec.Rng)} {data : Bytes} {cs : List ChangeMeta}
    (h : loadChangeCols limit n cols data = .ok cs) : ∀ c ∈ cs, c.actor < n := by
  unfold loadChangeCols at h
  simp only [bind, Outcome.bind, liftH, pure] at h
  split at h <;> try cases h
  split at h <;> try cases h
  split at h <;> try cases h
  split at h
  · cases h
  · rename_i hany
    split at h <;> try cases h
    split at h <;> try cases h
    split at h <;> try cases h
    split at h
    · cases h
    split at h
    · cases h
    split at h <;> try cases h
    split at h <;> try cases h
    split at h
    · cases h
    split at h <;> try cases h
    intro c hc
    have hm := zip_map_fst_mem (g := ChangeMeta.actor) (fun p => rfl) hc
    rename_i acts _ _ _ _ _ _ _ _ _ _ _ _ _ _ _ _ _ _ _ _ _
    simp only [Bool.not_eq_true, List.any_eq_false, decide_eq_true_eq] at hany
    have := hany c.actor hm
    omega

/-- the change rows of an accepted chunk name actors of the chunk's actor table -/
theorem decodeParts_actor_bound {limit : Nat} {body : Bytes} {d : Decoded} (h : decodeParts limit body = .ok d) :
    ∀ c ∈ d.changes, c.actor < d.actors.length := by
  unfold decodeParts at h
  split at h <;> try cases h
  split at h <;> try cases h
  split at h <;> try cases h
  rename_i hc
  exact fun c hcm => loadChangeCols_actor_bound hc c hcm

/-! ### predecessors and successors in the op store -/

/-- a row lists `o` as successor exactly when `o` names the row as predecessor -/
theorem succ_iff_pred {ops : List Op} (hadm : Admissible ops) {r : Row}
    (hr : r ∈ buildStore (fun _ => 0) ops) {o : Op} (ho : o ∈ ops) :
    o.id ∈ r.succ.map (·.1) ↔ r.op.id ∈ o.pred := by
  have hinv := buildStore_inv (fun _ => 0) hadm
  have hd : DistinctIds ops := StrictIds.distinctIds (Admissible.wf hadm).strict
  rw [hinv.succ r hr]
  unfold succOf
  simp only [List.map_map, List.mem_map, Function.comp]
  constructor
  · rintro ⟨p, hp, hpe⟩
    have hp' := List.mem_filter.mp (mem_sortById.mp hp)
    have : p = o := hd p hp'.1 o ho hpe
    subst this
    simpa using hp'.2
  · intro hm
    exact ⟨o, mem_sortById.mpr (List.mem_filter.mpr ⟨ho, by simpa using hm⟩), rfl⟩

/-- the rows are the stored (non-delete) ops of the history, each once -/
theorem rows_are_stored {ops : List Op} (hadm : Admissible ops) :
    ((buildStore (fun _ => 0) ops).map (·.op)).Perm (ops.filter (fun o => !o.isDel)) := by
  have hinv := buildStore_inv (fun _ => 0) hadm
  rw [hinv.order]
  exact hinv.complete

end AmVerif.DocCodec
