import AmVerif.Proofs.DocCodecEmit
/-
  C11 (document chunk), reconstruction: everything the rows hand to the builders (`emitted`), for rows in
  which the registers are contiguous (`Bnd`), successor ids belong to the register of the row naming them
  (`kf`) and a row is named only by rows before it (`noBack`):

  `emitted_char` — the ops handed over are, once each (`emitted_nodup`): for every row its op with the
  ids of the rows naming it as predecessors; for every successor id that is no row a delete op of the
  register, with the ids of the rows naming it.
-/
namespace AmVerif.DocCodec
open AmVerif AmVerif.Crdt AmVerif.ChangeCodec

/-- wherever two neighbours differ (by `f`), nothing before the boundary agrees with anything behind it -/
def Bnd {α K : Type} (f : α → K) (l : List α) : Prop :=
  ∀ (A : List α) (x y : α) (B : List α), l = A ++ x :: y :: B → f x ≠ f y →
    ∀ a ∈ A ++ [x], ∀ b ∈ y :: B, f a ≠ f b

/-- what the emission needs of the rows; `kf` = the register of the op with that id -/
structure RowsOk (kf : IdI → Option IdI × DKey) (R : List OpRow) : Prop where
  ids : (R.map (·.id)).Nodup
  succ : ∀ r ∈ R, r.succ.Nodup
  kfRow : ∀ r ∈ R, kf r.id = keyOf r
  kfSucc : ∀ r ∈ R, ∀ sid ∈ r.succ, kf sid = keyOf r
  bnd : Bnd keyOf R
  noBack : ∀ (A : List OpRow) (y : OpRow) (C : List OpRow), R = A ++ y :: C → ∀ x ∈ y :: C, y.id ∉ x.succ

/-- a row that starts a run -/
theorem emitRow_new {s : EState} {r : OpRow} (hlast : s.last ≠ some (keyOf r))
    (hnone : s.last = none → s.preds = []) (hsn : r.succ.Nodup) (hself : r.id ∉ r.succ) :
    emitRow s r = (flushOps s ++ [mkOp r []], ⟨some (keyOf r), pushAll r.succ r.id []⟩) ∧
      RunInv [r] ⟨some (keyOf r), pushAll r.succ r.id []⟩ := by
  have hp0 : (if s.last ≠ some (keyOf r) ∧ s.last.isSome = true then [] else s.preds) = [] := by
    cases hl : s.last with
    | none => simp [hnone hl]
    | some k =>
      rw [hl] at hlast
      simp [hlast]
  refine ⟨?_, ?_, ?_, ?_⟩
  · rw [emitRow_eq, hp0, if_pos hlast, if_pos hlast]
    rfl
  · exact kn_pushAll _ _ (show KN [] from List.nodup_nil)
  · exact ne_pushAll _ _ (show NE [] from fun _ h => by cases h)
  · intro sid
    show lk (pushAll r.succ r.id []) sid = _
    rw [lk_pushAll _ hsn, lk_nil, namers_single]
    simp only [List.map_cons, List.map_nil, List.mem_singleton, List.nil_append]
    by_cases h1 : sid = r.id
    · subst h1; simp [hself]
    · simp [h1]

theorem namers_ne_nil {R : List OpRow} {sid : IdI} (h : namers R sid ≠ []) : ∃ r0 ∈ R, sid ∈ r0.succ := by
  unfold namers at h
  obtain ⟨x, hx⟩ := List.exists_mem_of_ne_nil _ h
  obtain ⟨r0, hr0, _⟩ := List.mem_map.1 hx
  have := List.mem_filter.1 hr0
  exact ⟨r0, this.1, by simpa using this.2⟩

theorem namers_of_mem {R : List OpRow} {sid : IdI} {r0 : OpRow} (h0 : r0 ∈ R) (hs : sid ∈ r0.succ) :
    namers R sid ≠ [] := by
  intro h
  exact namers_eq_nil.1 h r0 h0 hs

/-- the deletes of a finished run, in terms of the whole row list -/
theorem flush_char {kf : IdI → Option IdI × DKey} {R : List OpRow} (hR : RowsOk kf R) {D P Q : List OpRow}
    {s : EState} {kP : Option IdI × DKey} (hsplit : R = D ++ P ++ Q) (hinv : RunInv P s)
    (hlast : s.last = some kP) (hP : ∀ x ∈ P, keyOf x = kP) (hD : ∀ x ∈ D, keyOf x ≠ kP)
    (hQ : ∀ x ∈ Q, keyOf x ≠ kP) (x : RecOp) :
    x ∈ flushOps s ↔ ∃ sid, sid ∉ R.map (·.id) ∧ (∃ r0 ∈ P, sid ∈ r0.succ) ∧
      x = mkDel (kf sid) (sid, namers R sid) := by
  have hPR : ∀ y ∈ P, y ∈ R := fun y hy => by
    rw [hsplit]; exact List.mem_append_left _ (List.mem_append_right _ hy)
  have hDR : ∀ y ∈ D, y ∈ R := fun y hy => by
    rw [hsplit]; exact List.mem_append_left _ (List.mem_append_left _ hy)
  have hQR : ∀ y ∈ Q, y ∈ R := fun y hy => by
    rw [hsplit]; exact List.mem_append_right _ hy
  -- a successor id named inside the run is named nowhere else, and is no row outside the run
  have hrun : ∀ sid, (∃ r0 ∈ P, sid ∈ r0.succ) → kf sid = kP ∧ namers R sid = namers P sid ∧
      (sid ∈ R.map (·.id) → sid ∈ P.map (·.id)) := by
    rintro sid ⟨r0, h0, hs⟩
    have hk : kf sid = kP := (hR.kfSucc r0 (hPR r0 h0) sid hs).trans (hP r0 h0)
    refine ⟨hk, ?_, ?_⟩
    · rw [hsplit, namers_append, namers_append]
      have h1 : namers D sid = [] := namers_eq_nil.2 (fun y hy hys =>
        hD y hy ((hR.kfSucc y (hDR y hy) sid hys).symm.trans hk))
      have h2 : namers Q sid = [] := namers_eq_nil.2 (fun y hy hys =>
        hQ y hy ((hR.kfSucc y (hQR y hy) sid hys).symm.trans hk))
      rw [h1, h2, List.nil_append, List.append_nil]
    · intro hm
      obtain ⟨y, hy, rfl⟩ := List.mem_map.1 hm
      have hyk : keyOf y = kP := (hR.kfRow y hy).symm.trans hk
      rw [hsplit] at hy
      rcases List.mem_append.1 hy with hy | hy
      · rcases List.mem_append.1 hy with hy | hy
        · exact absurd hyk (hD y hy)
        · exact List.mem_map.2 ⟨y, hy, rfl⟩
      · exact absurd hyk (hQ y hy)
  rw [flushOps_eq, hlast]
  simp only []
  rw [mem_flush hinv.kn hinv.ne]
  constructor
  · rintro ⟨sid, hne, rfl⟩
    rw [hinv.look sid] at hne ⊢
    by_cases hm : sid ∈ P.map (·.id)
    · rw [if_pos hm] at hne; exact absurd rfl hne
    · rw [if_neg hm] at hne ⊢
      have hex := namers_ne_nil hne
      obtain ⟨hk, hn, hrow⟩ := hrun sid hex
      exact ⟨sid, fun h => hm (hrow h), hex, by rw [hk, hn]⟩
  · rintro ⟨sid, hnr, hex, rfl⟩
    obtain ⟨hk, hn, _⟩ := hrun sid hex
    have hm : sid ∉ P.map (·.id) := by
      intro h
      obtain ⟨y, hy, hyid⟩ := List.mem_map.1 h
      exact hnr (List.mem_map.2 ⟨y, hPR y hy, hyid⟩)
    obtain ⟨r0, h0, hs⟩ := hex
    refine ⟨sid, ?_, ?_⟩
    · rw [hinv.look sid, if_neg hm]
      exact namers_of_mem h0 hs
    · rw [hinv.look sid, if_neg hm, hk, hn]

theorem flush_ids_nodup {P : List OpRow} {s : EState} (hinv : RunInv P s) : ((flushOps s).map (·.id)).Nodup := by
  rw [flushOps_eq]
  cases s.last with
  | none => exact List.nodup_nil
  | some k =>
    simp only []
    rw [flush_ids]
    exact hinv.kn

theorem total_cons (s : EState) (r : OpRow) (Q' : List OpRow) :
    (emitRows (r :: Q') s).1 ++ flushOps (emitRows (r :: Q') s).2 =
      (emitRow s r).1 ++ ((emitRows Q' (emitRow s r).2).1 ++ flushOps (emitRows Q' (emitRow s r).2).2) := by
  simp only [emitRows, List.append_assoc]

/-- **the ops handed over**, for any point of the row list -/
theorem emit_main {kf : IdI → Option IdI × DKey} {R : List OpRow} (hR : RowsOk kf R) :
    ∀ (Q D P : List OpRow) (s : EState), R = D ++ P ++ Q → RunInv P s →
      (s.last = none → P = [] ∧ D = [] ∧ s.preds = []) →
      (∀ kP, s.last = some kP → P ≠ [] ∧ (∀ x ∈ P, keyOf x = kP) ∧ (∀ x ∈ D, keyOf x ≠ kP)) →
      (∀ x, x ∈ (emitRows Q s).1 ++ flushOps (emitRows Q s).2 ↔
        (∃ r ∈ Q, x = mkOp r (namers R r.id)) ∨
        (∃ sid, sid ∉ R.map (·.id) ∧ (∃ r0 ∈ P ++ Q, sid ∈ r0.succ) ∧
          x = mkDel (kf sid) (sid, namers R sid))) ∧
      (((emitRows Q s).1 ++ flushOps (emitRows Q s).2).map (·.id)).Nodup := by
  intro Q
  induction Q with
  | nil =>
    intro D P s hsplit hinv hnone hsome
    simp only [emitRows, List.nil_append, List.append_nil]
    refine ⟨fun x => ?_, flush_ids_nodup hinv⟩
    cases hl : s.last with
    | none =>
      obtain ⟨hP, _, _⟩ := hnone hl
      rw [flushOps_eq, hl, hP]
      simp
    | some kP =>
      obtain ⟨_, hP, hD⟩ := hsome kP hl
      rw [flush_char hR hsplit hinv hl hP hD (fun _ h => by cases h)]
      simp
  | cons r Q' ih =>
    intro D P s hsplit hinv hnone hsome
    have hrR : r ∈ R := by
      rw [hsplit]; exact List.mem_append_right _ (List.mem_cons_self ..)
    have hPR : ∀ y ∈ P, y ∈ R := fun y hy => by
      rw [hsplit]; exact List.mem_append_left _ (List.mem_append_right _ hy)
    have hDR : ∀ y ∈ D, y ∈ R := fun y hy => by
      rw [hsplit]; exact List.mem_append_left _ (List.mem_append_left _ hy)
    have hQR : ∀ y ∈ Q', y ∈ R := fun y hy => by
      rw [hsplit]; exact List.mem_append_right _ (List.mem_cons_of_mem _ hy)
    have hids := hR.ids
    rw [hsplit] at hids
    simp only [List.map_append, List.map_cons] at hids
    -- `r` is none of the earlier rows, and none of the later ones
    have hrDP : r.id ∉ (D ++ P).map (·.id) := by
      rw [List.map_append]
      intro h
      have := (List.nodup_append.1 hids).2.2 r.id h r.id (List.mem_cons_self ..)
      exact this rfl
    have hrQ : r.id ∉ Q'.map (·.id) := (List.nodup_cons.1 (List.nodup_append.1 hids).2.1).1
    have hnb := hR.noBack (D ++ P) r Q' hsplit
    have hself : r.id ∉ r.succ := hnb r (List.mem_cons_self ..)
    have hsn := hR.succ r hrR
    -- nobody behind names `r`
    have hlater : namers (r :: Q') r.id = [] := namers_eq_nil.2 (fun y hy => hnb y hy)
    -- rows naming an earlier row come before it: `r` names no row of `D ++ P`
    have hback : ∀ sid ∈ r.succ, sid ∉ (D ++ P).map (·.id) := by
      intro sid hs hm
      obtain ⟨y, hy, rfl⟩ := List.mem_map.1 hm
      obtain ⟨A, C, hAC⟩ := List.append_of_mem hy
      have : R = A ++ y :: (C ++ r :: Q') := by
        rw [hsplit, hAC]; simp
      exact hR.noBack A y (C ++ r :: Q') this r
        (List.mem_cons_of_mem _ (List.mem_append_right _ (List.mem_cons_self ..))) hs
    rw [total_cons]
    by_cases hcont : s.last = some (keyOf r)
    · -- the row continues the run
      obtain ⟨hPne, hP, hD⟩ := hsome (keyOf r) hcont
      have hnewP : r.id ∉ P.map (·.id) := fun h => hrDP (by rw [List.map_append]; exact List.mem_append_right _ h)
      have hbackP : ∀ sid ∈ r.succ, sid ∉ P.map (·.id) := fun sid hs h =>
        hback sid hs (by rw [List.map_append]; exact List.mem_append_right _ h)
      obtain ⟨hstep, hinv'⟩ := emitRow_same hinv hcont hnewP hsn hself hbackP
      rw [hstep]
      simp only []
      -- the predecessors found are all the rows naming `r`
      have hnam : namers R r.id = namers P r.id := by
        rw [hsplit, namers_append, namers_append, hlater, List.append_nil]
        have : namers D r.id = [] := namers_eq_nil.2 (fun y hy hys =>
          hD y hy ((hR.kfSucc y (hDR y hy) r.id hys).symm.trans (hR.kfRow r hrR)))
        rw [this, List.nil_append]
      have hsplit' : R = D ++ (P ++ [r]) ++ Q' := by rw [hsplit]; simp
      obtain ⟨hq1, hq2⟩ := ih D (P ++ [r]) _ hsplit' hinv'
        (fun h => by simp only [] at h; rw [hcont] at h; cases h)
        (fun kP h => by
          simp only [] at h
          rw [hcont] at h
          cases h
          refine ⟨by simp, fun x hx => ?_, hD⟩
          rcases List.mem_append.1 hx with hx | hx
          · exact hP x hx
          · rw [List.mem_singleton.1 hx])
      refine ⟨fun x => ?_, ?_⟩
      · rw [List.mem_append, List.mem_singleton, hq1 x, ← hnam]
        constructor
        · rintro (rfl | ⟨r', hr', rfl⟩ | ⟨sid, h1, ⟨r0, h0, hs⟩, rfl⟩)
          · exact Or.inl ⟨r, List.mem_cons_self .., rfl⟩
          · exact Or.inl ⟨r', List.mem_cons_of_mem _ hr', rfl⟩
          · exact Or.inr ⟨sid, h1, ⟨r0, by simpa using h0, hs⟩, rfl⟩
        · rintro (⟨r', hr', rfl⟩ | ⟨sid, h1, ⟨r0, h0, hs⟩, rfl⟩)
          · cases hr' with
            | head => exact Or.inl rfl
            | tail _ h => exact Or.inr (Or.inl ⟨r', h, rfl⟩)
          · exact Or.inr (Or.inr ⟨sid, h1, ⟨r0, by simpa using h0, hs⟩, rfl⟩)
      · rw [List.singleton_append, List.map_cons, List.nodup_cons]
        refine ⟨?_, hq2⟩
        intro hm
        obtain ⟨x, hx, hxid⟩ := List.mem_map.1 hm
        rcases (hq1 x).1 hx with ⟨r', hr', rfl⟩ | ⟨sid, h1, _, rfl⟩
        · exact hrQ (List.mem_map.2 ⟨r', hr', hxid⟩)
        · exact h1 (List.mem_map.2 ⟨r, hrR, hxid.symm⟩)
    · -- the row starts a run
      have hnone' : s.last = none → s.preds = [] := fun h => (hnone h).2.2
      obtain ⟨hstep, hinv'⟩ := emitRow_new hcont hnone' hsn hself
      rw [hstep]
      simp only []
      -- the finished run and everything before it share no register with `r` and the rows behind
      have hsep : ∀ a ∈ D ++ P, ∀ b ∈ r :: Q', keyOf a ≠ keyOf b := by
        cases hl : s.last with
        | none =>
          obtain ⟨hP, hD, _⟩ := hnone hl
          rw [hP, hD]
          intro a ha; cases ha
        | some kP =>
          obtain ⟨hPne, hP, hD⟩ := hsome kP hl
          obtain ⟨P', xl, rfl⟩ : ∃ P' xl, P = P' ++ [xl] :=
            ⟨P.dropLast, P.getLast hPne, (List.dropLast_concat_getLast hPne).symm⟩
          have hxl : keyOf xl = kP := hP xl (List.mem_append_right _ (List.mem_singleton.2 rfl))
          have hne : keyOf xl ≠ keyOf r := by
            intro h
            rw [hl, ← hxl, h] at hcont
            exact hcont rfl
          have hs : R = (D ++ P') ++ xl :: r :: Q' := by rw [hsplit]; simp
          have := hR.bnd (D ++ P') xl r Q' hs hne
          intro a ha
          exact this a (by simpa using ha)
      have hnam : namers R r.id = [] := by
        rw [hsplit, namers_append, hlater, List.append_nil]
        exact namers_eq_nil.2 (fun y hy hys =>
          hsep y hy r (List.mem_cons_self ..)
            ((hR.kfSucc y (by rw [hsplit]; exact List.mem_append_left _ hy) r.id hys).symm.trans (hR.kfRow r hrR)))
      have hsplit' : R = (D ++ P) ++ [r] ++ Q' := by rw [hsplit]; simp
      obtain ⟨hq1, hq2⟩ := ih (D ++ P) [r] _ hsplit' hinv'
        (fun h => by simp only [] at h; cases h)
        (fun kP h => by
          simp only [] at h
          cases h
          refine ⟨by simp, fun x hx => by rw [List.mem_singleton.1 hx], fun x hx => ?_⟩
          exact hsep x hx r (List.mem_cons_self ..))
      -- the deletes of the finished run
      have hfl : ∀ x, x ∈ flushOps s ↔ ∃ sid, sid ∉ R.map (·.id) ∧ (∃ r0 ∈ P, sid ∈ r0.succ) ∧
          x = mkDel (kf sid) (sid, namers R sid) := by
        intro x
        cases hl : s.last with
        | none =>
          obtain ⟨hP, _, _⟩ := hnone hl
          rw [flushOps_eq, hl, hP]
          simp
        | some kP =>
          obtain ⟨_, hP, hD⟩ := hsome kP hl
          exact flush_char hR hsplit hinv hl hP hD (fun y hy h =>
            hsep _ (List.mem_append_right _ (List.getLast_mem (hsome kP hl).1)) y hy
              ((hP _ (List.getLast_mem (hsome kP hl).1)).trans h.symm)) x
      refine ⟨fun x => ?_, ?_⟩
      · rw [List.append_assoc, List.mem_append, hfl x, List.mem_append, List.mem_singleton, hq1 x]
        constructor
        · rintro (⟨sid, h1, ⟨r0, h0, hs⟩, rfl⟩ | rfl | ⟨r', hr', rfl⟩ | ⟨sid, h1, ⟨r0, h0, hs⟩, rfl⟩)
          · exact Or.inr ⟨sid, h1, ⟨r0, List.mem_append_left _ h0, hs⟩, rfl⟩
          · exact Or.inl ⟨r, List.mem_cons_self .., by rw [hnam]⟩
          · exact Or.inl ⟨r', List.mem_cons_of_mem _ hr', rfl⟩
          · exact Or.inr ⟨sid, h1, ⟨r0, List.mem_append_right _ (by simpa using h0), hs⟩, rfl⟩
        · rintro (⟨r', hr', rfl⟩ | ⟨sid, h1, ⟨r0, h0, hs⟩, rfl⟩)
          · cases hr' with
            | head => exact Or.inr (Or.inl (by rw [hnam]))
            | tail _ h => exact Or.inr (Or.inr (Or.inl ⟨r', h, rfl⟩))
          · rcases List.mem_append.1 h0 with h0 | h0
            · exact Or.inl ⟨sid, h1, ⟨r0, h0, hs⟩, rfl⟩
            · exact Or.inr (Or.inr (Or.inr ⟨sid, h1, ⟨r0, by simpa using h0, hs⟩, rfl⟩))
      · rw [List.append_assoc, List.map_append, List.nodup_append]
        refine ⟨flush_ids_nodup hinv, ?_, ?_⟩
        · rw [List.singleton_append, List.map_cons, List.nodup_cons]
          refine ⟨?_, hq2⟩
          intro hm
          obtain ⟨x, hx, hxid⟩ := List.mem_map.1 hm
          rcases (hq1 x).1 hx with ⟨r', hr', rfl⟩ | ⟨sid, h1, _, rfl⟩
          · exact hrQ (List.mem_map.2 ⟨r', hr', hxid⟩)
          · exact h1 (List.mem_map.2 ⟨r, hrR, hxid.symm⟩)
        · intro a ha b hb hab
          obtain ⟨x, hx, rfl⟩ := List.mem_map.1 ha
          obtain ⟨y, hy, rfl⟩ := List.mem_map.1 hb
          obtain ⟨sid, h1, ⟨r0, h0, hs⟩, rfl⟩ := (hfl x).1 hx
          -- a delete of the finished run: its id is no row, and belongs to the run's register
          have hk0 : kf sid = keyOf r0 := hR.kfSucc r0 (hPR r0 h0) sid hs
          have hy' : y = mkOp r [] ∨ y ∈ (emitRows Q' ⟨some (keyOf r), pushAll r.succ r.id []⟩).1 ++
              flushOps (emitRows Q' ⟨some (keyOf r), pushAll r.succ r.id []⟩).2 := by
            simpa using hy
          rcases hy' with rfl | hy'
          · exact h1 (List.mem_map.2 ⟨r, hrR, hab.symm⟩)
          · rcases (hq1 y).1 hy' with ⟨r', hr', rfl⟩ | ⟨sid', h1', ⟨r0', h0', hs'⟩, rfl⟩
            · exact h1 (List.mem_map.2 ⟨r', hQR r' hr', hab.symm⟩)
            · have hsame : sid = sid' := hab
              subst hsame
              have hr0' : r0' ∈ r :: Q' := by simpa using h0'
              have hk1 : kf sid = keyOf r0' := hR.kfSucc r0'
                (by rw [hsplit]; exact List.mem_append_right _ hr0') sid hs'
              exact hsep r0 (List.mem_append_right _ h0) r0' hr0' (hk0.symm.trans hk1)

/-- **everything handed to the builders** -/
theorem emitted_char {kf : IdI → Option IdI × DKey} {R : List OpRow} (hR : RowsOk kf R) (x : RecOp) :
    x ∈ emitted R ↔ (∃ r ∈ R, x = mkOp r (namers R r.id)) ∨
      (∃ sid, sid ∉ R.map (·.id) ∧ (∃ r0 ∈ R, sid ∈ r0.succ) ∧ x = mkDel (kf sid) (sid, namers R sid)) := by
  have := (emit_main hR R [] [] ⟨none, []⟩ (by simp) runInv_init (fun _ => ⟨rfl, rfl, rfl⟩)
    (fun kP h => by cases h)).1 x
  simpa [emitted] using this

theorem emitted_nodup {kf : IdI → Option IdI × DKey} {R : List OpRow} (hR : RowsOk kf R) :
    ((emitted R).map (·.id)).Nodup :=
  (emit_main hR R [] [] ⟨none, []⟩ (by simp) runInv_init (fun _ => ⟨rfl, rfl, rfl⟩)
    (fun kP h => by cases h)).2

end AmVerif.DocCodec
