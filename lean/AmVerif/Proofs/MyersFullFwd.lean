import AmVerif.Proofs.Myers
import AmVerif.Proofs.MyersBounds
/-
  C27 helper (forward pass of `find_middle_snake`): read-after-write lemmas for the `V` arrays, an
  inversion lemma for one iteration of the forward `for k` loop (`fwdStep_inv`), a generic loop
  invariant rule for `kLoop` (`kLoop_ind`).
-/
namespace AmVerif.Myers
open AmVerif

theorem V.get_set_self {v v' : V} {k : Int} {x : Nat} (h : v.set k x = some v') : v'.get k = some x := by
  unfold V.set at h
  simp only at h
  split at h
  · cases h
  · split at h
    · rename_i h0 h1
      cases h
      unfold V.get
      simp only [h0, if_false]
      simp [h1]
    · cases h

theorem V.get_set_ne {v v' : V} {k k' : Int} {x : Nat} (h : v.set k x = some v') (hne : k' ≠ k) :
    v'.get k' = v.get k' := by
  unfold V.set at h
  simp only at h
  split at h
  · cases h
  · split at h
    · rename_i h0 h1
      cases h
      unfold V.get
      simp only
      by_cases h2 : k' + (v.offset : Int) < 0
      · simp [h2]
      · simp only [h2, if_false]
        rw [Array.getElem?_set]
        have : (k + (v.offset : Int)).toNat ≠ (k' + (v.offset : Int)).toNat := by omega
        simp [this]
    · cases h

theorem rd_inv {v : V} {k : Int} {f : Nat → KStep} {r : KStep} (h : rd v k f = r) :
    (∃ p, r = .panic p) ∨ ∃ x, v.get k = some x ∧ f x = r := by
  unfold rd at h
  cases hg : v.get k with
  | none => rw [hg] at h; exact .inl ⟨_, h.symm⟩
  | some x => rw [hg] at h; exact .inr ⟨x, rfl, h⟩

section
variable {α : Type} [BEq α]

/-- the value stored on diagonal `k` when the loop starts from `x` -/
def fwdX1 (old : List α) (os oe : Nat) (new : List α) (ns ne n m : Nat) (k : Int) (x : Nat) : Nat :=
  if x < n ∧ 0 ≤ (x : Int) - k ∧ (x : Int) - k < (m : Int) then
    x + commonPrefixLen old (os + x) oe new (ns + ((x : Int) - k).toNat) ne
  else x

/-- the part of `fwdStep` after `x` has been picked -/
def fwdTail (old : List α) (os oe : Nat) (new : List α) (ns ne n m : Nat) (delta : Int) (odd : Bool)
    (d : Nat) (k : Int) (vf vb : V) (x : Nat) : KStep :=
  match vf.set k (fwdX1 old os oe new ns ne n m k x) with
  | none => .panic .sliceIndex
  | some vf =>
    if odd && decide ((k - delta).natAbs + 1 ≤ d) then
      rd vf k fun a => rd vb (-(k - delta)) fun b =>
        if a + b ≥ n then .found ((x : Int) + os) ((x : Int) - k + ns) vf vb else .cont vf vb
    else .cont vf vb

theorem fwdStep_eq (old : List α) (os oe : Nat) (new : List α) (ns ne n m : Nat) (delta : Int) (odd : Bool)
    (d : Nat) (k : Int) (vf vb : V) :
    fwdStep old os oe new ns ne n m delta odd d k vf vb =
      (if k == -(d : Int) then rd vf (k + 1) (fwdTail old os oe new ns ne n m delta odd d k vf vb)
       else if k != (d : Int) then
         rd vf (k - 1) fun a => rd vf (k + 1) fun b =>
           if a < b then rd vf (k + 1) (fwdTail old os oe new ns ne n m delta odd d k vf vb)
           else rd vf (k - 1) fun a' => fwdTail old os oe new ns ne n m delta odd d k vf vb (a' + 1)
       else rd vf (k - 1) fun a' => fwdTail old os oe new ns ne n m delta odd d k vf vb (a' + 1)) := by
  rfl

/-- what a forward iteration that did not panic did -/
structure FwdDone (old : List α) (os oe : Nat) (new : List α) (ns ne n m : Nat) (delta : Int) (odd : Bool)
    (d : Nat) (k : Int) (vf vb : V) (r : KStep) (x : Nat) (vf' : V) : Prop where
  /-- how `x` was picked: a down move from diagonal `k+1` or a right move from diagonal `k-1` -/
  pick : (vf.get (k + 1) = some x ∧ (k = -(d : Int) ∨ (k ≠ d ∧ ∃ a, vf.get (k - 1) = some a ∧ a < x)))
       ∨ (k ≠ -(d : Int) ∧ ∃ a, vf.get (k - 1) = some a ∧ x = a + 1 ∧
            (k = d ∨ ∃ b, vf.get (k + 1) = some b ∧ ¬ a < b))
  /-- the snake was followed and its end stored -/
  stored : vf.set k (fwdX1 old os oe new ns ne n m k x) = some vf'
  /-- the loop continues, or an overlap was detected on a checked diagonal -/
  res : r = .cont vf' vb
      ∨ (r = .found ((x : Int) + os) ((x : Int) - k + ns) vf' vb ∧ odd = true ∧ (k - delta).natAbs + 1 ≤ d
          ∧ ∃ b, vb.get (-(k - delta)) = some b ∧ fwdX1 old os oe new ns ne n m k x + b ≥ n)

theorem fwdTail_inv {old : List α} {os oe : Nat} {new : List α} {ns ne n m : Nat} {delta : Int} {odd : Bool}
    {d : Nat} {k : Int} {vf vb : V} {x : Nat} {r : KStep}
    (h : fwdTail old os oe new ns ne n m delta odd d k vf vb x = r) :
    (∃ p, r = .panic p) ∨ ∃ vf', vf.set k (fwdX1 old os oe new ns ne n m k x) = some vf' ∧
      (r = .cont vf' vb
      ∨ (r = .found ((x : Int) + os) ((x : Int) - k + ns) vf' vb ∧ odd = true ∧ (k - delta).natAbs + 1 ≤ d
          ∧ ∃ b, vb.get (-(k - delta)) = some b ∧ fwdX1 old os oe new ns ne n m k x + b ≥ n)) := by
  unfold fwdTail at h
  cases hs : vf.set k (fwdX1 old os oe new ns ne n m k x) with
  | none => rw [hs] at h; exact .inl ⟨_, h.symm⟩
  | some vf' =>
    rw [hs] at h
    simp only at h
    split at h
    · rename_i hc
      simp only [Bool.and_eq_true, decide_eq_true_eq] at hc
      rcases rd_inv h with hp | ⟨a, ha, h⟩
      · exact .inl hp
      · rcases rd_inv h with hp | ⟨b, hb, h⟩
        · exact .inl hp
        · have ha' := V.get_set_self hs
          rw [ha'] at ha
          cases ha
          split at h
          · rename_i hab
            exact .inr ⟨vf', rfl, .inr ⟨h.symm, hc.1, hc.2, b, hb, hab⟩⟩
          · exact .inr ⟨vf', rfl, .inl h.symm⟩
    · exact .inr ⟨vf', rfl, .inl h.symm⟩

theorem fwdStep_inv {old : List α} {os oe : Nat} {new : List α} {ns ne n m : Nat} {delta : Int} {odd : Bool}
    {d : Nat} {k : Int} {vf vb : V} {r : KStep}
    (h : fwdStep old os oe new ns ne n m delta odd d k vf vb = r) :
    (∃ p, r = .panic p) ∨ ∃ x vf', FwdDone old os oe new ns ne n m delta odd d k vf vb r x vf' := by
  rw [fwdStep_eq] at h
  split at h
  · rename_i hk
    have hk' : k = -(d : Int) := by simpa using hk
    rcases rd_inv h with hp | ⟨x, hx, h⟩
    · exact .inl hp
    · rcases fwdTail_inv h with hp | ⟨vf', hs, hr⟩
      · exact .inl hp
      · exact .inr ⟨x, vf', ⟨.inl ⟨hx, .inl hk'⟩, hs, hr⟩⟩
  · rename_i hk
    have hk' : k ≠ -(d : Int) := by simpa using hk
    split at h
    · rename_i hkd
      have hkd' : k ≠ (d : Int) := by simpa using hkd
      rcases rd_inv h with hp | ⟨a, ha, h⟩
      · exact .inl hp
      rcases rd_inv h with hp | ⟨b, hb, h⟩
      · exact .inl hp
      split at h
      · rename_i hab
        rcases rd_inv h with hp | ⟨x, hx, h⟩
        · exact .inl hp
        rw [hb] at hx
        cases hx
        rcases fwdTail_inv h with hp | ⟨vf', hs, hr⟩
        · exact .inl hp
        · exact .inr ⟨b, vf', ⟨.inl ⟨hb, .inr ⟨hkd', a, ha, hab⟩⟩, hs, hr⟩⟩
      · rename_i hab
        rcases rd_inv h with hp | ⟨a', ha', h⟩
        · exact .inl hp
        rw [ha] at ha'
        cases ha'
        rcases fwdTail_inv h with hp | ⟨vf', hs, hr⟩
        · exact .inl hp
        · exact .inr ⟨a + 1, vf', ⟨.inr ⟨hk', a, ha, rfl, .inr ⟨b, hb, hab⟩⟩, hs, hr⟩⟩
    · rename_i hkd
      have hkd' : k = (d : Int) := by simpa using hkd
      rcases rd_inv h with hp | ⟨a', ha', h⟩
      · exact .inl hp
      rcases fwdTail_inv h with hp | ⟨vf', hs, hr⟩
      · exact .inl hp
      · exact .inr ⟨a' + 1, vf', ⟨.inr ⟨hk', a', ha', rfl, .inl hkd'⟩, hs, hr⟩⟩
end

/-- loop invariant rule for `kLoop`: `P j` holds before the iteration on diagonal `k0 - 2 j`. -/
theorem kLoop_ind (step : Int → V → V → KStep) (k0 : Int) (P : Nat → V → V → Prop) (Q : KStep → Prop)
    (N : Nat)
    (hstep : ∀ j vf vb, j < N → P j vf vb →
      match step (k0 - 2 * (j : Int)) vf vb with
      | .cont a b => P (j + 1) a b
      | r => Q r) :
    ∀ (i j : Nat) (vf vb : V), j + i = N → P j vf vb →
      match kLoop step i (k0 - 2 * (j : Int)) vf vb with
      | .cont a b => P N a b
      | r => Q r := by
  intro i
  induction i with
  | zero =>
    intro j vf vb hj hp
    have : j = N := by omega
    subst this
    simpa [kLoop] using hp
  | succ i ih =>
    intro j vf vb hj hp
    unfold kLoop
    have hs := hstep j vf vb (by omega) hp
    cases hst : step (k0 - 2 * (j : Int)) vf vb with
    | cont a b =>
      rw [hst] at hs
      simp only at hs ⊢
      have e : k0 - 2 * (j : Int) - 2 = k0 - 2 * ((j + 1 : Nat) : Int) := by omega
      rw [e]
      exact ih (j + 1) a b (by omega) hs
    | found x y a b => rw [hst] at hs; simpa using hs
    | panic p => rw [hst] at hs; simpa using hs

end AmVerif.Myers
