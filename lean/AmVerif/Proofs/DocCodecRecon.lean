import AmVerif.Proofs.DocCodecFinish
/-
  C11 (document chunk), reconstruction: the collector's plumbing put together.

  `changesOf_of_emit`: for a history that is `ReconOk` (ids consecutive per change, dependencies earlier,
  hashes = hash of the encoding, sequence numbers in order …) and `GapOk` (the estimate of a change's first
  counter from its dependencies is not beyond the real one; an actor's later change starts behind the
  earlier one), if the ops the rows hand to the builders (`emitted`) are exactly the history's ops with
  their predecessor lists (`EmitOk`) then `changesOf (imageOf applied) = ok applied`.
-/
namespace AmVerif.DocCodec
open AmVerif AmVerif.Crdt AmVerif.ChangeCodec

/-- everything `ChangeCollector` is handed for the rows: the rows' ops, the deletes of every finished
    run, and the deletes of the last run -/
def emitted (rows : List OpRow) : List RecOp :=
  (emitRows rows ⟨none, []⟩).1 ++ flushOps (emitRows rows ⟨none, []⟩).2

/-- the history's ops as the builders must receive them -/
def idealOps (applied : List DChange) : List RecOp :=
  applied.flatMap (fun d => d.c.ops.map (recOf (actorTable applied)))

/-- the rows hand the builders exactly the history's ops, once each -/
structure EmitOk (applied : List DChange) : Prop where
  nodup : ((emitted (imageOf applied).ops).map (·.id)).Nodup
  mem : ∀ x, x ∈ emitted (imageOf applied).ops ↔ x ∈ idealOps applied

/-- the estimated first counters (`ChangeGraphCols::load`) fit the real ones -/
structure GapOk (applied : List DChange) : Prop where
  estLe : ∀ d ∈ applied, estStart (imageOf applied).changes (metaOf applied d) ≤ d.c.startOp
  empty : ∀ d ∈ applied, d.c.ops = [] → d.c.startOp = estStart (imageOf applied).changes (metaOf applied d)
  prev : ∀ (i j : Nat) (di dj : DChange), applied[i]? = some di → applied[j]? = some dj → i < j →
    di.c.actor = dj.c.actor → di.maxOp < estStart (imageOf applied).changes (metaOf applied dj)

theorem maxOp_eq {d : DChange} (h : 0 < d.c.startOp) : d.maxOp + 1 = d.c.startOp + d.c.ops.length := by
  unfold DChange.maxOp
  omega

theorem seq_lt_of_lt {applied : List DChange} (hr : ReconOk applied) {i j : Nat} {di dj : DChange}
    (hi : applied[i]? = some di) (hj : applied[j]? = some dj) (hij : i < j) (ha : di.c.actor = dj.c.actor) :
    di.c.seq < dj.c.seq := by
  rw [hr.seqs i di hi, hr.seqs j dj hj, ha]
  have hjl : j ≤ applied.length := Nat.le_of_lt (List.getElem?_eq_some_iff.1 hj).1
  -- the first `j` changes hold the first `i` and the `i`-th itself
  have hsplit : applied.take j = applied.take i ++ (applied.drop i).take (j - i) := by
    have : j = i + (j - i) := by omega
    rw [this, List.take_add]
    simp
  rw [hsplit, List.filter_append, List.length_append]
  have hdi : di ∈ ((applied.drop i).take (j - i)).filter (fun e => e.c.actor = dj.c.actor) := by
    rw [List.mem_filter]
    refine ⟨?_, by simpa using ha⟩
    apply List.mem_iff_getElem?.2
    refine ⟨0, ?_⟩
    rw [List.getElem?_take_of_lt (by omega), List.getElem?_drop]
    simpa using hi
  have := List.length_pos_of_mem hdi
  omega

/-- the change rows of such a history are `MetaOk` -/
theorem metaOk_of_recon {applied : List DChange} (hr : ReconOk applied) (hg : GapOk applied) :
    MetaOk (imageOf applied).changes := by
  have hget : ∀ {i : Nat} {c : ChangeMeta}, (imageOf applied).changes[i]? = some c →
      ∃ d, applied[i]? = some d ∧ c = metaOf applied d := by
    intro i c h
    rw [imageOf_changes, List.getElem?_map] at h
    cases hd : applied[i]? with
    | none => rw [hd] at h; cases h
    | some d => rw [hd] at h; cases h; exact ⟨d, rfl, rfl⟩
  have hmem : ∀ {c : ChangeMeta}, c ∈ (imageOf applied).changes →
      ∃ (i : Nat) (d : DChange), applied[i]? = some d ∧ c = metaOf applied d := by
    intro c h
    obtain ⟨i, hi⟩ := List.mem_iff_getElem?.1 h
    obtain ⟨d, hd, rfl⟩ := hget hi
    exact ⟨i, d, hd, rfl⟩
  have hactor : ∀ {di dj : DChange}, di ∈ applied → dj ∈ applied →
      (metaOf applied di).actor = (metaOf applied dj).actor → di.c.actor = dj.c.actor :=
    fun h1 h2 h => idxOf_inj (author_mem_table h1) (author_mem_table h2) h
  refine ⟨?_, ?_, ?_⟩
  · intro i j ci cj hi hj ha hs
    obtain ⟨di, hdi, rfl⟩ := hget hi
    obtain ⟨dj, hdj, rfl⟩ := hget hj
    have ha' := hactor (List.mem_of_getElem? hdi) (List.mem_of_getElem? hdj) ha
    rcases Nat.lt_trichotomy i j with h | h | h
    · have := seq_lt_of_lt hr hdi hdj h ha'
      simp only [metaOf] at hs; omega
    · exact h
    · have := seq_lt_of_lt hr hdj hdi h ha'.symm
      simp only [metaOf] at hs; omega
  · intro ci hci cj hcj ha hs
    obtain ⟨i, di, hdi, rfl⟩ := hmem hci
    obtain ⟨j, dj, hdj, rfl⟩ := hmem hcj
    have ha' := hactor (List.mem_of_getElem? hdi) (List.mem_of_getElem? hdj) ha
    rcases Nat.lt_trichotomy i j with h | h | h
    · exact hg.prev i j di dj hdi hdj h ha'
    · subst h
      rw [hdi] at hdj; cases hdj
      simp only [metaOf] at hs; omega
    · have := seq_lt_of_lt hr hdj hdi h ha'.symm
      simp only [metaOf] at hs; omega
  · intro c hc
    obtain ⟨i, d, hd, rfl⟩ := hmem hc
    have hdm := List.mem_of_getElem? hd
    have h1 := hg.estLe d hdm
    have h2 := maxOp_eq (hr.startPos d hdm)
    show _ ≤ d.maxOp + 1
    omega

/-- the range of the `i`-th change's builder holds the ids of the change's ops -/
theorem covers_own {applied : List DChange} (hr : ReconOk applied) (hg : GapOk applied) {d : DChange}
    (hd : d ∈ applied) {o : Op} (ho : o ∈ d.c.ops) :
    Covers (idxOf (actorTable applied) d.c.actor, estStart (imageOf applied).changes (metaOf applied d), d.maxOp)
      (recOf (actorTable applied) o).id := by
  obtain ⟨j, hj⟩ := List.mem_iff_getElem?.1 ho
  have hid := hr.ids d hd j o hj
  have hjl : j < d.c.ops.length := (List.getElem?_eq_some_iff.1 hj).1
  have h1 := hg.estLe d hd
  have h2 := maxOp_eq (hr.startPos d hd)
  unfold Covers recOf toIdx
  simp only [hid]
  refine ⟨trivial, by omega, by omega⟩

/-- **the collector's plumbing**: from the ops the rows hand over to the applied changes -/
theorem changesOf_of_emit {applied : List DChange} (hr : ReconOk applied) (hg : GapOk applied)
    (he : EmitOk applied) (hmark : markOrderOk (imageOf applied).ops [] = true) :
    changesOf (imageOf applied) = .ok applied := by
  have hm := metaOk_of_recon hr hg
  have hchanges := imageOf_changes applied
  -- every op handed over lies in the range of a builder
  have hcov : ∀ op ∈ emitted (imageOf applied).ops,
      ∃ p ∈ (mkBuilders (imageOf applied).changes).map Builder.range, Covers p op.id := by
    intro op hop
    obtain ⟨d, hd, hx⟩ := List.mem_flatMap.1 ((he.mem op).1 hop)
    obtain ⟨o, ho, rfl⟩ := List.mem_map.1 hx
    obtain ⟨i, hi⟩ := List.mem_iff_getElem?.1 hd
    have hci : (imageOf applied).changes[i]? = some (metaOf applied d) := by
      rw [hchanges, List.getElem?_map, hi]; rfl
    refine ⟨_, List.mem_map.2 ⟨_, mem_mkBuilders_iff.2 ⟨i, _, hci, rfl⟩, rfl⟩, ?_⟩
    exact covers_own hr hg hd ho
  unfold emitted at hcov
  have hnd := he.nodup
  unfold emitted at hnd
  -- the rows' ops, then the last run's deletes
  obtain ⟨bs1, hp1, hinv1, hr1, hc1⟩ := placeAll_holds (emitRows (imageOf applied).ops ⟨none, []⟩).1
    (mkBuilders (imageOf applied).changes) 0 [] (pinv_mkBuilders hm)
    (fun op hop => hcov op (List.mem_append_left _ hop))
    (by
      rw [List.nil_append]
      rw [List.map_append] at hnd
      exact (List.nodup_append.1 hnd).1)
  obtain ⟨bs2, hp2, hinv2, hr2, hc2⟩ := placeAll_holds (flushOps (emitRows (imageOf applied).ops ⟨none, []⟩).2)
    bs1 0 ([] ++ (emitRows (imageOf applied).ops ⟨none, []⟩).1) hinv1
    (fun op hop => by rw [hr1]; exact hcov op (List.mem_append_right _ hop))
    (by rw [List.nil_append]; exact hnd)
  rw [List.nil_append] at hinv2
  -- every builder returns its change's ops
  have hb : ∀ (i : Nat) (d : DChange), applied[i]? = some d →
      ∃ b, bs2.find? (fun b => b.change = i) = some b ∧
        b.ops = .ok (d.c.ops.map (recOf (actorTable applied))) := by
    intro i d hi
    have hd := List.mem_of_getElem? hi
    have hci : (imageOf applied).changes[i]? = some (metaOf applied d) := by
      rw [hchanges, List.getElem?_map, hi]; rfl
    obtain ⟨b, hfind, hrange, hholds⟩ := find_builder hinv2 (hr2.trans hr1) (hc2.trans hc1) hci
    refine ⟨b, hfind, ?_⟩
    have hbs : b.start = estStart (imageOf applied).changes (metaOf applied d) := congrArg (·.2.1) hrange
    have hbm : b.maxOp = d.maxOp := congrArg (·.2.2) hrange
    apply Builder.ops_of_holds hholds (s := d.c.startOp)
    · intro op
      rw [List.mem_filter, inR_iff, hrange]
      constructor
      · rintro ⟨hop, hcv⟩
        have hop' : op ∈ emitted (imageOf applied).ops := hop
        obtain ⟨d', hd', hx⟩ := List.mem_flatMap.1 ((he.mem op).1 hop')
        obtain ⟨o, ho, rfl⟩ := List.mem_map.1 hx
        -- the op's change is this one: two ranges of one actor that share a counter
        have hcv' := covers_own hr hg hd' ho
        obtain ⟨i', hi'⟩ := List.mem_iff_getElem?.1 hd'
        have hci' : (imageOf applied).changes[i']? = some (metaOf applied d') := by
          rw [hchanges, List.getElem?_map, hi']; rfl
        have hsame : d' = d := by
          have ha : (metaOf applied d').actor = (metaOf applied d).actor := hcv'.1.trans hcv.1.symm
          rcases Nat.lt_trichotomy (metaOf applied d').seq (metaOf applied d).seq with h | h | h
          · have := hm.ranges _ (List.mem_of_getElem? hci') _ (List.mem_of_getElem? hci) ha h
            have h1 := hcv'.2.2
            have h2 := hcv.2.1
            simp only [metaOf] at this h1 h2
            omega
          · have := hm.distinct i' i _ _ hci' hci ha h
            subst this
            rw [hi] at hi'; cases hi'; rfl
          · have := hm.ranges _ (List.mem_of_getElem? hci) _ (List.mem_of_getElem? hci') ha.symm h
            have h1 := hcv.2.2
            have h2 := hcv'.2.1
            simp only [metaOf] at this h1 h2
            omega
        subst hsame
        exact List.mem_map.2 ⟨o, ho, rfl⟩
      · intro hop
        obtain ⟨o, ho, rfl⟩ := List.mem_map.1 hop
        refine ⟨?_, covers_own hr hg hd ho⟩
        exact (he.mem _).2 (List.mem_flatMap.2 ⟨d, hd, List.mem_map.2 ⟨o, ho, rfl⟩⟩)
    · intro j op hj
      rw [List.getElem?_map] at hj
      cases ho : d.c.ops[j]? with
      | none => rw [ho] at hj; cases hj
      | some o =>
        rw [ho] at hj
        cases hj
        have := hr.ids d hd j o ho
        simp only [recOf, toIdx, this]
    · rw [List.length_map, hbm]
      exact (maxOp_eq (hr.startPos d hd)).symm
    · intro hnil
      rw [hbs]
      exact hg.empty d hd (by simpa using hnil)
    · rw [hbs]
      exact hg.estLe d hd
  -- the per-change loop
  have hfin := finishChanges_applied hr hb applied.length 0
    (List.replicate (actorTable applied).length 0) (List.replicate (actorTable applied).length 0)
    (by omega) (sinv_init applied)
  rw [List.drop_zero, List.take_zero, ← hchanges] at hfin
  unfold changesOf rebuild
  simp only [hp1]
  simp only [hp2, Nat.lt_irrefl, if_false, imageOf_actors, hfin]
  have hheads : (imageOf applied).heads = sortHashes (headsOf (applied.map (·.c))) := rfl
  simp only [hheads, ne_eq, not_true_eq_false, if_false, hmark]
  rfl

end AmVerif.DocCodec
