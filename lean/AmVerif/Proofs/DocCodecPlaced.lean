import AmVerif.Proofs.DocCodecRebuild
/-
  C16 (document chunk), after the fix 77e2efb7e (`ChangeCollector::unplaced`, `OpsOutsideChanges`):
  an accepted reconstruction has placed EVERY op it was handed — every op row and every delete implied
  by a successor id — into the builder of a change row of the chunk.

  * the builders' ranges (`change, actor, seq, start, maxOp`) never change while ops are placed;
  * `placeAll … = ok (_, 0)` from a counter of `0` means `builders_index` found a builder for every op;
  * the builders of `mkBuilders` are exactly the change rows with `start = estStart`;
  * every row id, and every successor id of a row, is the id of an op handed to the builders
    (as the row's op, or as a delete flushed at the end of a run).
-/
namespace AmVerif.DocCodec
open AmVerif AmVerif.Crdt AmVerif.ChangeCodec

/-- the id lies in the counter range of a change row of its actor: from one past the greatest
    `max_op` of the row's dependencies (`estStart`) to the row's `max_op` -/
def InChange (changes : List ChangeMeta) (id : IdI) : Prop :=
  ∃ c ∈ changes, c.actor = id.actor ∧ estStart changes c ≤ id.ctr ∧ id.ctr ≤ c.maxOp

/-- what `builders_index` looks at in a builder -/
def Builder.range (b : Builder) : Nat × Nat × Nat := (b.actor, b.start, b.maxOp)

def Covers (p : Nat × Nat × Nat) (id : IdI) : Prop := p.1 = id.actor ∧ p.2.1 ≤ id.ctr ∧ id.ctr ≤ p.2.2

theorem builderCmp_one {b : Builder} {id : IdI} (h : builderCmp b id = 1) : Covers b.range id := by
  unfold builderCmp at h
  unfold Covers Builder.range
  split at h
  · cases h
  · split at h
    · cases h
    · split at h
      · cases h
      · split at h
        · cases h
        · exact ⟨by simp only; omega, by simp only; omega, by simp only; omega⟩

theorem builderIdx_some {bs : List Builder} {id : IdI} {i : Nat} (h : builderIdx bs id = some i) :
    ∃ b, bs[i]? = some b ∧ Covers b.range id := by
  unfold builderIdx at h
  split at h
  · cases h
  · simp only [] at h
    split at h
    · rename_i b hb
      split at h
      · rename_i hc
        cases h
        exact ⟨b, hb, builderCmp_one hc⟩
      · cases h
    · cases h

theorem Builder.add_range {b b' : Builder} {op : RecOp} (h : b.add op = .ok b') : b'.range = b.range := by
  unfold Builder.add at h
  simp only [] at h
  split at h
  · split at h
    · cases h; rfl
    · cases h
    · cases h
  · split at h
    · cases h; rfl
    · cases h; rfl

theorem map_set_same {α β : Type} (f : α → β) (l : List α) (i : Nat) (a b : α) (hi : l[i]? = some a)
    (hf : f b = f a) : (l.set i b).map f = l.map f := by
  induction l generalizing i with
  | nil => rfl
  | cons x xs ih =>
    cases i with
    | zero =>
      simp only [List.getElem?_cons_zero, Option.some.injEq] at hi
      subst hi
      simp only [List.set_cons_zero, List.map_cons, hf]
    | succ i =>
      simp only [List.getElem?_cons_succ] at hi
      simp only [List.set_cons_succ, List.map_cons, ih i hi]

/-- one `add`: the ranges stay, the counter never decreases, and it stays only if a builder covers the op -/
theorem placeOp_ok {st st' : List Builder × Nat} {op : RecOp} (h : placeOp st op = .ok st') :
    st'.1.map Builder.range = st.1.map Builder.range ∧ st.2 ≤ st'.2 ∧
      (st'.2 = st.2 → ∃ p ∈ st.1.map Builder.range, Covers p op.id) := by
  unfold placeOp at h
  split at h
  · cases h
    exact ⟨rfl, Nat.le_succ _, fun hh => by simp only at hh; omega⟩
  · rename_i i hi
    obtain ⟨b, hb, hc⟩ := builderIdx_some hi
    rw [hb] at h
    simp only [] at h
    split at h
    · rename_i b' hb'
      cases h
      refine ⟨map_set_same _ _ _ _ _ hb (Builder.add_range hb'), Nat.le_refl _, fun _ => ?_⟩
      exact ⟨b.range, List.mem_map.2 ⟨b, List.mem_of_getElem? hb, rfl⟩, hc⟩
    · cases h
    · cases h

theorem placeAll_ok {ops : List RecOp} {st st' : List Builder × Nat} (h : placeAll ops st = .ok st') :
    st'.1.map Builder.range = st.1.map Builder.range ∧ st.2 ≤ st'.2 ∧
      (st'.2 = st.2 → ∀ op ∈ ops, ∃ p ∈ st.1.map Builder.range, Covers p op.id) := by
  induction ops generalizing st with
  | nil =>
    simp only [placeAll, Outcome.ok.injEq] at h
    subst h
    exact ⟨rfl, Nat.le_refl _, fun _ op hop => by cases hop⟩
  | cons op rest ih =>
    unfold placeAll at h
    cases hp : placeOp st op with
    | err e => rw [hp] at h; cases h
    | panic p => rw [hp] at h; cases h
    | ok st1 =>
      rw [hp] at h
      simp only [] at h
      obtain ⟨h1, h2, h3⟩ := placeOp_ok hp
      obtain ⟨g1, g2, g3⟩ := ih h
      refine ⟨g1.trans h1, Nat.le_trans h2 g2, fun he o ho => ?_⟩
      have e1 : st1.2 = st.2 := by omega
      have e2 : st'.2 = st1.2 := by omega
      cases ho with
      | head => exact h3 e1
      | tail _ ho' =>
        obtain ⟨p, hp', hc⟩ := g3 e2 o ho'
        exact ⟨p, h1 ▸ hp', hc⟩

/-! ### the builders of `mkBuilders` are the change rows -/

theorem mem_insertBuilder {b x : Builder} {l : List Builder} (h : x ∈ insertBuilder b l) : x = b ∨ x ∈ l := by
  induction l with
  | nil => simp only [insertBuilder, List.mem_singleton] at h; exact Or.inl h
  | cons y ys ih =>
    unfold insertBuilder at h
    split at h
    · cases h with
      | head => exact Or.inl rfl
      | tail _ h' => exact Or.inr h'
    · cases h with
      | head => exact Or.inr (List.mem_cons_self ..)
      | tail _ h' =>
        rcases ih h' with h'' | h''
        · exact Or.inl h''
        · exact Or.inr (List.mem_cons_of_mem _ h'')

theorem mem_mkBuilders_aux (changes : List ChangeMeta) (l : List (Nat × ChangeMeta)) (b : Builder)
    (h : b ∈ l.foldr (fun (p : Nat × ChangeMeta) acc =>
      insertBuilder ⟨p.1, p.2.actor, p.2.seq, estStart changes p.2, p.2.maxOp,
        if p.2.maxOp + 1 - estStart changes p.2 > PROG_THRESHOLD then .prog 0 [] []
        else .vec (List.replicate (p.2.maxOp + 1 - estStart changes p.2) none)⟩ acc) []) :
    ∃ p ∈ l, b.range = (p.2.actor, estStart changes p.2, p.2.maxOp) := by
  induction l with
  | nil => cases h
  | cons p rest ih =>
    simp only [List.foldr_cons] at h
    rcases mem_insertBuilder h with h' | h'
    · exact ⟨p, List.mem_cons_self .., by rw [h']; rfl⟩
    · obtain ⟨q, hq, hr⟩ := ih h'
      exact ⟨q, List.mem_cons_of_mem _ hq, hr⟩

theorem mem_mkBuilders {changes : List ChangeMeta} {b : Builder} (h : b ∈ mkBuilders changes) :
    ∃ c ∈ changes, b.range = (c.actor, estStart changes c, c.maxOp) := by
  obtain ⟨p, hp, hr⟩ := mem_mkBuilders_aux changes _ b h
  exact ⟨p.2, (List.of_mem_zip hp).2, hr⟩

theorem covers_mkBuilders {changes : List ChangeMeta} {id : IdI}
    (h : ∃ p ∈ (mkBuilders changes).map Builder.range, Covers p id) : InChange changes id := by
  obtain ⟨p, hp, hc⟩ := h
  obtain ⟨b, hb, rfl⟩ := List.mem_map.1 hp
  obtain ⟨c, hc', hr⟩ := mem_mkBuilders hb
  rw [hr] at hc
  exact ⟨c, hc', hc.1, hc.2.1, hc.2.2⟩

/-! ### what the rows hand to the builders -/

theorem mem_keys_pushPred (sid id k : IdI) (l : List (IdI × List IdI)) :
    k ∈ (pushPred sid id l).map (·.1) ↔ k = sid ∨ k ∈ l.map (·.1) := by
  induction l with
  | nil => simp [pushPred]
  | cons x xs ih =>
    unfold pushPred
    split
    · rename_i hx
      simp only [List.map_cons, List.mem_cons]
      constructor
      · intro h; rcases h with h | h
        · exact Or.inr (Or.inl h)
        · exact Or.inr (Or.inr h)
      · intro h; rcases h with h | h | h
        · exact Or.inl (h.trans hx.symm)
        · exact Or.inl h
        · exact Or.inr h
    · simp only [List.map_cons, List.mem_cons, ih]
      constructor
      · intro h; rcases h with h | h | h
        · exact Or.inr (Or.inl h)
        · exact Or.inl h
        · exact Or.inr (Or.inr h)
      · intro h; rcases h with h | h | h
        · exact Or.inr (Or.inl h)
        · exact Or.inl h
        · exact Or.inr (Or.inr h)

theorem mem_keys_pushAll (succ : List IdI) (id k : IdI) (l : List (IdI × List IdI)) :
    k ∈ (succ.foldl (fun acc sid => pushPred sid id acc) l).map (·.1) ↔ k ∈ succ ∨ k ∈ l.map (·.1) := by
  induction succ generalizing l with
  | nil => simp
  | cons s rest ih =>
    simp only [List.foldl_cons, ih, mem_keys_pushPred, List.mem_cons]
    constructor
    · intro h; rcases h with h | h | h
      · exact Or.inl (Or.inr h)
      · exact Or.inl (Or.inl h)
      · exact Or.inr h
    · intro h; rcases h with (h | h) | h
      · exact Or.inr (Or.inl h)
      · exact Or.inl h
      · exact Or.inr (Or.inr h)

/-- the state keeps a run open once a row was read -/
theorem emitRow_last (s : EState) (r : OpRow) : (emitRow s r).2.last.isSome = true := by
  unfold emitRow
  simp only []
  split
  · rfl
  · rename_i h
    simp only [ne_eq, Decidable.not_not] at h
    rw [h]; rfl

theorem emitRow_id (s : EState) (r : OpRow) : ∃ op ∈ (emitRow s r).1, op.id = r.id := by
  unfold emitRow
  exact ⟨_, List.mem_append_right _ (List.mem_singleton.2 rfl), rfl⟩

/-- a successor id waiting in the state or named by the row is handed over as an op (the row's own,
    or a delete of the finished run) or still waits afterwards -/
theorem emitRow_succ (s : EState) (r : OpRow) (hs : s.last = none → s.preds = []) (k : IdI)
    (hk : k ∈ s.preds.map (·.1) ∨ k ∈ r.succ) :
    (∃ op ∈ (emitRow s r).1, op.id = k) ∨ k ∈ (emitRow s r).2.preds.map (·.1) := by
  rcases hk with hk | hk
  · by_cases hid : k = r.id
    · exact Or.inl (hid ▸ emitRow_id s r)
    · unfold emitRow
      simp only []
      by_cases hfl : s.last ≠ some (r.obj, r.regKey)
      · cases hl : s.last with
        | none => rw [hs hl] at hk; cases hk
        | some ok =>
          left
          obtain ⟨x, hx, rfl⟩ := List.mem_map.1 hk
          refine ⟨⟨x.1, ok.1, ok.2, false, 3, .null, x.2, false, none⟩, ?_, rfl⟩
          apply List.mem_append_left
          rw [if_pos (hl ▸ hfl)]
          unfold flushOps
          rw [hl]
          exact List.mem_map.2 ⟨x, hx, rfl⟩
      · right
        rw [mem_keys_pushAll]
        right
        have : ¬ (s.last ≠ some (r.obj, r.regKey) ∧ s.last.isSome = true) := fun h => hfl h.1
        rw [if_neg this]
        obtain ⟨x, hx, rfl⟩ := List.mem_map.1 hk
        exact List.mem_map.2 ⟨x, List.mem_filter.2 ⟨hx, by simpa using hid⟩, rfl⟩
  · right
    unfold emitRow
    simp only []
    rw [mem_keys_pushAll]
    exact Or.inl hk

theorem emitRows_inv (rows : List OpRow) (s : EState) (hs : s.last = none → s.preds = []) :
    (emitRows rows s).2.last = none → (emitRows rows s).2.preds = [] := by
  induction rows generalizing s with
  | nil => exact hs
  | cons r rest ih =>
    simp only [emitRows]
    exact ih _ (fun h => by have := emitRow_last s r; rw [h] at this; cases this)

theorem emitRows_id (rows : List OpRow) (s : EState) : ∀ r ∈ rows, ∃ op ∈ (emitRows rows s).1, op.id = r.id := by
  induction rows generalizing s with
  | nil => intro r hr; cases hr
  | cons r0 rest ih =>
    intro r hr
    simp only [emitRows]
    cases hr with
    | head =>
      obtain ⟨op, ho, hid⟩ := emitRow_id s r0
      exact ⟨op, List.mem_append_left _ ho, hid⟩
    | tail _ hr' =>
      obtain ⟨op, ho, hid⟩ := ih (emitRow s r0).2 r hr'
      exact ⟨op, List.mem_append_right _ ho, hid⟩

theorem emitRows_succ (rows : List OpRow) (s : EState) (hs : s.last = none → s.preds = []) (k : IdI)
    (hk : k ∈ s.preds.map (·.1) ∨ ∃ r ∈ rows, k ∈ r.succ) :
    (∃ op ∈ (emitRows rows s).1, op.id = k) ∨ k ∈ (emitRows rows s).2.preds.map (·.1) := by
  induction rows generalizing s with
  | nil =>
    rcases hk with hk | ⟨r, hr, _⟩
    · exact Or.inr hk
    · cases hr
  | cons r0 rest ih =>
    simp only [emitRows]
    have hs1 : (emitRow s r0).2.last = none → (emitRow s r0).2.preds = [] :=
      fun h => by have := emitRow_last s r0; rw [h] at this; cases this
    have step : (∃ op ∈ (emitRow s r0).1, op.id = k) ∨ k ∈ (emitRow s r0).2.preds.map (·.1) ∨
        ∃ r ∈ rest, k ∈ r.succ := by
      rcases hk with hk | ⟨r, hr, hkr⟩
      · rcases emitRow_succ s r0 hs k (Or.inl hk) with h | h
        · exact Or.inl h
        · exact Or.inr (Or.inl h)
      · cases hr with
        | head =>
          rcases emitRow_succ s r0 hs k (Or.inr hkr) with h | h
          · exact Or.inl h
          · exact Or.inr (Or.inl h)
        | tail _ hr' => exact Or.inr (Or.inr ⟨r, hr', hkr⟩)
    rcases step with ⟨op, ho, hid⟩ | h
    · exact Or.inl ⟨op, List.mem_append_left _ ho, hid⟩
    · rcases ih (emitRow s r0).2 hs1 h with ⟨op, ho, hid⟩ | h'
      · exact Or.inl ⟨op, List.mem_append_right _ ho, hid⟩
      · exact Or.inr h'

/-- every waiting successor id of the final state is flushed as a delete -/
theorem flushOps_keys (s : EState) (hs : s.last = none → s.preds = []) (k : IdI) (hk : k ∈ s.preds.map (·.1)) :
    ∃ op ∈ flushOps s, op.id = k := by
  unfold flushOps
  cases hl : s.last with
  | none => rw [hs hl] at hk; cases hk
  | some ok =>
    obtain ⟨x, hx, rfl⟩ := List.mem_map.1 hk
    exact ⟨_, List.mem_map.2 ⟨x, hx, rfl⟩, rfl⟩

/-- **an accepted reconstruction placed every row and every successor id inside a change row** -/
theorem rebuild_placed {actors heads : List Bytes} {changes : List ChangeMeta} {rows : List OpRow}
    {fail : Option (DErr ⊕ PanicSite)} {built : List DChange}
    (h : rebuild actors heads changes rows fail = .ok built) :
    (∀ r ∈ rows, InChange changes r.id) ∧ (∀ r ∈ rows, ∀ k ∈ r.succ, InChange changes k) := by
  obtain ⟨st1, st2, h1, h2, h0, _⟩ := rebuild_steps h
  obtain ⟨a1, a2, a3⟩ := placeAll_ok h1
  obtain ⟨b1, b2, b3⟩ := placeAll_ok h2
  have e1 : st1.2 = 0 := by omega
  have hA := a3 (by simp only [e1])
  have hB := b3 (by omega)
  rw [a1] at hB
  have hinit : (⟨none, []⟩ : EState).last = none → (⟨none, []⟩ : EState).preds = [] := fun _ => rfl
  refine ⟨fun r hr => ?_, fun r hr k hk => ?_⟩
  · obtain ⟨op, ho, hid⟩ := emitRows_id rows ⟨none, []⟩ r hr
    exact hid ▸ covers_mkBuilders (hA op ho)
  · rcases emitRows_succ rows ⟨none, []⟩ hinit k (Or.inr ⟨r, hr, hk⟩) with ⟨op, ho, hid⟩ | hw
    · exact hid ▸ covers_mkBuilders (hA op ho)
    · obtain ⟨op, ho, hid⟩ := flushOps_keys _ (emitRows_inv rows _ hinit) k hw
      exact hid ▸ covers_mkBuilders (hB op ho)

end AmVerif.DocCodec
