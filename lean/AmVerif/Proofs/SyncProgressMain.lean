import AmVerif.Proofs.SyncProgressPhases
/-
  Progress half of C20, part 7: the round bound.
  From any reachable configuration: one round empties the links, one more makes A's picture of B
  fresh (or the peers hold the same changes), one more makes B's picture of A recent enough; from
  then on every round lets at least one missing change arrive (applied or queued) at a peer that
  lacked it, until both hold the same changes; one more round and both are quiet.
-/
namespace AmVerif.Sync.Prog
open AmVerif AmVerif.Sync

theorem rounds_succ (fp : Hash → Bool) (n : Nat) (c : Cfg) :
    rounds fp (n + 1) c = rounds fp n (round fp c) := rfl

theorem rounds_add (fp : Hash → Bool) : ∀ (n k : Nat) (c : Cfg),
    rounds fp (n + k) c = rounds fp k (rounds fp n c)
  | 0, k, c => by simp [rounds]
  | n + 1, k, c => by
    have : n + 1 + k = (n + k) + 1 := by omega
    rw [this, rounds_succ, rounds_add fp n k (round fp c)]
    rfl

/-- from a configuration in which both pictures are fresh, the measure bounds the rounds -/
theorem main_T (fp : Hash → Bool) (u : List Hash) : ∀ (k : Nat) (c : Cfg), Good c →
    Fresh c → Cover c → Univ u c → miss u c ≤ k →
    ∃ n, n ≤ k + 1 ∧ Quiescent fp (rounds fp n c) := by
  intro k
  induction k with
  | zero =>
    intro c hr hf hc hu hm
    by_cases hs : SameSet c
    · exact ⟨1, by omega, phase_Q fp hr hf.linkAB hf.linkBA hs⟩
    · have := phase_P fp hr hf hc hu hs
      omega
  | succ k ih =>
    intro c hr hf hc hu hm
    by_cases hs : SameSet c
    · exact ⟨1, by omega, phase_Q fp hr hf.linkAB hf.linkBA hs⟩
    · have hlt := phase_P fp hr hf hc hu hs
      have rd := round_docs (fp := fp) hr
      rcases phase_G fp hr hf with h | ⟨h1, h2⟩
      · exact ⟨2, by omega, phase_Q fp (hr.round fp) rd.linkAB rd.linkBA h⟩
      · obtain ⟨n, hn, hq⟩ := ih (round fp c) (hr.round fp) h1 h2 (hu.round (fp := fp) hr) (by omega)
        exact ⟨n + 1, by omega, hq⟩

/-- the round bound relative to a universe of hashes -/
theorem progress_univ (fp : Hash → Bool) {c : Cfg} (hr : Good c) {u : List Hash}
    (hu : Univ u c) : ∃ n, n ≤ miss u c + 4 ∧ Quiescent fp (rounds fp n c) := by
  have rd1 := round_docs (fp := fp) hr
  have hr1 := (hr.round fp)
  have hu1 := hu.round (fp := fp) hr
  have m1 := miss_round_le (fp := fp) hr u
  have rd2 := round_docs (fp := fp) hr1
  have hr2 := (hr1.round fp)
  have hu2 := hu1.round (fp := fp) hr1
  have m2 := miss_round_le (fp := fp) hr1 u
  rcases phase_E fp hr1 rd1.linkAB rd1.linkBA with hs | hf
  · exact ⟨3, by omega, phase_Q fp hr2 rd2.linkAB rd2.linkBA hs⟩
  · have rd3 := round_docs (fp := fp) hr2
    have hr3 := (hr2.round fp)
    have hu3 := hu2.round (fp := fp) hr2
    have m3 := miss_round_le (fp := fp) hr2 u
    rcases phase_G fp hr2 hf with hs | ⟨h1, h2⟩
    · exact ⟨4, by omega, phase_Q fp hr3 rd3.linkAB rd3.linkBA hs⟩
    · obtain ⟨n, hn, hq⟩ := main_T fp u (miss u (round fp (round fp (round fp c)))) _ hr3 h1 h2 hu3
        (Nat.le_refl _)
      refine ⟨3 + n, by omega, ?_⟩
      rw [rounds_add]
      exact hq

/-! ### the explicit bound -/

/- `missing c` (changes one peer has applied that have not arrived — applied or queued — at the
   other) and `bound c = missing c + 4` are defined in `AmVerif.Model.SyncBound`. -/

theorem filter_self_nil (d : Doc) : d.hashes.filter (fun h => !hasB d h) = [] := by
  apply List.filter_eq_nil_iff.mpr
  intro h hh
  have : hasB d h = true := hasB_iff.mpr (Or.inl hh)
  simp [this]

theorem miss_eq_missing (c : Cfg) : miss (c.docA.hashes ++ c.docB.hashes) c = missing c := by
  unfold miss missing missingDocs lacking
  rw [List.filter_append, List.filter_append, filter_self_nil, filter_self_nil]
  simp

theorem progress_good (fp : Hash → Bool) {c : Cfg} (hr : Good c) :
    ∃ n, n ≤ bound c ∧ Quiescent fp (rounds fp n c) := by
  have hu : Univ (c.docA.hashes ++ c.docB.hashes) c := by
    intro h hh; exact List.mem_append.mpr hh
  obtain ⟨n, hn, hq⟩ := progress_univ fp hr hu
  rw [miss_eq_missing] at hn
  exact ⟨n, hn, hq⟩

theorem progress (fp : Hash → Bool) {c : Cfg} (hr : Reachable fp c) :
    ∃ n, n ≤ bound c ∧ Quiescent fp (rounds fp n c) :=
  progress_good fp (Good.of_reachable fp hr)

theorem missing_le (c : Cfg) : missing c ≤ c.docA.applied.length + c.docB.applied.length := by
  unfold missing missingDocs
  have h1 := List.length_filter_le (fun h => !hasB c.docA h) c.docB.hashes
  have h2 := List.length_filter_le (fun h => !hasB c.docB h) c.docA.hashes
  simp only [Doc.hashes, List.length_map] at h1 h2
  simp only [Doc.hashes]
  omega

/-! ### the bound in terms of the number of distinct changes -/

theorem length_le_of_nodup_subset : ∀ (l l' : List Hash), l.Nodup → (∀ x ∈ l, x ∈ l') →
    l.length ≤ l'.length
  | [], _, _, _ => by simp
  | a :: t, l', hnd, hsub => by
    have hnd' := List.nodup_cons.mp hnd
    have ha : a ∈ l' := hsub a (by simp)
    have ih := length_le_of_nodup_subset t (l'.erase a) hnd'.2 (by
      intro x hx
      have hxa : x ≠ a := fun e => hnd'.1 (e ▸ hx)
      exact (List.mem_erase_of_ne hxa).mpr (hsub x (List.mem_cons_of_mem _ hx)))
    have := List.length_erase_of_mem ha
    have hpos : 0 < l'.length := List.length_pos_of_mem ha
    simp only [List.length_cons]
    omega

theorem topo_nodup : ∀ (l : List Change), Topo l → (l.map (·.hash)).Nodup
  | [], _ => by simp
  | c :: rest, ht => by
    simp only [List.map_cons]
    exact List.nodup_cons.mpr ⟨ht.2.1, topo_nodup rest ht.2.2⟩

theorem missing_le_distinct {c : Cfg} (inv : Inv c) :
    missing c ≤ 2 * (c.docA.hashes ++ c.docB.hashes).eraseDups.length := by
  have hA : c.docA.hashes.length ≤ (c.docA.hashes ++ c.docB.hashes).eraseDups.length :=
    length_le_of_nodup_subset _ _ (topo_nodup _ inv.a.wf.topo)
      (fun x hx => List.mem_eraseDups.mpr (List.mem_append_left _ hx))
  have hB : c.docB.hashes.length ≤ (c.docA.hashes ++ c.docB.hashes).eraseDups.length :=
    length_le_of_nodup_subset _ _ (topo_nodup _ inv.b.wf.topo)
      (fun x hx => List.mem_eraseDups.mpr (List.mem_append_right _ hx))
  have := missing_le c
  simp only [Doc.hashes, List.length_map] at hA hB ⊢
  omega

end AmVerif.Sync.Prog
