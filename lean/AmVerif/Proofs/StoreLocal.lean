import AmVerif.Model.StoreLocal
/-
  Rollback is exact: undoing the ops of a transaction with their undo records gives back the store the
  transaction started from — rows, successor lists and the three index columns.  No hypothesis on the
  store or on the ops is needed: every field `add_succ_with_undo` changes is recorded, every recorded
  field is restored, positions are those of the rows that were changed.
-/
namespace AmVerif.Crdt
open AmVerif

/-! ### the row put in by `splice` comes out again -/

theorem eraseIdx_scanIns (r : Row) (stop : Row → Bool) (s : Store) :
    (scanIns r stop s).1.eraseIdx (scanIns r stop s).2 = s := by
  induction s with
  | nil => rfl
  | cons x xs ih =>
    simp only [scanIns]
    split
    · rfl
    · simp only [List.eraseIdx_cons_succ, ih]

theorem eraseIdx_seekScan (r : Row) (leave found stop : Row → Bool) (s : Store) :
    (seekScan r leave found stop s).1.eraseIdx (seekScan r leave found stop s).2 = s := by
  induction s with
  | nil => rfl
  | cons x xs ih =>
    simp only [seekScan]
    split
    · rfl
    · split
      · simp only [List.eraseIdx_cons_succ, eraseIdx_scanIns]
      · simp only [List.eraseIdx_cons_succ, ih]

theorem eraseIdx_localInObj (r : Row) (s : Store) :
    (localInObj r s).1.eraseIdx (localInObj r s).2 = s := by
  unfold localInObj
  cases r.op.key with
  | map k => exact eraseIdx_scanIns _ _ _
  | head =>
    dsimp only
    split
    · rfl
    · exact eraseIdx_scanIns _ _ _
  | elem e => exact eraseIdx_seekScan _ _ _ _ _

theorem eraseIdx_localPlaceRow (r : Row) (s : Store) :
    (localPlaceRow r s).1.eraseIdx (localPlaceRow r s).2 = s := by
  induction s with
  | nil => rfl
  | cons x xs ih =>
    simp only [localPlaceRow]
    split
    · simp only [List.eraseIdx_cons_succ, ih]
    · exact eraseIdx_localInObj r (x :: xs)

/-! ### a successor entry put in by `add_succ` comes out again -/

theorem eraseIdx_insertSucc (id : OpId) (inc : Option Int) (l : List (OpId × Option Int)) :
    (insertSucc id inc l).eraseIdx (succIdx id l) = l := by
  induction l with
  | nil => rfl
  | cons x xs ih =>
    simp only [insertSucc, succIdx]
    split
    · rfl
    · simp only [List.eraseIdx_cons_succ, ih]

/-- **every field `add_succ_with_undo` changes on a row is restored from its record** -/
theorem undoSuccRow_addSuccRow (w : Op → Nat) (N : Op) (pos : Nat) (st : AddSt) (x : Row) :
    undoSuccRow (addSuccRow w N pos st x).2.2 (addSuccRow w N pos st x).1 = x := by
  obtain ⟨op, succ, vis, top, width⟩ := x
  unfold addSuccRow undoSuccRow
  dsimp only
  split
  · simp [eraseIdx_insertSucc]
  · split
    · simp [eraseIdx_insertSucc]
    · simp [eraseIdx_insertSucc]

theorem addSuccRow_pos (w : Op → Nat) (N : Op) (pos : Nat) (st : AddSt) (x : Row) :
    (addSuccRow w N pos st x).2.2.pos = pos := by
  unfold addSuccRow
  dsimp only
  split
  · rfl
  · split <;> rfl

theorem modifyNth_append {α : Type} (f : α → α) (pre : List α) (x : α) (xs : List α) :
    modifyNth f pre.length (pre ++ x :: xs) = pre ++ f x :: xs := by
  induction pre with
  | nil => rfl
  | cons p pre ih => simp only [List.length_cons, List.cons_append, modifyNth, ih]

/-- `undo_succ` after `add_succ_with_undo` is the identity (the rows sit behind any prefix `pre`) -/
theorem undoSuccs_addSuccRev (w : Op → Nat) (N : Op) : ∀ (xs pre : Store),
    undoSuccs (addSuccRev w N pre.length xs).2.2 (pre ++ (addSuccRev w N pre.length xs).1) = pre ++ xs
  | [], pre => by simp [addSuccRev, undoSuccs]
  | x :: xs, pre => by
    have ih := undoSuccs_addSuccRev w N xs (pre ++ [x])
    simp only [List.length_append, List.length_singleton, List.append_assoc, List.singleton_append] at ih
    simp only [addSuccRev]
    split
    · simp only [undoSuccs, List.reverse_append, List.reverse_singleton, List.singleton_append,
        List.foldl_cons]
      have hpos := addSuccRow_pos w N pre.length (addSuccRev w N (pre.length + 1) xs).2.1 x
      rw [hpos, modifyNth_append, undoSuccRow_addSuccRow]
      exact ih
    · exact ih

theorem undoSuccs_addSuccRev0 (w : Op → Nat) (N : Op) (s : Store) :
    undoSuccs (addSuccRev w N 0 s).2.2 (addSuccRev w N 0 s).1 = s := by
  have := undoSuccs_addSuccRev w N s []
  simpa using this

/-! ### one op, a whole transaction -/

/-- `undo_op` after `insert_local_op` is the identity -/
theorem undoOp_insertLocal (w : Op → Nat) (s : Store) (N : Op) :
    undoOp (insertLocal w s N).2 (insertLocal w s N).1 = s := by
  unfold insertLocal undoOp
  split
  · dsimp only
    exact undoSuccs_addSuccRev0 w N s
  · dsimp only
    rw [undoSuccs_addSuccRev0]
    exact eraseIdx_localPlaceRow _ s

/-- **`rollback` restores the exact store**: rows, successor lists and index columns -/
theorem undoAll_insertLocalAll (w : Op → Nat) : ∀ (ops : List Op) (s : Store),
    undoAll (insertLocalAll w s ops).2 (insertLocalAll w s ops).1 = s
  | [], s => rfl
  | N :: Ns, s => by
    have ih := undoAll_insertLocalAll w Ns (insertLocal w s N).1
    simp only [insertLocalAll, undoAll, List.reverse_cons, List.foldl_append, List.foldl_cons,
      List.foldl_nil] at ih ⊢
    rw [ih]
    exact undoOp_insertLocal w s N

end AmVerif.Crdt
