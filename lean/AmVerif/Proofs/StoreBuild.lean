import AmVerif.Proofs.StoreRefine
/-
  Stores built by `insertRemote` in a causally admissible order (`Admissible`), and the canonical
  order as a function of the op SET (`canon_perm`): two admissible orders of the same ops give the
  same rows in the same order with the same successor lists.
-/
namespace AmVerif.Crdt
open AmVerif

/-- an application order in which every op arrives after everything it refers to -/
inductive Admissible : List Op → Prop
  | nil : Admissible []
  | snoc {ops : List Op} {N : Op} : Admissible ops → OpsWF (ops ++ [N]) → Fresh ops N → Admissible (ops ++ [N])

theorem buildStore_snoc (w : Op → Nat) (ops : List Op) (N : Op) :
    buildStore w (ops ++ [N]) = insertRemote w (buildStore w ops) N := by
  unfold buildStore
  rw [List.foldl_append]
  rfl

/-- **every store built in an admissible order satisfies the invariant** -/
theorem buildStore_inv (w : Op → Nat) {ops : List Op} (h : Admissible ops) :
    StoreInv ops (buildStore w ops) := by
  induction h with
  | nil => exact storeInv_nil
  | snoc _ hw hf ih =>
    rw [buildStore_snoc]
    exact insertRemote_inv hw hf ih

theorem Admissible.wf {ops : List Op} (h : Admissible ops) : OpsWF ops := by
  cases h with
  | nil =>
    exact ⟨List.Pairwise.nil, fun _ h => (by cases h), fun _ h => (by cases h), fun _ h => (by cases h),
      fun _ h => (by cases h), fun _ h => (by cases h)⟩
  | snoc _ hw _ => exact hw

/-! ## the canonical order depends only on the op set -/

theorem stored_perm {ops₁ ops₂ : List Op} (h : ops₁.Perm ops₂) : (stored ops₁).Perm (stored ops₂) :=
  h.filter _

theorem canon_perm {ops₁ ops₂ : List Op} (h : ops₁.Perm ops₂) (hd : DistinctIds ops₁) :
    canon ops₁ = canon ops₂ := by
  unfold canon
  have hobjs : objsOf ops₁ = objsOf ops₂ := by
    apply objsOf_eq_of_mem_iff
    intro obj
    simp only [mem_objsOf, h.mem_iff]
  rw [hobjs]
  apply flatMap_congr'
  intro obj _
  unfold seg mapSeg seqSeg
  rw [rgaOrder_perm h hd]
  congr 1
  · apply sortKI_eq_of_perm (h.filter _) (hd.filter _)
    intro o ho
    have := (List.mem_filter.mp ho).2
    simp only [Bool.and_eq_true] at this
    exact this.2
  · apply flatMap_congr'
    intro e _
    unfold block updatesOf
    rw [sortById_filter_perm h hd]

theorem succOf_perm {ops₁ ops₂ : List Op} (h : ops₁.Perm ops₂) (hd : DistinctIds ops₁) (o : Op) :
    succOf ops₁ o = succOf ops₂ o := by
  unfold succOf
  rw [sortById_filter_perm h hd]

/-- the part of a row that does not belong to the index columns -/
def Row.core (r : Row) : Op × List (OpId × Option Int) := (r.op, r.succ)

theorem storeInv_core {ops : List Op} {s : Store} (hi : StoreInv ops s) :
    s.map Row.core = (canon ops).map (fun o => (o, succOf ops o)) := by
  rw [← hi.order, List.map_map]
  apply List.map_congr_left
  intro r hr
  simp only [Row.core, Function.comp, hi.succ r hr]

/-- **the code's order is canonical**: two stores holding the same op set hold the same rows, in
    the same order, with the same successor lists -/
theorem store_core_unique {ops₁ ops₂ : List Op} {s₁ s₂ : Store} (h : ops₁.Perm ops₂)
    (hd : DistinctIds ops₁) (h₁ : StoreInv ops₁ s₁) (h₂ : StoreInv ops₂ s₂) :
    s₁.map Row.core = s₂.map Row.core := by
  rw [storeInv_core h₁, storeInv_core h₂, canon_perm h hd]
  apply List.map_congr_left
  intro o _
  rw [succOf_perm h hd]

/-! ## Bool checkers (for the concrete examples) -/

theorem strictIdsB_sound : ∀ {ops : List Op}, strictIdsB ops = true → StrictIds ops
  | [], _ => List.Pairwise.nil
  | x :: xs, h => by
    simp only [strictIdsB, Bool.and_eq_true, List.all_eq_true, Bool.not_eq_eq_eq_not, Bool.not_true,
      beq_eq_false_iff_ne, ne_eq] at h
    exact List.Pairwise.cons h.1 (strictIdsB_sound h.2)

theorem refsSmallerB_sound {ops : List Op} (h : refsSmallerB ops = true) : RefsSmaller ops := by
  unfold refsSmallerB at h
  simp only [List.all_eq_true, Bool.or_eq_true, Bool.not_eq_eq_eq_not, Bool.not_true] at h
  intro o ho hi
  rcases h o ho with h | h
  · rw [hi] at h; cases h
  · exact h

theorem wfB_sound {ops : List Op} (h : wfB ops = true) : OpsWF ops := by
  unfold wfB at h
  simp only [Bool.and_eq_true, List.all_eq_true, Bool.or_eq_true,
    Bool.not_eq_eq_eq_not, Bool.not_true, beq_iff_eq, beq_eq_false_iff_ne, ne_eq] at h
  obtain ⟨⟨⟨⟨⟨h1, h2⟩, h3⟩, h4⟩, h5⟩, h6⟩ := h
  refine ⟨strictIdsB_sound h1, refsSmallerB_sound h2, ?_, ?_, ?_, ?_⟩
  · intro x hx y hy ho
    rcases h3 x hx y hy with h | h
    · exact absurd ho h
    · exact h
  · intro x hx hi
    rcases h4 x hx with h | h
    · rw [hi] at h; cases h
    · exact h
  · intro x hx hi
    rcases h5 x hx with h | h
    · rw [hi] at h; cases h
    · exact h
  · intro x hx hi e he
    rcases h6 x hx with h | h
    · rw [hi] at h; cases h
    · rw [he] at h; exact h

theorem freshB_sound {ops : List Op} {N : Op} (h : freshB ops N = true) : Fresh ops N := by
  unfold freshB at h
  simp only [Bool.and_eq_true, List.all_eq_true, Bool.not_eq_eq_eq_not, Bool.not_true,
    beq_eq_false_iff_ne, ne_eq] at h
  obtain ⟨⟨h1, h2⟩, h3⟩ := h
  refine ⟨?_, h2, ?_⟩
  · intro x hx hm
    have := h1 x hx
    rw [List.contains_iff_mem.mpr hm] at this; cases this
  · intro e he
    rw [he] at h3
    simp only [List.any_eq_true, beq_iff_eq] at h3
    exact h3

theorem admissibleB_snoc {ops : List Op} {N : Op} (h : admissibleB (ops ++ [N]) = true) :
    admissibleB ops = true ∧ wfB (ops ++ [N]) = true ∧ freshB ops N = true := by
  unfold admissibleB at h
  simp only [List.length_append, List.length_singleton, List.all_eq_true, List.mem_range,
    Bool.and_eq_true] at h
  have hlast := h ops.length (by omega)
  have htake : (ops ++ [N]).take (ops.length + 1) = ops ++ [N] := by
    apply List.take_of_length_le; simp
  have htake0 : (ops ++ [N]).take ops.length = ops := by
    rw [List.take_append_of_le_length (Nat.le_refl _), List.take_length]
  have hget : (ops ++ [N])[ops.length]? = some N := by simp
  rw [htake, htake0, hget] at hlast
  refine ⟨?_, hlast.1, hlast.2⟩
  unfold admissibleB
  simp only [List.all_eq_true, List.mem_range, Bool.and_eq_true]
  intro i hi
  have := h i (by omega)
  rw [List.take_append_of_le_length (by omega), List.take_append_of_le_length (by omega),
    List.getElem?_append_left hi] at this
  exact this

theorem admissibleB_sound_aux : ∀ (n : Nat) (ops : List Op), ops.length = n →
    admissibleB ops = true → Admissible ops
  | 0, ops, hl, _ => by
    have : ops = [] := List.eq_nil_of_length_eq_zero hl
    subst this; exact .nil
  | n + 1, ops, hl, h => by
    rcases List.eq_nil_or_concat ops with rfl | ⟨L, N, rfl⟩
    · exact .nil
    · rw [List.concat_eq_append] at h hl ⊢
      obtain ⟨h1, h2, h3⟩ := admissibleB_snoc h
      have hL : L.length = n := by simpa using hl
      exact .snoc (admissibleB_sound_aux n L hL h1) (wfB_sound h2) (freshB_sound h3)

theorem admissibleB_sound {ops : List Op} (h : admissibleB ops = true) : Admissible ops :=
  admissibleB_sound_aux ops.length ops rfl h

end AmVerif.Crdt
