import AmVerif.Model.Cursor
import AmVerif.Proofs.Spec
/-
  Helper lemmas for C25: the mark state machine's cache invariant, and the agreement of the reads
  that are defined over the same item walk.
-/
namespace AmVerif.Crdt
open AmVerif

/-! ### association-list lemmas -/

theorem MarkSet.lookup_insert_self (k : Bytes) (v : Scalar) (m : MarkSet) : (MarkSet.insert k v m).lookup k = some v := by
  induction m with
  | nil => simp [MarkSet.insert, MarkSet.lookup]
  | cons p rest ih =>
    obtain ⟨k', v'⟩ := p
    unfold MarkSet.insert
    by_cases h1 : (k == k') = true
    · simp [h1, MarkSet.lookup]
    · by_cases h2 : bytesLt k k' = true
      · simp [h1, h2, MarkSet.lookup]
      · have : (k' == k) = false := by
          simp only [beq_iff_eq] at h1 ⊢
          simp only [beq_eq_false_iff_ne, ne_eq]
          exact fun h => h1 h.symm
        simp [h1, h2, MarkSet.lookup, this, ih]

theorem MarkSet.lookup_insert_ne {k n : Bytes} (h : k ≠ n) (v : Scalar) (m : MarkSet) :
    (MarkSet.insert k v m).lookup n = m.lookup n := by
  have hkn : (k == n) = false := by simp [h]
  induction m with
  | nil => simp [MarkSet.insert, MarkSet.lookup, hkn]
  | cons p rest ih =>
    obtain ⟨k', v'⟩ := p
    unfold MarkSet.insert
    by_cases h1 : (k == k') = true
    · have : k = k' := by simpa using h1
      subst this
      simp [MarkSet.lookup, hkn]
    · by_cases h2 : bytesLt k k' = true
      · simp [h1, h2, MarkSet.lookup, hkn]
      · have e1 : (k == k') = false := by simpa using h1
        have e2 : bytesLt k k' = false := by simpa using h2
        rw [e1, e2]
        simp only [Bool.false_eq_true, if_false, MarkSet.lookup, ih]

theorem MarkSet.lookup_remove_self (k : Bytes) (m : MarkSet) : (MarkSet.remove k m).lookup k = none := by
  induction m with
  | nil => simp [MarkSet.remove, MarkSet.lookup]
  | cons p rest ih =>
    obtain ⟨k', v'⟩ := p
    unfold MarkSet.remove at ih ⊢
    by_cases h : k' = k
    · subst h; simpa [List.filter_cons] using ih
    · have hb : (k' == k) = false := by simp [h]
      simp [List.filter_cons, h, MarkSet.lookup, hb]
      exact ih

theorem MarkSet.lookup_remove_ne {k n : Bytes} (h : k ≠ n) (m : MarkSet) :
    (MarkSet.remove k m).lookup n = m.lookup n := by
  induction m with
  | nil => simp [MarkSet.remove, MarkSet.lookup]
  | cons p rest ih =>
    obtain ⟨k', v'⟩ := p
    unfold MarkSet.remove at ih ⊢
    by_cases h' : k' = k
    · subst h'
      have hb : (k' == n) = false := by simp [h]
      simpa [List.filter_cons, MarkSet.lookup, hb] using ih
    · simp only [List.filter_cons, bne_iff_ne, ne_eq, h', not_false_eq_true, decide_true, if_true, MarkSet.lookup]
      rw [ih]

/-! ### the cache invariant -/

/-- the last active mark with the given name, in `state` order -/
def lastNamed (state : List (OpId × MarkData)) (n : Bytes) : Option (OpId × MarkData) :=
  state.reverse.find? (fun p => p.2.name == n)

theorem lastNamed_append (a b : List (OpId × MarkData)) (n : Bytes) :
    lastNamed (a ++ b) n = (lastNamed b n).or (lastNamed a n) := by
  simp [lastNamed, List.reverse_append, List.find?_append]

theorem lastNamed_cons_none {x : OpId × MarkData} {b : List (OpId × MarkData)} {n : Bytes}
    (h : lastNamed b n = none) : lastNamed (x :: b) n = if x.2.name == n then some x else none := by
  have : x :: b = [x] ++ b := rfl
  rw [this, lastNamed_append, h]
  simp [lastNamed]

theorem lastNamed_cons_some {x y : OpId × MarkData} {b : List (OpId × MarkData)} {n : Bytes}
    (h : lastNamed b n = some y) : lastNamed (x :: b) n = some y := by
  have : x :: b = [x] ++ b := rfl
  rw [this, lastNamed_append, h]
  rfl

theorem markBelow_eq (state : List (OpId × MarkData)) (i : Nat) (n : Bytes) :
    markBelow state i n = (lastNamed (state.take i) n).map (·.2) := rfl

theorem markAbove_isNone (state : List (OpId × MarkData)) (i : Nat) (n : Bytes) :
    (markAbove state i n).isNone = (lastNamed (state.drop i) n).isNone := by
  unfold markAbove lastNamed
  cases h1 : (state.drop i).find? (fun p => p.2.name == n) with
  | none =>
    have : (state.drop i).reverse.find? (fun p => p.2.name == n) = none := by
      rw [List.find?_eq_none] at h1 ⊢
      intro x hx
      exact h1 x (List.mem_reverse.mp hx)
    simp [this]
  | some x =>
    have hx := List.find?_some h1
    have hm := List.mem_of_find?_eq_some h1
    cases h2 : (state.drop i).reverse.find? (fun p => p.2.name == n) with
    | none =>
      rw [List.find?_eq_none] at h2
      exact absurd hx (h2 x (List.mem_reverse.mpr hm))
    | some y => simp

theorem lastNamed_name {state : List (OpId × MarkData)} {n : Bytes} {x : OpId × MarkData}
    (h : lastNamed state n = some x) : x.2.name = n := by
  have := List.find?_some h
  simpa using this

/-- the cached value of every name is the value of the last active mark of that name -/
def Msm.Inv (m : Msm) : Prop :=
  ∀ n, m.current.lookup n = (lastNamed m.state n).map (·.2.value)

theorem Msm.inv_empty : ({} : Msm).Inv := by
  intro n; simp [MarkSet.lookup, lastNamed]

theorem markAbove_isSome (state : List (OpId × MarkData)) (i : Nat) (n : Bytes) :
    (markAbove state i n).isSome = (lastNamed (state.drop i) n).isSome := by
  have := markAbove_isNone state i n
  cases h1 : markAbove state i n <;> cases h2 : lastNamed (state.drop i) n <;> simp_all

theorem beginCache_ne {n : Bytes} (cur : MarkSet) (a : Bool) (b : Option MarkData) (d : MarkData) (h : d.name ≠ n) :
    (beginCache cur a b d).lookup n = cur.lookup n := by
  unfold beginCache
  cases a
  · cases b with
    | none => simpa using MarkSet.lookup_insert_ne h _ _
    | some x =>
      by_cases hv : (x.value != d.value) = true
      · simpa [hv] using MarkSet.lookup_insert_ne h _ _
      · simp [hv]
  · simp

/-- nothing above: the new mark is the top of its name -/
theorem beginCache_self (cur : MarkSet) (b : Option MarkData) (d : MarkData)
    (hb : cur.lookup d.name = b.map (·.value)) :
    (beginCache cur false b d).lookup d.name = some d.value := by
  unfold beginCache
  cases b with
  | none => simpa using MarkSet.lookup_insert_self _ _ _
  | some x =>
    by_cases hv : x.value = d.value
    · simp [hv] at hb ⊢; exact hb
    · have : (x.value != d.value) = true := by simp [hv]
      simpa [this] using MarkSet.lookup_insert_self _ _ _

theorem Msm.markBegin_inv {m : Msm} (hi : m.Inv) (id : OpId) (d : MarkData) : (m.markBegin id d).Inv := by
  unfold Msm.markBegin
  cases hf : Msm.find m.state id with
  | ok _ => exact hi
  | error index =>
    intro n
    show (beginCache m.current (markAbove m.state index d.name).isSome (markBelow m.state index d.name) d).lookup n
      = (lastNamed (m.state.take index ++ (id, d) :: m.state.drop index) n).map (·.2.value)
    have hsplit : m.state = m.state.take index ++ m.state.drop index := (List.take_append_drop index m.state).symm
    have hold : lastNamed m.state n = (lastNamed (m.state.drop index) n).or (lastNamed (m.state.take index) n) := by
      conv => lhs; rw [hsplit]
      exact lastNamed_append _ _ _
    rw [lastNamed_append, markAbove_isSome, markBelow_eq]
    by_cases hn : d.name = n
    · subst hn
      cases habove : lastNamed (m.state.drop index) d.name with
      | some y =>
        rw [lastNamed_cons_some habove]
        have := hi d.name
        rw [hold, habove] at this
        simpa [beginCache] using this
      | none =>
        rw [lastNamed_cons_none habove]
        have := hi d.name
        rw [hold, habove] at this
        simp only [Option.isSome_none, beq_self_eq_true, if_true, Option.or_some, Option.map_some]
        apply beginCache_self
        simpa [Option.map_map, Function.comp_def] using this
    · rw [beginCache_ne _ _ _ _ hn, hi n, hold]
      have hne : (d.name == n) = false := by simp [hn]
      cases hab : lastNamed (m.state.drop index) n with
      | none => rw [lastNamed_cons_none hab]; simp [hne]
      | some y => rw [lastNamed_cons_some hab]

theorem Msm.find_ok {state : List (OpId × MarkData)} {id : OpId} {index : Nat}
    (h : Msm.find state id = .ok index) : ∃ p, state[index]? = some p ∧ p.1 = id := by
  unfold Msm.find at h
  simp only at h
  cases hs : state[(state.takeWhile (fun p => p.1.lt id)).length]? with
  | none => simp [hs] at h
  | some p =>
    simp only [hs] at h
    by_cases he : (p.1 == id) = true
    · simp only [he, if_true] at h
      injection h with h
      subst h
      exact ⟨p, hs, by simpa using he⟩
    · simp [he] at h

theorem endCache_ne {n : Bytes} (cur : MarkSet) (a : Bool) (b : Option MarkData) (mark : MarkData)
    (h : mark.name ≠ n) (hb : ∀ x, b = some x → x.name = mark.name) :
    (endCache cur a b mark).lookup n = cur.lookup n := by
  unfold endCache
  cases a
  · cases b with
    | none => simpa using MarkSet.lookup_remove_ne h _
    | some x =>
      have hx := hb x rfl
      by_cases hv : (x.value == mark.value) = true
      · simp [hv]
      · simpa [hv] using MarkSet.lookup_insert_ne (by rw [hx]; exact h) _ _
  · simp

/-- nothing above: the mark below becomes the top of the name -/
theorem endCache_self (cur : MarkSet) (b : Option MarkData) (mark : MarkData)
    (hc : cur.lookup mark.name = some mark.value) (hb : ∀ x, b = some x → x.name = mark.name) :
    (endCache cur false b mark).lookup mark.name = b.map (·.value) := by
  unfold endCache
  cases b with
  | none => simpa using MarkSet.lookup_remove_self _ _
  | some x =>
    have hx := hb x rfl
    by_cases hv : x.value = mark.value
    · simp [hv, hc]
    · have : (x.value == mark.value) = false := by simp [hv]
      simp only [Bool.false_eq_true, if_false, this, Option.map_some]
      rw [← hx]
      exact MarkSet.lookup_insert_self _ _ _

theorem Msm.markEnd_inv {m : Msm} (hi : m.Inv) (id : OpId) : (m.markEnd id).Inv := by
  unfold Msm.markEnd
  cases hf : Msm.find m.state id.prev with
  | error _ => exact hi
  | ok index =>
    obtain ⟨p, hp, _⟩ := Msm.find_ok hf
    simp only [hp]
    obtain ⟨pid, mark⟩ := p
    intro n
    show (endCache m.current (markAbove (m.state.take index ++ m.state.drop (index + 1)) index mark.name).isSome
        (markBelow (m.state.take index ++ m.state.drop (index + 1)) index mark.name) mark).lookup n
      = (lastNamed (m.state.take index ++ m.state.drop (index + 1)) n).map (·.2.value)
    have hlt : index < m.state.length := by
      rcases Nat.lt_or_ge index m.state.length with h | h
      · exact h
      · rw [List.getElem?_eq_none h] at hp; cases hp
    have hget : m.state[index] = (pid, mark) := by
      have := List.getElem?_eq_getElem hlt
      rw [this] at hp
      injection hp
    have hsplit : m.state = m.state.take index ++ (pid, mark) :: m.state.drop (index + 1) := by
      have h1 := (List.take_append_drop index m.state).symm
      rw [List.drop_eq_getElem_cons hlt, hget] at h1
      exact h1
    have hl : (m.state.take index).length = index := by simp; omega
    have hdrop : (m.state.take index ++ m.state.drop (index + 1)).drop index = m.state.drop (index + 1) := by
      rw [List.drop_append_of_le_length (by omega)]
      simp [List.drop_eq_nil_of_le (Nat.le_of_eq hl)]
    have htake : (m.state.take index ++ m.state.drop (index + 1)).take index = m.state.take index := by
      rw [List.take_append_of_le_length (by omega)]
      simp [List.take_of_length_le (Nat.le_of_eq hl)]
    have hold : lastNamed m.state n =
        (lastNamed ((pid, mark) :: m.state.drop (index + 1)) n).or (lastNamed (m.state.take index) n) := by
      conv => lhs; rw [hsplit]
      exact lastNamed_append _ _ _
    rw [lastNamed_append, markAbove_isSome, markBelow_eq, hdrop, htake]
    have hbn : ∀ x, (lastNamed (m.state.take index) mark.name).map (·.2) = some x → x.name = mark.name := by
      intro x hx
      cases hb : lastNamed (m.state.take index) mark.name with
      | none => rw [hb] at hx; cases hx
      | some y =>
        rw [hb] at hx
        simp only [Option.map_some, Option.some.injEq] at hx
        rw [← hx]
        exact lastNamed_name hb
    by_cases hn : mark.name = n
    · subst hn
      cases habove : lastNamed (m.state.drop (index + 1)) mark.name with
      | some y =>
        have := hi mark.name
        rw [hold, lastNamed_cons_some habove] at this
        simpa [endCache] using this
      | none =>
        have hOld : m.current.lookup mark.name = some mark.value := by
          rw [hi mark.name, hold, lastNamed_cons_none habove]
          simp
        simp only [Option.isSome_none, Option.none_or]
        rw [endCache_self _ _ _ hOld hbn]
        simp [Option.map_map, Function.comp_def]
    · rw [endCache_ne _ _ _ _ hn hbn, hi n, hold]
      have hne : (mark.name == n) = false := by simp [hn]
      cases hab : lastNamed (m.state.drop (index + 1)) n with
      | none => rw [lastNamed_cons_none hab]; simp [hne]
      | some y => rw [lastNamed_cons_some hab]

theorem Msm.step_inv {m : Msm} (hi : m.Inv) (it : Item) : (m.step it).Inv := by
  cases it with
  | mbegin id d => exact Msm.markBegin_inv hi id d
  | mend id => exact Msm.markEnd_inv hi id
  | elem _ _ => exact hi

theorem Msm.foldl_inv (its : List Item) : ∀ {m : Msm}, m.Inv → (its.foldl Msm.step m).Inv := by
  induction its with
  | nil => intro m h; exact h
  | cons it rest ih => intro m h; exact ih (Msm.step_inv h it)

end AmVerif.Crdt

namespace AmVerif.Crdt
open AmVerif

/-! ### `state` stays sorted by id, so "last of that name" is "greatest id of that name" -/

def Msm.Sorted (m : Msm) : Prop := m.state.Pairwise (fun a b => a.1.lt b.1 = true)

theorem take_takeWhile_length {α : Type} (p : α → Bool) (l : List α) :
    l.take (l.takeWhile p).length = l.takeWhile p ∧ l.drop (l.takeWhile p).length = l.dropWhile p := by
  induction l with
  | nil => simp
  | cons x xs ih =>
    by_cases hp : p x = true
    · simp [List.takeWhile, List.dropWhile, hp, ih.1, ih.2]
    · simp [List.takeWhile, List.dropWhile, hp]

theorem dropWhile_head_not {α : Type} (p : α → Bool) (l : List α) {z : α} {zs : List α}
    (h : l.dropWhile p = z :: zs) : p z = false := by
  induction l with
  | nil => simp at h
  | cons x xs ih =>
    by_cases hp : p x = true
    · simp [List.dropWhile, hp] at h; exact ih h
    · simp [List.dropWhile, hp] at h
      rw [← h.1]; simpa using hp

theorem mem_takeWhile_holds {α : Type} (p : α → Bool) (l : List α) {x : α} (h : x ∈ l.takeWhile p) : p x = true := by
  induction l with
  | nil => simp at h
  | cons y ys ih =>
    by_cases hp : p y = true
    · simp [List.takeWhile, hp] at h
      rcases h with h | h
      · rw [h]; exact hp
      · exact ih h
    · simp [List.takeWhile, hp] at h

theorem getElem?_takeWhile_length {α : Type} (p : α → Bool) (l : List α) :
    l[(l.takeWhile p).length]? = (l.dropWhile p).head? := by
  induction l with
  | nil => simp
  | cons x xs ih =>
    by_cases hp : p x = true
    · simp [List.takeWhile, List.dropWhile, hp, ih]
    · simp [List.takeWhile, List.dropWhile, hp]

theorem Msm.markBegin_sorted {m : Msm} (hs : m.Sorted) (id : OpId) (d : MarkData) : (m.markBegin id d).Sorted := by
  unfold Msm.markBegin
  cases hf : Msm.find m.state id with
  | ok _ => exact hs
  | error index =>
    unfold Msm.find at hf
    simp only at hf
    have hidx : index = (m.state.takeWhile (fun p => p.1.lt id)).length := by
      cases hg : m.state[(m.state.takeWhile (fun p => p.1.lt id)).length]? with
      | none => simp [hg] at hf; exact hf.symm
      | some p =>
        simp only [hg] at hf
        by_cases he : (p.1 == id) = true
        · simp [he] at hf
        · simp [he] at hf; exact hf.symm
    obtain ⟨ht, hdr⟩ := take_takeWhile_length (fun p : OpId × MarkData => p.1.lt id) m.state
    unfold Msm.Sorted
    show (m.state.take index ++ (id, d) :: m.state.drop index).Pairwise _
    rw [hidx, ht, hdr]
    have hall := List.takeWhile_append_dropWhile (p := fun p : OpId × MarkData => p.1.lt id) (l := m.state)
    unfold Msm.Sorted at hs
    rw [← hall] at hs
    obtain ⟨h1, h2, h3⟩ := List.pairwise_append.mp hs
    -- the element at `index` (head of the dropWhile part) is not `id`
    have hhead : ∀ y ∈ m.state.dropWhile (fun p => p.1.lt id), id.lt y.1 = true := by
      intro y hy
      cases hdw : m.state.dropWhile (fun p => p.1.lt id) with
      | nil => rw [hdw] at hy; cases hy
      | cons z zs =>
        have hz : z.1.lt id = false := dropWhile_head_not (fun p : OpId × MarkData => p.1.lt id) m.state hdw
        have hzne : z.1 ≠ id := by
          intro heq
          have hg : m.state[(m.state.takeWhile (fun p => p.1.lt id)).length]? = some z := by
            rw [getElem?_takeWhile_length, hdw]; rfl
          simp [hg, heq] at hf
        have hidz : id.lt z.1 = true := by
          rcases OpId.lt_total (Ne.symm hzne) with h | h
          · exact h
          · rw [hz] at h; cases h
        rw [hdw] at hy h2
        rcases List.mem_cons.mp hy with h | h
        · subst h; exact hidz
        · have := (List.pairwise_cons.mp h2).1 y h
          exact OpId.lt_trans hidz this
    apply List.pairwise_append.mpr
    refine ⟨h1, ?_, ?_⟩
    · exact List.pairwise_cons.mpr ⟨fun y hy => hhead y hy, h2⟩
    · intro x hx y hy
      rcases List.mem_cons.mp hy with h | h
      · subst h
        exact mem_takeWhile_holds (fun p : OpId × MarkData => p.1.lt id) m.state hx
      · exact h3 x hx y h

theorem Msm.markEnd_sorted {m : Msm} (hs : m.Sorted) (id : OpId) : (m.markEnd id).Sorted := by
  unfold Msm.markEnd
  cases hf : Msm.find m.state id.prev with
  | error _ => exact hs
  | ok index =>
    simp only
    cases hg : m.state[index]? with
    | none => exact hs
    | some p =>
      obtain ⟨pid, mark⟩ := p
      unfold Msm.Sorted at hs ⊢
      show (m.state.take index ++ m.state.drop (index + 1)).Pairwise _
      have hsub : (m.state.take index ++ m.state.drop (index + 1)).Sublist m.state := by
        conv => rhs; rw [← List.take_append_drop index m.state]
        exact List.Sublist.append (List.Sublist.refl _) (List.drop_sublist_drop_left _ (Nat.le_succ _))
      exact List.Pairwise.sublist hsub hs

theorem Msm.step_sorted {m : Msm} (hs : m.Sorted) (it : Item) : (m.step it).Sorted := by
  cases it with
  | mbegin id d => exact Msm.markBegin_sorted hs id d
  | mend id => exact Msm.markEnd_sorted hs id
  | elem _ _ => exact hs

theorem Msm.foldl_sorted (its : List Item) : ∀ {m : Msm}, m.Sorted → (its.foldl Msm.step m).Sorted := by
  induction its with
  | nil => intro m h; exact h
  | cons it rest ih => intro m h; exact ih (Msm.step_sorted h it)

/-- in a list sorted by id the last mark of a name has the greatest id among the marks of that name -/
theorem lastNamed_max {state : List (OpId × MarkData)} (hs : state.Pairwise (fun a b => a.1.lt b.1 = true))
    {n : Bytes} {x : OpId × MarkData} (h : lastNamed state n = some x) :
    x ∈ state ∧ x.2.name = n ∧ ∀ y ∈ state, y.2.name = n → y = x ∨ y.1.lt x.1 = true := by
  induction state with
  | nil => simp [lastNamed] at h
  | cons z zs ih =>
    obtain ⟨hz, hzs⟩ := List.pairwise_cons.mp hs
    cases hl : lastNamed zs n with
    | some w =>
      rw [lastNamed_cons_some hl] at h
      injection h with h; subst h
      obtain ⟨hm, hn, hmax⟩ := ih hzs hl
      refine ⟨List.mem_cons_of_mem _ hm, hn, ?_⟩
      intro y hy hyn
      rcases List.mem_cons.mp hy with h | h
      · subst h; right; exact hz _ hm
      · exact hmax y h hyn
    | none =>
      rw [lastNamed_cons_none hl] at h
      by_cases hzn : (z.2.name == n) = true
      · simp [hzn] at h; subst h
        refine ⟨by simp, by simpa using hzn, ?_⟩
        intro y hy hyn
        rcases List.mem_cons.mp hy with h | h
        · left; exact h
        · exfalso
          have : zs.reverse.find? (fun p => p.2.name == n) = none := hl
          rw [List.find?_eq_none] at this
          exact this y (List.mem_reverse.mpr h) (by simpa using hyn)
      · simp [hzn] at h

end AmVerif.Crdt

namespace AmVerif.Crdt
open AmVerif

/-! ### `get_marks(k)` and the span of element `k` read the same machine state -/

/-- units covered by the elements among the items -/
def itemsWidth (wf : Op → Nat) : List Item → Nat
  | [] => 0
  | .elem _ t :: rest => wf t + itemsWidth wf rest
  | _ :: rest => itemsWidth wf rest

theorem getMarksGo_done (wf : Op → Nat) (m : Msm) (its : List Item) {index stop : Nat} (h : stop > index) :
    getMarksGo wf m its index stop = m.out := by
  cases its with
  | nil => rfl
  | cons it rest => cases it <;> simp [getMarksGo, h]

/-- `get_marks(i)` for a unit index `i` inside the unit range of an element = the machine's marks after
    the items before that element -/
theorem getMarksGo_split (wf : Op → Nat) (pre : List Item) (e : OpId) (t : Op) (post : List Item) :
    ∀ (m : Msm) (index stop : Nat), stop + itemsWidth wf pre ≤ index → index < stop + itemsWidth wf pre + wf t →
      getMarksGo wf m (pre ++ .elem e t :: post) index stop = (pre.foldl Msm.step m).out := by
  induction pre with
  | nil =>
    intro m index stop h1 h2
    simp only [itemsWidth, Nat.add_zero] at h1 h2
    have : ¬ stop > index := by omega
    simp only [List.nil_append, getMarksGo, this, if_false, List.foldl_nil]
    exact getMarksGo_done wf m post (by omega)
  | cons it rest ih =>
    intro m index stop h1 h2
    cases it with
    | mbegin id d =>
      simp only [itemsWidth] at h1 h2
      have : ¬ stop > index := by omega
      simp only [List.cons_append, getMarksGo, this, if_false, List.foldl_cons]
      exact ih _ index stop h1 h2
    | mend id =>
      simp only [itemsWidth] at h1 h2
      have : ¬ stop > index := by omega
      simp only [List.cons_append, getMarksGo, this, if_false, List.foldl_cons]
      exact ih _ index stop h1 h2
    | elem e' t' =>
      simp only [itemsWidth] at h1 h2
      have : ¬ stop > index := by omega
      simp only [List.cons_append, getMarksGo, this, if_false, List.foldl_cons, Msm.step]
      exact ih m index (stop + wf t') (by omega) (by omega)

/-- the span walk carries the machine of the item walk, and its `marks` are that machine's non-null marks -/
def SpanWalk.Synced (w : SpanWalk) : Prop := w.marks = w.msm.current.withoutUnmarks

theorem SpanWalk.flush_fields (w : SpanWalk) : w.flush.msm = w.msm ∧ w.flush.marks = w.marks := by
  unfold SpanWalk.flush
  cases w.next with
  | none => simp
  | some p => obtain ⟨b, l, ms⟩ := p; by_cases h : (l == 0) = true <;> simp [h]

theorem SpanWalk.append_fields (W : Bytes → Nat) (w : SpanWalk) (s : Bytes) :
    (w.append W s).msm = w.msm ∧ (w.append W s).marks = w.marks := by
  unfold SpanWalk.append
  cases w.next with
  | none => simp
  | some p => obtain ⟨b, l, ms⟩ := p; simp

theorem SpanWalk.flush_next (w : SpanWalk) : w.flush.next = none := by
  unfold SpanWalk.flush
  cases hn : w.next with
  | none => simp [hn]
  | some p => obtain ⟨b, l, ms⟩ := p; by_cases h : (l == 0) = true <;> simp [h]

theorem SpanWalk.pushStr_fields (W : Bytes → Nat) (w : SpanWalk) (s : Bytes) :
    (w.pushStr W s).msm = w.msm ∧ (w.pushStr W s).marks = w.marks := by
  unfold SpanWalk.pushStr
  cases hf : w.flushNeeded with
  | true =>
    simp only [if_true]
    have a := SpanWalk.append_fields W w.flush s
    have b := SpanWalk.flush_fields w
    exact ⟨by rw [a.1, b.1], by rw [a.2, b.2]⟩
  | false =>
    simp only [Bool.false_eq_true, if_false]
    exact SpanWalk.append_fields W w s

theorem SpanWalk.step_msm (W : Bytes → Nat) (w : SpanWalk) (it : Item) (hs : w.Synced) :
    (w.step W it).msm = w.msm.step it ∧ (w.step W it).Synced := by
  cases it with
  | mbegin id d => simp [SpanWalk.step, SpanWalk.Synced]
  | mend id => simp [SpanWalk.step, SpanWalk.Synced]
  | elem e t =>
    unfold SpanWalk.Synced at hs ⊢
    simp only [SpanWalk.step, Msm.step]
    cases hb : t.isBlock with
    | true =>
      simp only [if_true, SpanWalk.pushBlock]
      exact ⟨(SpanWalk.flush_fields w).1, by rw [(SpanWalk.flush_fields w).1, (SpanWalk.flush_fields w).2]; exact hs⟩
    | false =>
      simp only [Bool.false_eq_true, if_false]
      have a := SpanWalk.pushStr_fields W w (opStr t)
      exact ⟨a.1, by rw [a.1, a.2]; exact hs⟩

theorem SpanWalk.foldl_msm (W : Bytes → Nat) (its : List Item) :
    ∀ (w : SpanWalk), w.Synced →
      (its.foldl (SpanWalk.step W) w).msm = its.foldl Msm.step w.msm ∧ (its.foldl (SpanWalk.step W) w).Synced := by
  induction its with
  | nil => intro w h; exact ⟨rfl, h⟩
  | cons it rest ih =>
    intro w h
    have h1 := SpanWalk.step_msm W w it h
    have h2 := ih _ h1.2
    simp only [List.foldl_cons]
    rw [h2.1, h1.1]
    exact ⟨rfl, h2.2⟩

/-- text pushed while the current marks are `w.marks` lands in a pending span carrying exactly those marks -/
theorem SpanWalk.pushStr_marks (W : Bytes → Nat) (w : SpanWalk) (s : Bytes) :
    ∃ buf len, (w.pushStr W s).next = some (buf, len, w.marks) := by
  unfold SpanWalk.pushStr
  cases hf : w.flushNeeded with
  | true =>
    simp only [if_true]
    unfold SpanWalk.append
    rw [SpanWalk.flush_next]
    exact ⟨s, W s, by simp [(SpanWalk.flush_fields w).2]⟩
  | false =>
    simp only [Bool.false_eq_true, if_false]
    unfold SpanWalk.append
    cases hn : w.next with
    | none => exact ⟨s, W s, by simp⟩
    | some p =>
      obtain ⟨b, l, ms⟩ := p
      have : ms = w.marks := by
        unfold SpanWalk.flushNeeded at hf
        simpa [hn] using hf
      exact ⟨b ++ s, l + W s, by simp [this]⟩

/-! ### expand: which slot `InsertQuery::resolve` picks next to a single mark op -/

/-- finishing the query after the loop -/
def IQ.finish (q : IQ) (target : Nat) : Except EditErr QueryNth :=
  let q := match q.lastWidth with
    | some last => { q with lastWidth := none, index := q.index + last, done := decide (q.index + last ≥ target) }
    | none => q
  if !q.done then .error .index else
  match q.candidates.getLast? with
  | some loc => .ok ⟨loc.cursor, q.index, loc.pos⟩
  | none =>
    match q.lastVisibleCursor with
    | some c => .ok ⟨c, q.index, q.pos + 1⟩
    | none => .error .index

theorem insertQuery_eq (wf : Op → Nat) (ops : List Op) (obj : ObjId) (target : Nat) :
    insertQuery wf ops obj target =
      ((enumFrom 0 (objRows ops obj)).foldl (IQ.step wf ops target)
        { candidates := if target == 0 then [⟨.head, 0, none⟩] else [], done := decide (0 ≥ target) }).finish target := rfl

theorem IQ.foldl_stopped (wf : Op → Nat) (ops : List Op) (target : Nat) (rows : List (Nat × Op)) :
    ∀ q : IQ, q.stopped = true → rows.foldl (IQ.step wf ops target) q = q := by
  induction rows with
  | nil => intro q _; rfl
  | cons r rs ih =>
    intro q h
    have : IQ.step wf ops target q r = q := by simp [IQ.step, h]
    simp only [List.foldl_cons, this]
    exact ih q h

/-- is a mark op "sticky" for an insertion placed right before it: a begin that expands backwards, or an
    end that does not expand forwards — text inserted there must go AFTER the mark op -/
def Op.sticky (m : Op) : Bool :=
  match m.action with
  | .markBegin _ _ true => true
  | .markEnd false => true
  | _ => false

/-- The scan has reached the visible element `c` at whose end the target index lies (`q`), the next
    row is a single visible mark op `m`, followed by a visible text element `nxt`: the new element is
    keyed on the mark op (goes after it) exactly when the mark op is sticky, otherwise on `c` (goes
    before it). -/
theorem insertQuery_single_mark (wf : Op → Nat) (ops : List Op) (target : Nat) (q : IQ) (c : Key) (w : Nat)
    (p : Nat) (m nxt : Op) (rest : List (Nat × Op))
    (hq1 : q.done = false) (hq2 : q.stopped = false) (hq3 : q.candidates = [])
    (hq4 : q.lastVisibleCursor = some c) (hq5 : q.lastWidth = some w) (hq6 : q.index + w ≥ target)
    (hm1 : m.isMark = true) (hm2 : m.insert = true) (hm3 : rowVisible ops m = true)
    (hn1 : nxt.isMark = false) (hn2 : nxt.insert = true) (hn3 : rowVisible ops nxt = true) :
    (((p, m) :: (p + 1, nxt) :: rest).foldl (IQ.step wf ops target) q).finish target
      = .ok ⟨if m.sticky then .elem m.id else c, q.index + w, if m.sticky then p + 1 else p⟩ := by
  have hminc : m.isInc = false := by
    cases ha : m.action <;> simp_all [Op.isMark, Op.isInc]
  have hninc : nxt.isInc = false := by
    simp only [rowVisible, Bool.and_eq_true, Bool.not_eq_true'] at hn3; exact hn3.1
  have hnend : ∀ x, nxt.action ≠ .markEnd x := by
    intro x hx; simp [Op.isMark, hx] at hn1
  have hnbeg : ∀ a b x, nxt.action ≠ .markBegin a b x := by
    intro a b x hx; simp [Op.isMark, hx] at hn1
  -- first step: the mark op
  have step1 : IQ.step wf ops target q (p, m) =
      { q with lastWidth := none, index := q.index + w, done := true, pos := p,
               candidates := if m.sticky then [⟨c, p, none⟩, ⟨.elem m.id, p + 1, some m.id⟩] else [⟨c, p, none⟩] } := by
    have hd : decide (q.index + w ≥ target) = true := by simpa using hq6
    simp only [IQ.step, hq2, Bool.false_eq_true, if_false, hminc, hm2, if_true, hq5, hd, hm3, hm1,
      Bool.not_true, Bool.and_false, Bool.true_and]
    unfold IQ.identify
    simp only [hm2, hq3, List.isEmpty_nil, Bool.and_self, if_true, hq4, List.nil_append, List.isEmpty_cons,
      Bool.false_eq_true, if_false]
    cases ha : m.action with
    | markBegin n v x =>
      cases x <;> simp [Op.sticky, ha, Op.cursorKey, hm2]
    | markEnd x =>
      have : List.findIdx? (fun l : Loc => l.id == some m.id.prev) [⟨c, p, none⟩] = none := by simp
      cases x <;> simp [Op.sticky, ha, Op.cursorKey, hm2, this]
    | put v => simp [Op.isMark, ha] at hm1
    | make t => simp [Op.isMark, ha] at hm1
    | del => simp [Op.isMark, ha] at hm1
    | inc n => simp [Op.isMark, ha] at hm1
  -- second step: the visible element stops the scan
  have step2 : ∀ q' : IQ, q'.stopped = false → q'.done = true → q'.lastWidth = none → q'.candidates ≠ [] →
      (IQ.step wf ops target q' (p + 1, nxt)).stopped = true ∧
      (IQ.step wf ops target q' (p + 1, nxt)).candidates = q'.candidates ∧
      (IQ.step wf ops target q' (p + 1, nxt)).index = q'.index ∧
      (IQ.step wf ops target q' (p + 1, nxt)).done = true ∧
      (IQ.step wf ops target q' (p + 1, nxt)).lastWidth = none := by
    intro q' h1 h2 h3 h4
    have hne : q'.candidates.isEmpty = false := by
      cases hc : q'.candidates with
      | nil => exact absurd hc h4
      | cons a b => rfl
    have hid : (q'.identify (p + 1) nxt nxt.cursorKey) = q' := by
      unfold IQ.identify
      simp only [hn2, hne, Bool.and_false, Bool.false_eq_true, if_false]
      cases ha : nxt.action with
      | markBegin a b x => exact absurd ha (hnbeg a b x)
      | markEnd x => exact absurd ha (hnend x)
      | put v => simp
      | make t => simp
      | del => simp
      | inc n => simp
    simp only [IQ.step, h1, Bool.false_eq_true, if_false, hninc, hn2, if_true, h3, h2, hid, hn3, hn1,
      Bool.not_false, Bool.and_self, hne, Bool.not_false, Bool.true_and]
    simp
  have hq1' : ∃ q1 : IQ, IQ.step wf ops target q (p, m) = q1 ∧ q1.stopped = false ∧ q1.done = true ∧
      q1.lastWidth = none ∧ q1.index = q.index + w ∧
      q1.candidates = (if m.sticky then [(⟨c, p, none⟩ : Loc), ⟨.elem m.id, p + 1, some m.id⟩] else [⟨c, p, none⟩]) :=
    ⟨_, step1, hq2, rfl, rfl, rfl, rfl⟩
  obtain ⟨q1, e1, a1, a2, a3, a5, a4⟩ := hq1'
  rw [List.foldl_cons, e1, List.foldl_cons]
  obtain ⟨s1, s2, s3, s4, s5⟩ := step2 q1 a1 a2 a3 (by rw [a4]; cases m.sticky <;> simp)
  rw [IQ.foldl_stopped _ _ _ _ _ s1]
  unfold IQ.finish
  simp only [s5, s4, s2, s3, a4, a5, Bool.not_true, Bool.false_eq_true, if_false]
  cases m.sticky <;> simp

end AmVerif.Crdt
