import AmVerif.Proofs.Marks
import AmVerif.Proofs.Local
/-
  Helper lemmas for C25 ("a failing `mark` appends nothing"), part 1: when does `InsertQuery::resolve`
  (`insertQuery`) succeed?  Exactly when the target index does not exceed the total width of the object's
  visible elements (`rowsWidth`); the key it returns names an existing element.
-/
namespace AmVerif.Crdt
open AmVerif

/-! ### the scan's (index, lastWidth, done) evolve on their own -/

abbrev WState := Nat × Option Nat × Bool

def aflush (target : Nat) (s : WState) : WState :=
  match s.2.1 with
  | some l => (s.1 + l, none, decide (s.1 + l ≥ target))
  | none => s

def astep (wf : Op → Nat) (vis : Op → Bool) (target : Nat) (s : WState) (op : Op) : WState :=
  if op.isInc then s else
  let s := if op.insert then aflush target s else s
  if s.2.2 then s else
  if vis op && !op.isMark then (s.1, some (wf op), s.2.2) else s

def IQ.proj (q : IQ) : WState := (q.index, q.lastWidth, q.done)

/-- the flush at an insert row / at the end of the scan -/
def IQ.flush (q : IQ) (target : Nat) : IQ :=
  match q.lastWidth with
  | some last => { q with lastWidth := none, index := q.index + last, done := decide (q.index + last ≥ target) }
  | none => q

theorem IQ.flush_proj (q : IQ) (target : Nat) : (q.flush target).proj = aflush target q.proj := by
  unfold IQ.flush aflush IQ.proj
  cases hl : q.lastWidth with
  | none => simp [hl]
  | some w => simp

/-- a key names HEAD or an existing op -/
def GoodKey (ops : List Op) (k : Key) : Prop := ∀ e, k = .elem e → ∃ x ∈ ops, x.id = e

structure IQ.Inv (ops : List Op) (q : IQ) : Prop where
  doneW : q.done = true → q.lastWidth = none
  stopD : q.stopped = true → q.done = true
  lwLvc : ∀ w, q.lastWidth = some w → q.lastVisibleCursor ≠ none
  doneC : q.done = true → q.candidates ≠ [] ∨ q.lastVisibleCursor ≠ none
  headNone : ∀ c, q.candidates.head? = some c → c.id = none
  goodC : ∀ c ∈ q.candidates, GoodKey ops c.cursor
  goodL : ∀ c, q.lastVisibleCursor = some c → GoodKey ops c

theorem IQ.flush_inv {ops : List Op} {q : IQ} (h : IQ.Inv ops q) (target : Nat) : IQ.Inv ops (q.flush target) := by
  unfold IQ.flush
  cases hl : q.lastWidth with
  | none => exact h
  | some w =>
    refine ⟨fun _ => rfl, ?_, ?_, ?_, h.headNone, h.goodC, h.goodL⟩
    · intro hs
      have hd := h.stopD hs
      have := h.doneW hd
      rw [hl] at this; cases this
    · intro w' hw'; cases hw'
    · intro _; right; exact h.lwLvc w hl

/-- first half of `identify_valid_insertion_spot`: the first insert after the target pushes the slot after the
    last visible element -/
def IQ.identify1 (q : IQ) (opPos : Nat) (op : Op) : IQ :=
  if op.insert && q.candidates.isEmpty then
    match q.lastVisibleCursor with
    | some c => { q with candidates := q.candidates ++ [⟨c, opPos, none⟩] }
    | none => q
  else q

/-- second half: a whole begin/end pair pops, a sticky mark op pushes -/
def IQ.identify2 (q : IQ) (opPos : Nat) (op : Op) (cursor : Key) : IQ :=
  if q.candidates.isEmpty then q else
  let pairAt : Option Nat :=
    match op.action with
    | .markEnd _ => q.candidates.findIdx? (fun l => l.id == some op.id.prev)
    | _ => none
  match pairAt with
  | some p => { q with candidates := q.candidates.take p }
  | none =>
    let sticky := match op.action with
      | .markBegin _ _ true => true
      | .markEnd false => true
      | _ => false
    if sticky then { q with candidates := q.candidates ++ [⟨cursor, opPos + 1, some op.id⟩] } else q

theorem IQ.identify_eq (q : IQ) (opPos : Nat) (op : Op) (cursor : Key) :
    q.identify opPos op cursor = (q.identify1 opPos op).identify2 opPos op cursor := rfl

/-- `identify_valid_insertion_spot` only edits the candidate stack -/
theorem IQ.identify_spec {ops : List Op} (q : IQ) (p : Nat) (op : Op) (cur : Key)
    (hhead : ∀ c, q.candidates.head? = some c → c.id = none)
    (hgoodC : ∀ c ∈ q.candidates, GoodKey ops c.cursor)
    (hgoodL : ∀ c, q.lastVisibleCursor = some c → GoodKey ops c)
    (hcur : GoodKey ops cur) :
    ∃ cs, q.identify p op cur = { q with candidates := cs } ∧
      (q.candidates ≠ [] → cs ≠ []) ∧
      (∀ c, cs.head? = some c → c.id = none) ∧
      (∀ c ∈ cs, GoodKey ops c.cursor) := by
  have phase1 : ∃ cs1, q.identify1 p op = { q with candidates := cs1 } ∧
      (q.candidates ≠ [] → cs1 ≠ []) ∧ (∀ c, cs1.head? = some c → c.id = none) ∧ (∀ c ∈ cs1, GoodKey ops c.cursor) := by
    unfold IQ.identify1
    by_cases hc : (op.insert && q.candidates.isEmpty) = true
    · simp only [hc, if_true]
      have hemp : q.candidates = [] := by simp at hc; exact hc.2
      split
      · next c hl =>
        refine ⟨q.candidates ++ [⟨c, p, none⟩], rfl, fun _ => by simp, ?_, ?_⟩
        · intro c' hc'
          rw [hemp] at hc'
          simp at hc'
          rw [← hc']
        · intro c' hc'
          rw [hemp] at hc'
          have : c' = ⟨c, p, none⟩ := by simpa using hc'
          rw [this]
          exact hgoodL c hl
      · exact ⟨q.candidates, rfl, fun h => h, hhead, hgoodC⟩
    · simp only [hc, Bool.false_eq_true, if_false]
      exact ⟨q.candidates, rfl, fun h => h, hhead, hgoodC⟩
  obtain ⟨cs1, h1, hne1, hh1, hg1⟩ := phase1
  rw [IQ.identify_eq, h1]
  unfold IQ.identify2
  by_cases hemp : cs1.isEmpty = true
  · simp only [hemp, if_true]
    exact ⟨cs1, rfl, hne1, hh1, hg1⟩
  · simp only [hemp, Bool.false_eq_true, if_false]
    have hcs1 : cs1 ≠ [] := by
      intro h; apply hemp; rw [h]; rfl
    -- second phase
    generalize hpa : (match op.action with
        | .markEnd _ => cs1.findIdx? (fun l : Loc => l.id == some op.id.prev)
        | _ => none) = pairAt
    cases pairAt with
    | some k =>
      -- the first candidate has no id, so the pair starts at an index ≥ 1
      cases hcs : cs1 with
      | nil => exact absurd hcs hcs1
      | cons c0 rest =>
        have hc0 : c0.id = none := hh1 c0 (by rw [hcs]; rfl)
        have hk : ∃ k', k = k' + 1 := by
          cases ha : op.action with
          | markEnd x =>
            rw [ha] at hpa
            simp only [hcs, List.findIdx?_cons, hc0] at hpa
            have : ((none : Option OpId) == some op.id.prev) = false := rfl
            simp only [this, Bool.false_eq_true, if_false] at hpa
            cases hf : List.findIdx? (fun l : Loc => l.id == some op.id.prev) rest with
            | none => rw [hf] at hpa; cases hpa
            | some j => rw [hf] at hpa; simp at hpa; exact ⟨j, hpa.symm⟩
          | markBegin a b c => rw [ha] at hpa; cases hpa
          | put v => rw [ha] at hpa; cases hpa
          | make t => rw [ha] at hpa; cases hpa
          | del => rw [ha] at hpa; cases hpa
          | inc n => rw [ha] at hpa; cases hpa
        obtain ⟨k', rfl⟩ := hk
        refine ⟨(c0 :: rest).take (k' + 1), rfl, fun _ => by simp, ?_, ?_⟩
        · intro c hc
          simp at hc
          rw [← hc]; exact hc0
        · intro c hc
          exact hg1 c (by rw [hcs]; exact List.mem_of_mem_take hc)
    | none =>
      by_cases hst : (match op.action with
          | .markBegin _ _ true => true
          | .markEnd false => true
          | _ => false) = true
      · simp only [hst, if_true]
        refine ⟨cs1 ++ [⟨cur, p + 1, some op.id⟩], rfl, fun _ => by simp, ?_, ?_⟩
        · intro c hc
          cases hcs : cs1 with
          | nil => exact absurd hcs hcs1
          | cons c0 rest =>
            rw [hcs] at hc
            simp at hc
            rw [← hc]
            exact hh1 c0 (by rw [hcs]; rfl)
        · intro c hc
          rcases List.mem_append.mp hc with hc | hc
          · exact hg1 c hc
          · have : c = ⟨cur, p + 1, some op.id⟩ := by simpa using hc
            rw [this]; exact hcur
      · simp only [hst, Bool.false_eq_true, if_false]
        exact ⟨cs1, rfl, fun _ => hcs1, hh1, hg1⟩

/-- one row of the scan: the projection follows `astep`, the invariant is kept -/
theorem IQ.step_spec {ops : List Op} (wf : Op → Nat) (target : Nat) {q : IQ} (h : IQ.Inv ops q) (p : Nat) (op : Op)
    (hcur : GoodKey ops op.cursorKey) :
    (IQ.step wf ops target q (p, op)).proj = astep wf (rowVisible ops) target q.proj op ∧
    IQ.Inv ops (IQ.step wf ops target q (p, op)) := by
  by_cases hs : q.stopped = true
  · have hd := h.stopD hs
    have hw := h.doneW hd
    have : IQ.step wf ops target q (p, op) = q := by simp [IQ.step, hs]
    rw [this]
    refine ⟨?_, h⟩
    unfold astep IQ.proj aflush
    simp only [hw, hd]
    by_cases hi : op.isInc = true
    · simp [hi]
    · by_cases hins : op.insert = true <;> simp [hi, hins]
  · have hs' : q.stopped = false := by simpa using hs
    by_cases hi : op.isInc = true
    · have : IQ.step wf ops target q (p, op) = { q with pos := p } := by simp [IQ.step, hs', hi]
      rw [this]
      refine ⟨by simp [astep, hi, IQ.proj], ?_⟩
      exact ⟨h.doneW, h.stopD, h.lwLvc, h.doneC, h.headNone, h.goodC, h.goodL⟩
    · have hi' : op.isInc = false := by simpa using hi
      -- the flush at an insert row
      have hq1 : ∃ q1 : IQ, q1 = (if op.insert then q.flush target else q) := ⟨_, rfl⟩
      obtain ⟨q1, hq1⟩ := hq1
      have hq1inv : IQ.Inv ops q1 := by
        rw [hq1]; by_cases hins : op.insert = true
        · simp only [hins, if_true]; exact IQ.flush_inv h target
        · simp only [hins, Bool.false_eq_true, if_false]; exact h
      have hq1proj : q1.proj = (if op.insert then aflush target q.proj else q.proj) := by
        rw [hq1]; by_cases hins : op.insert = true
        · simp only [hins, if_true]; exact IQ.flush_proj q target
        · simp only [hins, Bool.false_eq_true, if_false]
      have hq1s : q1.stopped = false := by
        rw [hq1]; by_cases hins : op.insert = true
        · simp only [hins, if_true]; unfold IQ.flush; cases q.lastWidth <;> exact hs'
        · simp only [hins, Bool.false_eq_true, if_false]; exact hs'
      have hstep : IQ.step wf ops target q (p, op) =
          (if q1.done then
            (if (rowVisible ops op && !op.isMark && !(q1.identify p op op.cursorKey).candidates.isEmpty) = true
              then { q1.identify p op op.cursorKey with stopped := true }
              else { q1.identify p op op.cursorKey with pos := p })
          else if rowVisible ops op then
            { (if !op.isMark then { q1 with lastVisibleCursor := some op.cursorKey, lastWidth := some (wf op) } else q1) with pos := p }
          else { q1 with pos := p }) := by
        rw [hq1]
        simp only [IQ.step, hs', Bool.false_eq_true, if_false, hi', IQ.flush]
        rfl
      rw [hstep]
      have hastep : astep wf (rowVisible ops) target q.proj op =
          (if q1.proj.2.2 then q1.proj else if (rowVisible ops op && !op.isMark) = true then (q1.proj.1, some (wf op), q1.proj.2.2) else q1.proj) := by
        simp only [astep, hi', Bool.false_eq_true, if_false, hq1proj]
      rw [hastep]
      by_cases hd : q1.done = true
      · obtain ⟨cs, hid, hne, hhd, hgd⟩ := IQ.identify_spec (ops := ops) q1 p op op.cursorKey hq1inv.headNone hq1inv.goodC hq1inv.goodL hcur
        have hpd : q1.proj.2.2 = true := hd
        rw [if_pos hd, if_pos hpd, hid]
        have hdc : cs ≠ [] ∨ q1.lastVisibleCursor ≠ none := by
          rcases hq1inv.doneC hd with hc | hc
          · left; exact hne hc
          · right; exact hc
        by_cases hst : (rowVisible ops op && !op.isMark && !cs.isEmpty) = true
        · simp only [hst, if_true]
          exact ⟨rfl, ⟨hq1inv.doneW, fun _ => hd, hq1inv.lwLvc, fun _ => hdc, hhd, hgd, hq1inv.goodL⟩⟩
        · simp only [hst, Bool.false_eq_true, if_false]
          refine ⟨rfl, ⟨hq1inv.doneW, ?_, hq1inv.lwLvc, fun _ => hdc, hhd, hgd, hq1inv.goodL⟩⟩
          intro hh; have hh' : q1.stopped = true := hh; rw [hq1s] at hh'; cases hh'
      · have hd' : q1.done = false := by simpa using hd
        have hpd : q1.proj.2.2 = false := hd'
        have hpd' : ¬ q1.proj.2.2 = true := by rw [hpd]; simp
        rw [if_neg hd, if_neg hpd']
        by_cases hv : rowVisible ops op = true
        · simp only [hv, if_true, Bool.true_and]
          by_cases hm : op.isMark = true
          · simp only [hm, Bool.not_true, Bool.false_eq_true, if_false]
            refine ⟨rfl, ⟨hq1inv.doneW, ?_, hq1inv.lwLvc, hq1inv.doneC, hq1inv.headNone, hq1inv.goodC, hq1inv.goodL⟩⟩
            intro hh; have hh' : q1.stopped = true := hh; rw [hq1s] at hh'; cases hh'
          · have hm' : op.isMark = false := by simpa using hm
            simp only [hm', Bool.not_false, if_true]
            refine ⟨rfl, ⟨?_, ?_, ?_, ?_, hq1inv.headNone, hq1inv.goodC, ?_⟩⟩
            · intro hh; have hh' : q1.done = true := hh; rw [hd'] at hh'; cases hh'
            · intro hh; have hh' : q1.stopped = true := hh; rw [hq1s] at hh'; cases hh'
            · intro w _ hn; cases hn
            · intro hh; have hh' : q1.done = true := hh; rw [hd'] at hh'; cases hh'
            · intro c hc
              have : c = op.cursorKey := by
                have : some op.cursorKey = some c := hc
                injection this with this; exact this.symm
              rw [this]; exact hcur
        · have hv' : rowVisible ops op = false := by simpa using hv
          simp only [hv', Bool.false_eq_true, if_false, Bool.false_and]
          refine ⟨rfl, ⟨hq1inv.doneW, ?_, hq1inv.lwLvc, hq1inv.doneC, hq1inv.headNone, hq1inv.goodC, hq1inv.goodL⟩⟩
          intro hh; have hh' : q1.stopped = true := hh; rw [hq1s] at hh'; cases hh'

theorem IQ.foldl_spec {ops : List Op} (wf : Op → Nat) (target : Nat) (rows : List Op)
    (hrows : ∀ r ∈ rows, GoodKey ops r.cursorKey) :
    ∀ (k : Nat) (q : IQ), IQ.Inv ops q →
      ((enumFrom k rows).foldl (IQ.step wf ops target) q).proj = rows.foldl (astep wf (rowVisible ops) target) q.proj ∧
      IQ.Inv ops ((enumFrom k rows).foldl (IQ.step wf ops target) q) := by
  induction rows with
  | nil => intro k q h; exact ⟨rfl, h⟩
  | cons r rest ih =>
    intro k q h
    obtain ⟨h1, h2⟩ := IQ.step_spec wf target h k r (hrows r (by simp))
    have := ih (fun r' hr' => hrows r' (List.mem_cons_of_mem _ hr')) (k + 1) _ h2
    simp only [enumFrom, List.foldl_cons]
    rw [← h1]
    exact this

/-- the query succeeds iff the scan ends `done`; its key is HEAD or an existing op's id -/
theorem IQ.finish_spec {ops : List Op} {q : IQ} (h : IQ.Inv ops q) (target : Nat) :
    ((q.finish target).isOk = (aflush target q.proj).2.2) ∧
    ∀ r, q.finish target = .ok r → GoodKey ops r.key := by
  have hf := IQ.flush_inv h target
  have hp := IQ.flush_proj q target
  have hfin : q.finish target =
      (if !(q.flush target).done then .error .index else
        match (q.flush target).candidates.getLast? with
        | some loc => .ok ⟨loc.cursor, (q.flush target).index, loc.pos⟩
        | none =>
          match (q.flush target).lastVisibleCursor with
          | some c => .ok ⟨c, (q.flush target).index, (q.flush target).pos + 1⟩
          | none => .error .index) := by
    unfold IQ.finish IQ.flush
    cases q.lastWidth <;> rfl
  rw [hfin, ← hp]
  generalize q.flush target = q' at hf
  by_cases hd : q'.done = true
  · simp only [hd, Bool.not_true, Bool.false_eq_true, if_false, IQ.proj]
    cases hg : q'.candidates.getLast? with
    | some loc =>
      refine ⟨rfl, ?_⟩
      intro r hr
      injection hr with hr
      rw [← hr]
      exact hf.goodC loc (List.mem_of_getLast? hg)
    | none =>
      have hemp : q'.candidates = [] := by simpa using hg
      cases hl : q'.lastVisibleCursor with
      | some c =>
        refine ⟨rfl, ?_⟩
        intro r hr
        injection hr with hr
        rw [← hr]
        exact hf.goodL c hl
      | none =>
        rcases hf.doneC hd with hc | hc
        · exact absurd hemp hc
        · exact absurd hl hc
  · have hd' : q'.done = false := by simpa using hd
    simp only [hd', Bool.not_false, if_true, IQ.proj]
    refine ⟨rfl, ?_⟩
    intro r hr; cases hr

end AmVerif.Crdt
