import AmVerif.Proofs.MarksFullShape
/-
  Helper lemma for C25 (`calculate_marks_fast` = `calculate_marks_slow`): a list of marks in the canonical
  shape of `marks()` (`MarkBefore`-sorted, non-empty ranges) is determined by the set of (name, value, unit)
  triples it covers.
-/
namespace AmVerif.Crdt
open AmVerif

/-- unit `i` lies in a range of `l` with name `n` and value `v` -/
def MarksCover (l : List Mark) (n : Bytes) (v : Scalar) (i : Nat) : Prop :=
  ∃ r ∈ l, r.name = n ∧ r.value = v ∧ r.start ≤ i ∧ i < r.stop

theorem markBefore_same {a b : Mark} (h : MarkBefore a b) (hn : a.name = b.name) (hv : a.value = b.value) : a.stop < b.start := by
  rcases h with h | ⟨_, _, h⟩
  · rw [hn, bytesLt_irrefl] at h; cases h
  · exact h hv

/-- a canonical list contains every range of another canonical list covering the same triples -/
theorem marks_subset_of_cover {l₁ l₂ : List Mark} (h₁ : l₁.Pairwise MarkBefore) (h₂ : l₂.Pairwise MarkBefore)
    (hne₁ : ∀ r ∈ l₁, r.start < r.stop) (hne₂ : ∀ r ∈ l₂, r.start < r.stop)
    (hc : ∀ n v i, MarksCover l₁ n v i ↔ MarksCover l₂ n v i) : ∀ r ∈ l₁, r ∈ l₂ := by
  intro r hr
  have hrne := hne₁ r hr
  -- the range of `l₂` covering the first unit of `r`
  obtain ⟨r', hr', hn, hv, hs, he⟩ := (hc r.name r.value r.start).mp ⟨r, hr, rfl, rfl, Nat.le_refl _, hrne⟩
  have hr'ne := hne₂ r' hr'
  -- it starts where `r` starts
  have hstart : r'.start = r.start := by
    rcases Nat.lt_or_ge r'.start r.start with hlt | hge
    · exfalso
      -- unit `r.start - 1` is covered in `l₂`, hence in `l₁`, by a range other than `r` that touches `r`
      obtain ⟨r'', hr'', hn'', hv'', hs'', he''⟩ := (hc r.name r.value (r.start - 1)).mpr ⟨r', hr', hn, hv, by omega, by omega⟩
      rcases pairwise_mem_cases h₁ hr hr'' with heq | hb | hb
      · rw [← heq] at hs''; omega
      · have := markBefore_same hb hn''.symm hv''.symm; omega
      · have := markBefore_same hb hn'' hv''; omega
    · omega
  -- and ends where `r` ends
  have hstop : r'.stop = r.stop := by
    rcases Nat.lt_trichotomy r'.stop r.stop with hlt | heq | hgt
    · exfalso
      -- unit `r'.stop` is covered by `r`, hence in `l₂` by a range other than `r'` that touches `r'`
      obtain ⟨r'', hr'', hn'', hv'', hs'', he''⟩ := (hc r.name r.value r'.stop).mp ⟨r, hr, rfl, rfl, by omega, hlt⟩
      rcases pairwise_mem_cases h₂ hr' hr'' with heq | hb | hb
      · rw [← heq] at he''; omega
      · have := markBefore_same hb (by rw [hn, hn'']) (by rw [hv, hv'']); omega
      · have := markBefore_same hb (by rw [hn, hn'']) (by rw [hv, hv'']); omega
    · exact heq
    · exfalso
      obtain ⟨r'', hr'', hn'', hv'', hs'', he''⟩ := (hc r.name r.value r.stop).mpr ⟨r', hr', hn, hv, by omega, hgt⟩
      rcases pairwise_mem_cases h₁ hr hr'' with heq | hb | hb
      · rw [← heq] at he''; omega
      · have := markBefore_same hb hn''.symm hv''.symm; omega
      · have := markBefore_same hb hn'' hv''; omega
  have : r' = r := by
    cases r; cases r'
    simp only at hn hv hstart hstop
    simp [hn, hv, hstart, hstop]
  rw [← this]; exact hr'

theorem markBefore_irrefl {a : Mark} (hne : a.start < a.stop) : ¬ MarkBefore a a := by
  rintro (h | ⟨_, h, _⟩)
  · rw [bytesLt_irrefl] at h; cases h
  · omega

theorem markBefore_asymm {a b : Mark} (ha : a.start < a.stop) (hb : b.start < b.stop) (h₁ : MarkBefore a b) (h₂ : MarkBefore b a) : False := by
  rcases h₁ with h₁ | ⟨hn, h₁, _⟩
  · rcases h₂ with h₂ | ⟨hn', _, _⟩
    · exact bytesLt_asymm h₁ h₂
    · rw [hn', bytesLt_irrefl] at h₁; cases h₁
  · rcases h₂ with h₂ | ⟨_, h₂, _⟩
    · rw [hn, bytesLt_irrefl] at h₂; cases h₂
    · omega

theorem pairwise_nodup_of_irrefl {α : Type} {R : α → α → Prop} {l : List α} (h : l.Pairwise R) (hi : ∀ a ∈ l, ¬ R a a) : l.Nodup := by
  induction l with
  | nil => exact List.nodup_nil
  | cons x xs ih =>
    obtain ⟨hx, hxs⟩ := List.pairwise_cons.mp h
    refine List.nodup_cons.mpr ⟨?_, ih hxs (fun a ha => hi a (List.mem_cons_of_mem _ ha))⟩
    intro hm
    exact hi x (by simp) (hx x hm)

/-- two canonical mark lists covering the same triples are equal -/
theorem marks_unique {l₁ l₂ : List Mark} (h₁ : l₁.Pairwise MarkBefore) (h₂ : l₂.Pairwise MarkBefore)
    (hne₁ : ∀ r ∈ l₁, r.start < r.stop) (hne₂ : ∀ r ∈ l₂, r.start < r.stop)
    (hc : ∀ n v i, MarksCover l₁ n v i ↔ MarksCover l₂ n v i) : l₁ = l₂ := by
  have s12 := marks_subset_of_cover h₁ h₂ hne₁ hne₂ hc
  have s21 := marks_subset_of_cover h₂ h₁ hne₂ hne₁ (fun n v i => (hc n v i).symm)
  have nd1 := pairwise_nodup_of_irrefl h₁ (fun a ha => markBefore_irrefl (hne₁ a ha))
  have nd2 := pairwise_nodup_of_irrefl h₂ (fun a ha => markBefore_irrefl (hne₂ a ha))
  have hperm : l₁.Perm l₂ := (List.perm_ext_iff_of_nodup nd1 nd2).mpr (fun a => ⟨s12 a, s21 a⟩)
  refine List.Perm.eq_of_pairwise ?_ h₁ h₂ hperm
  intro a b ha hb hab hba
  exact (markBefore_asymm (hne₁ a ha) (hne₂ b hb) hab hba).elim

end AmVerif.Crdt
