import AmVerif.Proofs.HexaneFullLeb
import AmVerif.Proofs.HexaneCanon
/-
  Helper lemmas for C35 (third sentence): the converse of `parse_write` — whatever `parse` accepts
  up to a clean end of input is canonical (`canon`), hence every loaded value is `Valid` and nulls
  only come out of nullable loads.
-/
namespace AmVerif.Hexane
open AmVerif

theorem parse_canon {α : Type} [DecidableEq α] {c : ValCodec α} {Valid : α → Prop}
    (snd : Sound c Valid) (nullable : Bool) :
    ∀ (fuel : Nat) (bs : Bytes) (st : PState α) (items : List (Item α)),
      parse c nullable fuel bs st = (items, none) → canon Valid nullable st items := by
  intro fuel
  induction fuel with
  | zero => intro bs st items h; simp [parse] at h
  | succ f ih =>
    intro bs st items h
    rw [parse] at h
    split at h
    · -- inside a literal run
      rename_i hlit
      split at h
      · simp at h
      · rename_i v rest hu
        split at h
        · simp at h
        · rename_i h1
          split at h
          · simp at h
          · rename_i h2
            generalize hp : parse c nullable f rest _ = p at h
            obtain ⟨its, fl⟩ := p
            simp only [Prod.mk.injEq] at h
            obtain ⟨rfl, rfl⟩ := h
            simp only [canon]
            exact ⟨hlit, h1, by simpa using h2, snd _ _ _ hu, ih _ _ _ hp⟩
    · rename_i hlit
      split at h
      · -- clean end
        simp only [Prod.mk.injEq, and_true] at h
        subst h
        simp only [canon]; omega
      · split at h
        · simp at h
        · rename_i n rest hs
          have hn := readS_range _ _ _ hs
          split at h
          · -- repeat run
            rename_i hpos
            split at h
            · simp at h
            · rename_i v rest' hu
              split at h
              · simp at h
              · rename_i hn2
                split at h
                · simp at h
                · rename_i hsame
                  generalize hp : parse c nullable f rest' _ = p at h
                  obtain ⟨its, fl⟩ := p
                  simp only [Prod.mk.injEq] at h
                  obtain ⟨rfl, rfl⟩ := h
                  simp only [canon]
                  refine ⟨by omega, by omega, ?_, by simpa using hsame, snd _ _ _ hu, ih _ _ _ hp⟩
                  unfold two63 at *; omega
          · split at h
            · -- literal head
              rename_i hneg
              split at h
              · simp at h
              · rename_i hmin
                split at h
                · simp at h
                · rename_i hl
                  generalize hp : parse c nullable f rest _ = p at h
                  obtain ⟨its, fl⟩ := p
                  simp only [Prod.mk.injEq] at h
                  obtain ⟨rfl, rfl⟩ := h
                  simp only [canon]
                  refine ⟨by omega, by omega, ?_, by simpa using hl, ih _ _ _ hp⟩
                  unfold two63 at *; omega
            · -- null run
              split at h
              · simp at h
              · rename_i k rest' hk
                have hk64 := readU_lt _ _ _ hk
                split at h
                · simp at h
                · rename_i hk0
                  split at h
                  · simp at h
                  · rename_i hnull
                    split at h
                    · simp at h
                    · rename_i hnb
                      generalize hp : parse c nullable f rest' _ = p at h
                      obtain ⟨its, fl⟩ := p
                      simp only [Prod.mk.injEq] at h
                      obtain ⟨rfl, rfl⟩ := h
                      simp only [canon]
                      refine ⟨by omega, by omega, by unfold two64; exact hk64, by simpa using hnull,
                        by simpa using hnb, ih _ _ _ hp⟩

/-- every value of a canonical segment list is `Valid`, nulls only when `nullable` -/
theorem canon_valid {α : Type} [DecidableEq α] (Valid : α → Prop) (nullable : Bool) :
    ∀ (items : List (Item α)) (st : PState α), canon Valid nullable st items →
      ListValid Valid nullable (expand items) := by
  intro items
  induction items with
  | nil => intro st _ x hx; simp [expand] at hx
  | cons it r ih =>
    intro st hc
    cases it with
    | head k =>
      simp only [canon] at hc
      simpa [expand] using ih _ hc.2.2.2.2
    | litv v =>
      simp only [canon] at hc
      intro x hx
      simp only [expand, List.mem_cons] at hx
      rcases hx with rfl | hx
      · exact hc.2.2.2.1
      · exact ih _ hc.2.2.2.2 x hx
    | run n v =>
      simp only [canon] at hc
      intro x hx
      simp only [expand, List.mem_append, List.mem_replicate] at hx
      rcases hx with ⟨_, rfl⟩ | hx
      · exact hc.2.2.2.2.1
      · exact ih _ hc.2.2.2.2.2 x hx
    | null n =>
      simp only [canon] at hc
      intro x hx
      simp only [expand, List.mem_append, List.mem_replicate] at hx
      rcases hx with ⟨_, rfl⟩ | hx
      · exact hc.2.2.2.2.1
      · exact ih _ hc.2.2.2.2.2 x hx

/-- what a successful `rleLoad` says about its pieces -/
theorem rleLoad_ok {α : Type} [DecidableEq α] (c : ValCodec α) (nullable : Bool) (w : Weight)
    (num : α → Int) (expected : Option Nat) (bs : Bytes) (items : List (Item α))
    (h : rleLoad c nullable w num expected bs = .ok items) :
    parseAll c nullable bs = (items, none) ∧
      ∃ st n, account w num items {} = .ok st ∧ finish w expected st = .ok n := by
  unfold rleLoad at h
  generalize hp : parseAll c nullable bs = p at h
  obtain ⟨its, fl⟩ := p
  simp only at h
  split at h
  · simp at h
  · simp at h
  · rename_i st hacc
    split at h
    · simp at h
    · simp at h
    · split at h
      · rename_i n hfin
        simp only [Outcome.ok.injEq] at h
        subst h
        exact ⟨rfl, st, n, hacc, hfin⟩
      · simp at h
      · simp at h

theorem rleDecode_ok {α : Type} [DecidableEq α] (c : ValCodec α) (nullable : Bool) (w : Weight)
    (num : α → Int) (bs : Bytes) (xs : List (Option α))
    (h : rleDecode c nullable w num bs = .ok xs) :
    ∃ items, rleLoad c nullable w num none bs = .ok items ∧ xs = expand items := by
  unfold rleDecode at h
  split at h
  · rename_i items hl
    simp only [Outcome.ok.injEq] at h
    exact ⟨items, hl, h.symm⟩
  · simp at h
  · simp at h

/-- the loaded segments are canonical -/
theorem rleLoad_canon {α : Type} [DecidableEq α] {c : ValCodec α} {Valid : α → Prop}
    (snd : Sound c Valid) (nullable : Bool) (w : Weight) (num : α → Int) (expected : Option Nat)
    (bs : Bytes) (items : List (Item α)) (h : rleLoad c nullable w num expected bs = .ok items) :
    canon Valid nullable {} items :=
  parse_canon snd nullable _ _ _ _ (rleLoad_ok c nullable w num expected bs items h).1

/-- every loaded value is of the type, and nulls only come out of nullable loads -/
theorem rleDecode_valid {α : Type} [DecidableEq α] {c : ValCodec α} {Valid : α → Prop}
    (snd : Sound c Valid) (nullable : Bool) (w : Weight) (num : α → Int)
    (bs : Bytes) (xs : List (Option α)) (h : rleDecode c nullable w num bs = .ok xs) :
    ListValid Valid nullable xs := by
  obtain ⟨items, hl, rfl⟩ := rleDecode_ok c nullable w num bs xs h
  exact canon_valid Valid nullable items {} (rleLoad_canon snd nullable w num none bs items hl)

end AmVerif.Hexane
