import AmVerif.Proofs.Chunk
import AmVerif.Proofs.Graph
/-
  Save / load above the chunk level (`Automerge::save_with_options` with retained orphans,
  `load_with_options`): a saved file is the document chunk followed by one change chunk per held
  (orphan) change.  The CONTENTS of the chunks are parameters:
    `body`        applied changes (graph order) ↦ body of the document chunk   (column encoding:
                  `storage/document.rs`, not modelled),
    `raw`         change ↦ body of its change chunk (`storage/change.rs`; C09),
    `reconstruct` / `decode`  the corresponding body parsers.
-/
namespace AmVerif.Crdt
open AmVerif AmVerif.Chunk

/-- the codecs of chunk bodies, with what the theorems need from them -/
structure BodyCodec where
  bodyOk : Nat → Bytes → Bool
  body : List Change → Bytes
  raw : Change → Bytes
  reconstruct : Bytes → List Change
  decode : Bytes → Change

/-- the codec round-trips the chunks of document `d` -/
structure BodyCodec.OkFor (k : BodyCodec) (d : Doc) : Prop where
  docOk : k.bodyOk 0 (k.body d.applied) = true
  docLen : (k.body d.applied).length < 2 ^ 64
  docRound : k.reconstruct (k.body d.applied) = d.applied
  rawOk : ∀ c ∈ d.queue, k.bodyOk 1 (k.raw c) = true
  rawLen : ∀ c ∈ d.queue, (k.raw c).length < 2 ^ 64
  rawRound : ∀ c ∈ d.queue, k.decode (k.raw c) = c

/-- the chunks `save` writes: the document chunk, then the orphans as change chunks -/
def savedChunks (k : BodyCodec) (d : Doc) : List Stored :=
  Stored.plain 0 (k.body d.applied) :: d.queue.map (fun c => Stored.plain 1 (k.raw c))

/-- `save_with_options(retain_orphans = true)` -/
def saveDoc (k : BodyCodec) (d : Doc) : Bytes := fileOf (savedChunks k d)

/-- `load_with_options` above the chunk level for a file that starts with a document chunk: the
    reconstructed document, then every later chunk's change through `apply_changes` -/
def docOfChunks (k : BodyCodec) : List Chunk.Chunk → Option Doc
  | [] => some Doc.empty
  | first :: rest =>
    if first.ty = 0 then
      match applyBatch ⟨k.reconstruct first.body, []⟩ (rest.map (fun c => k.decode c.body)) with
      | (d, .ok _) => some d
      | (_, .error _) => none
    else none

def loadDoc (k : BodyCodec) (data : Bytes) : Option Doc :=
  match loadFile k.bodyOk .error data with
  | .ok cs => docOfChunks k cs
  | .error _ => none

/-- offering changes none of which is known, claimed or repeated: all of them enter the batch, in order -/
theorem collectBatch_all_new {d : Doc} : ∀ (cs batch : List Change),
    (∀ c ∈ cs, d.hasChange c.hash = false ∧ d.queueHas c.hash = false ∧ d.hasActorSeq c = false ∧
      queueHasActorSeq d.queue c = false) →
    (hashes (batch ++ cs)).Nodup → (actorSeqs (batch ++ cs)).Nodup →
    collectBatch d cs batch = (d.queue, .ok (batch ++ cs))
  | [], batch, _, _, _ => by simp [collectBatch]
  | c :: cs, batch, h, hn, hs => by
    obtain ⟨h1, h2, h3, h4⟩ := h c List.mem_cons_self
    have hnb : batch.any (fun x => x.hash == c.hash) = false := by
      rw [any_hash_false_iff]
      intro hm
      rw [hashes_append, List.nodup_append] at hn
      exact hn.2.2 _ hm c.hash (by simp [hashes]) rfl
    have hsb : queueHasActorSeq batch c = false := by
      cases hq : queueHasActorSeq batch c
      · rfl
      · exfalso
        have hm := queueHasActorSeq_iff.mp hq
        rw [actorSeqs_append, List.nodup_append] at hs
        exact hs.2.2 _ hm (c.actor, c.seq) (by simp [actorSeqs]) rfl
    simp only [collectBatch, h1, h2, h3, h4, hnb, hsb, Bool.or_self, Bool.false_eq_true, if_false]
    have := collectBatch_all_new cs (batch ++ [c]) (fun x hx => h x (List.mem_cons_of_mem _ hx))
      (by simpa using hn) (by simpa using hs)
    rw [this]; simp

/-- re-delivering the held changes of a document to its applied part gives the document back:
    none of them is ready (`Inv`), so all stay held, in order -/
theorem applyBatch_requeue {d : Doc} (hinv : d.Inv) (hq : ∀ c ∈ d.queue, d.hasActorSeq c = false) :
    applyBatch ⟨d.applied, []⟩ d.queue = (d, .ok ()) := by
  have hn := hinv.hashNodup
  have hs := hinv.seqNodup
  have hcb : collectBatch ⟨d.applied, []⟩ d.queue [] = (([] : List Change), .ok ([] ++ d.queue)) := by
    apply collectBatch_all_new (d := ⟨d.applied, []⟩)
    · intro c hc
      refine ⟨?_, rfl, hq c hc, rfl⟩
      rw [hasChange_false_iff]
      intro hm
      exact hinv.inv0.disjoint hm (mem_hashes_of_mem hc)
    · rw [List.nil_append]; exact hinv.inv0.queue_nodup
    · rw [List.nil_append]
      rw [actorSeqs_append, List.nodup_append] at hs
      exact hs.2.1
  rw [applyBatch_of_ok hcb]
  simp only [List.nil_append]
  have hd : (⟨d.applied, d.queue⟩ : Doc) = d := by cases d; rfl
  split
  · rw [hd]
  · have hnr : popTopoSortedReady (⟨d.applied, d.queue⟩ : Doc) = ([], d.queue) := by
      rw [hd]; exact popTopoSortedReady_noneReady hinv.noneReady
    rw [hnr]
    simp only [List.append_nil]

theorem savedChunks_wf {k : BodyCodec} {d : Doc} (h : k.OkFor d) : ∀ s ∈ savedChunks k d, s.WF k.bodyOk := by
  intro s hs
  rcases List.mem_cons.mp hs with rfl | hs
  · exact ⟨by omega, by omega, h.docLen, h.docOk⟩
  · obtain ⟨c, hc, rfl⟩ := List.mem_map.mp hs
    exact ⟨by omega, by omega, h.rawLen c hc, h.rawOk c hc⟩

/-- **load ∘ save = id** (above the body codecs) -/
theorem loadDoc_saveDoc {k : BodyCodec} {d : Doc} (hinv : d.Inv) (h : k.OkFor d)
    (hq : ∀ c ∈ d.queue, d.hasActorSeq c = false) : loadDoc k (saveDoc k d) = some d := by
  unfold loadDoc saveDoc savedChunks
  rw [loadFile_concat _ _ (savedChunks_wf h) .error]
  simp only [List.map_cons, docOfChunks, Stored.chunk, if_true, List.map_map]
  have hmap : List.map ((fun c : Chunk.Chunk => k.decode c.body) ∘ Stored.chunk ∘ fun c => Stored.plain 1 (k.raw c)) d.queue
      = d.queue := by
    conv => rhs; rw [← List.map_id d.queue]
    apply List.map_congr_left
    intro c hc
    simp only [Function.comp, Stored.chunk, id]
    exact h.rawRound c hc
  rw [hmap, h.docRound, applyBatch_requeue hinv hq]

end AmVerif.Crdt
