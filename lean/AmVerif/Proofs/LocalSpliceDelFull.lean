import AmVerif.Proofs.LocalSpliceDelLoop
/-
  `splice_text` with deletion, part 3: the whole call.  `localSpliceText e ops t obj index del text`
  appends the insert chain of the pieces and then the delete ops of `deleteLoop`; the visible
  element list is  take j ++ chain ++ spliceKept del (drop j)  with `j` the number of elements the
  first `index` units cover.
-/
namespace AmVerif.Crdt
open AmVerif

/-- the reference element of an insertion behind the first `j` visible elements -/
def spliceRefKey (L : List (OpId × List Entry)) : Nat → Key
  | 0 => .head
  | j + 1 => match L[j]? with | some p => .elem p.1 | none => .head

theorem foldl_plus_eq_sum (l : List Nat) (a : Nat) : l.foldl (· + ·) a = a + l.sum := by
  induction l generalizing a with
  | nil => simp
  | cons x l ih => rw [List.foldl_cons, ih, List.sum_cons]; omega

theorem elUnits_chainEntries (e : Enc) (t : Tx) : ∀ (ps : List Bytes) (n : Nat),
    elUnits e (chainEntries t ps n) = (ps.map (width e)).sum
  | [], _ => rfl
  | p :: ps, n => by
    rw [chainEntries, elUnits_cons, elUnits_chainEntries e t ps (n + 1), List.map_cons, List.sum_cons]
    rfl

/-- the chain of insert ops keeps every counter below the next free one -/
theorem ctrBelow_chain (t : Tx) (obj : ObjId) :
    ∀ (ps : List Bytes) (key : Key) (n : Nat) (ops : List Op),
      CtrBelow ops (t.startOp + t.pending.length + n) →
      (key = .head ∨ ∃ c ∈ ops, key = .elem c.id) →
      CtrBelow (ops ++ chainInserts t obj ps key n) (t.startOp + t.pending.length + n + ps.length)
  | [], _, _, ops, hb, _ => by simpa [chainInserts] using hb
  | p :: ps, key, n, ops, hb, href => by
    let o : Op := ⟨t.nextId n, obj, key, true, .put (.str p), []⟩
    have hb' : CtrBelow (ops ++ [o]) (t.startOp + t.pending.length + (n + 1)) := by
      intro x hx
      rcases List.mem_append.mp hx with hx | hx
      · exact (hb.weaken (by omega)) x hx
      · have : x = o := by simpa using hx
        subst this
        refine ⟨by show t.startOp + t.pending.length + n < _; omega, fun q hq => (by cases hq), ?_⟩
        have hok : o.key = key := rfl
        rw [hok]
        rcases href with hk | ⟨c, hc, hk⟩
        · rw [hk]
        · rw [hk]
          have := (hb c hc).1
          simp; omega
    have ih := ctrBelow_chain t obj ps (.elem o.id) (n + 1) (ops ++ [o]) hb'
      (.inr ⟨o, by simp, rfl⟩)
    have happ : ops ++ chainInserts t obj (p :: ps) key n =
        (ops ++ [o]) ++ chainInserts t obj ps (.elem o.id) (n + 1) := by
      simp [chainInserts, o]
    rw [happ]
    have : t.startOp + t.pending.length + n + (p :: ps).length =
        t.startOp + t.pending.length + (n + 1) + ps.length := by simp; omega
    rw [this]
    exact ih

theorem spliceDelOps_shift (t : Tx) (obj : ObjId) (ins : List Op) :
    ∀ (X : List (OpId × List Entry)) (n : Nat),
      spliceDelOps { t with pending := t.pending ++ ins } obj n X = spliceDelOps t obj (ins.length + n) X
  | [], _ => rfl
  | p :: X, n => by
    have hid : ({ t with pending := t.pending ++ ins } : Tx).nextId n = t.nextId (ins.length + n) := by
      simp only [Tx.nextId, List.length_append]
      congr 1; omega
    simp only [spliceDelOps]
    rw [hid, spliceDelOps_shift t obj ins X (n + 1)]
    rfl

/-- what a successful `splice_text` is made of -/
theorem spliceWith_ok {e : Enc} {ops : List Op} {t : Tx} {obj : ObjId} {index del : Nat}
    {pieces : List Bytes} {l : List Op} (h : spliceWith e ops t obj index del pieces = .ok l) :
    objType ops obj = some .text ∧ ∃ key idx,
      (if pieces.isEmpty then (.ok (.head, index) : Except EditErr (Key × Nat))
        else insertRef e true (seqRegs ops obj) index 0 .head) = .ok (key, idx) ∧
      l = chainInserts t obj pieces key 0 ++
        deleteLoop e true { t with pending := t.pending ++ chainInserts t obj pieces key 0 } obj (del + 1)
          (ops ++ chainInserts t obj pieces key 0) (idx + (pieces.map (width e)).foldl (· + ·) 0) 0 del [] := by
  unfold spliceWith at h
  cases hty : objType ops obj with
  | none => rw [objMeta_eq_error.mpr ⟨rfl, hty⟩] at h; cases h
  | some ty =>
    rw [objMeta_eq_ok.mpr hty] at h
    simp only at h
    by_cases htt : ty = .text
    · subst htt
      simp only [bne_self_eq_false, Bool.false_eq_true, if_false] at h
      cases href : (if pieces.isEmpty then (.ok (.head, index) : Except EditErr (Key × Nat))
          else insertRef e true (seqRegs ops obj) index 0 .head) with
      | error err => rw [href] at h; cases h
      | ok p =>
        obtain ⟨key, idx⟩ := p
        rw [href] at h
        simp only at h
        cases h
        exact ⟨rfl, key, idx, rfl, rfl⟩
    · have : (ty != .text) = true := by simpa using htt
      simp [this] at h

/-- **splice_text, all of it.**  `j` = the number of visible elements the first `index` units
    cover.  The call appends the chain of insert ops of the pieces, keyed on the `j`-th element
    (HEAD for 0), then one delete op per element of `spliceRemoved del (drop j)`; the visible
    element list is  take j ++ chain ++ spliceKept del (drop j). -/
theorem splice_full {e : Enc} {ops : List Op} {t : Tx} {obj : ObjId} {index del : Nat} {text : Bytes}
    {l : List Op} (hs : StrictIds ops) (hb : CtrBelow ops (t.startOp + t.pending.length))
    (hr : RefsSmaller ops) (h : localSpliceText e ops t obj index del text = .ok l)
    (hix : text = [] → index ≤ elUnits e (seqElems ops obj)) :
    objType ops obj = some .text ∧ index ≤ elUnits e (seqElems ops obj) ∧
    l = chainInserts t obj (utf8Chars text)
          (spliceRefKey (seqElems ops obj) (reachCount e index (seqElems ops obj))) 0 ++
        spliceDelOps t obj (utf8Chars text).length
          (spliceRemoved e del ((seqElems ops obj).drop (reachCount e index (seqElems ops obj)))) ∧
    seqElems (ops ++ l) obj =
      (seqElems ops obj).take (reachCount e index (seqElems ops obj)) ++
        chainEntries t (utf8Chars text) 0 ++
        spliceKept e del ((seqElems ops obj).drop (reachCount e index (seqElems ops obj))) := by
  rw [localSpliceText_eq] at h
  obtain ⟨hty, key, idx, href, hl⟩ := spliceWith_ok h
  refine ⟨hty, ?_⟩
  by_cases hne : text = []
  · -- nothing to insert: the loop starts at `index`, possibly inside an element
    subst hne
    have hix' := hix rfl
    refine ⟨hix', ?_⟩
    rw [utf8Chars_nil] at href hl ⊢
    simp only [List.isEmpty_nil, if_true] at href
    cases href
    simp only [chainInserts, List.append_nil, List.map_nil, List.foldl_nil, Nat.add_zero,
      List.nil_append, chainEntries, List.length_nil] at hl ⊢
    generalize hj : reachCount e index (seqElems ops obj) = j
    have hreach : index ≤ elUnits e ((seqElems ops obj).take j) := by
      rw [← hj]; exact reachCount_reaches e index _ hix'
    have hbt : CtrBelow ops (({ t with pending := t.pending } : Tx).startOp +
        ({ t with pending := t.pending } : Tx).pending.length + ([] : List Op).length) := by
      simpa using hb
    have hshift : ∀ X, spliceDelOps ({ t with pending := t.pending } : Tx) obj 0 X = spliceDelOps t obj 0 X :=
      fun X => rfl
    by_cases hal : elUnits e ((seqElems ops obj).take j) = index
    · obtain ⟨h1, h2⟩ := deleteLoop_aligned e { t with pending := t.pending } obj (del + 1) ops index 0 del []
        ((seqElems ops obj).take j) ((seqElems ops obj).drop j) hs hbt hr
        (List.take_append_drop j _).symm hal (by omega)
      rw [Nat.sub_zero, List.length_nil, hshift] at h1 h2
      rw [List.nil_append] at h1
      rw [hl, h1]
      exact ⟨rfl, h2⟩
    · by_cases hd0 : del = 0
      · subst hd0
        rw [deleteLoop_zero] at hl
        subst hl
        simp [spliceRemoved_zero, spliceKept_zero, spliceDelOps]
      · rw [deleteLoop_succ, if_neg (by omega)] at hl
        cases hseek : seekByIndex e true (seqRegs ops obj) index 0 with
        | none =>
          exfalso
          have hu := (seekByIndex_eq_none (Nat.zero_le _)).mp hseek
          rw [unitsLen_eq_elUnits] at hu
          have := elUnits_take_le e (seqElems ops obj) j
          omega
        | some res =>
          obtain ⟨eid, reg, start⟩ := res
          rw [hseek] at hl
          simp only [] at hl
          obtain ⟨k, hk, hst, hle, hlt⟩ := seekByIndex_some (Nat.zero_le _) hseek
          have hw : regWidth e true reg = elWidth e (regEntry ops (eid, reg)) :=
            regWidth_eq_elWidth (List.mem_of_getElem? hk)
          have hgetL : (seqElems ops obj)[k]? = some (regEntry ops (eid, reg)) := by
            rw [seqElems_getElem?, hk]; rfl
          rw [Nat.zero_add, unitsLen_take_eq] at hst
          have hsucc := elUnits_take_succ e hgetL
          have hkj : k + 1 = j := by
            rcases Nat.lt_trichotomy (k + 1) j with hlt' | heq | hgt
            · have := reachCount_min e index (seqElems ops obj) (k + 1) (by omega)
              omega
            · exact heq
            · have := elUnits_take_mono e (seqElems ops obj) (show j ≤ k by omega)
              omega
          have hstlt : start < index := by
            have := reachCount_min e index (seqElems ops obj) k (by omega)
            omega
          rw [if_pos hstlt] at hl
          obtain ⟨h1, h2⟩ := deleteLoop_aligned e { t with pending := t.pending } obj del ops
            (start + regWidth e true reg) 0 del []
            ((seqElems ops obj).take j) ((seqElems ops obj).drop j) hs hbt hr
            (List.take_append_drop j _).symm (by rw [← hkj]; omega) (by omega)
          rw [Nat.sub_zero, List.length_nil, hshift] at h1 h2
          rw [List.nil_append] at h1
          rw [hl, h1]
          exact ⟨rfl, h2⟩
  · -- something to insert: the chain goes behind element `j`, the loop starts right after it
    have hp' : (utf8Chars text).isEmpty = false := by
      cases hh : utf8Chars text with
      | nil => exact absurd (utf8Chars_eq_nil.mp hh) hne
      | cons _ _ => rfl
    simp only [hp', Bool.false_eq_true, if_false] at href
    obtain ⟨j, hj, hacc, hti, h0, hpos⟩ := insertRef_ok href
    rw [Nat.zero_add, unitsLen_take_eq] at hacc
    have hjr : reachCount e index (seqElems ops obj) = j := by
      apply reachCount_unique
      · omega
      · intro hjp
        obtain ⟨_, _, _, hlt'⟩ := hpos hjp
        rw [Nat.zero_add, unitsLen_take_eq] at hlt'
        exact hlt'
    rw [hjr]
    have hixx : index ≤ elUnits e (seqElems ops obj) := by
      have := elUnits_take_le e (seqElems ops obj) j
      omega
    refine ⟨hixx, ?_⟩
    have hkeyref : key = spliceRefKey (seqElems ops obj) j := by
      cases j with
      | zero => exact h0 rfl
      | succ j' =>
        obtain ⟨p, hp, hk, _⟩ := hpos (by omega)
        have hget : (seqElems ops obj)[j']? = some (regEntry ops p) := by
          rw [seqElems_getElem?]
          simp only [Nat.add_sub_cancel] at hp
          rw [hp]; rfl
        simp only [spliceRefKey, hget]
        exact hk
    have hkey : key = .head ∨ ∃ c ∈ rgaOrder ops obj, key = .elem c.id ∧ c.isMark = false ∧
        elemRegister ops obj c.id ≠ [] := by
      rcases insertRef_ok_key href with rfl | ⟨id, r, hm, rfl⟩
      · exact .inl rfl
      · obtain ⟨c, hc, hmk, rfl, rfl, hne'⟩ := mem_seqRegs hm
        refine .inr ⟨c, hc, rfl, hmk, ?_⟩
        rw [elemRegister_eq, ← elemRegOps_eq]
        intro h0
        exact hne' (List.map_eq_nil_iff.mp h0)
    obtain ⟨hs1, hr1, hseq⟩ := chain_effect t obj (utf8Chars text) key 0 ops hs (by simpa using hb) hr hkey
    have hseq' : seqElems (ops ++ chainInserts t obj (utf8Chars text) key 0) obj =
        ((seqElems ops obj).take j ++ chainEntries t (utf8Chars text) 0) ++ (seqElems ops obj).drop j := by
      rw [hseq]
      by_cases hj0 : j = 0
      · subst hj0
        rw [h0 rfl, if_pos rfl, insAfterEL_head]
        simp
      · obtain ⟨p, hp, hk, _⟩ := hpos (by omega)
        rw [hk, if_neg (by intro hh; cases hh)]
        have hget : (seqElems ops obj)[j - 1]? = some (regEntry ops p) := by
          rw [seqElems_getElem?, hp]; rfl
        have := insAfterEL_at (chainEntries t (utf8Chars text) 0)
          (seqElems_ids_nodup (rgaOrder_ids_nodup hs hr obj)) hget
        have hj1 : j - 1 + 1 = j := by omega
        rw [hj1] at this
        have hfst : (regEntry ops p).1 = p.1 := rfl
        rw [hfst] at this
        simpa using this
    have hb1 := ctrBelow_chain t obj (utf8Chars text) key 0 ops (by simpa using hb)
      (by
        rcases hkey with hk | ⟨c, hc, hk, _⟩
        · exact .inl hk
        · exact .inr ⟨c, (mem_rgaFrom hc).1, hk⟩)
    have hD : elUnits e ((seqElems ops obj).take j ++ chainEntries t (utf8Chars text) 0) =
        idx + ((utf8Chars text).map (width e)).foldl (· + ·) 0 := by
      rw [elUnits_append, elUnits_chainEntries, foldl_plus_eq_sum, hacc]; omega
    obtain ⟨h1, h2⟩ := deleteLoop_aligned e
      { t with pending := t.pending ++ chainInserts t obj (utf8Chars text) key 0 } obj (del + 1)
      (ops ++ chainInserts t obj (utf8Chars text) key 0)
      (idx + ((utf8Chars text).map (width e)).foldl (· + ·) 0) 0 del []
      ((seqElems ops obj).take j ++ chainEntries t (utf8Chars text) 0) ((seqElems ops obj).drop j)
      hs1 (by simpa [chainInserts_length, Nat.add_assoc] using hb1) hr1 hseq' hD (by omega)
    rw [Nat.sub_zero, List.length_nil, spliceDelOps_shift, chainInserts_length] at h1 h2
    simp only [Nat.add_zero] at h1 h2
    rw [List.nil_append] at h1
    rw [hl, h1, ← hkeyref]
    refine ⟨rfl, ?_⟩
    rw [← List.append_assoc, h2]

/-- with nothing to insert, a position beyond the end deletes nothing (and is not an error) -/
theorem splice_past_end {e : Enc} {ops : List Op} {t : Tx} {obj : ObjId} {index del : Nat} {l : List Op}
    (h : localSpliceText e ops t obj index del [] = .ok l)
    (hix : elUnits e (seqElems ops obj) ≤ index) : l = [] := by
  rw [localSpliceText_eq] at h
  obtain ⟨_, key, idx, href, hl⟩ := spliceWith_ok h
  rw [utf8Chars_nil] at href hl
  simp only [List.isEmpty_nil, if_true] at href
  cases href
  simp only [chainInserts, List.append_nil, List.map_nil, List.foldl_nil, Nat.add_zero,
    List.nil_append] at hl
  rw [deleteLoop_succ] at hl
  split at hl
  · exact hl
  · have hseek : seekByIndex e true (seqRegs ops obj) index 0 = none := by
      rw [seekByIndex_eq_none (Nat.zero_le _), unitsLen_eq_elUnits]; omega
    rw [hseek] at hl
    exact hl

/-- the `i`-th delete op: id the `(n+i)`-th next id, keyed on the `i`-th removed element, naming
    the ids of all entries of its register -/
theorem spliceDelOps_getElem? (t : Tx) (obj : ObjId) :
    ∀ (X : List (OpId × List Entry)) (n i : Nat),
      (spliceDelOps t obj n X)[i]? =
        (X[i]?).map (fun p => (⟨t.nextId (n + i), obj, .elem p.1, false, .del, p.2.map (·.id)⟩ : Op))
  | [], _, _ => by simp [spliceDelOps]
  | p :: X, n, 0 => by simp [spliceDelOps]
  | p :: X, n, i + 1 => by
    simp only [spliceDelOps, List.getElem?_cons_succ]
    rw [spliceDelOps_getElem? t obj X (n + 1) i]
    have : n + 1 + i = n + (i + 1) := by omega
    rw [this]

/-- deleting at least as many units as there are removes every element of positive width -/
theorem spliceKept_all (e : Enc) : ∀ (n : Nat) (l : List (OpId × List Entry)),
    elUnits e l ≤ n → spliceKept e n l = l.filter (fun p => elWidth e p == 0)
  | _, [], _ => by simp [spliceKept]
  | n, p :: l, h => by
    rw [elUnits_cons] at h
    rw [spliceKept_cons]
    by_cases hn : n = 0
    · have hz := elUnits_eq_zero (e := e) (l := p :: l) (by rw [elUnits_cons]; omega)
      rw [if_pos hn]
      symm
      rw [List.filter_eq_self]
      intro q hq
      simp [hz q hq]
    · rw [if_neg hn]
      by_cases hw : elWidth e p = 0
      · rw [if_pos hw, spliceKept_all e n l (by omega)]
        simp [hw]
      · rw [if_neg hw, spliceKept_all e (n - elWidth e p) l (by omega)]
        simp [hw]

/-- an entry of the visible element list is its element's register; the ids of its entries are
    the ids of the element's visible ops -/
theorem seqElems_entry {ops : List Op} {obj : ObjId} {p : OpId × List Entry} (h : p ∈ seqElems ops obj) :
    p.2 = elemRegister ops obj p.1 ∧ p.2.map (·.id) = (elemRegOps ops obj p.1).map (·.id) := by
  obtain ⟨i, r⟩ := p
  obtain ⟨_, _, _, _, hr, _⟩ := mem_seqElems.mp h
  refine ⟨hr, ?_⟩
  show r.map (·.id) = _
  rw [hr, elemRegister_eq, ← elemRegOps_eq, List.map_map]
  apply List.map_congr_left
  intro x _
  exact entryOf_id ops x

end AmVerif.Crdt
