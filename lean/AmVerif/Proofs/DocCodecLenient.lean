import AmVerif.Proofs.DocCodecCols
/-
  Helper lemmas for C11 (document chunk): the NON-validating streaming decoders (`hexane::decoder`,
  `DeltaDecoder`) that `ChangeGraphCols::load` uses, on the canonical bytes the encoders write:
  they deliver the encoded values one by one and then end.
-/
namespace AmVerif.DocCodec
open AmVerif
open AmVerif.Hexane (ValCodec Item cU64 cU32 cI64 rleEncode two63 two64 itemsOf itemsLen Lawful ListValid expand
  canon PState writeItems writeItem readS readU encS encU)

/-- the stream delivers exactly `ys` and then ends, whatever the budget above their number -/
def Yields {α : Type} (c : ValCodec α) (s : LSt α) (ys : List (Option α)) : Prop :=
  ∀ b, ys.length < b → lCollect c false b s = .ok (some ys)

theorem lCollect_succ {α : Type} (c : ValCodec α) (nullOk : Bool) (b : Nat) (s : LSt α) :
    lCollect c nullOk (b + 1) s =
      (match lNext c nullOk s with
       | .err e => .err e
       | .panic p => .panic p
       | .ok (none, _) => .ok (some [])
       | .ok (some v, s) =>
         match lCollect c nullOk b s with
         | .ok (some r) => .ok (some (v :: r))
         | o => o) := rfl

theorem yields_nil_of {α : Type} (c : ValCodec α) (s s' : LSt α) (h : lNext c false s = .ok (none, s')) :
    Yields c s [] := by
  intro b hb
  cases b with
  | zero => simp at hb
  | succ b => rw [lCollect_succ, h]

theorem yields_cons_of {α : Type} (c : ValCodec α) (s s' : LSt α) (y : Option α) (ys : List (Option α))
    (h : lNext c false s = .ok (some y, s')) (hy : Yields c s' ys) : Yields c s (y :: ys) := by
  intro b hb
  cases b with
  | zero => simp at hb
  | succ b =>
    simp only [List.length_cons] at hb
    rw [lCollect_succ, h]
    simp only [hy b (by omega)]

/-- the first value of a stream that yields `y :: ys` -/
theorem yields_cons {α : Type} (c : ValCodec α) (s : LSt α) (y : Option α) (ys : List (Option α))
    (h : Yields c s (y :: ys)) : ∃ s', lNext c false s = .ok (some y, s') ∧ Yields c s' ys := by
  have h1 := h (ys.length + 1 + 1) (by simp)
  rw [lCollect_succ] at h1
  cases hn : lNext c false s with
  | err e => rw [hn] at h1; cases h1
  | panic p => rw [hn] at h1; cases h1
  | ok r =>
    obtain ⟨o, s'⟩ := r
    rw [hn] at h1
    cases o with
    | none => simp at h1
    | some v =>
      refine ⟨s', ?_, ?_⟩
      · simp only at h1
        cases hc : lCollect c false (ys.length + 1) s' with
        | err e => rw [hc] at h1; cases h1
        | panic p => rw [hc] at h1; cases h1
        | ok r =>
          rw [hc] at h1
          cases r with
          | none => simp at h1
          | some l =>
            simp only [Outcome.ok.injEq, Option.some.injEq, List.cons.injEq] at h1
            rw [h1.1]
      · intro b hb
        have h2 := h (b + 1) (by simp; omega)
        rw [lCollect_succ, hn] at h2
        simp only at h2
        cases hc : lCollect c false b s' with
        | err e => rw [hc] at h2; cases h2
        | panic p => rw [hc] at h2; cases h2
        | ok r =>
          rw [hc] at h2
          cases r with
          | none => simp at h2
          | some l =>
            simp only [Outcome.ok.injEq, Option.some.injEq, List.cons.injEq] at h2
            rw [h2.2]

theorem yields_nil {α : Type} (c : ValCodec α) (s : LSt α) (h : Yields c s []) :
    ∃ s', lNext c false s = .ok (none, s') := by
  have h1 := h (0 + 1) (by simp)
  rw [lCollect_succ] at h1
  cases hn : lNext c false s with
  | err e => rw [hn] at h1; cases h1
  | panic p => rw [hn] at h1; cases h1
  | ok r =>
    obtain ⟨o, s'⟩ := r
    rw [hn] at h1
    cases o with
    | none => exact ⟨s', rfl⟩
    | some v =>
      simp only at h1
      cases hc : lCollect c false 0 s' with
      | err e => rw [hc] at h1; cases h1
      | panic p => rw [hc] at h1; cases h1
      | ok r =>
        rw [hc] at h1
        cases r with
        | none => simp at h1
        | some l => simp at h1

/-- two states from which the next step is the same deliver the same stream -/
theorem yields_of_lNext_eq {α : Type} (c : ValCodec α) (s s₂ : LSt α) (ys : List (Option α))
    (h : lNext c false s = lNext c false s₂) (hy : Yields c s₂ ys) : Yields c s ys := by
  intro b hb
  cases b with
  | zero => simp at hb
  | succ b =>
    have := hy (b + 1) hb
    rw [lCollect_succ] at this ⊢
    rw [h]
    exact this

/-- inside a repeat run: the cached value `m` more times -/
theorem yields_rep {α : Type} (c : ValCodec α) (v : α) : ∀ (m : Nat) (data : Bytes) (ys : List (Option α)),
    Yields c ⟨data, 0, .rep v⟩ ys → Yields c ⟨data, m, .rep v⟩ (List.replicate m (some v) ++ ys)
  | 0, _, _, h => by simpa using h
  | m + 1, data, ys, h => by
    simp only [List.replicate_succ, List.cons_append]
    apply yields_cons_of c _ ⟨data, m, .rep v⟩
    · simp [lNext]
    · exact yields_rep c v m data ys h

/-- the state of the decoder relative to the canonical-form state of the validating parser: inside a
    literal run with as many values left, or between runs -/
def Sync {α : Type} (pst : PState α) (s : LSt α) : Prop :=
  if pst.litLeft > 0 then (match s.run with | .lit => True | _ => False) ∧ s.remaining = pst.litLeft
  else s.remaining = 0

theorem writeItems_ne_nil {α : Type} {c : ValCodec α} {Valid : α → Prop} (law : Lawful c Valid)
    (x : Item α) (r : List (Item α)) : writeItems c (x :: r) ≠ [] := by
  rw [Hexane.writeItems_cons]
  intro h
  have h1 := (List.append_eq_nil_iff.mp h).1
  cases x with
  | head k => exact Hexane.encS_ne_nil _ h1
  | litv v => exact law.ne v h1
  | run n v => exact Hexane.encS_ne_nil _ (List.append_eq_nil_iff.mp h1).1
  | null n => exact Hexane.encS_ne_nil _ (List.append_eq_nil_iff.mp h1).1

/-- **the streaming decoder on canonical segments of a non-nullable column** yields their values -/
theorem yields_canon {α : Type} [DecidableEq α] {c : ValCodec α} {Valid : α → Prop} (law : Lawful c Valid) :
    ∀ (items : List (Item α)) (pst : PState α) (s : LSt α),
      canon Valid false pst items → Sync pst s → s.data = writeItems c items → Yields c s (expand items) := by
  intro items
  induction items with
  | nil =>
    intro pst s hc hs hd
    simp only [canon] at hc
    simp only [Sync, hc, Nat.lt_irrefl, if_false] at hs
    apply yields_nil_of c s { s with remaining := 0, run := .idle }
    obtain ⟨data, rem, run⟩ := s
    simp only at hs hd
    subst hs
    simp [lNext, lAdvance, hd, writeItems]
  | cons x r ih =>
    intro pst s hc hs hd
    obtain ⟨data, rem, run⟩ := s
    simp only at hd
    cases x with
    | litv v =>
      obtain ⟨h1, _, _, hv, hrest⟩ := hc
      simp only [Sync, h1, if_true] at hs
      obtain ⟨hrun, hrem⟩ := hs
      cases run with
      | lit =>
        simp only [expand]
        apply yields_cons_of c _ ⟨writeItems c r, rem - 1, .lit⟩
        · have hpos : rem > 0 := by omega
          rw [Hexane.writeItems_cons] at hd
          simp only [lNext, hpos, if_true, hd, writeItem, law.rt v _ hv]
        · apply ih _ _ hrest _ rfl
          simp only [Sync]
          split
          · exact ⟨trivial, by omega⟩
          · omega
      | idle => cases hrun
      | rep w => cases hrun
      | null => cases hrun
    | head k =>
      obtain ⟨h0, hk0, hk, _, hrest⟩ := hc
      simp only [Sync, h0, Nat.lt_irrefl, if_false] at hs
      -- reading the header leaves the decoder inside a literal run of `k` values
      apply yields_of_lNext_eq c _ ⟨writeItems c r, k, .lit⟩
      · have hne : data.isEmpty = false := by
          rw [hd]
          cases hw : writeItems c (Item.head k :: r) with
          | nil => exact absurd hw (writeItems_ne_nil law _ _)
          | cons a b => rfl
        have hrd : readS data = .ok (-(k : Int), writeItems c r) := by
          rw [hd, Hexane.writeItems_cons]
          simp only [writeItem]
          exact Hexane.readS_encS _ _ (by unfold two63 at *; omega) (by unfold two63 at *; omega)
        have hneg : ¬ (-(k : Int)) > 0 := by omega
        have hlt : (-(k : Int)) < 0 := by omega
        have hmin : ¬ (-(k : Int)) = -(two63 : Int) := by omega
        have hk1 : ¬ k = 0 := by omega
        simp only [lNext, hs, Nat.lt_irrefl, if_false, lAdvance, hne, Bool.false_eq_true, hrd, hneg, hlt,
          if_true, hmin, Int.neg_neg, Int.toNat_natCast, hk1, hk0]
      · simp only [expand]
        apply ih _ _ hrest _ rfl
        simp only [Sync, hk0, if_true]
        trivial
    | run n v =>
      obtain ⟨h0, hn2, hn, _, hv, hrest⟩ := hc
      simp only [Sync, h0, Nat.lt_irrefl, if_false] at hs
      have hexp : expand (Item.run n v :: r) = some v :: (List.replicate (n - 1) (some v) ++ expand r) := by
        simp only [expand]
        cases n with
        | zero => omega
        | succ m => simp [List.replicate_succ]
      rw [hexp]
      apply yields_cons_of c _ ⟨writeItems c r, n - 1, .rep v⟩
      · have hne : data.isEmpty = false := by
          rw [hd]
          cases hw : writeItems c (Item.run n v :: r) with
          | nil => exact absurd hw (writeItems_ne_nil law _ _)
          | cons a b => rfl
        have hrd : readS data = .ok ((n : Int), c.pack v ++ writeItems c r) := by
          rw [hd, Hexane.writeItems_cons]
          simp only [writeItem, List.append_assoc]
          exact Hexane.readS_encS _ _ (by unfold two63 at *; omega) (by unfold two63 at *; omega)
        have hpos : (n : Int) > 0 := by omega
        have hn0 : ¬ n = 0 := by omega
        simp only [lNext, hs, Nat.lt_irrefl, if_false, lAdvance, hne, Bool.false_eq_true, hrd, hpos, if_true,
          law.rt v _ hv, Int.toNat_natCast, hn0]
      · apply yields_rep
        apply ih _ _ hrest _ rfl
        simp only [Sync, Nat.lt_irrefl, if_false]
    | null n =>
      obtain ⟨_, _, _, _, hnull, _⟩ := hc
      cases hnull

/-- **`hexane::decoder::<T>(bytes)` on the bytes `Encoder<T>::encode_to` writes** -/
theorem yields_encode {α : Type} [DecidableEq α] {c : ValCodec α} {Valid : α → Prop} (law : Lawful c Valid)
    (xs : List α) (hlen : xs.length < two63) (hv : ∀ x ∈ xs, Valid x) :
    Yields c (lInit (encNonNull c xs)) (xs.map some) := by
  have hv' : ListValid Valid false (xs.map some) := by
    intro x hx
    obtain ⟨y, hy, rfl⟩ := List.mem_map.mp hx
    exact hv y hy
  have := yields_canon law (itemsOf (xs.map some)) {} (lInit (encNonNull c xs))
    (Hexane.canon_itemsOf Valid false (xs.map some) (by simpa using hlen) hv') (by simp [Sync, lInit]) rfl
  rwa [Hexane.expand_itemsOf] at this

/-- `.collect()` within the budget -/
theorem lenientCol_encode {Valid : Nat → Prop} {c : ValCodec Nat} (law : Lawful c Valid) (limit : Nat)
    (xs : List Nat) (hlen : xs.length < two63) (hl : xs.length ≤ limit) (hv : ∀ x ∈ xs, Valid x) :
    lenientCol c limit (encNonNull c xs) = .ok (some xs) := by
  unfold lenientCol
  rw [yields_encode law xs hlen hv (limit + 1) (by simp; omega)]
  simp only [somes_map_some]

/-! ### delta streams (`DeltaEncoder<usize>` / `DeltaDecoder<u32>`) -/

/-- the differences `DeltaEncoder` writes, from the running value `a` -/
def diffs : List Nat → Int → List Int
  | [], _ => []
  | x :: xs, a => ((x : Int) - a) :: diffs xs x

/-- the running value after the values `ys` -/
def runAfter (a : Int) : List Nat → Int
  | [] => a
  | y :: ys => runAfter y ys

theorem deltas_ofNat : ∀ (xs : List Nat) (a : Int),
    Hexane.deltas (xs.map (fun (n : Nat) => some (Int.ofNat n))) a = (diffs xs a).map some
  | [], _ => rfl
  | x :: xs, a => by simp only [List.map_cons, Hexane.deltas, diffs, deltas_ofNat xs]; rfl

theorem diffs_append : ∀ (ys rest : List Nat) (a : Int),
    diffs (ys ++ rest) a = diffs ys a ++ diffs rest (runAfter a ys)
  | [], _, _ => rfl
  | y :: ys, rest, a => by simp only [List.cons_append, diffs, runAfter, diffs_append ys rest]

theorem diffs_length : ∀ (xs : List Nat) (a : Int), (diffs xs a).length = xs.length
  | [], _ => rfl
  | x :: xs, a => by simp [diffs, diffs_length xs]

/-- differences of values below 2^32 (from a running value in that range) are `i64`s -/
theorem diffs_valid : ∀ (xs : List Nat) (a : Int), 0 ≤ a → a < 2 ^ 32 → (∀ x ∈ xs, x < 2 ^ 32) →
    ∀ d ∈ diffs xs a, Hexane.validI64 d
  | [], _, _, _, _, d, hd => by cases hd
  | x :: xs, a, h0, h1, hx, d, hd => by
    have hx0 := hx x List.mem_cons_self
    simp only [diffs, List.mem_cons] at hd
    rcases hd with rfl | hd
    · unfold Hexane.validI64 two63; constructor <;> omega
    · exact diffs_valid xs x (by omega) (by omega) (fun y hy => hx y (List.mem_cons_of_mem _ hy)) d hd

theorem encDelta_eq (xs : List Nat) : encDelta xs = encNonNull cI64 (diffs xs 0) := by
  unfold encDelta Hexane.deltaEncode encNonNull
  rw [deltas_ofNat]

theorem asU32_small (x : Nat) (h : x < 2 ^ 32) : asU32 (x : Int) = x := by
  unfold asU32
  have : ((x : Int) % (2 ^ 32 : Int)) = (x : Int) := Int.emod_eq_of_lt (by omega) (by omega)
  rw [this]; simp

theorem deltaRun_diffs : ∀ (xs : List Nat) (a : Int), (∀ x ∈ xs, x < 2 ^ 32) →
    deltaRun ((diffs xs a).map some) a = .ok xs
  | [], _, _ => rfl
  | x :: xs, a, hx => by
    have hx0 := hx x List.mem_cons_self
    have hs : a + ((x : Int) - a) = (x : Int) := by omega
    have hin : Hexane.inI64 (x : Int) = true := by unfold Hexane.inI64 two63; simp; omega
    simp only [diffs, List.map_cons, deltaRun, hs, hin, not_true_eq_false, if_false,
      deltaRun_diffs xs x (fun y hy => hx y (List.mem_cons_of_mem _ hy)), asU32_small x hx0]

/-- **`DeltaDecoder::<u32>::new(bytes).collect()` on what `DeltaEncoder<usize>` wrote** -/
theorem lenientDelta_encode (limit : Nat) (xs : List Nat) (hlen : xs.length < two63) (hl : xs.length ≤ limit)
    (hx : ∀ x ∈ xs, x < 2 ^ 32) : lenientDelta limit (encDelta xs) = .ok (some xs) := by
  unfold lenientDelta
  rw [encDelta_eq]
  have hy := yields_encode Hexane.lawful_i64 (diffs xs 0) (by rw [diffs_length]; exact hlen)
    (diffs_valid xs 0 (by omega) (by omega) hx)
  rw [hy (limit + 1) (by simp [diffs_length]; omega)]
  simp only [deltaRun_diffs xs 0 hx]

/-- one value of the dependency stream -/
theorem ldNext_yields (s : LSt Int) (a : Int) (y : Nat) (ys : List Nat) (hy : y < 2 ^ 32)
    (h : Yields cI64 s ((diffs (y :: ys) a).map some)) :
    ∃ s', ldNext (s, a) = .ok (some y, (s', (y : Int))) ∧ Yields cI64 s' ((diffs ys y).map some) := by
  simp only [diffs, List.map_cons] at h
  obtain ⟨s', h1, h2⟩ := yields_cons cI64 s _ _ h
  refine ⟨s', ?_, h2⟩
  have hs : a + ((y : Int) - a) = (y : Int) := by omega
  have hin : Hexane.inI64 (y : Int) = true := by unfold Hexane.inI64 two63; simp; omega
  simp only [ldNext, h1, hs, hin, not_true_eq_false, if_false, asU32_small y hy]

/-- the `for e in 0..d` loop over a stream that holds the dependencies -/
theorem readDeps_yields (maxOps : List Nat) : ∀ (ys rest : List Nat) (s : LSt Int) (a : Int),
    (∀ y ∈ ys, y < 2 ^ 32 ∧ y < maxOps.length) →
    Yields cI64 s ((diffs (ys ++ rest) a).map some) →
    ∃ s', readDeps maxOps ys.length (s, a) = .ok (ys, (s', runAfter a ys)) ∧
      Yields cI64 s' ((diffs rest (runAfter a ys)).map some)
  | [], rest, s, a, _, h => ⟨s, rfl, h⟩
  | y :: ys, rest, s, a, hy, h => by
    obtain ⟨hy1, hy2⟩ := hy y List.mem_cons_self
    obtain ⟨s1, e1, h1⟩ := ldNext_yields s a y (ys ++ rest) hy1 h
    obtain ⟨s2, e2, h2⟩ := readDeps_yields maxOps ys rest s1 y (fun z hz => hy z (List.mem_cons_of_mem _ hz)) h1
    refine ⟨s2, ?_, h2⟩
    have hnot : ¬ maxOps.length ≤ y := by omega
    simp only [List.length_cons, readDeps, e1, if_neg hnot, e2, runAfter]

/-- what the dependency loop needs from the change rows: dependencies are earlier rows with a
    `max_op` not above the row's own -/
def DepsOk (maxOps : List Nat) (i : Nat) (deps : List Nat) : Prop :=
  ∃ mi, maxOps[i]? = some mi ∧ ∀ d ∈ deps, d < 2 ^ 32 ∧ ∃ md, maxOps[d]? = some md ∧ md ≤ mi

theorem foldl_max_le (l : List Nat) (b m : Nat) (hb : b ≤ m) (h : ∀ x ∈ l, x ≤ m) : l.foldl max b ≤ m := by
  induction l generalizing b with
  | nil => exact hb
  | cons x xs ih =>
    simp only [List.foldl_cons]
    exact ih (max b x) (by have := h x List.mem_cons_self; omega) (fun y hy => h y (List.mem_cons_of_mem _ hy))

/-- **the dependency loop of `ChangeGraphCols::load`** on the encoded columns -/
theorem depsLoop_yields (maxOps : List Nat) : ∀ (depss : List (List Nat)) (s : LSt Int) (a : Int) (i : Nat),
    (∀ k (h : k < depss.length), DepsOk maxOps (i + k) depss[k]) →
    Yields cI64 s ((diffs depss.flatten a).map some) →
    depsLoop maxOps (depss.map (·.length)) (s, a) i = .ok depss
  | [], _, _, _, _, _ => rfl
  | deps :: rest, s, a, i, hok, h => by
    obtain ⟨mi, hmi, hd⟩ := hok 0 (by simp)
    simp only [Nat.add_zero, List.getElem_cons_zero] at hmi hd
    simp only [List.flatten_cons] at h
    obtain ⟨s', e1, h1⟩ := readDeps_yields maxOps deps rest.flatten s a
      (fun y hy => by
        obtain ⟨h32, md, hmd, _⟩ := hd y hy
        exact ⟨h32, by
          have := List.getElem?_eq_some_iff.mp hmd
          exact this.1⟩) h
    have hlast : ¬ (deps.length ≠ 0 ∧ (deps.filterMap (fun v => maxOps[v]?)).foldl max 0 > mi) := by
      intro ⟨_, hgt⟩
      have : (deps.filterMap (fun v => maxOps[v]?)).foldl max 0 ≤ mi := by
        apply foldl_max_le _ _ _ (Nat.zero_le _)
        intro x hx
        obtain ⟨v, hv, hvx⟩ := List.mem_filterMap.mp hx
        obtain ⟨_, md, hmd, hle⟩ := hd v hv
        rw [hmd] at hvx
        cases hvx
        exact hle
      omega
    have ih := depsLoop_yields maxOps rest s' (runAfter a deps) (i + 1)
      (fun k hk => by
        have := hok (k + 1) (by simp; omega)
        simp only [List.getElem_cons_succ] at this
        rw [show i + 1 + k = i + (k + 1) by omega]
        exact this) h1
    simp only [List.map_cons, depsLoop, e1, hmi, if_neg hlast, ih]

end AmVerif.DocCodec
