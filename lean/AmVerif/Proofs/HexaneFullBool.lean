import AmVerif.Proofs.HexaneCanon
/-
  Helper lemmas for C35 (first sentence, boolean columns): `BoolLoadIter` (both the streaming and
  the drain path) reads back the alternating run lengths `BoolEncoder` writes, and they expand to
  the original values.
-/
namespace AmVerif.Hexane
open AmVerif

/-- the state after one accepted run of `count` items (`BoolLoadIter::try_next_run`) -/
def BState.next (st : BState) (count : Nat) : BState :=
  let st1 : BState := { st with runIndex := st.runIndex + 1, slabItems := st.slabItems + count, slabSegs := st.slabSegs + 1 }
  if st1.slabSegs ≥ 32 then { st1 with closed := st1.closed + st1.slabItems, slabItems := 0, slabSegs := 0 } else st1

theorem BState.next_total (st : BState) (count : Nat) :
    (st.next count).closed + (st.next count).slabItems = st.closed + st.slabItems + count := by
  unfold BState.next
  simp only
  split
  · simp only; omega
  · simp only; omega

theorem BState.next_runIndex (st : BState) (count : Nat) : (st.next count).runIndex = st.runIndex + 1 := by
  unfold BState.next
  simp only
  split <;> rfl

theorem boolParse_step (checked : Bool) (f c : Nat) (rest : Bytes) (st : BState)
    (hz : c = 0 → st.runIndex = 0 ∧ rest.isEmpty = false) (hb : st.slabItems + c < two64) :
    boolParse checked (f + 1) (encU c ++ rest) st =
      match boolParse checked f rest (st.next c) with
      | .ok (runs, st) => .ok (c :: runs, st)
      | o => o := by
  rw [boolParse]
  have hemp : (encU c ++ rest).isEmpty = false := by
    cases h : encU c with
    | nil => exact absurd h (encU_ne_nil c)
    | cons a b => simp
  have hc64 : c < 2 ^ 64 := by unfold two64 at hb; omega
  have c1 : ¬ (c = 0 ∧ st.runIndex > 0) := by
    rintro ⟨h0, h1⟩; have := (hz h0).1; omega
  have c2 : ¬ (rest.isEmpty = true ∧ c = 0) := by
    rintro ⟨h0, h1⟩; have := (hz h1).2; rw [this] at h0; cases h0
  have c3 : ¬ ¬ (st.slabItems + c < two64) := by omega
  simp only [hemp, Bool.false_eq_true, if_false, readU_encU c rest hc64, c1, c2, c3]
  rfl

theorem flatten_map_cons (c : Nat) (r : List Nat) :
    ((c :: r).map encU).flatten = encU c ++ (r.map encU).flatten := by
  simp

/-- positive run lengths are read back as written -/
theorem boolParse_runs (checked : Bool) : ∀ (runs : List Nat) (st : BState) (fuel : Nat),
    (∀ c ∈ runs, 1 ≤ c) → st.closed + st.slabItems + runs.sum < two64 →
    ((runs.map encU).flatten).length < fuel →
    ∃ st', boolParse checked fuel ((runs.map encU).flatten) st = .ok (runs, st') ∧
      st'.closed + st'.slabItems = st.closed + st.slabItems + runs.sum := by
  intro runs
  induction runs with
  | nil =>
    intro st fuel _ _ hf
    cases fuel with
    | zero => simp at hf
    | succ f => exact ⟨st, by simp [boolParse], by simp⟩
  | cons c r ih =>
    intro st fuel hpos hb hf
    cases fuel with
    | zero => simp at hf
    | succ f =>
      rw [flatten_map_cons] at hf ⊢
      simp only [List.sum_cons] at hb
      have hc1 : 1 ≤ c := hpos c List.mem_cons_self
      rw [boolParse_step checked f c _ st (by omega) (by omega)]
      have hne := length_pos_of_ne_nil _ (encU_ne_nil c)
      rw [List.length_append] at hf
      obtain ⟨st', e, tot⟩ := ih (st.next c) f (fun x hx => hpos x (List.mem_cons_of_mem _ hx))
        (by rw [BState.next_total]; omega) (by omega)
      refine ⟨st', by rw [e], ?_⟩
      rw [tot, BState.next_total]; simp only [List.sum_cons]; omega

/-- alternating groups expand like alternating run lengths -/
theorem expandBool_groups : ∀ (gs : List (Nat × Bool)) (b : Bool), GroupsOK gs →
    (∀ n y r, gs = (n, y) :: r → y = b) → expandBool (gs.map (·.1)) b = expandRuns gs := by
  intro gs
  induction gs with
  | nil => intro _ _ _; rfl
  | cons g r ih =>
    intro b hok hb
    obtain ⟨n, y⟩ := g
    have hy : y = b := hb n y r rfl
    subst hy
    simp only [List.map_cons, expandBool, expandRuns]
    congr 1
    apply ih (!y) (groupsOK_tail _ _ hok)
    intro m z r' hr
    subst hr
    have := groupsOK_ne _ _ _ _ _ hok
    cases y <;> cases z <;> simp_all

theorem groups_counts_pos {β : Type} : ∀ (gs : List (Nat × β)), GroupsOK gs → ∀ c ∈ gs.map (·.1), 1 ≤ c := by
  intro gs
  induction gs with
  | nil => intro _ c hc; simp at hc
  | cons g r ih =>
    intro hok c hc
    obtain ⟨n, y⟩ := g
    simp only [List.map_cons, List.mem_cons] at hc
    rcases hc with rfl | hc
    · exact groupsOK_head _ _ _ hok
    · exact ih (groupsOK_tail _ _ hok) c hc

theorem boolRuns_cons (x : Bool) (t : List Bool) :
    boolRuns (x :: t) =
      match groups (x :: t) with
      | (_, true) :: _ => 0 :: (groups (x :: t)).map (·.1)
      | _ => (groups (x :: t)).map (·.1) := rfl

theorem groups_ne_nil {β : Type} [DecidableEq β] (x : β) (t : List β) : groups (x :: t) ≠ [] := by
  rw [groups_cons]
  cases groups t with
  | nil => simp
  | cons g gs => obtain ⟨n, y⟩ := g; simp only; split <;> simp

/-- `boolLoad` on the encoder's bytes returns the encoder's run lengths -/
theorem boolLoad_encode (checked : Bool) (xs : List Bool) (hlen : xs.length < two64) :
    boolLoad checked none (boolEncode xs) = .ok (boolRuns xs) := by
  unfold boolLoad boolEncode
  cases xs with
  | nil => simp [boolRuns, boolParse, two64]
  | cons x t =>
    have hok := groups_ok (x :: t)
    have hsum : ((groups (x :: t)).map (·.1)).sum = (x :: t).length := sumCounts_groups (x :: t)
    have hpos := groups_counts_pos _ hok
    rw [boolRuns_cons]
    cases hg : groups (x :: t) with
    | nil => exact absurd hg (groups_ne_nil x t)
    | cons g gs =>
      obtain ⟨n, y⟩ := g
      rw [hg] at hsum hpos
      cases y with
      | false =>
        simp only
        obtain ⟨st', e, tot⟩ := boolParse_runs checked (((n, false) :: gs).map (·.1)) {}
          (((((n, false) :: gs).map (·.1)).map encU).flatten.length + 1) hpos
          (by rw [hsum]; simpa using hlen) (by omega)
        rw [e]
        have hn : ¬ ¬ (st'.closed + st'.slabItems < two64) := by
          rw [tot, hsum]; simp only [Nat.zero_add]; omega
        simp only [hn, if_false]
      | true =>
        simp only
        rw [flatten_map_cons, List.length_append]
        have hrest : ((((n, true) :: gs).map (·.1)).map encU).flatten.isEmpty = false := by
          simp only [List.map_cons, List.flatten_cons]
          cases h : encU n with
          | nil => exact absurd h (encU_ne_nil n)
          | cons a b => simp
        have hne := length_pos_of_ne_nil _ (encU_ne_nil 0)
        have hf : (encU 0).length + ((((n, true) :: gs).map (·.1)).map encU).flatten.length + 1 =
            ((encU 0).length + ((((n, true) :: gs).map (·.1)).map encU).flatten.length) + 1 := rfl
        rw [boolParse_step checked _ 0 _ {} (fun _ => ⟨rfl, hrest⟩) (by unfold two64; simp)]
        obtain ⟨st', e, tot⟩ := boolParse_runs checked (((n, true) :: gs).map (·.1)) (({} : BState).next 0)
          ((encU 0).length + ((((n, true) :: gs).map (·.1)).map encU).flatten.length) hpos
          (by rw [BState.next_total, hsum]; simpa using hlen) (by omega)
        rw [e]
        have hn : ¬ ¬ (st'.closed + st'.slabItems < two64) := by
          rw [tot, BState.next_total, hsum]; simp only [Nat.zero_add]; omega
        simp only [hn, if_false]

theorem expandBool_boolRuns (xs : List Bool) : expandBool (boolRuns xs) false = xs := by
  cases xs with
  | nil => rfl
  | cons x t =>
    have hok := groups_ok (x :: t)
    have hex := expandRuns_groups (x :: t)
    rw [boolRuns_cons]
    cases hg : groups (x :: t) with
    | nil => exact absurd hg (groups_ne_nil x t)
    | cons g gs =>
      obtain ⟨n, y⟩ := g
      rw [hg] at hok hex
      cases y with
      | false =>
        simp only
        rw [expandBool_groups _ false hok (by intro m z r h; cases h; rfl), hex]
      | true =>
        simp only [expandBool, List.replicate_zero, List.nil_append, Bool.not_false]
        rw [expandBool_groups _ true hok (by intro m z r h; cases h; rfl), hex]

theorem boolDecode_encode (checked : Bool) (xs : List Bool) (hlen : xs.length < two64) :
    boolDecode checked (boolEncode xs) = .ok xs := by
  unfold boolDecode
  rw [boolLoad_encode checked xs hlen]
  simp only [expandBool_boolRuns]

/-! ### what a successful boolean load returned re-encodes to bytes that load to the same values -/

theorem boolParse_sum (checked : Bool) : ∀ (fuel : Nat) (bs : Bytes) (st : BState) (runs : List Nat) (st' : BState),
    boolParse checked fuel bs st = .ok (runs, st') →
    st'.closed + st'.slabItems = st.closed + st.slabItems + runs.sum := by
  intro fuel
  induction fuel with
  | zero => intro bs st runs st' h; simp [boolParse] at h
  | succ f ih =>
    intro bs st runs st' h
    rw [boolParse] at h
    split at h
    · simp only [Outcome.ok.injEq, Prod.mk.injEq] at h
      obtain ⟨rfl, rfl⟩ := h
      simp
    · split at h
      · simp at h
      · rename_i count rest _
        split at h
        · simp at h
        · split at h
          · simp at h
          · split at h
            · split at h <;> simp at h
            · dsimp only at h
              generalize hp : boolParse checked f rest _ = p at h
              have hp' : boolParse checked f rest (st.next count) = p := hp
              cases p with
              | ok pr =>
                obtain ⟨rs, s⟩ := pr
                simp only [Outcome.ok.injEq, Prod.mk.injEq] at h
                obtain ⟨rfl, rfl⟩ := h
                have := ih rest _ rs s hp'
                rw [this, BState.next_total]
                simp only [List.sum_cons]; omega
              | err e => simp at h
              | panic q => simp at h

theorem expandBool_length : ∀ (runs : List Nat) (b : Bool), (expandBool runs b).length = runs.sum := by
  intro runs
  induction runs with
  | nil => intro b; rfl
  | cons n r ih => intro b; simp [expandBool, ih]

/-- a loaded boolean column has fewer than 2^64 items -/
theorem boolDecode_length (checked : Bool) (bs : Bytes) (xs : List Bool)
    (h : boolDecode checked bs = .ok xs) : xs.length < two64 := by
  unfold boolDecode at h
  split at h
  · rename_i runs hl
    simp only [Outcome.ok.injEq] at h
    subst h
    unfold boolLoad at hl
    split at hl
    · rename_i rs st hp
      have hs := boolParse_sum checked _ _ _ _ _ hp
      simp only at hl
      split at hl
      · simp at hl
      · rename_i hlt
        simp only [Outcome.ok.injEq] at hl
        subst hl
        rw [expandBool_length]
        have e0 : ({} : BState).closed + ({} : BState).slabItems = 0 := rfl
        omega
    · simp at hl
    · simp at hl
  · simp at h
  · simp at h

theorem boolDecode_reencode (checked : Bool) (bs : Bytes) (xs : List Bool)
    (h : boolDecode checked bs = .ok xs) : boolDecode checked (boolEncode xs) = .ok xs :=
  boolDecode_encode checked xs (boolDecode_length checked bs xs h)

end AmVerif.Hexane
