import AmVerif.Model.Reconcile
/- Helper lemmas for C27 (`update_list` on scalar lists reaches its target). -/
namespace AmVerif.Reconcile
variable {α : Type}

/-- state of the zip loop after positions `0 … k-1` -/
theorem zip_invariant (old new : List α) : ∀ k,
    (List.range k).foldl (zipStep old new) old = new.take k ++ old.drop (min k new.length) := by
  intro k
  induction k with
  | zero => simp
  | succ k ih =>
    rw [List.range_succ, List.foldl_append, ih]
    simp only [List.foldl_cons, List.foldl_nil, zipStep]
    by_cases hn : k < new.length
    · have hmin : min k new.length = k := by omega
      have hmin' : min (k + 1) new.length = k + 1 := by omega
      have hlen : (new.take k).length = k := by simp; omega
      rw [hmin, hmin', List.getElem?_eq_getElem hn]
      have htake : new.take (k + 1) = new.take k ++ [new[k]] := by
        rw [List.take_add_one, List.getElem?_eq_getElem hn]; rfl
      by_cases ho : k < old.length
      · rw [List.getElem?_eq_getElem ho]
        simp only
        rw [List.set_append_right _ _ (by omega), hlen, Nat.sub_self, List.drop_eq_getElem_cons ho,
          List.set_cons_zero, htake, List.append_assoc]
        rfl
      · have : old[k]? = none := by simp; omega
        rw [this]
        simp only
        have hd : old.drop k = [] := by simp; omega
        have hd' : old.drop (k + 1) = [] := by simp; omega
        rw [hd, hd', List.append_nil, List.append_nil, htake]
        have := List.insertIdx_length_self (l := new.take k) (x := new[k])
        rw [hlen] at this
        exact this
    · have hmin : min k new.length = new.length := by omega
      have hmin' : min (k + 1) new.length = new.length := by omega
      have : new[k]? = none := by simp; omega
      rw [this, hmin, hmin']
      have h1 : new.take k = new := List.take_of_length_le (by omega)
      have h2 : new.take (k + 1) = new := List.take_of_length_le (by omega)
      rw [h1, h2]
      cases old[k]? <;> rfl

/-- deleting indexes `keep + d - 1, …, keep` removes a tail of length `d` -/
theorem delLoop_tail (front : List α) : ∀ (d : Nat) (tail : List α), tail.length = d →
    delLoop front.length d (front ++ tail) = front := by
  intro d
  induction d with
  | zero => intro tail h; simp [delLoop, List.length_eq_zero_iff.mp h]
  | succ d ih =>
    intro tail h
    simp only [delLoop]
    rw [List.eraseIdx_append_of_length_le (by omega)]
    have : front.length + d - front.length = d := by omega
    rw [this]
    have hd : tail.eraseIdx d = tail.dropLast := by
      have : d = tail.length - 1 := by omega
      rw [this, List.eraseIdx_length_sub_one]
    rw [hd]
    exact ih tail.dropLast (by simp; omega)

theorem updateListFlat_eq (old new : List α) : updateListFlat old new = new := by
  unfold updateListFlat
  simp only [zip_invariant]
  have h1 : new.take (max old.length new.length) = new := List.take_of_length_le (by omega)
  have h2 : min (max old.length new.length) new.length = new.length := by omega
  rw [h1, h2]
  exact delLoop_tail new _ _ (by simp)

end AmVerif.Reconcile
