import AmVerif.Proofs.DocCodecWFB
import AmVerif.Proofs.StoreBuild
import AmVerif.Proofs.Graph
/-
  C11 (document chunk): the image `save` builds from an admissible history (`imageOf`: the rows of the
  op store in the code's order, the change rows in graph order) is well-formed (`WF`), given the type
  invariants of the history's values (`HistoryOk`: counters, sequence numbers and successor counts are
  `u32`s, at most 2^32 actors, strings valid UTF-8, values written and read back as themselves,
  dependencies applied earlier with a `max_op` not above the change's own) and the size bounds of the
  format (`SizesOk`).
-/
namespace AmVerif.DocCodec
open AmVerif AmVerif.Crdt
open AmVerif.Hexane (two63 two64 validStr)
open AmVerif.ChangeCodec (IdI valueMeta valueRaw)

/-! ### the actor table -/

theorem mem_insertBytes {k x : Bytes} {l : List Bytes} : x ∈ ChangeCodec.insertBytes k l ↔ x = k ∨ x ∈ l := by
  induction l with
  | nil => simp [ChangeCodec.insertBytes]
  | cons y ys ih =>
    simp only [ChangeCodec.insertBytes]
    split
    · rename_i h; subst h; simp
    · split
      · simp
      · simp only [List.mem_cons, ih]
        constructor
        · rintro (h | h | h)
          · exact Or.inr (Or.inl h)
          · exact Or.inl h
          · exact Or.inr (Or.inr h)
        · rintro (h | h | h)
          · exact Or.inr (Or.inl h)
          · exact Or.inl h
          · exact Or.inr (Or.inr h)

theorem mem_sortBytes {x : Bytes} {l : List Bytes} : x ∈ ChangeCodec.sortBytes l ↔ x ∈ l := by
  induction l with
  | nil => simp [ChangeCodec.sortBytes]
  | cons y ys ih =>
    show x ∈ ChangeCodec.insertBytes y (ChangeCodec.sortBytes ys) ↔ _
    rw [mem_insertBytes, ih]
    simp

theorem idxOf_lt {table : List Bytes} {a : Bytes} (h : a ∈ table) : idxOf table a < table.length := by
  unfold idxOf ChangeCodec.actorIndex
  apply List.findIdx_lt_length_of_exists
  exact ⟨a, h, by simp⟩

/-! ### what the history must satisfy -/

/-- an id of the history: a `u32` counter, an actor that authored a change -/
def HIdOk (authors : List Bytes) (i : OpId) : Prop := i.ctr < 2 ^ 32 ∧ i.actor ∈ authors

structure OpOk (authors : List Bytes) (o : Op) : Prop where
  id : HIdOk authors o.id
  obj : ∀ i, o.obj = .id i → HIdOk authors i ∧ 0 < i.ctr
  key : match o.key with
    | .map k => validStr k
    | .head => True
    | .elem e => HIdOk authors e ∧ 0 < e.ctr
  val : ValOk (ChangeCodec.toRow [] o).val
  markName : ∀ s, (ChangeCodec.toRow [] o).markName = some s → validStr s
  pred : ∀ p ∈ o.pred, HIdOk authors p

structure DChangeOk (applied : List DChange) (i : Nat) (d : DChange) : Prop where
  seq : d.c.seq < 2 ^ 32
  maxOp : d.maxOp < 2 ^ 32
  time : -(2 ^ 62 : Int) ≤ d.time ∧ d.time < (2 ^ 62 : Int)
  message : ∀ s, d.message = some s → validStr s
  extra : extraMeta d.extra < 2 ^ 64
  depsLen : d.c.deps.length < 2 ^ 32
  hash : d.c.hash.length = Consts.HASH_SIZE
  /-- every dependency is an applied change whose `max_op` is not above this change's -/
  deps : ∀ h ∈ d.c.deps, hashIdx applied h < 2 ^ 32 ∧
    ∃ (hj : hashIdx applied h < applied.length), (applied[hashIdx applied h]).maxOp ≤ d.maxOp

structure HistoryOk (applied : List DChange) : Prop where
  nAuthors : (actorTable applied).length ≤ 2 ^ 32
  authorLen : ∀ d ∈ applied, d.c.actor.length < 2 ^ 64
  ops : ∀ o ∈ applied.flatMap (·.c.ops), OpOk (applied.map (·.c.actor)) o
  changes : ∀ i (h : i < applied.length), DChangeOk applied i applied[i]

/-- the size bounds of the format, on the image -/
structure SizesOk (limit : Nat) (img : DocImage) : Prop where
  limit63 : limit < two63
  nHeads : img.heads.length < 2 ^ 64
  nOps : img.ops.length ≤ limit
  nSucc : (img.ops.map (·.succ.length)).sum ≤ limit
  succLen : ∀ r ∈ img.ops, r.succ.length < 2 ^ 32
  valBytes : (img.ops.map (fun r => valueMeta r.val / 16)).sum < two64
  opData : (colData (nonEmptyCols (opCols img.ops))).length < 2 ^ 64
  nChanges : img.changes.length ≤ limit
  nDeps : (img.changes.map (·.deps.length)).sum ≤ limit
  extraBytes : (img.changes.map (fun c => c.extra.length)).sum < two64
  changeData : (colData (nonEmptyCols (changeCols img.changes))).length < 2 ^ 64

theorem toIdx_ok {authors table : List Bytes} (hsub : ∀ a ∈ authors, a ∈ table) (ht : table.length ≤ 2 ^ 32)
    {i : OpId} (h : HIdOk authors i) : IdOk (toIdx table i) := by
  refine ⟨h.1, ?_⟩
  have := idxOf_lt (hsub _ h.2)
  show idxOf table i.actor < 2 ^ 32
  omega

theorem toRow_action_le (table : List Bytes) (o : Op) : (ChangeCodec.toRow table o).action ≤ 7 := by
  unfold ChangeCodec.toRow
  simp only
  cases o.action with
  | make t => cases t <;> simp
  | put v => simp
  | del => simp
  | inc n => simp
  | markBegin a b c => simp
  | markEnd e => simp

theorem toRow_val_table (table : List Bytes) (o : Op) :
    (ChangeCodec.toRow table o).val = (ChangeCodec.toRow [] o).val ∧
    (ChangeCodec.toRow table o).markName = (ChangeCodec.toRow [] o).markName := ⟨rfl, rfl⟩

theorem mem_headsOf_aux : ∀ (l : List Change) (acc : List Hash) (h : Hash),
    h ∈ l.foldl (fun hs c => (hs.filter (fun h => !c.deps.contains h)) ++ [c.hash]) acc →
    h ∈ acc ∨ ∃ c ∈ l, c.hash = h
  | [], acc, h, hh => Or.inl hh
  | c :: l, acc, h, hh => by
    simp only [List.foldl_cons] at hh
    rcases mem_headsOf_aux l _ h hh with h1 | ⟨x, hx, hxe⟩
    · rcases List.mem_append.mp h1 with h2 | h2
      · exact Or.inl (List.mem_filter.mp h2).1
      · simp only [List.mem_singleton] at h2
        exact Or.inr ⟨c, List.mem_cons_self, h2.symm⟩
    · exact Or.inr ⟨x, List.mem_cons_of_mem _ hx, hxe⟩

theorem mem_headsOf (l : List Change) (h : Hash) (hh : h ∈ headsOf l) : ∃ c ∈ l, c.hash = h := by
  rcases mem_headsOf_aux l [] h hh with h1 | h1
  · cases h1
  · exact h1

theorem hashIdx_le (applied : List DChange) (h : Hash) : hashIdx applied h ≤ applied.length := by
  unfold hashIdx
  exact List.findIdx_le_length

/-- **the image `save` builds from an admissible history is well-formed** -/
theorem imageOf_wf (limit : Nat) (applied : List DChange)
    (hadm : Admissible (applied.flatMap (·.c.ops))) (hh : HistoryOk applied)
    (hs : SizesOk limit (imageOf applied)) : WF limit (imageOf applied) := by
  have hinv := buildStore_inv (fun _ => 0) hadm
  have hsub : ∀ a ∈ applied.map (·.c.actor), a ∈ actorTable applied := fun a ha => mem_sortBytes.mpr ha
  have ht := hh.nAuthors
  refine
    { limit63 := hs.limit63, nActors := ?_, actorLen := ?_, nHeads := hs.nHeads, headLen := ?_, headIdxLen := ?_,
      headIdxVal := ?_, nOps := hs.nOps, nSucc := hs.nSucc, rows := ?_, valBytes := hs.valBytes, opData := hs.opData,
      nChanges := hs.nChanges, changes := ?_, nDeps := hs.nDeps, extraBytes := hs.extraBytes, changeData := hs.changeData }
  · show (actorTable applied).length < 2 ^ 64
    omega
  · intro a ha
    have ha' : a ∈ applied.map (·.c.actor) := mem_sortBytes.mp ha
    obtain ⟨d, hd, rfl⟩ := List.mem_map.mp ha'
    exact hh.authorLen d hd
  · intro h hhm
    have h1 : h ∈ headsOf (applied.map (·.c)) := mem_sortHashes.mp hhm
    obtain ⟨c, hc, rfl⟩ := mem_headsOf _ _ h1
    obtain ⟨d, hd, rfl⟩ := List.mem_map.mp hc
    obtain ⟨i, hi, rfl⟩ := List.getElem_of_mem hd
    exact (hh.changes i hi).hash
  · simp [imageOf]
  · intro x hx
    obtain ⟨h, _, rfl⟩ := List.mem_map.mp hx
    have := hashIdx_le applied h
    have h1 := hs.nChanges
    have h2 := hs.limit63
    simp only [imageOf, List.length_map] at h1
    unfold two63 at h2
    omega
  · intro r hr
    obtain ⟨sr, hsr, rfl⟩ := List.mem_map.mp hr
    have hop : sr.op ∈ applied.flatMap (·.c.ops) := hinv.mem_ops hsr
    have hok := hh.ops sr.op hop
    have hsl := hs.succLen _ hr
    refine ⟨toIdx_ok hsub ht hok.id, ?_, ?_, toRow_action_le (actorTable applied) sr.op, hok.val, ?_, hsl, hok.markName⟩
    · intro i hi
      simp only [rowOf] at hi
      cases ho : sr.op.obj with
      | root => rw [ho] at hi; cases hi
      | id j =>
        rw [ho] at hi
        cases hi
        exact ⟨toIdx_ok hsub ht (hok.obj j ho).1, (hok.obj j ho).2⟩
    · have hk := hok.key
      simp only [rowOf]
      cases hkk : sr.op.key with
      | map k => rw [hkk] at hk; exact hk
      | head => trivial
      | elem e => rw [hkk] at hk; exact ⟨toIdx_ok hsub ht hk.1, hk.2⟩
    · intro s hsm
      simp only [rowOf] at hsm
      obtain ⟨p, hp, rfl⟩ := List.mem_map.mp hsm
      -- a successor is an op of the history
      rw [hinv.succ sr hsr] at hp
      obtain ⟨q, hq, rfl⟩ := List.mem_map.mp hp
      have hq' : q ∈ applied.flatMap (·.c.ops) := (List.mem_filter.mp (mem_sortById.mp hq)).1
      exact toIdx_ok hsub ht (hh.ops q hq').id
  · intro i hi
    simp only [imageOf, List.length_map] at hi
    have hc := hh.changes i hi
    have hmem : applied[i].c.actor ∈ applied.map (·.c.actor) := List.mem_map.mpr ⟨_, List.getElem_mem hi, rfl⟩
    have hidx := idxOf_lt (hsub _ hmem)
    simp only [imageOf, List.getElem_map]
    refine ⟨⟨hidx, (by show idxOf (actorTable applied) applied[i].c.actor < 2 ^ 32; omega)⟩, hc.seq, hc.maxOp, hc.time, hc.message, hc.extra, by simpa using hc.depsLen, ?_⟩
    refine ⟨applied[i].maxOp, by simp [List.getElem?_map, hi], ?_⟩
    intro dpi hdpi
    obtain ⟨h, hh', rfl⟩ := List.mem_map.mp hdpi
    obtain ⟨h32, hj, hle⟩ := hc.deps h hh'
    exact ⟨h32, applied[hashIdx applied h].maxOp, by simp [List.getElem?_map, hj], hle⟩

end AmVerif.DocCodec
