import AmVerif.Proofs.SyncInv
/-
  Preservation of the two-peer invariant by `receive_sync_message`, and the resulting theorem
  "every reachable configuration satisfies the invariant".
-/
namespace AmVerif.Sync
open AmVerif

theorem recvFlags_readOnly (s : State) (f : Option Nat) : (recvFlags s f).readOnly = s.readOnly := by
  unfold recvFlags; split <;> rfl

theorem recvFlags_needsReset (s : State) (f : Option Nat) : (recvFlags s f).needsReset = s.needsReset := by
  unfold recvFlags; split <;> rfl

theorem recvFlags_sharedHeads (s : State) (f : Option Nat) : (recvFlags s f).sharedHeads = s.sharedHeads := by
  unfold recvFlags; split <;> rfl

theorem recvFlags_sent (s : State) (f : Option Nat) : ∀ h ∈ (recvFlags s f).sentHashes, h ∈ s.sentHashes := by
  unfold recvFlags
  split
  · intro h hh; simp only at hh; split at hh
    · cases hh
    · exact hh
  · intro h hh; exact hh

/-- facts about the document after a receive -/
theorem recvDoc_spec (d : Doc) (s : State) (m : Message) (wf : DocWF d) :
    DocWF (recvDoc d s m) ∧
    (∀ x ∈ d.applied, x ∈ (recvDoc d s m).applied) ∧
    (∀ x ∈ (recvDoc d s m).applied, x ∈ d.applied ∨ x ∈ d.queue ∨ x ∈ m.changes) ∧
    (∀ x ∈ (recvDoc d s m).queue, x.hash ∉ d.hashes ∧ (x ∈ d.queue ∨ x ∈ m.changes)) := by
  unfold recvDoc
  split
  · exact applyChanges_spec d m.changes wf
  · exact ⟨wf, fun _ h => h, fun _ h => Or.inl h, fun x hx => ⟨wf.qfresh x hx, Or.inl hx⟩⟩

theorem filter_length_eq {α : Type} (p : α → Bool) : ∀ (l : List α),
    (l.filter p).length = l.length → ∀ x ∈ l, p x = true
  | [], _, x, hx => by cases hx
  | a :: l, h, x, hx => by
    cases hp : p a with
    | false =>
      simp only [List.filter_cons, hp] at h
      have := List.length_filter_le p l
      simp at h; omega
    | true =>
      simp only [List.filter_cons, hp, if_true, List.length_cons, Nat.add_right_cancel_iff] at h
      rcases List.mem_cons.mp hx with rfl | hx
      · exact hp
      · exact filter_length_eq p l h x hx

/-- the fields of the state after a receive that do not depend on the case analysis -/
theorem recvShared_fields (d' : Doc) (s : State) (m : Message) :
    (recvShared d' s m).theirHeads = some m.heads ∧
    (recvShared d' s m).theirHave = some m.have_ ∧
    (recvShared d' s m).readOnly = s.readOnly ∧
    (recvShared d' s m).needsReset = s.needsReset ∧
    (recvShared d' s m).inFlight = s.inFlight ∧
    (∀ h ∈ (recvShared d' s m).sentHashes, h ∈ s.sentHashes) := by
  unfold recvShared
  simp only
  split
  · split <;> simp
  · simp

theorem recvShared_shared (d' dA : Doc) (s : State) (m : Message)
    (hs : ∀ h ∈ s.sharedHeads, h ∈ d'.hashes ∧ h ∈ dA.hashes)
    (hm : ∀ h ∈ m.heads, h ∈ dA.hashes) :
    ∀ h ∈ (recvShared d' s m).sharedHeads, h ∈ d'.hashes ∧ h ∈ dA.hashes := by
  unfold recvShared
  simp only
  split
  · rename_i hlen
    have hall := filter_length_eq d'.hasChange m.heads hlen
    have : ∀ h ∈ m.heads, h ∈ d'.hashes ∧ h ∈ dA.hashes :=
      fun h hh => ⟨Doc.hasChange_iff.mp (hall h hh), hm h hh⟩
    split <;> simpa using this
  · intro h hh
    simp only [mem_sortDedup, List.mem_append, List.mem_filter] at hh
    rcases hh with h1 | ⟨h1, h2⟩
    · exact hs h h1
    · exact ⟨Doc.hasChange_iff.mp h2, hm h h1⟩

/-- a head that appears by applying changes is the hash of a newly applied change -/
theorem new_head_not_old {d d' : Doc} (sub : ∀ x ∈ d.applied, x ∈ d'.applied) {h : Hash}
    (h1 : h ∈ d'.heads) (h2 : h ∉ d.heads) : h ∉ d.hashes := by
  intro hin
  have hdep : Doc.isDep d.applied h = true := by
    cases hd : Doc.isDep d.applied h with
    | true => rfl
    | false => exact absurd (Doc.mem_heads.mpr ⟨hin, hd⟩) h2
  obtain ⟨c, hc, hcd⟩ := Doc.isDep_iff.mp hdep
  have : Doc.isDep d'.applied h = true := Doc.isDep_iff.mpr ⟨c, sub c hc, hcd⟩
  rw [(Doc.mem_heads.mp h1).2] at this
  cases this

theorem Inv.recv {c : Cfg} {m : Message} {rest : List Message} (inv : Inv c)
    (hl : c.linkAB = m :: rest) : Inv (c.recvB m rest) := by
  -- B is the receiver; `inv.b` speaks about `c.swap`, whose A-side is B
  have wfB : DocWF c.docB := inv.b.wf
  have qB : ∀ x ∈ c.docB.queue, x ∈ c.docA.applied := inv.b.queue
  have roB : c.stB.readOnly = false := inv.b.rw.1
  have nrB : c.stB.needsReset = false := inv.b.rw.2
  have mOk : MsgOk c.docA c.docB m := inv.a.msgs m (by rw [hl]; simp)
  -- the state after the flags block
  generalize hs1 : recvFlags { c.stB with inFlight := false } m.flags = s1
  have ro1 : s1.readOnly = false := by rw [← hs1, recvFlags_readOnly]; exact roB
  have nr1 : s1.needsReset = false := by rw [← hs1, recvFlags_needsReset]; exact nrB
  have sh1 : s1.sharedHeads = c.stB.sharedHeads := by rw [← hs1, recvFlags_sharedHeads]
  have sent1 : ∀ h ∈ s1.sentHashes, h ∈ c.stB.sentHashes := by
    rw [← hs1]; exact recvFlags_sent _ _
  -- the document after the receive
  obtain ⟨wfB', subB, newB, queueB'⟩ := recvDoc_spec c.docB s1 m wfB
  generalize hd' : recvDoc c.docB s1 m = d' at wfB' subB newB queueB'
  have subHB : ∀ x ∈ c.docB.hashes, x ∈ d'.hashes := fun x hx => hashes_mono subB hx
  have newInA : ∀ x ∈ d'.applied, x ∈ c.docB.applied ∨ x ∈ c.docA.applied := by
    intro x hx
    rcases newB x hx with h | h | h
    · left; exact h
    · right; exact qB x h
    · exact (mOk.changes x h).symm
  -- the state after the receive
  have hst : recvState c.docB c.stB m =
      recvShared d'
        (if (m.chunks == 0 && m.heads == c.docB.heads) = true then
          { (if (m.chunks != 0 && !s1.readOnly) = true then
              { s1 with sharedHeads := advanceHeads c.docB.heads d'.heads s1.sharedHeads } else s1) with
            sentHashes := d'.filterChanges m.heads
              (if (m.chunks != 0 && !s1.readOnly) = true then
                { s1 with sharedHeads := advanceHeads c.docB.heads d'.heads s1.sharedHeads } else s1).sentHashes,
            lastSentHeads := m.heads }
        else
          { (if (m.chunks != 0 && !s1.readOnly) = true then
              { s1 with sharedHeads := advanceHeads c.docB.heads d'.heads s1.sharedHeads } else s1) with
            sentHashes := d'.filterChanges m.heads
              (if (m.chunks != 0 && !s1.readOnly) = true then
                { s1 with sharedHeads := advanceHeads c.docB.heads d'.heads s1.sharedHeads } else s1).sentHashes })
        m := by
    unfold recvState
    simp only [hs1, hd']
  generalize hs2 : (if (m.chunks != 0 && !s1.readOnly) = true then
      { s1 with sharedHeads := advanceHeads c.docB.heads d'.heads s1.sharedHeads } else s1) = s2 at hst
  have ro2 : s2.readOnly = false := by rw [← hs2]; split <;> exact ro1
  have nr2 : s2.needsReset = false := by rw [← hs2]; split <;> exact nr1
  have if2 : s2.inFlight = false := by
    rw [← hs2]
    have : s1.inFlight = false := by
      rw [← hs1]; unfold recvFlags; split <;> rfl
    split <;> exact this
  have sent2 : ∀ h ∈ s2.sentHashes, h ∈ c.stB.sentHashes := by
    rw [← hs2]; split <;> exact sent1
  have shared2 : ∀ h ∈ s2.sharedHeads, h ∈ d'.hashes ∧ h ∈ c.docA.hashes := by
    rw [← hs2]
    split
    · intro h hh
      simp only [advanceHeads, mem_sortDedup, List.mem_append, List.mem_filter] at hh
      rcases hh with ⟨h1, h2⟩ | ⟨h1, _⟩
      · -- a new head: the hash of a change that came from A
        have h2' : h ∉ c.docB.heads := by simpa using h2
        have hnotB := new_head_not_old subB h1 h2'
        have hin := Doc.heads_sub_hashes h1
        obtain ⟨x, hx, rfl⟩ := Doc.mem_hashes.mp hin
        refine ⟨hin, ?_⟩
        rcases newInA x hx with h | h
        · exact absurd (Doc.mem_hashes.mpr ⟨x, h, rfl⟩) hnotB
        · exact Doc.mem_hashes.mpr ⟨x, h, rfl⟩
      · rw [sh1] at h1
        exact ⟨subHB _ (inv.b.shared h h1).1, (inv.b.shared h h1).2⟩
    · intro h hh
      rw [sh1] at hh
      exact ⟨subHB _ (inv.b.shared h hh).1, (inv.b.shared h hh).2⟩
  -- the state handed to `recvShared`
  generalize hs3 : (if (m.chunks == 0 && m.heads == c.docB.heads) = true then
      { s2 with sentHashes := d'.filterChanges m.heads s2.sentHashes, lastSentHeads := m.heads }
      else { s2 with sentHashes := d'.filterChanges m.heads s2.sentHashes }) = s3 at hst
  have filt : ∀ h ∈ d'.filterChanges m.heads s2.sentHashes, h ∈ s2.sentHashes := by
    intro h hh; unfold Doc.filterChanges at hh; exact (List.mem_filter.mp hh).1
  have ro3 : s3.readOnly = false := by rw [← hs3]; split <;> exact ro2
  have nr3 : s3.needsReset = false := by rw [← hs3]; split <;> exact nr2
  have if3 : s3.inFlight = false := by rw [← hs3]; split <;> exact if2
  have sent3 : ∀ h ∈ s3.sentHashes, h ∈ c.stB.sentHashes := by
    rw [← hs3]; split <;> exact fun h hh => sent2 h (filt h hh)
  have shared3 : ∀ h ∈ s3.sharedHeads, h ∈ d'.hashes ∧ h ∈ c.docA.hashes := by
    rw [← hs3]; split <;> exact shared2
  obtain ⟨f1, f2, f3, f4, f5, f6⟩ := recvShared_fields d' s3 m
  have f7 := recvShared_shared d' c.docA s3 m shared3 mOk.heads
  generalize hsB : recvShared d' s3 m = sB' at hst f1 f2 f3 f4 f5 f6 f7
  -- assemble
  have hc' : c.recvB m rest = { c with docB := d', stB := sB', linkAB := rest } := by
    unfold Cfg.recvB receive
    simp only [hs1, hd', hst]
  rw [hc']
  have restSub : ∀ m' ∈ rest, m' ∈ c.linkAB := fun m' h => by rw [hl]; exact List.mem_cons_of_mem _ h
  refine ⟨⟨inv.a.wf, ?_, ?_, ?_, inv.a.sent, ?_, ?_, inv.a.rw, ?_, ?_⟩,
          ⟨wfB', ?_, ?_, ?_, ?_, ?_, ?_, ⟨f3.trans ro3, f4.trans nr3⟩, ?_, ?_⟩, ?_⟩
  · intro x hx; exact subB x (inv.a.queue x hx)
  · intro m' hm'; exact (inv.a.msgs m' (restSub m' hm')).mono (fun _ h => h) subB
  · intro h hh; exact ⟨(inv.a.shared h hh).1, subHB _ (inv.a.shared h hh).2⟩
  · intro H hH h hh; exact subHB _ (inv.a.theirHeads H hH h hh)
  · intro hs hhs hv hhv h hh
    exact ⟨(inv.a.theirHave hs hhs hv hhv h hh).1, subHB _ (inv.a.theirHave hs hhs hv hhv h hh).2⟩
  · -- A's flight invariant: B's flag is now clear
    intro _; right; left; show sB'.inFlight = false; rw [f5]; exact if3
  · -- A's last-sent invariant: B has just recorded the heads of the message it consumed
    intro hf
    have old := inv.a.lastSent hf
    show some c.stA.lastSentHeads = lastHeads rest sB'.theirHeads
    rw [f1]
    rw [hl] at old
    unfold lastHeads at old ⊢
    cases rest with
    | nil => simpa using old
    | cons r rs =>
      have : (m :: r :: rs).getLast? = (r :: rs).getLast? := by simp [List.getLast?_cons_cons]
      rw [this] at old; exact old
  · -- B's queue: only changes that are applied at A
    intro x hx
    obtain ⟨hfresh, hsrc⟩ := queueB' x hx
    rcases hsrc with h | h
    · exact qB x h
    · rcases mOk.changes x h with h | h
      · exact h
      · exact absurd (Doc.mem_hashes.mpr ⟨x, h, rfl⟩) hfresh
  · intro m' hm'; exact (inv.b.msgs m' hm').mono subB (fun _ h => h)
  · exact f7
  · intro h hh; exact subHB _ (inv.b.sent h (sent3 h (f6 h hh)))
  · intro H hH h hh
    have : some m.heads = some H := by rw [← f1]; exact hH
    cases this
    exact mOk.heads h hh
  · intro hs hhs hv hhv h hh
    have : some m.have_ = some hs := by rw [← f2]; exact hhs
    cases this
    exact ⟨subHB _ (mOk.lastSync hv hhv h hh).2, (mOk.lastSync hv hhv h hh).1⟩
  · intro hf
    have : sB'.inFlight = false := by rw [f5]; exact if3
    exact absurd hf (by show ¬ sB'.inFlight = true; rw [this]; simp)
  · intro hf
    have : sB'.inFlight = false := by rw [f5]; exact if3
    exact absurd hf (by show ¬ sB'.inFlight = true; rw [this]; simp)
  · -- a hash still means the same change on both sides
    intro x hx y hy hxy
    rcases newInA y hy with h | h
    · exact inv.agree x hx y h hxy
    · exact Topo.inj _ inv.a.wf.topo x hx y h hxy

/-- every step preserves the invariant -/
theorem Inv.step (fp : Hash → Bool) {c c' : Cfg} (h : Step fp c c') : Inv c → Inv c' := by
  induction h with
  | edit c ch h1 h2 h3 => exact fun inv => inv.edit h1 h2 h3
  | gen c => exact fun inv => inv.gen fp
  | recv c m rest hl => exact fun inv => inv.recv hl
  | swap c c' _ ih => exact fun inv => (ih inv.swap).swap

theorem Inv.of_reachable (fp : Hash → Bool) {c : Cfg} (h : Reachable fp c) : Inv c := by
  induction h with
  | init c hi => exact Inv.of_initial hi
  | step c c' _ hs ih => exact Inv.step fp hs ih

end AmVerif.Sync
