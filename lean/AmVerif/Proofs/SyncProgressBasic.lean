import AmVerif.Proofs.SyncRounds
import AmVerif.Model.SyncBound
/-
  Progress half of C20, part 1: facts about documents that the progress argument needs.
  * the measure: hashes of a fixed universe that a document has neither applied nor queued;
  * `apply_changes` never forgets a change and leaves a queue in which nothing is ready;
  * `apply_changes` with nothing new is the identity;
  * `ancestorsIn` computes graph reachability (so it does not depend on the application order).
-/
namespace AmVerif.Sync.Prog
open AmVerif AmVerif.Sync

/-! ### counting -/

theorem length_filter_le_of_imp {α : Type} (p q : α → Bool) : ∀ (l : List α),
    (∀ x ∈ l, p x = true → q x = true) → (l.filter p).length ≤ (l.filter q).length
  | [], _ => by simp
  | a :: l, h => by
    have ih := length_filter_le_of_imp p q l (fun x hx => h x (List.mem_cons_of_mem _ hx))
    simp only [List.filter_cons]
    cases hp : p a with
    | false => cases hq : q a <;> simp <;> omega
    | true => simp [h a (by simp) hp]; exact ih

theorem length_filter_lt_of_imp {α : Type} (p q : α → Bool) : ∀ (l : List α),
    (∀ x ∈ l, p x = true → q x = true) → (∃ x ∈ l, q x = true ∧ p x = false) →
    (l.filter p).length < (l.filter q).length
  | [], _, ⟨x, hx, _⟩ => by cases hx
  | a :: l, h, ⟨x, hx, hqx, hpx⟩ => by
    have hle := length_filter_le_of_imp p q l (fun x hx => h x (List.mem_cons_of_mem _ hx))
    simp only [List.filter_cons]
    rcases List.mem_cons.mp hx with rfl | hx'
    · simp [hqx, hpx]; omega
    · have ih := length_filter_lt_of_imp p q l (fun x hx => h x (List.mem_cons_of_mem _ hx))
        ⟨x, hx', hqx, hpx⟩
      cases hp : p a with
      | false => cases hq : q a <;> simp <;> omega
      | true => simp [h a (by simp) hp]; exact ih

/-! ### "has": applied or queued -/

theorem hasB_iff {d : Doc} {h : Hash} :
    hasB d h = true ↔ h ∈ d.hashes ∨ h ∈ d.queue.map (·.hash) := by
  simp [hasB]

theorem hasB_false_iff {d : Doc} {h : Hash} :
    hasB d h = false ↔ h ∉ d.hashes ∧ h ∉ d.queue.map (·.hash) := by
  rw [← Bool.not_eq_true, hasB_iff]; simp [not_or]

/-- how many hashes of the universe `u` have not arrived at `d` -/
def lacking (u : List Hash) (d : Doc) : Nat := (u.filter (fun h => !hasB d h)).length

theorem lacking_mono {u : List Hash} {d d' : Doc}
    (h : ∀ x, hasB d x = true → hasB d' x = true) : lacking u d' ≤ lacking u d := by
  unfold lacking
  apply length_filter_le_of_imp
  intro x _ hx
  cases hd : hasB d x with
  | false => rfl
  | true => rw [h x hd] at hx; cases hx

theorem lacking_lt {u : List Hash} {d d' : Doc}
    (h : ∀ x, hasB d x = true → hasB d' x = true) {x : Hash} (hu : x ∈ u)
    (h1 : hasB d x = false) (h2 : hasB d' x = true) : lacking u d' < lacking u d := by
  unfold lacking
  apply length_filter_lt_of_imp
  · intro y _ hy
    cases hd : hasB d y with
    | false => rfl
    | true => rw [h y hd] at hy; cases hy
  · exact ⟨x, hu, by simp [h1], by simp [h2]⟩

/-! ### `apply_changes` never forgets -/

theorem sweep_mem : ∀ (q a : List Change) (x : Change), (x ∈ a ∨ x ∈ q) →
    x ∈ (Doc.sweep a q).1 ∨ x ∈ (Doc.sweep a q).2
  | [], a, x, h => by
    rcases h with h | h
    · left; simpa [Doc.sweep] using h
    · cases h
  | c :: q, a, x, h => by
    unfold Doc.sweep
    split
    · apply sweep_mem q (c :: a) x
      rcases h with h | h
      · left; exact List.mem_cons_of_mem _ h
      · rcases List.mem_cons.mp h with rfl | h
        · left; simp
        · right; exact h
    · rcases h with h | h
      · rcases sweep_mem q a x (Or.inl h) with h' | h'
        · left; exact h'
        · right; exact List.mem_cons_of_mem _ h'
      · rcases List.mem_cons.mp h with rfl | h
        · right; simp
        · rcases sweep_mem q a x (Or.inr h) with h' | h'
          · left; exact h'
          · right; exact List.mem_cons_of_mem _ h'

theorem drain_mem : ∀ (n : Nat) (a q : List Change) (x : Change), (x ∈ a ∨ x ∈ q) →
    x ∈ (Doc.drain n a q).1 ∨ x ∈ (Doc.drain n a q).2
  | 0, _, _, _, h => h
  | n + 1, a, q, x, h => by
    unfold Doc.drain
    simp only
    split
    · exact sweep_mem q a x h
    · exact drain_mem n _ _ x (sweep_mem q a x h)

theorem enqueue_keep (d : Doc) : ∀ (cs q : List Change), ∀ x ∈ q, x ∈ Doc.enqueue d q cs
  | [], _, x, hx => hx
  | c :: cs, q, x, hx => by
    unfold Doc.enqueue
    split
    · exact enqueue_keep d cs q x hx
    · exact enqueue_keep d cs (q ++ [c]) x (List.mem_append_left _ hx)

theorem enqueue_new (d : Doc) : ∀ (cs q : List Change), ∀ c ∈ cs,
    c.hash ∈ d.hashes ∨ c.hash ∈ (Doc.enqueue d q cs).map (·.hash)
  | [], _, c, hc => by cases hc
  | c0 :: cs, q, c, hc => by
    unfold Doc.enqueue
    split
    · rename_i hcond
      rcases List.mem_cons.mp hc with rfl | hc'
      · simp only [Bool.or_eq_true] at hcond
        rcases hcond with h | h
        · left; exact Doc.hasChange_iff.mp h
        · right
          have hq : c.hash ∈ q.map (·.hash) := by simpa using h
          obtain ⟨y, hy, hyh⟩ := List.mem_map.mp hq
          exact List.mem_map.mpr ⟨y, enqueue_keep d cs q y hy, hyh⟩
      · exact enqueue_new d cs q c hc'
    · rcases List.mem_cons.mp hc with rfl | hc'
      · right
        exact List.mem_map.mpr ⟨c, enqueue_keep d cs (q ++ [c]) c (by simp), rfl⟩
      · exact enqueue_new d cs (q ++ [c0]) c hc'

theorem mem_hashes_of_mem {l : List Change} {x : Change} (h : x ∈ l) : x.hash ∈ l.map (·.hash) :=
  List.mem_map.mpr ⟨x, h, rfl⟩

/-- whatever had arrived before `apply_changes` has arrived afterwards -/
theorem applyChanges_has (d : Doc) (cs : List Change) {h : Hash} (hh : hasB d h = true) :
    hasB (d.applyChanges cs) h = true := by
  rw [hasB_iff] at hh ⊢
  have key : ∀ x : Change, (x ∈ d.applied ∨ x ∈ Doc.enqueue d d.queue cs) →
      x.hash ∈ (d.applyChanges cs).hashes ∨ x.hash ∈ (d.applyChanges cs).queue.map (·.hash) := by
    intro x hx
    rcases drain_mem ((Doc.enqueue d d.queue cs).length + 1) _ _ x hx with h1 | h1
    · left; exact mem_hashes_of_mem h1
    · right; exact mem_hashes_of_mem h1
  rcases hh with h1 | h1
  · obtain ⟨x, hx, rfl⟩ := List.mem_map.mp h1
    exact key x (Or.inl hx)
  · obtain ⟨x, hx, rfl⟩ := List.mem_map.mp h1
    exact key x (Or.inr (enqueue_keep d cs d.queue x hx))

/-- every change handed to `apply_changes` has arrived afterwards -/
theorem applyChanges_gets (d : Doc) (cs : List Change) {c : Change} (hc : c ∈ cs) :
    hasB (d.applyChanges cs) c.hash = true := by
  rcases enqueue_new d cs d.queue c hc with h1 | h1
  · exact applyChanges_has d cs (hasB_iff.mpr (Or.inl h1))
  · obtain ⟨x, hx, hxh⟩ := List.mem_map.mp h1
    rw [hasB_iff, ← hxh]
    rcases drain_mem ((Doc.enqueue d d.queue cs).length + 1) d.applied _ x (Or.inr hx) with h2 | h2
    · left; exact mem_hashes_of_mem h2
    · right; exact mem_hashes_of_mem h2

/-! ### after `apply_changes` nothing in the queue is ready -/

/-- no queued change has all its dependencies applied -/
def Stuck (a q : List Change) : Prop := ∀ c ∈ q, Doc.ready a c = false

theorem sweep_len_le : ∀ (q a : List Change), (Doc.sweep a q).2.length ≤ q.length
  | [], _ => by simp [Doc.sweep]
  | c :: q, a => by
    unfold Doc.sweep
    split
    · have := sweep_len_le q (c :: a); simp; omega
    · have := sweep_len_le q a; simp; omega

theorem sweep_fix : ∀ (q a : List Change), (Doc.sweep a q).2.length = q.length →
    Doc.sweep a q = (a, q) ∧ Stuck a q
  | [], a, _ => ⟨rfl, fun c hc => by cases hc⟩
  | c :: q, a, h => by
    unfold Doc.sweep at h ⊢
    split
    · rename_i hr
      simp only [hr, if_true] at h
      have := sweep_len_le q (c :: a)
      simp at h; omega
    · rename_i hr
      simp only [hr] at h
      have h' : (Doc.sweep a q).2.length = q.length := by simpa using h
      obtain ⟨e, st⟩ := sweep_fix q a h'
      refine ⟨by rw [e], ?_⟩
      intro x hx
      rcases List.mem_cons.mp hx with rfl | hx
      · simpa using hr
      · exact st x hx

theorem drain_stuck : ∀ (n : Nat) (a q : List Change), q.length < n →
    Stuck (Doc.drain n a q).1 (Doc.drain n a q).2
  | 0, _, _, h => by omega
  | n + 1, a, q, h => by
    unfold Doc.drain
    simp only
    split
    · rename_i heq
      obtain ⟨e, st⟩ := sweep_fix q a heq
      rw [e]; exact st
    · rename_i hne
      have := sweep_len_le q a
      exact drain_stuck n _ _ (by omega)

theorem applyChanges_stuck (d : Doc) (cs : List Change) :
    Stuck (d.applyChanges cs).applied (d.applyChanges cs).queue :=
  drain_stuck _ _ _ (Nat.lt_succ_self _)

/-! ### `apply_changes` with nothing new -/

theorem enqueue_nil_of_applied (d : Doc) : ∀ (cs : List Change),
    (∀ c ∈ cs, c.hash ∈ d.hashes) → Doc.enqueue d [] cs = []
  | [], _ => rfl
  | c :: cs, h => by
    unfold Doc.enqueue
    have : d.hasChange c.hash = true := Doc.hasChange_iff.mpr (h c (by simp))
    simp only [this, Bool.true_or, if_true]
    exact enqueue_nil_of_applied d cs (fun x hx => h x (List.mem_cons_of_mem _ hx))

theorem applyChanges_noop (d : Doc) (cs : List Change) (hq : d.queue = [])
    (h : ∀ c ∈ cs, c.hash ∈ d.hashes) : d.applyChanges cs = d := by
  unfold Doc.applyChanges
  simp only [hq, enqueue_nil_of_applied d cs h]
  cases d with
  | mk a q =>
    simp only at hq
    subst hq
    simp [Doc.drain, Doc.sweep]

/-! ### heads -/

/-- the newest change of a topological list is a head -/
theorem heads_ne_nil {d : Doc} (ht : Topo d.applied) (hne : d.applied ≠ []) : d.heads ≠ [] := by
  cases hd : d.applied with
  | nil => exact absurd hd hne
  | cons c rest =>
    rw [hd] at ht
    intro hnil
    have : c.hash ∈ d.heads := by
      rw [Doc.mem_heads]
      refine ⟨by simp [Doc.hashes, hd], ?_⟩
      cases hdep : Doc.isDep d.applied c.hash with
      | false => rfl
      | true =>
        exfalso
        obtain ⟨c', hc', hin⟩ := Doc.isDep_iff.mp hdep
        rw [hd] at hc'
        exact ht.2.1 (Topo.deps_tail c rest ht c' hc' _ hin)
    rw [hnil] at this; cases this

theorem applied_nil_of_heads_nil {d : Doc} (ht : Topo d.applied) (h : d.heads = []) :
    d.applied = [] := by
  cases hd : d.applied with
  | nil => rfl
  | cons c rest => exact absurd h (heads_ne_nil ht (by rw [hd]; simp))

end AmVerif.Sync.Prog
