import AmVerif.Proofs.SyncProgress21
/-
  C21, n peers, part 1: the pair session inside a network.
  With three or more peers the C20 invariant `Inv` of a pair does not hold (a peer's queue and
  `shared_heads` can contain changes that came from a third peer and that the other side of the pair
  does not have; the reset message is then used).  What does survive deliveries from third parties
  is the weaker session invariant `SessW` below — and it is enough for deadlock freedom: a quiet
  pair is converged.
-/
namespace AmVerif.Sync.Prog
open AmVerif AmVerif.Sync

/-! ### a document that grows gets a new head -/

/-- if `l'` (topological) contains `l` (topological) and something more, some head of `l'` is not a
    hash of `l` -/
theorem new_head_of_growth (l l' : List Change) (t : Topo l) (t' : Topo l')
    (sub : ∀ x ∈ l, x ∈ l') (hnew : ∃ z ∈ l', z ∉ l) :
    ∃ z ∈ l', Doc.isDep l' z.hash = false ∧ z.hash ∉ l.map (·.hash) := by
  -- the newest new element
  obtain ⟨z0, hz0, hz0n⟩ := hnew
  have hfind : (l'.find? (fun x => decide (x ∉ l))).isSome = true := by
    rw [List.find?_isSome]
    exact ⟨z0, hz0, by simpa using hz0n⟩
  obtain ⟨z, hz⟩ := Option.isSome_iff_exists.mp hfind
  obtain ⟨hzp, pre, suf, hl', hpre⟩ := List.find?_eq_some_iff_append.mp hz
  have hzn : z ∉ l := by simpa using hzp
  have hzin : z ∈ l' := by rw [hl']; simp
  have hpre' : ∀ x ∈ pre, x ∈ l := by
    intro x hx
    have := hpre x hx
    simpa using this
  have hhash : z.hash ∉ l.map (·.hash) := by
    intro hm
    obtain ⟨y, hy, hyh⟩ := List.mem_map.mp hm
    have : y = z := Topo.inj l' t' y (sub y hy) z hzin hyh
    exact hzn (this ▸ hy)
  refine ⟨z, hzin, ?_, hhash⟩
  cases hdep : Doc.isDep l' z.hash with
  | false => rfl
  | true =>
    exfalso
    obtain ⟨c', hc', hin⟩ := Doc.isDep_iff.mp hdep
    rw [hl'] at hc'
    have tsuf : Topo (z :: suf) := Topo.suffix pre _ (hl' ▸ t')
    rcases List.mem_append.mp hc' with hp | hs
    · -- a newer element is old, and old lists are dependency closed
      exact hhash (Topo.deps_mem l t c' (hpre' c' hp) _ hin)
    · -- `z` or older: its dependencies are strictly older than `z`
      exact tsuf.2.1 (Topo.deps_tail z suf tsuf c' hs _ hin)

/-! ### the weak invariants -/

/-- a peer's document is well formed and made of known changes -/
structure DocOK (K : List Change) (d : Doc) : Prop where
  wf : DocWF d
  applied : ∀ x ∈ d.applied, x ∈ K
  queue : ∀ x ∈ d.queue, x ∈ K

/-- hashes identify the known changes -/
def KInj (K : List Change) : Prop := ∀ x ∈ K, ∀ y ∈ K, x.hash = y.hash → x = y

theorem DocOK.mono {K K' : List Change} {d : Doc} (h : DocOK K d) (sub : ∀ x ∈ K, x ∈ K') :
    DocOK K' d :=
  ⟨h.wf, fun x hx => sub x (h.applied x hx), fun x hx => sub x (h.queue x hx)⟩

/-- the A side of the weak session invariant -/
structure HalfW (K : List Change) (c : Cfg) : Prop where
  msgsK : ∀ m ∈ c.linkAB, ∀ x ∈ m.changes, x ∈ K
  msgsHeads : ∀ m ∈ c.linkAB, ∀ h ∈ m.heads, h ∈ c.docA.hashes
  theirHeads : ∀ H, c.stA.theirHeads = some H → ∀ h ∈ H, h ∈ c.docB.hashes
  rw : c.stA.readOnly = false ∧ c.stA.needsReset = false
  flight : c.stA.inFlight = true → c.linkAB ≠ [] ∨ c.stB.inFlight = false ∨ c.linkBA ≠ []
  lastSentSub : ∀ h ∈ c.stA.lastSentHeads, h ∈ c.docA.hashes
  /-- while A waits for an acknowledgement and has announced its current heads, the newest message
      it sent (or the one B consumed last) carries exactly these heads -/
  lastSentJ : c.stA.inFlight = true → c.stA.lastSentHeads = c.docA.heads →
    lastHeads c.linkAB c.stB.theirHeads = some c.docA.heads

structure SessW (K : List Change) (c : Cfg) : Prop where
  a : HalfW K c
  b : HalfW K c.swap

theorem SessW.swap {K : List Change} {c : Cfg} (h : SessW K c) : SessW K c.swap := ⟨h.b, h.a⟩

theorem HalfW.mono {K K' : List Change} {c : Cfg} (h : HalfW K c) (sub : ∀ x ∈ K, x ∈ K') :
    HalfW K' c :=
  ⟨fun m hm x hx => sub x (h.msgsK m hm x hx), h.msgsHeads, h.theirHeads, h.rw, h.flight,
   h.lastSentSub, h.lastSentJ⟩

theorem SessW.mono {K K' : List Change} {c : Cfg} (h : SessW K c) (sub : ∀ x ∈ K, x ∈ K') :
    SessW K' c := ⟨h.a.mono sub, h.b.mono sub⟩

/-! ### deadlock freedom from the weak invariants -/

theorem agree_of_K {K : List Change} (kinj : KInj K) {dA dB : Doc} (oa : DocOK K dA)
    (ob : DocOK K dB) : ∀ x ∈ dA.applied, ∀ y ∈ dB.applied, x.hash = y.hash → x = y :=
  fun x hx y hy h => kinj x (oa.applied x hx) y (ob.applied y hy) h

theorem sub_of_heads {K : List Change} (kinj : KInj K) {dA dB : Doc} (oa : DocOK K dA)
    (ob : DocOK K dB) (h : ∀ x ∈ dA.heads, x ∈ dB.hashes) : ∀ x ∈ dA.applied, x ∈ dB.applied := by
  intro x hx
  have := closure_of_heads dA.applied dB.applied oa.wf.topo ob.wf.topo (agree_of_K kinj oa ob)
    (fun y hy hd => h y.hash (Doc.mem_heads.mpr ⟨Doc.mem_hashes.mpr ⟨y, hy, rfl⟩, hd⟩)) x hx
  obtain ⟨y, hy, hyh⟩ := List.mem_map.mp this
  have : x = y := agree_of_K kinj oa ob x hx y hy hyh.symm
  rw [this]; exact hy

theorem sameSet_of_mutualW {K : List Change} (kinj : KInj K) {c : Cfg} (oa : DocOK K c.docA)
    (ob : DocOK K c.docB) (h1 : ∀ x ∈ c.docA.heads, x ∈ c.docB.hashes)
    (h2 : ∀ x ∈ c.docB.heads, x ∈ c.docA.hashes) : SameSet c :=
  fun x => ⟨sub_of_heads kinj oa ob h1 x, sub_of_heads kinj ob oa h2 x⟩

/-- the case where A still waits for an acknowledgement -/
theorem sameSet_of_flightW {fp : Hash → Bool} {K : List Change} (kinj : KInj K) {c : Cfg}
    (oa : DocOK K c.docA) (ob : DocOK K c.docB) (s : SessW K c) (hq : Quiescent fp c)
    (hf : c.stA.inFlight = true) : SameSet c := by
  obtain ⟨lab, lba, ga, gb⟩ := hq
  obtain ⟨lsA, _⟩ := quiet_spec (generate_none ga) s.a.rw.1
  obtain ⟨_, tB⟩ := quiet_spec (generate_none gb) s.b.rw.1
  have ifB : c.stB.inFlight = false := by
    rcases s.a.flight hf with h | h | h
    · exact absurd lab h
    · exact h
    · exact absurd lba h
  have thB : c.stB.theirHeads = some c.docB.heads := by
    rcases tB with h | h
    · exact h
    · have : c.stB.inFlight = true := h
      rw [ifB] at this; cases this
  have := s.a.lastSentJ hf lsA
  rw [lab] at this
  simp only [lastHeads, List.getLast?_nil] at this
  rw [thB] at this
  have heq : c.docB.heads = c.docA.heads := by injection this
  apply sameSet_of_mutualW kinj oa ob
  · intro x hx; rw [← heq] at hx; exact Doc.heads_sub_hashes hx
  · intro x hx; rw [heq] at hx; exact Doc.heads_sub_hashes hx

/-- no quiet non-converged pair, from the weak invariants alone -/
theorem sameSet_of_quiescentW {fp : Hash → Bool} {K : List Change} (kinj : KInj K) {c : Cfg}
    (oa : DocOK K c.docA) (ob : DocOK K c.docB) (s : SessW K c) (hq : Quiescent fp c) :
    SameSet c := by
  have hq' := hq
  obtain ⟨_, _, ga, gb⟩ := hq'
  obtain ⟨_, tA⟩ := quiet_spec (generate_none ga) s.a.rw.1
  obtain ⟨_, tB⟩ := quiet_spec (generate_none gb) s.b.rw.1
  rcases tA with thA | ifA
  · rcases tB with thB | ifB
    · apply sameSet_of_mutualW kinj oa ob
      · intro x hx; exact s.a.theirHeads _ thA x hx
      · intro x hx; exact s.b.theirHeads _ thB x hx
    · exact (sameSet_of_flightW kinj ob oa s.swap hq.swap ifB).swap
  · exact sameSet_of_flightW kinj oa ob s hq ifA

/-! ### preservation: the document of A grows (local edit, or a delivery from a third peer) -/

theorem HalfW.growA {K : List Change} {c : Cfg} {d' : Doc} (h : HalfW K c)
    (oa : DocOK K c.docA) (oa' : DocOK K d') (sub : ∀ x ∈ c.docA.applied, x ∈ d'.applied) :
    HalfW K { c with docA := d' } := by
  have subH : ∀ x ∈ c.docA.hashes, x ∈ d'.hashes := fun x hx => hashes_mono sub hx
  refine ⟨h.msgsK, fun m hm x hx => subH x (h.msgsHeads m hm x hx), h.theirHeads, h.rw, h.flight,
    fun x hx => subH x (h.lastSentSub x hx), ?_⟩
  intro hf hls
  show lastHeads c.linkAB c.stB.theirHeads = some d'.heads
  have hls' : c.stA.lastSentHeads = d'.heads := hls
  by_cases hnew : ∃ z ∈ d'.applied, z ∉ c.docA.applied
  · exfalso
    obtain ⟨z, hz, hzd, hzh⟩ := new_head_of_growth _ _ oa.wf.topo oa'.wf.topo sub hnew
    have : z.hash ∈ d'.heads := Doc.mem_heads.mpr ⟨Doc.mem_hashes.mpr ⟨z, hz, rfl⟩, hzd⟩
    rw [← hls'] at this
    exact hzh (h.lastSentSub _ this)
  · have same : ∀ x, x ∈ c.docA.applied ↔ x ∈ d'.applied := by
      intro x
      refine ⟨sub x, fun hx => ?_⟩
      apply Classical.byContradiction
      intro hn
      exact hnew ⟨x, hx, hn⟩
    have hh : c.docA.heads = d'.heads := heads_eq_of_same same
    rw [← hh]
    exact h.lastSentJ hf (by rw [hh]; exact hls')

theorem HalfW.growB {K : List Change} {c : Cfg} {d' : Doc} (h : HalfW K c)
    (sub : ∀ x ∈ c.docB.applied, x ∈ d'.applied) : HalfW K { c with docB := d' } :=
  ⟨h.msgsK, h.msgsHeads, fun H hH x hx => hashes_mono sub (h.theirHeads H hH x hx), h.rw, h.flight,
   h.lastSentSub, h.lastSentJ⟩

theorem SessW.growA {K : List Change} {c : Cfg} {d' : Doc} (s : SessW K c)
    (oa : DocOK K c.docA) (oa' : DocOK K d') (sub : ∀ x ∈ c.docA.applied, x ∈ d'.applied) :
    SessW K { c with docA := d' } :=
  ⟨s.a.growA oa oa' sub, s.b.growB (c := c.swap) sub⟩

theorem SessW.growB {K : List Change} {c : Cfg} {d' : Doc} (s : SessW K c)
    (ob : DocOK K c.docB) (ob' : DocOK K d') (sub : ∀ x ∈ c.docB.applied, x ∈ d'.applied) :
    SessW K { c with docB := d' } :=
  (s.swap.growA (c := c.swap) ob ob' sub).swap

/-! ### preservation: generate -/

theorem SessW.gen (fp : Hash → Bool) {K : List Change} {c : Cfg} (s : SessW K c)
    (oa : DocOK K c.docA) : SessW K (c.genA fp) := by
  rcases generate_cases fp c.docA c.stA with ⟨_, hg⟩ | ⟨_, _, hg⟩ | ⟨_, _, hg⟩
  · -- the reset message: the state is untouched
    have hc' : c.genA fp = { c with linkAB := c.linkAB ++ [Message.reset c.docA.heads] } := by
      unfold Cfg.genA; simp only [hg]
    rw [hc']
    refine ⟨⟨?_, ?_, s.a.theirHeads, s.a.rw, fun _ => Or.inl (by simp), s.a.lastSentSub, ?_⟩,
            ⟨s.b.msgsK, s.b.msgsHeads, s.b.theirHeads, s.b.rw, ?_, s.b.lastSentSub, s.b.lastSentJ⟩⟩
    · intro m hm x hx
      rcases List.mem_append.mp hm with h | h
      · exact s.a.msgsK m h x hx
      · simp only [List.mem_singleton] at h; subst h; cases hx
    · intro m hm x hx
      rcases List.mem_append.mp hm with h | h
      · exact s.a.msgsHeads m h x hx
      · simp only [List.mem_singleton] at h; subst h
        exact Doc.heads_sub_hashes hx
    · intro _ _
      simp [lastHeads, Message.reset]
    · intro _
      right; right
      show c.linkAB ++ [Message.reset c.docA.heads] ≠ []
      simp
  · have : c.genA fp = c := by unfold Cfg.genA; simp only [hg]
    rw [this]; exact s
  · obtain ⟨_, bc⟩ := mkBuilder_spec fp c.docA c.stA
    generalize hb : mkBuilder fp c.docA c.stA = b at hg bc
    have hc' : c.genA fp = { c with stA := sentState c.docA c.stA b,
                                    linkAB := c.linkAB ++ [mkMessage c.docA c.stA b] } := by
      unfold Cfg.genA; simp only [hg]
    rw [hc']
    have hnr : c.stA.needsReset = false := s.a.rw.2
    refine ⟨⟨?_, ?_, s.a.theirHeads, ⟨s.a.rw.1, rfl⟩, fun _ => Or.inl (by simp), ?_, ?_⟩,
            ⟨s.b.msgsK, s.b.msgsHeads, s.b.theirHeads, s.b.rw, ?_, s.b.lastSentSub, s.b.lastSentJ⟩⟩
    · intro m hm x hx
      rcases List.mem_append.mp hm with h | h
      · exact s.a.msgsK m h x hx
      · simp only [List.mem_singleton] at h; subst h
        rcases bc x hx with h1 | h1
        · exact oa.applied x h1
        · exact oa.queue x h1
    · intro m hm x hx
      rcases List.mem_append.mp hm with h | h
      · exact s.a.msgsHeads m h x hx
      · simp only [List.mem_singleton] at h; subst h
        rw [mkMessage_heads hnr] at hx
        exact Doc.heads_sub_hashes hx
    · intro x hx
      exact Doc.heads_sub_hashes hx
    · intro _ _
      simp only [lastHeads, getLast?_append_singleton, mkMessage_heads hnr]
    · intro _
      right; right
      show c.linkAB ++ [mkMessage c.docA c.stA b] ≠ []
      simp

/-! ### preservation: receive -/

theorem recvState_lastSent_mem (d : Doc) (s : State) (m : Message) :
    ∀ h ∈ (recvState d s m).lastSentHeads, h ∈ s.lastSentHeads ∨ h ∈ d.heads := by
  intro h hh
  have hfl : (recvFlags { s with inFlight := false } m.flags).lastSentHeads = s.lastSentHeads := by
    unfold recvFlags; split <;> rfl
  unfold recvState recvShared at hh
  simp only at hh
  split at hh <;> split at hh <;> split at hh <;> (try split at hh) <;> simp_all

theorem SessW.recv {K : List Change} {c : Cfg} {m : Message} {rest : List Message}
    (s : SessW K c) (hl : c.linkAB = m :: rest) (ob : DocOK K c.docB) :
    SessW K (c.recvB m rest) := by
  obtain ⟨f1, f2, _, _, _, f6, f7⟩ := recvState_fields c.docB c.stB m
  obtain ⟨_, subB, _, _⟩ := recvDoc_spec c.docB (recvFlags { c.stB with inFlight := false } m.flags) m ob.wf
  have subHB : ∀ x ∈ c.docB.hashes,
      x ∈ (recvDoc c.docB (recvFlags { c.stB with inFlight := false } m.flags) m).hashes :=
    fun x hx => hashes_mono subB hx
  have restSub : ∀ m' ∈ rest, m' ∈ c.linkAB := fun m' h => by rw [hl]; exact List.mem_cons_of_mem _ h
  have hm : m ∈ c.linkAB := by rw [hl]; simp
  refine ⟨⟨?_, ?_, ?_, s.a.rw, ?_, s.a.lastSentSub, ?_⟩, ⟨s.b.msgsK, ?_, ?_, ?_, ?_, ?_, ?_⟩⟩
  · intro m' hm'; exact s.a.msgsK m' (restSub m' hm')
  · intro m' hm'; exact s.a.msgsHeads m' (restSub m' hm')
  · intro H hH h hh; exact subHB _ (s.a.theirHeads H hH h hh)
  · intro _; right; left
    show (recvState c.docB c.stB m).inFlight = false
    exact f1
  · intro hf hls
    have old := s.a.lastSentJ hf hls
    show lastHeads rest (recvState c.docB c.stB m).theirHeads = some c.docA.heads
    rw [f2]
    rw [hl] at old
    unfold lastHeads at old ⊢
    cases rest with
    | nil => simpa using old
    | cons r rs =>
      have : (m :: r :: rs).getLast? = (r :: rs).getLast? := by simp [List.getLast?_cons_cons]
      rw [this] at old; exact old
  · intro m' hm' h hh; exact subHB _ (s.b.msgsHeads m' hm' h hh)
  · intro H hH h hh
    have : (recvState c.docB c.stB m).theirHeads = some H := hH
    rw [f2] at this
    cases this
    exact s.a.msgsHeads m hm h hh
  · exact ⟨f6.trans s.b.rw.1, f7.trans s.b.rw.2⟩
  · intro hf
    have : (recvState c.docB c.stB m).inFlight = true := hf
    rw [f1] at this; cases this
  · intro h hh
    rcases recvState_lastSent_mem c.docB c.stB m h hh with h1 | h1
    · exact subHB _ (s.b.lastSentSub h h1)
    · exact subHB _ (Doc.heads_sub_hashes h1)
  · intro hf
    have : (recvState c.docB c.stB m).inFlight = true := hf
    rw [f1] at this; cases this

/-- the receiver's document stays well formed and made of known changes -/
theorem DocOK.recv {K : List Change} {d : Doc} (o : DocOK K d) (s : State) (m : Message)
    (hm : ∀ x ∈ m.changes, x ∈ K) : DocOK K (recvDoc d s m) := by
  obtain ⟨w, _, s2, s3⟩ := recvDoc_spec d s m o.wf
  refine ⟨w, ?_, ?_⟩
  · intro x hx
    rcases s2 x hx with h | h | h
    · exact o.applied x h
    · exact o.queue x h
    · exact hm x h
  · intro x hx
    rcases (s3 x hx).2 with h | h
    · exact o.queue x h
    · exact hm x h

/-! ### a (re)connected pair -/

/-- a pair whose two states are new (fresh, or decoded from a persisted state) and whose links are
    empty satisfies the session invariant -/
theorem SessW.of_new {K : List Change} {c : Cfg}
    (hA : c.stA.inFlight = false ∧ c.stA.theirHeads = none ∧ c.stA.lastSentHeads = [] ∧
      c.stA.readOnly = false ∧ c.stA.needsReset = false)
    (hB : c.stB.inFlight = false ∧ c.stB.theirHeads = none ∧ c.stB.lastSentHeads = [] ∧
      c.stB.readOnly = false ∧ c.stB.needsReset = false)
    (lab : c.linkAB = []) (lba : c.linkBA = []) : SessW K c := by
  obtain ⟨a1, a2, a3, a4, a5⟩ := hA
  obtain ⟨b1, b2, b3, b4, b5⟩ := hB
  refine ⟨⟨?_, ?_, ?_, ⟨a4, a5⟩, ?_, ?_, ?_⟩, ⟨?_, ?_, ?_, ⟨b4, b5⟩, ?_, ?_, ?_⟩⟩
  · intro m hm; rw [lab] at hm; cases hm
  · intro m hm; rw [lab] at hm; cases hm
  · intro H hH; rw [a2] at hH; cases hH
  · intro hf; rw [a1] at hf; cases hf
  · intro h hh; rw [a3] at hh; cases hh
  · intro hf; rw [a1] at hf; cases hf
  · intro m hm
    have : m ∈ c.linkBA := hm
    rw [lba] at this; cases this
  · intro m hm
    have : m ∈ c.linkBA := hm
    rw [lba] at this; cases this
  · intro H hH
    have : c.stB.theirHeads = some H := hH
    rw [b2] at this; cases this
  · intro hf
    have : c.stB.inFlight = true := hf
    rw [b1] at this; cases this
  · intro h hh
    have : h ∈ c.stB.lastSentHeads := hh
    rw [b3] at this; cases this
  · intro hf
    have : c.stB.inFlight = true := hf
    rw [b1] at this; cases this

theorem decode_new {input : Bytes} {s : State} (h : State.decode input = .ok s) :
    s.inFlight = false ∧ s.theirHeads = none ∧ s.lastSentHeads = [] ∧ s.readOnly = false ∧
      s.needsReset = false := by
  unfold State.decode at h
  split at h
  · cases h
  · split at h
    · cases h
    · split at h
      · cases h
      · split at h
        · cases h
        · cases h; exact ⟨rfl, rfl, rfl, rfl, rfl⟩

end AmVerif.Sync.Prog
