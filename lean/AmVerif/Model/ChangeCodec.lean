import AmVerif.Model.Chunk
import AmVerif.Model.Graph
import AmVerif.Model.HexaneCodec
/-
  M2 (change chunk): the binary codec of a change, as `rust/automerge` reads and writes it.

  Reading (`Change::from_bytes` = `TryFrom<&[u8]> for Change`, change.rs):
    `Chunk::parse` (header, chunk.rs; compressed chunks are inflated and re-framed)
    → `Change::parse_following_header` (storage/change.rs: deps, actor, seq, start_op, time, message
      (UTF-8 validated by `parse::utf_8`), other actors, column metadata `RawColumns::parse`, column
      data, extra bytes; all integers through automerge's own STRICT `storage::parse::leb128`)
    → `RawColumns::uncompressed` → `Columns::parse2` (storage/columns.rs `ColumnLayoutParser`)
    → `ChangeOpsColumns::try_from(Columns)` (change_op_columns.rs)
    → leftover / chunk-type checks → `verify_ops`: `ChangeOpsIter` pulls one value per row out of
      every column decoder.  These are the LEGACY decoders of `columnar/encoding/{rle,delta,boolean,
      raw}.rs` (NOT hexane): they read varints with the lenient `leb128` crate, validate no canonical
      form, and are pure iterators, so a column may describe 2^62 rows in a few bytes.
    `Change::decode` (`ExpandedChange::from(&Change)`) then resolves actor indices against the actor
    table with `unwrap()`.

  Writing (`Change::from(ExpandedChange)` → `ChangeBuilder::build`): actor table "author first, then
  the other actors sorted", sorted deps, `ChangeOpsColumns::encode` (legacy RLE / delta / boolean
  encoders; the RLE state machine produces the same segments as hexane's, `Hexane.itemsOf`, except
  that an all-null column is written as nothing), `raw_columns()` with empty columns dropped.

  Every place where the Rust can panic on untrusted bytes is an explicit `panic` branch:
  `OpId::new(counter, actor)` (`try_into().unwrap()` to `u32`) in the key / obj / pred iterators,
  `count.abs()` of `i64::MIN` and `count -= 1` at `isize::MIN` in `RleDecoder` (overflow-checking
  builds), and the `actors.get(..).unwrap()` of `Change::decode`.
-/
namespace AmVerif.ChangeCodec
open AmVerif AmVerif.Leb AmVerif.Crdt
open AmVerif.Hexane (readU readS encU encS validUtf8 ValCodec two63 two64 cU64 cI64)

inductive CErr where
  | parse (e : PErr)       -- `storage::parse` error in the header or the change metadata
  | leftover               -- `LeftoverData`
  | wrongType              -- `WrongChunkType`
  | compressedCols         -- `CompressedChangeCols`
  | layout                 -- `BadColumnLayout` / `MismatchingColumn` / `NotInNormalOrder`
  | column                 -- `DecodeColumnError` (any column read error, unexpected null …)
  | opType                 -- `InvalidOpType`
  | counterTooLarge
  | tooManyOps             -- not a Rust error: the model's row budget is exhausted (the driver prints `skip`)
  deriving DecidableEq, Repr, Inhabited

abbrev Res := Outcome CErr

def liftP {α : Type} : Except PErr α → Res α
  | .ok a => .ok a
  | .error e => .err (.parse e)

/-! ## column ids and types (change_op_columns.rs, column_specification.rs) -/

def OBJ_COL_ID : Nat := 0
def KEY_COL_ID : Nat := 1
def INSERT_COL_ID : Nat := 3
def ACTION_COL_ID : Nat := 4
def VAL_COL_ID : Nat := 5
def PRED_COL_ID : Nat := 7
def EXPAND_COL_ID : Nat := 9
def MARK_NAME_COL_ID : Nat := 10

def T_GROUP : Nat := 0
def T_ACTOR : Nat := 1
def T_INT : Nat := 2
def T_DELTA : Nat := 3
def T_BOOL : Nat := 4
def T_STRING : Nat := 5
def T_VALMETA : Nat := 6
def T_VALUE : Nat := 7

/-- `ColumnSpec::new(id, type, false)` -/
def mkSpec (id ty : Nat) : Nat := id * 16 + ty
def specId (s : Nat) : Nat := s / 16
def specType (s : Nat) : Nat := s % 8
def specDeflate (s : Nat) : Bool := (s / 8) % 2 = 1
/-- `ColumnSpec::normalize`: `self.0 & 0b11110111` on the `u32` — meant to clear the deflate bit, it
    also clears every bit above bit 7 (column ids ≥ 16 collapse; no column the library writes has one) -/
def specNorm (s : Nat) : Nat := let l := s % 256; if specDeflate l then l - 8 else l

/-! ## legacy value decoders (`columnar/encoding/decodable_impls.rs`) -/

def MAX_ALLOCATION : Nat := 1000000000

/-- `SmolStr::decode`: `Vec<u8>::decode` (length, 0 ⇒ empty, allocation cap, `read_exact`) then
    `str::from_utf8` — the UTF-8 check of map keys and mark names (C39). -/
def unpackSmol (bs : Bytes) : Except Hexane.HErr (Bytes × Bytes) :=
  match readU bs with
  | .error e => .error e
  | .ok (len, rest) =>
    if len = 0 then .ok ([], rest)
    else if len > MAX_ALLOCATION then .error .length
    else if rest.length < len then .error .format
    else if validUtf8 (rest.take len) then .ok (rest.take len, rest.drop len) else .error .utf8

def cSmol : ValCodec Bytes := ⟨fun v => encU v.length ++ v, unpackSmol⟩

/-! ## `RleDecoder` (columnar/encoding/rle.rs) as an iterator -/

structure RleSt (α : Type) where
  data : Bytes            -- the bytes not yet read (`data[offset..]`)
  last : Option α         -- `last_value`
  count : Int             -- `count: isize`
  literal : Bool
  deriving Repr

def RleSt.init {α : Type} (bs : Bytes) : RleSt α := ⟨bs, none, 0, false⟩

/-- `RleDecoder::done` -/
def RleSt.done {α : Type} (s : RleSt α) : Bool := s.data.isEmpty && s.count == 0

/-- the `while self.count == 0` loop of `try_next`: `none` = the iterator is exhausted.
    Fuel: every round reads at least one byte. -/
def rleFill {α : Type} (c : ValCodec α) : Nat → RleSt α → Res (Option (RleSt α))
  | 0, _ => .err .column
  | fuel + 1, s =>
    if s.count ≠ 0 then .ok (some s)
    else if s.data.isEmpty then .ok none
    else
      match readS s.data with
      | .error _ => .err .column
      | .ok (n, rest) =>
        if n > 0 then
          match c.unpack rest with
          | .error _ => .err .column
          | .ok (v, rest) => .ok (some { data := rest, last := some v, count := n, literal := false })
        else if n < 0 then
          -- `count.abs()`: negating i64::MIN overflows (overflow-checking builds panic)
          if n = -(two63 : Int) then .panic .narrowing
          else .ok (some { data := rest, last := s.last, count := -n, literal := true })
        else
          match readU rest with
          | .error _ => .err .column
          | .ok (k, rest) =>
            -- `read::<usize>()? as isize`
            rleFill c fuel { data := rest, last := none, count := Hexane.toI64 k, literal := false }

/-- `RleDecoder::next`: `none` = exhausted, `some none` = null, `some (some v)` = value -/
def rleNext {α : Type} (c : ValCodec α) (s : RleSt α) : Res (Option (Option α) × RleSt α) :=
  match rleFill c (s.data.length + 1) s with
  | .err e => .err e
  | .panic p => .panic p
  | .ok none => .ok (none, s)
  | .ok (some s) =>
    -- `self.count -= 1` on `isize::MIN` (a null run of exactly 2^63) overflows
    if s.count = -(two63 : Int) then .panic .narrowing
    else
      let s := { s with count := s.count - 1 }
      if s.literal then
        match c.unpack s.data with
        | .error _ => .err .column
        | .ok (v, rest) => .ok (some (some v), { s with data := rest })
      else .ok (some s.last, s)

/-! ## `DeltaDecoder` -/

structure DeltaSt where
  rle : RleSt Int
  abs : Int
  deriving Repr

def DeltaSt.init (bs : Bytes) : DeltaSt := ⟨RleSt.init bs, 0⟩

/-- `i64::saturating_add` -/
def satAdd (a b : Int) : Int :=
  let s := a + b
  if s ≥ (two63 : Int) then (two63 : Int) - 1 else if s < -(two63 : Int) then -(two63 : Int) else s

def deltaNext (s : DeltaSt) : Res (Option (Option Int) × DeltaSt) :=
  match rleNext cI64 s.rle with
  | .err e => .err e
  | .panic p => .panic p
  | .ok (none, r) => .ok (none, { s with rle := r })
  | .ok (some none, r) => .ok (some none, { s with rle := r })
  | .ok (some (some d), r) => let a := satAdd s.abs d; .ok (some (some a), ⟨r, a⟩)

/-! ## `BooleanDecoder` / `MaybeBooleanDecoder` -/

structure BoolSt where
  data : Bytes
  last : Bool
  count : Nat
  wasEmpty : Bool         -- `RawDecoder::is_empty`: the whole column is empty
  deriving Repr

def BoolSt.init (bs : Bytes) : BoolSt := ⟨bs, true, 0, bs.isEmpty⟩

def boolFill : Nat → BoolSt → Res (Option BoolSt)
  | 0, _ => .err .column
  | fuel + 1, s =>
    if s.count ≠ 0 then .ok (some s)
    else if s.data.isEmpty then .ok none
    else
      match readU s.data with
      | .error _ => .err .column
      | .ok (k, rest) => boolFill fuel { s with data := rest, count := k, last := !s.last }

/-- `BooleanDecoder::next` -/
def boolNext (s : BoolSt) : Res (Option Bool × BoolSt) :=
  match boolFill (s.data.length + 1) s with
  | .err e => .err e
  | .panic p => .panic p
  | .ok none => .ok (none, s)
  | .ok (some s) => .ok (some s.last, { s with count := s.count - 1 })

/-- `MaybeBooleanDecoder::next` followed by `.unwrap_or(false)`: an empty column is all `false`,
    and so is everything after the end of a non-empty one -/
def maybeBoolNext (s : BoolSt) : Res (Bool × BoolSt) :=
  if s.wasEmpty then .ok (false, s)
  else
    match boolNext s with
    | .err e => .err e
    | .panic p => .panic p
    | .ok (none, s) => .ok (false, s)
    | .ok (some b, s) => .ok (b, s)

/-! ## value column (`ValueIter`, column_range/value.rs) -/

structure ValSt where
  vmeta : RleSt Nat
  raw : Bytes
  deriving Repr

/-- `RawDecoder::read_bytes` -/
def readBytes (raw : Bytes) (n : Nat) : Option (Bytes × Bytes) :=
  if raw.length < n then none else some (raw.take n, raw.drop n)

/-- `parse_input`: the STRICT parser of M0 on exactly the value's bytes, nothing left over -/
def strictU (bs : Bytes) : Option Nat :=
  match uleb64 bs with
  | .ok (n, []) => some n
  | _ => none

def strictS (bs : Bytes) : Option Int :=
  match sleb64 bs with
  | .ok (n, []) => some n
  | _ => none

def leBytesToNat : Bytes → Nat
  | [] => 0
  | b :: r => b.toNat + 256 * leBytesToNat r

/-- one value from its metadata word and the raw column -/
def readValue (m : Nat) (raw : Bytes) : Res (Scalar × Bytes) :=
  let ty := m % 16
  let len := m / 16
  if ty = 0 then .ok (.null, raw)
  else if ty = 1 then .ok (.bool false, raw)
  else if ty = 2 then .ok (.bool true, raw)
  else
    match readBytes raw len with
    | none => .err .column
    | some (bs, rest) =>
      if ty = 3 then match strictU bs with | some n => .ok (.uint n, rest) | none => .err .column
      else if ty = 4 then match strictS bs with | some n => .ok (.int n, rest) | none => .err .column
      else if ty = 5 then (if len = 8 then .ok (.f64 (leBytesToNat bs), rest) else .err .column)
      else if ty = 6 then (if validUtf8 bs then .ok (.str bs, rest) else .err .column)   -- `str::from_utf8` (C39)
      else if ty = 7 then .ok (.bytes bs, rest)
      else if ty = 8 then match strictS bs with | some n => .ok (.counter n, rest) | none => .err .column
      else if ty = 9 then match strictS bs with | some n => .ok (.timestamp n, rest) | none => .err .column
      else .ok (.unknown ty bs, rest)

/-- `ValueIter::next` then `next_in_col`: an exhausted or null metadata column is an error -/
def valNext (s : ValSt) : Res (Scalar × ValSt) :=
  match rleNext cU64 s.vmeta with
  | .err e => .err e
  | .panic p => .panic p
  | .ok (some (some m), ms) =>
    match readValue m s.raw with
    | .ok (v, raw) => .ok (v, ⟨ms, raw⟩)
    | .err e => .err e
    | .panic p => .panic p
  | .ok (_, _) => .err .column

/-! ## stored ops: ids carry actor INDICES into the change's actor table -/

structure IdI where
  ctr : Nat
  actor : Nat
  deriving DecidableEq, Repr, Inhabited

inductive KeyI where
  | prop (s : Bytes)
  | elem (id : IdI)        -- `ElemId`; `HEAD` is `elem ⟨0, 0⟩`
  deriving DecidableEq, Repr, Inhabited

/-- `ChangeOp` -/
structure Row where
  obj : IdI                -- `ObjId`; root is counter 0
  key : KeyI
  insert : Bool
  action : Nat
  val : Scalar
  pred : List IdI
  expand : Bool
  markName : Option Bytes
  deriving DecidableEq, Repr, Inhabited

/-- `OpId::new(counter, actor)`: both must fit a `u32` (`try_into().unwrap()`) -/
def opIdNew (ctr actor : Nat) : Res IdI :=
  if ctr < 2 ^ 32 ∧ actor < 2 ^ 32 then .ok ⟨ctr, actor⟩ else .panic .narrowing

/-! ### `ObjIdIter` -/

structure ObjSt where
  actor : RleSt Nat
  ctr : RleSt Nat
  deriving Repr

def isNullish {α : Type} : Option (Option α) → Bool
  | some (some _) => false
  | _ => true

def objNext (s : ObjSt) : Res (IdI × ObjSt) :=
  match rleNext cU64 s.actor with
  | .err e => .err e
  | .panic p => .panic p
  | .ok (a, as) =>
    match rleNext cU64 s.ctr with
    | .err e => .err e
    | .panic p => .panic p
    | .ok (c, cs) =>
      let st : ObjSt := ⟨as, cs⟩
      match a, c with
      | some (some a), some (some c) =>
        (match opIdNew c a with | .ok id => .ok (id, st) | .err e => .err e | .panic p => .panic p)
      | _, some (some c) => if c = 0 then .ok (⟨0, 0⟩, st) else .err .column
      | a, _ => if isNullish a then .ok (⟨0, 0⟩, st) else .err .column

/-! ### `KeyIter` -/

structure KeySt where
  actor : RleSt Nat
  ctr : DeltaSt
  str : RleSt Bytes
  deriving Repr

def keyNext (s : KeySt) : Res (KeyI × KeySt) :=
  match rleNext cU64 s.actor with
  | .err e => .err e
  | .panic p => .panic p
  | .ok (a, as) =>
    match deltaNext s.ctr with
    | .err e => .err e
    | .panic p => .panic p
    | .ok (c, cs) =>
      match rleNext cSmol s.str with
      | .err e => .err e
      | .panic p => .panic p
      | .ok (str, ss) =>
        let st : KeySt := ⟨as, cs, ss⟩
        match a, c, str with
        | some (some _), some (some _), some (some _) => .err .column
        | some (some a), some (some c), _ =>
          -- `ctr.try_into()` (i64 → u64), then `OpId::new`
          if c < 0 then .err .column
          else (match opIdNew c.toNat a with | .ok id => .ok (.elem id, st) | .err e => .err e | .panic p => .panic p)
        | a, c, some (some str) => if isNullish a ∧ isNullish c then .ok (.prop str, st) else .err .column
        | _, some (some c), _ => if c = 0 then .ok (.elem ⟨0, 0⟩, st) else .err .column
        | _, _, _ => .err .column     -- all null/exhausted (`Ok(None)` → unexpected null) or a lone actor

/-! ### `OpIdListIter` -/

structure PredSt where
  num : RleSt Nat
  actor : RleSt Nat
  ctr : DeltaSt
  deriving Repr

def predItems : Nat → RleSt Nat → DeltaSt → Res (List IdI × RleSt Nat × DeltaSt)
  | 0, as, cs => .ok ([], as, cs)
  | n + 1, as, cs =>
    match rleNext cU64 as with
    | .err e => .err e
    | .panic p => .panic p
    | .ok (a, as) =>
      match deltaNext cs with
      | .err e => .err e
      | .panic p => .panic p
      | .ok (c, cs) =>
        match a, c with
        | some (some a), some (some c) =>
          if c < 0 then .err .column
          else
            match opIdNew c.toNat a with
            | .err e => .err e
            | .panic p => .panic p
            | .ok id =>
              match predItems n as cs with
              | .ok (ids, as, cs) => .ok (id :: ids, as, cs)
              | .err e => .err e
              | .panic p => .panic p
        | _, _ => .err .column

def predNext (s : PredSt) : Res (List IdI × PredSt) :=
  match rleNext cU64 s.num with
  | .err e => .err e
  | .panic p => .panic p
  | .ok (some (some n), ns) =>
    (match predItems n s.actor s.ctr with
     | .ok (ids, as, cs) => .ok (ids, ⟨ns, as, cs⟩)
     | .err e => .err e
     | .panic p => .panic p)
  | .ok (_, _) => .err .column

/-! ## column layout -/

/-- `Range<usize>` -/
structure Rng where
  start : Nat
  stop : Nat
  deriving DecidableEq, Repr, Inhabited

def Rng.isEmpty (r : Rng) : Bool := r.stop ≤ r.start
def Rng.len (r : Rng) : Nat := r.stop - r.start
def Rng.zero : Rng := ⟨0, 0⟩

/-- `&data[range]` (the layout checks guarantee the range is inside `data`) -/
def slice (data : Bytes) (r : Rng) : Bytes := (data.drop r.start).take (r.stop - r.start)

def usizeMax : Nat := 2 ^ 64 - 1

/-- the `scan` of `RawColumns::parse`: consecutive ranges, `saturating_add` -/
def colRanges : List (Nat × Nat) → Nat → List (Nat × Rng)
  | [], _ => []
  | (spec, len) :: r, off =>
    let e := min (off + len) usizeMax
    (spec, ⟨off, e⟩) :: colRanges r e

/-- `are_normal_sorted` -/
def normalSorted : List (Nat × Rng) → Bool
  | [] => true
  | [_] => true
  | a :: b :: r => !(specNorm b.1 < specNorm a.1) && normalSorted (b :: r)

/-- `parse::apply_n(num_columns, tuple2(leb128_u32, leb128_u64))` -/
def parseColPairs : Nat → Bytes → PResult (List (Nat × Nat))
  | 0, i => .ok ([], i)
  | n + 1, i =>
    match uleb32 i with
    | .error e => .error e
    | .ok (spec, i) =>
      match uleb64 i with
      | .error e => .error e
      | .ok (len, i) =>
        match parseColPairs n i with
        | .error e => .error e
        | .ok (r, i) => .ok ((spec, len) :: r, i)

/-- `RawColumns::parse` -/
def parseRawColumns (i : Bytes) : Res (List (Nat × Rng) × Bytes) :=
  match uleb64 i with
  | .error e => .err (.parse e)
  | .ok (n, i) =>
    match parseColPairs n i with
    | .error e => .err (.parse e)
    | .ok (pairs, i) =>
      let cols := colRanges pairs 0
      if normalSorted cols then .ok (cols, i) else .err .layout

/-- `GroupedColumnRange`; `kind`: 0 = RleInt (actor / integer), 1 = RleString, 2 = Delta, 3 = Boolean -/
inductive GCol where
  | simple (kind : Nat) (r : Rng)
  | value (m raw : Rng)
  deriving DecidableEq, Repr

/-- `ValueRange::range` -/
def valueRange (m raw : Rng) : Rng := if raw.isEmpty then m else ⟨m.start, raw.stop⟩

def GCol.range : GCol → Rng
  | .simple _ r => r
  | .value m raw => valueRange m raw

inductive CKind where
  | simple (r : Rng)
  | value (m raw : Rng)
  | group (num : Rng) (cols : List GCol)
  deriving DecidableEq, Repr

/-- `GroupRange::range` / `GroupBuilder::range` -/
def groupRange (num : Rng) (cols : List GCol) : Rng :=
  match cols.getLast? with
  | some c => ⟨num.start, c.range.stop⟩
  | none => num

/-- `Column` (spec + `GenericColumnRange`) -/
structure Col where
  spec : Nat
  kind : CKind
  deriving DecidableEq, Repr

def Col.range (c : Col) : Rng :=
  match c.kind with
  | .simple r => r
  | .value m raw => valueRange m raw
  | .group num cols => groupRange num cols

inductive GState where
  | ready (spec : Nat) (num : Rng) (cols : List GCol)
  | inValue (spec : Nat) (num : Rng) (cols : List GCol) (vm : Rng)
  deriving Repr

inductive LState where
  | ready
  | inValue (spec : Nat) (m : Rng)
  | inGroup (id : Nat) (g : GState)
  deriving Repr

structure LP where
  cols : List Col := []
  st : LState := .ready
  deriving Repr

def simpleKind (ty : Nat) : Nat :=
  if ty = T_STRING then 1 else if ty = T_DELTA then 2 else if ty = T_BOOL then 3 else 0

def GState.finish : GState → Col
  | .ready spec num cols => ⟨spec, .group num cols⟩
  | .inValue spec num cols vm => ⟨spec, .group num (cols ++ [.value vm Rng.zero])⟩

/-- `ColumnLayoutParser::add_column` (`check_contiguous`, `check_bounds`, then the state machine;
    `self.last_spec` is never assigned in the Rust, so its two checks never fire).  Fuel bounds the
    self-recursion after a state is closed (at most two levels). -/
def addColumn (total : Nat) : Nat → LP → Nat → Rng → Except Unit LP
  | 0, _, _, _ => .error ()
  | fuel + 1, p, spec, r =>
    let prevEnd : Option Nat :=
      match p.st with
      | .ready => p.cols.getLast?.map (fun c => c.range.stop)
      | .inValue _ m => some m.stop
      | .inGroup _ (.ready _ num cols) => some (groupRange num cols).stop
      | .inGroup _ (.inValue _ _ _ vm) => some vm.stop
    if prevEnd.isSome ∧ prevEnd ≠ some r.start then .error ()         -- NonContiguousColumns
    else if r.stop > total then .error ()                             -- DataOutOfRange
    else
      let ty := specType spec
      match p.st with
      | .ready =>
        if ty = T_GROUP then .ok { p with st := .inGroup (specId spec) (.ready spec r []) }
        else if ty = T_VALMETA then .ok { p with st := .inValue spec r }
        else if ty = T_VALUE then .error ()                           -- LoneRawValueColumn
        else .ok { p with cols := p.cols ++ [⟨spec, .simple r⟩] }
      | .inValue vspec m =>
        if ty = T_VALUE then
          if specId vspec ≠ specId spec then .error ()                -- MismatchingValueMetadataId
          else .ok { cols := p.cols ++ [⟨vspec, .value m r⟩], st := .ready }
        else addColumn total fuel { cols := p.cols ++ [⟨vspec, .value m Rng.zero⟩], st := .ready } spec r
      | .inGroup id g =>
        if id ≠ specId spec then addColumn total fuel { cols := p.cols ++ [g.finish], st := .ready } spec r
        else
          match g with
          | .ready gspec num cols =>
            if ty = T_GROUP then .error ()                            -- NestedGroup
            else if ty = T_VALUE then .error ()                       -- LoneRawValueColumn
            else if ty = T_VALMETA then .ok { p with st := .inGroup id (.inValue gspec num cols r) }
            else .ok { p with st := .inGroup id (.ready gspec num (cols ++ [.simple (simpleKind ty) r])) }
          | .inValue gspec num cols vm =>
            if ty = T_VALUE then .ok { p with st := .inGroup id (.ready gspec num (cols ++ [.value vm r])) }
            else addColumn total fuel { p with st := .inGroup id (.ready gspec num (cols ++ [.value vm Rng.zero])) } spec r

/-- `ColumnLayoutParser::build` -/
def LP.build (p : LP) : List Col :=
  match p.st with
  | .ready => p.cols
  | .inValue spec m => p.cols ++ [⟨spec, .value m Rng.zero⟩]
  | .inGroup _ g => p.cols ++ [g.finish]

/-- `Columns::parse2` -/
def parseLayout (total : Nat) : List (Nat × Rng) → LP → Except Unit (List Col)
  | [], p => .ok p.build
  | (spec, r) :: rest, p =>
    match addColumn total 3 p spec r with
    | .error e => .error e
    | .ok p => parseLayout total rest p

/-- `ChangeOpsColumns` -/
structure OpCols where
  objActor : Rng := Rng.zero
  objCtr : Rng := Rng.zero
  keyActor : Rng := Rng.zero
  keyCtr : Rng := Rng.zero
  keyStr : Rng := Rng.zero
  insert : Rng := Rng.zero
  action : Rng := Rng.zero
  valMeta : Rng := Rng.zero
  valRaw : Rng := Rng.zero
  predNum : Rng := Rng.zero
  predActor : Rng := Rng.zero
  predCtr : Rng := Rng.zero
  expand : Rng := Rng.zero
  markName : Rng := Rng.zero
  deriving DecidableEq, Repr

/-- `TryFrom<Columns> for ChangeOpsColumns`: known (id, type) pairs are picked (a later duplicate
    overwrites an earlier one), unknown columns are ignored -/
def pickCols : List Col → OpCols → Except Unit OpCols
  | [], o => .ok o
  | c :: rest, o =>
    let id := specId c.spec
    let ty := specType c.spec
    if id = OBJ_COL_ID ∧ ty = T_ACTOR then pickCols rest { o with objActor := c.range }
    else if id = OBJ_COL_ID ∧ ty = T_INT then pickCols rest { o with objCtr := c.range }
    else if id = KEY_COL_ID ∧ ty = T_ACTOR then pickCols rest { o with keyActor := c.range }
    else if id = KEY_COL_ID ∧ ty = T_DELTA then pickCols rest { o with keyCtr := c.range }
    else if id = KEY_COL_ID ∧ ty = T_STRING then pickCols rest { o with keyStr := c.range }
    else if id = INSERT_COL_ID ∧ ty = T_BOOL then pickCols rest { o with insert := c.range }
    else if id = ACTION_COL_ID ∧ ty = T_INT then pickCols rest { o with action := c.range }
    else if id = VAL_COL_ID ∧ ty = T_VALMETA then
      match c.kind with
      | .value m raw => pickCols rest { o with valMeta := m, valRaw := raw }
      | _ => .error ()
    else if id = PRED_COL_ID ∧ ty = T_GROUP then
      match c.kind with
      | .group num [] => pickCols rest { o with predNum := num, predActor := Rng.zero, predCtr := Rng.zero }
      | .group num [.simple 0 a, .simple 2 d] => pickCols rest { o with predNum := num, predActor := a, predCtr := d }
      | _ => .error ()
    else if id = EXPAND_COL_ID ∧ ty = T_BOOL then pickCols rest { o with expand := c.range }
    else if id = MARK_NAME_COL_ID ∧ ty = T_STRING then pickCols rest { o with markName := c.range }
    else pickCols rest o

/-! ## `ChangeOpsIter` -/

structure IterSt where
  obj : Option ObjSt
  key : KeySt
  insert : BoolSt
  action : RleSt Nat
  val : ValSt
  pred : PredSt
  expand : BoolSt
  markName : RleSt Bytes
  deriving Repr

/-- `ChangeOpsColumns::iter(data)` -/
def IterSt.init (o : OpCols) (data : Bytes) : IterSt :=
  { obj := if o.objActor.isEmpty || o.objCtr.isEmpty then none        -- `ObjIdRange::new`
           else some ⟨RleSt.init (slice data o.objActor), RleSt.init (slice data o.objCtr)⟩
    key := ⟨RleSt.init (slice data o.keyActor), DeltaSt.init (slice data o.keyCtr), RleSt.init (slice data o.keyStr)⟩
    insert := BoolSt.init (slice data o.insert)
    action := RleSt.init (slice data o.action)
    val := ⟨RleSt.init (slice data o.valMeta), slice data o.valRaw⟩
    pred := ⟨RleSt.init (slice data o.predNum), RleSt.init (slice data o.predActor), DeltaSt.init (slice data o.predCtr)⟩
    expand := BoolSt.init (slice data o.expand)
    markName := RleSt.init (slice data o.markName) }

/-- `OpType::validate_action_and_value` -/
def validAction (action : Nat) (v : Scalar) : Bool :=
  if action = 5 then (match v with | .int _ => true | .uint _ => true | _ => false)
  else action ≤ 7

/-- one round of `ChangeOpsIter::try_next` (the caller has checked `done`) -/
def rowNext (s : IterSt) : Res (Row × IterSt) :=
  let objR : Res (IdI × Option ObjSt) :=
    match s.obj with
    | none => .ok (⟨0, 0⟩, none)
    | some os => (match objNext os with | .ok (id, os) => .ok (id, some os) | .err e => .err e | .panic p => .panic p)
  match objR with
  | .err e => .err e
  | .panic p => .panic p
  | .ok (obj, os) =>
  match keyNext s.key with
  | .err e => .err e
  | .panic p => .panic p
  | .ok (key, ks) =>
  match boolNext s.insert with
  | .err e => .err e
  | .panic p => .panic p
  | .ok (none, _) => .err .column
  | .ok (some insert, is) =>
  match rleNext cU64 s.action with
  | .err e => .err e
  | .panic p => .panic p
  | .ok (none, _) => .err .column
  | .ok (some none, _) => .err .column
  | .ok (some (some action), acs) =>
  match valNext s.val with
  | .err e => .err e
  | .panic p => .panic p
  | .ok (val, vs) =>
  match predNext s.pred with
  | .err e => .err e
  | .panic p => .panic p
  | .ok (pred, ps) =>
  match maybeBoolNext s.expand with
  | .err e => .err e
  | .panic p => .panic p
  | .ok (expand, es) =>
  match rleNext cSmol s.markName with
  | .err e => .err e
  | .panic p => .panic p
  | .ok (mn, ms) =>
    if validAction action val then
      .ok (⟨obj, key, insert, action, val, pred, expand, mn.bind id⟩,
           { obj := os, key := ks, insert := is, action := acs, val := vs, pred := ps, expand := es, markName := ms })
    else .err .opType

/-- the `for op in self.iter_ops()` loop of `verify_ops`; `limit` is the model's row budget -/
def rowsLoop : Nat → IterSt → Res (List Row)
  | 0, s => if s.action.done then .ok [] else .err .tooManyOps
  | limit + 1, s =>
    if s.action.done then .ok []
    else
      match rowNext s with
      | .err e => .err e
      | .panic p => .panic p
      | .ok (row, s) =>
        match rowsLoop limit s with
        | .ok rows => .ok (row :: rows)
        | .err e => .err e
        | .panic p => .panic p

/-! ## change metadata (`Change::parse_following_header`) -/

/-- `length_prefixed(change_hash)` body -/
def parseHashes : Nat → Bytes → PResult (List Bytes)
  | 0, i => .ok ([], i)
  | n + 1, i =>
    match Chunk.takeN Consts.HASH_SIZE i with
    | .error e => .error e
    | .ok (h, i) =>
      match parseHashes n i with
      | .error e => .error e
      | .ok (r, i) => .ok (h :: r, i)

/-- `parse::actor_id` -/
def parseActor (i : Bytes) : PResult Bytes :=
  match uleb64 i with
  | .error e => .error e
  | .ok (len, i) => Chunk.takeN len i

def parseActors : Nat → Bytes → PResult (List Bytes)
  | 0, i => .ok ([], i)
  | n + 1, i =>
    match parseActor i with
    | .error e => .error e
    | .ok (a, i) =>
      match parseActors n i with
      | .error e => .error e
      | .ok (r, i) => .ok (a :: r, i)

/-- the stored change (`storage::Change`) before its ops are read -/
structure Meta where
  deps : List Bytes
  actor : Bytes
  others : List Bytes
  seq : Nat
  startOp : Nat
  time : Int
  message : Option Bytes      -- validated UTF-8; `None` when empty
  cols : OpCols
  data : Bytes                -- the column data block
  extra : Bytes
  deriving Repr

def parseMeta (body : Bytes) : Res Meta :=
  match uleb64 body with
  | .error e => .err (.parse e)
  | .ok (ndeps, i) =>
  match parseHashes ndeps i with
  | .error e => .err (.parse e)
  | .ok (deps, i) =>
  match parseActor i with
  | .error e => .err (.parse e)
  | .ok (actor, i) =>
  match uleb64 i with
  | .error e => .err (.parse e)
  | .ok (seq, i) =>
  match nonzeroUleb64 i with
  | .error e => .err (.parse e)
  | .ok (startOp, i) =>
  match sleb64 i with
  | .error e => .err (.parse e)
  | .ok (time, i) =>
  match uleb64 i with
  | .error e => .err (.parse e)
  | .ok (mlen, i) =>
  match Chunk.takeN mlen i with
  | .error e => .err (.parse e)
  | .ok (msg, i) =>
  if !validUtf8 msg then .err (.parse .invalid) else        -- `parse::utf_8` (C39)
  match uleb64 i with
  | .error e => .err (.parse e)
  | .ok (nothers, i) =>
  match parseActors nothers i with
  | .error e => .err (.parse e)
  | .ok (others, i) =>
  match parseRawColumns i with
  | .err e => .err e
  | .panic p => .panic p
  | .ok (rawCols, i) =>
  let total := (rawCols.map (fun c => c.2.len)).sum
  match Chunk.takeN total i with
  | .error e => .err (.parse e)
  | .ok (data, extra) =>
  if rawCols.any (fun c => specDeflate c.1) then .err .compressedCols else
  match parseLayout total rawCols {} with
  | .error _ => .err .layout
  | .ok layout =>
  match pickCols layout {} with
  | .error _ => .err .layout
  | .ok cols =>
    .ok { deps := deps, actor := actor, others := others, seq := seq, startOp := startOp, time := time,
          message := if msg.isEmpty then none else some msg, cols := cols, data := data, extra := extra }

/-- `Change` as `from_bytes` returns it -/
structure Stored where
  hash : Bytes
  checksumOk : Bool           -- not checked by `from_bytes` (it is by `load`)
  deps : List Bytes
  actor : Bytes
  others : List Bytes
  seq : Nat
  startOp : Nat
  time : Int
  message : Option Bytes
  rows : List Row
  extra : Bytes
  deriving Repr

/-- `Change::from_bytes`.  `limit`: the model's budget of ops. -/
def fromBytes (limit : Nat) (bs : Bytes) : Res Stored :=
  match Chunk.parseChunk (fun _ _ => true) bs with
  | .error e => .err (.parse e)
  | .ok (ch, rest) =>
    -- (a document / bundle chunk is parsed by its own body parser and then refused as `WrongChunkType`)
    if ch.ty ≠ Consts.CHUNK_TYPE_CHANGE ∧ ch.ty ≠ Consts.CHUNK_TYPE_COMPRESSED then .err .wrongType else
    match parseMeta ch.body with
    | .err e => .err e
    | .panic p => .panic p
    | .ok m =>
      if !rest.isEmpty then .err .leftover else
      match rowsLoop limit (IterSt.init m.cols m.data) with
      | .err e => .err e
      | .panic p => .panic p
      | .ok rows =>
        if ¬ m.startOp < 2 ^ 32 then .err .counterTooLarge else
        .ok { hash := ch.hash, checksumOk := ch.checksumValid, deps := m.deps, actor := m.actor, others := m.others,
              seq := m.seq, startOp := m.startOp, time := m.time, message := m.message, rows := rows, extra := m.extra }

/-! ## `Change::decode` (`ExpandedChange::from(&Change)`) -/

/-- `ExpandedChange` (`legacy::Change`) -/
structure XChange where
  actor : Bytes
  seq : Nat
  startOp : Nat
  time : Int
  message : Option Bytes
  deps : List Bytes
  extra : Bytes
  ops : List Op
  deriving DecidableEq, Repr, Inhabited

def XChange.toGraph (x : XChange) (hash : Bytes) : Crdt.Change :=
  ⟨hash, x.actor, x.seq, x.startOp, x.deps, x.ops⟩

def insertOpId (o : OpId) : List OpId → List OpId
  | [] => [o]
  | x :: xs => if o.lt x then o :: x :: xs else x :: insertOpId o xs

/-- `SortedVec<OpId>`: `legacy::OpId` orders by counter, then actor bytes -/
def sortOpIds (xs : List OpId) : List OpId := xs.foldr insertOpId []

/-- `actors.get(&idx).unwrap()` -/
def resolve (actors : List Bytes) (id : IdI) : Res OpId :=
  match actors[id.actor]? with
  | some a => .ok ⟨id.ctr, a⟩
  | none => .panic .unwrapNone

def resolveList (actors : List Bytes) : List IdI → Res (List OpId)
  | [] => .ok []
  | id :: r =>
    match resolve actors id with
    | .err e => .err e
    | .panic p => .panic p
    | .ok o =>
      match resolveList actors r with
      | .ok os => .ok (o :: os)
      | .err e => .err e
      | .panic p => .panic p

/-- `legacy::OpType::from_parts` (the action / value pair has been validated by `verify_ops`) -/
def actionOf (r : Row) : Action :=
  if r.action = 0 then .make .map
  else if r.action = 1 then .put r.val
  else if r.action = 2 then .make .list
  else if r.action = 3 then .del
  else if r.action = 4 then .make .text
  else if r.action = 5 then
    (match r.val with
     | .int i => .inc i
     | .uint n => .inc (Hexane.toI64 n)       -- `i as i64`
     | _ => .inc 0)                            -- unreachable after `validAction`
  else if r.action = 6 then .make .table
  else
    match r.markName with
    | some name => .markBegin name r.val r.expand
    | none => .markEnd r.expand

def expandRow (actors : List Bytes) (id : OpId) (r : Row) : Res Op :=
  let keyR : Res Key :=
    match r.key with
    | .prop s => .ok (.map s)
    | .elem e =>
      if e = ⟨0, 0⟩ then .ok .head          -- `is_head`: equal to `HEAD`
      else (match resolve actors e with | .ok o => .ok (.elem o) | .err e => .err e | .panic p => .panic p)
  match keyR with
  | .err e => .err e
  | .panic p => .panic p
  | .ok key =>
  let objR : Res ObjId :=
    if r.obj.ctr = 0 then .ok .root          -- `is_root`: counter 0
    else (match resolve actors r.obj with | .ok o => .ok (.id o) | .err e => .err e | .panic p => .panic p)
  match objR with
  | .err e => .err e
  | .panic p => .panic p
  | .ok obj =>
  match resolveList actors r.pred with
  | .err e => .err e
  | .panic p => .panic p
  | .ok pred => .ok ⟨id, obj, key, r.insert, actionOf r, sortOpIds pred⟩   -- `.collect::<SortedVec<_>>()`

def expandRows (actors : List Bytes) (actor : Bytes) : Nat → List Row → Res (List Op)
  | _, [] => .ok []
  | ctr, r :: rest =>
    match expandRow actors ⟨ctr, actor⟩ r with
    | .err e => .err e
    | .panic p => .panic p
    | .ok op =>
      match expandRows actors actor (ctr + 1) rest with
      | .ok ops => .ok (op :: ops)
      | .err e => .err e
      | .panic p => .panic p

def expand (s : Stored) : Res XChange :=
  match expandRows (s.actor :: s.others) s.actor s.startOp s.rows with
  | .err e => .err e
  | .panic p => .panic p
  | .ok ops => .ok ⟨s.actor, s.seq, s.startOp, s.time, s.message, s.deps, s.extra, ops⟩

/-- `Change::from_bytes(bytes)?.decode()` with the change hash -/
def decodeChange (limit : Nat) (bs : Bytes) : Res (Bytes × XChange) :=
  match fromBytes limit bs with
  | .err e => .err e
  | .panic p => .panic p
  | .ok s =>
    match expand s with
    | .err e => .err e
    | .panic p => .panic p
    | .ok x => .ok (s.hash, x)

/-! ## writing: `Change::from(ExpandedChange)` → `ChangeBuilder::build` -/

/-- the legacy `RleEncoder`: the segments of `Hexane.itemsOf`, except that a column holding only
    nulls (or nothing) is written as nothing (`InitialNullRun` is dropped by `finish`) -/
def rleEnc {α : Type} [DecidableEq α] (c : ValCodec α) (xs : List (Option α)) : Bytes :=
  if xs.all (fun x => x.isNone) then [] else Hexane.rleEncode c xs

/-- `DeltaEncoder`: `value.saturating_sub(absolute_value)`; nulls leave the running value -/
def satSub (a b : Int) : Int := satAdd a (-b)

def deltasSat : List (Option Int) → Int → List (Option Int)
  | [], _ => []
  | none :: r, abs => none :: deltasSat r abs
  | some v :: r, abs => some (satSub v abs) :: deltasSat r v

def deltaEnc (xs : List (Option Int)) : Bytes := rleEnc cI64 (deltasSat xs 0)

/-- `BooleanEncoder` -/
def boolEnc (xs : List Bool) : Bytes := Hexane.boolEncode xs

/-- `MaybeBooleanEncoder`: nothing when every value is `false` -/
def maybeBoolEnc (xs : List Bool) : Bytes := if xs.all (fun b => !b) then [] else boolEnc xs

/-- `ulebsize`: `ceil((64 - leading_zeros) / 7)`, 1 for 0 -/
def ulebsize (n : Nat) : Nat := if n = 0 then 1 else (Nat.log2 n + 1 + 6) / 7

/-- `lebsize`: one more bit for the sign -/
def lebsize (v : Int) : Nat :=
  let m : Nat := if v < 0 then (-v - 1).toNat else v.toNat
  let bits := if m = 0 then 0 else Nat.log2 m + 1
  (1 + bits + 6) / 7

def natToLeBytes : Nat → Nat → Bytes
  | 0, _ => []
  | k + 1, n => UInt8.ofNat (n % 256) :: natToLeBytes k (n / 256)

/-- `ValueMeta::from(&ScalarValue)` -/
def valueMeta : Scalar → Nat
  | .uint n => ulebsize n * 16 + 3
  | .int i => lebsize i * 16 + 4
  | .null => 0
  | .bool false => 1
  | .bool true => 2
  | .timestamp i => lebsize i * 16 + 9
  | .f64 _ => 8 * 16 + 5
  | .counter i => lebsize i * 16 + 8
  | .str s => s.length * 16 + 6
  | .bytes b => b.length * 16 + 7
  | .unknown ty b => b.length * 16 + ty

/-- `encode_val` (the varints by the same algorithm as the `leb128` crate writers) -/
def valueRaw : Scalar → Bytes
  | .uint n => ulebEncode n
  | .int i => slebEncode i
  | .null => []
  | .bool _ => []
  | .timestamp i => slebEncode i
  | .f64 b => natToLeBytes 8 b
  | .counter i => slebEncode i
  | .str s => s
  | .bytes b => b
  | .unknown _ b => b

def isRoot (r : Row) : Bool := r.obj.ctr = 0 ∧ r.obj.actor = 0

/-- the 14 raw columns of `ChangeOpsColumns::encode` + `raw_columns()`, in order, with their specs -/
def encodeCols (rows : List Row) : List (Nat × Bytes) :=
  let objActor := rleEnc cU64 (rows.map (fun r => if isRoot r then none else some r.obj.actor))
  -- `ObjIdRange::splice` returns `None` (no counter column either) when the actor column is empty
  let objCtr := if objActor.isEmpty then [] else rleEnc cU64 (rows.map (fun r => if isRoot r then none else some r.obj.ctr))
  let keyActor := rleEnc cU64 (rows.map (fun r => match r.key with
    | .prop _ => none | .elem e => if e = ⟨0, 0⟩ then none else some e.actor))
  let keyCtr := deltaEnc (rows.map (fun r => match r.key with
    | .prop _ => none | .elem e => some (e.ctr : Int)))
  let keyStr := rleEnc cSmol (rows.map (fun r => match r.key with | .prop s => some s | .elem _ => none))
  let insert := boolEnc (rows.map (·.insert))
  let action := rleEnc cU64 (rows.map (fun r => some r.action))
  let valMeta := rleEnc cU64 (rows.map (fun r => some (valueMeta r.val)))
  let valRaw := (rows.map (fun r => valueRaw r.val)).flatten
  let predNum := rleEnc cU64 (rows.map (fun r => some r.pred.length))
  let preds := rows.flatMap (·.pred)
  let predActor := rleEnc cU64 (preds.map (fun p => some p.actor))
  let predCtr := deltaEnc (preds.map (fun p => some (p.ctr : Int)))
  let expand := maybeBoolEnc (rows.map (·.expand))
  let markName := rleEnc cSmol (rows.map (·.markName))
  [ (mkSpec OBJ_COL_ID T_ACTOR, objActor), (mkSpec OBJ_COL_ID T_INT, objCtr),
    (mkSpec KEY_COL_ID T_ACTOR, keyActor), (mkSpec KEY_COL_ID T_DELTA, keyCtr), (mkSpec KEY_COL_ID T_STRING, keyStr),
    (mkSpec INSERT_COL_ID T_BOOL, insert), (mkSpec ACTION_COL_ID T_INT, action),
    (mkSpec VAL_COL_ID T_VALMETA, valMeta), (mkSpec VAL_COL_ID T_VALUE, valRaw),
    (mkSpec PRED_COL_ID T_GROUP, predNum), (mkSpec PRED_COL_ID T_ACTOR, predActor), (mkSpec PRED_COL_ID T_DELTA, predCtr),
    (mkSpec EXPAND_COL_ID T_BOOL, expand), (mkSpec MARK_NAME_COL_ID T_STRING, markName) ]

def lenPrefixed (b : Bytes) : Bytes := ulebEncode b.length ++ b

/-- the chunk body `ChangeBuilder::build` writes; `RawColumns::from_iter` drops empty columns -/
def encodeBody (deps : List Bytes) (actor : Bytes) (others : List Bytes) (seq startOp : Nat) (time : Int)
    (message : Option Bytes) (rows : List Row) (extra : Bytes) : Bytes :=
  let cols := (encodeCols rows).filter (fun c => !c.2.isEmpty)
  ulebEncode deps.length ++ deps.flatten ++ lenPrefixed actor ++ ulebEncode seq ++ ulebEncode startOp ++ slebEncode time
    ++ lenPrefixed (message.getD []) ++ ulebEncode others.length ++ (others.map lenPrefixed).flatten
    ++ ulebEncode cols.length ++ (cols.map (fun c => ulebEncode c.1 ++ ulebEncode c.2.length)).flatten
    ++ (cols.map (·.2)).flatten ++ extra

def encodeStored (s : Stored) : Bytes :=
  Chunk.encodeChunk Consts.CHUNK_TYPE_CHANGE
    (encodeBody s.deps s.actor s.others s.seq s.startOp s.time s.message s.rows s.extra)

/-! ### the actor table and index translation (`ChangeActors`) -/

def insertBytes (k : Bytes) : List Bytes → List Bytes
  | [] => [k]
  | x :: xs => if k = x then x :: xs else if bytesLt k x then k :: x :: xs else x :: insertBytes k xs

/-- sorted, duplicate-free (`BTreeSet`) -/
def sortBytes (xs : List Bytes) : List Bytes := xs.foldr insertBytes []

def opActors (o : Op) : List Bytes :=
  (match o.key with | .elem e => [e.actor] | _ => []) ++ o.pred.map (·.actor) ++
  (match o.obj with | .id i => [i.actor] | .root => [])

/-- `ChangeActors::new`: every actor named by an op other than the author, sorted -/
def otherActors (actor : Bytes) (ops : List Op) : List Bytes :=
  sortBytes ((ops.flatMap opActors).filter (fun a => a ≠ actor))

/-- `self.index.get(opid.actor()).unwrap()` (every actor of an op is in the table by construction) -/
def actorIndex (table : List Bytes) (a : Bytes) : Nat := table.findIdx (fun x => x = a)

def toIdI (table : List Bytes) (o : OpId) : IdI := ⟨o.ctr, actorIndex table o.actor⟩

def insertDep (h : Bytes) : List Bytes → List Bytes
  | [] => [h]
  | x :: xs => if bytesLt x h then x :: insertDep h xs else h :: x :: xs

/-- `with_dependencies`: `sort_unstable` (byte order, duplicates kept) -/
def sortDeps (hs : List Bytes) : List Bytes := hs.foldr insertDep []

/-- `AsChangeOp for &legacy::Op` composed with `WithChangeActors` -/
def toRow (table : List Bytes) (o : Op) : Row :=
  let val : Scalar :=
    match o.action with
    | .put v => v
    | .markBegin _ v _ => v
    | .inc n => .int n
    | _ => .null
  let action : Nat :=
    match o.action with
    | .make .map => 0 | .put _ => 1 | .make .list => 2 | .del => 3 | .make .text => 4 | .inc _ => 5
    | .make .table => 6 | .markBegin .. => 7 | .markEnd _ => 7
  let expand : Bool := match o.action with | .markBegin _ _ e => e | .markEnd e => e | _ => false
  let markName : Option Bytes := match o.action with | .markBegin n _ _ => some n | _ => none
  { obj := match o.obj with | .root => ⟨0, 0⟩ | .id i => toIdI table i
    key := match o.key with | .map k => .prop k | .head => .elem ⟨0, 0⟩ | .elem e => .elem (toIdI table e)
    insert := o.insert, action := action, val := val
    pred := (sortOpIds o.pred).map (toIdI table)
    expand := expand, markName := markName }

/-- `Change::from(ExpandedChange)`: the raw chunk bytes -/
def encodeChange (x : XChange) : Bytes :=
  let others := otherActors x.actor x.ops
  let table := x.actor :: others
  Chunk.encodeChunk Consts.CHUNK_TYPE_CHANGE
    (encodeBody (sortDeps x.deps) x.actor others x.seq x.startOp x.time x.message (x.ops.map (toRow table)) x.extra)

end AmVerif.ChangeCodec
