/-
  M12a: JSON values as `serde_json::Value` holds them in this build of /repo.

  * `serde_json` is built WITHOUT `preserve_order` (Cargo.lock: no `indexmap` dependency of
    serde_json) and WITHOUT `arbitrary_precision`, so
      - `Map<String, Value>` is a `BTreeMap`: keys strictly increasing in `String`'s `Ord`
        (byte-wise on UTF-8 = lexicographic on code points = Lean's `String.<`), inserting an
        existing key replaces its value;
      - `Number` is `N::PosInt(u64) | N::NegInt(i64) | N::Float(f64)`, where `NegInt` is only used
        for negative values and `Float` only for finite ones.
  * `JNum` is the three-way sum by which `automerge-cli/src/import.rs` classifies a number:
    `as_i64()` succeeds | else `as_u64()` succeeds | else `as_f64()`.

  Import-free.
-/
namespace AmVerif

def I64_MIN : Int := -9223372036854775808
def I64_MAX : Int := 9223372036854775807
def U64_MAX : Nat := 18446744073709551615

/-- a binary64 bit pattern is finite (exponent field not all ones) -/
def f64Finite (bits : Nat) : Bool := (bits / 4503599627370496) % 2048 != 2047

inductive JNum where
  /-- `as_i64()` is `Some`: `NegInt(i)` or `PosInt(n)` with `n ≤ i64::MAX` -/
  | int (i : Int)
  /-- `as_i64()` is `None`, `as_u64()` is `Some`: `PosInt(n)` with `n > i64::MAX` -/
  | uint (n : Nat)
  /-- `N::Float(f)`, by bit pattern -/
  | float (bits : Nat)
  deriving DecidableEq, Repr

inductive Json where
  | null
  | bool (b : Bool)
  | num (n : JNum)
  | str (s : String)
  | arr (xs : List Json)
  | obj (kvs : List (String × Json))

/-- `BTreeMap::insert`: keeps keys strictly increasing, an equal key has its value replaced. -/
def insertKV {α : Type} (k : String) (v : α) : List (String × α) → List (String × α)
  | [] => [(k, v)]
  | (k', v') :: rest =>
    if k < k' then (k, v) :: (k', v') :: rest
    else if k = k' then (k, v) :: rest
    else (k', v') :: insertKV k v rest

/-- a map built by inserting the entries one after the other into an empty `BTreeMap` -/
def fromEntries {α : Type} (kvs : List (String × α)) : List (String × α) :=
  kvs.foldl (fun m kv => insertKV kv.1 kv.2 m) []

/-- keys strictly increasing (so also pairwise distinct) -/
def KeysSorted {α : Type} (kvs : List (String × α)) : Prop :=
  List.Pairwise (fun a b => a < b) (kvs.map Prod.fst)

/-- what a `serde_json::Number` can be -/
def JNum.WF : JNum → Prop
  | .int i => I64_MIN ≤ i ∧ i ≤ I64_MAX
  | .uint n => I64_MAX < (n : Int) ∧ n ≤ U64_MAX
  | .float b => f64Finite b = true

/- what a `serde_json::Value` can be: numbers in their canonical class, object keys strictly
   increasing. -/
mutual
def Json.WF : Json → Prop
  | .null => True
  | .bool _ => True
  | .num n => n.WF
  | .str _ => True
  | .arr xs => Json.WFList xs
  | .obj kvs => KeysSorted kvs ∧ Json.WFObj kvs
def Json.WFList : List Json → Prop
  | [] => True
  | x :: xs => x.WF ∧ Json.WFList xs
def Json.WFObj : List (String × Json) → Prop
  | [] => True
  | (_, v) :: kvs => v.WF ∧ Json.WFObj kvs
end

/- the value has an empty-string key somewhere (DESIGN.md expected `put` to reject these; the
   code at /repo's HEAD accepts them, so this predicate only appears in a remark of C33) -/
mutual
def Json.hasEmptyKey : Json → Bool
  | .arr xs => Json.hasEmptyKeyList xs
  | .obj kvs => Json.hasEmptyKeyObj kvs
  | _ => false
def Json.hasEmptyKeyList : List Json → Bool
  | [] => false
  | x :: xs => x.hasEmptyKey || Json.hasEmptyKeyList xs
def Json.hasEmptyKeyObj : List (String × Json) → Bool
  | [] => false
  | (k, v) :: kvs => k == "" || v.hasEmptyKey || Json.hasEmptyKeyObj kvs
end

def Json.isObj : Json → Bool
  | .obj _ => true
  | _ => false

/-! ### canonical one-line rendering used by the line protocol

  `N T F i<int> u<nat> d<16 hex digits> s<hex utf8> [v,v] {<hex key>:v,…}` -/

def hexDigitJ (n : Nat) : Char :=
  if n < 10 then Char.ofNat (48 + n) else Char.ofNat (87 + n)

def hexOfString (s : String) : String :=
  String.ofList (s.toUTF8.toList.foldr
    (fun b acc => hexDigitJ (b.toNat / 16) :: hexDigitJ (b.toNat % 16) :: acc) [])

def hex16 (n : Nat) : String :=
  String.ofList ((List.range 16).map (fun i => hexDigitJ ((n / 16 ^ (15 - i)) % 16)))

def JNum.render : JNum → String
  | .int i => "i" ++ toString i
  | .uint n => "u" ++ toString n
  | .float b => "d" ++ hex16 b

def joinComma : List String → String
  | [] => ""
  | [x] => x
  | x :: xs => x ++ "," ++ joinComma xs

mutual
def Json.render : Json → String
  | .null => "N"
  | .bool true => "T"
  | .bool false => "F"
  | .num n => n.render
  | .str s => "s" ++ hexOfString s
  | .arr xs => "[" ++ joinComma (Json.renderList xs) ++ "]"
  | .obj kvs => "{" ++ joinComma (Json.renderObj kvs) ++ "}"
def Json.renderList : List Json → List String
  | [] => []
  | x :: xs => x.render :: Json.renderList xs
def Json.renderObj : List (String × Json) → List String
  | [] => []
  | (k, v) :: kvs => (hexOfString k ++ ":" ++ v.render) :: Json.renderObj kvs
end

end AmVerif
