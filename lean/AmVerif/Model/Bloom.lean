import AmVerif.Model.Leb128
import AmVerif.Generated.Consts
/-
  M9: the sync Bloom filter, `rust/automerge/src/sync/bloom.rs`, function by function.
  `u32` arithmetic is modelled on `Nat`; the two places where the Rust could overflow a `u32`
  (`8 * len as u32`, `x + y`) are outside the model's domain `8 * bits.length < 2^31`
  (a filter of 256 MiB), which is stated as a hypothesis wherever it matters.
-/
namespace AmVerif.Bloom
open AmVerif AmVerif.Leb

abbrev Hash := Bytes   -- 32 bytes

structure Filter where
  numEntries   : Nat
  bitsPerEntry : Nat
  numProbes    : Nat
  bits         : Bytes
  deriving DecidableEq, Repr

/-- `bits_capacity`: ⌈n·b/8⌉ (the f64 computation is exact for n·b < 2^53). -/
def bitsCapacity (n b : Nat) : Nat := (n * b + 7) / 8

def default : Filter := ⟨0, Consts.BITS_PER_ENTRY, Consts.NUM_PROBES, []⟩

def toBytes (f : Filter) : Bytes :=
  if f.numEntries ≠ 0 then
    ulebEncode f.numEntries ++ ulebEncode f.bitsPerEntry ++ ulebEncode f.numProbes ++ f.bits
  else []

/-- `Input::take_n` -/
def takeN (n : Nat) (bs : Bytes) : PResult Bytes :=
  if bs.length < n then .error .incomplete else .ok (bs.take n, bs.drop n)

/-- `BloomFilter::parse` -/
def parse (input : Bytes) : PResult Filter :=
  if input.isEmpty then .ok (default, input) else
  match uleb32 input with
  | .error e => .error e
  | .ok (n, i) =>
  match uleb32 i with
  | .error e => .error e
  | .ok (b, i) =>
  match uleb32 i with
  | .error e => .error e
  | .ok (p, i) =>
  match takeN (bitsCapacity n b) i with
  | .error e => .error e
  | .ok (bits, i) =>
    -- fix D2b: more probes than bits are refused (`ParseError::TooManyProbes`)
    if !bits.isEmpty && p > 8 * bits.length then .error .invalid
    else .ok (⟨n, b, p, bits⟩, i)

/-- `u32::from_le_bytes([h[k], h[k+1], h[k+2], h[k+3]])`; a `ChangeHash` always has 32 bytes, so
    the indexing cannot fail — short lists read as zero bytes only to keep the function total. -/
def le32 (h : Hash) (k : Nat) : Nat :=
  (h.getD k 0).toNat + 256 * (h.getD (k+1) 0).toNat + 65536 * (h.getD (k+2) 0).toNat
    + 16777216 * (h.getD (k+3) 0).toNat

/-- the `for _ in 1..num_probes` loop of `get_probes` -/
def probesLoop (modulo z : Nat) : Nat → Nat → Nat → List Nat
  | 0, _, _ => []
  | k+1, x, y =>
    let x' := (x + y) % modulo
    let y' := (y + z) % modulo
    x' :: probesLoop modulo z k x' y'

/-- `get_probes`; the remainder by `modulo = 8 * bits.len()` panics when the filter has no bits. -/
def getProbes (f : Filter) (h : Hash) : Outcome Unit (List Nat) :=
  let modulo := 8 * f.bits.length
  if modulo = 0 then .panic .remByZero else
  let x := le32 h 0 % modulo
  let y := le32 h 4 % modulo
  let z := le32 h 8 % modulo
  .ok (x :: probesLoop modulo z (f.numProbes - 1) x y)

/-- `set_bit` on the byte vector (out-of-range probes are ignored, as `get_mut` returns `None`). -/
def setBit (bits : Bytes) (probe : Nat) : Bytes :=
  match bits[probe >>> 3]? with
  | some byte => bits.set (probe >>> 3) (byte ||| (1 <<< (UInt8.ofNat (probe &&& 7))))
  | none => bits

/-- `get_bit` -/
def getBit (bits : Bytes) (probe : Nat) : Option UInt8 :=
  (bits[probe >>> 3]?).map (fun byte => byte &&& (1 <<< (UInt8.ofNat (probe &&& 7))))

def addHash (f : Filter) (h : Hash) : Outcome Unit Filter :=
  match getProbes f h with
  | .ok ps => .ok { f with bits := ps.foldl setBit f.bits }
  | .err e => .err e
  | .panic p => .panic p

/-- the probe loop of `contains_hash`: `false` at the first probe whose bit is present and 0 -/
def allSet (bits : Bytes) : List Nat → Bool
  | [] => true
  | p :: ps =>
    match getBit bits p with
    | some bit => if bit = 0 then false else allSet bits ps
    | none => allSet bits ps

/-- `contains_hash` (after fix D2a: a filter without bits contains nothing). -/
def containsHash (f : Filter) (h : Hash) : Outcome Unit Bool :=
  if f.numEntries = 0 ∨ f.bits.isEmpty then .ok false else
  match getProbes f h with
  | .ok ps => .ok (allSet f.bits ps)
  | .err e => .err e
  | .panic p => .panic p

def addHashStep (acc : Outcome Unit Filter) (h : Hash) : Outcome Unit Filter :=
  match acc with
  | .ok f => addHash f h
  | o => o

/-- `from_hashes` -/
def fromHashes (hs : List Hash) : Outcome Unit Filter :=
  let n := hs.length
  let f0 : Filter := ⟨n, Consts.BITS_PER_ENTRY, Consts.NUM_PROBES,
                      List.replicate (bitsCapacity n Consts.BITS_PER_ENTRY) 0⟩
  hs.foldl addHashStep (.ok f0)

end AmVerif.Bloom
