/-
  M-handles: the HANDLE DISCIPLINE of the C API (`/repo/rust/automerge-c`), as a state machine over
  the events a C caller performs.  Core Lean only.

  What the C library's ownership rules are (read from `src/result.rs`, `src/item.rs`, `src/items.rs`,
  `src/byte_span.rs`, `src/obj.rs`, `src/change.rs`, `src/actor_id.rs`):

  * `AMresult` = `Items(Vec<AMitem>) | Error(String)`, heap allocated by every API call that returns
    `AMresult*` (`Box::into_raw`), released by `AMresultFree` (`Box::from_raw`).  It OWNS its vector.
  * `AMitem` = `Rc<Item>`.  An `AMitem*` handed to C (`AMresultItem`, `AMitemsNext`, `AMitemsPrev`)
    points INTO the result's vector: it is valid exactly as long as that result is.
  * `AMitems` (`AMresultItems`, `AMitemsRewound`, `AMitemsReversed`) is a by-value view
    `(len, offset, ptr)` onto the same vector: valid exactly as long as the result is.
  * `AMitemResult(item)` makes a NEW result holding a clone of the `Rc`; `AMresultCat(a, b)` makes a
    NEW result holding clones of all `Rc`s of `a` then `b`.  The `Item` cell (value, object id,
    index, cached `AMactorId` / `AMchange` wrappers) is shared and dies when the LAST result holding
    its `Rc` is freed (`AMitemRefCount` = `Rc::strong_count`).
  * Everything read out of an item — `AMbyteSpan` (string, bytes, change hash, key), `AMdoc*`,
    `AMchange*`, `AMactorId*`, `AMobjId*`, `AMcursor*`, … — points into the `Item` CELL, so it stays
    valid as long as the cell is alive (i.e. as long as SOME live result holds it).

  The model: results are identified by the order of their allocation, cells by the order of their
  creation; `live` maps every un-freed result to the cells it holds; a cell is alive iff it occurs in
  a live result (that is `Rc`: strong count = number of occurrences).  `step` is the discipline: it
  fails exactly when a C caller would touch freed memory, index outside a result, free twice, or
  — at `finish` — leak.

  NOT modelled (and not decidable by any theorem over this model): whether the LIBRARY keeps its side
  of the contract (it is `unsafe` Rust: raw pointer casts in `items.rs`, `UnsafeCell` caches in
  `item.rs`, raw `*mut am::Change` in `change.rs`).  The model is the caller's half only.
-/
namespace AmVerif.Handles

/-- One event of a C caller's handle trace (what `/verif/harness/capi/driver.c --trace` prints). -/
inductive Ev where
  /-- an API call returned a new `AMresult*` numbered `r` holding `n` fresh items (`AMresultSize`) -/
  | alloc (r n : Nat)
  /-- `r' := AMitemResult(item k of r)` -/
  | share (r' r k : Nat)
  /-- `r' := AMresultCat(r1, r2)` -/
  | cat (r' r1 r2 : Nat)
  /-- an `AMitem*` for item `k` of `r` is obtained / dereferenced (`AMresultItem`, `AMitemsNext`,
      `AMitemTo…`, `AMitemValType`, … and an immediate read of the byte span it yields) -/
  | item (r k : Nat)
  /-- an `AMitems` view over `r` is created (`AMresultItems`) or passed to an API call -/
  | view (r : Nat)
  /-- a long-lived pointer `p` into the cell of item `k` of `r` is stored by the caller
      (`AMdoc*`, `AMobjId*`, `AMchange*`, `AMactorId*`, a byte span) -/
  | borrow (p r k : Nat)
  /-- the stored pointer `p` is dereferenced (passed to an API call / read) -/
  | use (p : Nat)
  /-- the caller observed `AMitemRefCount(item k of r) = c` -/
  | refcnt (r k c : Nat)
  /-- `AMresultFree(r)` -/
  | free (r : Nat)
  deriving Repr, DecidableEq, Inhabited

inductive Err where
  | notFresh       -- ids are issued in allocation order; a reused / skipped id is a driver bug
  | staleResult    -- use (or second free) of a result that is not live: use-after-free / double free
  | badIndex       -- item index outside the result
  | unknownPtr
  | deadCell       -- a stored pointer is used after the last result holding its cell was freed
  | refcount       -- observed `AMitemRefCount` differs from the number of live holders
  | leak           -- results still live at the end
  deriving Repr, DecidableEq, Inhabited

structure St where
  nextRes : Nat := 0
  nextCell : Nat := 0
  nextPtr : Nat := 0
  /-- un-freed results, newest first: result id ↦ the cells (`Rc<Item>` identities) it holds -/
  live : List (Nat × List Nat) := []
  /-- stored pointer ↦ the cell it points into -/
  ptrs : List (Nat × Nat) := []
  deriving Repr, Inhabited

/-- the cells of a live result -/
def St.cells (s : St) (r : Nat) : Option (List Nat) := s.live.lookup r

/-- `Rc::strong_count` of a cell = number of its occurrences in live results -/
def occ (live : List (Nat × List Nat)) (c : Nat) : Nat :=
  match live with
  | [] => 0
  | e :: rest => e.2.count c + occ rest c

/-- a cell is alive iff some live result holds it -/
def alive (live : List (Nat × List Nat)) (c : Nat) : Bool :=
  live.any (fun e => e.2.contains c)

def freshCells (start n : Nat) : List Nat := (List.range n).map (· + start)

def step (s : St) : Ev → Except Err St
  | .alloc r n =>
    if r = s.nextRes then
      .ok { s with nextRes := s.nextRes + 1, nextCell := s.nextCell + n,
                   live := (r, freshCells s.nextCell n) :: s.live }
    else .error .notFresh
  | .share r' r k =>
    if r' = s.nextRes then
      match s.cells r with
      | none => .error .staleResult
      | some cs =>
        match cs[k]? with
        | none => .error .badIndex
        | some c => .ok { s with nextRes := s.nextRes + 1, live := (r', [c]) :: s.live }
    else .error .notFresh
  | .cat r' r1 r2 =>
    if r' = s.nextRes then
      match s.cells r1, s.cells r2 with
      | some c1, some c2 => .ok { s with nextRes := s.nextRes + 1, live := (r', c1 ++ c2) :: s.live }
      | _, _ => .error .staleResult
    else .error .notFresh
  | .item r k =>
    match s.cells r with
    | none => .error .staleResult
    | some cs => if k < cs.length then .ok s else .error .badIndex
  | .view r =>
    match s.cells r with
    | none => .error .staleResult
    | some _ => .ok s
  | .borrow p r k =>
    if p = s.nextPtr then
      match s.cells r with
      | none => .error .staleResult
      | some cs =>
        match cs[k]? with
        | none => .error .badIndex
        | some c => .ok { s with nextPtr := s.nextPtr + 1, ptrs := (p, c) :: s.ptrs }
    else .error .notFresh
  | .use p =>
    match s.ptrs.lookup p with
    | none => .error .unknownPtr
    | some c => if alive s.live c then .ok s else .error .deadCell
  | .refcnt r k n =>
    match s.cells r with
    | none => .error .staleResult
    | some cs =>
      match cs[k]? with
      | none => .error .badIndex
      | some c => if occ s.live c = n then .ok s else .error .refcount
  | .free r =>
    match s.cells r with
    | none => .error .staleResult
    | some _ => .ok { s with live := s.live.filter (fun e => e.1 != r) }

def run (s : St) : List Ev → Except Err St
  | [] => .ok s
  | e :: es =>
    match step s e with
    | .ok s' => run s' es
    | .error x => .error x

/-- the whole trace of a process: every use is of a live handle and nothing is left un-freed -/
def finish (tr : List Ev) : Except Err St :=
  match run {} tr with
  | .ok s => if s.live.isEmpty then .ok s else .error .leak
  | .error x => .error x

def check (tr : List Ev) : Bool :=
  match finish tr with
  | .ok _ => true
  | .error _ => false

/-- index of the first offending event (for the driver's diagnostics) -/
def firstBad (s : St) (i : Nat) : List Ev → Option (Nat × Err)
  | [] => if s.live.isEmpty then none else some (i, .leak)
  | e :: es =>
    match step s e with
    | .ok s' => firstBad s' (i + 1) es
    | .error x => some (i, x)

/-! ### The usage patterns of the C driver (`/verif/harness/capi/driver.c`)

  Every command of the driver is an instance of one of these templates; `Prog` is the grammar of the
  handle traces the driver can emit (whatever the op program it is fed).  The templates are well
  scoped BY CONSTRUCTION: indices that the driver checks at run time (`k < AMresultSize(r)`, table
  look-ups that may miss) are checked by `comp` in the same way, so every `Prog` compiles to a
  trace, and `Props/C36.lean` proves every such trace passes `check`. -/

/-- a reference to a result the driver holds: one it keeps to the end (documents, object ids,
    registered changes) or one of the enclosing open scopes (innermost = 0) -/
inductive Ref where
  | kept (i : Nat)
  | opened (i : Nat)
  deriving Repr, DecidableEq, Inhabited

inductive Prog where
  | done
  /-- `r := call(); it := AMresultItems(r); read items `reads` (only those `< n`);
      optionally store a pointer from item `bk` for the duration of the scope; run `inner`
      (nested calls, e.g. the recursion of the document dump); `AMresultFree(r)` -/
  | scoped (n : Nat) (reads : List Nat) (bk : Option Nat) (inner rest : Prog)
  /-- `r := call()` kept to the end of the process (a document, an object id, a registered change),
      with a stored pointer from item `k` when it exists -/
  | keep (n k : Nat) (rest : Prog)
  /-- dereference the `j`-th pointer of the kept table (skipped when the table has no such entry) -/
  | useKept (j : Nat) (rest : Prog)
  /-- dereference the `j`-th pointer of the enclosing scopes -/
  | useScoped (j : Nat) (rest : Prog)
  /-- `r1 := call(); r2 := AMitemResult(item k of r1); refcount = 2; AMresultFree(r1);`
      `refcount = 1; read item 0 of r2 and a pointer into it; AMresultFree(r2)` -/
  | detach (n k : Nat) (rest : Prog)
  /-- `r := AMresultCat(a, b)` of two held results, used as an `AMitems` argument by `inner`, freed
      after it (skipped when a reference does not resolve) -/
  | catOf (a b : Ref) (reads : List Nat) (inner rest : Prog)
  /-- `r1 := call(); r2 := call(); r3 := AMresultCat(r1, r2); free r1; free r2; read r3; free r3` -/
  | catDetach (n1 n2 : Nat) (reads : List Nat) (rest : Prog)
  deriving Repr, Inhabited

/-- what the driver knows while emitting: the next ids and its tables -/
structure Ctx where
  nextRes : Nat := 0
  nextPtr : Nat := 0
  /-- results kept to the end (id, size), newest first -/
  kept : List (Nat × Nat) := []
  /-- open scopes (id, size), innermost first -/
  opened : List (Nat × Nat) := []
  keptPtrs : List Nat := []
  scopedPtrs : List Nat := []
  deriving Repr, Inhabited

def Ctx.resolve (c : Ctx) : Ref → Option (Nat × Nat)
  | .kept i => c.kept[i]?
  | .opened i => c.opened[i]?

def readEvs (r n : Nat) (reads : List Nat) : List Ev :=
  (reads.filter (· < n)).map (Ev.item r)

/-- the trace of a program, threading the driver's tables -/
def comp : Prog → Ctx → List Ev × Ctx
  | .done, c => ([], c)
  | .scoped n reads bk inner rest, c =>
    let r := c.nextRes
    let c1 : Ctx := { c with nextRes := r + 1, opened := (r, n) :: c.opened }
    let (bevs, c2) : List Ev × Ctx :=
      match bk with
      | some k =>
        if k < n then ([Ev.borrow c1.nextPtr r k],
                        { c1 with nextPtr := c1.nextPtr + 1, scopedPtrs := c1.nextPtr :: c1.scopedPtrs })
        else ([], c1)
      | none => ([], c1)
    let (ievs, c3) := comp inner c2
    -- leaving the scope: its pointers and the scope itself are forgotten; what `inner` kept stays
    let c4 : Ctx := { c3 with opened := c.opened, scopedPtrs := c.scopedPtrs }
    let (revs, c5) := comp rest c4
    (Ev.alloc r n :: Ev.view r :: readEvs r n reads ++ bevs ++ ievs ++ readEvs r n reads ++ Ev.free r :: revs, c5)
  | .keep n k rest, c =>
    let r := c.nextRes
    let c1 : Ctx := { c with nextRes := r + 1, kept := (r, n) :: c.kept }
    let (bevs, c2) : List Ev × Ctx :=
      if k < n then ([Ev.item r k, Ev.borrow c1.nextPtr r k],
                      { c1 with nextPtr := c1.nextPtr + 1, keptPtrs := c1.nextPtr :: c1.keptPtrs })
      else ([], c1)
    let (revs, c3) := comp rest c2
    (Ev.alloc r n :: bevs ++ revs, c3)
  | .useKept j rest, c =>
    let (revs, c1) := comp rest c
    match c.keptPtrs[j]? with
    | some p => (Ev.use p :: revs, c1)
    | none => (revs, c1)
  | .useScoped j rest, c =>
    let (revs, c1) := comp rest c
    match c.scopedPtrs[j]? with
    | some p => (Ev.use p :: revs, c1)
    | none => (revs, c1)
  | .detach n k rest, c =>
    let r1 := c.nextRes
    if k < n then
      let r2 := r1 + 1
      let p := c.nextPtr
      let (revs, c1) := comp rest { c with nextRes := r1 + 2, nextPtr := p + 1 }
      (Ev.alloc r1 n :: Ev.item r1 k :: Ev.share r2 r1 k :: Ev.refcnt r1 k 2 :: Ev.free r1 ::
        Ev.refcnt r2 0 1 :: Ev.item r2 0 :: Ev.borrow p r2 0 :: Ev.use p :: Ev.free r2 :: revs, c1)
    else
      let (revs, c1) := comp rest { c with nextRes := r1 + 1 }
      (Ev.alloc r1 n :: Ev.free r1 :: revs, c1)
  | .catOf a b reads inner rest, c =>
    match c.resolve a, c.resolve b with
    | some (ra, na), some (rb, nb) =>
      let r := c.nextRes
      let c1 : Ctx := { c with nextRes := r + 1, opened := (r, na + nb) :: c.opened }
      let (ievs, c2) := comp inner c1
      let c3 : Ctx := { c2 with opened := c.opened, scopedPtrs := c.scopedPtrs }
      let (revs, c4) := comp rest c3
      (Ev.cat r ra rb :: Ev.view r :: readEvs r (na + nb) reads ++ ievs ++ Ev.free r :: revs, c4)
    | _, _ => comp rest c
  | .catDetach n1 n2 reads rest, c =>
    let r1 := c.nextRes
    let (revs, c1) := comp rest { c with nextRes := r1 + 3 }
    (Ev.alloc r1 n1 :: Ev.alloc (r1 + 1) n2 :: Ev.cat (r1 + 2) r1 (r1 + 1) :: Ev.free r1 :: Ev.free (r1 + 1) ::
      Ev.view (r1 + 2) :: readEvs (r1 + 2) (n1 + n2) reads ++ Ev.free (r1 + 2) :: revs, c1)

/-- the complete trace of a driver process: the program, then `AMresultFree` of everything kept
    (the driver's exit path frees its tables, oldest last) -/
def compileAll (p : Prog) : List Ev :=
  let (evs, c) := comp p {}
  evs ++ c.kept.map (fun e => Ev.free e.1)

end AmVerif.Handles
