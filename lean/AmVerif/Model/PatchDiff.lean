import AmVerif.Model.PatchView
/-
  M10 (second half): how patches are produced, at the level of one register.

  * `mapDiffLoop` / `listDiffLoop` are the loops of `MapDiff::next` / `ListDiff::next`
    (iter/map_range.rs, iter/list_range.rs) over the operations of ONE map key / list element that
    are visible at the `before` or at the `after` clock (what `DiffIter` over `VisIter` yields), in
    ascending id order; `DOut.event` is `MapDiffItem::log` / `ListDiffItem::log`.
  * `regPatch` is `ValueState::map_process`, `listPatch` the list arm of `ValueState::list_flush`
    (op_set2/change/batch.rs) with `OpValueOption::{set, expose, increment}` and
    `process_doc_op` / `process_change_op` / `do_increment`.
  * `finalizeOp` is the decision of `TransactionInner::finalize_op` for a local map/list-element op.
-/
namespace AmVerif.Crdt
open AmVerif

/-! ### DiffIter item logic -/

/-- `iter::tools::Diff`: visible at both clocks / only after / only before -/
inductive Diff where
  | same | add | del
  deriving DecidableEq, Repr, Inhabited

/-- one operation of the register as the diff iterator sees it -/
structure DItem where
  diff : Diff
  id : OpId
  /-- value at the `after` clock (a counter: initial value + increments covered by `after`) -/
  val : PVal
  /-- `inc2 - inc1` of `get_increment_diff_at_pos` (0 for anything but a counter) -/
  inc : Int
  /-- `clock.predates(id)`: the `before` clock covers the operation itself -/
  predates : Bool
  deriving DecidableEq, Repr, Inhabited

/-- `MapDiffItem` / `ListDiffItem` without key/index -/
structure DOut where
  diff : Diff
  id : OpId
  val : PVal
  inc : Int
  conflict : Bool
  expose : Bool
  /-- `ListDiffItem.update` (put rather than insert); unused for maps -/
  update : Bool := false
  deriving DecidableEq, Repr, Inhabited

structure DState where
  lastIsSame : Bool := false
  numNew : Nat := 0
  numOld : Nat := 0
  lastVisible : Option DOut := none
  deriving Repr, Inhabited

/-- `MapEntry::diff_item` -/
def diffItem (it : DItem) (conflict expose : Bool) : DOut :=
  { diff := if expose && it.diff == .same then .add else it.diff, id := it.id, val := it.val,
    inc := it.inc, conflict := conflict, expose := expose }

/-- `MapDiffItem::update` -/
def DOut.updateMap (o : DOut) (expose : Bool) : DOut :=
  let e := o.expose || expose
  { o with expose := e, diff := if e && o.diff == .same then .add else o.diff }

/-- the per-item bookkeeping shared by both loops: new (lastIsSame, numNew, numOld) and `expose` -/
def diffCounts (st : DState) (it : DItem) : Bool × Nat × Nat × Bool :=
  match it.diff with
  | .del => (st.lastIsSame, st.numNew, st.numOld + 1, st.lastIsSame)
  | .same => (true, st.numNew + 1, st.numOld + 1, false)
  | .add => (false, st.numNew + 1, st.numOld, it.predates)

/-- `MapDiff::next` restricted to the items of one key -/
def mapDiffLoop : DState → List DItem → Option DOut
  | _, [] => none
  | st, it :: rest =>
    let (lastIsSame, numNew, numOld, expose) := diffCounts st it
    let oldConflict := it.diff == .same && decide (numOld > 1)
    let conflict := decide (numNew > 1) && !oldConflict
    match rest with
    | nxt :: _ =>
      let lv := if it.diff != .del && nxt.diff == .del then some (diffItem it conflict expose) else st.lastVisible
      mapDiffLoop ⟨lastIsSame, numNew, numOld, lv⟩ rest
    | [] =>
      match (if it.diff == .del then st.lastVisible else none) with
      | some last =>
        some { (last.updateMap (expose || last.diff == .same)) with conflict := decide (numNew > 1) }
      | none =>
        let item := diffItem it conflict expose
        some (if it.diff == .same && decide (numOld > 1) && numNew == 1 then item.updateMap true else item)

def mapDiff (items : List DItem) : Option DOut := mapDiffLoop {} items

/-- `ListState::diff_item` -/
def listDiffItem (it : DItem) (conflict expose : Bool) (numOld : Nat) : DOut :=
  let d := if expose && it.diff == .same then Diff.add else it.diff
  { diff := d, id := it.id, val := it.val, inc := it.inc, conflict := conflict, expose := expose,
    update := d == .add && decide (numOld > 0) }

/-- `ListDiffItem::update` -/
def DOut.updateList (o : DOut) (expose : Bool) : DOut :=
  let e := o.expose || expose
  { o with expose := e, diff := if e && o.diff == .same then .add else o.diff, update := true }

/-- `ListDiff::next` restricted to the items of one element (same selection as the map loop; the
    items additionally carry the `update` flag: put vs insert) -/
def listDiffLoop : DState → List DItem → Option DOut
  | _, [] => none
  | st, it :: rest =>
    let (lastIsSame, numNew, numOld, expose) := diffCounts st it
    let oldConflict := it.diff == .same && decide (numOld > 1)
    let conflict := decide (numNew > 1) && !oldConflict
    match rest with
    | nxt :: _ =>
      let lv := if it.diff != .del && nxt.diff == .del then some (listDiffItem it conflict expose numOld) else st.lastVisible
      listDiffLoop ⟨lastIsSame, numNew, numOld, lv⟩ rest
    | [] =>
      match (if it.diff == .del then st.lastVisible else none) with
      | some last =>
        some { (last.updateList (expose || last.diff == .same)) with conflict := decide (numNew > 1) }
      | none =>
        let item := listDiffItem it conflict expose numOld
        some (if it.diff == .same && decide (numOld > 1) && numNew == 1 then item.updateList true else item)

def listDiff (items : List DItem) : Option DOut := listDiffLoop {} items

/-- what is logged for a register (`PatchLog::{put_map, increment_map, flag_conflict_map, delete_map}`
    and the sequence forms) -/
inductive RegEvent where
  | put (v : PVal) (conflict expose : Bool)
  | insert (v : PVal) (conflict expose : Bool)
  | inc (n : Int)
  /-- an `Increment` patch followed by a `Conflict` patch -/
  | incFlag (n : Int)
  | flag
  | del
  | nothing
  deriving DecidableEq, Repr, Inhabited

/-- `MapDiffItem::log` -/
def DOut.mapEvent (o : DOut) : RegEvent :=
  match o.diff with
  | .add => .put o.val o.conflict o.expose
  | .same =>
    if o.inc != 0 then (if o.conflict then .incFlag o.inc else .inc o.inc)
    else if o.conflict then .flag else .nothing
  | .del => .del

/-- `ListDiffItem::log` -/
def DOut.listEvent (o : DOut) : RegEvent :=
  match o.diff with
  | .add => if o.update then .put o.val o.conflict o.expose else .insert o.val o.conflict o.expose
  | .same =>
    if o.inc != 0 then (if o.conflict then .incFlag o.inc else .inc o.inc)
    else if o.conflict then .flag else .nothing
  | .del => .del

/-! ### the register as the hydrated view shows it -/

/-- a register entry of the view, shallow: conflict flag and winning value (an object by type) -/
abbrev REntry := Option (Bool × PVal)

def DItem.visBefore (it : DItem) : Bool := it.diff != .add
def DItem.visAfter (it : DItem) : Bool := it.diff != .del

/-- value at the `before` clock: a counter has not yet received the increments in between -/
def DItem.valBefore (it : DItem) : PVal :=
  match it.val with
  | .scalar (.counter c) => .scalar (.counter (c - it.inc))
  | v => v

def entryBefore (items : List DItem) : REntry :=
  let vs := items.filter DItem.visBefore
  vs.getLast?.map (fun w => (decide (vs.length > 1), w.valBefore))

def entryAfter (items : List DItem) : REntry :=
  let vs := items.filter DItem.visAfter
  vs.getLast?.map (fun w => (decide (vs.length > 1), w.val))

/-- the effect of a logged event on the register entry of a map, as `hydrate::Map::apply` does it
    (`applyMap_event` in Proofs/PatchDiff relates this to `applyMap`) -/
def applyEvent (e : REntry) : RegEvent → HOut REntry
  | .put v c _ => .ok (some (c, v))
  | .insert v c _ => .ok (some (c, v))
  | .inc n =>
    match e with
    | none => .err .key
    | some (f, .scalar (.counter c)) => .ok (some (f, .scalar (.counter (c + n))))
    | some _ => .err .badIncrement
  | .incFlag n =>
    match e with
    | none => .err .key
    | some (_, .scalar (.counter c)) => .ok (some (true, .scalar (.counter (c + n))))
    | some _ => .err .badIncrement
  | .flag =>
    match e with
    | none => .err .key
    | some (_, v) => .ok (some (true, v))
  | .del => .ok none
  | .nothing => .ok e

/-- items are well formed when only counters carry an increment difference -/
def DItem.wf (it : DItem) : Bool :=
  it.inc == 0 || (match it.val with | .scalar (.counter _) => true | _ => false)

def PVal.isScalar : PVal → Bool
  | .scalar _ => true
  | _ => false

def PVal.isCounter : PVal → Bool
  | .scalar (.counter _) => true
  | _ => false

/-- a counter after an increment by `n`; anything else unchanged -/
def PVal.bump (n : Int) : PVal → PVal
  | .scalar (.counter c) => .scalar (.counter (c + n))
  | x => x

/-! ### incremental patches of `apply_changes`: `ValueState` -/

/-- `OpValue` (the hydrated value is kept shallow) -/
structure OpValue where
  id : OpId
  val : PVal
  deleted : Bool
  conflict : Bool
  expose : Bool
  deriving DecidableEq, Repr, Inhabited

/-- `OpValueOption::set` (the `replaced` field only matters for text widths and is dropped) -/
def ovSet (cur : Option OpValue) (v : PVal) (id : OpId) (deleted : Bool) : Option OpValue :=
  let isVisible := match cur with | some o => !o.deleted | none => false
  let isDeleted := match cur with | some o => o.deleted | none => false
  if deleted && isVisible then cur.map (fun o => { o with expose := true })
  else some ⟨id, v, deleted, isVisible, !deleted && isDeleted⟩

/-- `OpValueOption::increment` -/
def ovIncrement (cur : Option OpValue) (n : Int) : Option OpValue :=
  cur.map (fun o => match o.val with
    | .scalar (.counter c) => { o with val := .scalar (.counter (c + n)) }
    | _ => o)

/-- an operation already in the document, as `process_doc_op` sees it: a visible set/make op with
    its current value and whether the incoming batch deletes it (`process_pred`) -/
structure DocOp where
  id : OpId
  val : PVal
  deleted : Bool
  deriving DecidableEq, Repr, Inhabited

/-- an incoming operation: a visible set/make op, or an increment with its predecessors -/
inductive ChgOp where
  | value (id : OpId) (v : PVal)
  | inc (pred : List OpId) (n : Int)
  deriving DecidableEq, Repr, Inhabited

/-- `process_doc_op` folded over the register's pre-existing visible ops (ascending id) -/
def foldDoc (ds : List DocOp) : Option OpValue :=
  ds.foldl (fun cur d => ovSet cur d.val d.id d.deleted) none

/-- `process_change_op` / `do_increment` on the pair (`doc`, `change`): an incoming value becomes
    `change`; an increment goes to `change` (a clone of `doc` if nothing is tracked yet) when it
    names it, and to the document's own value — which is then marked for re-put — when another
    incoming value is tracked -/
def stepChange (st : Option OpValue × Option OpValue) : ChgOp → Option OpValue × Option OpValue
  | .value id v => (st.1, ovSet st.2 v id false)
  | .inc pred n =>
    let change1 :=
      match st.2 with
      | some c => some c
      | none =>
        match st.1 with
        | some d => if pred.contains d.id && !d.deleted then some d else none
        | none => none
    let change2 :=
      match change1 with
      | some c => if pred.contains c.id then ovIncrement (some c) n else some c
      | none => none
    let doc2 :=
      match st.1 with
      | some d =>
        if (change2.map (·.id)) != some d.id && !d.deleted && pred.contains d.id && d.val.isCounter
        then some { d with val := d.val.bump n, expose := true } else some d
      | none => none
    (doc2, change2)

/-- (`doc`, `change`) after the incoming operations of the register, ascending id -/
def foldChange (doc : Option OpValue) (cs : List ChgOp) : Option OpValue × Option OpValue :=
  cs.foldl stepChange (doc, none)

/-- `PVal::as_i64` of `hydrate::Value::as_i64` → `ScalarValue::as_i64` (what `map_process` subtracts) -/
def PVal.asI64 : PVal → Int
  | .scalar (.counter c) => c
  | .scalar (.int i) => i
  | .scalar (.uint n) => n
  | .scalar (.timestamp t) => t
  | _ => 0

/-- `ValueState::map_process` -/
def regPatch (doc change : Option OpValue) : RegEvent :=
  match doc, change with
  | none, some c => .put c.val c.conflict false
  | some d, none => if d.expose then .put d.val d.conflict true else if d.deleted then .del else .nothing
  | some d, some c =>
    -- `d.deleted`: nothing of the document's register survives, the incoming value wins
    if d.id.lt c.id || d.deleted then .put c.val ((c.conflict && !d.conflict) || !d.deleted) false
    else if c.id.lt d.id then
      (if d.expose then .put d.val true true else if !d.conflict then .flag else .nothing)
    else
      let n := c.val.asI64 - d.val.asI64
      if d.expose then .put c.val d.conflict false else if n != 0 then .inc n else .nothing
  | none, none => .nothing

/-- the `SequenceType::List` arm of `ValueState::list_flush` (`insert` for a new element) -/
def listPatch (doc change : Option OpValue) : RegEvent :=
  match doc, change with
  | none, some c => .insert c.val c.conflict false
  | some d, some c =>
    if d.id == c.id then
      let n := c.val.asI64 - d.val.asI64
      if d.expose then .put c.val d.conflict false else if n != 0 then .inc n else .nothing
    else if c.id.lt d.id && !d.deleted then (if d.expose then .put d.val true true else .flag)
    else .put c.val (!d.deleted || c.conflict) false
  | some d, none => if d.expose then .put d.val d.conflict true else if d.deleted then .del else .nothing
  | none, none => .nothing

/-- the register before the batch: the pre-existing visible ops -/
def docEntryBefore (ds : List DocOp) : REntry :=
  ds.getLast?.map (fun w => (decide (ds.length > 1), w.val))

/-! ### local operations: `finalize_op` -/

/-- what a local (non-insert) op on a register logs: `ops` are the visible ops found by the query
    (ascending id, winner last) with their current values -/
inductive LocalAct where
  | put (v : PVal)
  | del
  | inc (n : Int)
  deriving DecidableEq, Repr, Inhabited

/-- `resolve_action` + `increment_replacement` + `finalize_op` (+ the re-put / conflict flag logged by
    `local_map_op` / `local_list_op`) for a map key / list element -/
def finalizeOp (ops : List PVal) (a : LocalAct) : RegEvent :=
  match a with
  | .put v =>
    match ops.getLast? with
    | some w =>
      -- equal to the winner: nothing to do on an unconflicted register; on a conflicted one the
      -- losing ops are deleted (`ConflictResolution(Delete)`) and the winner is put again
      if w == v && v.isScalar then (if ops.length > 1 then .put w false false else .nothing)
      else .put v false false
    | none => .put v false false
  | .del => if ops.isEmpty then .nothing else .del
  | .inc n =>
    if ops.length > 1 then
      -- `increment_replacement`: the counter with the greatest id, plus the increment; the register
      -- stays conflicted when several counters survive
      let cs := ops.filter PVal.isCounter
      match cs.getLast? with
      | some c => .put (c.bump n) (decide (cs.length > 1)) false
      | none => .inc n
    else .inc n

/-- the register after a local op, by the CRDT rules (`Spec`): a put replaces everything, a delete
    empties the register, an increment adds to every counter and removes every other value -/
def localAfter (ops : List PVal) (a : LocalAct) : REntry :=
  match a with
  | .put v => some (false, v)
  | .del => none
  | .inc n =>
    let cs := (ops.filter PVal.isCounter).map (PVal.bump n)
    cs.getLast?.map (fun w => (decide (cs.length > 1), w))

def localBefore (ops : List PVal) : REntry :=
  ops.getLast?.map (fun w => (decide (ops.length > 1), w))

/-! ### `diff_obj(obj, H1, H2, recursive = false)` of a map object -/

/-- sum of the increments naming `o` within an op set -/
def incSum (ops : List Op) (o : Op) : Int :=
  (ops.filter (fun p => p.isInc && p.pred.contains o.id)).foldl (fun acc p => acc + p.incAmount) 0

/-- the items `DiffIter` yields for map key `k` of `obj`: the set/make operations visible at the
    `before` op set or at the `after` op set, ascending id -/
def diffItemsOf (before after : List Op) (all : List Op) (obj : ObjId) (k : Bytes) : List DItem :=
  let cands := sortById (all.filter (fun o => o.obj == obj && o.key == .map k && o.isValue))
  cands.filterMap (fun o =>
    let vb := before.contains o && visible before o
    let va := after.contains o && visible after o
    if !vb && !va then none else
    let diff : Diff := if vb && va then .same else if va then .add else .del
    let (val, inc) : PVal × Int :=
      match o.action with
      | .put (.counter c) => (.scalar (.counter (c + incSum after o)), incSum after o - incSum before o)
      | .put v => (.scalar v, 0)
      | .make t => (.obj t, 0)
      | _ => (.scalar .null, 0)
    some ⟨diff, o.id, val, inc, before.contains o⟩)

/-- keys of `obj` with an operation visible at either op set, in byte order -/
def diffKeys (before after : List Op) (obj : ObjId) : List Bytes :=
  (mapKeys before obj).foldr insertKey (mapKeys after obj)

/-- the own-level patches of one key of a map object: actions and the id printed with a put -/
def mapPatchOf (k : Bytes) (o : DOut) : List (PatchAction × OpId) :=
  match o.mapEvent with
  | .put v c _ => [(.putMap k v c, o.id)]
  | .insert v c _ => [(.putMap k v c, o.id)]
  | .inc n => [(.increment (.key k) n, o.id)]
  | .incFlag n => [(.increment (.key k) n, o.id), (.conflict (.key k), o.id)]
  | .flag => [(.conflict (.key k), o.id)]
  | .del => [(.deleteMap k, o.id)]
  | .nothing => []

/-- the own-level patches `diff_obj(obj, H1, H2, false)` emits for a map object, in key order -/
def diffMapObj (before after all : List Op) (obj : ObjId) : List (PatchAction × OpId) :=
  (diffKeys before after obj).flatMap (fun k =>
    match mapDiff (diffItemsOf before after all obj k) with
    | some o => mapPatchOf k o
    | none => [])

/-! ### lists: running index (`ListDiff.index`) -/

/-- the events of the elements of a list in document order, each with the index it addresses: the
    index advances past an element that is visible afterwards (`ListDiff::next`: `self.index += 1`
    when the returned item `is_visible()`) -/
def listDiffEvents : Nat → List (List DItem) → List (Nat × RegEvent)
  | _, [] => []
  | idx, items :: rest =>
    match listDiff items with
    | none => listDiffEvents idx rest
    | some o => (idx, o.listEvent) :: listDiffEvents (if o.diff != .del then idx + 1 else idx) rest

/-- `hydrate::List::apply` on the shallow list view (conflict flag, value), one logged event:
    `Insert` = `SequenceTree::insert`, `DeleteSeq{length: 1}` = `remove`, `PutSeq` / `Increment` /
    `Conflict` address an existing index (`InvalidIndex` otherwise) -/
def applySeqEvent (l : List (Bool × PVal)) (i : Nat) : RegEvent → HOut (List (Bool × PVal))
  | .insert v c _ => seqInsert l i (c, v)
  | .del => seqRemove l i
  | .nothing => .ok l
  | ev =>
    match l[i]? with
    | none => .err .index
    | some b =>
      match applyEvent (some b) ev with
      | .ok (some a) => .ok (l.set i a)
      | .ok none => .ok l
      | .err e => .err e
      | .panic p => .panic p

def applySeqEvents : List (Bool × PVal) → List (Nat × RegEvent) → HOut (List (Bool × PVal))
  | l, [] => .ok l
  | l, (i, ev) :: rest =>
    match applySeqEvent l i ev with
    | .ok l' => applySeqEvents l' rest
    | .err e => .err e
    | .panic p => .panic p

/-! ### `diff_obj(obj, H1, H2, recursive = false)` of a list object -/

/-- the items of one element (the insert op and the overwrites of the element), as `diffItemsOf` -/
def diffElemItems (before after : List Op) (all : List Op) (obj : ObjId) (e : OpId) : List DItem :=
  let cands := sortById (all.filter (fun o => o.obj == obj && o.elem == some e && o.isValue))
  cands.filterMap (fun o =>
    let vb := before.contains o && visible before o
    let va := after.contains o && visible after o
    if !vb && !va then none else
    let diff : Diff := if vb && va then .same else if va then .add else .del
    let (val, inc) : PVal × Int :=
      match o.action with
      | .put (.counter c) => (.scalar (.counter (c + incSum after o)), incSum after o - incSum before o)
      | .put v => (.scalar v, 0)
      | .make t => (.obj t, 0)
      | _ => (.scalar .null, 0)
    some ⟨diff, o.id, val, inc, before.contains o⟩)

/-- a sequence patch with the ids printed next to its values -/
inductive SeqPatch where
  | insert (index : Nat) (vs : List (PVal × OpId × Bool))
  | put (index : Nat) (v : PVal) (id : OpId) (conflict : Bool)
  | inc (index : Nat) (n : Int)
  | conflict (index : Nat)
  | del (index length : Nat)
  deriving DecidableEq, Repr, Inhabited

/-- `PatchBuilder::{insert, put, increment, flag_conflict, delete_seq}` on the patches of one object
    (newest first): adjacent inserts and deletes are merged, a conflict flag joins the put before it -/
def pushSeq (acc : List SeqPatch) (idx : Nat) (o : DOut) : List SeqPatch :=
  let flag (acc : List SeqPatch) : List SeqPatch :=
    match acc with
    | .put i v id _ :: rest => if i == idx then .put i v id true :: rest else .conflict idx :: acc
    | _ => .conflict idx :: acc
  match o.listEvent with
  | .insert v c _ =>
    match acc with
    | .insert t vs :: rest =>
      if t ≤ idx && idx ≤ t + vs.length then .insert t (vs.take (idx - t) ++ (v, o.id, c) :: vs.drop (idx - t)) :: rest
      else .insert idx [(v, o.id, c)] :: acc
    | _ => .insert idx [(v, o.id, c)] :: acc
  | .put v c _ => .put idx v o.id c :: acc
  | .inc n => .inc idx n :: acc
  | .incFlag n => flag (.inc idx n :: acc)
  | .flag => flag acc
  | .del =>
    match acc with
    | .del t len :: rest => if idx == t then .del t (len + 1) :: rest else .del idx 1 :: acc
    | .insert t vs :: rest =>
      if t ≤ idx && idx < t + vs.length then
        (let vs' := vs.take (idx - t) ++ vs.drop (idx - t + 1)
         if vs'.isEmpty then rest else .insert t vs' :: rest)
      else .del idx 1 :: acc
    | _ => .del idx 1 :: acc
  | .nothing => acc

/-- `ListDiff` over the elements in document order, with its running index, through `PatchBuilder` -/
def diffListLoop (before after all : List Op) (obj : ObjId) : List Op → Nat → List SeqPatch → List SeqPatch
  | [], _, acc => acc.reverse
  | e :: rest, idx, acc =>
    match listDiff (diffElemItems before after all obj e.id) with
    | none => diffListLoop before after all obj rest idx acc
    | some o => diffListLoop before after all obj rest (if o.diff != .del then idx + 1 else idx) (pushSeq acc idx o)

/-- the own-level patches `diff_obj(obj, H1, H2, false)` emits for a list object -/
def diffListObj (before after all : List Op) (obj : ObjId) : List SeqPatch :=
  diffListLoop before after all obj ((rgaOrder all obj).filter (fun e => !e.isMark)) 0 []

end AmVerif.Crdt
