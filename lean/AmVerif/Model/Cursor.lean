import AmVerif.Model.Marks
/-
  Cursors (cursor.rs, automerge.rs `get_cursor_for` / `get_cursor_position_for`,
  op_set.rs `seek_list_opid{,_fast,_slow}`).

  A cursor is the id of the *winning value op* of the element at the index (`found.ops.last()`), plus
  a move mode.  Resolution looks the op up again: `seek_list_opid` has an indexed fast path (present
  time) that the debug build asserts equal to the walk; where they differ the model says `panic`
  (the harness is a debug build), and historical reads use the walk alone.
-/
namespace AmVerif.Crdt
open AmVerif

inductive MoveCursor where
  | before | after
  deriving DecidableEq, Repr, Inhabited

inductive Cursor where
  | start
  | stop
  | op (id : OpId) (mv : MoveCursor)
  deriving DecidableEq, Repr, Inhabited

inductive CursorErr where
  | index | objid | invalidOp | cursor
  deriving DecidableEq, Repr

def CursorErr.show : CursorErr → String
  | .index => "index" | .objid => "objid" | .invalidOp => "invalidop" | .cursor => "cursor"

/-- `get_cursor_for` with `CursorPosition::Index(i)` -/
def cursorAt (wf : ObjType → Op → Nat) (ops : List Op) (obj : ObjId) (index : Nat) (mv : MoveCursor) : Except CursorErr Cursor :=
  match objType ops obj with
  | none => .error .objid
  | some ty =>
    if !isSeq ty then .error .invalidOp else
    match seekByIndexW (wf ty) (seqRegs ops obj) index 0 with
    | none => .error .index
    | some (_, reg, _) =>
      match reg.getLast? with
      | some o => .ok (.op o.id mv)
      | none => .error .index

structure FoundOpId where
  op : Op
  pos : Nat
  index : Nat
  visible : Bool
  deriving DecidableEq, Repr

/-- is this row the `top` op of its element (it then carries the element's width in the `text` index) -/
def isTopRow (ops : List Op) (obj : ObjId) (o : Op) : Bool :=
  if o.isMark then !overwritten ops o
  else
    match o.elem with
    | some e => ((elemRegOps ops obj e).getLast?.map (·.id)) == some o.id
    | none => false

/-- the `text` / `top` index entry of a row -/
def textIdx (wf : Op → Nat) (ops : List Op) (obj : ObjId) (o : Op) : Option Nat :=
  if isTopRow ops obj o then some (wf o) else none

/-- position of the first row with the given id -/
def idxOfId (id : OpId) : List Op → Option Nat
  | [] => none
  | o :: rest => if o.id == id then some 0 else (idxOfId id rest).map (· + 1)

/-- the row with the given id and its position -/
def findRow (rows : List Op) (id : OpId) : Option (Nat × Op) :=
  match idxOfId id rows with
  | some pos => (rows[pos]?).map (fun o => (pos, o))
  | none => none

/-- `seek_list_opid_fast`: position of the row, prefix sum of the index column before it -/
def seekFast (wf : Op → Nat) (ops : List Op) (obj : ObjId) (id : OpId) : Option FoundOpId :=
  let rows := objRows ops obj
  match findRow rows id with
  | some (pos, o) =>
    let index := ((rows.take pos).map (fun r => (textIdx wf ops obj r).getD 0)).sum
    -- `visible`: the op's ELEMENT has a visible value (a mark op is no element)
    some ⟨o, pos, index, !o.isMark && (match o.elem with | some e => !(elemRegOps ops obj e).isEmpty | none => false)⟩
  | none => none

/-- the groups `OpsFoundIter` yields over the rows without marks: (start position, end position, visible
    ops) of every element that has visible ops -/
def groupsFrom (ops : List Op) (obj : ObjId) : Nat → List Op → List (Nat × Nat × List Op)
  | _, [] => []
  | pos, e :: rest =>
    let n := 1 + (updateRows ops obj e.id).length
    if e.isMark then groupsFrom ops obj (pos + n) rest
    else
      match elemRegOps ops obj e.id with
      | [] => groupsFrom ops obj (pos + n) rest
      | reg => (pos, pos + n, reg) :: groupsFrom ops obj (pos + n) rest

/-- the loop of `seek_list_opid_slow`: the first element with visible values that ends after the op; it is
    the op's own element iff it starts at or before the op.  No such element: the index is the length. -/
def seekSlowGo (wf : Op → Nat) (o : Op) (pos : Nat) : List (Nat × Nat × List Op) → Nat → Option FoundOpId
  | [], index => some ⟨o, pos, index, false⟩
  | (startPos, endPos, reg) :: rest, index =>
    if endPos > pos then some ⟨o, pos, index, decide (startPos ≤ pos)⟩
    else seekSlowGo wf o pos rest (index + lastW wf reg)

/-- `seek_list_opid_slow` -/
def seekSlow (wf : Op → Nat) (ops : List Op) (obj : ObjId) (id : OpId) : Option FoundOpId :=
  match findRow (objRows ops obj) id with
  | some (pos, o) => seekSlowGo wf o pos (groupsFrom ops obj 0 (rgaOrder ops obj)) 0
  | none => none

/-- `seek_list_opid`: `historical = false` ⇒ fast path, `debug_assert_eq!(fast, slow)` -/
def seekListOpid (wf : Op → Nat) (historical : Bool) (ops : List Op) (obj : ObjId) (id : OpId) :
    Outcome CursorErr (Option FoundOpId) :=
  if historical then .ok (seekSlow wf ops obj id)
  else
    -- an op of another object: both paths answer `None` (db03ef151)
    let f := seekFast wf ops obj id
    if f == seekSlow wf ops obj id then .ok f else .panic .assertFailed

/-- the loop of `MoveCursor::Before` (`fuel` bounds the chain of reference elements) -/
def beforeWalk (wf : Op → Nat) (historical : Bool) (ops : List Op) (obj : ObjId) :
    Nat → Key → Outcome CursorErr Nat
  | 0, _ => .ok 0
  | fuel + 1, key =>
    match key with
    | .map _ => .panic .unwrapNone
    | .head => .ok 0          -- HEAD is no op: `seek_list_opid` finds nothing
    | .elem k =>
      match seekListOpid wf historical ops obj k with
      | .panic p => .panic p
      | .err x => .err x
      | .ok none => .ok 0
      | .ok (some f) => if f.visible then .ok f.index else beforeWalk wf historical ops obj fuel f.op.key

/-- `get_cursor_position_for`; `known` = the cursor's actor is known and (historical reads) the clock covers the op -/
def cursorPosition (wf : ObjType → Op → Nat) (historical : Bool) (known : Bool) (ops : List Op) (obj : ObjId) (c : Cursor) :
    Outcome CursorErr Nat :=
  match c with
  | .start => .ok 0
  | .stop => .ok (match objType ops obj with
      | some ty => if isSeq ty then ((topOps ops obj).map (wf ty)).sum else 0
      | none => 0)
  | .op id mv =>
    match objType ops obj with
    | none => .err .objid
    | some ty =>
      if !isSeq ty then .err .cursor else
      if !known then .err .cursor else
      match seekListOpid (wf ty) historical ops obj id with
      | .panic p => .panic p
      | .err x => .err x
      | .ok none => .err .cursor
      | .ok (some found) =>
        match mv with
        | .after => .ok found.index
        | .before =>
          if found.visible || found.index == 0 then .ok found.index
          else beforeWalk (wf ty) historical ops obj (ops.length + 1) found.op.key

end AmVerif.Crdt
