import AmVerif.Model.Basic
/- Line-protocol helpers shared by the driver engines (hex tokens, `-` = empty). -/
namespace AmVerif.Wire
open AmVerif

def hx (b : Bytes) : String := if b.isEmpty then "-" else hexOfBytes b

def unhx (s : String) : Option Bytes := if s == "-" then some [] else bytesOfHex s

def splitTokens (s : String) : List String := s.splitOn " "

def unhxList (s : String) : Option (List Bytes) :=
  if s == "-" then some [] else (s.splitOn ",").mapM unhx

def showBool (b : Bool) : String := if b then "true" else "false"

end AmVerif.Wire
