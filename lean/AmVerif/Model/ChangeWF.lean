import AmVerif.Model.ChangeCodec
/-
  M2 (change chunk): the well-formedness predicate `ChangeWF` of an expanded change — what
  `Change::from(ExpandedChange)` / a transaction commit produces (library-written, canonical changes).
  Decidable and executable: the `codec` driver evaluates it on every change a real transaction wrote
  (`codec.wf`), `Props/C18Full.lean` proves `decode (encode c) = c` under it.
-/
namespace AmVerif.ChangeCodec.Full
open AmVerif AmVerif.Crdt AmVerif.ChangeCodec
open AmVerif.Hexane (validUtf8)

/-- a string the `SmolStr` column reader hands back: at most `MAX_ALLOCATION` (10^9) bytes, valid UTF-8 -/
def validSmol (b : Bytes) : Prop := b.length ≤ MAX_ALLOCATION ∧ validUtf8 b = true

def inI64v (i : Int) : Prop := -(2 ^ 63 : Int) ≤ i ∧ i < (2 ^ 63 : Int)

instance (b : Bytes) : Decidable (validSmol b) := by unfold validSmol; infer_instance
instance (i : Int) : Decidable (inI64v i) := by unfold inI64v; infer_instance

/-- a value the format can hold and the reader hands back unchanged: integers in their 64-bit
    ranges, strings valid UTF-8, lengths below 2^60 (the metadata word is a `u64` with a 4-bit
    type), unknown type codes 10 … 15 -/
def ScalarWF : Scalar → Prop
  | .null => True
  | .bool _ => True
  | .int i => inI64v i
  | .uint n => n < 2 ^ 64
  | .f64 b => b < 2 ^ 64
  | .str s => s.length < 2 ^ 60 ∧ validUtf8 s = true
  | .bytes b => b.length < 2 ^ 60
  | .counter i => inI64v i
  | .timestamp i => inI64v i
  | .unknown ty b => 10 ≤ ty ∧ ty < 16 ∧ b.length < 2 ^ 60

instance (v : Scalar) : Decidable (ScalarWF v) := by
  cases v <;> unfold ScalarWF <;> infer_instance

/-- a commit message: absent, or a non-empty valid UTF-8 string (an empty message reads back as none) -/
def MsgWF : Option Bytes → Prop
  | none => True
  | some m => m ≠ [] ∧ validUtf8 m = true ∧ m.length < 2 ^ 64

instance (m : Option Bytes) : Decidable (MsgWF m) := by
  cases m <;> unfold MsgWF <;> infer_instance

/-- an object id other than the root has a positive counter that fits a `u32` -/
def ObjWF : ObjId → Prop
  | .root => True
  | .id i => 0 < i.ctr ∧ i.ctr < 2 ^ 32

/-- a map key is a valid UTF-8 string the `SmolStr` reader allocates (≤ 10^9 bytes); an element id has
    a positive counter that fits a `u32` (`HEAD` is written as counter 0) -/
def KeyWF : Key → Prop
  | .map k => validSmol k
  | .head => True
  | .elem e => 0 < e.ctr ∧ e.ctr < 2 ^ 32

def ActionWF : Action → Prop
  | .make _ => True
  | .put v => ScalarWF v
  | .del => True
  | .inc n => inI64v n
  | .markBegin name v _ => validSmol name ∧ ScalarWF v
  | .markEnd _ => True

instance (o : ObjId) : Decidable (ObjWF o) := by cases o <;> unfold ObjWF <;> infer_instance
instance (k : Key) : Decidable (KeyWF k) := by cases k <;> unfold KeyWF <;> infer_instance
instance (a : Action) : Decidable (ActionWF a) := by cases a <;> unfold ActionWF <;> infer_instance

/-- one operation: ids and values in range, predecessors in the order `SortedVec<OpId>` keeps them -/
def OpWF (o : Op) : Prop :=
  ObjWF o.obj ∧ KeyWF o.key ∧ ActionWF o.action ∧ sortOpIds o.pred = o.pred ∧ ∀ p ∈ o.pred, p.ctr < 2 ^ 32

instance (o : Op) : Decidable (OpWF o) := by unfold OpWF; infer_instance

/-- the ids of the operations are `start@actor`, `(start+1)@actor`, … -/
def idsFrom (actor : Bytes) : Nat → List Op → Bool
  | _, [] => true
  | n, o :: r => o.id == ⟨n, actor⟩ && idsFrom actor (n + 1) r

/-- **well-formed (library-written) changes**: what `Change::from(ExpandedChange)` / a transaction
    commit produces.
    * the dependencies are 32-byte hashes in the order `sort_unstable` leaves them;
    * actor ids, sequence number, start op (non-zero; all op counters of the change fit a `u32`),
      time (`i64`) and the counts fit the length fields of the format; the actor table (author, then
      the other actors sorted) has fewer than 2^32 entries;
    * the message is absent or a non-empty valid UTF-8 string;
    * the operations are numbered consecutively from `startOp` with the change's actor and are
      well-formed (`OpWF`);
    * the chunk body is shorter than 2^64 bytes. -/
def ChangeWF (c : XChange) : Prop :=
  sortDeps c.deps = c.deps ∧ (∀ h ∈ c.deps, h.length = Consts.HASH_SIZE) ∧ c.deps.length < 2 ^ 64 ∧
  c.actor.length < 2 ^ 64 ∧ (∀ a ∈ otherActors c.actor c.ops, a.length < 2 ^ 64) ∧
  (otherActors c.actor c.ops).length + 1 < 2 ^ 32 ∧
  c.seq < 2 ^ 64 ∧ 0 < c.startOp ∧ c.startOp < 2 ^ 32 ∧ c.startOp + c.ops.length ≤ 2 ^ 32 ∧ inI64v c.time ∧ MsgWF c.message ∧
  idsFrom c.actor c.startOp c.ops = true ∧ (∀ o ∈ c.ops, OpWF o) ∧
  (c.ops.flatMap (·.pred)).length < 2 ^ 63 ∧
  (encodeBody (sortDeps c.deps) c.actor (otherActors c.actor c.ops) c.seq c.startOp c.time c.message
    (c.ops.map (toRow (c.actor :: otherActors c.actor c.ops))) c.extra).length < 2 ^ 64

instance (c : XChange) : Decidable (ChangeWF c) := by unfold ChangeWF; infer_instance

end AmVerif.ChangeCodec.Full
