import AmVerif.Model.Sync2
/-
  The round bound of C20 as an executable definition (evaluated by the `sync` driver engine on the
  model documents and compared with the same count taken on the real documents; the theorems about
  it are in `AmVerif.Props.C20Progress`).
-/
namespace AmVerif.Sync.Prog
open AmVerif AmVerif.Sync

/-- the change with hash `h` has arrived at `d`: it is applied or waits in the queue -/
def hasB (d : Doc) (h : Hash) : Bool := d.hashes.contains h || (d.queue.map (·.hash)).contains h

/-- changes applied at `dB` that have not arrived (applied or queued) at `dA`, plus the changes
    applied at `dA` that have not arrived at `dB` -/
def missingDocs (dA dB : Doc) : Nat :=
  (dB.hashes.filter (fun h => !hasB dA h)).length + (dA.hashes.filter (fun h => !hasB dB h)).length

def missing (c : Cfg) : Nat := missingDocs c.docA c.docB

/-- the round bound of C20: within `bound c` rounds without edits the two peers are quiescent -/
def bound (c : Cfg) : Nat := missing c + 4

end AmVerif.Sync.Prog
