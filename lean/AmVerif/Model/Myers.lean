import AmVerif.Model.Basic
/-
  C27 model, part 1: the Myers divide-and-conquer diff of `rust/automerge/src/text_diff/myers.rs`
  (`diff`, `conquer`, `find_middle_snake`, the `V` arrays, `max_d`, `split_at`) and
  `text_diff/utils.rs` (`common_prefix_len`, `common_suffix_len`, `is_empty_range`), function by
  function, over lists of comparable "units" (for `update_text` a unit is one grapheme cluster as a
  byte string; the segmentation is an input).

  What the Rust leaves implicit is explicit here:
  * the recursion of `conquer` is bounded by fuel → `Res.outOfFuel`;
  * a split point returned by `find_middle_snake` that lies outside the rectangle being diffed (the
    Rust would build ranges with `start > end`, or overflow `n - x` / `y0 + start`: overflow panic in
    a debug build, garbage in release) or that is one of its two corners (the Rust would call
    `conquer` again with exactly the same ranges: unbounded recursion) → `Res.invalidSplit`;
  * every `V` index (`&self.v[(index + self.offset) as usize]`) out of bounds and the two
    `assert!(v.len() >= d_max)` → `Res.panic`.
  The output is the sequence of `DiffHook` calls made (`equal` / `delete` / `insert`), i.e. the edit
  script.
-/
namespace AmVerif.Myers
open AmVerif

/-- A call of the `DiffHook` trait (arguments in the Rust order). `replace` is produced only by the
    `Replace` adapter (`text_diff/replace.rs`), never by `conquer` itself. -/
inductive Hook where
  | equal   (oldIdx newIdx len : Nat)
  | delete  (oldIdx oldLen newIdx : Nat)
  | insert  (oldIdx newIdx newLen : Nat)
  | replace (oldIdx oldLen newIdx newLen : Nat)
  deriving DecidableEq, Repr, Inhabited

/-- Outcome of the diff. -/
inductive Res (α : Type) where
  | ok (a : α)
  | invalidSplit
  | outOfFuel
  | panic (p : PanicSite)
  deriving Repr

namespace Res
variable {α β : Type}
@[inline] def bind (x : Res α) (f : α → Res β) : Res β :=
  match x with
  | ok a => f a
  | invalidSplit => invalidSplit
  | outOfFuel => outOfFuel
  | panic p => panic p
instance : Monad Res where
  pure := ok
  bind := bind
end Res

/-! ### utils.rs -/

/-- `is_empty_range(&(s..e))` = `!(s < e)` -/
@[inline] def isEmptyRange (s e : Nat) : Bool := !(decide (s < e))

section
variable {α : Type} [BEq α]

/-- the `zip … take_while … count` of `common_prefix_len`, `k` = length of the shorter range.
    `new[j] == old[i]` indexes the slices; both ranges lie inside their slices wherever `conquer`
    calls this (lemma `Proofs.Myers.conquer_wf` keeps `oe ≤ old.length`, `ne ≤ new.length`), so the
    out-of-bounds branch (a Rust index panic) is unreachable; it stops the count. -/
def prefixCount (old new : List α) : (os ns k : Nat) → Nat
  | _, _, 0 => 0
  | os, ns, k+1 =>
    match old[os]?, new[ns]? with
    | some a, some b => if b == a then prefixCount old new (os+1) (ns+1) k + 1 else 0
    | _, _ => 0

/-- `common_prefix_len(old, os..oe, new, ns..ne)` -/
def commonPrefixLen (old : List α) (os oe : Nat) (new : List α) (ns ne : Nat) : Nat :=
  if isEmptyRange os oe || isEmptyRange ns ne then 0
  else prefixCount old new os ns (min (oe - os) (ne - ns))

/-- the reversed zip of `common_suffix_len`; `oe`, `ne` are the exclusive ends. -/
def suffixCount (old new : List α) : (oe ne k : Nat) → Nat
  | _, _, 0 => 0
  | oe, ne, k+1 =>
    match oe, ne with
    | oe'+1, ne'+1 =>
      match old[oe']?, new[ne']? with
      | some a, some b => if b == a then suffixCount old new oe' ne' k + 1 else 0
      | _, _ => 0
    | _, _ => 0

/-- `common_suffix_len(old, os..oe, new, ns..ne)` -/
def commonSuffixLen (old : List α) (os oe : Nat) (new : List α) (ns ne : Nat) : Nat :=
  if isEmptyRange os oe || isEmptyRange ns ne then 0
  else suffixCount old new oe ne (min (oe - os) (ne - ns))
end

/-! ### the `V` arrays -/

/-- `struct V { offset: isize, v: Vec<usize> }` -/
structure V where
  offset : Nat
  v : Array Nat
  deriving Repr

/-- `max_d` -/
def maxD (len1 len2 : Nat) : Nat := (len1 + len2 + 1) / 2 + 1

/-- `V::new` -/
def V.new (maxd : Nat) : V := ⟨maxd, Array.replicate (2 * maxd) 0⟩

/-- `Index<isize>`: `&self.v[(index + self.offset) as usize]`; a negative sum casts to a huge
    `usize`, so it is out of bounds like any other too-large index → `none` (index panic). -/
def V.get (v : V) (k : Int) : Option Nat :=
  let i := k + (v.offset : Int)
  if i < 0 then none else v.v[i.toNat]?

/-- `IndexMut<isize>` -/
def V.set (v : V) (k : Int) (x : Nat) : Option V :=
  let i := k + (v.offset : Int)
  if i < 0 then none
  else if h : i.toNat < v.v.size then some { v with v := v.v.set i.toNat x h } else none

/-! ### `find_middle_snake` -/

/-- result of one iteration of one of the two inner `for k` loops -/
inductive KStep where
  | cont (vf vb : V)
  | found (x y : Int) (vf vb : V)
  | panic (p : PanicSite)

section
variable {α : Type} [BEq α]

/-- read `v[k]` or panic -/
@[inline] def rd (v : V) (k : Int) (f : Nat → KStep) : KStep :=
  match v.get k with
  | some x => f x
  | none => .panic .sliceIndex

/-- body of the forward `for k` loop.  `n`, `m` are the range lengths, `delta = n - m`. -/
def fwdStep (old : List α) (os oe : Nat) (new : List α) (ns ne : Nat)
    (n m : Nat) (delta : Int) (odd : Bool) (d : Nat) (k : Int) (vf vb : V) : KStep :=
  -- `if k == -d || (k != d && vf[k - 1] < vf[k + 1]) { vf[k + 1] } else { vf[k - 1] + 1 }`
  let pick (f : Nat → KStep) : KStep :=
    if k == -(d : Int) then rd vf (k + 1) f
    else if k != (d : Int) then
      rd vf (k - 1) fun a => rd vf (k + 1) fun b =>
        if a < b then rd vf (k + 1) f else rd vf (k - 1) fun a' => f (a' + 1)
    else rd vf (k - 1) fun a' => f (a' + 1)
  pick fun x =>
    -- `let y = (x as isize - k) as usize;` a negative value casts to ≥ 2^63, which fails `y < m`
    let y : Int := (x : Int) - k
    let x1 : Nat :=
      if x < n ∧ 0 ≤ y ∧ y < (m : Int) then
        x + commonPrefixLen old (os + x) oe new (ns + y.toNat) ne
      else x
    match vf.set k x1 with
    | none => .panic .sliceIndex
    | some vf =>
      if odd && decide ((k - delta).natAbs + 1 ≤ d) then     -- `(k - delta).abs() <= d - 1`
        rd vf k fun a => rd vb (-(k - delta)) fun b =>
          if a + b ≥ n then .found ((x : Int) + os) (y + ns) vf vb else .cont vf vb
      else .cont vf vb

/-- body of the backward `for k` loop -/
def bwdStep (old : List α) (os : Nat) (new : List α) (ns : Nat)
    (n m : Nat) (delta : Int) (odd : Bool) (d : Nat) (k : Int) (vf vb : V) : KStep :=
  let pick (f : Nat → KStep) : KStep :=
    if k == -(d : Int) then rd vb (k + 1) f
    else if k != (d : Int) then
      rd vb (k - 1) fun a => rd vb (k + 1) fun b =>
        if a < b then rd vb (k + 1) f else rd vb (k - 1) fun a' => f (a' + 1)
    else rd vb (k - 1) fun a' => f (a' + 1)
  pick fun x =>
    let y : Int := (x : Int) - k
    let adv : Nat :=
      if x < n ∧ 0 ≤ y ∧ y < (m : Int) then
        commonSuffixLen old os (os + n - x) new ns (ns + m - y.toNat)
      else 0
    let x1 := x + adv
    let y1 := y + adv
    match vb.set k x1 with
    | none => .panic .sliceIndex
    | some vb =>
      if !odd && decide ((k - delta).natAbs ≤ d) then
        rd vb k fun a => rd vf (-(k - delta)) fun b =>
          if a + b ≥ n then
            -- `(n - x + old_range.start, m - y + new_range.start)`; `n - x` / `m - y` underflow when
            -- the point is outside the rectangle: the integers returned here are then outside
            -- `[os, oe] × [ns, ne]` or negative, which `conquer` turns into `invalidSplit`
            .found ((n : Int) - x1 + os) ((m : Int) - y1 + ns) vf vb
          else .cont vf vb
      else .cont vf vb

/-- `for k in (-d..=d).rev().step_by(2)`: `k = d, d-2, …`; `i` iterations remain -/
def kLoop (step : Int → V → V → KStep) : (i : Nat) → (k : Int) → V → V → KStep
  | 0, _, vf, vb => .cont vf vb
  | i+1, k, vf, vb =>
    match step k vf vb with
    | .cont vf vb => kLoop step i (k - 2) vf vb
    | r => r

/-- `for d in 0..d_max`; `j` iterations remain -/
def dLoop (old : List α) (os oe : Nat) (new : List α) (ns ne : Nat)
    (n m : Nat) (delta : Int) (odd : Bool) : (j : Nat) → (d : Nat) → V → V → KStep
  | 0, _, vf, vb => .cont vf vb
  | j+1, d, vf, vb =>
    match kLoop (fwdStep old os oe new ns ne n m delta odd d) (d + 1) d vf vb with
    | .cont vf vb =>
      match kLoop (bwdStep old os new ns n m delta odd d) (d + 1) d vf vb with
      | .cont vf vb => dLoop old os oe new ns ne n m delta odd j (d + 1) vf vb
      | r => r
    | r => r

/-- `find_middle_snake`.  `.cont` = `None` ("deadline reached"). -/
def findMiddleSnake (old : List α) (os oe : Nat) (new : List α) (ns ne : Nat) (vf vb : V) : KStep :=
  let n := oe - os
  let m := ne - ns
  let delta : Int := (n : Int) - m
  let odd : Bool := delta % 2 == 1          -- `delta & 1 == 1` on a two's-complement `isize`
  match vf.set 1 0 with
  | none => .panic .sliceIndex
  | some vf =>
  match vb.set 1 0 with
  | none => .panic .sliceIndex
  | some vb =>
  let dmax := maxD n m
  if vf.v.size < dmax then .panic .assertFailed
  else if vb.v.size < dmax then .panic .assertFailed
  else dLoop old os oe new ns ne n m delta odd dmax 0 vf vb

/-! ### `conquer` and `diff` -/

/-- `conquer`; returns the hook calls and the two `V` arrays (they are `&mut` in the Rust). -/
def conquer (old new : List α) : (fuel : Nat) → (os oe ns ne : Nat) → V → V → Res (List Hook × V × V)
  | 0, _, _, _, _, _, _ => .outOfFuel
  | fuel+1, os, oe, ns, ne, vf, vb =>
    let p := commonPrefixLen old os oe new ns ne
    let pre := if p > 0 then [Hook.equal os ns p] else []
    let os := os + p
    let ns := ns + p
    let s := commonSuffixLen old os oe new ns ne
    let sufHook := if s > 0 then [Hook.equal (oe - s) (ne - s) s] else []
    let oe := oe - s
    let ne := ne - s
    let mid : Res (List Hook × V × V) :=
      if isEmptyRange os oe && isEmptyRange ns ne then .ok ([], vf, vb)
      else if isEmptyRange ns ne then .ok ([Hook.delete os (oe - os) ns], vf, vb)
      else if isEmptyRange os oe then .ok ([Hook.insert os ns (ne - ns)], vf, vb)
      else
        match findMiddleSnake old os oe new ns ne vf vb with
        | .panic p => .panic p
        | .cont vf vb => .ok ([Hook.delete os (oe - os) ns, Hook.insert os ns (ne - ns)], vf, vb)
        | .found x y vf vb =>
          if (os : Int) ≤ x ∧ x ≤ oe ∧ (ns : Int) ≤ y ∧ y ≤ ne
              ∧ ¬ (x = os ∧ y = ns) ∧ ¬ (x = oe ∧ y = ne) then
            (conquer old new fuel os x.toNat ns y.toNat vf vb).bind fun r1 =>
            (conquer old new fuel x.toNat oe y.toNat ne r1.2.1 r1.2.2).bind fun r2 =>
            .ok (r1.1 ++ r2.1, r2.2.1, r2.2.2)
          else .invalidSplit
    mid.bind fun r => .ok (pre ++ r.1 ++ sufHook, r.2.1, r.2.2)

/-- `diff(d, old, 0..old.len(), new, 0..new.len())` with the given fuel (`d.finish()` of both hooks
    used with it is a no-op). -/
def diffFuel (fuel : Nat) (old new : List α) : Res (List Hook) :=
  let md := maxD old.length new.length
  (conquer old new fuel 0 old.length 0 new.length (V.new md) (V.new md)).bind fun r => .ok r.1

/-- `diff` with enough fuel (`Proofs.Myers.diff_ne_outOfFuel`). -/
def diff (old new : List α) : Res (List Hook) := diffFuel (old.length + new.length + 1) old new

/-! ### applying a script at the level of units -/

/-- The list a consumer of the hook calls builds when it copies `equal` ranges from `old`, takes
    `insert`/`replace` ranges from `new` and drops `delete`d ranges. -/
def applyScript (old new : List α) : List Hook → List α
  | [] => []
  | .equal oi _ len :: r => (old.drop oi).take len ++ applyScript old new r
  | .delete _ _ _ :: r => applyScript old new r
  | .insert _ ni len :: r => (new.drop ni).take len ++ applyScript old new r
  | .replace _ _ ni len :: r => (new.drop ni).take len ++ applyScript old new r

/-- The part of `old` a script walks over (`equal`, `delete` and `replace` ranges). -/
def consumed (old : List α) : List Hook → List α
  | [] => []
  | .equal oi _ len :: r => (old.drop oi).take len ++ consumed old r
  | .delete oi len _ :: r => (old.drop oi).take len ++ consumed old r
  | .insert _ _ _ :: r => consumed old r
  | .replace oi len _ _ :: r => (old.drop oi).take len ++ consumed old r
end

end AmVerif.Myers
