import AmVerif.Model.Basic
/-
  M1 (hexane part): the wire format of hexane's LEB128-codec columns, as `rust/hexane` reads and
  writes it.

  * varints: written by `Leb128::encode_unsigned/encode_signed` (codec.rs), read by the `leb128`
    crate (`leb128::read::{unsigned,signed}`), which ACCEPTS over-long forms (unlike automerge's own
    `storage/parse/leb128.rs` reader of M0);
  * value packing (`RleValue::{pack,try_unpack}` in lib.rs) for u64 / u32 / usize / i64 / String /
    Vec<u8>;
  * RLE segments (`rle/decoder.rs::try_next_segment`), the canonical-form check
    (`RleSegment::validate_after`), the slab bookkeeping of the loader (`rle/load.rs::CutState`,
    `column.rs::ColumnLoadIter`), the per-slab weights of `PrefixColumn` / `DeltaColumn`
    (`prefix.rs`, `delta/indexed.rs`) and the final checks of `finalize_with` / `DeltaColumn::load_with`;
  * boolean columns (`bool.rs::BoolLoadIter`), raw columns (`raw.rs`).

  `usize`/`u64`/`i64`/`i128` arithmetic is modelled on `Nat`/`Int`; every place where the Rust
  arithmetic can overflow on untrusted bytes is an explicit `panic` branch (the harness is a
  debug-assertions/overflow-checks build, like `cargo test`): these are the inputs for which
  "load never panics" (C35) is false on the unchanged tree.
-/
namespace AmVerif.Hexane
open AmVerif

/-- `PackError`, collapsed to its variants. -/
inductive HErr where
  | num       -- InvalidNumber (leb128 read error: eof or overflow)
  | utf8      -- InvalidUtf8
  | value     -- InvalidValue
  | length    -- InvalidLength
  | format    -- BadFormat
  deriving DecidableEq, Repr, Inhabited

abbrev Res (α : Type) := Outcome HErr α

def two63 : Nat := 2 ^ 63
def two64 : Nat := 2 ^ 64

/-! ## varints -/

/-- `Leb128::encode_unsigned` (a `u64` needs at most 10 bytes, which is the fuel). -/
def encUF : Nat → Nat → Bytes
  | 0, _ => []
  | f+1, n => if n < 128 then [UInt8.ofNat n] else UInt8.ofNat (n % 128 + 128) :: encUF f (n / 128)

def encU (n : Nat) : Bytes := encUF 10 n

/-- `Leb128::encode_signed`: `byte = val & 0x7f; val >>= 7;` stop when the rest is pure sign
    extension of bit 6 (an `i64` needs at most 10 bytes). -/
def encSF : Nat → Int → Bytes
  | 0, _ => []
  | f+1, z =>
    let byte := (z % 128).toNat
    let z' := z / 128
    if (z' = 0 ∧ byte < 64) ∨ (z' = -1 ∧ 64 ≤ byte) then [UInt8.ofNat byte]
    else UInt8.ofNat (byte + 128) :: encSF f z'

def encS (z : Int) : Bytes := encSF 10 z

/-- `leb128::read::unsigned`: `result |= low_bits << shift` adds disjoint bit ranges, so it is `+`;
    at `shift = 63` only the bytes 0x00 and 0x01 are accepted (everything else, including 0x80 and
    0x81, is `Overflow`); an empty input is an `IoError`.  Both errors are `InvalidNumber`. -/
def readULoop : Bytes → (res shift : Nat) → Except HErr (Nat × Bytes)
  | [], _, _ => .error .num
  | b :: rest, res, shift =>
    if shift = 63 ∧ b ≠ 0 ∧ b ≠ 1 then .error .num
    else
      let res' := res + (b.toNat % 128) * 2 ^ shift
      if b.toNat < 128 then .ok (res', rest) else readULoop rest res' (shift + 7)

def readU (bs : Bytes) : Except HErr (Nat × Bytes) := readULoop bs 0 0

/-- two's-complement reading of a 64-bit pattern -/
def toI64 (p : Nat) : Int := if p % two64 < two63 then (p % two64 : Nat) else (p % two64 : Nat) - (two64 : Int)

/-- `leb128::read::signed`: at `shift = 63` only 0x00 and 0x7f are accepted (`0x7f << 63` keeps bit
    63 only); the sign extension `!0 << shift` is applied when the final shift is below 64. -/
def readSLoop : Bytes → (res shift : Nat) → Except HErr (Int × Bytes)
  | [], _, _ => .error .num
  | b :: rest, res, shift =>
    if shift = 63 ∧ b ≠ 0 ∧ b ≠ 0x7f then .error .num
    else
      let res' := (res + (b.toNat % 128) * 2 ^ shift) % two64
      let shift' := shift + 7
      if b.toNat < 128 then
        if shift' < 64 ∧ 64 ≤ b.toNat % 128 then .ok ((res' : Int) - (2 ^ shift' : Nat), rest)
        else .ok (toI64 res', rest)
      else readSLoop rest res' shift'

def readS (bs : Bytes) : Except HErr (Int × Bytes) := readSLoop bs 0 0

/-! ## value packing -/

/-- `RleValue::{pack, try_unpack}` of one value type. -/
structure ValCodec (α : Type) where
  pack : α → Bytes
  unpack : Bytes → Except HErr (α × Bytes)

def cU64 : ValCodec Nat := ⟨encU, readU⟩

/-- `u32` (and `usize` is `u64` on the 64-bit targets the harness runs on) -/
def cU32 : ValCodec Nat :=
  ⟨encU, fun bs => match readU bs with
    | .ok (v, r) => if v < 2 ^ 32 then .ok (v, r) else .error .value
    | .error e => .error e⟩

def cI64 : ValCodec Int := ⟨encS, readS⟩

/-- `Vec<u8>`: length prefix, then the bytes; a length beyond the data is `BadFormat`. -/
def unpackBytes (bs : Bytes) : Except HErr (Bytes × Bytes) :=
  match readU bs with
  | .error e => .error e
  | .ok (len, rest) => if rest.length < len then .error .format else .ok (rest.take len, rest.drop len)

def cBytes : ValCodec Bytes := ⟨fun v => encU v.length ++ v, unpackBytes⟩

/-- Well-formed UTF-8 (Unicode 15 table 3-7), what `std::str::from_utf8` accepts. -/
def validUtf8 : Bytes → Bool
  | [] => true
  | b0 :: r =>
    let n0 := b0.toNat
    if n0 < 0x80 then validUtf8 r
    else
      let cont (b : UInt8) : Bool := 0x80 ≤ b.toNat ∧ b.toNat ≤ 0xBF
      if 0xC2 ≤ n0 ∧ n0 ≤ 0xDF then
        match r with
        | b1 :: r => cont b1 && validUtf8 r
        | _ => false
      else if 0xE0 ≤ n0 ∧ n0 ≤ 0xEF then
        match r with
        | b1 :: b2 :: r =>
          let lo := if n0 = 0xE0 then 0xA0 else 0x80
          let hi := if n0 = 0xED then 0x9F else 0xBF
          decide (lo ≤ b1.toNat ∧ b1.toNat ≤ hi) && cont b2 && validUtf8 r
        | _ => false
      else if 0xF0 ≤ n0 ∧ n0 ≤ 0xF4 then
        match r with
        | b1 :: b2 :: b3 :: r =>
          let lo := if n0 = 0xF0 then 0x90 else 0x80
          let hi := if n0 = 0xF4 then 0x8F else 0xBF
          decide (lo ≤ b1.toNat ∧ b1.toNat ≤ hi) && cont b2 && cont b3 && validUtf8 r
        | _ => false
      else false

/-- `String`: as bytes, then `from_utf8` (→ `InvalidUtf8`); strings are kept as their UTF-8 bytes. -/
def cStr : ValCodec Bytes :=
  ⟨fun v => encU v.length ++ v, fun bs => match unpackBytes bs with
    | .ok (v, r) => if validUtf8 v then .ok (v, r) else .error .utf8
    | .error e => .error e⟩

/-! ## RLE segments -/

/-- `RleSegment`: what `try_next_segment` yields. -/
inductive Item (α : Type) where
  | head (k : Nat)          -- LitHead { count }
  | litv (v : α)            -- Lit { value }
  | run (n : Nat) (v : α)   -- Run { count, value }
  | null (n : Nat)          -- Null { count }
  deriving DecidableEq, Repr

/-- the last value-bearing segment, as `validate_after` looks at it -/
inductive Prev (α : Type) where
  | none | run (v : α) | lit (v : α) | null
  deriving DecidableEq, Repr

structure PState (α : Type) where
  litLeft : Nat := 0             -- decoder.remaining while in `RunState::Literal`
  prev : Prev α := .none
  prevLit : Option α := .none
  deriving Repr

/-- how a load stops early -/
inductive Fail where
  | err (e : HErr)
  | panic (p : PanicSite)
  deriving DecidableEq, Repr

def Prev.sameValue {α} [DecidableEq α] : Prev α → α → Bool
  | .run w, v => w = v
  | .lit w, v => w = v
  | _, _ => false

def Prev.isLit {α} : Prev α → Bool
  | .lit _ => true
  | _ => false

def Prev.isNull {α} : Prev α → Bool
  | .null => true
  | _ => false

/-- `try_next_segment` + `validate_after`, segment by segment: the segments accepted before the
    first failure, and that failure (`none` = clean end of input).  Fuel: every step consumes at
    least one byte. -/
def parse {α} [DecidableEq α] (c : ValCodec α) (nullable : Bool) :
    Nat → Bytes → PState α → List (Item α) × Option Fail
  | 0, _, _ => ([], some (.err .format))
  | fuel+1, bs, st =>
    if st.litLeft > 0 then
      match c.unpack bs with
      | .error e => ([], some (.err e))
      | .ok (v, rest) =>
        if st.prevLit = some v then ([], some (.err .value))                     -- consecutive equal
        else if st.prevLit = none ∧ st.prev.sameValue v then ([], some (.err .value))  -- boundary
        else
          let (items, f) := parse c nullable fuel rest { litLeft := st.litLeft - 1, prev := .lit v, prevLit := some v }
          (.litv v :: items, f)
    else if bs.isEmpty then ([], none)
    else
      match readS bs with
      | .error e => ([], some (.err e))
      | .ok (n, rest) =>
        if n > 0 then
          match c.unpack rest with
          | .error e => ([], some (.err e))
          | .ok (v, rest) =>
            if n < 2 then ([], some (.err .value))
            else if st.prev.sameValue v then ([], some (.err .value))
            else
              let (items, f) := parse c nullable fuel rest { litLeft := 0, prev := .run v, prevLit := st.prevLit }
              (.run n.toNat v :: items, f)
        else if n < 0 then
          -- `(-n) as usize`: negating i64::MIN overflows (debug builds panic, release wraps to 2^63)
          if n = -(two63 : Int) then ([], some (.panic .narrowing))
          else if st.prev.isLit then ([], some (.err .value))                    -- adjacent literal runs
          else
            let (items, f) := parse c nullable fuel rest { litLeft := (-n).toNat, prev := st.prev, prevLit := none }
            (.head (-n).toNat :: items, f)
        else
          match readU rest with
          | .error e => ([], some (.err e))
          | .ok (k, rest) =>
            if k = 0 then ([], some (.err .value))
            else if st.prev.isNull then ([], some (.err .value))
            else if !nullable then ([], some (.err .value))
            else
              let (items, f) := parse c nullable fuel rest { litLeft := 0, prev := .null, prevLit := st.prevLit }
              (.null k :: items, f)

def parseAll {α} [DecidableEq α] (c : ValCodec α) (nullable : Bool) (bs : Bytes) :
    List (Item α) × Option Fail :=
  parse c nullable (bs.length + 1) bs {}

def writeItem {α} (c : ValCodec α) : Item α → Bytes
  | .head k => encS (-(k : Int))
  | .litv v => c.pack v
  | .run n v => encS n ++ c.pack v
  | .null n => encS 0 ++ encU n

def writeItems {α} (c : ValCodec α) (items : List (Item α)) : Bytes :=
  (items.map (writeItem c)).flatten

def expand {α} : List (Item α) → List (Option α)
  | [] => []
  | .head _ :: r => expand r
  | .litv v :: r => some v :: expand r
  | .run n v :: r => List.replicate n (some v) ++ expand r
  | .null n :: r => List.replicate n none ++ expand r

def itemCount {α} : Item α → Nat
  | .head _ => 0
  | .litv _ => 1
  | .run n _ => n
  | .null n => n

def itemsLen {α} (items : List (Item α)) : Nat := (items.map itemCount).sum

/-! ## canonical encoding of a value list -/

/-- maximal runs of equal neighbours -/
def groups {β} [DecidableEq β] : List β → List (Nat × β)
  | [] => []
  | x :: xs =>
    match groups xs with
    | (n, y) :: gs => if x = y then (n + 1, y) :: gs else (1, x) :: (n, y) :: gs
    | [] => [(1, x)]

def closeLit {α} (lit : List α) (items : List (Item α)) : List (Item α) :=
  if lit.isEmpty then items else .head lit.length :: (lit.map .litv ++ items)

/-- from the right: the literal block still open at the front, and the finished segments -/
def itemsAux {α} : List (Nat × Option α) → List α × List (Item α)
  | [] => ([], [])
  | (n, none) :: gs => let (lit, items) := itemsAux gs; ([], .null n :: closeLit lit items)
  | (n, some v) :: gs =>
    let (lit, items) := itemsAux gs
    if n = 1 then (v :: lit, items) else ([], .run n v :: closeLit lit items)

/-- the segments the encoder state machine (`rle/state.rs`) leaves in the buffer for a value list:
    null runs, repeat runs of ≥ 2, and maximal literal blocks of the remaining single values -/
def itemsOf {α} [DecidableEq α] (xs : List (Option α)) : List (Item α) :=
  let (lit, items) := itemsAux (groups xs)
  closeLit lit items

def rleEncode {α} [DecidableEq α] (c : ValCodec α) (xs : List (Option α)) : Bytes :=
  writeItems c (itemsOf xs)

/-! ## the loader's bookkeeping over the accepted segments -/

/-- which per-slab weight the column type accumulates while loading -/
inductive Weight where
  | len                          -- `Column<T>` (LenWeight)
  | prefixU (limit : Nat)        -- `PrefixColumn<u32>`: `u64` accumulator (`limit = 2^64`)
  | prefixWide                   -- `PrefixColumn<u64|i64>`: `u128`/`i128` accumulator, cannot overflow
  | delta (lo hi : Int)          -- `DeltaColumn<T>`: SlabAgg with T's `MIN_I64..=MAX_I64`
  deriving DecidableEq, Repr

/-- `SlabAgg` -/
structure Agg where
  len : Nat := 0
  total : Int := 0
  minOff : Int := 0
  maxOff : Int := 0
  deriving Repr, DecidableEq

structure AState where
  slabLen : Nat := 0            -- `cut.slab.len`
  slabSegs : Nat := 0           -- `cut.slab.segments`
  closed : Nat := 0             -- sum of the lengths of the slabs already cut (unbounded)
  nslabs : Nat := 0
  pre : Nat := 0                -- `PrefixSlabWeight.prefix` of the slab being cut (u64 case)
  preClosed : Nat := 0          -- sum of the prefixes of the closed slabs (unbounded)
  agg : Agg := {}               -- `SlabAgg` of the slab being cut
  aggs : List Agg := []         -- weights of the closed slabs, in order (delta)
  deriving Repr

def inI64 (z : Int) : Bool := -(two63 : Int) ≤ z ∧ z < (two63 : Int)

/-- `IndexedDeltaWeightFn::accumulate_run` (checked arithmetic → `InvalidValue`) -/
def aggStep (w : Agg) (count : Nat) (v : Option Int) : Except HErr Agg :=
  match v with
  | none =>
    .ok (if w.len = 0 then { w with minOff := 0, maxOff := 0, len := w.len + count }
         else { w with minOff := min w.minOff w.total, maxOff := max w.maxOff w.total, len := w.len + count })
  | some d =>
    if ¬ (count < two63) then .error .value else
    let step := d * count
    if ¬ inI64 step then .error .value else
    let first := w.total + d
    if ¬ inI64 first then .error .value else
    let last := w.total + step
    if ¬ inI64 last then .error .value else
    let lo := min first last
    let hi := max first last
    .ok (if w.len = 0 then { len := w.len + count, total := last, minOff := lo, maxOff := hi }
         else { len := w.len + count, total := last, minOff := min w.minOff lo, maxOff := max w.maxOff hi })

/-- one value-bearing segment through `CutState::track`, the slab cut, and
    `ColumnLoadIter::attribute`; `target = max_segments / 2 = 32` -/
def acctStep (w : Weight) (st : AState) (count : Nat) (v : Option Int) : Res AState :=
  if ¬ (st.slabLen + count < two64) then .panic .narrowing          -- `self.slab.len += count`
  else
    let st := { st with slabLen := st.slabLen + count, slabSegs := st.slabSegs + 1 }
    let r : Res AState :=
      match w with
      | .len => .ok st
      | .prefixWide => .ok st
      | .prefixU limit =>
        match v with
        | none => .ok st
        | some x =>
          if ¬ (x.toNat * count < limit) then .panic .narrowing       -- `value as u64 * count as u64`
          else if ¬ (st.pre + x.toNat * count < limit) then .panic .narrowing
          else .ok { st with pre := st.pre + x.toNat * count }
      | .delta _ _ =>
        match aggStep st.agg count v with
        | .ok a => .ok { st with agg := a }
        | .error e => .err e
    match r with
    | .ok st =>
      if st.slabSegs = 32 then
        .ok { st with closed := st.closed + st.slabLen, nslabs := st.nslabs + 1, slabLen := 0, slabSegs := 0,
                      pre := 0, preClosed := st.preClosed + st.pre, agg := {}, aggs := st.aggs ++ [st.agg] }
      else .ok st
    | o => o

def account {α} (w : Weight) (num : α → Int) : List (Item α) → AState → Res AState
  | [], st => .ok st
  | .head _ :: r, st => account w num r st
  | .litv v :: r, st =>
    match acctStep w st 1 (some (num v)) with
    | .ok st => account w num r st
    | o => o
  | .run n v :: r, st =>
    match acctStep w st n (some (num v)) with
    | .ok st => account w num r st
    | o => o
  | .null n :: r, st =>
    match acctStep w st n none with
    | .ok st => account w num r st
    | o => o

/-- `DeltaColumn::load_with`'s walk over the slab weights (`i128` running sum) -/
def domainCheck (lo hi : Int) : List Agg → Int → Bool
  | [], _ => true
  | w :: ws, running =>
    if w.len = 0 then domainCheck lo hi ws running
    else if running + w.minOff < lo ∨ running + w.maxOff > hi then false
    else domainCheck lo hi ws (running + w.total)

/-- `finalize_with` after the last segment: total length (`usize` sum), the `with_length` check,
    the delta domain check. -/
def finish (w : Weight) (expected : Option Nat) (st : AState) : Res Nat :=
  let total := st.closed + st.slabLen
  if ¬ (total < two64) then .panic .narrowing
  else
    match expected with
    | some n => if total ≠ n then .err .length else finishW total
    | none => finishW total
where
  finishW (total : Nat) : Res Nat :=
    match w with
    | .delta lo hi =>
      let aggs := if st.slabSegs > 0 then st.aggs ++ [st.agg] else st.aggs
      if domainCheck lo hi aggs 0 then .ok total else .err .value
    | .prefixU limit =>
      -- `Idx::from_weights`: the B-tree merges the slab weights with `+=` in the `u64` accumulator
      if ¬ (st.preClosed + st.pre < limit) then .panic .narrowing else .ok total
    | _ => .ok total

/-- `Column::load_with` for an RLE value type: the accepted segments (run form) or the failure, in
    the order the real loader meets them. -/
def rleLoad {α} [DecidableEq α] (c : ValCodec α) (nullable : Bool) (w : Weight) (num : α → Int)
    (expected : Option Nat) (bs : Bytes) : Res (List (Item α)) :=
  let (items, f) := parseAll c nullable bs
  match account w num items {} with
  | .panic p => .panic p
  | .err e => .err e
  | .ok st =>
    match f with
    | some (.err e) => .err e
    | some (.panic p) => .panic p
    | none =>
      match finish w expected st with
      | .ok _ => .ok items
      | .err e => .err e
      | .panic p => .panic p

/-- value-level view of `rleLoad` (used by the theorems; the driver keeps the run form so that
    columns with astronomically large counts need not be materialised) -/
def rleDecode {α} [DecidableEq α] (c : ValCodec α) (nullable : Bool) (w : Weight) (num : α → Int)
    (bs : Bytes) : Res (List (Option α)) :=
  match rleLoad c nullable w num none bs with
  | .ok items => .ok (expand items)
  | .err e => .err e
  | .panic p => .panic p

/-! ## delta columns: RLE over the differences of the non-null values -/

/-- `deltas_from` / `DeltaEncoderState::append`: nulls leave the running value where it is -/
def deltas : List (Option Int) → Int → List (Option Int)
  | [], _ => []
  | none :: r, abs => none :: deltas r abs
  | some v :: r, abs => some (v - abs) :: deltas r v

/-- `DeltaIter`: running sum of the deltas -/
def realise : List (Option Int) → Int → List (Option Int)
  | [], _ => []
  | none :: r, run => none :: realise r run
  | some d :: r, run => some (run + d) :: realise r (run + d)

def deltaEncode (xs : List (Option Int)) : Bytes := rleEncode cI64 (deltas xs 0)

def deltaDecode (nullable : Bool) (lo hi : Int) (bs : Bytes) : Res (List (Option Int)) :=
  match rleDecode cI64 nullable (.delta lo hi) id bs with
  | .ok ds => .ok (realise ds 0)
  | .err e => .err e
  | .panic p => .panic p

/-! ## boolean columns: alternating run lengths starting with `false` -/

/-- `BoolEncoder`: run lengths; a leading 0 when the first value is `true` -/
def boolRuns : List Bool → List Nat
  | [] => []
  | xs => let gs := groups xs
          match gs with
          | (_, true) :: _ => 0 :: gs.map (·.1)
          | _ => gs.map (·.1)

def boolEncode (xs : List Bool) : Bytes := ((boolRuns xs).map encU).flatten

structure BState where
  runIndex : Nat := 0
  slabItems : Nat := 0
  slabSegs : Nat := 0
  closed : Nat := 0

/-- `BoolLoadIter::{try_next_run, finalize}`: `checked` is the streaming path (`checked_add` →
    `BadFormat`, taken by weight functions that accumulate: `PrefixColumn<bool>`), otherwise the
    drain loop of `finalize` with its unchecked `slab_items += count` (plain `Column<bool>`).
    Result: run lengths in order (the first is for `false`). -/
def boolParse (checked : Bool) : Nat → Bytes → BState → Res (List Nat × BState)
  | 0, _, _ => .err .format
  | fuel+1, bs, st =>
    if bs.isEmpty then .ok ([], st)
    else
      match readU bs with
      | .error _ => .err .format                         -- `read_count(..).ok_or(BadFormat)`
      | .ok (count, rest) =>
        if count = 0 ∧ st.runIndex > 0 then .err .format
        else if rest.isEmpty ∧ count = 0 then .err .format
        else if ¬ (st.slabItems + count < two64) then (if checked then .err .format else .panic .narrowing)
        else
          let st := { st with runIndex := st.runIndex + 1, slabItems := st.slabItems + count, slabSegs := st.slabSegs + 1 }
          let st := if st.slabSegs ≥ 32 then { st with closed := st.closed + st.slabItems, slabItems := 0, slabSegs := 0 } else st
          match boolParse checked fuel rest st with
          | .ok (runs, st) => .ok (count :: runs, st)
          | o => o

def boolLoad (checked : Bool) (expected : Option Nat) (bs : Bytes) : Res (List Nat) :=
  match boolParse checked (bs.length + 1) bs {} with
  | .ok (runs, st) =>
    let total := st.closed + st.slabItems
    if ¬ (total < two64) then .panic .narrowing
    else match expected with
      | some n => if total ≠ n then .err .length else .ok runs
      | none => .ok runs
  | .err e => .err e
  | .panic p => .panic p

def expandBool : List Nat → Bool → List Bool
  | [], _ => []
  | n :: r, b => List.replicate n b ++ expandBool r (!b)

def boolDecode (checked : Bool) (bs : Bytes) : Res (List Bool) :=
  match boolLoad checked none bs with
  | .ok runs => .ok (expandBool runs false)
  | .err e => .err e
  | .panic p => .panic p

/-! ## raw columns: the bytes are the column -/

def rawEncode (xs : Bytes) : Bytes := xs
def rawDecode (bs : Bytes) : Res Bytes := .ok bs

end AmVerif.Hexane
