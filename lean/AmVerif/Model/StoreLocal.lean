import AmVerif.Model.Store
/-
  M4, local path: how a transaction puts its own ops into the op store and how `rollback` takes them
  out again (`transaction/inner.rs`: `local_map_op`, `local_list_op`, `do_insert`, `insert_local_op`,
  `inner_splice`, `rollback`; `op_set2/op_set.rs`: `splice`, `add_succ_with_undo`, `undo_op`,
  `undo_succ`, `Columns::remove_ops`).

  * position: a local op has the greatest id of the document, so the code does not search by id: an
    update goes to the END of its register (`query.end_pos`: behind the rows of the map key, resp.
    behind the block of the element), an insert right behind the block of its reference element
    (`InsertQuery`: the position of the first insert op behind the last visible element), an insert
    at HEAD to the start of the object.  `localPlaceRow` returns the new store AND the position
    (`TxOp.pos`), which `rollback` uses.
  * `add_succ_with_undo`: the predecessor rows are visited from the LAST to the first; a row named
    with `inc = None` loses `visible / text / top` (old values recorded); the first row that keeps
    its value (an incremented counter) behind which a row was deleted, with no surviving row above
    it, is exposed (`top := true`, `text := width`; old `text`, `top` recorded); every other
    surviving row records nothing.  The records are pushed in visiting order.
  * `rollback`: the ops of the transaction in reverse; for each op `undo_succ` walks its records in
    reverse (ascending position): remove the successor entry at its recorded index, restore the
    recorded index bits; then the op's row is removed at `TxOp.pos`.

  Abstractions: positions are found by scanning the rows (the code uses the index columns and binary
  search over sorted columns); the predecessor rows are found by id (the code keeps the positions of
  the rows its query returned, all of which lie in front of the new row); the scoped (isolated)
  transaction's `reset_top` and the object table (`obj_info`) are not modelled.
-/
namespace AmVerif.Crdt
open AmVerif

/-! ### position of a local op -/

/-- in front of the first row that satisfies `stop`, counting the rows passed -/
def scanIns (r : Row) (stop : Row → Bool) : Store → Store × Nat
  | [] => ([r], 0)
  | x :: xs =>
    if stop x then (r :: x :: xs, 0)
    else let p := scanIns r stop xs; (x :: p.1, p.2 + 1)

/-- behind the row `found`, then in front of the first row that satisfies `stop` -/
def seekScan (r : Row) (leave found stop : Row → Bool) : Store → Store × Nat
  | [] => ([r], 0)
  | x :: xs =>
    if leave x then (r :: x :: xs, 0)
    else if found x then let p := scanIns r stop xs; (x :: p.1, p.2 + 1)
    else let p := seekScan r leave found stop xs; (x :: p.1, p.2 + 1)

/-- `prop_range(obj, key).end`: the first row of the object with a greater key -/
def keyGt (k : Bytes) (x : Op) : Bool := match x.key with | .map a => bytesLt k a | _ => false

def localInObj (r : Row) : Store → Store × Nat :=
  match r.op.key with
  | .map k => scanIns r (fun x => x.op.obj != r.op.obj || keyGt k x.op)
  | .head =>
    if r.op.insert then (fun s => (r :: s, 0)) else scanIns r (fun x => x.op.obj != r.op.obj)
  | .elem e =>
    seekScan r (fun x => x.op.obj != r.op.obj) (fun x => x.op.insert && x.op.id == e)
      (fun x => x.op.obj != r.op.obj || x.op.insert)

def localPlaceRow (r : Row) : Store → Store × Nat
  | [] => ([r], 0)
  | x :: xs =>
    if x.op.obj.lt r.op.obj then let p := localPlaceRow r xs; (x :: p.1, p.2 + 1)
    else localInObj r (x :: xs)

/-! ### `add_succ_with_undo` -/

/-- `SuccUndo` -/
structure SuccUndo where
  /-- position of the row (`SuccInsert.pos`) -/
  pos : Nat
  /-- index of the new entry in the row's successor list (`SuccInsert.sub_pos`, relative to the row) -/
  subIdx : Nat
  vis : Option Bool
  text : Option (Option Nat)
  top : Option Bool
  deriving DecidableEq, Repr, Inhabited

structure AddSt where
  delete : Bool := false
  expose : Bool := false
  survivor : Bool := false
  deriving DecidableEq, Repr, Inhabited

/-- index at which `Op::add_succ` puts the new successor: behind the entries with an id not greater -/
def succIdx (id : OpId) : List (OpId × Option Int) → Nat
  | [] => 0
  | x :: xs => if id.lt x.1 then 0 else succIdx id xs + 1

/-- one predecessor row: (new row, new state, undo record) -/
def addSuccRow (w : Op → Nat) (N : Op) (pos : Nat) (st : AddSt) (x : Row) : Row × AddSt × SuccUndo :=
  let inc := incFor N x.op
  let k := succIdx N.id x.succ
  let x1 : Row := { x with succ := insertSucc N.id inc x.succ }
  if inc.isNone then
    ({ x1 with vis := false, top := false, width := none }, { st with delete := true },
      ⟨pos, k, some x.vis, some x.width, some x.top⟩)
  else if st.delete && !st.expose && !st.survivor then
    ({ x1 with top := true, width := some (w x.op) }, { st with expose := true },
      ⟨pos, k, none, some x.width, some x.top⟩)
  else (x1, { st with survivor := true }, ⟨pos, k, none, none, none⟩)

/-- the rows named in `N.pred`, from the last row to the first; `pos` = position of the head of the
    list; the undo records in visiting order -/
def addSuccRev (w : Op → Nat) (N : Op) : Nat → Store → Store × AddSt × List SuccUndo
  | _, [] => ([], {}, [])
  | pos, x :: xs =>
    let t := addSuccRev w N (pos + 1) xs
    if N.pred.contains x.op.id then
      let u := addSuccRow w N pos t.2.1 x
      (u.1 :: t.1, u.2.1, t.2.2 ++ [u.2.2])
    else (x :: t.1, t.2.1, t.2.2)

/-- the undo record of one op of the transaction (`TxOp.pos`, `TxOp.undo`) -/
structure LocalUndo where
  /-- where the row was put; `none` for a delete (nothing is stored) -/
  rowPos : Option Nat
  succs : List SuccUndo
  deriving DecidableEq, Repr, Inhabited

/-- the row `Columns::splice` writes for a `TxOp`: visible and `top` unless an increment -/
def localRow (w : Op → Nat) (N : Op) : Row :=
  ⟨N, [], !N.isInc, !N.isInc, if !N.isInc then some (w N) else none⟩

/-- **one local op**: `splice` the row (not for a delete), then `add_succ_with_undo` -/
def insertLocal (w : Op → Nat) (s : Store) (N : Op) : Store × LocalUndo :=
  if N.isDel then
    let t := addSuccRev w N 0 s
    (t.1, ⟨none, t.2.2⟩)
  else
    let p := localPlaceRow (localRow w N) s
    let t := addSuccRev w N 0 p.1
    (t.1, ⟨some p.2, t.2.2⟩)

/-- the ops of one transaction, the undo records in op order -/
def insertLocalAll (w : Op → Nat) : Store → List Op → Store × List LocalUndo
  | s, [] => (s, [])
  | s, N :: Ns =>
    let a := insertLocal w s N
    let b := insertLocalAll w a.1 Ns
    (b.1, a.2 :: b.2)

/-! ### `rollback` -/

def modifyNth {α : Type} (f : α → α) : Nat → List α → List α
  | _, [] => []
  | 0, x :: xs => f x :: xs
  | n + 1, x :: xs => x :: modifyNth f n xs

/-- `undo_succ` for one record: remove the successor entry, restore the recorded index bits -/
def undoSuccRow (u : SuccUndo) (x : Row) : Row :=
  { x with
    succ := x.succ.eraseIdx u.subIdx
    vis := u.vis.getD x.vis
    width := u.text.getD x.width
    top := u.top.getD x.top }

/-- `undo_succ`: the records in reverse -/
def undoSuccs (us : List SuccUndo) (s : Store) : Store :=
  us.reverse.foldl (fun acc u => modifyNth (undoSuccRow u) u.pos acc) s

/-- `OpSet::undo_op` -/
def undoOp (u : LocalUndo) (s : Store) : Store :=
  let s1 := undoSuccs u.succs s
  match u.rowPos with
  | some p => s1.eraseIdx p
  | none => s1

/-- `TransactionInner::rollback`: the ops in reverse -/
def undoAll (us : List LocalUndo) (s : Store) : Store := us.reverse.foldl (fun acc u => undoOp u acc) s

/-! ### the hypotheses of `C03_store_local_eq_remote`, as executable checks (sound: `Proofs/StoreLocalFinal`) -/

/-- the visible rows of the register of `N`, in store order -/
def visReg (s : Store) (N : Op) : Store := (regRows s N.obj N.regKey).filter (·.isVisible)

def prefixNamedB (N : Op) : Store → Bool
  | [] => true
  | x :: xs => xs.all (fun y => !N.pred.contains y.op.id || N.pred.contains x.op.id) && prefixNamedB N xs

/-- `LocalPreds`: the predecessors are visible rows of the op's register, the named ones come first
    among the visible rows, and all visible rows are named unless the op is a delete -/
def localPredsB (s : Store) (N : Op) : Bool :=
  s.all (fun y => !N.pred.contains y.op.id ||
    ((y.op.obj == N.obj && y.op.regKey == N.regKey) && y.isVisible)) &&
  prefixNamedB N (visReg s N) &&
  (N.isDel || (visReg s N).all (fun y => N.pred.contains y.op.id))

/-- every op of a transaction has the greatest id so far and names the visible rows of its register -/
def localTxOkB (w : Op → Nat) : Store → List Op → Bool
  | _, [] => true
  | s, N :: Ns => s.all (fun y => y.op.id.lt N.id) && localPredsB s N && localTxOkB w (insertRemote w s N) Ns

end AmVerif.Crdt
