import AmVerif.Model.Sync
/-
  M8 (network part): n peers, one `State` per ordered pair, one FIFO queue per direction, and the
  schedule steps of the `sync` correspondence engine:
    edit | merge | apply-one (out-of-band) | generate | deliver | drop-link |
    reconnect(fresh | persisted | read-only) | set_read_only | lose-data | quiesce.
  "Persisted" is literally `State::decode (State::encode s)`.
-/
namespace AmVerif.Sync

/-- how a peer comes back on a (re)connected link -/
inductive Conn where
  | fresh       -- `State::new()`
  | persisted   -- `State::decode(&old.encode())`
  | readOnly    -- `State::new_read_only()`
  deriving DecidableEq, Repr

structure Net where
  n : Nat
  docs : Nat → Doc
  /-- `st a b`: the state peer `a` keeps for peer `b` -/
  st : Nat → Nat → State
  /-- `link a b`: messages sent by `a`, not yet received by `b` (oldest first) -/
  link : Nat → Nat → List Message
  /-- connected (symmetric) -/
  up : Nat → Nat → Bool
  /-- old-protocol link: the flags section is stripped from every message in transit -/
  legacy : Nat → Nat → Bool
  /-- every change ever made (for out-of-band application of a single change) -/
  known : List Change
  /-- hashes the Bloom-filter hook reports as present -/
  fpSet : List Hash

namespace Net

def init (n : Nat) : Net :=
  { n := n, docs := fun _ => Doc.empty, st := fun _ _ => State.new, link := fun _ _ => [],
    up := fun _ _ => false, legacy := fun _ _ => false, known := [], fpSet := [] }

def fp (net : Net) : Hash → Bool := fun h => net.fpSet.contains h

def setDoc (net : Net) (p : Nat) (d : Doc) : Net :=
  { net with docs := fun q => if q = p then d else net.docs q }

def setSt (net : Net) (a b : Nat) (s : State) : Net :=
  { net with st := fun x y => if x = a ∧ y = b then s else net.st x y }

def setLink (net : Net) (a b : Nat) (l : List Message) : Net :=
  { net with link := fun x y => if x = a ∧ y = b then l else net.link x y }

def setUp (net : Net) (a b : Nat) (v : Bool) : Net :=
  { net with up := fun x y => if (x = a ∧ y = b) ∨ (x = b ∧ y = a) then v else net.up x y }

def setLegacy (net : Net) (a b : Nat) (v : Bool) : Net :=
  { net with legacy := fun x y => if (x = a ∧ y = b) ∨ (x = b ∧ y = a) then v else net.legacy x y }

/-- local edit at `p` producing change `c` (its deps are the heads of `p`, by construction of the
    real change) -/
def edit (net : Net) (p : Nat) (c : Change) (isFp : Bool) : Net :=
  let net := net.setDoc p ((net.docs p).applyLocal c)
  { net with known := c :: net.known, fpSet := if isFp then c.hash :: net.fpSet else net.fpSet }

/-- `a.merge(b)`: `a` applies every change of `b` (out of band) -/
def merge (net : Net) (a b : Nat) : Net :=
  net.setDoc a ((net.docs a).applyChanges (net.docs b).applied.reverse)

/-- `p.apply_changes([c])` for one change of the known (out of band; may be an orphan) -/
def applyOne (net : Net) (p : Nat) (h : Hash) : Net :=
  match net.known.find? (fun c => c.hash == h) with
  | some c => net.setDoc p ((net.docs p).applyChanges [c])
  | none => net

def transit (net : Net) (a b : Nat) (m : Message) : Message :=
  if net.legacy a b then { m with flags := none } else m

/-- `a.generate_sync_message(st a b)`; a produced message is appended to `link a b` -/
def gen (net : Net) (a b : Nat) : Net × Option Message :=
  let r := generate net.fp (net.docs a) (net.st a b)
  let net := net.setSt a b r.1
  match r.2 with
  | some m =>
    let m := net.transit a b m
    (net.setLink a b (net.link a b ++ [m]), some m)
  | none => (net, none)

/-- `b.receive_sync_message(st b a, m)` for the oldest message of `link a b` -/
def deliver (net : Net) (a b : Nat) : Net × Option Message :=
  match net.link a b with
  | [] => (net, none)
  | m :: rest =>
    let r := receive (net.docs b) (net.st b a) m
    (((net.setLink a b rest).setDoc b r.1).setSt b a r.2, some m)

/-- the connection drops: messages in flight in both directions are lost -/
def dropLink (net : Net) (a b : Nat) : Net :=
  ((net.setLink a b []).setLink b a []).setUp a b false

def reconnState (old : State) : Conn → State
  | .fresh => State.new
  | .readOnly => State.newReadOnly
  | .persisted =>
    match State.decode old.encode with
    | .ok s => s
    | .error _ => State.new

/-- (re)connect `a` and `b` with empty queues -/
def connect (net : Net) (a b : Nat) (ca cb : Conn) (leg : Bool) : Net :=
  let net := (net.setLink a b []).setLink b a []
  let net := (net.setSt a b (reconnState (net.st a b) ca)).setSt b a (reconnState (net.st b a) cb)
  (net.setUp a b true).setLegacy a b leg

def setReadOnly (net : Net) (a b : Nat) (ro : Bool) : Net :=
  net.setSt a b ((net.st a b).setReadOnly ro)

def dropAllFrom (net : Net) (p : Nat) : Nat → Net
  | 0 => net
  | q + 1 => dropAllFrom (if q = p then net else net.dropLink p q) p q

/-- `p` loses its document (restarts from nothing); all its connections drop; sync states on both
    sides are kept and can come back as persisted states -/
def loseData (net : Net) (p : Nat) : Net :=
  (dropAllFrom net p net.n).setDoc p Doc.empty

/-- all ordered pairs of distinct peers, lexicographically -/
def pairs (n : Nat) : List (Nat × Nat) :=
  (List.range n).flatMap (fun a => ((List.range n).filter (· ≠ a)).map (fun b => (a, b)))

inductive Event where
  | generated (a b : Nat) (m : Option Message) (s : State)
  | delivered (a b : Nat) (m : Message) (d : Doc) (s : State)

/-- deliver everything queued on `a → b` -/
def deliverAll (a b : Nat) : Nat → Net → List Event → Net × List Event
  | 0, net, evs => (net, evs)
  | k + 1, net, evs =>
    match net.deliver a b with
    | (net', some m) => deliverAll a b k net' (evs ++ [Event.delivered a b m (net'.docs b) (net'.st b a)])
    | (_, none) => (net, evs)

/-- one quiesce round: for every connected ordered pair in order, generate then deliver
    everything queued in that direction; returns whether any message was generated or delivered -/
def quiesceRound : List (Nat × Nat) → Net → List Event → Bool → Net × List Event × Bool
  | [], net, evs, busy => (net, evs, busy)
  | (a, b) :: ps, net, evs, busy =>
    if net.up a b then
      let (net1, m) := net.gen a b
      let evs1 := evs ++ [Event.generated a b m (net1.st a b)]
      let queued := (net1.link a b).length
      let (net2, evs2) := deliverAll a b queued net1 evs1
      quiesceRound ps net2 evs2 (busy || m.isSome || queued != 0)
    else quiesceRound ps net evs busy

/-- rounds until a round in which nothing is generated or delivered, at most `bound` rounds;
    returns the number of rounds run and whether the quiet round was reached -/
def quiesce : Nat → Nat → Net → List Event → Net × List Event × Nat × Bool
  | 0, used, net, evs => (net, evs, used, false)
  | k + 1, used, net, evs =>
    let (net', evs', busy) := quiesceRound (pairs net.n) net evs false
    if busy then quiesce k (used + 1) net' evs' else (net', evs', used + 1, true)

end Net
end AmVerif.Sync
