import AmVerif.Model.HexaneCodec
/-
  M11 at the observable level: a hexane column is its list of values.  Slab layout, the B-tree /
  Fenwick index and the byte surgery of `rle/splice.rs` are NOT modelled; what the model shares
  with the code is every query result and the `save()` bytes (`encode` of the value list — a
  function of the values, hence insensitive to the edit history by construction).

  The "cached accumulator" forms of the derived queries (`indexForPrefixRuns`: run-at-a-time with
  the ceiling division of `prefix.rs::find_prefix_in_slab`; `findPruned`: chunk-at-a-time with the
  min/max pruning of `btree.rs::find_by_value_range` + `delta/indexed.rs::SlabScan`) are defined
  next to their list definitions; `AmVerif.Props.C34` proves them equal.
-/
namespace AmVerif.Hexane
open AmVerif

variable {β : Type}

/-! ## edits (`Column::{splice, insert, remove, push, truncate, clear}`) -/

/-- `splice_inner` asserts `index + del <= len` (documented panic) -/
def splice (xs : List β) (i del : Nat) (ins : List β) : Res (List β) :=
  if i + del ≤ xs.length then .ok (xs.take i ++ ins ++ xs.drop (i + del)) else .panic .assertFailed

def insert (xs : List β) (i : Nat) (v : β) : Res (List β) := splice xs i 0 [v]
def remove (xs : List β) (i : Nat) : Res (List β) := if i < xs.length then splice xs i 1 [] else .ok xs
def push (xs : List β) (v : β) : Res (List β) := splice xs xs.length 0 [v]
def truncate (xs : List β) (n : Nat) : Res (List β) :=
  if n < xs.length then splice xs n (xs.length - n) [] else .ok xs
def clear (xs : List β) : Res (List β) := if xs.length > 0 then splice xs 0 xs.length [] else .ok xs

/-! ## reads -/

def get (xs : List β) (i : Nat) : Option β := xs[i]?

/-- `iter_range(a..b)`: both ends clamped to the length -/
def range (xs : List β) (a b : Nat) : List β := (xs.drop a).take (b - a)

/-- `iter().runs()`, merged to maximal runs -/
def runsOf [DecidableEq β] (xs : List β) : List (Nat × β) := groups xs

def expandRuns : List (Nat × β) → List β
  | [] => []
  | (n, v) :: r => List.replicate n v ++ expandRuns r

/-! ## prefix sums (`PrefixColumn`) -/

/-- `get_prefix(i)`: exclusive prefix sum, `i` clamped to the length -/
def getPrefix (wt : β → Int) (xs : List β) (i : Nat) : Int := ((xs.take i).map wt).sum

/-- `sum_range(a..b)` -/
def sumRange (wt : β → Int) (xs : List β) (a b : Nat) : Int :=
  if a ≥ b ∨ xs.isEmpty then 0 else getPrefix wt xs b - getPrefix wt xs a

/-- list definition of `get_index_for_prefix` for unsigned weights: the first `i` whose exclusive
    prefix reaches `target`; `len + 1` when the grand total does not reach it -/
def indexForPrefixLoop (wt : β → Nat) : List β → (acc target idx : Nat) → Nat
  | [], _, _, idx => idx + 1
  | x :: r, acc, target, idx =>
    if acc + wt x ≥ target then idx + 1 else indexForPrefixLoop wt r (acc + wt x) target (idx + 1)

def indexForPrefix (wt : β → Nat) (xs : List β) (target : Nat) : Nat :=
  if target = 0 then 0 else indexForPrefixLoop wt xs 0 target 0

/-- `get_index_for_total` -/
def indexForTotal (wt : β → Nat) (xs : List β) (target : Nat) : Nat := indexForPrefix wt xs target - 1

/-- run-at-a-time form (`find_slab_at_prefix` + `find_prefix_in_slab`): whole runs are skipped by
    their cached contribution `p * count`; inside the run that reaches the target the position is
    the ceiling division `(remaining + p - 1) / p`. -/
def indexForPrefixRuns (wt : β → Nat) : List (Nat × β) → (acc target items : Nat) → Nat
  | [], _, _, items => items + 1
  | (cnt, v) :: r, acc, target, items =>
    if acc + wt v * cnt ≥ target then items + (target - acc + wt v - 1) / wt v
    else indexForPrefixRuns wt r (acc + wt v * cnt) target (items + cnt)

/-! ## find by value -/

def findIdx (p : β → Bool) : List β → Nat → List Nat
  | [], _ => []
  | x :: r, i => if p x then i :: findIdx p r (i + 1) else findIdx p r (i + 1)

/-- all positions of `v` (`Iter::scan_to_value` repeated) -/
def findAll [DecidableEq β] (xs : List β) (v : β) : List Nat := findIdx (fun x => decide (x = v)) xs 0

/-- `DeltaColumn::find_by_range(lo..hi)`: realised values in the half-open range; nulls never match -/
def findRange (xs : List (Option Int)) (lo hi : Int) : List Nat :=
  if hi > lo then findIdx (fun x => match x with | some v => decide (lo ≤ v ∧ v < hi) | none => false) xs 0 else []

/-- `DeltaColumn::find_by_value(target)` = `find_by_range(v..v + 1)`; `v + 1` overflows for
    `v = i64::MAX` (finding: debug builds panic, release builds wrap and report nothing) -/
def deltaFind (xs : List (Option Int)) (target : Option Int) : Res (List Nat) :=
  match target with
  | none => .ok []
  | some v => if v + 1 < (two63 : Int) then .ok (findRange xs v (v + 1)) else .panic .narrowing

/-- min / max of the non-null values of a chunk (`SlabAgg.{min,max}_offset`, as absolute values) -/
def chunkMinMax : List (Option Int) → Option (Int × Int)
  | [] => none
  | none :: r => chunkMinMax r
  | some v :: r => match chunkMinMax r with
    | none => some (v, v)
    | some (lo, hi) => some (min v lo, max v hi)

/-- chunk-at-a-time search with min/max pruning: a chunk whose value range misses `[lo, hi)` is
    skipped without being scanned -/
def findPruned : List (List (Option Int)) → (lo hi : Int) → Nat → List Nat
  | [], _, _, _ => []
  | c :: cs, lo, hi, base =>
    let here := match chunkMinMax c with
      | none => []
      | some (mn, mx) =>
        if mx < lo ∨ hi ≤ mn then []
        else findIdx (fun x => match x with | some v => decide (lo ≤ v ∧ v < hi) | none => false) c base
    here ++ findPruned cs lo hi (base + c.length)

end AmVerif.Hexane
