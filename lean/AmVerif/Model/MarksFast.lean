import AmVerif.Model.Marks
/-
  M6, second half: the INDEXED read `OpSet::calculate_marks_fast` (op_set2/op_set.rs), which is what a
  present-time `marks()` of a text object executes (`Automerge::calculate_marks`: `clock.is_none() &&
  seq_type == Text`); `marksOf` (Model/Marks) is the walk `calculate_marks_slow` used for clock-scoped
  reads and list objects.

  What the fast path reads:
  * the MARK INDEX column — one entry per op: `Start(id)` for a mark-begin op, `End(id.prev())` for a mark-end
    op, nothing otherwise (`OpBuilder::mark_index`, pushed for EVERY op by `IndexBuilder::process_op` /
    `MarkIndexColumn::extend`, whether the op is visible or not);
  * the TEXT INDEX column — `Some(width)` for the top (winning visible) op of an element, else nothing; the
    position of a boundary is the prefix sum of these widths.
  So, in document order: every mark op of the object (`itemsAll` — `items` of Model/Marks drops the overwritten
  ones, as `TopOps` does), and the elements with their winning op.

  `RichTextQueryState.map` is a hash map id ↦ mark data: an association list here; `from_query_state` folds
  `mark_begin` over its entries in hash order — list order here (the result does not depend on the order:
  `Proofs/MarksFullFast`, `fromQueryState_eq`).
-/
namespace AmVerif.Crdt
open AmVerif

/-- what the mark index and the text index hold for a sequence object, in document order -/
def itemsAll (ops : List Op) (obj : ObjId) : List Item :=
  (rgaOrder ops obj).filterMap (fun e =>
    match e.action with
    | .markBegin n v _ => some (.mbegin e.id ⟨n, v⟩)
    | .markEnd _ => some (.mend e.id)
    | _ => (elemRegOps ops obj e.id).getLast?.map (.elem e.id))

/-- `RichTextQueryState.map` -/
abbrev QState := List (OpId × MarkData)

/-- `HashMap::insert` (an existing entry of that id is replaced) -/
def QState.insert (s : QState) (id : OpId) (d : MarkData) : QState := s.filter (fun p => p.1 != id) ++ [(id, d)]

/-- `HashMap::remove` -/
def QState.remove (s : QState) (id : OpId) : QState := s.filter (fun p => p.1 != id)

/-- `MarkSet::from_query_state`: a state machine fed with the active marks; no marks, or only unmark
    tombstones ⇒ `None` -/
def fromQueryState (s : QState) : Option MarkSet :=
  let m := s.foldl (fun (m : Msm) p => m.markBegin p.1 p.2) {}
  match m.cur with
  | none => none
  | some c => if c.withoutUnmarks.isEmpty then none else some c.withoutUnmarks

structure FastWalk where
  state : QState := []
  /-- the open segment: where it starts, and its marks -/
  seg : Option (Nat × MarkSet) := none
  acc : MarkAcc := []
  /-- units before the current row (prefix sum of the text index) -/
  seq : Nat := 0

/-- `acc.add(start, seq - start, &set)` for the segment that ends at `seq`, if it has positive width -/
def FastWalk.closeSeg (w : FastWalk) : MarkAcc :=
  match w.seg with
  | some (start, set) => if w.seq > start then w.acc.add start (w.seq - start) set else w.acc
  | none => w.acc

/-- one boundary of the mark index: close the open segment, apply the boundary to the query state, open a new
    segment if any mark is active -/
def FastWalk.boundary (w : FastWalk) (f : QState → QState) : FastWalk :=
  { w with acc := w.closeSeg, state := f w.state,
           seg := (fromQueryState (f w.state)).map (fun set => (w.seq, set)) }

def FastWalk.step (wf : Op → Nat) (w : FastWalk) : Item → FastWalk
  | .mbegin id d => w.boundary (fun s => s.insert id d)
  | .mend id => w.boundary (fun s => s.remove id.prev)
  | .elem _ top => { w with seq := w.seq + wf top }

/-- `calculate_marks_fast` over the rows of the two indexes -/
def fastMarks (wf : Op → Nat) (its : List Item) : List Mark :=
  ((its.foldl (FastWalk.step wf) {}).closeSeg).toMarks

/-- present-time `marks()` of a text object -/
def marksOfFast (wf : Op → Nat) (ops : List Op) (obj : ObjId) : List Mark :=
  fastMarks wf (itemsAll ops obj)

end AmVerif.Crdt
