import AmVerif.Model.Myers
/-
  C27 model, part 2: `update_text` = `text_diff::myers_diff` + the `TxHook` of `text_diff.rs`, on top
  of a width-indexed model of a text object.

  * A text object is the list of its visible elements (`Elem`): the string value of the element and
    its width in the document's text encoding (`OpBuilder::width`).  `splice_text` creates one
    element per code point (one per grapheme cluster under `TextEncoding::GraphemeCluster`),
    `BatchInsertion::splice_text`.
  * `spliceText` is `TransactionInner::inner_splice` for text: the insertion point is the first
    element boundary at or after `index` (`InsertQuery::resolve`: an index inside an element resolves
    to the position after it), `InvalidIndex` beyond the end; deletion removes whole elements
    starting at the first boundary at or after `index + inserted_width` while `deleted < del`.
  * `hookStep` is `TxHook::{equal,delete,insert,replace}`: `idx` arithmetic in width units.
  * Grapheme segmentation (`unicode_segmentation`) is NOT modelled: both texts arrive segmented
    (`Piece` = one grapheme cluster).  For the three code-unit encodings every width is computed
    from the UTF-8 bytes.  For `GraphemeCluster` the width of a concatenation of pieces is taken to
    be the number of pieces and `splice_text` is taken to create one element per piece (i.e.
    re-segmenting a run of clusters cut out of a segmented string gives the same clusters) — an
    explicit assumption about the external segmentation, see DESIGN §7.
-/
namespace AmVerif.UpdateText
open AmVerif AmVerif.Myers

inductive Enc where
  | cp | utf8 | utf16 | gc
  deriving DecidableEq, Repr, Inhabited

abbrev Piece := Bytes

/-- UTF-8 continuation byte `10xxxxxx` -/
def isCont (b : UInt8) : Bool := b &&& 0xC0 == 0x80

/-- `s.chars().count()` of valid UTF-8: the bytes that are not continuation bytes -/
def widthCp (s : Bytes) : Nat := (s.filter (fun b => !isCont b)).length

/-- `s.encode_utf16().count()`: one unit per code point plus one more for each 4-byte sequence
    (lead byte `11110xxx`) -/
def widthUtf16 (s : Bytes) : Nat := widthCp s + (s.filter (fun b => decide (b ≥ 0xF0))).length

/-- `TextEncoding::width` for the three code-unit encodings (`gc` is not computable here) -/
def unitWidth : Enc → Bytes → Nat
  | .cp, s => widthCp s
  | .utf8, s => s.length
  | .utf16, s => widthUtf16 s
  | .gc, _ => 1

/-- one visible element of the text object -/
structure Elem where
  s : Bytes
  w : Nat
  deriving DecidableEq, Repr, Inhabited

/-- split UTF-8 bytes into code points: a new chunk starts at every non-continuation byte -/
def splitChars : Bytes → List Bytes
  | [] => []
  | b :: rest =>
    match splitChars rest with
    | [] => [[b]]
    | c :: cs =>
      match rest with
      | [] => [[b]]
      | r :: _ => if isCont r then (b :: c) :: cs else [b] :: c :: cs

/-- the elements `BatchInsertion::splice_text` creates for the concatenation of `pieces` -/
def elemsOf (enc : Enc) (pieces : List Piece) : List Elem :=
  match enc with
  | .gc => pieces.map fun p => ⟨p, 1⟩
  | e => (splitChars pieces.flatten).map fun c => ⟨c, unitWidth e c⟩

/-- `text_encoding.width(&pieces.concat())` -/
def strWidth (enc : Enc) (pieces : List Piece) : Nat :=
  match enc with
  | .gc => pieces.length
  | e => unitWidth e pieces.flatten

/-- `text_encoding.width(piece)` of one grapheme cluster -/
def pieceWidth (enc : Enc) (p : Piece) : Nat := unitWidth enc p

def sumW (es : List Elem) : Nat := (es.map (·.w)).sum
def sumP (enc : Enc) (ps : List Piece) : Nat := (ps.map (pieceWidth enc)).sum
def textOf (es : List Elem) : Bytes := (es.map (·.s)).flatten

/-- split at the first element boundary at or after width index `idx`;
    returns (before, after, width of before) -/
def splitAtW : List Elem → Nat → List Elem × List Elem × Nat
  | [], _ => ([], [], 0)
  | e :: es, idx =>
    if idx = 0 then ([], e :: es, 0)
    else
      let (a, b, k) := splitAtW es (idx - e.w)
      (e :: a, b, e.w + k)

/-- the delete loop of `inner_splice`: remove whole elements while `deleted < del`;
    returns (rest, deleted width, deleted elements) -/
def deleteW : List Elem → Nat → List Elem × Nat × Nat
  | es, 0 => (es, 0, 0)
  | [], _ => ([], 0, 0)
  | e :: es, del =>
    let (r, d, n) := deleteW es (del - e.w)
    (r, e.w + d, n + 1)

/-- a logged patch event of the text object (`PatchLog::splice` / `PatchLog::delete_seq`) -/
inductive Ed where
  | ins (idx : Nat) (s : Bytes) (w : Nat)
  | del (idx : Nat) (n : Nat)
  deriving DecidableEq, Repr

inductive Err where
  | invalidIndex          -- `AutomergeError::InvalidIndex`
  | hookSlice             -- `self.old[i..i+len]` / `self.new[..]` out of range (slice panic)
  deriving DecidableEq, Repr

structure St where
  idx : Nat                 -- `TxHook::idx`
  els : List Elem
  log : List Ed := []       -- newest first
  nIns : Nat := 0           -- insert ops created
  nDel : Nat := 0           -- delete ops created
  deriving Repr

/-- `tx.splice_text(doc, patch_log, obj, st.idx, del, pieces.concat())` -/
def spliceText (enc : Enc) (st : St) (del : Nat) (pieces : List Piece) : Except Err St :=
  if pieces.flatten.isEmpty then
    let (a, b, pos) := splitAtW st.els st.idx
    let (b', deleted, n) := deleteW b del
    .ok { st with els := a ++ b', nDel := st.nDel + n,
                  log := if deleted > 0 then .del pos deleted :: st.log else st.log }
  else if st.idx > sumW st.els then .error .invalidIndex
  else
    let ins := elemsOf enc pieces
    let (a, b, pos) := splitAtW st.els st.idx
    let (b', deleted, n) := deleteW b del
    let log := Ed.ins pos pieces.flatten (strWidth enc pieces) :: st.log
    .ok { st with els := a ++ ins ++ b', nIns := st.nIns + ins.length, nDel := st.nDel + n,
                  log := if deleted > 0 then .del (pos + sumW ins) deleted :: log else log }

/-- `&xs[i..i+n]` -/
def slice {α : Type} (xs : List α) (i n : Nat) : Except Err (List α) :=
  if i + n ≤ xs.length then .ok ((xs.drop i).take n) else .error .hookSlice

/-- one call of the `TxHook` -/
def hookStep (enc : Enc) (old new : List Piece) (st : St) : Hook → Except Err St
  | .equal oi _ len => do
    let ps ← slice old oi len
    pure { st with idx := st.idx + sumP enc ps }
  | .delete oi len _ => do
    let ps ← slice old oi len
    spliceText enc st (sumP enc ps) []
  | .insert _ ni len => do
    let ps ← slice new ni len
    let st ← spliceText enc st 0 ps
    pure { st with idx := st.idx + strWidth enc ps }
  | .replace oi ol ni nl => do
    let ps ← slice new ni nl
    let os ← slice old oi ol
    let st ← spliceText enc st (sumP enc os) ps
    pure { st with idx := st.idx + strWidth enc ps }

def runHooks (enc : Enc) (old new : List Piece) : St → List Hook → Except Err St
  | st, [] => .ok st
  | st, h :: hs =>
    match hookStep enc old new st h with
    | .ok st' => runHooks enc old new st' hs
    | .error e => .error e

/-- outcome of `update_text` -/
inductive Outcome where
  | ok (st : St)
  | err (e : Err)
  | invalidSplit
  | outOfFuel
  | panic (p : PanicSite)
  deriving Repr

/-- `update_text(obj, new)` on a text object with elements `els` whose text segments into the
    grapheme clusters `old`; `new` is the segmented target. -/
def updateText (enc : Enc) (els : List Elem) (old new : List Piece) : Outcome :=
  match diff old new with
  | .ok script =>
    match runHooks enc old new { idx := 0, els := els } script with
    | .ok st => .ok st
    | .error e => .err e
  | .invalidSplit => .invalidSplit
  | .outOfFuel => .outOfFuel
  | .panic p => .panic p

end AmVerif.UpdateText
