import AmVerif.Model.TextWidth
/-
  M6: marks (marks.rs, op_set/marks.rs, op_set/insert.rs, automerge.rs `calculate_marks_slow`,
  `get_marks_for`, iter/spans.rs, transaction/inner.rs `mark`).

  * rows of an object in op-store order (every insert op — marks are zero-width inserts — followed by
    the non-insert ops of its element, ascending id; delete ops are not rows);
  * `Msm`: the `MarkStateMachine` (sorted `state` + cached `current`), transcribed;
  * the three reads `marksOf` (`marks()`), `getMarksAt` (`get_marks(i)`), `spansOf` (`spans()`), all
    over the same item walk (`TopOps::marks()`);
  * `insertQuery`: `InsertQuery::resolve` transcribed literally (candidate stack, sticky marks),
    which is where the expand flags act; `localMark`: the ops a `mark`/`unmark` call appends —
    including the begin op it leaves behind when resolving the end fails (D5);
  * mark-aware `insert` / `splice_text`.
-/
namespace AmVerif.Crdt
open AmVerif

/-! ### rows -/

/-- non-insert rows of element `e` (updates and increments; deletes live in `succ` only), ascending id -/
def updateRows (ops : List Op) (obj : ObjId) (e : OpId) : List Op :=
  sortById (ops.filter (fun o => o.obj == obj && !o.insert && o.key == .elem e && !o.isDel))

/-- the rows of a sequence object in op-store order -/
def objRows (ops : List Op) (obj : ObjId) : List Op :=
  (rgaOrder ops obj).flatMap (fun e => e :: updateRows ops obj e.id)

/-- `Op::scope_to_clock(None)`: not superseded (increments of a counter do not supersede it) -/
def rowVisible (ops : List Op) (o : Op) : Bool := !o.isInc && !overwritten ops o

/-! ### the mark state machine (marks.rs) -/

structure MarkData where
  name : Bytes
  value : Scalar
  deriving DecidableEq, Repr, Inhabited

/-- `BTreeMap<SmolStr, ScalarValue>` as an association list in key order -/
abbrev MarkSet := List (Bytes × Scalar)

def MarkSet.insert (k : Bytes) (v : Scalar) : MarkSet → MarkSet
  | [] => [(k, v)]
  | (k', v') :: rest =>
    if k == k' then (k, v) :: rest
    else if bytesLt k k' then (k, v) :: (k', v') :: rest
    else (k', v') :: MarkSet.insert k v rest

def MarkSet.remove (k : Bytes) (m : MarkSet) : MarkSet := m.filter (fun p => p.1 != k)

def MarkSet.lookup (k : Bytes) : MarkSet → Option Scalar
  | [] => none
  | (k', v) :: rest => if k' == k then some v else MarkSet.lookup k rest

/-- `without_unmarks` -/
def MarkSet.withoutUnmarks (m : MarkSet) : MarkSet := m.filter (fun p => p.2 != .null)

structure Msm where
  /-- active marks, ascending id -/
  state : List (OpId × MarkData) := []
  /-- cached value per name -/
  current : MarkSet := []
  deriving Repr, Inhabited

/-- `binary_search_by(id)` on the sorted `state`: `ok index` if present, else `error insertion-index`.
    (On a list sorted by distinct ids the binary search returns exactly the first position whose id is
    not smaller.) -/
def Msm.find (state : List (OpId × MarkData)) (id : OpId) : Except Nat Nat :=
  let index := (state.takeWhile (fun p => p.1.lt id)).length
  match state[index]? with
  | some p => if p.1 == id then .ok index else .error index
  | none => .error index

/-- `mark_above`: first mark of that name at or after `index` -/
def markAbove (state : List (OpId × MarkData)) (index : Nat) (name : Bytes) : Option MarkData :=
  ((state.drop index).find? (fun p => p.2.name == name)).map (·.2)

/-- `mark_below`: last mark of that name before `index` -/
def markBelow (state : List (OpId × MarkData)) (index : Nat) (name : Bytes) : Option MarkData :=
  ((state.take index).reverse.find? (fun p => p.2.name == name)).map (·.2)

/-- cache update of `mark_begin`: nothing above ⇒ the new mark is on top of its name -/
def beginCache (cur : MarkSet) (above : Bool) (below : Option MarkData) (d : MarkData) : MarkSet :=
  if above then cur else
  match below with
  | some b => if b.value != d.value then cur.insert d.name d.value else cur
  | none => cur.insert d.name d.value

def Msm.markBegin (m : Msm) (id : OpId) (d : MarkData) : Msm :=
  match Msm.find m.state id with
  | .ok _ => m
  | .error index =>
    { state := m.state.take index ++ (id, d) :: m.state.drop index,
      current := beginCache m.current (markAbove m.state index d.name).isSome (markBelow m.state index d.name) d }

/-- `OpId::prev` -/
def OpId.prev (i : OpId) : OpId := ⟨i.ctr - 1, i.actor⟩

/-- cache update of `mark_end`: nothing above ⇒ the mark below (if any) becomes the top of its name -/
def endCache (cur : MarkSet) (above : Bool) (below : Option MarkData) (mark : MarkData) : MarkSet :=
  if above then cur else
  match below with
  | some b => if b.value == mark.value then cur else cur.insert b.name b.value
  | none => cur.remove mark.name

def Msm.markEnd (m : Msm) (id : OpId) : Msm :=
  match Msm.find m.state id.prev with
  | .error _ => m
  | .ok index =>
    match m.state[index]? with
    | none => m
    | some (_, mark) =>
      let state' := m.state.take index ++ m.state.drop (index + 1)
      { state := state',
        current := endCache m.current (markAbove state' index mark.name).isSome (markBelow state' index mark.name) mark }

/-! ### the item walk (`TopOps::marks()`) -/

inductive Item where
  | mbegin (id : OpId) (d : MarkData)
  | mend (id : OpId)
  | elem (eid : OpId) (top : Op)
  deriving Repr, Inhabited

/-- top ops of a sequence object in document order: every visible mark op, and for every element with
    visible values its winning value op -/
def items (ops : List Op) (obj : ObjId) : List Item :=
  (rgaOrder ops obj).filterMap (fun e =>
    match e.action with
    | .markBegin n v _ => if overwritten ops e then none else some (.mbegin e.id ⟨n, v⟩)
    | .markEnd _ => if overwritten ops e then none else some (.mend e.id)
    | _ => (elemRegOps ops obj e.id).getLast?.map (.elem e.id))

def Msm.step (m : Msm) : Item → Msm
  | .mbegin id d => m.markBegin id d
  | .mend id => m.markEnd id
  | .elem _ _ => m

/-- the marks `get_marks_for` returns: the machine's cache without unmarks -/
def Msm.out (m : Msm) : MarkSet := m.current.withoutUnmarks

/-- `get_marks_for(obj, index)`: advance (`stop` = units consumed so far) to the element whose unit range
    contains `index`, then the machine's marks without unmarks -/
def getMarksGo (wf : Op → Nat) (m : Msm) : List Item → Nat → Nat → MarkSet
  | [], _, _ => m.out
  | .elem _ t :: rest, index, stop => if stop > index then m.out else getMarksGo wf m rest index (stop + wf t)
  | it :: rest, index, stop => if stop > index then m.out else getMarksGo wf (m.step it) rest index stop

def getMarksAt (wf : Op → Nat) (ops : List Op) (obj : ObjId) (index : Nat) : MarkSet :=
  getMarksGo wf {} (items ops obj) index 0

/-- `MarkAccumulator`: name ↦ list of (index, len, value), names in key order -/
abbrev MarkAcc := List (Bytes × List (Nat × Nat × Scalar))

def MarkAcc.addOne (index len : Nat) (name : Bytes) (value : Scalar) : MarkAcc → MarkAcc
  | [] => [(name, [(index, len, value)])]
  | (k, entries) :: rest =>
    if k == name then
      let entries' :=
        match entries.getLast? with
        | some (i, l, v) =>
          if v == value && i + l == index then entries.dropLast ++ [(i, l + len, v)]
          else entries ++ [(index, len, value)]
        | none => [(index, len, value)]
      (k, entries') :: rest
    else if bytesLt name k then (name, [(index, len, value)]) :: (k, entries) :: rest
    else (k, entries) :: MarkAcc.addOne index len name value rest

def MarkAcc.add (acc : MarkAcc) (index len : Nat) (set : MarkSet) : MarkAcc :=
  set.foldl (fun a p => MarkAcc.addOne index len p.1 p.2 a) acc

structure Mark where
  name : Bytes
  start : Nat
  stop : Nat
  value : Scalar
  deriving DecidableEq, Repr

/-- `into_iter_no_unmark` -/
def MarkAcc.toMarks (acc : MarkAcc) : List Mark :=
  acc.flatMap (fun p => (p.2.filter (fun x => x.2.2 != .null)).map (fun x => ⟨p.1, x.1, x.1 + x.2.1, x.2.2⟩))

/-- `current()`: `None` when empty -/
def Msm.cur (m : Msm) : Option MarkSet := if m.current.isEmpty then none else some m.current

structure MarksWalk where
  msm : Msm := {}
  index : Nat := 0
  acc : MarkAcc := []
  lastMarks : Option MarkSet := none
  markLen : Nat := 0
  markIndex : Nat := 0

/-- the loop body of `calculate_marks_slow` -/
def MarksWalk.step (wf : Op → Nat) (w : MarksWalk) : Item → MarksWalk
  | .elem _ top =>
    let marks := w.msm.cur
    let len := wf top
    let w :=
      if w.lastMarks != marks then
        let acc := match w.lastMarks with
          | some m => if w.markLen > 0 then w.acc.add w.markIndex w.markLen m else w.acc
          | none => w.acc
        { w with acc := acc, lastMarks := marks, markIndex := w.index, markLen := 0 }
      else w
    { w with markLen := w.markLen + len, index := w.index + len }
  | it => { w with msm := w.msm.step it }

/-- `calculate_marks_slow` (the indexed `calculate_marks_fast` is compared against it by the run) -/
def marksOf (wf : Op → Nat) (ops : List Op) (obj : ObjId) : List Mark :=
  let w := (items ops obj).foldl (MarksWalk.step wf) {}
  let acc := match w.lastMarks with
    | some m => if w.markLen > 0 then w.acc.add w.markIndex w.markLen m else w.acc
    | none => w.acc
  acc.toMarks

/-! ### spans (iter/spans.rs, present-time or clock-scoped read: every op is `Diff::Add`) -/

inductive Span where
  | text (s : Bytes) (marks : MarkSet)
  | block
  deriving DecidableEq, Repr

structure SpanWalk where
  msm : Msm := {}
  /-- `SpanState::marks` (exported form: the non-null marks) -/
  marks : MarkSet := []
  /-- `next_text`: buffer, width, marks -/
  next : Option (Bytes × Nat × MarkSet) := none
  out : List Span := []

/-- `SpanState::flush` -/
def SpanWalk.flush (w : SpanWalk) : SpanWalk :=
  match w.next with
  | none => w
  | some (buf, len, ms) =>
    if len == 0 then { w with next := none } else { w with next := none, out := w.out ++ [.text buf ms] }

/-- appending to `next_text` (created with the current marks when absent) -/
def SpanWalk.append (W : Bytes → Nat) (w : SpanWalk) (s : Bytes) : SpanWalk :=
  match w.next with
  | some (buf, len, ms) => { w with next := some (buf ++ s, len + W s, ms) }
  | none => { w with next := some (s, W s, w.marks) }

/-- `flush_needed`: the pending text carries other marks than the current ones -/
def SpanWalk.flushNeeded (w : SpanWalk) : Bool :=
  match w.next with
  | some (_, _, ms) => ms != w.marks
  | none => false

/-- `SpanState::push_str` -/
def SpanWalk.pushStr (W : Bytes → Nat) (w : SpanWalk) (s : Bytes) : SpanWalk :=
  (if w.flushNeeded then w.flush else w).append W s

/-- `SpanState::push_block` -/
def SpanWalk.pushBlock (w : SpanWalk) : SpanWalk :=
  { w.flush with out := w.flush.out ++ [.block] }

def Op.isBlock (o : Op) : Bool := o.action == .make .map

def SpanWalk.step (W : Bytes → Nat) (w : SpanWalk) : Item → SpanWalk
  | .elem _ top => if top.isBlock then w.pushBlock else w.pushStr W (opStr top)
  | it =>
    let m := w.msm.step it
    { w with msm := m, marks := m.current.withoutUnmarks }

def spansOf (W : Bytes → Nat) (ops : List Op) (obj : ObjId) : List Span :=
  ((items ops obj).foldl (SpanWalk.step W) {}).flush.out

/-! ### `InsertQuery::resolve` (op_set/insert.rs) -/

structure Loc where
  cursor : Key
  pos : Nat
  id : Option OpId
  deriving Repr, Inhabited

structure IQ where
  candidates : List Loc := []        -- stack, top = last
  lastVisibleCursor : Option Key := none
  lastWidth : Option Nat := none
  index : Nat := 0
  done : Bool := false
  pos : Nat := 0
  stopped : Bool := false            -- `break` taken
  deriving Repr, Inhabited

/-- `Op::cursor` -/
def Op.cursorKey (o : Op) : Key := if o.insert then .elem o.id else o.key

/-- `identify_valid_insertion_spot` -/
def IQ.identify (q : IQ) (opPos : Nat) (op : Op) (cursor : Key) : IQ :=
  -- first insert we see after the target has been reached
  let q :=
    if op.insert && q.candidates.isEmpty then
      match q.lastVisibleCursor with
      | some c => { q with candidates := q.candidates ++ [⟨c, opPos, none⟩] }
      | none => q
    else q
  if q.candidates.isEmpty then q else
  -- a begin/end pair seen whole: positions between them are invalid
  let pairAt : Option Nat :=
    match op.action with
    | .markEnd _ => q.candidates.findIdx? (fun l => l.id == some op.id.prev)
    | _ => none
  match pairAt with
  | some p => { q with candidates := q.candidates.take p }
  | none =>
    let sticky := match op.action with
      | .markBegin _ _ true => true
      | .markEnd false => true
      | _ => false
    if sticky then { q with candidates := q.candidates ++ [⟨cursor, opPos + 1, some op.id⟩] } else q

/-- one iteration of the `while let Some(op) = iter.next()` loop -/
def IQ.step (wf : Op → Nat) (ops : List Op) (target : Nat) (q : IQ) (row : Nat × Op) : IQ :=
  if q.stopped then q else
  let (opPos, op) := row
  if op.isInc then { q with pos := opPos } else
  let visible := rowVisible ops op
  let q :=
    if op.insert then
      match q.lastWidth with
      | some last => { q with lastWidth := none, index := q.index + last, done := decide (q.index + last ≥ target) }
      | none => q
    else q
  let cursor := op.cursorKey
  if q.done then
    let q := q.identify opPos op cursor
    if visible && !op.isMark && !q.candidates.isEmpty then { q with stopped := true }
    else { q with pos := opPos }
  else if visible then
    let q := if !op.isMark then { q with lastVisibleCursor := some cursor, lastWidth := some (wf op) } else q
    { q with pos := opPos }
  else { q with pos := opPos }

structure QueryNth where
  key : Key
  index : Nat
  pos : Nat
  deriving Repr, Inhabited

def enumFrom {α : Type} : Nat → List α → List (Nat × α)
  | _, [] => []
  | n, x :: xs => (n, x) :: enumFrom (n + 1) xs

/-- `query_insert_at` (the indexed fast path is `debug_assert`ed equal to this walk) -/
def insertQuery (wf : Op → Nat) (ops : List Op) (obj : ObjId) (target : Nat) : Except EditErr QueryNth :=
  let rows := enumFrom 0 (objRows ops obj)
  let q0 : IQ := { candidates := if target == 0 then [⟨.head, 0, none⟩] else [], done := decide (0 ≥ target) }
  let q := rows.foldl (IQ.step wf ops target) q0
  let q := match q.lastWidth with
    | some last => { q with lastWidth := none, index := q.index + last, done := decide (q.index + last ≥ target) }
    | none => q
  if !q.done then .error .index else
  match q.candidates.getLast? with
  | some loc => .ok ⟨loc.cursor, q.index, loc.pos⟩
  | none =>
    match q.lastVisibleCursor with
    | some c => .ok ⟨c, q.index, q.pos + 1⟩
    | none => .error .index

/-! ### local calls (width-parametrised: `wf` is `ow g enc isText`) -/

/-- `OpsFound::width`: the width of the winning (last) visible op of an element -/
def lastW (wf : Op → Nat) (r : List Op) : Nat :=
  match r.getLast? with | some o => wf o | none => 0

/-- `seek_ops_by_index` (as `Local.seekByIndex`, over an arbitrary width function) -/
def seekByIndexW (wf : Op → Nat) : List (OpId × List Op) → Nat → Nat → Option (OpId × List Op × Nat)
  | [], _, _ => none
  | (id, r) :: rest, index, start =>
    if index < start + lastW wf r then some (id, r, start) else seekByIndexW wf rest index (start + lastW wf r)

/-- the delete loop of `inner_splice` (as `Local.deleteLoop`) -/
def deleteLoopW (wf : Op → Nat) (t : Tx) (obj : ObjId) :
    Nat → List Op → Nat → Nat → Nat → List Op → List Op
  | 0, _, _, _, _, acc => acc
  | fuel + 1, ops, delIndex, deleted, del, acc =>
    if deleted ≥ del then acc else
    match seekByIndexW wf (seqRegs ops obj) delIndex 0 with
    | none => acc
    | some (eid, reg, start) =>
      let step := lastW wf reg
      if start < delIndex then deleteLoopW wf t obj fuel ops (start + step) deleted del acc
      else
        let op : Op := ⟨t.nextId acc.length, obj, .elem eid, false, .del, reg.map (·.id)⟩
        deleteLoopW wf t obj fuel (ops ++ [op]) delIndex (deleted + step) del (acc ++ [op])

/-- `local_list_op` (as `Local.localListOp`) -/
def localListOpW (wf : Op → Nat) (ops : List Op) (t : Tx) (obj : ObjId) (ty : ObjType) (index : Nat) (a : Action) :
    Except EditErr (List Op) :=
  if !isSeq ty then .error .invalidOp else
  match seekByIndexW wf (seqRegs ops obj) index 0 with
  | none => .error .index
  | some (eid, reg, _) =>
    match resolveAction ops reg a with
    | none => .ok []
    | some (act, preds) =>
      let isIncr := match act with | .inc _ => true | _ => false
      if isIncr && preds.all (fun o => !o.isCounterPut) then .error .missingCounter
      else .ok [⟨t.nextId, obj, .elem eid, false, act, preds.map (·.id)⟩]

/-- `insert` / `insert_object` / `split_block` in a document that may contain marks -/
def localInsertRt (wf : ObjType → Op → Nat) (ops : List Op) (t : Tx) (obj : ObjId) (index : Nat) (a : Action) (textOnly : Bool) :
    Except EditErr (List Op) :=
  match objMeta ops obj with
  | .error err => .error err
  | .ok ty =>
    if textOnly && ty != .text then .error .invalidOp else
    if !isSeq ty then .error .invalidOp else
    match insertQuery (wf ty) ops obj index with
    | .error err => .error err
    | .ok q => .ok [⟨t.nextId, obj, q.key, true, a, []⟩]

/-- `splice_text(pos, del, text)` for `del ≥ 0` in a document that may contain marks; `pieces` = the text
    cut into the strings of the new elements (scalar values, or grapheme clusters) -/
def localSpliceTextRt (wf : Op → Nat) (W : Bytes → Nat) (ops : List Op) (t : Tx) (obj : ObjId) (index del : Nat)
    (pieces : List Bytes) : Except EditErr (List Op) :=
  match objMeta ops obj with
  | .error err => .error err
  | .ok ty =>
    if ty != .text then .error .invalidOp else
    match (if pieces.isEmpty then (.ok ⟨.head, index, 0⟩ : Except EditErr QueryNth)
           else insertQuery wf ops obj index) with
    | .error err => .error err
    | .ok q =>
      let ins := chainInserts t obj pieces q.key 0
      let insertedWidth := (pieces.map W).foldl (· + ·) 0
      let t' : Tx := { t with pending := t.pending ++ ins }
      let dels := deleteLoopW wf t' obj (del + 1) (ops ++ ins) (q.index + insertedWidth) 0 del []
      .ok (ins ++ dels)

/-- position of the row with the given id -/
def rowPos (ops : List Op) (obj : ObjId) (id : OpId) : Option Nat :=
  (objRows ops obj).findIdx? (fun o => o.id == id)

/-- `mark` / `unmark` (transaction/inner.rs): the ops appended — also when the call fails — and the result.
    `expand` = (before, after). -/
def localMark (wf : Op → Nat) (ops : List Op) (t : Tx) (obj : ObjId) (start stop : Nat) (before after : Bool)
    (name : Bytes) (value : Scalar) : List Op × Except EditErr Unit :=
  match objMeta ops obj with
  | .error err => ([], .error err)
  | .ok ty =>
    if ty != .text then ([], .error .invalidOp) else
    if start == stop && !before && !after then ([], .ok ()) else
    -- the end anchor is resolved before anything is inserted (fix d5de6e0cf)
    match (if start != stop then (insertQuery wf ops obj stop).map (fun _ => ()) else .ok ()) with
    | .error err => ([], .error err)
    | .ok _ =>
    match insertQuery wf ops obj start with
    | .error err => ([], .error err)
    | .ok q1 =>
      let beginId := t.nextId
      let endId := t.nextId 1
      let beginOp : Op := ⟨beginId, obj, q1.key, true, .markBegin name value before, []⟩
      let endAfter : Op := ⟨endId, obj, .elem beginId, true, .markEnd after, []⟩
      if start == stop then ([beginOp, endAfter], .ok ()) else
      let ops1 := ops ++ [beginOp]
      -- the begin op is in the store when the end anchor is resolved again (it cannot fail any more)
      match insertQuery wf ops1 obj stop with
      | .error err => ([beginOp], .error err)
      | .ok q2 =>
        if q2.pos > q1.pos then ([beginOp, ⟨endId, obj, q2.key, true, .markEnd after, []⟩], .ok ())
        else ([beginOp, endAfter], .ok ())

end AmVerif.Crdt
