import AmVerif.Model.Sync
/-
  M8, the two-peer system of C20: peers A and B, one sync state each, one FIFO link per direction,
  steps `edit | generate | deliver` on either side in any interleaving.  The same `generate` /
  `receive` / `Doc.applyLocal` as in the n-peer network of `Model/SyncNet.lean` (which the
  correspondence engine executes); only the bookkeeping differs (two named peers instead of
  functions of the peer index), so that the system is symmetric under `Cfg.swap`.
-/
namespace AmVerif.Sync

structure Cfg where
  docA : Doc
  docB : Doc
  /-- A's sync state for B -/
  stA : State
  /-- B's sync state for A -/
  stB : State
  /-- sent by A, not yet received by B (oldest first) -/
  linkAB : List Message
  linkBA : List Message

namespace Cfg

def swap (c : Cfg) : Cfg := ⟨c.docB, c.docA, c.stB, c.stA, c.linkBA, c.linkAB⟩

/-- local edit at A -/
def editA (c : Cfg) (ch : Change) : Cfg := { c with docA := c.docA.applyLocal ch }

/-- `A.generate_sync_message(stA)`, a produced message goes to the end of the link A→B -/
def genA (fp : Hash → Bool) (c : Cfg) : Cfg :=
  let r := generate fp c.docA c.stA
  { c with stA := r.1,
           linkAB := match r.2 with
                     | some m => c.linkAB ++ [m]
                     | none => c.linkAB }

/-- B receives the oldest message `m` of the link A→B (`rest` stays queued) -/
def recvB (c : Cfg) (m : Message) (rest : List Message) : Cfg :=
  let r := receive c.docB c.stB m
  { c with docB := r.1, stB := r.2, linkAB := rest }

end Cfg

/-- a topologically ordered change list (newest first) without repeated hashes -/
def Topo : List Change → Prop
  | [] => True
  | c :: rest => (∀ h ∈ c.deps, h ∈ rest.map (·.hash)) ∧ c.hash ∉ rest.map (·.hash) ∧ Topo rest

/-- well-formed document: change graph topological and duplicate free; queued changes are not
    applied and not queued twice -/
structure DocWF (d : Doc) : Prop where
  topo : Topo d.applied
  qnodup : (d.queue.map (·.hash)).Nodup
  qfresh : ∀ c ∈ d.queue, c.hash ∉ d.hashes

/-- starting configurations: arbitrary well-formed histories (shared, divergent, forked — any two
    change graphs that agree on what a hash means), nothing queued, fresh sync states, empty links -/
structure Initial (c : Cfg) : Prop where
  wfA : DocWF c.docA
  wfB : DocWF c.docB
  queueA : c.docA.queue = []
  queueB : c.docB.queue = []
  agree : ∀ x ∈ c.docA.applied, ∀ y ∈ c.docB.applied, x.hash = y.hash → x = y
  stA : c.stA = State.new
  stB : c.stB = State.new
  linkAB : c.linkAB = []
  linkBA : c.linkBA = []

/-- one step of the two-peer system; `swap` gives B the same three steps -/
inductive Step (fp : Hash → Bool) : Cfg → Cfg → Prop
  /-- a local edit: the new change depends on the current heads and its hash is new -/
  | edit (c : Cfg) (ch : Change) :
      ch.deps = c.docA.heads → ch.hash ∉ c.docA.hashes → ch.hash ∉ c.docB.hashes →
      Step fp c (c.editA ch)
  | gen (c : Cfg) : Step fp c (c.genA fp)
  | recv (c : Cfg) (m : Message) (rest : List Message) :
      c.linkAB = m :: rest → Step fp c (c.recvB m rest)
  | swap (c c' : Cfg) : Step fp c.swap c'.swap → Step fp c c'

inductive Reachable (fp : Hash → Bool) : Cfg → Prop
  | init (c : Cfg) : Initial c → Reachable fp c
  | step (c c' : Cfg) : Reachable fp c → Step fp c c' → Reachable fp c'

/-- steps without local edits (the "edits stop" phase of C20) -/
inductive QuietStep (fp : Hash → Bool) : Cfg → Cfg → Prop
  | gen (c : Cfg) : QuietStep fp c (c.genA fp)
  | recv (c : Cfg) (m : Message) (rest : List Message) :
      c.linkAB = m :: rest → QuietStep fp c (c.recvB m rest)
  | swap (c c' : Cfg) : QuietStep fp c.swap c'.swap → QuietStep fp c c'

/-- one round "A generates, B receives everything, B generates, A receives everything" -/
def deliverAllAB : List Message → Cfg → Cfg
  | [], c => c
  | m :: rest, c => deliverAllAB rest (c.recvB m rest)

def halfRound (fp : Hash → Bool) (c : Cfg) : Cfg :=
  let c := c.genA fp
  deliverAllAB c.linkAB c

def round (fp : Hash → Bool) (c : Cfg) : Cfg :=
  (halfRound fp (halfRound fp c).swap).swap

def rounds (fp : Hash → Bool) : Nat → Cfg → Cfg
  | 0, c => c
  | n + 1, c => rounds fp n (round fp c)

/-- both peers have nothing to say and nothing is in flight -/
def Quiescent (fp : Hash → Bool) (c : Cfg) : Prop :=
  c.linkAB = [] ∧ c.linkBA = [] ∧
  (generate fp c.docA c.stA).2 = none ∧ (generate fp c.docB c.stB).2 = none

instance (fp : Hash → Bool) (c : Cfg) : Decidable (Quiescent fp c) := by
  unfold Quiescent; infer_instance

/-- same heads and same set of changes (hence the same state: the state is a function of the set
    of changes, C01) -/
def Converged (c : Cfg) : Prop :=
  c.docA.heads = c.docB.heads ∧ ∀ x, x ∈ c.docA.applied ↔ x ∈ c.docB.applied

/-! ### C21: drop and reconnect -/

/-- what `State::decode(State::encode(s))` is documented to give: only `shared_heads` persists,
    `their_have` is `Some(vec![])`, everything else is reset -/
def State.persisted (s : State) : State :=
  { sharedHeads := s.sharedHeads, theirHave := some [] }

/-- the state a peer comes back with -/
inductive Reconn where
  | fresh | persisted
  deriving DecidableEq, Repr

def Reconn.apply (s : State) : Reconn → State
  | .fresh => State.new
  | .persisted => s.persisted

/-- the connection dropped (whatever was in flight is lost) and is re-established, each side with
    a fresh or a persisted state -/
def Cfg.reconnect (c : Cfg) (ra rb : Reconn) : Cfg :=
  { c with stA := ra.apply c.stA, stB := rb.apply c.stB, linkAB := [], linkBA := [] }

/-- the two-peer system with disconnects: the steps of C20 plus drop-and-reconnect -/
inductive Step21 (fp : Hash → Bool) : Cfg → Cfg → Prop
  | base (c c' : Cfg) : Step fp c c' → Step21 fp c c'
  | reconnect (c : Cfg) (ra rb : Reconn) : Step21 fp c (c.reconnect ra rb)

inductive Reachable21 (fp : Hash → Bool) : Cfg → Prop
  | init (c : Cfg) : Initial c → Reachable21 fp c
  | step (c c' : Cfg) : Reachable21 fp c → Step21 fp c c' → Reachable21 fp c'

/-! ### C22 -/

/-- receiving a whole sequence of messages -/
def receiveAll : Doc → State → List Message → Doc × State
  | d, s, [] => (d, s)
  | d, s, m :: ms => receiveAll (receive d s m).1 (receive d s m).2 ms

end AmVerif.Sync
