import AmVerif.Model.Leb128
import AmVerif.Generated.Consts
/-
  Identifier codecs and identifier resolution, function by function:
    * `ExId::to_bytes` / `TryFrom<&[u8]> for ExId` / `Display for ExId`           (exid.rs)
    * `Cursor::to_bytes` / `TryFrom<&[u8]>` / `Cursor::from_str` / `Display`       (cursor.rs)
    * `ActorId` and `ChangeHash` hex / slice parsing                               (types.rs)
    * `Automerge::import_obj`, `exid_to_opid`, `op_cursor_to_opid`, `OpId::try_new` (automerge.rs, types.rs)

  Strings: a Rust `&str` is modelled by its UTF-8 bytes (`Bytes`), because the Rust code slices by
  BYTE offset (`&s[0..1]`, `s[i..n]`); a slice whose end is out of range or not on a char boundary is
  a `panic .sliceIndex`.  The main definitions model the code AFTER the fixes D1 / D7 / D8; the
  definitions whose name ends in `Prefix` keep the code as it was before the fix so that the
  defect is a theorem about a concrete witness (Props/C15Ids.lean).

  `usize` is 64 bits (the only target the check runs on), so `u64 as usize` is the identity.
-/
namespace AmVerif.Ids
open AmVerif AmVerif.Leb

abbrev Actor := Bytes
abbrev Hash := Bytes      -- a `ChangeHash` is exactly `HASH_SIZE` = 32 bytes

/-- error classes (what the correspondence check compares) -/
inductive IErr where
  | noVersion | invalidVersion | invalidType | parseActorLen | parseActor | parseCounter
  | parseActorIdxHint                  -- `ObjIdFromBytesError`
  | cursorFormat                       -- `AutomergeError::InvalidCursorFormat`
  | invalidCursor                      -- `AutomergeError::InvalidCursor`
  | objIdFormat                        -- `AutomergeError::InvalidObjIdFormat`
  | objId                              -- `AutomergeError::InvalidObjId`
  | actorId                            -- `InvalidActorId`
  | hashHex | hashLength               -- `ParseChangeHashError`
  | hashSlice                          -- `InvalidChangeHashSlice`
  deriving DecidableEq, Repr, Inhabited

inductive Move where
  | before | after
  deriving DecidableEq, Repr, Inhabited

/-- `Cursor` (`OpCursor { ctr: u64, actor, move_cursor }`) -/
inductive Cursor where
  | start
  | «end»
  | op (ctr : Nat) (actor : Actor) (move : Move)
  deriving DecidableEq, Repr, Inhabited

/-- `ExId::Id(counter: u64, actor, actor index: usize)` -/
inductive ExId where
  | root
  | id (ctr : Nat) (actor : Actor) (idx : Nat)
  deriving DecidableEq, Repr, Inhabited

/-- `PartialEq for ExId`: the actor index is not compared. -/
def ExId.same : ExId → ExId → Bool
  | .root, .root => true
  | .id c1 a1 _, .id c2 a2 _ => c1 == c2 && a1 == a2
  | _, _ => false

/-! ### byte-level helpers -/

/-- `Input::take_n` -/
def takeN (n : Nat) (bs : Bytes) : PResult Bytes :=
  if bs.length < n then .error .incomplete else .ok (bs.take n, bs.drop n)

/-! ### ExId bytes (exid.rs) -/

def exidToBytes : ExId → Bytes
  | .root => [0]                                   -- VERSION 0 | (TYPE_ROOT << 4)
  | .id ctr actor idx =>
    16 :: (ulebEncode actor.length ++ actor ++ ulebEncode idx ++ ulebEncode ctr)  -- 0 | (TYPE_ID << 4)

/-- `TryFrom<&[u8]> for ExId`; `tag & 0b1111` is `tag % 16`, `tag >> 4` is `tag / 16`.
    Trailing bytes are ignored by the Rust code and by the model. -/
def exidFromBytes (bs : Bytes) : Outcome IErr ExId :=
  match bs with
  | [] => .err .noVersion
  | tag :: i =>
    if tag.toNat % 16 ≠ 0 then .err .invalidVersion else
    if tag.toNat / 16 = 0 then .ok .root
    else if tag.toNat / 16 = 1 then
      match uleb64 i with
      | .error _ => .err .parseActorLen
      | .ok (len, i) =>
      match takeN len i with
      | .error _ => .err .parseActor
      | .ok (actor, i) =>
      match uleb64 i with
      | .error _ => .err .parseCounter
      | .ok (idx, i) =>
      match uleb64 i with
      | .error _ => .err .parseActorIdxHint
      | .ok (ctr, _) => .ok (.id ctr actor idx)
    else .err .invalidType

/-! ### Cursor bytes (cursor.rs) -/

def moveTag : Move → UInt8
  | .before => 1
  | .after => 2

def cursorToBytes : Cursor → Bytes
  | .start => [1, 1]
  | .end => [1, 2]
  | .op ctr actor mv => 1 :: 3 :: (ulebEncode actor.length ++ actor ++ ulebEncode ctr ++ [moveTag mv])

/-- `parse_0`: the version-0 layout (no start/end cursors, always `MoveCursor::After`) -/
def cursorParse0 (i : Bytes) : Outcome IErr Cursor :=
  match uleb64 i with
  | .error _ => .err .cursorFormat
  | .ok (len, i) =>
  match takeN len i with
  | .error _ => .err .cursorFormat
  | .ok (actor, i) =>
  match uleb64 i with
  | .error _ => .err .cursorFormat
  | .ok (ctr, _) => .ok (.op ctr actor .after)

/-- `TryFrom<&[u8]> for Cursor` -/
def cursorFromBytes (bs : Bytes) : Outcome IErr Cursor :=
  match bs with
  | [] => .err .cursorFormat
  | version :: i =>
    if version = 0 then cursorParse0 i
    else if version ≠ 1 then .err .cursorFormat
    else
    match i with
    | [] => .err .cursorFormat
    | ty :: i =>
      if ty = 1 then .ok .start
      else if ty = 2 then .ok .end
      else if ty = 3 then
        match uleb64 i with
        | .error _ => .err .cursorFormat
        | .ok (len, i) =>
        match takeN len i with
        | .error _ => .err .cursorFormat
        | .ok (actor, i) =>
        match uleb64 i with
        | .error _ => .err .cursorFormat
        | .ok (ctr, i) =>
        match i with
        | [] => .err .cursorFormat
        | mv :: _ =>
          if mv = 2 then .ok (.op ctr actor .after)
          else if mv = 1 then .ok (.op ctr actor .before)
          else .err .cursorFormat
      else .err .cursorFormat

/-! ### decimal and hex text (as UTF-8 / ASCII bytes) -/

/-- `Display for u64` -/
def decEncode (n : Nat) : Bytes :=
  if n < 10 then [UInt8.ofNat (48 + n)] else decEncode (n / 10) ++ [UInt8.ofNat (48 + n % 10)]
decreasing_by omega

def isDigit (b : UInt8) : Bool := 48 ≤ b.toNat && b.toNat ≤ 57

/-- the accumulation loop of `from_str_radix` (overflow is checked on the final value, which is
    equivalent to the per-step `checked_mul/checked_add` because the accumulator only grows) -/
def decValue (ds : Bytes) : Nat := ds.foldl (fun acc d => acc * 10 + (d.toNat - 48)) 0

/-- the optional single leading `+` accepted by `from_str_radix` -/
def stripPlus : Bytes → Bytes
  | 43 :: rest => rest            -- '+'
  | s => s

/-- `str::parse::<u64>()`: an optional single `+`, then at least one ASCII digit, nothing else;
    `""`, `"+"`, `"-"` and values ≥ 2^64 are errors. -/
def parseU64 (s : Bytes) : Option Nat :=
  let ds := stripPlus s
  if ds.isEmpty then none
  else if ds.all isDigit then
    let v := decValue ds
    if v < 2 ^ 64 then some v else none
  else none

def hexDigitB (n : Nat) : UInt8 := if n < 10 then UInt8.ofNat (48 + n) else UInt8.ofNat (87 + n)

/-- `hex::encode` (lower case) -/
def hexEncode : Bytes → Bytes
  | [] => []
  | b :: rest => hexDigitB (b.toNat / 16) :: hexDigitB (b.toNat % 16) :: hexEncode rest

def hexValB (c : UInt8) : Option Nat :=
  if 48 ≤ c.toNat ∧ c.toNat ≤ 57 then some (c.toNat - 48)
  else if 97 ≤ c.toNat ∧ c.toNat ≤ 102 then some (c.toNat - 87)
  else if 65 ≤ c.toNat ∧ c.toNat ≤ 70 then some (c.toNat - 55)
  else none

/-- `hex::decode`: odd length or a non-hex character is an error; both cases accepted. -/
def hexDecode : Bytes → Option Bytes
  | [] => some []
  | [_] => none
  | a :: b :: rest =>
    match hexValB a, hexValB b, hexDecode rest with
    | some x, some y, some r => some (UInt8.ofNat (x * 16 + y) :: r)
    | _, _, _ => none

/-- `s.find('@')`: byte offset of the first `@` (0x40 never occurs inside a multi-byte character) -/
def findAt : Bytes → Option Nat
  | [] => none
  | b :: rest => if b = 64 then some 0 else (findAt rest).map (· + 1)

/-! ### ActorId / ChangeHash parsing (types.rs) -/

/-- `TryFrom<&str> for ActorId` / `FromStr` -/
def actorFromHex (s : Bytes) : Outcome IErr Actor :=
  match hexDecode s with
  | some b => .ok b
  | none => .err .actorId

/-- `Display for ActorId` -/
def actorToHex (a : Actor) : Bytes := hexEncode a

/-- `FromStr for ChangeHash`; the `try_into().unwrap()` is guarded by the length test. -/
def hashFromHex (s : Bytes) : Outcome IErr Hash :=
  match hexDecode s with
  | none => .err .hashHex
  | some b => if b.length = Consts.HASH_SIZE then .ok b else .err .hashLength

/-- `Display for ChangeHash` -/
def hashToHex (h : Hash) : Bytes := hexEncode h

/-- `TryFrom<&[u8]> for ChangeHash` -/
def hashFromBytes (b : Bytes) : Outcome IErr Hash :=
  if b.length ≠ Consts.HASH_SIZE then .err .hashSlice else .ok b

/-! ### Cursor and ExId text (cursor.rs, exid.rs) -/

/-- `Display for Cursor` -/
def cursorToStr : Cursor → Bytes
  | .start => [115]              -- "s"
  | .end => [101]                -- "e"
  | .op ctr actor mv =>
    (match mv with | .before => [45] | .after => []) ++ decEncode ctr ++ [64] ++ hexEncode actor

/-- `Display for ExId` -/
def exidToStr : ExId → Bytes
  | .root => [95, 114, 111, 111, 116]   -- "_root"
  | .id ctr actor _ => decEncode ctr ++ [64] ++ hexEncode actor

/-- the `-` prefix test (`strip_prefix('-')`, formerly `&s[0..1] == "-"`): the move mode and the
    byte offset where the counter starts -/
def movePrefix : Bytes → Move × Nat
  | 45 :: _ => (.before, 1)
  | _ => (.after, 0)

/-- `Cursor::from_str` + `TryFrom<&str>` after fix D7 (`strip_prefix('-')`).
    `s[i..n]` would panic for `n < i`; that branch is kept and proved unreachable. Both offsets are
    positions of ASCII bytes of a valid UTF-8 string, hence char boundaries. -/
def cursorFromStr (s : Bytes) : Outcome IErr Cursor :=
  if s.length = 1 then
    if s = [115] then .ok .start
    else if s = [101] then .ok .end
    else .err .cursorFormat
  else
    let mp := movePrefix s
    match findAt s with
    | none => .err .cursorFormat
    | some n =>
      if n < mp.2 then .panic .sliceIndex else
      match parseU64 ((s.take n).drop mp.2) with
      | none => .err .cursorFormat
      | some ctr =>
      match hexDecode (s.drop (n + 1)) with
      | none => .err .cursorFormat
      | some actor => .ok (.op ctr actor mp.1)

/-- `str::is_char_boundary(1)` on the UTF-8 bytes -/
def isBoundary1 (s : Bytes) : Bool :=
  match s with
  | [] => false                    -- index 1 > len
  | [_] => true                    -- index == len
  | _ :: b :: _ => !(128 ≤ b.toNat && b.toNat < 192)

/-- `Cursor::from_str` BEFORE fix D7: `match &s[0..1] { "-" => … }`. -/
def cursorFromStrPrefix (s : Bytes) : Outcome IErr Cursor :=
  if s.length = 1 then
    if s = [115] then .ok .start
    else if s = [101] then .ok .end
    else .err .cursorFormat
  else
    if !isBoundary1 s then .panic .sliceIndex else
    let mp := movePrefix s
    match findAt s with
    | none => .err .cursorFormat
    | some n =>
      if n < mp.2 then .panic .sliceIndex else
      match parseU64 ((s.take n).drop mp.2) with
      | none => .err .cursorFormat
      | some ctr =>
      match hexDecode (s.drop (n + 1)) with
      | none => .err .cursorFormat
      | some actor => .ok (.op ctr actor mp.1)

/-! ### actor table, `import_obj`, resolution (automerge.rs) -/

/-- `OpSet::lookup_actor` = `actors.binary_search(actor).ok()`.  The actor table of an `OpSet` is
    strictly sorted, so the binary search returns THE index holding `actor`, or `None`; the model
    searches linearly (first index holding `actor`), which is the same function on such tables. -/
def lookupActor : List Actor → Actor → Option Nat
  | [], _ => none
  | a :: rest, x => if a = x then some 0 else (lookupActor rest x).map (· + 1)

def rootStr : Bytes := [95, 114, 111, 111, 116]

/-- `Automerge::import_obj` after fix D1 (bad hex ⇒ `InvalidObjIdFormat`).  `s[0..n]` cannot
    fail (`n ≤ len`, position of an ASCII byte); `get_actor(idx)` indexes the table with the index
    that `lookup_actor` just returned — kept as an explicit panic branch and proved unreachable. -/
def importObj (actors : List Actor) (s : Bytes) : Outcome IErr ExId :=
  if s = rootStr then .ok .root else
  match findAt s with
  | none => .err .objIdFormat
  | some n =>
    match parseU64 (s.take n) with
    | none => .err .objIdFormat
    | some ctr =>
    match hexDecode (s.drop (n + 1)) with
    | none => .err .objIdFormat
    | some actor =>
    match lookupActor actors actor with
    | none => .err .objId
    | some idx =>
      match actors[idx]? with
      | none => .panic .sliceIndex
      | some a => .ok (.id ctr a idx)

/-- `import_obj` BEFORE fix D1: `hex::decode(..).unwrap()`. -/
def importObjPrefix (actors : List Actor) (s : Bytes) : Outcome IErr ExId :=
  if s = rootStr then .ok .root else
  match findAt s with
  | none => .err .objIdFormat
  | some n =>
    match parseU64 (s.take n) with
    | none => .err .objIdFormat
    | some ctr =>
    match hexDecode (s.drop (n + 1)) with
    | none => .panic .unwrapNone
    | some actor =>
    match lookupActor actors actor with
    | none => .err .objId
    | some idx =>
      match actors[idx]? with
      | none => .panic .sliceIndex
      | some a => .ok (.id ctr a idx)

/-- internal `OpId(u32 counter, u32 actor index)` -/
structure OpId where
  ctr : Nat
  actor : Nat
  deriving DecidableEq, Repr, Inhabited

/-- `OpId::try_new` (fix D8): `None` when a component does not fit a `u32`. -/
def opIdTryNew (ctr idx : Nat) : Option OpId :=
  if ctr < 2 ^ 32 ∧ idx < 2 ^ 32 then some ⟨ctr, idx⟩ else none

/-- `OpId::new`: `try_into().unwrap()` on both components. -/
def opIdNew (ctr idx : Nat) : Outcome IErr OpId :=
  if ctr < 2 ^ 32 ∧ idx < 2 ^ 32 then .ok ⟨ctr, idx⟩ else .panic .narrowing

/-- `Automerge::exid_to_opid` after fix D8: the actor-index hint is used only when the table
    holds exactly this actor at that index; otherwise the actor is looked up by its bytes. -/
def exidToOpid (actors : List Actor) : ExId → Outcome IErr OpId
  | .root => .ok ⟨0, 0⟩
  | .id ctr actor idx =>
    let r :=
      if actors[idx]? = some actor then opIdTryNew ctr idx
      else match lookupActor actors actor with
        | some b => opIdTryNew ctr b
        | none => none
    match r with
    | some o => .ok o
    | none => .err .objId

/-- `exid_to_opid` BEFORE fix D8 (`OpId::new`). -/
def exidToOpidPrefix (actors : List Actor) : ExId → Outcome IErr OpId
  | .root => .ok ⟨0, 0⟩
  | .id ctr actor idx =>
    if actors[idx]? = some actor then opIdNew ctr idx
    else match lookupActor actors actor with
      | some b => opIdNew ctr b
      | none => .err .objId

/-- `Automerge::op_cursor_to_opid` (with `clock = None`) after fix D8. -/
def opCursorToOpid (actors : List Actor) (ctr : Nat) (actor : Actor) : Outcome IErr OpId :=
  match (lookupActor actors actor).bind (fun idx => opIdTryNew ctr idx) with
  | some o => .ok o
  | none => .err .invalidCursor

/-- `op_cursor_to_opid` BEFORE fix D8. -/
def opCursorToOpidPrefix (actors : List Actor) (ctr : Nat) (actor : Actor) : Outcome IErr OpId :=
  match lookupActor actors actor with
  | some idx => opIdNew ctr idx
  | none => .err .invalidCursor

/-- what an internal `OpId` names in a replica: (counter, actor BYTES) -/
def denote (actors : List Actor) (o : OpId) : Option (Nat × Actor) :=
  (actors[o.actor]?).map (fun a => (o.ctr, a))

/-- `OpSet::id_to_exid` for a non-root op (`actors[id.actor()]` indexes: panic when out of range) -/
def idToExid (actors : List Actor) (o : OpId) : Outcome IErr ExId :=
  if o = ⟨0, 0⟩ then .ok .root else
  match actors[o.actor]? with
  | some a => .ok (.id o.ctr a o.actor)
  | none => .panic .sliceIndex

end AmVerif.Ids
