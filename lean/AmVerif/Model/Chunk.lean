import AmVerif.Model.Leb128
import AmVerif.Model.Sha256
import AmVerif.Model.Inflate
import AmVerif.Generated.Consts
/-
  M2 (framing): chunk header, checksum, `Chunk::parse`, `load_changes` and the chunk-level logic of
  `load_with_options` (storage/chunk.rs, storage/load.rs, automerge.rs `load_with_options_and_mark_validation`).
  The chunk *body* parser (change columns, document columns, bundle) is a parameter `bodyOk`;
  framing theorems hold for every `bodyOk`.
-/
namespace AmVerif.Chunk
open AmVerif AmVerif.Leb

/-- `hash(typ, data)` of chunk.rs: SHA-256 over type byte, uleb length, data -/
def chunkHash (ty : Nat) (data : Bytes) : Bytes :=
  Sha256.sha256 (UInt8.ofNat ty :: (ulebEncode data.length ++ data))

/-- a chunk as `Header::write` + data produce it -/
def encodeChunkWith (checksum : Bytes) (ty : Nat) (data : Bytes) : Bytes :=
  Consts.MAGIC_BYTES ++ checksum ++ [UInt8.ofNat ty] ++ ulebEncode data.length ++ data

def encodeChunk (ty : Nat) (data : Bytes) : Bytes :=
  encodeChunkWith ((chunkHash ty data).take 4) ty data

structure Header where
  checksum : Bytes
  ty : Nat
  dataLen : Nat
  headerSize : Nat
  hash : Bytes
  deriving DecidableEq, Repr

def takeN (n : Nat) (bs : Bytes) : PResult Bytes :=
  if bs.length < n then .error .incomplete else .ok (bs.take n, bs.drop n)

/-- `Header::parse`; the remaining input starts at the chunk data -/
def parseHeader (input : Bytes) : PResult Header :=
  match takeN 4 input with
  | .error e => .error e
  | .ok (magic, i1) =>
  if magic ≠ Consts.MAGIC_BYTES then .error .invalid else
  match takeN 4 i1 with
  | .error e => .error e
  | .ok (checksum, i2) =>
  match i2 with
  | [] => .error .incomplete
  | tyb :: i3 =>
  if tyb.toNat > 3 then .error .invalid else
  match uleb64 i3 with
  | .error e => .error e
  | .ok (len, i4) =>
  match takeN len i4 with
  | .error e => .error e
  | .ok (data, _) =>
    .ok (⟨checksum, tyb.toNat, data.length, input.length - i4.length, chunkHash tyb.toNat data⟩, i4)

/-- a parsed chunk: what `load` needs from it -/
structure Chunk where
  ty : Nat                -- as stored (2 = compressed change)
  checksum : Bytes
  data : Bytes            -- stored data bytes
  body : Bytes            -- data the hash is computed over (inflated for compressed chunks)
  hash : Bytes            -- hash of the (inflated) chunk: the change hash for change chunks
  deriving DecidableEq, Repr

/-- `Chunk::parse`: header, split off the data, parse the body.  `bodyOk ty body` says whether the
    body parser of that chunk type accepts `body` leaving nothing over. -/
def parseChunk (bodyOk : Nat → Bytes → Bool) (input : Bytes) : PResult Chunk :=
  match parseHeader input with
  | .error e => .error e
  | .ok (h, i) =>
    let data := i.take h.dataLen
    let remaining := i.drop h.dataLen
    if h.ty = Consts.CHUNK_TYPE_COMPRESSED then
      match Inflate.inflateExact data with
      | none => .error .invalid
      | some dec =>
        if bodyOk Consts.CHUNK_TYPE_CHANGE dec
        then .ok (⟨h.ty, h.checksum, data, dec, chunkHash Consts.CHUNK_TYPE_CHANGE dec⟩, remaining)
        else .error .invalid
    else if bodyOk h.ty data then .ok (⟨h.ty, h.checksum, data, data, h.hash⟩, remaining)
    else .error .invalid

/-- `Chunk::checksum_valid` -/
def Chunk.checksumValid (c : Chunk) : Bool := c.hash.take 4 == c.checksum

inductive LoadErr where
  | parse (e : PErr)
  | badChecksum
  | missingDeps
  deriving DecidableEq, Repr

/-- result of `load_changes`: the chunks loaded completely, and the error that stopped the loop if any -/
structure Loaded where
  chunks : List Chunk
  error : Option LoadErr
  deriving Repr

/-- `load_changes`: parse chunk after chunk until the input is empty or one fails -/
def loadChunks (bodyOk : Nat → Bytes → Bool) : Nat → Bytes → List Chunk → Loaded
  | 0, _, acc => ⟨acc, none⟩
  | fuel + 1, data, acc =>
    if data.isEmpty then ⟨acc, none⟩ else
    match parseChunk bodyOk data with
    | .error e => ⟨acc, some (.parse e)⟩
    | .ok (c, rest) =>
      if !c.checksumValid then ⟨acc, some .badChecksum⟩
      else loadChunks bodyOk fuel rest (acc ++ [c])

inductive OnPartial where
  | error | ignore
  deriving DecidableEq, Repr

/-- chunk-level outcome of `load_with_options`: which chunks' contents end up in the document.
    (Applying their changes is M5; reconstructing a document chunk is the parameter `bodyOk`.) -/
def loadFile (bodyOk : Nat → Bytes → Bool) (mode : OnPartial) (data : Bytes) : Except LoadErr (List Chunk) :=
  if data.isEmpty then .ok [] else
  match parseChunk bodyOk data with
  | .error e => .error (.parse e)
  | .ok (first, rest) =>
    if !first.checksumValid then .error .badChecksum else
    let l := loadChunks bodyOk (rest.length + 1) rest []
    match l.error with
    | none => .ok (first :: l.chunks)
    | some e =>
      match mode with
      | .error => .error e
      | .ignore => .ok (first :: l.chunks)   -- after fix D3: the complete chunks are kept

end AmVerif.Chunk
