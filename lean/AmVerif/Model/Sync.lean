import AmVerif.Model.Bloom
/-
  M8: the sync protocol, `rust/automerge/src/sync.rs` (non-test part), `sync/state.rs`,
  `sync/message_builder.rs`, transcribed branch by branch.  `sync/bloom.rs` is `Model/Bloom.lean`.

  What is abstracted.  A document is what sync can see of it: the change graph (changes in
  application order, each `hash ↦ deps`), the queue of changes waiting for dependencies, and the
  functions sync calls on them (`get_heads`, `has_change`, `change_graph.get_hashes`,
  `change_graph.len`, `missing_deps_from`, `filter_changes`/`remove_ancestors`,
  `load_incremental`/`apply_changes`).  Change hashes are opaque byte strings supplied from outside
  (the harness makes real changes and tells the model `hash`/`deps`).  The byte payload of a message
  is abstracted to the list of changes it carries plus the number of chunks (`ChunkList::len`,
  which is what `changes.is_empty()` looks at).  `get_hashes(have_deps)` is modelled as "applied
  changes that are not ancestors of `have_deps`"; the Rust computes it with a per-actor sequence
  clock, which is the same set because the changes of one actor form an ancestry chain (M5
  invariant; validated by the differential run).  Errors of `load_incremental` (duplicate sequence
  numbers, corrupt chunks) cannot arise from changes made by honest peers and are not modelled.

  Forced Bloom false positives (hook `sync::verif_hooks::FORCE_FP`, consulted in `contains_hash`
  for filters that have entries and bits — an empty filter answers `false` before the hook) are the
  parameter `fp : Hash → Bool`.
-/
namespace AmVerif.Sync
open AmVerif

abbrev Hash := Bloom.Hash

/-! ### hashes as an ordered type (`ChangeHash: Ord` is the lexicographic order of the bytes) -/

def hashLt : Hash → Hash → Bool
  | [], [] => false
  | [], _ :: _ => true
  | _ :: _, [] => false
  | a :: as, b :: bs => if a < b then true else if b < a then false else hashLt as bs

/-- insertion into a strictly increasing list (a `BTreeSet::insert`) -/
def insertSorted (h : Hash) : List Hash → List Hash
  | [] => [h]
  | x :: xs => if h = x then x :: xs else if hashLt h x then h :: x :: xs else x :: insertSorted h xs

/-- `.unique().sorted()` / collecting into a `BTreeSet` / `sort` of a deduplicated set -/
def sortDedup (l : List Hash) : List Hash := l.foldr insertSorted []

/-! ### the document as sync sees it -/

structure Change where
  hash : Hash
  deps : List Hash
  deriving DecidableEq, Repr

structure Doc where
  /-- the change graph, most recently applied change first (so the dependencies of a change are
      in the tail after it) -/
  applied : List Change
  /-- `Automerge::queue`: received changes whose dependencies are not all applied -/
  queue : List Change
  deriving DecidableEq, Repr

namespace Doc

def empty : Doc := ⟨[], []⟩

def hashes (d : Doc) : List Hash := d.applied.map (·.hash)

/-- `Automerge::has_change` -/
def hasChange (d : Doc) (h : Hash) : Bool := d.hashes.contains h

/-- `change_graph.len()` -/
def len (d : Doc) : Nat := d.applied.length

def isDep (cs : List Change) (h : Hash) : Bool := cs.any (fun c => c.deps.contains h)

/-- `get_heads`: applied changes no applied change depends on, sorted -/
def heads (d : Doc) : List Hash :=
  sortDedup (d.hashes.filter (fun h => !isDep d.applied h))

/-- hashes of the applied changes reachable from `s` through `deps` (inclusive).  One pass from the
    newest change to the oldest suffices because dependencies are always older. -/
def ancestorsIn : List Change → List Hash → List Hash
  | [], _ => []
  | c :: rest, s =>
    if s.contains c.hash then c.hash :: ancestorsIn rest (c.deps ++ s) else ancestorsIn rest s

def ancestors (d : Doc) (hs : List Hash) : List Hash := ancestorsIn d.applied hs

/-- `change_graph.get_hashes(have_deps)`: all hashes when `have_deps` is empty, else the applied
    changes outside the history of `have_deps` (unknown hashes in `have_deps` are ignored), in
    application order. -/
def getHashes (d : Doc) (haveDeps : List Hash) : List Hash :=
  let anc := d.ancestors haveDeps
  (d.hashes.filter (fun h => !anc.contains h)).reverse

def findQueued (d : Doc) (h : Hash) : Option Change := d.queue.find? (fun c => c.hash == h)

/-- the `while let Some(hash) = stack.pop()` loop of `missing_deps_from`; the fuel bounds the
    number of pops (`start.length + Σ deps of queued changes`). -/
def missingLoop (d : Doc) : Nat → List Hash → List Hash → List Hash → List Hash
  | 0, _, _, missing => missing
  | _ + 1, [], _, missing => missing
  | fuel + 1, h :: stack, seen, missing =>
    if d.hasChange h || seen.contains h then missingLoop d fuel stack seen missing
    else
      match d.findQueued h with
      | some c => missingLoop d fuel (c.deps ++ stack) (h :: seen) missing
      | none => missingLoop d fuel stack (h :: seen) (h :: missing)

/-- `Automerge::missing_deps_from` -/
def missingDepsFrom (d : Doc) (start : List Hash) : List Hash :=
  let fuel := start.length + (d.queue.map (fun c => c.deps.length)).sum + 1
  sortDedup (missingLoop d fuel start [] [])

/-- `ReadDoc::get_missing_deps(heads)` -/
def getMissingDeps (d : Doc) (hs : List Hash) : List Hash :=
  d.missingDepsFrom (d.queue.map (·.hash) ++ hs)

def ready (applied : List Change) (c : Change) : Bool :=
  c.deps.all (fun h => (applied.map (·.hash)).contains h)

/-- one sweep over the queue applying every change whose dependencies are applied -/
def sweep : List Change → List Change → List Change × List Change
  | applied, [] => (applied, [])
  | applied, c :: q =>
    if ready applied c then sweep (c :: applied) q
    else
      let r := sweep applied q
      (r.1, c :: r.2)

/-- `pop_topo_sorted_ready` + apply: sweep until nothing more becomes ready -/
def drain : Nat → List Change → List Change → List Change × List Change
  | 0, applied, q => (applied, q)
  | n + 1, applied, q =>
    let r := sweep applied q
    if r.2.length = q.length then r else drain n r.1 r.2

/-- the dedup filter at the top of `apply_changes_batch_log_patches` -/
def enqueue (d : Doc) : List Change → List Change → List Change
  | q, [] => q
  | q, c :: cs =>
    if d.hasChange c.hash || (q.map (·.hash)).contains c.hash then enqueue d q cs
    else enqueue d (q ++ [c]) cs

/-- `apply_changes` / `load_incremental` (also the `is_empty()` load path, which ends in the same
    `apply_changes` on a fresh document) -/
def applyChanges (d : Doc) (cs : List Change) : Doc :=
  let q := enqueue d d.queue cs
  let r := drain (q.length + 1) d.applied q
  ⟨r.1, r.2⟩

/-- a local transaction commit: the new change depends on the current heads -/
def applyLocal (d : Doc) (c : Change) : Doc := { d with applied := c :: d.applied }

/-- `change_graph.remove_ancestors` as used by `filter_changes` -/
def filterChanges (d : Doc) (hs : List Hash) (changes : List Hash) : List Hash :=
  let anc := d.ancestors (hs.filter d.hasChange)
  changes.filter (fun h => !anc.contains h)

def lookup (d : Doc) (h : Hash) : Option Change := d.applied.find? (fun c => c.hash == h)

/-- `get_changes_by_hashes` on hashes known to be in the graph (others yield nothing; the Rust
    `.ok()?` would make `generate_sync_message` return `None`, unreachable because every hash
    passed comes from the graph) -/
def changesFor (d : Doc) (hs : List Hash) : List Change := hs.filterMap d.lookup

end Doc

/-! ### `sync/state.rs` -/

inductive Cap where
  | messageV1 | messageV2 | syncReset
  deriving DecidableEq, Repr

structure Have where
  lastSync : List Hash
  bloom : Bloom.Filter
  deriving DecidableEq, Repr

structure State where
  sharedHeads : List Hash := []
  lastSentHeads : List Hash := []
  theirHeads : Option (List Hash) := none
  theirNeed : Option (List Hash) := none
  theirHave : Option (List Have) := none
  /-- `BTreeSet<ChangeHash>`: strictly increasing list -/
  sentHashes : List Hash := []
  inFlight : Bool := false
  haveResponded : Bool := false
  theirCaps : Option (List Cap) := none
  readOnly : Bool := false
  peerReadOnly : Bool := false
  needsReset : Bool := false
  deriving DecidableEq, Repr

namespace State

/-- `State::new` -/
def new : State := {}

/-- `State::new_read_only` -/
def newReadOnly : State := { readOnly := true }

/-- `State::set_read_only` -/
def setReadOnly (s : State) (ro : Bool) : State :=
  if s.readOnly = ro then s
  else if s.readOnly && !ro then { theirCaps := s.theirCaps, readOnly := false, needsReset := true }
  else { s with readOnly := true, inFlight := false, haveResponded := false }

def hasCap (s : State) (c : Cap) : Bool :=
  match s.theirCaps with
  | some caps => caps.contains c
  | none => false

def peerSupportsSyncReset (s : State) : Bool := s.hasCap .syncReset
def supportsV2 (s : State) : Bool := s.hasCap .messageV2

/-- `State::send_doc` -/
def sendDoc (s : State) : Bool := s.theirHeads == some [] && s.supportsV2

def SYNC_STATE_TYPE : UInt8 := 0x43

/-- `encode_hashes` -/
def encodeHashes (hs : List Hash) : Bytes := Leb.ulebEncode hs.length ++ hs.flatten

/-- `State::encode`: only `shared_heads` persists -/
def encode (s : State) : Bytes := SYNC_STATE_TYPE :: encodeHashes s.sharedHeads

def parseHashes : Nat → Bytes → PResult (List Hash)
  | 0, i => .ok ([], i)
  | n + 1, i =>
    match Bloom.takeN 32 i with
    | .error e => .error e
    | .ok (h, i) =>
      match parseHashes n i with
      | .error e => .error e
      | .ok (hs, i) => .ok (h :: hs, i)

/-- `State::parse` / `State::decode` -/
def decode (input : Bytes) : Except PErr State :=
  match input with
  | [] => .error .incomplete
  | t :: i =>
    if t ≠ SYNC_STATE_TYPE then .error .invalid else
    match Leb.uleb64 i with
    | .error e => .error e
    | .ok (n, i) =>
      match parseHashes n i with
      | .error e => .error e
      | .ok (hs, _) =>
        .ok { sharedHeads := hs, lastSentHeads := [], theirHeads := none, theirNeed := none,
              theirHave := some [], sentHashes := [], inFlight := false, haveResponded := false,
              theirCaps := none, readOnly := false, peerReadOnly := false, needsReset := false }

end State

/-! ### messages -/

inductive Version where
  | v1 | v2
  deriving DecidableEq, Repr

def FLAG_SYNC_RESET : Nat := 1
def FLAG_READ_ONLY : Nat := 2
def FLAG_SUPPORTS_SYNC_RESET : Nat := 4

def flagSet (flags flag : Nat) : Bool := flags &&& flag != 0

structure Message where
  heads : List Hash
  need : List Hash
  have_ : List Have
  /-- the changes inside the chunks (for a V2 document chunk: every change of the document) -/
  changes : List Change
  /-- `ChunkList::len` -/
  chunks : Nat
  /-- `MessageFlags` bitfield, `none` when the flags section is absent (old peers) -/
  flags : Option Nat
  version : Version
  deriving DecidableEq, Repr

/-- `BloomFilter::from_hashes`; it cannot fail (`C23_fromHashes_total`), the fallback only keeps
    the function total. -/
def mkBloom (hs : List Hash) : Bloom.Filter :=
  match Bloom.fromHashes hs with
  | .ok f => f
  | _ => Bloom.default

/-- what the sender sees when it asks the filter (`contains_hash`, which cannot fail:
    `C23_contains_total`): a filter without entries or bits contains nothing — the hook is NOT
    consulted (an empty filter has no false positives); otherwise the hook first, then the probes -/
def bloomHas (fp : Hash → Bool) (f : Bloom.Filter) (h : Hash) : Bool :=
  if f.numEntries = 0 ∨ f.bits.isEmpty then false
  else
    fp h ||
    (match Bloom.containsHash f h with
     | .ok b => b
     | _ => false)

/-- `Message::reset` -/
def Message.reset (ourHeads : List Hash) : Message :=
  { heads := ourHeads, need := [], have_ := [⟨[], Bloom.default⟩], changes := [], chunks := 0,
    flags := some FLAG_SUPPORTS_SYNC_RESET, version := .v1 }

/-- `Automerge::make_bloom_filter` -/
def makeBloomFilter (d : Doc) (lastSync : List Hash) : Have :=
  ⟨lastSync, mkBloom (d.getHashes lastSync)⟩

/-- the `while let Some(hash) = stack.pop()` dependents closure of `get_hashes_to_send`:
    `dependents[x]` = the hashes of `pool` that list `x` among their deps.  Fuel: every push adds a
    new element of `pool` to `toSend`. -/
def closeDependents (pool : List Change) : Nat → List Hash → List Hash → List Hash
  | 0, _, toSend => toSend
  | _ + 1, [], toSend => toSend
  | fuel + 1, h :: stack, toSend =>
    let ds := (pool.filter (fun c => c.deps.contains h)).map (·.hash)
    let new := (ds.filter (fun x => !toSend.contains x)).eraseDups
    closeDependents pool fuel (new ++ stack) (new ++ toSend)

/-- `Automerge::get_hashes_to_send` -/
def hashesToSend (fp : Hash → Bool) (d : Doc) (have_ : List Have) (need : List Hash) : List Hash :=
  let need := need.filter d.hasChange
  if have_.isEmpty then need
  else
    let lastSyncHashes := (have_.map (·.lastSync)).flatten
    let hashes := d.getHashes lastSyncHashes
    let pool := hashes.filterMap d.lookup
    let direct := hashes.filter (fun h => have_.all (fun hv => !bloomHas fp hv.bloom h))
    let toSend := closeDependents pool (hashes.length + direct.length + 1) direct direct
    need.filter (fun h => !toSend.contains h) ++ hashes.filter (fun h => toSend.contains h)

/-- the part of `MessageBuilder` that `generate_sync_message` looks at -/
structure Builder where
  hashes : List Hash
  changes : List Change
  chunks : Nat
  version : Version
  deriving DecidableEq, Repr

/-- `MessageBuilder::new(changes, sync_state)`: V2 (one chunk, none when there is no data) if the
    peer advertised it, else V1 (one chunk per change) -/
def Builder.ofChanges (cs : List Change) (s : State) : Builder :=
  if s.supportsV2 then
    ⟨cs.map (·.hash), cs, if cs.isEmpty then 0 else 1, .v2⟩
  else ⟨cs.map (·.hash), cs, cs.length, .v1⟩

/-- `MessageBuilder::new_v2(self.save(), all_hashes)`: `save()` is never empty, so there is always
    one chunk, even for a document without changes; `save()` (default `retain_orphans = true`)
    appends the queued orphan changes after the document chunk, while `all_hashes` are the hashes
    of the change graph only -/
def Builder.ofDoc (d : Doc) : Builder := ⟨d.hashes.reverse, d.applied.reverse ++ d.queue, 1, .v2⟩

/-- the `let message_builder = …` expression of `generate_sync_message` -/
def mkBuilder (fp : Hash → Bool) (d : Doc) (s : State) : Builder :=
  if s.peerReadOnly then Builder.ofChanges [] s
  else
    match s.theirHave, s.theirNeed with
    | some theirHave, some theirNeed =>
      if s.sendDoc then Builder.ofDoc d
      else
        let all := hashesToSend fp d theirHave theirNeed
        let hashes := all.filter (fun h => !s.sentHashes.contains h)
        if hashes.length > d.len / 3 && s.supportsV2 then Builder.ofDoc d
        else Builder.ofChanges (d.changesFor hashes) s
    | _, _ => Builder.ofChanges [] s

/-- "their last_sync is unknown to us": answer with a reset message -/
def resetCond (d : Doc) (s : State) : Bool :=
  match s.theirHave with
  | some (h :: _) => !(h.lastSync.all d.hasChange)
  | _ => false

def ourNeed (d : Doc) (s : State) : List Hash :=
  if s.readOnly then [] else d.missingDepsFrom (s.theirHeads.getD [])

def ourHave (d : Doc) (s : State) : List Have :=
  if (ourNeed d s).all (fun h => (s.theirHeads.getD []).contains h) then
    [makeBloomFilter d s.sharedHeads]
  else []

/-- the two `return None` exits -/
def quiet (d : Doc) (s : State) (b : Builder) : Bool :=
  let headsUnchanged := s.lastSentHeads == d.heads
  let headsEqual := s.theirHeads == some d.heads
  headsUnchanged && s.haveResponded &&
    (((headsEqual || s.readOnly) && b.hashes.isEmpty) || s.inFlight)

def outFlags (s : State) : Nat :=
  FLAG_SUPPORTS_SYNC_RESET
  ||| (if s.readOnly then FLAG_READ_ONLY else 0)
  ||| (if s.needsReset && s.peerSupportsSyncReset then FLAG_SYNC_RESET else 0)

def headsToSend (d : Doc) (s : State) : List Hash :=
  if s.needsReset && !s.peerSupportsSyncReset then [] else d.heads

/-- the state after a message has been built -/
def sentState (d : Doc) (s : State) (b : Builder) : State :=
  { s with haveResponded := true, lastSentHeads := d.heads,
           sentHashes := b.hashes.foldl (fun acc h => insertSorted h acc) s.sentHashes,
           needsReset := false, inFlight := true }

def mkMessage (d : Doc) (s : State) (b : Builder) : Message :=
  { heads := headsToSend d s, need := ourNeed d s, have_ := ourHave d s, changes := b.changes,
    chunks := b.chunks, flags := some (outFlags s), version := b.version }

/-- `SyncDoc::generate_sync_message` -/
def generate (fp : Hash → Bool) (d : Doc) (s : State) : State × Option Message :=
  if resetCond d s then (s, some (Message.reset d.heads))
  else
    let b := mkBuilder fp d s
    if quiet d s b then (s, none)
    else (sentState d s b, some (mkMessage d s b))

/-- `advance_heads` -/
def advanceHeads (myOld myNew ourOldShared : List Hash) : List Hash :=
  sortDedup (myNew.filter (fun h => !myOld.contains h) ++ ourOldShared.filter (fun h => myNew.contains h))

/-- the `if let Some(flags) = message_flags` block -/
def recvFlags (s : State) (flags : Option Nat) : State :=
  match flags with
  | some f =>
    { s with theirCaps := some (Cap.messageV2 :: (if flagSet f FLAG_SUPPORTS_SYNC_RESET then [Cap.syncReset] else [])),
             sentHashes := if flagSet f FLAG_SYNC_RESET then [] else s.sentHashes,
             peerReadOnly := flagSet f FLAG_READ_ONLY }
  | none => s

/-- the document after `receive_sync_message`: the only mutation is guarded by `!read_only` -/
def recvDoc (d : Doc) (s : State) (m : Message) : Doc :=
  if m.chunks != 0 && !s.readOnly then d.applyChanges m.changes else d

/-- the tail of `receive_sync_message_inner` from `known_heads` on -/
def recvShared (d' : Doc) (s : State) (m : Message) : State :=
  let known := m.heads.filter d'.hasChange
  let s :=
    if known.length = m.heads.length then
      if m.heads.isEmpty then { s with sharedHeads := m.heads, lastSentHeads := [], sentHashes := [] }
      else { s with sharedHeads := m.heads }
    else { s with sharedHeads := sortDedup (s.sharedHeads ++ known) }
  { s with theirHave := some m.have_, theirHeads := some m.heads, theirNeed := some m.need }

/-- `SyncDoc::receive_sync_message` (the state part) -/
def recvState (d : Doc) (s : State) (m : Message) : State :=
  let beforeHeads := d.heads
  let s := recvFlags { s with inFlight := false } m.flags
  let d' := recvDoc d s m
  let s :=
    if m.chunks != 0 && !s.readOnly then
      { s with sharedHeads := advanceHeads beforeHeads d'.heads s.sharedHeads }
    else s
  let s := { s with sentHashes := d'.filterChanges m.heads s.sentHashes }
  let s := if m.chunks == 0 && m.heads == beforeHeads then { s with lastSentHeads := m.heads } else s
  recvShared d' s m

/-- `SyncDoc::receive_sync_message` -/
def receive (d : Doc) (s : State) (m : Message) : Doc × State :=
  (recvDoc d (recvFlags { s with inFlight := false } m.flags) m, recvState d s m)

end AmVerif.Sync
