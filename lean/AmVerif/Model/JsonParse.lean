import AmVerif.Model.Json
/-
  M12c: JSON text → `Json`, as `serde_json::from_str::<Value>` does it in this build
  (`float_roundtrip` on: decimal → binary64 is correctly rounded; no `arbitrary_precision`).
  Used by the driver so that the model decides by itself which class (`i64 | u64 | f64`) and which
  bits a number literal has; not used in theorems (serde_json's parser is third-party code).

  Number classification (serde_json `de.rs::parse_integer / parse_number`):
    * no fraction, no exponent, non-negative, ≤ u64::MAX        → PosInt  (→ `int` or `uint`)
    * no fraction, no exponent, negative, magnitude ≠ 0, ≥ i64::MIN → NegInt (→ `int`)
    * `-0`                                                        → Float −0.0
    * everything else                                             → Float, nearest-even; an infinite result is
                                                                    the error "number out of range"
  Objects: entries inserted one after the other into a `BTreeMap` (`fromEntries`): last duplicate wins.

  NOTE (finding C33 [float-text-parse]).  This is the parser of the SPECIFICATION (and of the
  harness, whose serde_json has `float_roundtrip`).  The `automerge` CLI binary links serde_json
  with default features only, whose decimal → f64 conversion is not correctly rounded outside the
  exact fast path (≤ 15 significant digits, |effective exponent| ≤ 22): `914.0E-22` becomes
  9.140000000000001e-20, `1.7976931348623158e308` is rejected as out of range.  On such literals
  the model and the binary disagree, and the harness prints `! C33 [float-text-parse] …`.
-/
namespace AmVerif.JsonParse
open AmVerif

def pow2_52 : Nat := 4503599627370496
def pow2_53 : Nat := 9007199254740992

def bitLen (n : Nat) : Nat := if n = 0 then 0 else Nat.log2 n + 1

/-- nearest binary64 (ties to even) of the positive rational `num/den`, as a bit pattern without
    sign; `none` when it rounds to infinity -/
def ratToF64 (num den : Nat) : Option Nat :=
  if num = 0 then some 0 else
  -- num/den · 2^(−e0) lies in (2^52, 2^54)
  let e0 : Int := (bitLen num : Int) - (bitLen den : Int) - 53
  let quot (e : Int) : Nat × Nat × Nat :=          -- (q, r, d) with num·2^(−e) = q·d' + r
    if e ≥ 0 then
      let d := den * 2 ^ e.toNat
      (num / d, num % d, d)
    else
      let n := num * 2 ^ (-e).toNat
      (n / den, n % den, den)
  let e1 : Int := if (quot e0).1 ≥ pow2_53 then e0 + 1 else e0
  let e2 : Int := if e1 < -1074 then -1074 else e1
  let (q, r, d) := quot e2
  let q := if 2 * r > d || (2 * r == d && q % 2 == 1) then q + 1 else q
  let (q, e3) : Nat × Int := if q == pow2_53 then (pow2_52, e2 + 1) else (q, e2)
  if e3 > 971 then none
  else if q < pow2_52 then some q
  else some ((e3 + 1075).toNat * pow2_52 + (q - pow2_52))

def isDigit (c : Char) : Bool := '0' ≤ c && c ≤ '9'
def digitVal (c : Char) : Nat := c.toNat - 48

def takeDigits : List Char → List Char × List Char
  | [] => ([], [])
  | c :: cs => if isDigit c then let (d, r) := takeDigits cs; (c :: d, r) else ([], c :: cs)

def natOfDigits (ds : List Char) : Nat := ds.foldl (fun a c => a * 10 + digitVal c) 0

def skipWs : List Char → List Char
  | [] => []
  | c :: cs => if c == ' ' || c == '\n' || c == '\t' || c == '\r' then skipWs cs else c :: cs

def signBit : Nat := 9223372036854775808

/-- a JSON number literal at the head of the input -/
def parseNumber (cs : List Char) : Option (JNum × List Char) :=
  let (neg, cs) := match cs with
    | '-' :: r => (true, r)
    | _ => (false, cs)
  let (ip, cs) := takeDigits cs
  if ip.isEmpty then none else
  if ip.length > 1 && ip.head? == some '0' then none else   -- leading zero
  let (fp, cs, hasFrac) := match cs with
    | '.' :: r => let (f, r') := takeDigits r; (f, r', true)
    | _ => ([], cs, false)
  if hasFrac && fp.isEmpty then none else
  let expPart : Option (Int × List Char × Bool) := match cs with
    | c :: r =>
      if c == 'e' || c == 'E' then
        let (eneg, r) := match r with
          | '-' :: r' => (true, r')
          | '+' :: r' => (false, r')
          | _ => (false, r)
        let (ed, r') := takeDigits r
        if ed.isEmpty then none
        else some ((if eneg then -(natOfDigits ed : Int) else (natOfDigits ed : Int)), r', true)
      else some (0, cs, false)
    | [] => some (0, cs, false)
  match expPart with
  | none => none
  | some (ex, rest, hasExp) =>
    let m := natOfDigits ip
    let asFloat (mant : Nat) (e10 : Int) : Option (JNum × List Char) :=
      let bits : Option Nat :=
        if mant = 0 then some 0
        else if e10 > 5000 then none
        else if e10 < -5000 then some 0
        else if e10 ≥ 0 then ratToF64 (mant * 10 ^ e10.toNat) 1
        else ratToF64 mant (10 ^ (-e10).toNat)
      match bits with
      | some b => some (.float (if neg then b + signBit else b), rest)
      | none => none
    if !hasFrac && !hasExp then
      if !neg then
        if m ≤ U64_MAX then
          if (m : Int) ≤ I64_MAX then some (.int m, rest) else some (.uint m, rest)
        else asFloat m 0
      else if m = 0 then some (.float signBit, rest)
      else if -(m : Int) ≥ I64_MIN then some (.int (-(m : Int)), rest)
      else asFloat m 0
    else
      asFloat (natOfDigits (ip ++ fp)) (ex - fp.length)

def hexVal? (c : Char) : Option Nat :=
  if '0' ≤ c ∧ c ≤ '9' then some (c.toNat - 48)
  else if 'a' ≤ c ∧ c ≤ 'f' then some (c.toNat - 87)
  else if 'A' ≤ c ∧ c ≤ 'F' then some (c.toNat - 55)
  else none

def hex4 : List Char → Option (Nat × List Char)
  | a :: b :: c :: d :: rest =>
    match hexVal? a, hexVal? b, hexVal? c, hexVal? d with
    | some a, some b, some c, some d => some (a * 4096 + b * 256 + c * 16 + d, rest)
    | _, _, _, _ => none
  | _ => none

/-- the body of a string literal after the opening quote; fuel bounds the number of steps -/
def parseStringBody : Nat → List Char → List Char → Option (String × List Char)
  | 0, _, _ => none
  | _ + 1, _, [] => none
  | f + 1, acc, c :: cs =>
    if c == '"' then some (String.ofList acc.reverse, cs)
    else if c == '\\' then
      match cs with
      | '"' :: r => parseStringBody f ('"' :: acc) r
      | '\\' :: r => parseStringBody f ('\\' :: acc) r
      | '/' :: r => parseStringBody f ('/' :: acc) r
      | 'b' :: r => parseStringBody f (Char.ofNat 8 :: acc) r
      | 'f' :: r => parseStringBody f (Char.ofNat 12 :: acc) r
      | 'n' :: r => parseStringBody f ('\n' :: acc) r
      | 'r' :: r => parseStringBody f ('\r' :: acc) r
      | 't' :: r => parseStringBody f ('\t' :: acc) r
      | 'u' :: r =>
        match hex4 r with
        | none => none
        | some (u, r) =>
          if 0xD800 ≤ u && u < 0xDC00 then
            match r with
            | '\\' :: 'u' :: r2 =>
              match hex4 r2 with
              | some (l, r3) =>
                if 0xDC00 ≤ l && l < 0xE000 then
                  parseStringBody f (Char.ofNat (0x10000 + (u - 0xD800) * 1024 + (l - 0xDC00)) :: acc) r3
                else none
              | none => none
            | _ => none
          else if 0xDC00 ≤ u && u < 0xE000 then none
          else parseStringBody f (Char.ofNat u :: acc) r
      | _ => none
    else if c.toNat < 32 then none
    else parseStringBody f (c :: acc) cs

def parseString (cs : List Char) : Option (String × List Char) :=
  match cs with
  | '"' :: r => parseStringBody (r.length + 1) [] r
  | _ => none

def expect (lit : List Char) (cs : List Char) : Option (List Char) :=
  if lit.isPrefixOf cs then some (cs.drop lit.length) else none

mutual
def parseValue : Nat → List Char → Option (Json × List Char)
  | 0, _ => none
  | f + 1, cs =>
    match skipWs cs with
    | 'n' :: r => (expect "ull".toList r).map (fun r => (Json.null, r))
    | 't' :: r => (expect "rue".toList r).map (fun r => (Json.bool true, r))
    | 'f' :: r => (expect "alse".toList r).map (fun r => (Json.bool false, r))
    | '"' :: r => (parseString ('"' :: r)).map (fun (s, r) => (Json.str s, r))
    | '[' :: r =>
      match skipWs r with
      | ']' :: r' => some (.arr [], r')
      | r' => (parseElems f [] r').map (fun (xs, r) => (Json.arr xs, r))
    | '{' :: r =>
      match skipWs r with
      | '}' :: r' => some (.obj [], r')
      | r' => (parseMembers f [] r').map (fun (kvs, r) => (Json.obj (fromEntries kvs), r))
    | c :: r =>
      if c == '-' || isDigit c then (parseNumber (c :: r)).map (fun (n, r) => (Json.num n, r))
      else none
    | [] => none
/-- elements after `[`, at least one; `acc` newest first -/
def parseElems : Nat → List Json → List Char → Option (List Json × List Char)
  | 0, _, _ => none
  | f + 1, acc, cs =>
    match parseValue f cs with
    | none => none
    | some (v, r) =>
      match skipWs r with
      | ',' :: r' => parseElems f (v :: acc) r'
      | ']' :: r' => some ((v :: acc).reverse, r')
      | _ => none
/-- members after `{`, at least one; in source order -/
def parseMembers : Nat → List (String × Json) → List Char → Option (List (String × Json) × List Char)
  | 0, _, _ => none
  | f + 1, acc, cs =>
    match parseString (skipWs cs) with
    | none => none
    | some (k, r) =>
      match skipWs r with
      | ':' :: r' =>
        match parseValue f r' with
        | none => none
        | some (v, r'') =>
          match skipWs r'' with
          | ',' :: r3 => parseMembers f ((k, v) :: acc) r3
          | '}' :: r3 => some (((k, v) :: acc).reverse, r3)
          | _ => none
      | _ => none
end

/-- a whole document: one value, then only whitespace -/
def parse (s : String) : Option Json :=
  let cs := s.toList
  match parseValue (2 * cs.length + 2) cs with
  | some (j, rest) => if (skipWs rest).isEmpty then some j else none
  | none => none

end AmVerif.JsonParse
