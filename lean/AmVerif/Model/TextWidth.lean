import AmVerif.Model.Local
/-
  M7: text widths.  `AmVerif.Crdt.width` (Model/Local) computes the width of a UTF-8 byte string in
  code points / UTF-8 units / UTF-16 units from the bytes alone (lead bytes, all bytes, lead bytes +
  4-byte lead bytes).  This file adds
  * the character-level reference (`widthChars` on Lean `Char`s: 1 / `utf8Size` / 1 or 2) and the
    UTF-8 encoder it is compared against in `Proofs/TextWidth`,
  * grapheme clusters: segmentation is not computable in core Lean, so the grapheme counter is a
    *parameter* `g : Bytes → Nat` (`widthWith g`); the harness runs `unicode-segmentation`.
  * the text of a text object, its length as the implementation computes it (sum of the widths of
    the winning value of every visible element) and as the property states it (width of the text).
-/
namespace AmVerif.Crdt
open AmVerif

/-- UTF-8 encoding of one scalar value (`char::encode_utf8`) -/
def utf8EncodeChar (c : Char) : Bytes :=
  let n := c.toNat
  if n < 0x80 then [UInt8.ofNat n]
  else if n < 0x800 then [UInt8.ofNat (0xC0 + n / 64), UInt8.ofNat (0x80 + n % 64)]
  else if n < 0x10000 then
    [UInt8.ofNat (0xE0 + n / 4096), UInt8.ofNat (0x80 + n / 64 % 64), UInt8.ofNat (0x80 + n % 64)]
  else
    [UInt8.ofNat (0xF0 + n / 262144), UInt8.ofNat (0x80 + n / 4096 % 64), UInt8.ofNat (0x80 + n / 64 % 64),
     UInt8.ofNat (0x80 + n % 64)]

def utf8Encode (cs : List Char) : Bytes := cs.flatMap utf8EncodeChar

/-- width of one scalar value: `chars().count()`, `len_utf8()`, `len_utf16()` -/
def charWidth (e : Enc) (c : Char) : Nat :=
  match e with
  | .cp => 1
  | .gc => 1
  | .utf8 => if c.toNat < 0x80 then 1 else if c.toNat < 0x800 then 2 else if c.toNat < 0x10000 then 3 else 4
  | .utf16 => if c.toNat < 0x10000 then 1 else 2

/-- the property's reading of a width: per scalar value -/
def widthChars (e : Enc) (cs : List Char) : Nat := (cs.map (charWidth e)).sum

/-- width with an external grapheme counter -/
def widthWith (g : Bytes → Nat) (e : Enc) (s : Bytes) : Nat :=
  match e with
  | .gc => g s
  | _ => width e s

/-- `Op::as_str`: the text an op contributes -/
def opStr (o : Op) : Bytes :=
  match o.action with
  | .put (.str s) => s
  | .markBegin .. => []
  | .markEnd _ => []
  | _ => [0xEF, 0xBF, 0xBC]

/-- winning value op of every visible element of a sequence, in document order (what `TopOps`
    yields once marks are filtered out) -/
def topOps (ops : List Op) (obj : ObjId) : List Op :=
  (seqRegs ops obj).filterMap (fun p => p.2.getLast?)

/-- `text()` -/
def textOf (ops : List Op) (obj : ObjId) : Bytes := (topOps ops obj).flatMap opStr

/-- `length()` of a text object: the sum of the per-element widths (the `text` index column);
    `g` counts the grapheme clusters of an element's string -/
def lengthWith (g : Bytes → Nat) (e : Enc) (ops : List Op) (obj : ObjId) : Nat :=
  ((topOps ops obj).map (fun o => widthWith g e (opStr o))).sum

/-- the grapheme counter the driver uses: every element the generator makes is one cluster
    (`splice_text` stores one cluster per element; the harness checks the assumption on every read) -/
def gOne (s : Bytes) : Nat := if s.isEmpty then 0 else 1

/-- `Op::width` for a sequence: 1 per element in a list; in a text marks are zero-width and values count
    the units of their string -/
def ow (g : Bytes → Nat) (e : Enc) (isText : Bool) (o : Op) : Nat :=
  if !isText then 1 else if o.isMark then 0 else widthWith g e (opStr o)

end AmVerif.Crdt
