import AmVerif.Model.Basic
/-
  M0: LEB128 as read by `rust/automerge/src/storage/parse/leb128.rs` (rejects over-long forms) and
  as written by the `leb128` crate (`leb128::write::unsigned/signed`).
-/
namespace AmVerif.Leb

/-- `leb128_u64`: the loop of leb128.rs with `res`/`shift` as accumulators; `u64` arithmetic is
    `Nat` modulo 2^64. -/
def ulebLoop : Bytes → (res shift : Nat) → PResult Nat
  | [], _, _ => .error .incomplete
  | b :: rest, res, shift =>
    let res' := (res ||| ((b.toNat &&& 0x7f) <<< shift)) % 2 ^ 64
    let shift' := shift + 7
    if b.toNat &&& 0x80 = 0 then
      if shift' > 64 ∧ b.toNat > 1 then .error .tooLarge
      else if shift' > 7 ∧ b.toNat = 0 then .error .overlong
      else .ok (res', rest)
    else if shift' > 64 then .error .tooLarge
    else ulebLoop rest res' shift'

def uleb64 (bs : Bytes) : PResult Nat := ulebLoop bs 0 0

/-- `leb128_u32` -/
def uleb32 (bs : Bytes) : PResult Nat :=
  match uleb64 bs with
  | .ok (n, r) => if n < 2 ^ 32 then .ok (n, r) else .error .tooLarge
  | .error e => .error e

/-- `leb128::write::unsigned` -/
def ulebEncode (n : Nat) : Bytes :=
  if n < 128 then [UInt8.ofNat n] else UInt8.ofNat (n % 128 + 128) :: ulebEncode (n / 128)
decreasing_by omega

end AmVerif.Leb
