import AmVerif.Model.Basic
/-
  M0: LEB128 as read by `rust/automerge/src/storage/parse/leb128.rs` (rejects over-long forms) and
  as written by the `leb128` crate (`leb128::write::unsigned/signed`).
-/
namespace AmVerif.Leb

/-- `leb128_u64`: the loop of leb128.rs with `res`/`shift` as accumulators; `u64` arithmetic is
    `Nat` modulo 2^64. -/
def ulebLoop : Bytes → (res shift : Nat) → PResult Nat
  | [], _, _ => .error .incomplete
  | b :: rest, res, shift =>
    let res' := (res ||| ((b.toNat &&& 0x7f) <<< shift)) % 2 ^ 64
    let shift' := shift + 7
    if b.toNat &&& 0x80 = 0 then
      if shift' > 64 ∧ b.toNat > 1 then .error .tooLarge
      else if shift' > 7 ∧ b.toNat = 0 then .error .overlong
      else .ok (res', rest)
    else if shift' > 64 then .error .tooLarge
    else ulebLoop rest res' shift'

def uleb64 (bs : Bytes) : PResult Nat := ulebLoop bs 0 0

/-- `leb128_u32` -/
def uleb32 (bs : Bytes) : PResult Nat :=
  match uleb64 bs with
  | .ok (n, r) => if n < 2 ^ 32 then .ok (n, r) else .error .tooLarge
  | .error e => .error e

/-- `leb128::write::unsigned` -/
def ulebEncode (n : Nat) : Bytes :=
  if n < 128 then [UInt8.ofNat n] else UInt8.ofNat (n % 128 + 128) :: ulebEncode (n / 128)
decreasing_by omega

/-- `nonzero_leb128_u64` -/
def nonzeroUleb64 (bs : Bytes) : PResult Nat :=
  match uleb64 bs with
  | .ok (n, r) => if n = 0 then .error .unexpectedZero else .ok (n, r)
  | .error e => .error e

/-- Reinterpret a 64-bit pattern (`Nat` below 2^64) as an `i64`. -/
def toI64 (n : Nat) : Int := if n < 2 ^ 63 then (n : Int) else (n : Int) - 2 ^ 64

/-- `leb128_i64`: the loop of leb128.rs with `res`/`shift`/`prev` as accumulators.  `res` is the
    two's-complement bit pattern of the Rust `i64` (a `Nat` modulo 2^64); it is reinterpreted as a
    signed number (`toI64`) when returned.  `-1 << shift` is the pattern `(2^64-1) <<< shift`
    truncated to 64 bits.  (`shift` never reaches 64 at a `<<`, so the Rust shifts cannot
    overflow-panic.) -/
def slebLoop : Bytes → (res shift : Nat) → (prev : UInt8) → PResult Int
  | [], _, _, _ => .error .incomplete
  | b :: rest, res, shift, prev =>
    let res' := (res ||| ((b.toNat &&& 0x7f) <<< shift)) % 2 ^ 64
    let shift' := shift + 7
    if b.toNat &&& 0x80 = 0 then
      if shift' > 64 ∧ b.toNat ≠ 0 ∧ b.toNat ≠ 0x7f then .error .tooLarge
      else if shift' > 7 ∧ ((b.toNat = 0 ∧ prev.toNat &&& 0x40 = 0)
                            ∨ (b.toNat = 0x7f ∧ prev.toNat &&& 0x40 > 0)) then .error .overlong
      else if shift' < 64 ∧ b.toNat &&& 0x40 > 0 then
        .ok (toI64 (res' ||| (((2 ^ 64 - 1) <<< shift') % 2 ^ 64)), rest)
      else .ok (toI64 res', rest)
    else if shift' > 64 then .error .tooLarge
    else slebLoop rest res' shift' b

def sleb64 (bs : Bytes) : PResult Int := slebLoop bs 0 0 0

/-- `leb128::write::signed`; `val` is meant to be in the `i64` range, `>>>` on `Int` is the
    arithmetic (flooring) shift, `val as u8` is `val mod 256`. -/
def slebEncode (val : Int) : Bytes :=
  let byte : UInt8 := UInt8.ofNat (val % 256).toNat
  let val6 := val >>> 6
  if val6 = 0 ∨ val6 = -1 then [byte &&& 0x7f]
  else (byte ||| 0x80) :: slebEncode (val6 >>> 1)
termination_by val.natAbs
decreasing_by
  have h : ¬(val >>> 6 = 0 ∨ val >>> 6 = -1) := by assumption
  simp only [Int.shiftRight_eq_div_pow] at h ⊢
  omega

end AmVerif.Leb
