import AmVerif.Model.Basic
/-
  C27 model, part 3 (fragment): `TransactionInner::update_list` (transaction/inner.rs, as fixed by
  /repo commit 072d9542b) on a list of scalars, at the level of the visible list (ops, ids and
  conflicts are not modelled; nested values, `update_map` and `batch_*` are NOT modelled — they are
  decided by the direct oracles of the `recon` harness engine).  Transcribed loop by loop:

    for (index, (old, new)) in zip(old_items ++ None…, new_values ++ None…).enumerate() {
        (Some, Some) => update_value(list, Seq(index), new, Some(old))   // scalar: put(index, new)
        (Some, None) => to_delete += 1
        (None, Some) => update_value(list, Seq(index), new, None)        // scalar: insert(index, new)
        (None, None) => break }
    let keep = new_value.len();
    for i in (keep..keep + to_delete).rev() { delete(list, Seq(i)) }
-/
namespace AmVerif.Reconcile

/-- body of the zip loop at position `i` -/
def zipStep {α : Type} (old new : List α) (acc : List α) (i : Nat) : List α :=
  match old[i]?, new[i]? with
  | some _, some v => acc.set i v
  | none, some v => acc.insertIdx i v
  | _, _ => acc

/-- `for i in (keep..keep + d).rev() { delete(i) }` -/
def delLoop {α : Type} (keep : Nat) : (d : Nat) → List α → List α
  | 0, acc => acc
  | d+1, acc => delLoop keep d (acc.eraseIdx (keep + d))

/-- `update_list` on scalars -/
def updateListFlat {α : Type} (old new : List α) : List α :=
  let acc := (List.range (max old.length new.length)).foldl (zipStep old new) old
  let toDelete := old.length - new.length
  delLoop new.length toDelete acc

/-- the code before the fix: `for i in (0..to_delete).rev() { delete(i) }` -/
def updateListFlatBeforeFix {α : Type} (old new : List α) : List α :=
  let acc := (List.range (max old.length new.length)).foldl (zipStep old new) old
  delLoop 0 (old.length - new.length) acc

/-! ### nested values: `update_object` / `update_map` / `update_list` / `update_value`

  Value-level transcription (what `hydrate` shows, conflicts ignored; ops, ids, preds are not
  modelled).  Scalars and texts are kept as their wire tokens; map keys as hex strings, a map is an
  association list sorted by key.  `(Text, Text)` reconciliation is `update_text`
  (`Model/UpdateText.lean`; reaches its target for aligned texts, `C27_update_text_aligned_partial`)
  and is summarised here by its target.  The mutual recursion of the Rust is bounded by fuel
  (`none` = out of fuel). -/

inductive Val where
  | scalar (tok : String)
  | text (hex : String)
  | list (xs : List Val)
  | map (kvs : List (String × Val))
  deriving Repr, Inhabited

def lookupKey (k : String) : List (String × Val) → Option Val
  | [] => none
  | (k', v) :: r => if k' == k then some v else lookupKey k r

/-- `put` on a map (sorted by key) -/
def insertKey (k : String) (v : Val) : List (String × Val) → List (String × Val)
  | [] => [(k, v)]
  | (k', v') :: r =>
    if k == k' then (k, v) :: r
    else if k < k' then (k, v) :: (k', v') :: r
    else (k', v') :: insertKey k v r

def eraseKey (k : String) : List (String × Val) → List (String × Val)
  | [] => []
  | (k', v') :: r => if k' == k then r else (k', v') :: eraseKey k r

/-- `update_list` with `rec` standing for `update_value` -/
def updateListWith (rec : Option Val → Val → Option Val) (old new : List Val) : Option (List Val) := do
  let acc ← (List.range (max old.length new.length)).foldlM (fun acc i =>
    match old[i]?, new[i]? with
    | some o, some v => do let r ← rec (some o) v; pure (acc.set i r)
    | none, some v => do let r ← rec none v; pure (acc.insertIdx i r)
    | _, _ => pure acc) old
  pure (delLoop new.length (old.length - new.length) acc)

/-- `update_map` with `rec` standing for `update_value`: existing keys in `map_range` (key) order are
    updated or marked for deletion, then the additions in key order, then the deletions in key order -/
def updateMapWith (rec : Option Val → Val → Option Val) (old new : List (String × Val)) :
    Option (List (String × Val)) := do
  let (acc, delenda) ← old.foldlM (fun (st : List (String × Val) × List String) (kv : String × Val) =>
    match lookupKey kv.1 new with
    | some nv => do let r ← rec (some kv.2) nv; pure (insertKey kv.1 r st.1, st.2)
    | none => pure (st.1, st.2 ++ [kv.1])) (old, [])
  let additions := new.filter fun kv => (lookupKey kv.1 old).isNone
  let acc ← additions.foldlM (fun acc kv => do let r ← rec none kv.2; pure (insertKey kv.1 r acc)) acc
  pure (delenda.foldl (fun acc k => eraseKey k acc) acc)

/-- `update_value(parent, key, new, old)`: what the register holds afterwards -/
def updateValue : Nat → Option Val → Val → Option Val
  | 0, _, _ => none
  | f+1, some (.map o), .map n => (updateMapWith (updateValue f) o n).map .map
  | f+1, some (.list o), .list n => (updateListWith (updateValue f) o n).map .list
  | _+1, some (.text _), .text n => some (.text n)
  -- "changing the type of the existing object, or inserting an entirely new object"
  | f+1, _, .map n => (updateMapWith (updateValue f) [] n).map .map
  | f+1, _, .list n => (updateListWith (updateValue f) [] n).map .list
  | _+1, _, .text n => some (.text n)
  | _+1, _, .scalar s => some (.scalar s)

inductive UErr where
  | changeType      -- `UpdateObjectError::ChangeType`
  | outOfFuel
  deriving Repr, DecidableEq

/-- `update_object(obj, new)` where `obj` currently hydrates to `old` -/
def updateObject (fuel : Nat) (old new : Val) : Except UErr Val :=
  let run (r : Option Val) : Except UErr Val := match r with | some v => .ok v | none => .error .outOfFuel
  match old, new with
  | .map o, .map n => run ((updateMapWith (updateValue fuel) o n).map .map)
  | .list o, .list n => run ((updateListWith (updateValue fuel) o n).map .list)
  | .text _, .text n => .ok (.text n)
  | _, _ => .error .changeType

/-! wire format `M{khex=V;…}  L[V;…]  T<hex>  <scalar token>` -/

def stopChar (c : Char) : Bool := c == ';' || c == ']' || c == '}'

mutual
def parseVal : Nat → List Char → Option (Val × List Char)
  | 0, _ => none
  | f+1, 'M' :: '{' :: rest => parseEntries f rest []
  | f+1, 'L' :: '[' :: rest => parseItems f rest []
  | _+1, 'T' :: rest => some (.text (String.ofList (rest.takeWhile (fun c => !stopChar c))), rest.dropWhile (fun c => !stopChar c))
  | _+1, cs => some (.scalar (String.ofList (cs.takeWhile (fun c => !stopChar c))), cs.dropWhile (fun c => !stopChar c))
def parseEntries : Nat → List Char → List (String × Val) → Option (Val × List Char)
  | 0, _, _ => none
  | _+1, '}' :: rest, acc => some (.map acc.reverse, rest)
  | f+1, cs, acc =>
    let key := String.ofList (cs.takeWhile (· != '='))
    match cs.dropWhile (· != '=') with
    | '=' :: r =>
      match parseVal f r with
      | some (v, ';' :: r') => parseEntries f r' ((key, v) :: acc)
      | some (v, r') => parseEntries f r' ((key, v) :: acc)
      | none => none
    | _ => none
def parseItems : Nat → List Char → List Val → Option (Val × List Char)
  | 0, _, _ => none
  | _+1, ']' :: rest, acc => some (.list acc.reverse, rest)
  | f+1, cs, acc =>
    match parseVal f cs with
    | some (v, ';' :: r') => parseItems f r' (v :: acc)
    | some (v, r') => parseItems f r' (v :: acc)
    | none => none
end

def parse (s : String) : Option Val :=
  match parseVal (s.length + 1) s.toList with
  | some (v, []) => some v
  | _ => none

def showFuel : Nat → Val → String     -- `fuel`-bounded printer
  | 0, _ => "?"
  | _+1, .scalar t => t
  | _+1, .text h => "T" ++ h
  | f+1, .list xs => "L[" ++ ";".intercalate (xs.map (showFuel f)) ++ "]"
  | f+1, .map kvs => "M{" ++ ";".intercalate (kvs.map fun kv => kv.1 ++ "=" ++ showFuel f kv.2) ++ "}"

def showVal (v : Val) : String := showFuel 64 v

end AmVerif.Reconcile
