import AmVerif.Model.Basic
/-
  C27 model, part 3 (fragment): `TransactionInner::update_list` (transaction/inner.rs) on a list of
  scalars, at the level of the visible list (ops, ids and conflicts are not modelled; nested values,
  `update_map` and `batch_*` are NOT modelled — they are decided by the direct oracles of the `recon`
  harness engine).  Transcribed loop by loop:

    for (index, (old, new)) in zip(old_items ++ None…, new_values ++ None…).enumerate() {
        (Some, Some) => update_value(list, Seq(index), new, Some(old))   // scalar: put(index, new)
        (Some, None) => to_delete += 1
        (None, Some) => update_value(list, Seq(index), new, None)        // scalar: insert(index, new)
        (None, None) => break }
    for i in (0..to_delete).rev() { delete(list, Seq(i)) }
-/
namespace AmVerif.Reconcile

/-- `update_list` on scalars -/
def updateListFlat {α : Type} (old new : List α) : List α :=
  let step (acc : List α) (i : Nat) : List α :=
    match old[i]?, new[i]? with
    | some _, some v => acc.set i v
    | none, some v => acc.insertIdx i v
    | _, _ => acc
  let acc := (List.range (max old.length new.length)).foldl step old
  let toDelete := old.length - new.length
  (List.range toDelete).reverse.foldl (fun acc i => acc.eraseIdx i) acc

end AmVerif.Reconcile
