import AmVerif.Model.Graph
import AmVerif.Model.Leb128
import AmVerif.Generated.Consts
/-
  Local editing calls (transaction/inner.rs) at the level of the op set: which operations a call
  appends to the open transaction — pred selection, reference element, ids — and which calls fail.
  Together with `Spec` this is the sequential reading of C03; together with `Graph` it gives the
  metadata of the committed change (C04).
-/
namespace AmVerif.Crdt
open AmVerif

inductive EditErr where
  | index | objid | invalidOp | missingCounter | other
  deriving DecidableEq, Repr

def EditErr.show : EditErr → String
  | .index => "index" | .objid => "objid" | .invalidOp => "invalidop"
  | .missingCounter => "missingcounter" | .other => "other"

/-- text encodings whose widths are functions of the UTF-8 bytes -/
inductive Enc where
  | cp | utf8 | utf16 | gc
  deriving DecidableEq, Repr, Inhabited

/-- width of a UTF-8 string in code points / UTF-8 units / UTF-16 units (types.rs `TextEncoding::width`);
    for grapheme clusters the harness only uses single-cluster elements, counted as the number of
    non-combining scalar values is NOT modelled: `gc` falls back to code points and is excluded
    from the differential run. -/
def width (e : Enc) (s : Bytes) : Nat :=
  let isCont (b : UInt8) : Bool := b.toNat / 64 == 2
  let cps := (s.filter (fun b => !isCont b)).length
  match e with
  | .cp => cps
  | .gc => cps
  | .utf8 => s.length
  | .utf16 => cps + (s.filter (fun b => b.toNat ≥ 0xF0)).length

/-- `Op::as_str` width: strings by their own width, anything else as U+FFFC, marks 0 -/
def opWidth (e : Enc) (isText : Bool) (o : Op) : Nat :=
  if !isText then 1 else
  match o.action with
  | .put (.str s) => width e s
  | .markBegin .. => 0
  | .markEnd _ => 0
  | _ => width e [0xEF, 0xBF, 0xBC]

/-- visible ops (ascending id) of a map key -/
def mapRegOps (ops : List Op) (obj : ObjId) (k : Bytes) : List Op :=
  sortById (ops.filter (fun o => o.obj == obj && o.key == .map k && visible ops o))

/-- visible ops (ascending id) of a sequence element -/
def elemRegOps (ops : List Op) (obj : ObjId) (e : OpId) : List Op :=
  sortById (ops.filter (fun o => o.obj == obj && o.elem == some e && visible ops o))

/-- visible elements of a sequence in order with their visible ops -/
def seqRegs (ops : List Op) (obj : ObjId) : List (OpId × List Op) :=
  (rgaOrder ops obj).filterMap (fun e =>
    if e.isMark then none else
    match elemRegOps ops obj e.id with
    | [] => none
    | r => some (e.id, r))

/-- `OpsFound::resolve_action`: `none` = nothing to do; otherwise the action and the ops it supersedes -/
def resolveAction (ops : List Op) (reg : List Op) (a : Action) : Option (Action × List Op) :=
  match reg.getLast? with
  | some last =>
    match a, last.action with
    | .put v, .put w =>
      -- a stored counter compares by its CURRENT value (`Counter: PartialEq` compares `current`)
      let w' := match w with | .counter i => Scalar.counter (counterValue ops last i) | x => x
      if v == w' then (if reg.length == 1 then none else some (.del, reg.dropLast)) else some (a, reg)
    | _, _ => some (a, reg)
  | none => if a == .del then none else some (a, reg)

structure Tx where
  actor : Bytes
  startOp : Nat
  pending : List Op := []
  deriving Repr, Inhabited

def Tx.nextId (t : Tx) (extra : Nat := 0) : OpId := ⟨t.startOp + t.pending.length + extra, t.actor⟩

/-- `get_obj_meta`: the object must exist in the op set (visible or not) -/
def objMeta (ops : List Op) (obj : ObjId) : Except EditErr ObjType :=
  match objType ops obj with
  | some t => .ok t
  | none => .error .objid

def isSeq (t : ObjType) : Bool := t == .list || t == .text

/-- `local_map_op` -/
def localMapOp (ops : List Op) (t : Tx) (obj : ObjId) (k : Bytes) (a : Action) : Except EditErr (List Op) :=
  let reg := mapRegOps ops obj k
  match resolveAction ops reg a with
  | none => .ok []
  | some (act, preds) =>
    let isIncr := match act with | .inc _ => true | _ => false
    if isIncr && preds.all (fun o => !o.isCounterPut) then .error .missingCounter
    else .ok [⟨t.nextId, obj, .map k, false, act, preds.map (·.id)⟩]

/-- `seek_ops_by_index`: the visible element containing unit `index` (elements have width ≥ 1 in
    lists; in text an element of width w covers w units), with the unit index at which it starts -/
def seekByIndex (e : Enc) (isText : Bool) : List (OpId × List Op) → Nat → Nat → Option (OpId × List Op × Nat)
  | [], _, _ => none
  | (id, r) :: rest, index, start =>
    let w := match r.getLast? with | some o => opWidth e isText o | none => 0
    if index < start + w then some (id, r, start) else seekByIndex e isText rest index (start + w)

/-- `local_list_op` -/
def localListOp (e : Enc) (ops : List Op) (t : Tx) (obj : ObjId) (ty : ObjType) (index : Nat) (a : Action) :
    Except EditErr (List Op) :=
  if !isSeq ty then .error .invalidOp else
  match seekByIndex e (ty == .text) (seqRegs ops obj) index 0 with
  | none => .error .index
  | some (eid, reg, _) =>
    match resolveAction ops reg a with
    | none => .ok []
    | some (act, preds) =>
      let isIncr := match act with | .inc _ => true | _ => false
      if isIncr && preds.all (fun o => !o.isCounterPut) then .error .missingCounter
      else .ok [⟨t.nextId, obj, .elem eid, false, act, preds.map (·.id)⟩]

/-- `query_insert_at` without marks: the reference element for an insertion at unit `target`:
    HEAD for 0, else the first visible element at whose end the running width reaches `target` -/
def insertRef (e : Enc) (isText : Bool) : List (OpId × List Op) → Nat → Nat → Key → Except EditErr (Key × Nat)
  | [], target, acc, last => if acc ≥ target then .ok (last, acc) else .error .index
  | (id, r) :: rest, target, acc, last =>
    if acc ≥ target then .ok (last, acc) else
    let w := match r.getLast? with | some o => opWidth e isText o | none => 0
    insertRef e isText rest target (acc + w) (.elem id)

/-- `put` / `put_object` / `increment` / `delete` (non-text) dispatch of `local_op` with the
    kind checks of `TransactionInner::put` -/
def localPut (e : Enc) (ops : List Op) (t : Tx) (obj : ObjId) (prop : Sum Bytes Nat) (a : Action)
    (checkKind : Bool) : Except EditErr (List Op) :=
  match objMeta ops obj with
  | .error err => .error err
  | .ok ty =>
    match prop with
    | .inl k =>
      if checkKind && !(ty == .map) then .error .invalidOp
      else localMapOp ops t obj k a
    | .inr i =>
      if checkKind && !isSeq ty then .error .invalidOp
      else localListOp e ops t obj ty i a

/-- `insert` / `insert_object` -/
def localInsert (e : Enc) (ops : List Op) (t : Tx) (obj : ObjId) (index : Nat) (a : Action) :
    Except EditErr (List Op) :=
  match objMeta ops obj with
  | .error err => .error err
  | .ok ty =>
    if !isSeq ty then .error .invalidOp else
    match insertRef e (ty == .text) (seqRegs ops obj) index 0 .head with
    | .error err => .error err
    | .ok (key, _) => .ok [⟨t.nextId, obj, key, true, a, []⟩]

/-- the insert ops of `splice_text`: one element per piece, each keyed on the previous one -/
def chainInserts (t : Tx) (obj : ObjId) : List Bytes → Key → Nat → List Op
  | [], _, _ => []
  | p :: ps, key, n =>
    let id := t.nextId n
    ⟨id, obj, key, true, .put (.str p), []⟩ :: chainInserts t obj ps (.elem id) (n + 1)

/-- the delete loop of `inner_splice`: delete whole elements from unit `delIndex` on until `del`
    units are gone; an index inside a multi-unit element moves to the next element first -/
def deleteLoop (e : Enc) (isText : Bool) (t : Tx) (obj : ObjId) :
    Nat → List Op → Nat → Nat → Nat → List Op → List Op
  | 0, _, _, _, _, acc => acc
  | fuel + 1, ops, delIndex, deleted, del, acc =>
    if deleted ≥ del then acc else
    match seekByIndex e isText (seqRegs ops obj) delIndex 0 with
    | none => acc
    | some (eid, reg, start) =>
      let step := match reg.getLast? with | some o => opWidth e isText o | none => 0
      if start < delIndex then deleteLoop e isText t obj fuel ops (start + step) deleted del acc
      else
        let op : Op := ⟨t.nextId acc.length, obj, .elem eid, false, .del, reg.map (·.id)⟩
        deleteLoop e isText t obj fuel (ops ++ [op]) delIndex (deleted + step) del (acc ++ [op])

/-- split UTF-8 bytes into scalar values (what `chars()` yields) -/
def utf8Chars : Bytes → List Bytes
  | [] => []
  | b :: rest =>
    let n := if b.toNat < 0x80 then 0 else if b.toNat < 0xE0 then 1 else if b.toNat < 0xF0 then 2 else 3
    (b :: rest.take n) :: utf8Chars (rest.drop n)
termination_by bs => bs.length
decreasing_by simp; omega

/-- `splice_text(pos, del, text)` for `del ≥ 0`: inserts first, then deletes after the inserted run -/
def localSpliceText (e : Enc) (ops : List Op) (t : Tx) (obj : ObjId) (index del : Nat) (text : Bytes) :
    Except EditErr (List Op) :=
  match objMeta ops obj with
  | .error err => .error err
  | .ok ty =>
    if ty != .text then .error .invalidOp else
    let pieces := utf8Chars text
    match (if pieces.isEmpty then (.ok (.head, index) : Except EditErr (Key × Nat))
           else insertRef e true (seqRegs ops obj) index 0 .head) with
    | .error err => .error err
    | .ok (key, idx) =>
      let ins := chainInserts t obj pieces key 0
      let insertedWidth := (pieces.map (width e)).foldl (· + ·) 0
      let t' : Tx := { t with pending := t.pending ++ ins }
      let dels := deleteLoop e true t' obj (del + 1) (ops ++ ins) (idx + insertedWidth) 0 del []
      .ok (ins ++ dels)

/-- `transaction_args` (non-isolated): seq, start op and deps of the next local change -/
def Doc.maxOp (d : Doc) : Nat := d.applied.foldl (fun m c => max m (c.startOp + c.ops.length - 1)) 0

def Doc.beginTx (d : Doc) (actor : Bytes) : Tx := ⟨actor, d.maxOp + 1, []⟩

def Doc.localDeps (d : Doc) (actor : Bytes) : List Hash :=
  let hs := d.heads
  match (d.applied.filter (fun c => c.actor == actor)).getLast? with
  | some last => if hs.contains last.hash then hs else hs ++ [last.hash]
  | none => hs

/-! ### string migration (`convert_scalar_strings_to_text`, automerge.rs) -/

/-- every object of the op set in `iter_objs` order: root, then make ops ascending by id -/
def allObjects (ops : List Op) : List (ObjId × ObjType) :=
  (ObjId.root, ObjType.map) ::
    (sortById (ops.filter (fun o => match o.action with | .make _ => true | _ => false))).filterMap
      (fun o => match o.action with | .make t => some (ObjId.id o.id, t) | _ => none)

/-- the conversions collected by the first loop: (object, property, string) for every VISIBLE string
    op of every map / list object — reachable from the root or not -/
def conversions (ops : List Op) : List (ObjId × Sum Bytes Nat × Bytes) :=
  (allObjects ops).flatMap (fun (obj, ty) =>
    match ty with
    | .map =>
      (mapKeys ops obj).flatMap (fun k =>
        (mapRegOps ops obj k).filterMap (fun o =>
          match o.action with | .put (.str s) => some (obj, Sum.inl k, s) | _ => none))
    | .list =>
      ((seqRegs ops obj).zipIdx).flatMap (fun (p : (OpId × List Op) × Nat) =>
        p.1.2.filterMap (fun o =>
          match o.action with | .put (.str s) => some (obj, Sum.inr p.2, s) | _ => none))
    | _ => [])

/-- the second loop: one transaction of `put_object(Text)` + `splice_text(0, 0, s)` per conversion -/
def applyConversions (e : Enc) (ops : List Op) (t : Tx) :
    List (ObjId × Sum Bytes Nat × Bytes) → Except EditErr Tx
  | [] => .ok t
  | (obj, prop, s) :: rest =>
    match localPut e (ops ++ t.pending) t obj prop (.make .text) true with
    | .error err => .error err
    | .ok newOps =>
      let t1 : Tx := { t with pending := t.pending ++ newOps }
      match newOps.head? with
      | none => .error .other
      | some mk =>
        match localSpliceText e (ops ++ t1.pending) t1 (.id mk.id) 0 0 s with
        | .error err => .error err
        | .ok more => applyConversions e ops { t1 with pending := t1.pending ++ more } rest

/-- `ActorId::with_concurrency(level)` -/
def withConcurrency (base : Bytes) (level : Nat) : Bytes :=
  Consts.CONCURRENCY_MAGIC_BYTES ++ Leb.ulebEncode level ++ base

/-- `isolate_actor`: the first of base, with_concurrency(1), with_concurrency(2), … whose last
    applied change (if any) is an ancestor of `heads` -/
def isolateActorLoop (d : Doc) (base : Bytes) (anc : List Hash) : Nat → Nat → Bytes
  | 0, level => if level == 0 then base else withConcurrency base level
  | fuel + 1, level =>
    let a := if level == 0 then base else withConcurrency base level
    match (d.applied.filter (fun c => c.actor == a)).getLast? with
    | none => a
    | some last => if anc.contains last.hash then a else isolateActorLoop d base anc fuel (level + 1)

def Doc.isolateActor (d : Doc) (base : Bytes) (heads : List Hash) : Bytes :=
  isolateActorLoop d base (d.ancestors heads) (d.applied.length + 1) 0

end AmVerif.Crdt
