import AmVerif.Model.Local
/-
  M10 (first half): the hydrated view and the patch applier.

  * `HView` mirrors `hydrate::Value` (hydrate.rs): maps and lists carry the conflict flag the API
    exposes (`MapValue.conflict`, `ListValue.conflict`), counters are their current value, text is
    the sequence of units of the document's text encoding (`ConcreteTextValue`).
  * `hview` is the view defined from the independent reading `Spec` of an op set: winner value and
    `conflict := the register has more than one entry` (`hydrate_map/list/text` over `top_ops`).
  * `PatchAction` as in patches/patch.rs; `applyPatch` mirrors `hydrate::Value::apply` and
    `hydrate::{Map,List,Text}::apply` literally, errors (`HydrateError`) and panics included:
    `SequenceTree::{insert,remove}` out of range (a `Mark` patch is accepted and ignored).
-/
namespace AmVerif.Crdt
open AmVerif

/-! ### text units -/

/-- UTF-8 bytes → code points (Rust strings are valid UTF-8; a stray byte decodes as itself) -/
def decodeUtf8 : Bytes → List Nat
  | [] => []
  | b0 :: rest =>
    let n0 := b0.toNat
    if n0 < 0x80 then n0 :: decodeUtf8 rest
    else if n0 < 0xE0 then
      match rest with
      | b1 :: r => ((n0 % 32) * 64 + b1.toNat % 64) :: decodeUtf8 r
      | [] => [n0]
    else if n0 < 0xF0 then
      match rest with
      | b1 :: b2 :: r => ((n0 % 16) * 4096 + (b1.toNat % 64) * 64 + b2.toNat % 64) :: decodeUtf8 r
      | _ => [n0]
    else
      match rest with
      | b1 :: b2 :: b3 :: r =>
        ((n0 % 8) * 262144 + (b1.toNat % 64) * 4096 + (b2.toNat % 64) * 64 + b3.toNat % 64) :: decodeUtf8 r
      | _ => [n0]

def encodeCp (c : Nat) : Bytes :=
  if c < 0x80 then [UInt8.ofNat c]
  else if c < 0x800 then [UInt8.ofNat (0xC0 + c / 64), UInt8.ofNat (0x80 + c % 64)]
  else if c < 0x10000 then
    [UInt8.ofNat (0xE0 + c / 4096), UInt8.ofNat (0x80 + (c / 64) % 64), UInt8.ofNat (0x80 + c % 64)]
  else [UInt8.ofNat (0xF0 + c / 262144), UInt8.ofNat (0x80 + (c / 4096) % 64),
        UInt8.ofNat (0x80 + (c / 64) % 64), UInt8.ofNat (0x80 + c % 64)]

def encodeUtf8 (cps : List Nat) : Bytes := cps.flatMap encodeCp

def utf16OfCp (c : Nat) : List Nat :=
  if c < 0x10000 then [c] else [0xD800 + (c - 0x10000) / 1024, 0xDC00 + (c - 0x10000) % 1024]

/-- `String::from_utf16_lossy`: surrogate pairs combine, an unpaired surrogate becomes U+FFFD -/
def cpsOfUtf16 : List Nat → List Nat
  | [] => []
  | [u] => if 0xD800 ≤ u ∧ u < 0xE000 then [0xFFFD] else [u]
  | u :: v :: rest =>
    if 0xD800 ≤ u ∧ u < 0xDC00 then
      if 0xDC00 ≤ v ∧ v < 0xE000 then (0x10000 + (u - 0xD800) * 1024 + (v - 0xDC00)) :: cpsOfUtf16 rest
      else 0xFFFD :: cpsOfUtf16 (v :: rest)
    else if 0xDC00 ≤ u ∧ u < 0xE000 then 0xFFFD :: cpsOfUtf16 (v :: rest)
    else u :: cpsOfUtf16 (v :: rest)

/-- the units `ConcreteTextValue::new(s, enc)` stores (`gc` = grapheme clusters is not modelled
    and excluded from the differential run; it falls back to code points) -/
def unitsOf (e : Enc) (s : Bytes) : List Nat :=
  match e with
  | .utf8 => s.map (·.toNat)
  | .utf16 => (decodeUtf8 s).flatMap utf16OfCp
  | .cp => decodeUtf8 s
  | .gc => decodeUtf8 s

/-- `make_string` as UTF-8 bytes (for valid contents; the lossy replacement of broken UTF-8 is not
    modelled, broken UTF-16 is) -/
def bytesOfUnits (e : Enc) (us : List Nat) : Bytes :=
  match e with
  | .utf8 => us.map UInt8.ofNat
  | .utf16 => encodeUtf8 (cpsOfUtf16 us)
  | .cp => encodeUtf8 us
  | .gc => encodeUtf8 us

/-! ### the hydrated view -/

inductive HView where
  | scalar (s : Scalar)
  /-- key ↦ (conflict, value), sorted by key bytes (the code's `HashMap` has no order) -/
  | map (es : List (Bytes × Bool × HView))
  | list (es : List (Bool × HView))
  | text (units : List Nat)
  deriving Repr, Inhabited

/-- U+FFFC, what a non-string value renders as inside text -/
def objReplacement : Bytes := [0xEF, 0xBF, 0xBC]

/-- text content: every visible element's winning value, strings as themselves, anything else as
    U+FFFC (`OpSet::text`) -/
def textUnits (e : Enc) (ops : List Op) (obj : ObjId) : List Nat :=
  (seqElems ops obj).flatMap (fun p =>
    match p.2.getLast? with
    | some ⟨_, .scalar (.str s)⟩ => unitsOf e s
    | some _ => unitsOf e objReplacement
    | none => [])

/-- `hydrate_map` / `hydrate_list` / `hydrate_text` read off the independent reading `Spec`:
    the winner (last entry, greatest id) and `conflict := more than one entry`.  `fuel` bounds the
    nesting depth as in `showObj`. -/
def hviewObj (e : Enc) (ops : List Op) : Nat → ObjId → ObjType → HView
  | 0, _, _ => .scalar .null
  | fuel + 1, obj, ty =>
    let ofEntry (en : Entry) : HView :=
      match en.val with
      | .scalar s => .scalar s
      | .counter n => .scalar (.counter n)
      | .obj t => hviewObj e ops fuel (.id en.id) t
    let ofReg (r : List Entry) : Option (Bool × HView) :=
      r.getLast?.map (fun w => (decide (r.length > 1), ofEntry w))
    match ty with
    | .map | .table =>
      .map ((mapKeys ops obj).filterMap (fun k => (ofReg (mapRegister ops obj k)).map (fun x => (k, x))))
    | .list => .list ((seqElems ops obj).filterMap (fun p => ofReg p.2))
    | .text => .text (textUnits e ops obj)

/-- the hydrated view of object `obj` (type `ty`) of an op set -/
def hviewOf (e : Enc) (ops : List Op) (obj : ObjId) (ty : ObjType) : HView :=
  hviewObj e ops (ops.length + 1) obj ty

/-- the whole document: `Automerge::hydrate` -/
def hview (e : Enc) (ops : List Op) : HView := hviewOf e ops .root .map

/-! ### patches -/

inductive PProp where
  | key (k : Bytes)
  | idx (i : Nat)
  deriving DecidableEq, Repr, Inhabited

/-- `Value<'static>` inside a patch: a scalar or the type of a (new, hence empty) object -/
inductive PVal where
  | scalar (s : Scalar)
  | obj (t : ObjType)
  deriving DecidableEq, Repr, Inhabited

inductive PatchAction where
  | putMap (key : Bytes) (v : PVal) (conflict : Bool)
  | putSeq (index : Nat) (v : PVal) (conflict : Bool)
  | insert (index : Nat) (vs : List (PVal × Bool))
  /-- `value` as units of the encoding; the `marks` field is ignored by the applier -/
  | spliceText (index : Nat) (units : List Nat)
  | increment (prop : PProp) (n : Int)
  | conflict (prop : PProp)
  | deleteMap (key : Bytes)
  | deleteSeq (index length : Nat)
  | mark
  deriving DecidableEq, Repr, Inhabited

structure Patch where
  obj : ObjId
  path : List (ObjId × PProp)
  action : PatchAction
  deriving DecidableEq, Repr, Inhabited

/-- `HydrateError` -/
inductive HErr where
  | fail | index | key | badIncrement | mapOp | listOp | textOp | prop | encoding
  deriving DecidableEq, Repr, Inhabited

def HErr.show : HErr → String
  | .fail => "fail" | .index => "index" | .key => "key" | .badIncrement => "badincrement"
  | .mapOp => "mapop" | .listOp => "listop" | .textOp => "textop" | .prop => "prop" | .encoding => "encoding"

abbrev HOut := Outcome HErr

/-- outcomes of the applier are compared by `decide` in the concrete witnesses -/
instance instDecEqHOut {α : Type} [DecidableEq α] : DecidableEq (HOut α) := fun a b =>
  match a, b with
  | .ok x, .ok y => if h : x = y then isTrue (by rw [h]) else isFalse (fun hh => h (by cases hh; rfl))
  | .err x, .err y => if h : x = y then isTrue (by rw [h]) else isFalse (fun hh => h (by cases hh; rfl))
  | .panic x, .panic y => if h : x = y then isTrue (by rw [h]) else isFalse (fun hh => h (by cases hh; rfl))
  | .ok _, .err _ => isFalse (fun hh => by cases hh)
  | .ok _, .panic _ => isFalse (fun hh => by cases hh)
  | .err _, .ok _ => isFalse (fun hh => by cases hh)
  | .err _, .panic _ => isFalse (fun hh => by cases hh)
  | .panic _, .ok _ => isFalse (fun hh => by cases hh)
  | .panic _, .err _ => isFalse (fun hh => by cases hh)

/-- `hydrate::Value::new` -/
def HView.ofPVal : PVal → HView
  | .scalar s => .scalar s
  | .obj .map => .map []
  | .obj .table => .map []
  | .obj .list => .list []
  | .obj .text => .text []

/-- `Value::as_str` of a freshly built value: strings as themselves, anything else U+FFFC -/
def PVal.asStr : PVal → Bytes
  | .scalar (.str s) => s
  | _ => objReplacement

/-- `SequenceTree::insert`: an empty tree accepts any index; otherwise `Vec::insert` panics past
    the end -/
def seqInsert {α : Type} (l : List α) (i : Nat) (x : α) : HOut (List α) :=
  if l.isEmpty then .ok [x]
  else if i ≤ l.length then .ok (l.take i ++ x :: l.drop i)
  else .panic .sliceIndex

/-- `SequenceTree::remove`: panics on an empty tree and past the end -/
def seqRemove {α : Type} (l : List α) (i : Nat) : HOut (List α) :=
  if i < l.length then .ok (l.take i ++ l.drop (i + 1)) else .panic .sliceIndex

/-- insert `xs` one by one at `i, i+1, …` (`splice`, `splice_text_value`, list `Insert`) -/
def seqInsertAll {α : Type} : List α → Nat → List α → HOut (List α)
  | l, _, [] => .ok l
  | l, i, x :: xs =>
    match seqInsert l i x with
    | .ok l' => seqInsertAll l' (i + 1) xs
    | .err e => .err e
    | .panic p => .panic p

/-- `for _ in 0..length { remove(index) }` -/
def seqRemoveN {α : Type} : List α → Nat → Nat → HOut (List α)
  | l, _, 0 => .ok l
  | l, i, n + 1 =>
    match seqRemove l i with
    | .ok l' => seqRemoveN l' i n
    | .err e => .err e
    | .panic p => .panic p

/-! map entries: association list sorted by key -/

def mapInsert (k : Bytes) (v : Bool × HView) : List (Bytes × Bool × HView) → List (Bytes × Bool × HView)
  | [] => [(k, v)]
  | (k', v') :: rest =>
    if k == k' then (k, v) :: rest
    else if bytesLt k k' then (k, v) :: (k', v') :: rest
    else (k', v') :: mapInsert k v rest

def mapRemove (k : Bytes) (es : List (Bytes × Bool × HView)) : List (Bytes × Bool × HView) :=
  es.filter (fun p => p.1 != k)

def mapGet (k : Bytes) (es : List (Bytes × Bool × HView)) : Option (Bool × HView) :=
  (es.find? (fun p => p.1 == k)).map (·.2)

/-- `MapValue::increment` / `ListValue::increment` -/
def incrementEntry (x : Bool × HView) (n : Int) : HOut (Bool × HView) :=
  match x.2 with
  | .scalar (.counter c) => .ok (x.1, .scalar (.counter (c + n)))
  | _ => .err .badIncrement

/-- `hydrate::Map::apply` -/
def applyMap (es : List (Bytes × Bool × HView)) : PatchAction → HOut (List (Bytes × Bool × HView))
  | .deleteMap k => .ok (mapRemove k es)
  | .putMap k v c => .ok (mapInsert k (c, HView.ofPVal v) es)
  | .increment (.key k) n =>
    match mapGet k es with
    | none => .err .key
    | some x =>
      match incrementEntry x n with
      | .ok x' => .ok (mapInsert k x' es)
      | .err e => .err e
      | .panic p => .panic p
  | .conflict (.key k) =>
    match mapGet k es with
    | none => .err .key
    | some x => .ok (mapInsert k (true, x.2) es)
  | _ => .err .mapOp

/-- `hydrate::List::apply` -/
def applyList (es : List (Bool × HView)) : PatchAction → HOut (List (Bool × HView))
  | .putSeq i v c =>
    if i < es.length then .ok (es.set i (c, HView.ofPVal v)) else .err .index
  | .insert i vs => seqInsertAll es i (vs.map (fun p => (p.2, HView.ofPVal p.1)))
  | .deleteSeq i n => seqRemoveN es i n
  | .increment (.idx i) n =>
    match es[i]? with
    | none => .err .index
    | some x =>
      match incrementEntry x n with
      | .ok x' => .ok (es.set i x')
      | .err e => .err e
      | .panic p => .panic p
  | .conflict (.idx i) =>
    match es[i]? with
    | none => .err .index
    | some x => .ok (es.set i (true, x.2))
  -- hydrated lists hold no marks: accepted, nothing changes
  | .mark => .ok es
  | _ => .err .listOp

/-- the `Insert` loop of `hydrate::Text::apply`: each value's text is spliced at the running index,
    which advances by the text's width -/
def textInsertVals (e : Enc) : List Nat → Nat → List PVal → HOut (List Nat)
  | us, _, [] => .ok us
  | us, i, v :: vs =>
    let t := unitsOf e v.asStr
    match seqInsertAll us i t with
    | .ok us' => textInsertVals e us' (i + t.length) vs
    | .err er => .err er
    | .panic p => .panic p

/-- `hydrate::Text::apply` -/
def applyText (e : Enc) (us : List Nat) : PatchAction → HOut (List Nat)
  | .spliceText i v => seqInsertAll us i v
  | .insert i vs => textInsertVals e us i (vs.map (·.1))
  | .putSeq i v _ =>
    match seqRemove us i with
    | .ok us' => seqInsertAll us' i (unitsOf e v.asStr)
    | .err er => .err er
    | .panic p => .panic p
  | .deleteSeq i n => seqRemoveN us i n
  -- hydrated text holds no marks, no conflict flags and no counter values: accepted, nothing changes
  | .mark => .ok us
  | .conflict _ => .ok us
  | .increment _ _ => .ok us
  | _ => .err .textOp

/-- `hydrate::Value::apply`: walk the path, then apply at the addressed container -/
def applyAt (e : Enc) : List PProp → HView → PatchAction → HOut HView
  | [], .map es, a =>
    match applyMap es a with
    | .ok es' => .ok (.map es') | .err er => .err er | .panic p => .panic p
  | [], .list es, a =>
    match applyList es a with
    | .ok es' => .ok (.list es') | .err er => .err er | .panic p => .panic p
  | [], .text us, a =>
    match applyText e us a with
    | .ok us' => .ok (.text us') | .err er => .err er | .panic p => .panic p
  | [], .scalar _, _ => .err .fail
  | .idx n :: rest, .list es, a =>
    match es[n]? with
    | none => .err .prop
    | some x =>
      match applyAt e rest x.2 a with
      | .ok v => .ok (.list (es.set n (x.1, v)))
      | .err er => .err er
      | .panic p => .panic p
  | .key k :: rest, .map es, a =>
    match mapGet k es with
    | none => .err .prop
    | some x =>
      match applyAt e rest x.2 a with
      | .ok v => .ok (.map (mapInsert k (x.1, v) es))
      | .err er => .err er
      | .panic p => .panic p
  -- hydrated text shows embedded objects as U+FFFC only: patches below a text are ignored
  | .idx _ :: _, .text us, _ => .ok (.text us)
  | _ :: _, _, _ => .err .fail

def applyPatch (e : Enc) (v : HView) (p : Patch) : HOut HView :=
  applyAt e (p.path.map (·.2)) v p.action

/-- `apply_patches`: stops at the first error -/
def applyPatches (e : Enc) : HView → List Patch → HOut HView
  | v, [] => .ok v
  | v, p :: ps =>
    match applyPatch e v p with
    | .ok v' => applyPatches e v' ps
    | .err er => .err er
    | .panic pn => .panic pn

/-- the patches as seen from the sub-view rooted at `obj`: patches outside its subtree are
    dropped, the path prefix down to `obj` removed -/
def dropToObj (obj : ObjId) : List (ObjId × PProp) → Option (List (ObjId × PProp))
  | [] => none
  | (o, p) :: rest => if o == obj then some ((o, p) :: rest) else dropToObj obj rest

def rebasePatches (obj : ObjId) (ps : List Patch) : List Patch :=
  if obj == .root then ps else
  ps.filterMap (fun p =>
    if p.obj == obj then some { p with path := [] }
    else (dropToObj obj p.path).map (fun path => { p with path := path }))

/-! ### rendering (canonical text shared with the harness `show_hval`) -/

def showHView (e : Enc) : Nat → HView → String
  | 0, _ => "?"
  | _ + 1, .scalar s => showScalar s
  | fuel + 1, .map es =>
    "M{" ++ joinWith ";" (es.map (fun p =>
      (if p.1.isEmpty then "-" else hexOfBytes p.1) ++ "=" ++ (if p.2.1 then "1" else "0") ++ ":" ++ showHView e fuel p.2.2)) ++ "}"
  | fuel + 1, .list es =>
    "L[" ++ joinWith ";" (es.map (fun p => (if p.1 then "1" else "0") ++ ":" ++ showHView e fuel p.2)) ++ "]"
  | _ + 1, .text us => let b := bytesOfUnits e us; "T" ++ (if b.isEmpty then "-" else hexOfBytes b)

end AmVerif.Crdt
