import AmVerif.Model.Basic
/-
  SHA-256 (FIPS 180-4), written directly over `UInt32`.  Core Lean only.  All loops are
  `Nat.fold`s (structural), so the definition is total and the compiler turns the `Array` /
  `ByteArray` updates into in-place writes.
-/
namespace AmVerif.Sha256
open AmVerif

/-- FIPS 180-4 §4.2.2: first 32 bits of the fractional parts of the cube roots of the first
    64 primes. -/
def K : Array UInt32 := #[
  0x428a2f98, 0x71374491, 0xb5c0fbcf, 0xe9b5dba5, 0x3956c25b, 0x59f111f1, 0x923f82a4, 0xab1c5ed5,
  0xd807aa98, 0x12835b01, 0x243185be, 0x550c7dc3, 0x72be5d74, 0x80deb1fe, 0x9bdc06a7, 0xc19bf174,
  0xe49b69c1, 0xefbe4786, 0x0fc19dc6, 0x240ca1cc, 0x2de92c6f, 0x4a7484aa, 0x5cb0a9dc, 0x76f988da,
  0x983e5152, 0xa831c66d, 0xb00327c8, 0xbf597fc7, 0xc6e00bf3, 0xd5a79147, 0x06ca6351, 0x14292967,
  0x27b70a85, 0x2e1b2138, 0x4d2c6dfc, 0x53380d13, 0x650a7354, 0x766a0abb, 0x81c2c92e, 0x92722c85,
  0xa2bfe8a1, 0xa81a664b, 0xc24b8b70, 0xc76c51a3, 0xd192e819, 0xd6990624, 0xf40e3585, 0x106aa070,
  0x19a4c116, 0x1e376c08, 0x2748774c, 0x34b0bcb5, 0x391c0cb3, 0x4ed8aa4a, 0x5b9cca4f, 0x682e6ff3,
  0x748f82ee, 0x78a5636f, 0x84c87814, 0x8cc70208, 0x90befffa, 0xa4506ceb, 0xbef9a3f7, 0xc67178f2]

/-- §5.3.3 initial hash value. -/
structure State where
  a : UInt32 := 0x6a09e667
  b : UInt32 := 0xbb67ae85
  c : UInt32 := 0x3c6ef372
  d : UInt32 := 0xa54ff53a
  e : UInt32 := 0x510e527f
  f : UInt32 := 0x9b05688c
  g : UInt32 := 0x1f83d9ab
  h : UInt32 := 0x5be0cd19

@[inline] def rotr (x n : UInt32) : UInt32 := (x >>> n) ||| (x <<< (32 - n))

@[inline] def ch (x y z : UInt32) : UInt32 := (x &&& y) ^^^ (~~~x &&& z)
@[inline] def maj (x y z : UInt32) : UInt32 := (x &&& y) ^^^ (x &&& z) ^^^ (y &&& z)
@[inline] def bigSigma0 (x : UInt32) : UInt32 := rotr x 2 ^^^ rotr x 13 ^^^ rotr x 22
@[inline] def bigSigma1 (x : UInt32) : UInt32 := rotr x 6 ^^^ rotr x 11 ^^^ rotr x 25
@[inline] def smallSigma0 (x : UInt32) : UInt32 := rotr x 7 ^^^ rotr x 18 ^^^ (x >>> 3)
@[inline] def smallSigma1 (x : UInt32) : UInt32 := rotr x 17 ^^^ rotr x 19 ^^^ (x >>> 10)

/-- §5.1.1 padding: `0x80`, zeros up to 56 mod 64, then the bit length as a big-endian `u64`. -/
def pad (bs : List UInt8) : ByteArray :=
  let n := bs.length
  let msg := (bs.toByteArray.push 0x80)
  let msg := Nat.fold ((119 - n % 64) % 64) (fun _ _ m => m.push 0) msg
  let bits := 8 * n
  Nat.fold 8 (fun i _ m => m.push (UInt8.ofNat (bits >>> (8 * (7 - i))))) msg

/-- Big-endian 32-bit word at byte offset `off`. -/
@[inline] def wordAt (m : ByteArray) (off : Nat) : UInt32 :=
  ((m.get! off).toUInt32 <<< 24) ||| ((m.get! (off + 1)).toUInt32 <<< 16) |||
  ((m.get! (off + 2)).toUInt32 <<< 8) ||| (m.get! (off + 3)).toUInt32

/-- §6.2.2 step 1: the message schedule `W₀ … W₆₃` of the block starting at byte `off`. -/
def schedule (m : ByteArray) (off : Nat) : Array UInt32 :=
  Nat.fold 64 (fun t _ w =>
    if t < 16 then w.push (wordAt m (off + 4 * t))
    else w.push (smallSigma1 w[t - 2]! + w[t - 7]! + smallSigma0 w[t - 15]! + w[t - 16]!))
    (Array.mkEmpty 64)

/-- §6.2.2 step 3: one round. -/
@[inline] def round (s : State) (kt wt : UInt32) : State :=
  let t1 := s.h + bigSigma1 s.e + ch s.e s.f s.g + kt + wt
  let t2 := bigSigma0 s.a + maj s.a s.b s.c
  { a := t1 + t2, b := s.a, c := s.b, d := s.c, e := s.d + t1, f := s.e, g := s.f, h := s.g }

/-- §6.2.2: process the block at byte offset `off`. -/
def compress (m : ByteArray) (s : State) (off : Nat) : State :=
  let w := schedule m off
  let r := Nat.fold 64 (fun t _ r => round r K[t]! w[t]!) s
  { a := s.a + r.a, b := s.b + r.b, c := s.c + r.c, d := s.d + r.d,
    e := s.e + r.e, f := s.f + r.f, g := s.g + r.g, h := s.h + r.h }

def wordBytes (x : UInt32) : List UInt8 :=
  [(x >>> 24).toUInt8, (x >>> 16).toUInt8, (x >>> 8).toUInt8, x.toUInt8]

/-- SHA-256 of a byte string; always 32 bytes. -/
def sha256 (bs : List UInt8) : List UInt8 :=
  let m := pad bs
  let s := Nat.fold (m.size / 64) (fun i _ s => compress m s (64 * i)) {}
  [s.a, s.b, s.c, s.d, s.e, s.f, s.g, s.h].flatMap wordBytes

/-! Kernel-checked NIST vectors (more, up to 10⁶ bytes, are `#eval`ed in `Driver/Sha256Test.lean`). -/

set_option maxRecDepth 4000 in
theorem sha256_empty_ok : hexOfBytes (sha256 []) =
    "e3b0c44298fc1c149afbf4c8996fb92427ae41e4649b934ca495991b7852b855" := by decide

set_option maxRecDepth 4000 in
theorem sha256_abc_ok : hexOfBytes (sha256 [0x61, 0x62, 0x63]) =
    "ba7816bf8f01cfea414140de5dae2223b00361a396177a9cb410ff61f20015ad" := by decide

end AmVerif.Sha256
