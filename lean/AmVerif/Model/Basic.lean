/-
  M-basic: shared vocabulary of the executable model.  Import-free (core Lean only) so that the
  driver links as a `lean_exe`.
-/
namespace AmVerif

/-- Where a modelled Rust function would panic. Every `unwrap`, slice index, `%` by a variable
    … on a path reachable from the public API is an explicit `panic` branch of the model. -/
inductive PanicSite where
  | remByZero        -- `%` / `/` by zero
  | sliceIndex       -- slice / str index out of range or not on a char boundary
  | unwrapNone       -- `Option::unwrap` / `Result::unwrap` on the failing variant
  | narrowing        -- `try_into().unwrap()` of an out-of-range integer
  | assertFailed
  | todo
  deriving DecidableEq, Repr, Inhabited

/-- Parse errors of `storage::parse` (and friends), collapsed to the classes the check compares. -/
inductive PErr where
  | incomplete       -- `ParseError::Incomplete`
  | tooLarge         -- `Leb128TooLarge`
  | overlong         -- `Leb128Overlong`
  | unexpectedZero
  | invalid          -- any other `ParseError::Error`
  deriving DecidableEq, Repr, Inhabited

/-- Three-way outcome of a modelled call. -/
inductive Outcome (ε α : Type) where
  | ok (a : α)
  | err (e : ε)
  | panic (p : PanicSite)
  deriving Repr

namespace Outcome
variable {ε α β : Type}

@[inline] def bind (x : Outcome ε α) (f : α → Outcome ε β) : Outcome ε β :=
  match x with
  | ok a => f a
  | err e => err e
  | panic p => panic p

instance : Monad (Outcome ε) where
  pure := ok
  bind := bind

def isPanic : Outcome ε α → Bool
  | panic _ => true
  | _ => false

def isOk : Outcome ε α → Bool
  | ok _ => true
  | _ => false
end Outcome

abbrev Bytes := List UInt8

/-- A parser over a byte list: value and remaining input, or an error. -/
abbrev PResult (α : Type) := Except PErr (α × Bytes)

def hexDigit (n : Nat) : Char :=
  if n < 10 then Char.ofNat (48 + n) else Char.ofNat (87 + n)

def hexOfBytes (bs : Bytes) : String :=
  String.ofList (bs.foldr (fun b acc => hexDigit (b.toNat / 16) :: hexDigit (b.toNat % 16) :: acc) [])

def hexVal (c : Char) : Option Nat :=
  if '0' ≤ c ∧ c ≤ '9' then some (c.toNat - 48)
  else if 'a' ≤ c ∧ c ≤ 'f' then some (c.toNat - 87)
  else if 'A' ≤ c ∧ c ≤ 'F' then some (c.toNat - 55)
  else none

def bytesOfHexChars : List Char → Option Bytes
  | [] => some []
  | [_] => none
  | a :: b :: rest =>
    match hexVal a, hexVal b, bytesOfHexChars rest with
    | some x, some y, some r => some (UInt8.ofNat (x * 16 + y) :: r)
    | _, _, _ => none

def bytesOfHex (s : String) : Option Bytes := bytesOfHexChars s.toList

end AmVerif
