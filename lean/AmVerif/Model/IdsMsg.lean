import AmVerif.Model.Ids
import AmVerif.Model.Bloom
/-
  Byte-level codec of the sync protocol, function by function:
    * `sync::State::encode` / `State::decode` / `State::parse`                     (sync/state.rs)
    * `sync::Message::encode` / `Message::decode` / `Message::parse`, `parse_have`,
      `ChunkList::parse`, `MessageVersion`, `MessageFlags::{encode,parse_bytes}`,
      `encode_many`, `encode_hashes`                                               (sync.rs)
    * `parse::length_prefixed`, `length_prefixed_bytes`, `change_hash`             (storage/parse.rs)
  Only the codec: the protocol logic lives in Model/Sync*.lean (another slice).

  `encode_hashes` starts with `debug_assert!(hashes sorted)`.  That assertion exists only in builds
  with debug assertions (the harness build has them), so the encoders take the flag `dbg`:
  with `dbg = true` an unsorted list is `panic .assertFailed`, with `dbg = false` there is no check.
-/
namespace AmVerif.IdsMsg
open AmVerif AmVerif.Leb AmVerif.Ids

/-- error classes of `ReadMessageError` / `sync::state::DecodeError` -/
inductive MErr where
  | wrongType          -- first byte is not a known record type
  | notEnoughInput     -- `ParseError::Incomplete`
  | parse              -- bad LEB128 (in the framing or inside a Bloom filter)
  deriving DecidableEq, Repr, Inhabited

def liftErr : PErr → MErr
  | .incomplete => .notEnoughInput
  | _ => .parse

abbrev MResult (α : Type) := Except MErr (α × Bytes)

/-! ### storage/parse.rs combinators -/

/-- the `for _ in 0..count` loop of `length_prefixed`: apply `g` `count` times, collecting in order;
    stops at the first error.  (`count` comes from the wire and may be huge: the loop ends at the
    first failing element, and every element parser used here consumes at least one byte.) -/
def repeatN {α : Type} (g : Bytes → MResult α) : Nat → Bytes → MResult (List α)
  | 0, i => .ok ([], i)
  | n + 1, i =>
    match g i with
    | .error e => .error e
    | .ok (x, i) =>
      match repeatN g n i with
      | .error e => .error e
      | .ok (xs, i) => .ok (x :: xs, i)

/-- `length_prefixed(g)` -/
def lengthPrefixed {α : Type} (g : Bytes → MResult α) (i : Bytes) : MResult (List α) :=
  match uleb64 i with
  | .error e => .error (liftErr e)
  | .ok (count, i) => repeatN g count i

/-- `length_prefixed_bytes` -/
def lengthPrefixedBytes (i : Bytes) : MResult Bytes :=
  match uleb64 i with
  | .error e => .error (liftErr e)
  | .ok (len, i) =>
    match Ids.takeN len i with
    | .error e => .error (liftErr e)
    | .ok r => .ok r

/-- `parse::change_hash` (the `try_into().expect(..)` is guarded by `take_n(HASH_SIZE)`) -/
def changeHash (i : Bytes) : MResult Hash :=
  match Ids.takeN Consts.HASH_SIZE i with
  | .error e => .error (liftErr e)
  | .ok r => .ok r

/-! ### encoders (sync.rs) -/

/-- lexicographic `<=` on byte strings (`Ord for [u8; 32]`) -/
def bytesLe : Bytes → Bytes → Bool
  | [], _ => true
  | _ :: _, [] => false
  | a :: as, b :: bs => if a.toNat < b.toNat then true else if b.toNat < a.toNat then false else bytesLe as bs

/-- `hashes.windows(2).all(|h| h[0] <= h[1])` -/
def sortedHashes : List Hash → Bool
  | [] => true
  | [_] => true
  | a :: b :: rest => bytesLe a b && sortedHashes (b :: rest)

/-- `encode_many` with an infallible element encoder -/
def encodeMany {α : Type} (f : α → Bytes) (xs : List α) : Bytes :=
  ulebEncode xs.length ++ xs.flatMap f

/-- `encode_hashes` -/
def encodeHashes (dbg : Bool) (hs : List Hash) : Outcome MErr Bytes :=
  if dbg && !sortedHashes hs then .panic .assertFailed
  else .ok (encodeMany id hs)

/-! ### State (sync/state.rs) -/

inductive Capability where
  | messageV1 | messageV2 | syncReset
  deriving DecidableEq, Repr, Inhabited

structure Have where
  lastSync : List Hash
  bloom : Bloom.Filter
  deriving DecidableEq, Repr

/-- `sync::State`; `sent_hashes` (a `BTreeSet`) is its sorted element list -/
structure State where
  sharedHeads : List Hash
  lastSentHeads : List Hash
  theirHeads : Option (List Hash)
  theirNeed : Option (List Hash)
  theirHave : Option (List Have)
  sentHashes : List Hash
  inFlight : Bool
  haveResponded : Bool
  theirCapabilities : Option (List Capability)
  readOnly : Bool
  peerReadOnly : Bool
  needsReset : Bool
  deriving DecidableEq, Repr

def SYNC_STATE_TYPE : UInt8 := 0x43

/-- what `State::parse` builds around the decoded `shared_heads` -/
def State.fresh (sharedHeads : List Hash) : State :=
  { sharedHeads, lastSentHeads := [], theirHeads := none, theirNeed := none,
    theirHave := some [], sentHashes := [], inFlight := false, haveResponded := false,
    theirCapabilities := none, readOnly := false, peerReadOnly := false, needsReset := false }

/-- `State::encode` -/
def stateEncode (dbg : Bool) (s : State) : Outcome MErr Bytes :=
  match encodeHashes dbg s.sharedHeads with
  | .ok b => .ok (SYNC_STATE_TYPE :: b)
  | .err e => .err e
  | .panic p => .panic p

/-- `State::decode` (= `State::parse` with `Incomplete` mapped to `NotEnoughInput`); trailing bytes
    are ignored. -/
def stateDecode (bs : Bytes) : Outcome MErr State :=
  match bs with
  | [] => .err .notEnoughInput
  | ty :: i =>
    if ty ≠ SYNC_STATE_TYPE then .err .wrongType else
    match lengthPrefixed changeHash i with
    | .error e => .err e
    | .ok (hs, _) => .ok (State.fresh hs)

/-! ### Message (sync.rs) -/

inductive Version where
  | v1 | v2
  deriving DecidableEq, Repr, Inhabited

def MESSAGE_TYPE_SYNC : UInt8 := 0x42
def MESSAGE_TYPE_SYNC_V2 : UInt8 := 0x43

def Version.encode : Version → UInt8
  | .v1 => MESSAGE_TYPE_SYNC
  | .v2 => MESSAGE_TYPE_SYNC_V2

/-- `sync::Message`; `flags` is the byte inside `MessageFlags(u8)` -/
structure Message where
  heads : List Hash
  need : List Hash
  have_ : List Have
  changes : List Bytes
  flags : Option UInt8
  version : Version
  deriving DecidableEq, Repr

/-- `MessageFlags::encode`: length prefix 2, the legacy `0x02` byte, the bitfield byte -/
def flagsEncode (f : UInt8) : Bytes := ulebEncode 2 ++ [0x02, 0x80 ||| f]

/-- `MessageFlags::parse_bytes`: OR of the low 7 bits of every byte that has the high bit set -/
def flagsParseBytes (bytes : Bytes) : UInt8 :=
  bytes.foldl (fun acc byte => if byte &&& 0x80 ≠ 0 then acc ||| (byte &&& 0x7f) else acc) 0

/-- the optional trailing flags section -/
def flagsSection : Option UInt8 → Bytes
  | some f => flagsEncode f
  | none => []

/-- one element of the `have` section as written by `Message::encode` -/
def haveEncode (dbg : Bool) (h : Have) : Outcome MErr Bytes :=
  match encodeHashes dbg h.lastSync with
  | .ok b => .ok (b ++ ulebEncode (Bloom.toBytes h.bloom).length ++ Bloom.toBytes h.bloom)
  | .err e => .err e
  | .panic p => .panic p

/-- the `encode_many` over `have`: elements are encoded left to right, the first failing
    `debug_assert` aborts -/
def havesEncode (dbg : Bool) : List Have → Outcome MErr Bytes
  | [] => .ok []
  | h :: rest =>
    match haveEncode dbg h with
    | .ok b =>
      (match havesEncode dbg rest with
       | .ok r => .ok (b ++ r)
       | .err e => .err e
       | .panic p => .panic p)
    | .err e => .err e
    | .panic p => .panic p

def chunkEncode (c : Bytes) : Bytes := ulebEncode c.length ++ c

/-- `Message::encode` -/
def messageEncode (dbg : Bool) (m : Message) : Outcome MErr Bytes :=
  match encodeHashes dbg m.heads with
  | .err e => .err e
  | .panic p => .panic p
  | .ok hb =>
  match encodeHashes dbg m.need with
  | .err e => .err e
  | .panic p => .panic p
  | .ok nb =>
  match havesEncode dbg m.have_ with
  | .err e => .err e
  | .panic p => .panic p
  | .ok vb =>
    .ok (m.version.encode :: (hb ++ nb ++ (ulebEncode m.have_.length ++ vb)
          ++ encodeMany chunkEncode m.changes
          ++ flagsSection m.flags))

/-- `parse_have`: the Bloom filter is parsed from exactly the length-prefixed bytes (what is left
    over inside them is ignored) -/
def parseHave (i : Bytes) : MResult Have :=
  match lengthPrefixed changeHash i with
  | .error e => .error e
  | .ok (lastSync, i) =>
  match lengthPrefixedBytes i with
  | .error e => .error e
  | .ok (bloomBytes, i) =>
  match Bloom.parse bloomBytes with
  | .error e => .error (liftErr e)
  | .ok (bloom, _) => .ok (⟨lastSync, bloom⟩, i)

/-- `Message::decode` (= `Message::parse`, `Incomplete` ⇒ `NotEnoughInput`) -/
def messageDecode (bs : Bytes) : Outcome MErr Message :=
  match bs with
  | [] => .err .notEnoughInput
  | first :: i =>
    let ver : Option Version :=
      if first = MESSAGE_TYPE_SYNC then some .v1
      else if first = MESSAGE_TYPE_SYNC_V2 then some .v2 else none
    match ver with
    | none => .err .wrongType
    | some version =>
    match lengthPrefixed changeHash i with
    | .error e => .err e
    | .ok (heads, i) =>
    match lengthPrefixed changeHash i with
    | .error e => .err e
    | .ok (need, i) =>
    match lengthPrefixed parseHave i with
    | .error e => .err e
    | .ok (have_, i) =>
    match lengthPrefixed lengthPrefixedBytes i with
    | .error e => .err e
    | .ok (changes, i) =>
      if i.isEmpty then .ok ⟨heads, need, have_, changes, none, version⟩
      else
        match lengthPrefixedBytes i with
        | .error e => .err e
        | .ok (raw, _) => .ok ⟨heads, need, have_, changes, some (flagsParseBytes raw), version⟩

end AmVerif.IdsMsg
