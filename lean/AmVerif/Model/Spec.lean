import AmVerif.Model.Basic
/-
  M3: identifiers, operations and the **independent reading** of an operation set
  (properties C01/C02): every map key and list element is a multi-value register whose values are
  the set/make operations not named as predecessor by a later delete, overwrite or non-counter
  increment; the greatest (counter, actor) id wins; sequences follow RGA with higher-id siblings
  first; a counter reads as its initial value plus every increment naming it as predecessor.

  Everything here is a function of the op *set* (the list is only sorted / filtered), never of
  arrival order — `Proofs/Spec.lean` proves `interp` invariant under permutation.
-/
namespace AmVerif.Crdt
open AmVerif

/-- lexicographic order on byte strings (the code's actor table is sorted by bytes, so actor index
    order = byte order) -/
def bytesLt : Bytes → Bytes → Bool
  | [], [] => false
  | [], _ :: _ => true
  | _ :: _, [] => false
  | a :: as, b :: bs => a < b || (a == b && bytesLt as bs)

structure OpId where
  ctr : Nat
  actor : Bytes
  deriving DecidableEq, Repr, Inhabited

/-- `OpId` order: counter, then actor (types.rs `impl Ord for OpId` via the sorted actor table) -/
def OpId.lt (a b : OpId) : Bool := a.ctr < b.ctr || (a.ctr == b.ctr && bytesLt a.actor b.actor)
def OpId.le (a b : OpId) : Bool := !(b.lt a)

inductive ObjId where
  | root
  | id (o : OpId)
  deriving DecidableEq, Repr, Inhabited

inductive Key where
  | map (k : Bytes)       -- UTF-8 bytes of the key
  | head
  | elem (e : OpId)
  deriving DecidableEq, Repr, Inhabited

inductive Scalar where
  | null
  | bool (b : Bool)
  | int (i : Int)
  | uint (n : Nat)
  | f64 (bits : Nat)
  | str (s : Bytes)       -- UTF-8 bytes
  | bytes (b : Bytes)
  | counter (i : Int)
  | timestamp (i : Int)
  | unknown (ty : Nat) (b : Bytes)
  deriving DecidableEq, Repr, Inhabited

inductive ObjType where
  | map | list | text | table
  deriving DecidableEq, Repr, Inhabited

inductive Action where
  | make (t : ObjType)
  | put (v : Scalar)
  | del
  | inc (n : Int)
  | markBegin (name : Bytes) (v : Scalar) (expand : Bool)
  | markEnd (expand : Bool)
  deriving DecidableEq, Repr, Inhabited

structure Op where
  id : OpId
  obj : ObjId
  key : Key
  insert : Bool
  action : Action
  pred : List OpId
  deriving DecidableEq, Repr, Inhabited

def Op.isInc (o : Op) : Bool := match o.action with | .inc _ => true | _ => false
def Op.isDel (o : Op) : Bool := match o.action with | .del => true | _ => false
def Op.isCounterPut (o : Op) : Bool := match o.action with | .put (.counter _) => true | _ => false
def Op.isMark (o : Op) : Bool :=
  match o.action with | .markBegin .. => true | .markEnd _ => true | _ => false
/-- a set or make operation: the only operations that can be a register value -/
def Op.isValue (o : Op) : Bool :=
  match o.action with | .put _ => true | .make _ => true | _ => false
def Op.incAmount (o : Op) : Int := match o.action with | .inc n => n | _ => 0

/-- `p` overwrites `o`: it names `o` as predecessor, unless it is an increment of a counter -/
def overwrites (p o : Op) : Bool := p.pred.contains o.id && !(p.isInc && o.isCounterPut)

def overwritten (ops : List Op) (o : Op) : Bool := ops.any (fun p => overwrites p o)

/-- register values: set/make ops not overwritten -/
def visible (ops : List Op) (o : Op) : Bool := o.isValue && !overwritten ops o

/-- insertion sort by ascending id; on a list with distinct ids the result depends only on the set -/
def insertById (o : Op) : List Op → List Op
  | [] => [o]
  | x :: xs => if o.id.lt x.id then o :: x :: xs else x :: insertById o xs

def sortById (ops : List Op) : List Op := ops.foldr insertById []

/-- the sequence element an op belongs to -/
def Op.elem (o : Op) : Option OpId :=
  if o.insert then some o.id else match o.key with | .elem e => some e | _ => none

/-- counter value: initial value plus every increment naming the op as predecessor -/
def counterValue (ops : List Op) (o : Op) (init : Int) : Int :=
  (ops.filter (fun p => p.isInc && p.pred.contains o.id)).foldl (fun acc p => acc + p.incAmount) init

/-- a register entry as read: id of the op and its value -/
inductive Val where
  | scalar (s : Scalar)
  | counter (now : Int)
  | obj (t : ObjType)
  deriving DecidableEq, Repr, Inhabited

structure Entry where
  id : OpId
  val : Val
  deriving DecidableEq, Repr, Inhabited

def entryOf (ops : List Op) (o : Op) : Entry :=
  match o.action with
  | .put (.counter i) => ⟨o.id, .counter (counterValue ops o i)⟩
  | .put v => ⟨o.id, .scalar v⟩
  | .make t => ⟨o.id, .obj t⟩
  | _ => ⟨o.id, .scalar .null⟩

/-- the multi-value register of map key `k` of `obj`, ascending by id (winner last) -/
def mapRegister (ops : List Op) (obj : ObjId) (k : Bytes) : List Entry :=
  (sortById (ops.filter (fun o => o.obj == obj && o.key == .map k && visible ops o))).map (entryOf ops)

/-- the multi-value register of sequence element `e` of `obj` -/
def elemRegister (ops : List Op) (obj : ObjId) (e : OpId) : List Entry :=
  (sortById (ops.filter (fun o => o.obj == obj && o.elem == some e && visible ops o))).map (entryOf ops)

def insertKey (k : Bytes) : List Bytes → List Bytes
  | [] => [k]
  | x :: xs => if k == x then x :: xs else if bytesLt k x then k :: x :: xs else x :: insertKey k xs

/-- keys of a map object that have at least one visible value, in byte order -/
def mapKeys (ops : List Op) (obj : ObjId) : List Bytes :=
  (ops.filter (fun o => o.obj == obj && visible ops o)).foldr
    (fun o acc => match o.key with | .map k => insertKey k acc | _ => acc) []

/-- RGA: the insert ops of `obj` whose reference element is `parent`, highest id first -/
def children (ops : List Op) (obj : ObjId) (parent : Key) : List Op :=
  (sortById (ops.filter (fun o => o.obj == obj && o.insert && o.key == parent))).reverse

/-- depth-first walk: each element is followed by its children's subtrees, higher ids first.
    `fuel` bounds the depth (an element's reference element always has a smaller counter, so
    depth ≤ number of ops). -/
def rgaFrom (ops : List Op) (obj : ObjId) : Nat → Key → List Op
  | 0, _ => []
  | fuel + 1, parent =>
    (children ops obj parent).flatMap (fun c => c :: rgaFrom ops obj fuel (.elem c.id))

/-- all elements (insert ops) of a sequence object in document order, tombstones and marks included -/
def rgaOrder (ops : List Op) (obj : ObjId) : List Op := rgaFrom ops obj (ops.length + 1) .head

/-- visible elements of a list/text object with their registers, in document order -/
def seqElems (ops : List Op) (obj : ObjId) : List (OpId × List Entry) :=
  (rgaOrder ops obj).filterMap (fun e =>
    if e.isMark then none else
    match elemRegister ops obj e.id with
    | [] => none
    | r => some (e.id, r))

def objType (ops : List Op) : ObjId → Option ObjType
  | .root => some .map
  | .id o => (ops.find? (fun p => p.id == o)).bind (fun p => match p.action with | .make t => some t | _ => none)

/-- the ops covered by a set of changes' ids: used for historical reads (`interpAt`) -/
def restrict (ops : List Op) (covered : OpId → Bool) : List Op := ops.filter (fun o => covered o.id)

/-! ### rendering (canonical text shared with the harness) -/

def showId (o : OpId) : String := toString o.ctr ++ "@" ++ hexOfBytes o.actor

def showScalar : Scalar → String
  | .null => "n"
  | .bool b => if b then "b1" else "b0"
  | .int i => "i" ++ toString i
  | .uint n => "u" ++ toString n
  | .f64 b => "f" ++ toString b
  | .str s => "s" ++ hexOfBytes s
  | .bytes b => "x" ++ hexOfBytes b
  | .counter i => "c" ++ toString i
  | .timestamp i => "t" ++ toString i
  | .unknown t b => "k" ++ toString t ++ "." ++ hexOfBytes b

def joinWith (sep : String) : List String → String
  | [] => ""
  | [x] => x
  | x :: xs => x ++ sep ++ joinWith sep xs

/-- render an object and, recursively, the objects its registers hold.  `fuel` bounds nesting depth
    (a child object's id is greater than its parent's, so depth ≤ number of ops). -/
def showObj (ops : List Op) : Nat → ObjId → ObjType → String
  | 0, _, _ => "?"
  | fuel + 1, obj, ty =>
    let showEntry (e : Entry) : String :=
      showId e.id ++ ":" ++
        (match e.val with
         | .scalar s => showScalar s
         | .counter n => "c" ++ toString n
         | .obj t => showObj ops fuel (.id e.id) t)
    let showReg (r : List Entry) : String := joinWith "|" (r.map showEntry)
    match ty with
    | .map => "M{" ++ joinWith ";" ((mapKeys ops obj).map (fun k => hexOfBytes k ++ "=" ++ showReg (mapRegister ops obj k))) ++ "}"
    | .table => "B{" ++ joinWith ";" ((mapKeys ops obj).map (fun k => hexOfBytes k ++ "=" ++ showReg (mapRegister ops obj k))) ++ "}"
    | .list => "L[" ++ joinWith ";" ((seqElems ops obj).map (fun p => showReg p.2)) ++ "]"
    | .text => "T[" ++ joinWith ";" ((seqElems ops obj).map (fun p => showReg p.2)) ++ "]"

/-- the whole visible document -/
def showDoc (ops : List Op) : String := showObj ops (ops.length + 1) .root .map

end AmVerif.Crdt
