import AmVerif.Model.Local
/-
  C31 — anonymisation (rust/automerge/src/anonymize.rs) as a *renaming* of the operation set.

  `Anonymization::anonymize` rewrites every expanded change: actors through `actor_map`, map keys and
  mark names through the per-character substitution tables (`anonymize_structural_string`), scalar
  values and increments by fresh random draws *per operation* (`anonymize_scalar`,
  `random_i64_other_than`), dependencies through the table of new hashes; counters of ids, insert
  flags, object types, expand flags and the order of the operations are kept.  The result is built
  by `apply_changes`, so its state is the `Spec` reading of the renamed op set.

  `Ren` is that renaming; `mapOp` its action on operations.  `shapeObj` is the observable the
  property speaks about: object types, number of keys, conflict sets, sequence lengths, text widths,
  nested recursively — as canonical ASCII text shared with the harness (`anon.rs::shape_obj`).
-/
namespace AmVerif.Crdt
open AmVerif

/-- what anonymisation substitutes.  Values and increments are drawn per operation, hence indexed
    by the (original) operation id. -/
structure Ren where
  actor : Bytes → Bytes
  key : Bytes → Bytes
  mark : Bytes → Bytes
  val : OpId → Scalar → Scalar
  inc : OpId → Int → Int

/-- `map_op_id`: the counter is kept, the actor renamed -/
def Ren.id (ρ : Ren) (i : OpId) : OpId := ⟨i.ctr, ρ.actor i.actor⟩

/-- `map_object_id` -/
def Ren.obj (ρ : Ren) : ObjId → ObjId
  | .root => .root
  | .id o => .id (ρ.id o)

def Ren.keyOf (ρ : Ren) : Key → Key
  | .map k => .map (ρ.key k)
  | .head => .head
  | .elem e => .elem (ρ.id e)

def Ren.action (ρ : Ren) (i : OpId) : Action → Action
  | .make t => .make t
  | .put v => .put (ρ.val i v)
  | .del => .del
  | .inc n => .inc (ρ.inc i n)
  | .markBegin name v e => .markBegin (ρ.mark name) (ρ.val i v) e
  | .markEnd e => .markEnd e

/-- `anonymize_operation` -/
def mapOp (ρ : Ren) (o : Op) : Op :=
  ⟨ρ.id o.id, ρ.obj o.obj, ρ.keyOf o.key, o.insert, ρ.action o.id o.action, o.pred.map ρ.id⟩

/-- one rewritten change; `η` is the table old hash ↦ new hash (`change_hashes`) -/
def mapChange (ρ : Ren) (η : Hash → Hash) (c : Change) : Change :=
  ⟨η c.hash, ρ.actor c.actor, c.seq, c.startOp, c.deps.map η, c.ops.map (mapOp ρ)⟩

def mapDoc (ρ : Ren) (η : Hash → Hash) (d : Doc) : Doc :=
  ⟨d.applied.map (mapChange ρ η), d.queue.map (mapChange ρ η)⟩

/-! ### what occurs in an op set -/

/-- every operation id an operation mentions: its own, its object, its reference element, its preds -/
def Op.ids (o : Op) : List OpId :=
  o.id :: ((match o.obj with | .id x => [x] | .root => []) ++
    ((match o.key with | .elem e => [e] | _ => []) ++ o.pred))

def idsOf (ops : List Op) : List OpId := ops.flatMap Op.ids

def actorsOf (ops : List Op) : List Bytes := (idsOf ops).map (·.actor)

/-- constructor of a scalar (`ScalarValue` variant; the type code of `Unknown` belongs to it) -/
def Scalar.kind : Scalar → Nat
  | .null => 0 | .bool _ => 1 | .int _ => 2 | .uint _ => 3 | .f64 _ => 4 | .str _ => 5
  | .bytes _ => 6 | .counter _ => 7 | .timestamp _ => 8 | .unknown t _ => 9 + t

/-! ### hypotheses of the commuting theorem (all decidable: the driver evaluates them on every case) -/

/-- the actor map preserves **and reflects** byte order on the actors that occur -/
def ActorMono (ρ : Ren) (ops : List Op) : Prop :=
  ∀ a ∈ actorsOf ops, ∀ b ∈ actorsOf ops, bytesLt (ρ.actor a) (ρ.actor b) = bytesLt a b

/-- executable form of `ActorMono` for long histories: each distinct actor and its image are
    computed once (`actorMonoB_sound` in Proofs/Anon.lean) -/
def actorMonoB (ρ : Ren) (ops : List Op) : Bool :=
  let as := (actorsOf ops).eraseDups.map (fun a => (a, ρ.actor a))
  as.all (fun p => as.all (fun q => bytesLt p.2 q.2 == bytesLt p.1 q.1))

/-- the key map is injective on the keys that occur in each object -/
def KeyInj (ρ : Ren) (ops : List Op) : Prop :=
  ∀ o ∈ ops, ∀ p ∈ ops, o.obj = p.obj → ∀ k l, o.key = .map k → p.key = .map l → ρ.key k = ρ.key l → k = l

/-- values keep their constructor -/
def KindPres (ρ : Ren) (ops : List Op) : Prop :=
  ∀ o ∈ ops, ∀ v, o.action = .put v → (ρ.val o.id v).kind = v.kind

/-- values keep their tag (kind, per-character widths, byte length: whatever `tag` records) -/
def TagPres (tag : Scalar → Bytes) (ρ : Ren) (ops : List Op) : Prop :=
  ∀ o ∈ ops, ∀ v, o.action = .put v → tag (ρ.val o.id v) = tag v

/-- element widths are kept -/
def WidthPres (W : Op → Nat) (ρ : Ren) (ops : List Op) : Prop :=
  ∀ o ∈ ops, W (mapOp ρ o) = W o

/-- `obj` is the root or an object id that occurs -/
def ObjOcc (ops : List Op) : ObjId → Prop
  | .root => True
  | .id x => x ∈ idsOf ops

instance (ops : List Op) (obj : ObjId) : Decidable (ObjOcc ops obj) := by
  cases obj <;> unfold ObjOcc <;> infer_instance

instance (ρ : Ren) (ops : List Op) : Decidable (ActorMono ρ ops) := by unfold ActorMono; infer_instance
instance (W : Op → Nat) (ρ : Ren) (ops : List Op) : Decidable (WidthPres W ρ ops) := by
  unfold WidthPres; infer_instance

/-- Boolean forms evaluated by the driver (`Proofs/Anon.lean`: each implies its hypothesis) -/
def kindPresB (ρ : Ren) (ops : List Op) : Bool :=
  ops.all (fun o => match o.action with | .put v => (ρ.val o.id v).kind == v.kind | _ => true)

def tagPresB (tag : Scalar → Bytes) (ρ : Ren) (ops : List Op) : Bool :=
  ops.all (fun o => match o.action with | .put v => tag (ρ.val o.id v) == tag v | _ => true)

def keyInjB (ρ : Ren) (ops : List Op) : Bool :=
  ops.all (fun o => ops.all (fun p =>
    match o.key, p.key with
    | .map k, .map l => !(o.obj == p.obj) || !(ρ.key k == ρ.key l) || k == l
    | _, _ => true))

/-! ### the construction of `actor_map` (anonymize.rs:103): sorted distinct actors ↦ prefix ‖ rank -/

/-- `(rank as u64).to_be_bytes()` generalised to `k` bytes: big-endian, most significant first -/
def beBytes : Nat → Nat → Bytes
  | 0, _ => []
  | k + 1, n => UInt8.ofNat (n / 256 ^ k % 256) :: beBytes k n

/-- `BTreeSet<ActorId>` of the actors: ascending byte order, no duplicates -/
def actorTable (actors : List Bytes) : List Bytes := actors.foldr insertKey []

/-- position in the sorted table (`enumerate()`) -/
def rankIn : List Bytes → Bytes → Nat
  | [], _ => 0
  | x :: xs, a => if x == a then 0 else rankIn xs a + 1

/-- the map built by `Anonymization::actor_map` for the 8 random prefix bytes `pre` -/
def codeActorMap (pre : Bytes) (actors : List Bytes) (a : Bytes) : Bytes :=
  pre ++ beBytes 8 (rankIn (actorTable actors) a)

/-! ### the structural substitution of map keys and mark names (anonymize.rs 258–363), on code points -/

/-- `StructuralAlphabet`: characters of one alphabet have the same UTF-8 (hence UTF-16) width -/
inductive Alpha where
  | printable | control | two | three | four
  deriving DecidableEq, Repr

/-- a Unicode scalar value (`char`): below 0x110000 and not a surrogate -/
def ValidCp (c : Nat) : Prop := c < 0x110000 ∧ ¬ (0xD800 ≤ c ∧ c < 0xE000)

instance (c : Nat) : Decidable (ValidCp c) := by unfold ValidCp; infer_instance

/-- the alphabet `structural_character_rank` puts a character in (`len_utf8` and the ASCII split) -/
def alphaOf (c : Nat) : Alpha :=
  if 0x20 ≤ c ∧ c ≤ 0x7e then .printable
  else if c < 0x80 then .control
  else if c < 0x800 then .two
  else if c < 0x10000 then .three
  else .four

/-- alphabet sizes (third component of `structural_character_rank`) -/
def alphaCount : Alpha → Nat
  | .printable => 95          -- 0x7e - 0x20 + 1
  | .control => 0x21
  | .two => 0x780             -- 0x800 - 0x80
  | .three => 0xf000          -- 0xd800 - 0x800 + 0x2000
  | .four => 0x100000         -- 0x110000 - 0x10000

/-- `structural_character_rank`: position inside the alphabet (controls: 0–0x1f, DEL = 0x20;
    three-byte: the surrogate gap is skipped) -/
def structRank (c : Nat) : Nat :=
  match alphaOf c with
  | .printable => c - 0x20
  | .control => if c < 0x20 then c else 0x20
  | .two => c - 0x80
  | .three => if c < 0xd800 then c - 0x800 else c - 0x1000   -- = 0xd800 - 0x800 + c - 0xe000 (here c ≥ 0xe000)
  | .four => c - 0x10000

/-- `structural_character_from_rank` after fix 7934046c1: the control alphabet returns DEL for rank
    0x20 whichever member it started from -/
def structFromRank (orig rank : Nat) : Nat :=
  match alphaOf orig with
  | .printable => 0x20 + rank
  | .control => if rank < 0x20 then rank else 0x7f
  | .two => 0x80 + rank
  | .three => if rank < 0xd000 then 0x800 + rank else rank + 0x1000   -- 0xd000 = 0xd800 - 0x800; = 0xe000 + rank - 0xd000 (here rank ≥ 0xd000)
  | .four => 0x10000 + rank

/-- the same before the fix: a C0 control returned the *rank itself*, also for rank 0x20 — which is
    U+0020 SPACE, a member of the printable alphabet -/
def structFromRankOld (orig rank : Nat) : Nat :=
  match alphaOf orig with
  | .control => if orig < 0x20 then rank else if rank < 0x20 then rank else 0x7f
  | _ => structFromRank orig rank

/-- `StructuralPermutations::replace`: `π a` is the (lazily drawn, then fixed) table of alphabet `a` -/
def structReplace (π : Alpha → Nat → Nat) (c : Nat) : Nat :=
  structFromRank c (π (alphaOf c) (structRank c))

def structReplaceOld (π : Alpha → Nat → Nat) (c : Nat) : Nat :=
  structFromRankOld c (π (alphaOf c) (structRank c))

/-- what is assumed of the tables: each is a bijection of `0..count` (`random_derangement` shuffles
    `(0..count)`; that it has no fixed point is not needed) — stated as: maps `0..count` into itself
    and is injective there -/
def PermTables (π : Alpha → Nat → Nat) : Prop :=
  ∀ a, (∀ r, r < alphaCount a → π a r < alphaCount a) ∧
    (∀ r s, r < alphaCount a → s < alphaCount a → π a r = π a s → r = s)

/-- `anonymize_structural_string` on the code points of a string -/
def structString (π : Alpha → Nat → Nat) (cs : List Nat) : List Nat := cs.map (structReplace π)

/-- the same on the UTF-8 bytes of an ASCII string (one byte = one code point) -/
def asciiKeyMap (π : Alpha → Nat → Nat) (k : Bytes) : Bytes :=
  k.map (fun b => UInt8.ofNat (structReplace π b.toNat))

def IsAscii (k : Bytes) : Prop := ∀ b ∈ k, b.toNat < 0x80

/-- every map key of the op set is ASCII (Boolean form) -/
def asciiKeysB (ops : List Op) : Bool :=
  ops.all (fun o => match o.key with | .map k => k.all (fun b => decide (b.toNat < 0x80)) | _ => true)

/-! ### shape -/

/-- insertion sort of byte strings (duplicates kept): canonical order of a map's children -/
def insertB (k : Bytes) : List Bytes → List Bytes
  | [] => [k]
  | x :: xs => if bytesLt k x then k :: x :: xs else x :: insertB k xs

def sortB (l : List Bytes) : List Bytes := l.foldr insertB []

def joinB (sep : UInt8) : List Bytes → Bytes
  | [] => []
  | [x] => x
  | x :: xs => x ++ sep :: joinB sep xs

def asciiB (s : String) : Bytes := s.toList.map (fun c => UInt8.ofNat c.toNat)

def natB (n : Nat) : Bytes := asciiB (toString n)

/-- UTF-8 width of every character of a string, as digits (lead bytes only) -/
def utf8Classes (s : Bytes) : Bytes :=
  (s.filter (fun b => b.toNat / 64 != 2)).map (fun b =>
    if b.toNat < 0x80 then 49 else if b.toNat < 0xE0 then 50 else if b.toNat < 0xF0 then 51 else 52)

/-- what anonymisation keeps of a scalar (`anon.rs::tag`): kind; strings: per-character UTF-8 width
    (which fixes the UTF-16 width and the number of code points); bytes: length -/
def tagOf : Scalar → Bytes
  | .null => asciiB "n"
  | .bool _ => asciiB "b"
  | .int _ => asciiB "i"
  | .uint _ => asciiB "u"
  | .f64 _ => asciiB "f"
  | .str s => asciiB "s" ++ utf8Classes s
  | .bytes b => asciiB "x" ++ natB b.length
  | .counter _ => asciiB "c"
  | .timestamp _ => asciiB "t"
  | .unknown t b => asciiB "k" ++ natB t ++ asciiB "." ++ natB b.length

/-- the shape of one visible operation: a value's tag, or the shape of the object it makes -/
def opShape (tag : Scalar → Bytes) (child : OpId → ObjType → Bytes) (o : Op) : Bytes :=
  match o.action with
  | .put v => tag v
  | .make t => child o.id t
  | _ => asciiB "?"

/-- the conflict set of a key / element: the shapes of its visible operations, ascending by id -/
def regShape (tag : Scalar → Bytes) (child : OpId → ObjType → Bytes) (r : List Op) : Bytes :=
  joinB 124 (r.map (opShape tag child))

/-- width of a text element: that of its winning (greatest id) visible operation -/
def winnerWidth (W : Op → Nat) (r : List Op) : Nat :=
  match r.getLast? with
  | some w => W w
  | none => 0

/-- shape of an object: type; for maps the multiset (canonically sorted) of the keys' conflict
    sets; for sequences the length and the list of the elements' conflict sets; nested objects
    recursively.  `tag` is what is recorded of a scalar, `W` the width of an element's winner. -/
def shapeObj (tag : Scalar → Bytes) (W : Op → Nat) (ops : List Op) : Nat → ObjId → ObjType → Bytes
  | 0, _, _ => asciiB "?"
  | fuel + 1, obj, ty =>
    let child : OpId → ObjType → Bytes := fun i t => shapeObj tag W ops fuel (.id i) t
    match ty with
    | .map => asciiB "M{" ++ joinB 59 (sortB ((mapKeys ops obj).map (fun k => regShape tag child (mapRegOps ops obj k)))) ++ asciiB "}"
    | .table => asciiB "B{" ++ joinB 59 (sortB ((mapKeys ops obj).map (fun k => regShape tag child (mapRegOps ops obj k)))) ++ asciiB "}"
    | .list => asciiB "L" ++ natB (seqRegs ops obj).length ++ asciiB "[" ++
        joinB 59 ((seqRegs ops obj).map (fun p => regShape tag child p.2)) ++ asciiB "]"
    | .text => asciiB "T" ++ natB (((seqRegs ops obj).map (fun p => winnerWidth W p.2)).sum) ++ asciiB "[" ++
        joinB 59 ((seqRegs ops obj).map (fun p => regShape tag child p.2)) ++ asciiB "]"

/-- shape of the whole document -/
def shapeOf (tag : Scalar → Bytes) (W : Op → Nat) (ops : List Op) : Bytes :=
  shapeObj tag W ops (ops.length + 1) .root .map

/-- shape at a set of heads: the shape of the ancestors' operations -/
def shapeAt (tag : Scalar → Bytes) (W : Op → Nat) (d : Doc) (heads : List Hash) : Bytes :=
  shapeOf tag W (d.at heads).ops

end AmVerif.Crdt
