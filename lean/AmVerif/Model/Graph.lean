import AmVerif.Model.Spec
/-
  M5: change graph, pending queue and `apply_changes` (automerge.rs, change_graph.rs,
  change_queue.rs, op_set2/change/batch.rs `apply_changes_batch_log_patches`), in mutation order:
  every step returns the new document *and* the result, so "an error leaves the document
  unchanged" is a statement that can be false.
-/
namespace AmVerif.Crdt
open AmVerif

abbrev Hash := Bytes

structure Change where
  hash : Hash
  actor : Bytes
  seq : Nat
  startOp : Nat
  deps : List Hash
  ops : List Op
  deriving DecidableEq, Repr, Inhabited

/-- document as far as history is concerned: applied changes in application order (the
    `ChangeGraph` node order) and the queue of changes that are not causally ready -/
structure Doc where
  applied : List Change
  queue : List Change
  deriving Repr, Inhabited

def Doc.empty : Doc := ⟨[], []⟩

def Doc.hasChange (d : Doc) (h : Hash) : Bool := d.applied.any (fun c => c.hash == h)
def Doc.queueHas (d : Doc) (h : Hash) : Bool := d.queue.any (fun c => c.hash == h)

/-- `seq_for_actor`: the number of applied changes of that actor (= highest applied seq, as
    `add_changes` asserts seq = previous + 1) -/
def Doc.seqForActor (d : Doc) (a : Bytes) : Nat :=
  (d.applied.filter (fun c => c.actor == a)).foldl (fun m c => max m c.seq) 0

/-- `Automerge::has_actor_seq` -/
def Doc.hasActorSeq (d : Doc) (c : Change) : Bool := d.seqForActor c.actor ≥ c.seq

def queueHasActorSeq (q : List Change) (c : Change) : Bool :=
  q.any (fun x => x.actor == c.actor && x.seq == c.seq)

/-- `ChangeGraph::update_heads` folded over the applied changes -/
def headsOf (applied : List Change) : List Hash :=
  applied.foldl (fun hs c => (hs.filter (fun h => !c.deps.contains h)) ++ [c.hash]) []

def insertHash (h : Hash) : List Hash → List Hash
  | [] => [h]
  | x :: xs => if h == x then x :: xs else if bytesLt h x then h :: x :: xs else x :: insertHash h xs

def sortHashes (hs : List Hash) : List Hash := hs.foldr insertHash []

/-- `get_heads`: sorted -/
def Doc.heads (d : Doc) : List Hash := sortHashes (headsOf d.applied)

/-- transitive closure step of `remove_actor_branch_from`: add queued changes depending on a
    removed hash until nothing changes (`fuel` = queue length bounds the number of rounds) -/
def closeRemoved (q : List Change) : Nat → List Hash → List Hash
  | 0, removed => removed
  | fuel + 1, removed =>
    let more := (q.filter (fun c => !removed.contains c.hash && c.deps.any (fun d => removed.contains d))).map (·.hash)
    if more.isEmpty then removed else closeRemoved q fuel (removed ++ more)

/-- `ChangeQueue::remove_actor_branch_from` -/
def removeActorBranchFrom (q : List Change) (actor : Bytes) (seq : Nat) : List Change :=
  let removed0 := (q.filter (fun c => c.actor == actor && c.seq ≥ seq)).map (·.hash)
  let removed := closeRemoved q q.length removed0
  q.filter (fun c => !removed.contains c.hash)

inductive ApplyErr where
  | duplicateSeq (seq : Nat) (actor : Bytes)
  deriving DecidableEq, Repr

/-- the loop of `apply_changes_batch_log_patches` that fills the `ChangeBatch`
    (`batch` is kept in push order). Returns the possibly modified queue and the batch or error. -/
def collectBatch (d : Doc) : List Change → List Change → List Change × Except ApplyErr (List Change)
  | [], batch => (d.queue, .ok batch)
  | c :: cs, batch =>
    -- `filter`: skip changes already applied or queued
    if d.hasChange c.hash || d.queueHas c.hash then collectBatch d cs batch
    else if d.hasActorSeq c then
      (removeActorBranchFrom d.queue c.actor (c.seq + 1), .error (.duplicateSeq c.seq c.actor))
    else if queueHasActorSeq d.queue c then (d.queue, .error (.duplicateSeq c.seq c.actor))
    -- `ChangeBatch::push`
    else if batch.any (fun x => x.hash == c.hash) then collectBatch d cs batch
    else if queueHasActorSeq batch c then (d.queue, .error (.duplicateSeq c.seq c.actor))
    else collectBatch d cs (batch ++ [c])

/-- "unsatisfied count is zero" of `pop_topo_sorted_ready`: every dep of `x` is in the change graph
    or among the changes `rel` released so far -/
def isSat (applied : Doc) (rel : List Change) (x : Change) : Bool :=
  x.deps.all (fun dep => applied.hasChange dep || rel.any (fun r => r.hash == dep))

/-- Kahn's algorithm of `pop_topo_sorted_ready`, FIFO ready queue, over the pool `q`.
    `done` = hashes released so far (in order), `ready` = FIFO of pool changes whose unsatisfied
    count reached zero.  A change becomes ready when all its deps are in the graph or released. -/
def kahnLoop (applied : Doc) (pool : List Change) : Nat → List Change → List Change → List Change
  | 0, _, done => done
  | _ + 1, [], done => done
  | fuel + 1, c :: rest, done =>
    let done' := done ++ [c]
    -- dependents of `c` whose last unsatisfied dep was `c`, in pool (index) order
    let newly := pool.filter (fun x =>
      x.deps.contains c.hash && isSat applied done' x && !isSat applied done x
        && !(done'.any (fun r => r.hash == x.hash)) && !(rest.any (fun r => r.hash == x.hash)))
    kahnLoop applied pool fuel (rest ++ newly) done'

/-- `pop_topo_sorted_ready`: (released changes in topological order, remaining queue) -/
def popTopoSortedReady (d : Doc) : List Change × List Change :=
  let ready0 := d.queue.filter (fun x => x.deps.all (fun dep => d.hasChange dep))
  let topo := kahnLoop d d.queue (d.queue.length + 1) ready0 []
  (topo, d.queue.filter (fun x => !(topo.any (fun r => r.hash == x.hash))))

/-- `apply_changes_batch_log_patches` (history part; the op store is `Spec.interp` of the applied
    ops, see Model/Spec) -/
def applyBatch (d : Doc) (cs : List Change) : Doc × Except ApplyErr Unit :=
  match collectBatch d cs [] with
  | (q, .error e) => ({ d with queue := q }, .error e)
  | (_, .ok batch) =>
    let d1 : Doc := { d with queue := d.queue ++ batch }
    if d1.queue.isEmpty then (d1, .ok ()) else
    let (topo, rest) := popTopoSortedReady d1
    ({ applied := d1.applied ++ topo, queue := rest }, .ok ())

/-- `missing_deps_from`: DFS from `start` through the deps of queued changes -/
def missingLoop (d : Doc) : Nat → List Hash → List Hash → List Hash → List Hash
  | 0, _, _, missing => missing
  | _ + 1, [], _, missing => missing
  | fuel + 1, h :: rest, seen, missing =>
    if d.hasChange h || seen.contains h then missingLoop d fuel rest seen missing
    else
      match d.queue.find? (fun c => c.hash == h) with
      | some c => missingLoop d fuel (c.deps ++ rest) (h :: seen) missing
      | none => missingLoop d fuel rest (h :: seen) (h :: missing)

/-- `get_missing_deps(heads)` -/
def Doc.missingDeps (d : Doc) (heads : List Hash) : List Hash :=
  let start := d.queue.map (·.hash) ++ heads
  let fuel := start.length + (d.queue.foldl (fun n c => n + c.deps.length + 1) 0) + 1
  sortHashes (missingLoop d fuel start [] [])

/-- all operations of the applied changes: the op set `Spec` interprets -/
def Doc.ops (d : Doc) : List Op := d.applied.flatMap (·.ops)

/-- ancestors (inclusive) of a set of hashes within the applied changes; `fuel` = #applied -/
def ancestorsLoop (applied : List Change) : Nat → List Hash → List Hash → List Hash
  | 0, _, acc => acc
  | fuel + 1, frontier, acc =>
    match frontier with
    | [] => acc
    | h :: rest =>
      if acc.contains h then ancestorsLoop applied fuel rest acc
      else match applied.find? (fun c => c.hash == h) with
        | some c => ancestorsLoop applied fuel (c.deps ++ rest) (h :: acc)
        | none => ancestorsLoop applied fuel rest acc

def Doc.ancestors (d : Doc) (heads : List Hash) : List Hash :=
  ancestorsLoop d.applied (d.applied.foldl (fun n c => n + c.deps.length + 1) 0 + heads.length + 1) heads []

/-- the document that contains exactly the ancestors of `heads` (what `fork_at` builds) -/
def Doc.at (d : Doc) (heads : List Hash) : Doc :=
  let anc := d.ancestors heads
  { applied := d.applied.filter (fun c => anc.contains c.hash), queue := [] }

end AmVerif.Crdt
