import AmVerif.Model.ChangeCodec
import AmVerif.Model.Store
/-
  M2 (document chunk): the body of a DOCUMENT chunk as `rust/automerge` writes and reads it.

  Writing (`Automerge::save_with_options` → `Document::new`, storage/document.rs):
    actor table (`op_set.actors`: sorted, only the actors that authored an applied change —
    `assert_no_unused_actors`), heads (`ChangeGraph::heads`, a `BTreeSet`: sorted), change column
    metadata, op column metadata (`RawColumns::write`; empty columns are dropped by
    `RawColumn::try_new` / `RawColumns::from_iter`), change column data (`ChangeGraph::encode`), op
    column data (`OpSet::export` = `Columns::export`, the 16 op columns in spec order), head indexes.
    Every column is a hexane column: `save_to` writes the canonical encoding of the value list
    (`Hexane.rleEncode` / `deltaEncode` / `boolEncode`), `save_to_unless(v)` writes nothing when every
    value is `v`.
  Reading (`Chunk::parse` → `Document::parse`; then `Document::reconstruct`):
    `parse::length_prefixed(actor_id)`, `length_prefixed(change_hash)`, `RawColumns::parse` ×2
    (strict LEB128 of M0, `NotInNormalOrder`), `take_n` ×2, the optional head-index suffix,
    `compression::decompress` (DEFLATE per column: `Model/Inflate`), `Columns::parse2` on both column
    tables (`ChangeCodec.parseLayout`), leftover check;
    `OpSet::load` = `Columns::load`: every op column through hexane's VALIDATING loader
    (`Hexane.rleLoad` / `boolLoad`: canonical form, `with_length`, `with_fill`);
    `ChangeGraphCols::load`: actor / seq / max_op / deps through hexane's NON-validating streaming
    decoders (`hexane::decoder`, `DeltaDecoder`: they `unwrap`), time / message / extra through the
    validating loader; `max_ops[..]` indexing;
    `ChangeCollector`: ops grouped back into changes by (actor, counter range), predecessors derived
    from the successor lists, deletes re-created from successor ids that have no row, every change
    re-encoded (`ChangeCodec.encodeBody`) and hashed, heads compared.
  Every place where the Rust can panic on untrusted bytes is an explicit `panic` branch.
-/
namespace AmVerif.DocCodec
open AmVerif AmVerif.Leb AmVerif.Crdt
open AmVerif.Hexane (ValCodec Item Weight cU64 cU32 cI64 cStr rleEncode deltaEncode boolEncode rleLoad boolLoad
  two63 two64 HErr readU readS encU)
open AmVerif.ChangeCodec (IdI Rng slice mkSpec specNorm specDeflate specId specType
  T_GROUP T_ACTOR T_INT T_DELTA T_BOOL T_STRING T_VALMETA T_VALUE lenPrefixed valueMeta valueRaw)

/-! ## what the chunk carries -/

/-- `KeyRef` with actor indexes -/
inductive DKey where
  | prop (s : Bytes)
  | head
  | elem (id : IdI)
  deriving DecidableEq, Repr, Inhabited

/-- one row of the op columns (ids carry indexes into the document's actor table) -/
structure OpRow where
  id : IdI
  /-- `none` = the root object -/
  obj : Option IdI
  key : DKey
  insert : Bool
  action : Nat
  val : Scalar
  succ : List IdI
  expand : Bool
  markName : Option Bytes
  deriving DecidableEq, Repr, Inhabited

/-- one row of the change columns -/
structure ChangeMeta where
  actor : Nat
  seq : Nat
  maxOp : Nat
  time : Int
  message : Option Bytes
  /-- indexes (graph order) of the dependencies, in the order of the change's own dependency list -/
  deps : List Nat
  extra : Bytes
  deriving DecidableEq, Repr, Inhabited

structure DocImage where
  actors : List Bytes
  heads : List Bytes
  changes : List ChangeMeta
  ops : List OpRow
  /-- graph index of every head (the suffix; absent in files of old JS versions) -/
  headIdx : List Nat
  deriving DecidableEq, Repr, Inhabited

/-! ## column specifications (op_set2/columns.rs `ids`, change_graph.rs `ids`) -/

def OBJ_COL_ID : Nat := 0
def KEY_COL_ID : Nat := 1
def ID_COL_ID : Nat := 2
def INSERT_COL_ID : Nat := 3
def ACTION_COL_ID : Nat := 4
def VAL_COL_ID : Nat := 5
def SUCC_COL_ID : Nat := 8
def EXPAND_COL_ID : Nat := 9
def MARK_NAME_COL_ID : Nat := 10

def S_OBJ_ACTOR : Nat := mkSpec OBJ_COL_ID T_ACTOR
def S_OBJ_CTR : Nat := mkSpec OBJ_COL_ID T_INT
def S_KEY_ACTOR : Nat := mkSpec KEY_COL_ID T_ACTOR
def S_KEY_CTR : Nat := mkSpec KEY_COL_ID T_DELTA
def S_KEY_STR : Nat := mkSpec KEY_COL_ID T_STRING
def S_ID_ACTOR : Nat := mkSpec ID_COL_ID T_ACTOR
def S_ID_CTR : Nat := mkSpec ID_COL_ID T_DELTA
def S_INSERT : Nat := mkSpec INSERT_COL_ID T_BOOL
def S_ACTION : Nat := mkSpec ACTION_COL_ID T_INT
def S_VAL_META : Nat := mkSpec VAL_COL_ID T_VALMETA
def S_VAL_RAW : Nat := mkSpec VAL_COL_ID T_VALUE
def S_SUCC_COUNT : Nat := mkSpec SUCC_COL_ID T_GROUP
def S_SUCC_ACTOR : Nat := mkSpec SUCC_COL_ID T_ACTOR
def S_SUCC_CTR : Nat := mkSpec SUCC_COL_ID T_DELTA
def S_EXPAND : Nat := mkSpec EXPAND_COL_ID T_BOOL
def S_MARK_NAME : Nat := mkSpec MARK_NAME_COL_ID T_STRING

/-- `ALL_COLUMN_SPECS` sorted (`cols.sort()` in `Columns::export`) -/
def opSpecs : List Nat :=
  [S_OBJ_ACTOR, S_OBJ_CTR, S_KEY_ACTOR, S_KEY_CTR, S_KEY_STR, S_ID_ACTOR, S_ID_CTR, S_INSERT, S_ACTION,
   S_VAL_META, S_VAL_RAW, S_SUCC_COUNT, S_SUCC_ACTOR, S_SUCC_CTR, S_EXPAND, S_MARK_NAME]

def C_ACTOR : Nat := mkSpec 0 T_ACTOR
def C_SEQ : Nat := mkSpec 0 T_DELTA
def C_MAX_OP : Nat := mkSpec 1 T_DELTA
def C_TIME : Nat := mkSpec 2 T_DELTA
def C_MESSAGE : Nat := mkSpec 3 T_STRING
def C_DEPS_COUNT : Nat := mkSpec 4 T_GROUP
def C_DEPS_VAL : Nat := mkSpec 4 T_DELTA
def C_EXTRA_META : Nat := mkSpec 5 T_VALMETA
def C_EXTRA_RAW : Nat := mkSpec 5 T_VALUE

def changeSpecs : List Nat :=
  [C_ACTOR, C_SEQ, C_MAX_OP, C_TIME, C_MESSAGE, C_DEPS_COUNT, C_DEPS_VAL, C_EXTRA_META, C_EXTRA_RAW]

/-! ## value codecs of the typed columns -/

/-- `ActorIdx`: `try_read_unsigned` then `ActorIdx::from(u64)` = `as u32` (truncation, no error) -/
def cActor : ValCodec Nat :=
  ⟨encU, fun bs => match readU bs with
    | .ok (v, r) => .ok (v % 2 ^ 32, r)
    | .error e => .error e⟩

/-- `Action`: an integer between 0 and 7, anything else is `InvalidValue` -/
def cAction : ValCodec Nat :=
  ⟨encU, fun bs => match readU bs with
    | .ok (v, r) => if v ≤ 7 then .ok (v, r) else .error .value
    | .error e => .error e⟩

/-! ## writing the columns -/

/-- `Column<T>::save_to` of a non-nullable column -/
def encNonNull {α : Type} [DecidableEq α] (c : ValCodec α) (xs : List α) : Bytes := rleEncode c (xs.map some)

/-- `Column<Option<T>>::save_to_unless(None)` -/
def encNullable {α : Type} [DecidableEq α] (c : ValCodec α) (xs : List (Option α)) : Bytes :=
  if xs.all (fun x => x.isNone) then [] else rleEncode c xs

/-- `DeltaColumn<u32>::save_to` / `DeltaEncoder<usize>::encode_to` -/
def encDelta (xs : List Nat) : Bytes := deltaEncode (xs.map (fun (n : Nat) => some (Int.ofNat n)))

/-- `DeltaColumn<Option<u32>>::save_to_unless(None)` -/
def encDeltaNullable (xs : List (Option Nat)) : Bytes :=
  if xs.all (fun x => x.isNone) then [] else deltaEncode (xs.map (fun x => x.map (fun (n : Nat) => Int.ofNat n)))

/-- `Column<bool>::save_to_unless(false)` -/
def encBoolUnless (xs : List Bool) : Bytes := if xs.all (fun b => !b) then [] else boolEncode xs

def objActorOf (r : OpRow) : Option Nat := r.obj.map (·.actor)
def objCtrOf (r : OpRow) : Option Nat := r.obj.map (·.ctr)
def keyActorOf (r : OpRow) : Option Nat := match r.key with | .elem e => some e.actor | _ => none
def keyCtrOf (r : OpRow) : Option Nat := match r.key with | .elem e => some e.ctr | .head => some 0 | .prop _ => none
def keyStrOf (r : OpRow) : Option Bytes := match r.key with | .prop s => some s | _ => none

/-- the 16 op columns of `Columns::export`, in spec order, before empty columns are dropped -/
def opCols (rows : List OpRow) : List (Nat × Bytes) :=
  let succs := rows.flatMap (·.succ)
  [ (S_OBJ_ACTOR, encNullable cActor (rows.map objActorOf)),
    (S_OBJ_CTR, encNullable cU32 (rows.map objCtrOf)),
    (S_KEY_ACTOR, encNullable cActor (rows.map keyActorOf)),
    (S_KEY_CTR, encDeltaNullable (rows.map keyCtrOf)),
    (S_KEY_STR, encNullable cStr (rows.map keyStrOf)),
    (S_ID_ACTOR, encNonNull cActor (rows.map (·.id.actor))),
    (S_ID_CTR, encDelta (rows.map (·.id.ctr))),
    (S_INSERT, boolEncode (rows.map (·.insert))),
    (S_ACTION, encNonNull cAction (rows.map (·.action))),
    (S_VAL_META, encNonNull cU64 (rows.map (fun r => valueMeta r.val))),
    (S_VAL_RAW, (rows.map (fun r => valueRaw r.val)).flatten),
    (S_SUCC_COUNT, encNonNull cU32 (rows.map (·.succ.length))),
    (S_SUCC_ACTOR, encNonNull cActor (succs.map (·.actor))),
    (S_SUCC_CTR, encDelta (succs.map (·.ctr))),
    (S_EXPAND, encBoolUnless (rows.map (·.expand))),
    (S_MARK_NAME, encNullable cStr (rows.map (·.markName))) ]

/-- `ValueMeta::from(&[u8])`: extra bytes are stored as a `Bytes` value -/
def extraMeta (b : Bytes) : Nat := b.length * 16 + 7

/-- the 9 change columns of `ChangeGraph::encode` -/
def changeCols (cs : List ChangeMeta) : List (Nat × Bytes) :=
  [ (C_ACTOR, encNonNull cActor (cs.map (·.actor))),
    (C_SEQ, encDelta (cs.map (·.seq))),
    (C_MAX_OP, encDelta (cs.map (·.maxOp))),
    (C_TIME, deltaEncode (cs.map (fun c => some c.time))),
    (C_MESSAGE, encNullable cStr (cs.map (·.message))),
    (C_DEPS_COUNT, encNonNull cU64 (cs.map (·.deps.length))),
    (C_DEPS_VAL, encDelta (cs.flatMap (·.deps))),
    (C_EXTRA_META, encNonNull cU64 (cs.map (fun c => extraMeta c.extra))),
    (C_EXTRA_RAW, cs.flatMap (·.extra)) ]

/-- `RawColumns::from_iter`: empty columns are not written -/
def nonEmptyCols (cols : List (Nat × Bytes)) : List (Nat × Bytes) := cols.filter (fun c => !c.2.isEmpty)

/-- `RawColumns::write` -/
def colMeta (cols : List (Nat × Bytes)) : Bytes :=
  ulebEncode cols.length ++ (cols.map (fun c => ulebEncode c.1 ++ ulebEncode c.2.length)).flatten

def colData (cols : List (Nat × Bytes)) : Bytes := (cols.map (·.2)).flatten

/-- **`Document::new`** without DEFLATE: the body of the document chunk -/
def encodeDoc (img : DocImage) : Bytes :=
  let cc := nonEmptyCols (changeCols img.changes)
  let oc := nonEmptyCols (opCols img.ops)
  ulebEncode img.actors.length ++ (img.actors.map lenPrefixed).flatten
    ++ ulebEncode img.heads.length ++ img.heads.flatten
    ++ colMeta cc ++ colMeta oc ++ colData cc ++ colData oc
    ++ (img.headIdx.map ulebEncode).flatten

/-- the pieces of the body the differential run compares one by one -/
structure Pieces where
  actors : Bytes
  heads : Bytes
  changeCols : List (Nat × Bytes)
  opCols : List (Nat × Bytes)
  suffix : Bytes

def piecesOf (img : DocImage) : Pieces :=
  { actors := ulebEncode img.actors.length ++ (img.actors.map lenPrefixed).flatten
    heads := ulebEncode img.heads.length ++ img.heads.flatten
    changeCols := nonEmptyCols (changeCols img.changes)
    opCols := nonEmptyCols (opCols img.ops)
    suffix := (img.headIdx.map ulebEncode).flatten }

/-! ## the image of a history -/

/-- a change with everything the document chunk stores about it -/
structure DChange where
  c : Crdt.Change
  time : Int
  message : Option Bytes
  extra : Bytes
  deriving DecidableEq, Repr, Inhabited

/-- `max_op`: the counter of the last op (`start_op - 1` for an empty change) -/
def DChange.maxOp (d : DChange) : Nat := d.c.startOp + d.c.ops.length - 1

def idxOf (table : List Bytes) (a : Bytes) : Nat := ChangeCodec.actorIndex table a

def toIdx (table : List Bytes) (o : OpId) : IdI := ⟨o.ctr, idxOf table o.actor⟩

def hashIdx (applied : List DChange) (h : Hash) : Nat := applied.findIdx (fun d => d.c.hash == h)

/-- the row the op columns hold for a stored op (`OpLike for Op` → `Columns::splice`) -/
def rowOf (table : List Bytes) (r : Crdt.Row) : OpRow :=
  let cr := ChangeCodec.toRow table r.op
  { id := toIdx table r.op.id
    obj := match r.op.obj with | .root => none | .id i => some (toIdx table i)
    key := match r.op.key with | .map k => .prop k | .head => .head | .elem e => .elem (toIdx table e)
    insert := r.op.insert
    action := cr.action
    val := cr.val
    succ := r.succ.map (fun p => toIdx table p.1)
    expand := cr.expand
    markName := cr.markName }

/-- the sorted actor table of a document: the authors of its applied changes -/
def actorTable (applied : List DChange) : List Bytes := ChangeCodec.sortBytes (applied.map (·.c.actor))

/-- **what `save` puts into the document chunk** for applied changes in graph order: the op rows
    are the rows of the op store (`Store.buildStore`: the code's order, successor lists) -/
def imageOf (applied : List DChange) : DocImage :=
  let table := actorTable applied
  let heads := sortHashes (headsOf (applied.map (·.c)))
  let store := buildStore (fun _ => 0) (applied.flatMap (·.c.ops))
  { actors := table
    heads := heads
    changes := applied.map (fun d =>
      { actor := idxOf table d.c.actor, seq := d.c.seq, maxOp := d.maxOp, time := d.time, message := d.message,
        deps := d.c.deps.map (hashIdx applied), extra := d.extra })
    ops := store.map (rowOf table)
    headIdx := heads.map (hashIdx applied) }


/-! ## reading: `Document::parse` -/

inductive DErr where
  | parse (e : PErr)        -- `storage::parse` error inside the chunk body
  | notNormal               -- `NotInNormalOrder`
  | inflate                 -- a column marked as compressed does not inflate
  | layout                  -- `BadColumnLayout`
  | leftover                -- `LeftoverData`
  | pack (e : HErr)         -- `PackError` of a hexane column load
  | readOp                  -- `ReadOpError`
  | actorId                 -- `InvalidActorId`
  | colLen                  -- `InvalidColumnLength`
  | maxOp                   -- `InvalidMaxOp`
  | changes                 -- `InvalidChanges` (MissingActor, ChangesOutOfOrder, IncorrectMaxOp, MissingOps)
  | heads                   -- `MismatchingHeads`
  | markOrder               -- `InvalidMarkOrderDoc`
  | tooBig                  -- not a Rust error: the model's row budget is exhausted (the driver prints `skip`)
  deriving DecidableEq, Repr, Inhabited

abbrev DRes := Outcome DErr

def liftP {α : Type} : Except PErr α → DRes α
  | .ok a => .ok a
  | .error e => .err (.parse e)

def liftH {α : Type} : Hexane.Res α → DRes α
  | .ok a => .ok a
  | .err e => .err (.pack e)
  | .panic p => .panic p

/-- the chunk body split by `Document::parse`, columns inflated, column tables validated and
    filtered to the known specifications -/
structure Parsed where
  actors : List Bytes
  heads : List Bytes
  changeCols : List (Nat × Rng)
  changeData : Bytes
  opCols : List (Nat × Rng)
  opData : Bytes
  headIdx : List Nat
  deriving Repr

/-- `apply_n(n, leb128_u64)` -/
def parseUlebs : Nat → Bytes → PResult (List Nat)
  | 0, i => .ok ([], i)
  | n + 1, i =>
    match uleb64 i with
    | .error e => .error e
    | .ok (v, i) =>
      match parseUlebs n i with
      | .error e => .error e
      | .ok (r, i) => .ok (v :: r, i)

/-- `RawColumns::uncompress`: every column copied or inflated, consecutive ranges in the output -/
def uncompressCols (data : Bytes) : List (Nat × Rng) → Nat → Option (List (Nat × Rng) × Bytes)
  | [], _ => some ([], [])
  | (spec, r) :: rest, off =>
    let bytes? : Option Bytes := if specDeflate spec then Inflate.inflate (slice data r) else some (slice data r)
    match bytes? with
    | none => none
    | some b =>
      match uncompressCols data rest (off + b.length) with
      | none => none
      | some (cols, out) => some ((if specDeflate spec then spec - 8 else spec, ⟨off, off + b.length⟩) :: cols, b ++ out)

/-- `compression::decompress` for one column table -/
def decompress (cols : List (Nat × Rng)) (data : Bytes) : Option (List (Nat × Rng) × Bytes) :=
  if cols.any (fun c => specDeflate c.1) then uncompressCols data cols 0 else some (cols, data)

/-- `Document::parse` followed by the leftover check of `Chunk::parse` -/
def parseBody (body : Bytes) : DRes Parsed :=
  match uleb64 body with
  | .error e => .err (.parse e)
  | .ok (na, i) =>
  match ChangeCodec.parseActors na i with
  | .error e => .err (.parse e)
  | .ok (actors, i) =>
  match uleb64 i with
  | .error e => .err (.parse e)
  | .ok (nh, i) =>
  match ChangeCodec.parseHashes nh i with
  | .error e => .err (.parse e)
  | .ok (heads, i) =>
  match ChangeCodec.parseRawColumns i with
  | .panic p => .panic p
  | .err (.parse e) => .err (.parse e)
  | .err _ => .err .notNormal
  | .ok (ccols, i) =>
  match ChangeCodec.parseRawColumns i with
  | .panic p => .panic p
  | .err (.parse e) => .err (.parse e)
  | .err _ => .err .notNormal
  | .ok (ocols, i) =>
  match Chunk.takeN ((ccols.map (fun c => c.2.len)).sum) i with
  | .error e => .err (.parse e)
  | .ok (cdata, i) =>
  match Chunk.takeN ((ocols.map (fun c => c.2.len)).sum) i with
  | .error e => .err (.parse e)
  | .ok (odata, i) =>
  -- `range_only_unless_empty`: the suffix may be absent
  let suffix : PResult (List Nat) := if i.isEmpty then .ok ([], []) else parseUlebs heads.length i
  match suffix with
  | .error e => .err (.parse e)
  | .ok (headIdx, rest) =>
  match decompress ccols cdata, decompress ocols odata with
  | some (ccols, cdata), some (ocols, odata) =>
    -- `OpSet::validate`, then `ChangeGraph::validate`
    match ChangeCodec.parseLayout odata.length ocols {}, ChangeCodec.parseLayout cdata.length ccols {} with
    | .ok _, .ok _ =>
      if !rest.isEmpty then .err .leftover else
      .ok { actors := actors, heads := heads,
            changeCols := ccols.filter (fun c => changeSpecs.contains c.1), changeData := cdata,
            opCols := ocols.filter (fun c => opSpecs.contains c.1), opData := odata, headIdx := headIdx }
    | _, _ => .err .layout
  | _, _ => .err .inflate

/-! ## reading: the validating hexane loader (`OpSet::load`, part of `ChangeGraphCols::load`) -/

/-- `RawColumns::as_map().get(spec).unwrap_or_default()`: the last column with that specification -/
def colBytes (cols : List (Nat × Rng)) (data : Bytes) (spec : Nat) : Bytes :=
  match (cols.filter (fun c => c.1 = spec)).getLast? with
  | some c => slice data c.2
  | none => []

/-- `Column<T>::load_with(data, with_length(len) [.with_fill(v)])`, values expanded.
    With a fill and no data the column is `Column::fill(len, v)` (which asserts `len <= i64::MAX`). -/
def loadRle {α : Type} [DecidableEq α] (c : ValCodec α) (nullable : Bool) (w : Weight) (num : α → Int)
    (len : Nat) (fill : Option (Option α)) (bs : Bytes) : Hexane.Res (List (Option α)) :=
  match bs.isEmpty, fill with
  | true, some v =>
    if len = 0 then .ok [] else if ¬ len < two63 then .panic .assertFailed else .ok (List.replicate len v)
  | _, _ =>
    match rleLoad c nullable w num (some len) bs with
    | .ok items => .ok (Hexane.expand items)
    | .err e => .err e
    | .panic p => .panic p

/-- the values of a non-nullable column (the loader rejects null runs, so nothing is dropped) -/
def somes {α : Type} (xs : List (Option α)) : List α := xs.filterMap id

/-- `DeltaColumn<T>::load_with` -/
def loadDelta (nullable : Bool) (lo hi : Int) (len : Nat) (fill : Option (Option Int)) (bs : Bytes) :
    Hexane.Res (List (Option Int)) :=
  match loadRle cI64 nullable (.delta lo hi) id len fill bs with
  | .ok ds => .ok (Hexane.realise ds 0)
  | .err e => .err e
  | .panic p => .panic p

/-- `Column<bool>` / `PrefixColumn<bool>::load_with(data, with_length(len).with_fill(false))` -/
def loadBool (checked : Bool) (len : Nat) (bs : Bytes) : Hexane.Res (List Bool) :=
  if bs.isEmpty then
    if len = 0 then .ok [] else if ¬ len < two63 then .panic .assertFailed else .ok (List.replicate len false)
  else
    match boolLoad checked (some len) bs with
    | .ok runs => .ok (Hexane.expandBool runs false)
    | .err e => .err e
    | .panic p => .panic p

def u32max : Int := 2 ^ 32 - 1

def natsOf (xs : List (Option Int)) : List (Option Nat) := xs.map (fun x => x.map Int.toNat)

/-- the op columns as value lists, all of the length of the id column -/
structure OpColsV where
  idActor : List Nat
  idCtr : List Nat
  objActor : List (Option Nat)
  objCtr : List (Option Nat)
  keyActor : List (Option Nat)
  keyCtr : List (Option Nat)
  keyStr : List (Option Bytes)
  insert : List Bool
  action : List Nat
  markName : List (Option Bytes)
  expand : List Bool
  succCount : List Nat
  succActor : List Nat
  succCtr : List Nat
  valMeta : List Nat
  valRaw : Bytes
  deriving Repr

/-- **`Columns::load`**: the loads in the order of the Rust; the first failure is the result.
    `limit` is the model's budget of rows. -/
def loadOpCols (limit : Nat) (cols : List (Nat × Rng)) (data : Bytes) : DRes OpColsV :=
  let B := colBytes cols data
  let natI : Nat → Int := fun n => n
  -- `Column::<ActorIdx>::load(id_actor)`: no length option, its length is the number of rows
  match rleLoad cActor false .len natI none (B S_ID_ACTOR) with
  | .err e => .err (.pack e)
  | .panic p => .panic p
  | .ok items =>
  let len := Hexane.itemsLen items
  if len > limit then .err .tooBig else
  let idActor := somes (Hexane.expand items)
  do
    let idCtr ← liftH (loadDelta false 0 u32max len none (B S_ID_CTR))
    let objActor ← liftH (loadRle cActor true .len natI len (some none) (B S_OBJ_ACTOR))
    let objCtr ← liftH (loadRle cU32 true .len natI len (some none) (B S_OBJ_CTR))
    let keyActor ← liftH (loadRle cActor true .len natI len (some none) (B S_KEY_ACTOR))
    let keyCtr ← liftH (loadDelta true 0 u32max len (some none) (B S_KEY_CTR))
    let keyStr ← liftH (loadRle cStr true .len (fun _ => 0) len (some none) (B S_KEY_STR))
    let insert ← liftH (loadBool true len (B S_INSERT))
    let action ← liftH (loadRle cAction false .len natI len none (B S_ACTION))
    let markName ← liftH (loadRle cStr true .len (fun _ => 0) len (some none) (B S_MARK_NAME))
    let expand ← liftH (loadBool false len (B S_EXPAND))
    let succCount ← liftH (loadRle cU32 false (.prefixU two64) natI len none (B S_SUCC_COUNT))
    let succLen := (somes succCount).sum
    if succLen > limit then Outcome.err DErr.tooBig else
    let succActor ← liftH (loadRle cActor false .len natI succLen none (B S_SUCC_ACTOR))
    let succCtr ← liftH (loadDelta false 0 u32max succLen none (B S_SUCC_CTR))
    let valMeta ← liftH (loadRle cU64 false (.prefixU two64) (fun m => ((m / 16 : Nat) : Int)) len none (B S_VAL_META))
    pure { idActor := idActor, idCtr := (somes idCtr).map Int.toNat, objActor := objActor, objCtr := objCtr,
           keyActor := keyActor, keyCtr := natsOf keyCtr, keyStr := keyStr, insert := insert,
           action := somes action, markName := markName, expand := expand, succCount := somes succCount,
           succActor := somes succActor, succCtr := (somes succCtr).map Int.toNat,
           valMeta := somes valMeta, valRaw := B S_VAL_RAW }

/-! ## reading: one op per row (`OpIter::try_next`) -/

/-- the column values of one row -/
structure RawRow where
  idActor : Nat
  idCtr : Nat
  objActor : Option Nat
  objCtr : Option Nat
  keyActor : Option Nat
  keyCtr : Option Nat
  keyStr : Option Bytes
  insert : Bool
  action : Nat
  markName : Option Bytes
  expand : Bool
  succCount : Nat
  valMeta : Nat
  deriving Repr, DecidableEq

def zipRows (v : OpColsV) : List RawRow :=
  (v.idActor.zip (v.idCtr.zip (v.objActor.zip (v.objCtr.zip (v.keyActor.zip (v.keyCtr.zip (v.keyStr.zip
    (v.insert.zip (v.action.zip (v.markName.zip (v.expand.zip (v.succCount.zip v.valMeta)))))))))))).map
    (fun (a, b, c, d, e, f, g, h, i, j, k, l, m) => ⟨a, b, c, d, e, f, g, h, i, j, k, l, m⟩)

/-- `ElemId::try_load`: `none` = `InvalidKey`, `some none` = no element id -/
def loadElem (actor ctr : Option Nat) : Option (Option DKey) :=
  match ctr with
  | none => (match actor with | none => some none | some _ => none)
  | some c =>
    match actor with
    | none => if c = 0 then some (some .head) else none
    | some a => if c > 0 then some (some (.elem ⟨c, a⟩)) else none

/-- `KeyRef::try_load` -/
def loadKey (str : Option Bytes) (actor ctr : Option Nat) : Option DKey :=
  match loadElem actor ctr with
  | none => none                                   -- InvalidKey
  | some e =>
    match str with
    | some s => (match e with | none => some (.prop s) | some _ => none)   -- InvalidKey
    | none => e                                                             -- MissingKey when `none`

/-- `ObjId::try_load`: `none` = error, `some none` = root -/
def loadObj (actor ctr : Option Nat) : Option (Option IdI) :=
  match actor, ctr with
  | some a, some c => if c = 0 then some none else some (some ⟨c, a⟩)
  | none, none => some none
  | _, _ => none

/-- `ScalarValue::from_raw`: the varints through the STRICT parser of M0, whatever follows them inside
    the value's bytes is ignored -/
def scalarOfRaw (m : Nat) (bs : Bytes) : Option Scalar :=
  let ty := m % 16
  if ty = 0 then some .null
  else if ty = 1 then some (.bool false)
  else if ty = 2 then some (.bool true)
  else if ty = 3 then (match uleb64 bs with | .ok (n, _) => some (.uint n) | .error _ => none)
  else if ty = 4 then (match sleb64 bs with | .ok (n, _) => some (.int n) | .error _ => none)
  else if ty = 5 then (if bs.length = 8 then some (.f64 (ChangeCodec.leBytesToNat bs)) else none)
  else if ty = 6 then (if Hexane.validUtf8 bs then some (.str bs) else none)
  else if ty = 7 then some (.bytes bs)
  else if ty = 8 then (match sleb64 bs with | .ok (n, _) => some (.counter n) | .error _ => none)
  else if ty = 9 then (match sleb64 bs with | .ok (n, _) => some (.timestamp n) | .error _ => none)
  else some (.unknown ty bs)

/-- one round of `OpIter::try_next`; the state is what is left of the successor columns and of the
    raw value column.  `RawColumnIter::take` panics when the value is longer than what is left. -/
def readRow (rr : RawRow) (succA succC : List Nat) (raw : Bytes) : DRes (OpRow × List Nat × List Nat × Bytes) :=
  match loadKey rr.keyStr rr.keyActor rr.keyCtr with
  | none => .err .readOp
  | some key =>
  match loadObj rr.objActor rr.objCtr with
  | none => .err .readOp
  | some obj =>
  let vlen := rr.valMeta / 16
  if raw.length < vlen then .panic .assertFailed else
  match scalarOfRaw rr.valMeta (raw.take vlen) with
  | none => .err .readOp
  | some val =>
    let succ := (succA.take rr.succCount).zip (succC.take rr.succCount) |>.map (fun (a, c) => (⟨c, a⟩ : IdI))
    .ok (⟨⟨rr.idCtr, rr.idActor⟩, obj, key, rr.insert, rr.action, val, succ, rr.expand, rr.markName⟩,
         succA.drop rr.succCount, succC.drop rr.succCount, raw.drop vlen)

/-! ## reading: the non-validating streaming decoders (`hexane::decoder`, `DeltaDecoder`) -/

inductive LRun (α : Type) where
  | idle
  | rep (v : α)
  | lit
  | null
  deriving Repr

structure LSt (α : Type) where
  data : Bytes
  remaining : Nat
  run : LRun α
  deriving Repr

/-- `RleDecoder::advance_run`: a failed count read ends the iteration silently; the value and the
    null count are `unwrap`ped; `(-n) as usize` of `i64::MIN` overflows -/
def lAdvance {α : Type} (c : ValCodec α) (s : LSt α) : Hexane.Res (LSt α) :=
  if s.data.isEmpty then .ok { s with remaining := 0, run := .idle } else
  match readS s.data with
  | .error _ => .ok { s with remaining := 0, run := .idle }
  | .ok (n, rest) =>
    if n > 0 then
      match c.unpack rest with
      | .error _ => .panic .unwrapNone
      | .ok (v, rest) => .ok ⟨rest, n.toNat, .rep v⟩
    else if n < 0 then
      if n = -(two63 : Int) then .panic .narrowing else .ok ⟨rest, (-n).toNat, .lit⟩
    else
      match readU rest with
      | .error _ => .panic .unwrapNone
      | .ok (k, rest) => .ok ⟨rest, k, .null⟩

/-- `RleDecoder::next`: `none` = end of the iteration.  `nullOk`: the column type is `Option<T>`
    (otherwise `T::get_null()` panics). -/
def lNext {α : Type} (c : ValCodec α) (nullOk : Bool) (s : LSt α) : Hexane.Res (Option (Option α) × LSt α) :=
  let step (s : LSt α) : Hexane.Res (Option (Option α) × LSt α) :=
    match s.run with
    | .rep v => .ok (some (some v), { s with remaining := s.remaining - 1 })
    | .lit =>
      match c.unpack s.data with
      | .error _ => .panic .unwrapNone
      | .ok (v, rest) => .ok (some (some v), { s with data := rest, remaining := s.remaining - 1 })
    | .null => if nullOk then .ok (some none, { s with remaining := s.remaining - 1 }) else .panic .unwrapNone
    | .idle => .ok (none, s)
  if s.remaining > 0 then step s
  else
    match lAdvance c s with
    | .err e => .err e
    | .panic p => .panic p
    | .ok s => if s.remaining = 0 then .ok (none, s) else step s

/-- `.collect()` of such a decoder; `budget` bounds the number of items the model materialises -/
def lCollect {α : Type} (c : ValCodec α) (nullOk : Bool) : Nat → LSt α → Hexane.Res (Option (List (Option α)))
  | 0, _ => .ok none
  | budget + 1, s =>
    match lNext c nullOk s with
    | .err e => .err e
    | .panic p => .panic p
    | .ok (none, _) => .ok (some [])
    | .ok (some v, s) =>
      match lCollect c nullOk budget s with
      | .ok (some r) => .ok (some (v :: r))
      | o => o

def lInit {α : Type} (bs : Bytes) : LSt α := ⟨bs, 0, .idle⟩

/-- `u32` as `DeltaValue::from_i64`: `v as u32` -/
def asU32 (z : Int) : Nat := (z % (2 ^ 32 : Int)).toNat

/-- `DeltaDecoder<u32>`: running `i64` sum (`+=` overflows in checking builds), truncated to `u32` -/
def deltaRun : List (Option Int) → Int → Hexane.Res (List Nat)
  | [], _ => .ok []
  | none :: _, _ => .panic .unwrapNone          -- unreachable: the inner `i64` decoder panics on nulls
  | some d :: r, running =>
    let s := running + d
    if ¬ Hexane.inI64 s then .panic .narrowing else
    match deltaRun r s with
    | .ok vs => .ok (asU32 s :: vs)
    | o => o

/-- `hexane::decoder::<T>(bytes).collect()` for a non-nullable `T`; `none` = over the model's budget -/
def lenientCol (c : ValCodec Nat) (budget : Nat) (bs : Bytes) : Hexane.Res (Option (List Nat)) :=
  match lCollect c false (budget + 1) (lInit bs) with
  | .ok (some xs) => .ok (some (somes xs))
  | .ok none => .ok none
  | .err e => .err e
  | .panic p => .panic p

/-- `DeltaDecoder::<u32>::new(bytes).collect()` -/
def lenientDelta (budget : Nat) (bs : Bytes) : Hexane.Res (Option (List Nat)) :=
  match lCollect cI64 false (budget + 1) (lInit bs) with
  | .ok (some xs) => (match deltaRun xs 0 with | .ok vs => .ok (some vs) | .err e => .err e | .panic p => .panic p)
  | .ok none => .ok none
  | .err e => .err e
  | .panic p => .panic p

/-! ## reading: `ChangeGraphCols::load` and `ChangeIter` -/

/-- `DeltaDecoder<u32>::next`: one value of the stream, `none` at its end -/
def ldNext (s : LSt Int × Int) : Hexane.Res (Option Nat × (LSt Int × Int)) :=
  match lNext cI64 false s.1 with
  | .err e => .err e
  | .panic p => .panic p
  | .ok (none, st) => .ok (none, (st, s.2))
  | .ok (some none, _) => .panic .unwrapNone
  | .ok (some (some d), st) =>
    let r := s.2 + d
    if ¬ Hexane.inI64 r then .panic .narrowing else .ok (some (asU32 r), (st, r))

/-- the `for e in 0..d` loop: the dependency values are pulled from the stream one by one, each is
    used at once as an index into `max_ops` -/
def readDeps (maxOps : List Nat) : Nat → (LSt Int × Int) → DRes (List Nat × (LSt Int × Int))
  | 0, s => .ok ([], s)
  | d + 1, s =>
    match ldNext s with
    | .err e => .err (.pack e)
    | .panic p => .panic p
    | .ok (none, _) => .err .colLen
    | .ok (some v, s) =>
      if maxOps.length ≤ v then .panic .sliceIndex else
      match readDeps maxOps d s with
      | .ok (vs, s) => .ok (v :: vs, s)
      | o => o

/-- the dependency loop of `ChangeGraphCols::load`: `max_ops[i]`, `max_ops[dep]` index the vector
    (out of range panics), a missing dependency value is `InvalidColumnLength`, a dependency with a
    greater `max_op` is `InvalidMaxOp`.  Result: per change its dependency list. -/
def depsLoop (maxOps : List Nat) : List Nat → (LSt Int × Int) → Nat → DRes (List (List Nat))
  | [], _, _ => .ok []
  | d :: ds, s, i =>
    match readDeps maxOps d s with
    | .err e => .err e
    | .panic p => .panic p
    | .ok (mine, s) =>
      match maxOps[i]? with
      | none => .panic .sliceIndex
      | some mi =>
        let lastMax := (mine.filterMap (fun v => maxOps[v]?)).foldl max 0
        if d ≠ 0 ∧ lastMax > mi then .err .maxOp else
        match depsLoop maxOps ds s (i + 1) with
        | .ok r => .ok (mine :: r)
        | o => o

/-- `RawColumns::bytes`: binary search, any match (the model takes the first; duplicate
    specifications are not generated) -/
def colFirst (cols : List (Nat × Rng)) (data : Bytes) (spec : Nat) : Bytes :=
  match cols.find? (fun c => c.1 = spec) with
  | some c => slice data c.2
  | none => []

/-- the change columns as `ChangeGraphCols::load` + `ChangeIter` deliver them -/
def loadChangeCols (limit : Nat) (numActors : Nat) (cols : List (Nat × Rng)) (data : Bytes) : DRes (List ChangeMeta) :=
  let B := colFirst cols data
  match lenientCol cActor limit (B C_ACTOR) with
  | .err e => .err (.pack e) | .panic p => .panic p | .ok none => .err .tooBig
  | .ok (some actors) =>
  match lenientDelta limit (B C_MAX_OP) with
  | .err e => .err (.pack e) | .panic p => .panic p | .ok none => .err .tooBig
  | .ok (some maxOps) =>
  match lenientDelta limit (B C_SEQ) with
  | .err e => .err (.pack e) | .panic p => .panic p | .ok none => .err .tooBig
  | .ok (some seqs) =>
  if actors.any (fun a => decide (numActors ≤ a)) then .err .actorId else
  let len := actors.length
  do
    let times ← liftH (loadDelta false (-(two63 : Int)) ((two63 : Int) - 1) len (some (some 0)) (B C_TIME))
    let msgs ← liftH (loadRle cStr true .len (fun _ => 0) len (some none) (B C_MESSAGE))
    let extraMeta ← liftH (loadRle cU64 false (.prefixU two64) (fun m => ((m / 16 : Nat) : Int)) len none (B C_EXTRA_META))
    if maxOps.length ≠ len then Outcome.err DErr.colLen else
    if seqs.length ≠ len then Outcome.err DErr.colLen else
    match lenientCol cU32 limit (B C_DEPS_COUNT) with
    | .err e => .err (.pack e) | .panic p => .panic p | .ok none => .err .tooBig
    | .ok (some depCounts) =>
    let deps ← depsLoop maxOps depCounts (lInit (B C_DEPS_VAL), 0) 0
    if deps.length ≠ len then Outcome.err DErr.colLen else
    -- `ChangeIter`: `&extra_bytes_raw[prefix .. total]`
    let raw := B C_EXTRA_RAW
    let metas := somes extraMeta
    let rec extras : List Nat → Nat → DRes (List Bytes)
      | [], _ => .ok []
      | m :: ms, off =>
        if raw.length < off + m / 16 then .panic .sliceIndex else
        match extras ms (off + m / 16) with
        | .ok r => .ok (((raw.drop off).take (m / 16)) :: r)
        | o => o
    let ex ← extras metas 0
    pure ((actors.zip (seqs.zip (maxOps.zip ((somes times).zip (msgs.zip (deps.zip ex)))))).map
      (fun (a, s, m, t, msg, d, e) => ⟨a, s, m, t, msg, d, e⟩))

/-! ## `decodeDoc` -/

/-- the rows read before the first failure, and that failure -/
def readRows : List RawRow → List Nat → List Nat → Bytes → List OpRow × Option (DErr ⊕ PanicSite)
  | [], _, _, _ => ([], none)
  | rr :: rest, sa, sc, raw =>
    match readRow rr sa sc raw with
    | .err e => ([], some (.inl e))
    | .panic p => ([], some (.inr p))
    | .ok (row, sa, sc, raw) =>
      let (rows, f) := readRows rest sa sc raw
      (row :: rows, f)

/-- everything `load` reads out of the chunk body before the changes are rebuilt: the op rows read
    before the first unreadable one (with that failure), and the change rows -/
structure Decoded where
  actors : List Bytes
  heads : List Bytes
  changes : List ChangeMeta
  ops : List OpRow
  opsFail : Option (DErr ⊕ PanicSite)
  headIdx : List Nat
  deriving Repr

def decodeParts (limit : Nat) (body : Bytes) : DRes Decoded :=
  match parseBody body with
  | .err e => .err e
  | .panic p => .panic p
  | .ok p =>
    match loadOpCols limit p.opCols p.opData with
    | .err e => .err e
    | .panic q => .panic q
    | .ok v =>
      match loadChangeCols limit p.actors.length p.changeCols p.changeData with
      | .err e => .err e
      | .panic q => .panic q
      | .ok changes =>
        let (rows, f) := readRows (zipRows v) v.succActor v.succCtr v.valRaw
        .ok ⟨p.actors, p.heads, changes, rows, f, p.headIdx⟩

/-- **the parser of the document chunk body**: what the chunk carries, or the error / panic of the
    Rust.  (`Document::parse`, `OpSet::load`, `ChangeGraphCols::load`, every row of `OpIter`.) -/
def decodeDoc (limit : Nat) (body : Bytes) : DRes DocImage :=
  match decodeParts limit body with
  | .err e => .err e
  | .panic p => .panic p
  | .ok d =>
    match d.opsFail with
    | some (.inl e) => .err e
    | some (.inr p) => .panic p
    | none => .ok ⟨d.actors, d.heads, d.changes, d.ops, d.headIdx⟩


/-! ## rebuilding the changes (`ChangeCollector`, storage/load/reconstruct) -/

/-- `OpBuilder`: a row with the predecessors the collector derived for it -/
structure RecOp where
  id : IdI
  obj : Option IdI
  key : DKey
  insert : Bool
  action : Nat
  val : Scalar
  pred : List IdI
  expand : Bool
  markName : Option Bytes
  deriving DecidableEq, Repr, Inhabited

/-- `OpEncoderStrategy`: a vector of slots, or the progressive encoder with its queue -/
inductive BState where
  | vec (slots : List (Option RecOp))
  | prog (len : Nat) (out : List RecOp) (queue : List (Nat × RecOp))
  deriving Repr

/-- `ChangeBuilder` -/
structure Builder where
  change : Nat
  actor : Nat
  seq : Nat
  start : Nat
  maxOp : Nat
  st : BState
  deriving Repr

/-- `OpEncoderStrategy::new`: `num_ops * size_of::<Option<OpBuilder>>() > size_of::<ProgressiveEncoder>()`.
    Measured on the build the harness runs (a duplicated op id panics the vector strategy up to 18
    ops and is swallowed by the progressive one from 19 on). -/
def PROG_THRESHOLD : Nat := 18

/-- `ChangeGraphCols::load`'s estimate of a change's first op: one more than the greatest `max_op`
    of its dependencies (`1` without dependencies) -/
def estStart (changes : List ChangeMeta) (c : ChangeMeta) : Nat :=
  (c.deps.filterMap (fun d => changes[d]?.map (·.maxOp))).foldl max 0 + 1

def insertBuilder (b : Builder) : List Builder → List Builder
  | [] => [b]
  | x :: xs => if b.actor < x.actor ∨ (b.actor = x.actor ∧ b.seq < x.seq) then b :: x :: xs else x :: insertBuilder b xs

/-- `ChangeCollector::try_from_change_meta`: one builder per change, sorted by (actor, seq) -/
def mkBuilders (changes : List ChangeMeta) : List Builder :=
  ((List.range changes.length).zip changes).foldr (fun (i, c) acc =>
    let start := estStart changes c
    let numOps := c.maxOp + 1 - start
    insertBuilder ⟨i, c.actor, c.seq, start, c.maxOp,
      if numOps > PROG_THRESHOLD then .prog 0 [] [] else .vec (List.replicate numOps none)⟩ acc) []

/-- the comparator of `builders_index`: 0 = Less, 1 = Equal, 2 = Greater -/
def builderCmp (b : Builder) (id : IdI) : Nat :=
  if b.actor < id.actor then 0 else if b.actor > id.actor then 2
  else if id.ctr < b.start then 2 else if id.ctr > b.maxOp then 0 else 1

/-- the loop of `slice::binary_search_by` (core 1.82+: no early exit, `base` moves to `mid` unless the
    probe compares Greater) — spelled out because overlapping counter ranges (a malformed dependency
    column) make the builders unsorted for the comparator, and the answer then depends on the probes -/
def bsearchLoop (bs : List Builder) (id : IdI) : Nat → Nat → Nat → Nat
  | 0, base, _ => base
  | fuel + 1, base, size =>
    if size > 1 then
      let half := size / 2
      let mid := base + half
      let base' := match bs[mid]? with
        | some b => if builderCmp b id = 2 then base else mid
        | none => base
      bsearchLoop bs id fuel base' (size - half)
    else base

/-- `builders_index`: the builder of that actor whose counter range holds the id -/
def builderIdx (bs : List Builder) (id : IdI) : Option Nat :=
  if bs.isEmpty then none else
  let base := bsearchLoop bs id (bs.length + 1) 0 bs.length
  match bs[base]? with
  | some b => if builderCmp b id = 1 then some base else none
  | none => none

def insertQueue (i : Nat) (op : RecOp) : List (Nat × RecOp) → List (Nat × RecOp)
  | [] => [(i, op)]
  | x :: xs => if i < x.1 then (i, op) :: x :: xs else if i = x.1 then (i, op) :: xs else x :: insertQueue i op xs

/-- the queued ops that continue the appended prefix -/
def drainQueue : Nat → Nat → List RecOp → List (Nat × RecOp) → Nat × List RecOp × List (Nat × RecOp)
  | 0, len, out, q => (len, out, q)
  | fuel + 1, len, out, q =>
    match q.find? (fun x => x.1 = len) with
    | some x => drainQueue fuel (len + 1) (out ++ [x.2]) (q.filter (fun y => y.1 ≠ len))
    | none => (len, out, q)

/-- `ChangeBuilder::add`: `VecEncoder::add` asserts the slot is free -/
def Builder.add (b : Builder) (op : RecOp) : Outcome DErr Builder :=
  let index := op.id.ctr - b.start
  match b.st with
  | .vec slots =>
    match slots[index]? with
    | some none => .ok { b with st := .vec (slots.set index (some op)) }
    | some (some _) => .panic .assertFailed
    | none => .panic .sliceIndex
  | .prog len out queue =>
    if index = len then
      let (len, out, queue) := drainQueue (queue.length + 1) (len + 1) (out ++ [op]) queue
      .ok { b with st := .prog len out queue }
    else .ok { b with st := .prog len out (insertQueue index op queue) }

/-- the collector's state apart from the builders: the register run being read (`last`) and, per
    successor id not met as a row yet, the rows that named it (`preds`) -/
structure EState where
  last : Option (Option IdI × DKey)
  preds : List (IdI × List IdI)
  deriving Repr, DecidableEq

/-- `flush_deletes`: every successor id still waiting for its row becomes a delete op of the run -/
def flushOps (s : EState) : List RecOp :=
  match s.last with
  | none => []
  | some (obj, key) => s.preds.map (fun p => ⟨p.1, obj, key, false, 3, .null, p.2, false, none⟩)

def pushPred (succ id : IdI) : List (IdI × List IdI) → List (IdI × List IdI)
  | [] => [(succ, [id])]
  | x :: xs => if x.1 = succ then (x.1, x.2 ++ [id]) :: xs else x :: pushPred succ id xs

/-- `Op::elemid_or_key` -/
def OpRow.regKey (r : OpRow) : DKey := if r.insert then .elem r.id else r.key

/-- `process_op` followed by `process_succ` for every successor: the ops handed to the builders for
    this row (the deletes of the run that just ended, then the row's op with the predecessors derived
    for it), and the new state -/
def emitRow (s : EState) (r : OpRow) : List RecOp × EState :=
  let next := (r.obj, r.regKey)
  let flush := s.last ≠ some next
  let dels := if flush then flushOps s else []
  -- `self.last.take()`: the successor ids are forgotten only when a run ends
  let preds0 := if flush ∧ s.last.isSome then [] else s.preds
  let pred := match preds0.find? (fun x => x.1 = r.id) with | some x => x.2 | none => []
  let preds := preds0.filter (fun x => x.1 ≠ r.id)
  (dels ++ [⟨r.id, r.obj, r.key, r.insert, r.action, r.val, pred, r.expand, r.markName⟩],
   ⟨if flush then some next else s.last, r.succ.foldl (fun acc sid => pushPred sid r.id acc) preds⟩)

def emitRows : List OpRow → EState → List RecOp × EState
  | [], s => ([], s)
  | r :: rest, s =>
    let (ops, s1) := emitRow s r
    let (ops', s2) := emitRows rest s1
    (ops ++ ops', s2)

/-- `ChangeCollector::add`: the op goes to the builder whose range holds its id; an op whose id
    lies in no change of the document is counted (`unplaced`, since 77e2efb7e) -/
def placeOp (st : List Builder × Nat) (op : RecOp) : Outcome DErr (List Builder × Nat) :=
  match builderIdx st.1 op.id with
  | none => .ok (st.1, st.2 + 1)
  | some i =>
    match st.1[i]? with
    | none => .ok (st.1, st.2 + 1)
    | some b =>
      match b.add op with
      | .ok b' => .ok (st.1.set i b', st.2)
      | .err e => .err e
      | .panic p => .panic p

def placeAll : List RecOp → List Builder × Nat → Outcome DErr (List Builder × Nat)
  | [], st => .ok st
  | op :: rest, st =>
    match placeOp st op with
    | .ok st => placeAll rest st
    | o => o

/-- the ops a builder hands to the change encoder, or `MissingOps` -/
def Builder.ops (b : Builder) : Outcome DErr (List RecOp) :=
  match b.st with
  | .vec slots =>
    -- `position(|op| op.is_some()).unwrap_or(0)`: with no op at all every slot counts as missing
    let tail := if slots.all (fun o => o.isNone) then slots else slots.dropWhile (fun o => o.isNone)
    if tail.any (fun o => o.isNone) then .err .changes else .ok (tail.filterMap id)
  | .prog _ out queue => .ok (out ++ queue.map (·.2))

def recActors (o : RecOp) : List Nat :=
  (match o.obj with | some i => [i.actor] | none => []) ++
  (match o.key with | .elem e => [e.actor] | _ => []) ++ o.pred.map (·.actor)

def insertNat (n : Nat) : List Nat → List Nat
  | [] => [n]
  | x :: xs => if n < x then n :: x :: xs else if n = x then x :: xs else x :: insertNat n xs

/-- `ActorMapper::remap_actors` / `build_mapping`: the other actors of a change, ascending by index -/
def otherIdx (author : Nat) (ops : List RecOp) : List Nat :=
  ((ops.flatMap recActors).filter (fun a => a ≠ author)).foldr insertNat []

def remapIdx (table : List Nat) (i : IdI) : IdI := ⟨i.ctr, table.findIdx (fun x => x = i.actor)⟩

/-- `AsChangeOp for OpBuilder` through the actor mapping -/
def RecOp.toChangeRow (table : List Nat) (o : RecOp) : ChangeCodec.Row :=
  { obj := match o.obj with | none => ⟨0, 0⟩ | some i => remapIdx table i
    key := match o.key with | .prop s => .prop s | .head => .elem ⟨0, 0⟩ | .elem e => .elem (remapIdx table e)
    insert := o.insert, action := o.action, val := o.val
    pred := o.pred.map (remapIdx table)
    expand := o.expand, markName := o.markName }

/-- `start_op` of a rebuilt change: the counter of its first op (`max_op + 1` for a change without ops) -/
def firstCtr (ops : List RecOp) (dflt : Nat) : Nat :=
  match ops.head? with | some o => o.id.ctr | none => dflt

/-- one rebuilt change, as `Change::decode` shows it, with its metadata -/
def rebuildChange (actors : List Bytes) (built : List DChange) (c : ChangeMeta) (ops : List RecOp) : Outcome DErr DChange :=
  match actors[c.actor]? with
  | none => .err .changes                                        -- MissingActor
  | some author =>
    -- `seen_actors[actor] = true` / `self.actors[*i]`: an actor index outside the table panics
    if (ops.flatMap recActors).any (fun a => decide (actors.length ≤ a)) then .panic .sliceIndex else
    -- `graph.get_hash(i).unwrap()`: a dependency that is not rebuilt yet
    if c.deps.any (fun d => decide (built.length ≤ d)) then .panic .unwrapNone else
    let others := otherIdx c.actor ops
    let table := c.actor :: others
    let otherBytes := others.filterMap (fun i => actors[i]?)
    let deps := c.deps.filterMap (fun d => built[d]?.map (·.c.hash))
    let startOp := firstCtr ops (c.maxOp + 1)
    let rows := ops.map (RecOp.toChangeRow table)
    let body := ChangeCodec.encodeBody deps author otherBytes c.seq startOp c.time c.message rows c.extra
    let hash := Chunk.chunkHash Consts.CHUNK_TYPE_CHANGE body
    match ChangeCodec.expandRows (author :: otherBytes) author startOp rows with
    | .ok xops => .ok ⟨⟨hash, author, c.seq, startOp, deps, xops⟩, c.time, c.message, c.extra⟩
    | .err _ => .err .changes
    | .panic p => .panic p

def setNth (l : List Nat) (i v : Nat) : List Nat := l.set i v

/-- `ChangeCollector::collect`: the per-actor sequence and `max_op` checks, then every builder finished -/
def finishChanges (actors : List Bytes) (bs : List Builder) :
    List (Nat × ChangeMeta) → List Nat → List Nat → List DChange → Outcome DErr (List DChange)
  | [], _, _, built => .ok built
  | (i, c) :: rest, seqs, maxOps, built =>
    match seqs[c.actor]?, maxOps[c.actor]? with
    | some sq, some mo =>
      if sq + 1 ≠ c.seq then .err .changes                       -- ChangesOutOfOrder
      else if c.maxOp < mo then .err .changes                     -- IncorrectMaxOp
      else
        match bs.find? (fun b => b.change = i) with
        | none => .err .changes
        | some b =>
          match b.ops with
          | .err e => .err e
          | .panic p => .panic p
          | .ok ops =>
            match rebuildChange actors built c ops with
            | .err e => .err e
            | .panic p => .panic p
            | .ok d => finishChanges actors bs rest (setNth seqs c.actor c.seq) (setNth maxOps c.actor c.maxOp) (built ++ [d])
    | _, _ => .err .changes                                        -- MissingActor

/-- `MarkOrderValidator`: a mark end comes after its begin, in the same object -/
def markOrderOk : List OpRow → List (IdI × Option IdI) → Bool
  | [], _ => true
  | r :: rest, begins =>
    if r.action = 7 then
      match r.markName with
      | some _ => markOrderOk rest ((r.id, r.obj) :: begins)
      | none =>
        match begins.find? (fun b => b.1 = (⟨r.id.ctr - 1, r.id.actor⟩ : IdI)) with
        | some b => if b.2 = r.obj then markOrderOk rest begins else false
        | none => false
    else markOrderOk rest begins

/-- **`Document::reconstruct` after the columns are read**: the changes of an image, rebuilt,
    hashed and checked against the heads.  `opsFail`: the failure that ended the row iteration. -/
def rebuild (actors heads : List Bytes) (changes : List ChangeMeta) (rows : List OpRow)
    (opsFail : Option (DErr ⊕ PanicSite)) : Outcome DErr (List DChange) :=
  let em := emitRows rows ⟨none, []⟩
  match placeAll em.1 (mkBuilders changes, 0) with
  | .err e => .err e
  | .panic p => .panic p
  | .ok st =>
    match opsFail with
    | some (.inl e) => .err e
    | some (.inr p) => .panic p
    | none =>
    -- `collect`: the last run's deletes, then (since 77e2efb7e) `OpsOutsideChanges`
    match placeAll (flushOps em.2) st with
    | .err e => .err e
    | .panic p => .panic p
    | .ok st =>
      if st.2 > 0 then .err .changes else
      match finishChanges actors st.1 ((List.range changes.length).zip changes)
          (List.replicate actors.length 0) (List.replicate actors.length 0) [] with
      | .err e => .err e
      | .panic p => .panic p
      | .ok built =>
        if sortHashes (headsOf (built.map (·.c))) ≠ heads then .err .heads
        else if !markOrderOk rows [] then .err .markOrder
        else .ok built

/-- **the reconstruction of storage/load**: the applied changes an image stands for -/
def changesOf (img : DocImage) : Outcome DErr (List DChange) :=
  rebuild img.actors img.heads img.changes img.ops none

/-- `load` of one document chunk body: what was read, and the rebuilt changes -/
def loadDocBody (limit : Nat) (body : Bytes) : Outcome DErr (Decoded × List DChange) :=
  match decodeParts limit body with
  | .err e => .err e
  | .panic p => .panic p
  | .ok d =>
    match rebuild d.actors d.heads d.changes d.ops d.opsFail with
    | .ok cs => .ok (d, cs)
    | .err e => .err e
    | .panic p => .panic p

end AmVerif.DocCodec
