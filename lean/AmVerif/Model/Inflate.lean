import AmVerif.Model.Basic
/-
  Raw DEFLATE decoder (RFC 1951), structured after zlib's reference `contrib/puff/puff.c`:
  LSB-first bit reader, canonical Huffman decoding one bit at a time from a `count`/`symbol`
  table, stored / fixed / dynamic blocks.  Core Lean only.

  Totality: every loop is structural.  The two unbounded loops (symbols within a block, blocks
  within a stream) recurse on a fuel argument initialised to `8 * input.length + 1`; each of
  their iterations consumes at least one input bit or fails, so the fuel is never the reason
  for a `none` on an input that puff would accept.

  Strictness (as puff / zlib): `none` on block type 3, stored `LEN ≠ ~NLEN`, truncated input,
  a bit pattern that is no code, length symbols 286/287, distance symbols 30/31, distance
  beyond the output so far, `HLIT > 286`, `HDIST > 30`, repeat-previous with no previous length,
  repeat running past `HLIT + HDIST`, missing end-of-block code, over-subscribed code lengths,
  incomplete code-length code, and incomplete literal/length or distance codes other than the
  single-code-of-length-1 case.
-/
namespace AmVerif.Inflate
open AmVerif

/-- Reader monad over a fixed input: the state is the *bit* position. -/
abbrev R := StateT Nat Option

/-- Next input bit. -/
def bit (d : ByteArray) : R Nat := fun pos =>
  if h : pos / 8 < d.size then some (((d[pos / 8] >>> (pos % 8).toUInt8) &&& 1).toNat, pos + 1)
  else none

/-- `n` bits, first bit read is the least significant. -/
def bits (d : ByteArray) : Nat → R Nat
  | 0 => pure 0
  | n + 1 => do
    let b ← bit d
    let r ← bits d n
    pure (b + 2 * r)

/-- Canonical Huffman table: `count[l]` = number of symbols of length `l` (`l ≤ 15`),
    `symbol` = symbols ordered by (length, value). -/
structure Huffman where
  count  : Array Nat
  symbol : Array Nat

/-- puff's `construct`.  `none` if the lengths are over-subscribed; otherwise the table and the
    number of unused codes of length 15 (`0` = complete code). -/
def construct (lengths : Array Nat) : Option (Huffman × Nat) := do
  let count := lengths.foldl (fun c l => c.modify l (· + 1)) (Array.replicate 16 0)
  let symbol := Nat.fold 15 (fun l _ acc =>
    Nat.fold lengths.size (fun s _ acc => if lengths[s]! == l + 1 then acc.push s else acc) acc)
    (Array.mkEmpty lengths.size)
  let h : Huffman := ⟨count, symbol⟩
  if count[0]! == lengths.size then return (h, 0)      -- no codes at all: complete, never decodes
  let left ← Nat.fold 15 (fun l _ (left : Option Nat) => do
    let avail := 2 * (← left)
    if avail < count[l + 1]! then none else some (avail - count[l + 1]!)) (some 1)
  return (h, left)

/-- puff's `decode`: read one symbol.  `k` counts the remaining code lengths to try. -/
def decodeGo (d : ByteArray) (h : Huffman) : (k len code first index : Nat) → R Nat
  | 0, _, _, _, _ => failure
  | k + 1, len, code, first, index => do
    let code := code + (← bit d)
    let count := h.count[len]!
    if code < first + count then
      match h.symbol[index + (code - first)]? with
      | some s => pure s
      | none => failure
    else decodeGo d h k (len + 1) (2 * code) (2 * (first + count)) (index + count)

def decode (d : ByteArray) (h : Huffman) : R Nat := decodeGo d h 15 1 0 0 0

def lenBase : Array Nat := #[3, 4, 5, 6, 7, 8, 9, 10, 11, 13, 15, 17, 19, 23, 27, 31, 35, 43, 51,
  59, 67, 83, 99, 115, 131, 163, 195, 227, 258]
def lenExtra : Array Nat := #[0, 0, 0, 0, 0, 0, 0, 0, 1, 1, 1, 1, 2, 2, 2, 2, 3, 3, 3, 3, 4, 4, 4,
  4, 5, 5, 5, 5, 0]
def distBase : Array Nat := #[1, 2, 3, 4, 5, 7, 9, 13, 17, 25, 33, 49, 65, 97, 129, 193, 257, 385,
  513, 769, 1025, 1537, 2049, 3073, 4097, 6145, 8193, 12289, 16385, 24577]
def distExtra : Array Nat := #[0, 0, 0, 0, 1, 1, 2, 2, 3, 3, 4, 4, 5, 5, 6, 6, 7, 7, 8, 8, 9, 9,
  10, 10, 11, 11, 12, 12, 13, 13]

/-- Append `len` bytes, each copied from `dist` bytes back (overlap allowed). -/
def copyBack (dist : Nat) : (len : Nat) → ByteArray → ByteArray
  | 0, out => out
  | len + 1, out => copyBack dist len (out.push (out.get! (out.size - dist)))

/-- puff's `codes`: decode literal/length/distance symbols until end-of-block. -/
def codes (d : ByteArray) (lc dc : Huffman) : (fuel : Nat) → ByteArray → R ByteArray
  | 0, _ => failure
  | fuel + 1, out => do
    let sym ← decode d lc
    if sym < 256 then codes d lc dc fuel (out.push sym.toUInt8)
    else if sym == 256 then pure out
    else
      let i := sym - 257
      if i ≥ 29 then failure
      let len := lenBase[i]! + (← bits d lenExtra[i]!)
      let ds ← decode d dc
      if ds ≥ 30 then failure
      let dist := distBase[ds]! + (← bits d distExtra[ds]!)
      if dist > out.size then failure
      codes d lc dc fuel (copyBack dist len out)

/-- Fixed literal/length code lengths (RFC 1951 §3.2.6). -/
def fixedLitLengths : Array Nat :=
  Array.replicate 144 8 ++ Array.replicate 112 9 ++ Array.replicate 24 7 ++ Array.replicate 8 8

def tableOf (lengths : Array Nat) : Huffman :=
  match construct lengths with
  | some (h, _) => h
  | none => ⟨Array.replicate 16 0, #[]⟩

def fixedLit : Huffman := tableOf fixedLitLengths
def fixedDist : Huffman := tableOf (Array.replicate 30 5)

/-- Stored block: skip to a byte boundary, `LEN`, `NLEN`, then `LEN` raw bytes. -/
def stored (d : ByteArray) (out : ByteArray) : R ByteArray := do
  modify fun pos => (pos + 7) / 8 * 8
  let len ← bits d 16
  let nlen ← bits d 16
  if len + nlen != 0xFFFF then failure
  let start := (← get) / 8
  if start + len > d.size then failure
  set (8 * (start + len))
  pure (out ++ d.extract start (start + len))

/-- Order in which code-length-code lengths are transmitted. -/
def clOrder : Array Nat := #[16, 17, 18, 0, 8, 7, 9, 6, 10, 5, 11, 4, 12, 3, 13, 2, 14, 1, 15]

/-- Read the `total = HLIT + HDIST` literal/length and distance code lengths.  Each iteration
    appends at least one length, so `total` itself is enough fuel. -/
def readLengths (d : ByteArray) (cl : Huffman) (total : Nat) : (fuel : Nat) → Array Nat → R (Array Nat)
  | 0, ls => if ls.size == total then pure ls else failure
  | fuel + 1, ls => do
    if ls.size ≥ total then return ls
    let sym ← decode d cl
    if sym < 16 then readLengths d cl total fuel (ls.push sym)
    else
      let (v, rep) ← (do
        if sym == 16 then
          if ls.size == 0 then failure
          pure (ls[ls.size - 1]!, 3 + (← bits d 2))
        else if sym == 17 then pure (0, 3 + (← bits d 3))
        else pure (0, 11 + (← bits d 7)) : R (Nat × Nat))
      if ls.size + rep > total then failure
      readLengths d cl total fuel (ls ++ Array.replicate rep v)

/-- An incomplete code is accepted only when it consists of a single code of length 1. -/
def acceptable (lengths : Array Nat) : Option Huffman := do
  let (h, left) ← construct lengths
  if left != 0 && lengths.size != h.count[0]! + h.count[1]! then none
  pure h

/-- Dynamic block: read the code tables, then the symbols. -/
def dynamic (d : ByteArray) (fuel : Nat) (out : ByteArray) : R ByteArray := do
  let nlen := (← bits d 5) + 257
  let ndist := (← bits d 5) + 1
  let ncode := (← bits d 4) + 4
  if nlen > 286 || ndist > 30 then failure
  let clLengths ← Nat.fold ncode (fun i _ (acc : R (Array Nat)) => do
    let a ← acc
    pure (a.set! clOrder[i]! (← bits d 3))) (pure (Array.replicate 19 0))
  let some (cl, 0) := construct clLengths | failure
  let lengths ← readLengths d cl (nlen + ndist) (nlen + ndist) (Array.mkEmpty 320)
  if lengths[256]! == 0 then failure
  let some lc := acceptable (lengths.extract 0 nlen) | failure
  let some dc := acceptable (lengths.extract nlen (nlen + ndist)) | failure
  codes d lc dc fuel out

/-- The sequence of blocks up to and including the one with `BFINAL = 1`. -/
def blocks (d : ByteArray) (fuel : Nat) : (blockFuel : Nat) → ByteArray → R ByteArray
  | 0, _ => failure
  | blockFuel + 1, out => do
    let last ← bit d
    let out ← match (← bits d 2) with
      | 0 => stored d out
      | 1 => codes d fixedLit fixedDist fuel out
      | 2 => dynamic d fuel out
      | _ => failure
    if last == 1 then pure out else blocks d fuel blockFuel out

/-- Decode a raw DEFLATE stream; also return the number of input bytes consumed (up to and
    including the byte holding the last bit of the final block). -/
def inflateWithRest (bs : List UInt8) : Option (List UInt8 × Nat) :=
  let d := bs.toByteArray
  let fuel := 8 * d.size + 1
  match blocks d fuel fuel ByteArray.empty 0 with
  | some (out, pos) => some (out.data.toList, (pos + 7) / 8)
  | none => none

/-- Decode a raw DEFLATE stream, ignoring any bytes after the final block. -/
def inflate (bs : List UInt8) : Option (List UInt8) := (inflateWithRest bs).map (·.1)

/-- Decode a raw DEFLATE stream that must fill the input exactly: `None` if bytes remain after the
    byte holding the last bit of the final block (a compressed change chunk is the stream and nothing
    else: `decoder.total_in() == compressed.len()` in `Chunk::parse`). -/
def inflateExact (bs : List UInt8) : Option (List UInt8) :=
  match inflateWithRest bs with
  | some (out, used) => if used == bs.length then some out else none
  | none => none

end AmVerif.Inflate
