import AmVerif.Model.Spec
/-
  M4: the concrete op store (mirror of `rust/automerge/src/op_set2`): every stored operation is one
  row of ONE sorted sequence (`OpSet`, `Columns`), each row carrying the list of its successors with
  the increment amount (`succ_count / succ_actor / succ_ctr` + the `inc` index column) and the three
  index columns `visible`, `top`, `text` (width).

  * Order of the rows (`Op::step`, `BatchApply::order_ops_for_doc`, `MapWalker`, `Untangler`): by object
    (root first, then by object id); inside a map object by key bytes, then op id; inside a sequence
    object in document order — each element's insert op followed by the ops that update that element in
    id order, the elements in RGA order.
  * Delete ops are never stored (`Columns::splice` filters them): they only leave a successor entry.
  * `insertRemote` is the sequential reading of `BatchApply::apply` for one incoming op: find the
    position, add the successor entries (`normalize_increment_successors`: an increment naming a
    non-counter is recorded as a plain successor), adjust the index columns (`Top` state machine →
    `OpSet::conflict / expose`, `OpSet::add_succ`, `Columns::splice`).

  Everything read from the store (`Row.isVisible`, `storeMapRegister`, …, `storeShowDoc`) uses the rows
  only; `Proofs/Store*.lean` prove these reads equal to the `Spec` reading of the op set.
-/
namespace AmVerif.Crdt
open AmVerif

/-- one row of the op store.  `vis`, `top`, `width` are the index columns `index.visible`, `index.top`,
    `index.text` as the code maintains them incrementally. -/
structure Row where
  op : Op
  /-- successors in ascending id order, with the amount for increment successors of a counter -/
  succ : List (OpId × Option Int)
  vis : Bool
  top : Bool
  width : Option Nat
  deriving DecidableEq, Repr, Inhabited

abbrev Store := List Row

/-- `ObjId` order: the root (`OpId(0,0)`) first, then by op id -/
def ObjId.lt : ObjId → ObjId → Bool
  | .root, .root => false
  | .root, .id _ => true
  | .id _, .root => false
  | .id a, .id b => a.lt b

/-- `Op::is_counter`: the op's VALUE is a counter (a `set`, or a mark carrying a counter value) -/
def Op.isCounterVal (o : Op) : Bool :=
  match o.action with
  | .put (.counter _) => true
  | .markBegin _ (.counter _) _ => true
  | _ => false

/-- `Op::elemid_or_key`: the register an op belongs to -/
def Op.regKey (o : Op) : Key := if o.insert then .elem o.id else o.key

def Key.isMap : Key → Bool
  | .map _ => true
  | _ => false

/-- what an op naming `target` as predecessor is recorded as in `target`'s successor list
    (`get_increment_value` + `normalize_increment_successors` / `Op::add_succ`) -/
def incFor (o target : Op) : Option Int :=
  match o.action with
  | .inc n => if target.isCounterVal then some n else none
  | _ => none

/-- `Op::visible()` of a stored op: not an increment; a counter is visible while all its successors
    are increments; anything else while it has no successor -/
def Row.isVisible (r : Row) : Bool :=
  if r.op.isInc then false
  else if r.op.isCounterVal then r.succ.all (fun p => p.2.isSome)
  else r.succ.isEmpty

/-! ### position of an incoming op -/

/-- `MapWalker::advance_doc_op`: the document op `x` stops the walk for the incoming op `o`
    (greater key, or equal key and greater id) -/
def mapStop (x o : Op) : Bool :=
  match x.key, o.key with
  | .map a, .map b => bytesLt b a || (a == b && o.id.lt x.id)
  | _, _ => false

/-- map object: behind every row with a smaller key, or the same key and a smaller id -/
def mapPlace (r : Row) : Store → Store
  | [] => [r]
  | x :: xs =>
    if x.op.obj != r.op.obj then r :: x :: xs
    else if mapStop x.op r.op then r :: x :: xs
    else x :: mapPlace r xs

/-- the RGA skip (`Untangler::untangle_inserts`: the incoming insert stays on the stack while the
    document's insert ops have greater ids): behind every following row up to the first insert op with
    a smaller id, or the end of the object -/
def skipGt (r : Row) : Store → Store
  | [] => [r]
  | x :: xs =>
    if x.op.obj != r.op.obj then r :: x :: xs
    else if x.op.insert && x.op.id.lt r.op.id then r :: x :: xs
    else x :: skipGt r xs

/-- sequence insert behind element `ref`: find the element's insert op, then skip -/
def seekIns (r : Row) (ref : OpId) : Store → Store
  | [] => [r]
  | x :: xs =>
    if x.op.obj != r.op.obj then r :: x :: xs
    else if x.op.insert && x.op.id == ref then x :: skipGt r xs
    else x :: seekIns r ref xs

/-- `Untangler::element_update`: an update of an element goes behind the element's updates with a
    smaller id, before the next insert op -/
def skipUpd (r : Row) : Store → Store
  | [] => [r]
  | x :: xs =>
    if x.op.obj != r.op.obj then r :: x :: xs
    else if x.op.insert || r.op.id.lt x.op.id then r :: x :: xs
    else x :: skipUpd r xs

def seekUpd (r : Row) (e : OpId) : Store → Store
  | [] => [r]
  | x :: xs =>
    if x.op.obj != r.op.obj then r :: x :: xs
    else if x.op.insert && x.op.id == e then x :: skipUpd r xs
    else x :: seekUpd r e xs

/-- end of the object (only reached by malformed ops: a non-insert op keyed on HEAD) -/
def endOfObj (r : Row) : Store → Store
  | [] => [r]
  | x :: xs => if x.op.obj != r.op.obj then r :: x :: xs else x :: endOfObj r xs

/-- placement inside the op's object, chosen by the kind of key -/
def placeInObj (r : Row) : Store → Store :=
  match r.op.key with
  | .map _ => mapPlace r
  | .head => if r.op.insert then skipGt r else endOfObj r
  | .elem e => if r.op.insert then seekIns r e else seekUpd r e

/-- `ObjWalker::seek_to_obj`: skip the rows of the objects sorting before the op's object -/
def placeRow (r : Row) : Store → Store
  | [] => [r]
  | x :: xs => if x.op.obj.lt r.op.obj then x :: placeRow r xs else placeInObj r (x :: xs)

/-! ### successor lists -/

/-- `Op::add_succ`: in front of the first successor with a greater id -/
def insertSucc (id : OpId) (inc : Option Int) : List (OpId × Option Int) → List (OpId × Option Int)
  | [] => [(id, inc)]
  | x :: xs => if id.lt x.1 then (id, inc) :: x :: xs else x :: insertSucc id inc xs

/-- `o` names `x` as predecessor and is recorded with `inc = None`: `x` stops being visible -/
def deletes (o : Op) (x : Row) : Bool := o.pred.contains x.op.id && (incFor o x.op).isNone

/-! ### the `Top` state machine of `batch.rs` (which op of a register is the winner) -/

inductive TopState where
  | nothing
  | change            -- `Top::ChangeIndex`: the incoming op
  | doc (i : OpId)    -- `Top::Doc`: a document op that stays visible
  | expose (i : OpId) -- `Top::Expose`: a document op that becomes the winner if nothing follows
  deriving DecidableEq, Repr, Inhabited

structure TopAcc where
  st : TopState := .nothing
  /-- `Adjust::Conflict` -/
  conflicts : List OpId := []
  /-- `ChangeOp::conflicted` of the incoming op -/
  conflicted : Bool := false
  deriving Repr, Inhabited

/-- `Top::process_change_op` for the incoming op's own row, `Top::process_doc_op` for the others;
    `x` is a row of the register BEFORE the successor update -/
def topStep (o : Op) (acc : TopAcc) (x : Row) : TopAcc :=
  if x.op.id == o.id then
    if Row.isVisible x then
      match acc.st with
      | .doc i => { acc with st := .change, conflicts := i :: acc.conflicts }
      | _ => { acc with st := .change }
    else acc
  else if Row.isVisible x then
    if deletes o x then
      match acc.st with
      | .doc i => { acc with st := .expose i }
      | _ => acc
    else { acc with st := .doc x.op.id, conflicted := acc.conflicted || decide (acc.st = .change) }
  else acc

/-- the rows of the register the op belongs to, in store order -/
def regRows (s : Store) (obj : ObjId) (k : Key) : Store :=
  s.filter (fun x => x.op.obj == obj && x.op.regKey == k)

def topRun (o : Op) (s : Store) : TopAcc := (regRows s o.obj o.regKey).foldl (topStep o) {}

/-- `Top::reset` at the end of the register -/
def TopAcc.exposed (a : TopAcc) : Option OpId := match a.st with | .expose i => some i | _ => none

/-- one row after the op: `OpSet::conflict`, `OpSet::expose`, then `OpSet::add_succ`, and for the
    new row the values `Columns::splice` writes.  `w` = `Op::width(SequenceType::Text, encoding)`. -/
def updateRow (w : Op → Nat) (o : Op) (acc : TopAcc) (x : Row) : Row :=
  if x.op.id == o.id then
    let v := Row.isVisible x
    let t := v && !acc.conflicted
    { x with vis := v, top := t, width := if t then some (w x.op) else none }
  else
    let x1 : Row := if acc.conflicts.contains x.op.id then { x with top := false, width := none } else x
    let x2 : Row := if acc.exposed == some x.op.id then { x1 with top := true, width := some (w x.op) } else x1
    if o.pred.contains x.op.id then
      let inc := incFor o x.op
      let x3 : Row := { x2 with succ := insertSucc o.id inc x2.succ }
      if inc.isNone then { x3 with vis := false, top := false, width := none } else x3
    else x2

/-- **`BatchApply::apply` for one incoming op.**  A delete is not stored. -/
def insertRemote (w : Op → Nat) (s : Store) (o : Op) : Store :=
  let s1 := if o.isDel then s else placeRow ⟨o, [], false, false, none⟩ s
  let acc := topRun o s1
  s1.map (updateRow w o acc)

/-- the object an op addresses exists (`panic!("Obj … Missing from Index")` otherwise) -/
def objPresent (s : Store) (o : Op) : Bool :=
  match o.obj with
  | .root => true
  | .id i => s.any (fun r => r.op.id == i && (match r.op.action with | .make _ => true | _ => false))

/-- the element a sequence op is keyed on is in the store (otherwise `assert!(self.entry.is_empty())`
    in `Untangler::finish`, resp. `pos.unwrap()`, fail) -/
def refPresent (s : Store) (o : Op) : Bool :=
  match o.key with
  | .elem e => s.any (fun r => r.op.obj == o.obj && r.op.insert && r.op.id == e)
  | .head => o.insert
  | .map _ => true

/-- `insertRemote` with the panics of the Rust made explicit -/
def insertRemoteO (w : Op → Nat) (s : Store) (o : Op) : Outcome Unit Store :=
  if !objPresent s o then .panic .assertFailed
  else if !refPresent s o then .panic .unwrapNone
  else .ok (insertRemote w s o)

/-- the store a replica holds after applying `ops` one by one -/
def buildStore (w : Op → Nat) (ops : List Op) : Store := ops.foldl (insertRemote w) []

/-! ### the index columns from scratch (`IndexBuilder`) -/

def visibleCol (s : Store) : List Bool := s.map Row.isVisible

/-- is there a visible row in the leading run of rows of register `(obj, k)` -/
def laterVisible (obj : ObjId) (k : Key) : Store → Bool
  | [] => false
  | x :: xs => if x.op.obj == obj && x.op.regKey == k then Row.isVisible x || laterVisible obj k xs else false

/-- `IndexBuilder::flush`: the last visible row of every run of rows of one register -/
def topCol : Store → List Bool
  | [] => []
  | x :: xs => (Row.isVisible x && !laterVisible x.op.obj x.op.regKey xs) :: topCol xs

def widthCol (w : Op → Nat) (s : Store) : List (Option Nat) :=
  (s.zip (topCol s)).map (fun p => if p.2 then some (w p.1.op) else none)

/-- the maintained index columns equal their definition -/
def indexOk (w : Op → Nat) (s : Store) : Bool :=
  s.map (·.vis) == visibleCol s && s.map (·.top) == topCol s && s.map (·.width) == widthCol w s

/-! ### reads from the store -/

/-- `Op::fix_counter`: a counter reads as its initial value plus the recorded increments -/
def rowEntry (r : Row) : Entry :=
  match r.op.action with
  | .put (.counter i) => ⟨r.op.id, .counter (r.succ.foldl (fun acc p => acc + p.2.getD 0) i)⟩
  | .put v => ⟨r.op.id, .scalar v⟩
  | .make t => ⟨r.op.id, .obj t⟩
  | _ => ⟨r.op.id, .scalar .null⟩

/-- register of a map key: the visible value rows of that key in store order -/
def storeMapRegister (s : Store) (obj : ObjId) (k : Bytes) : List Entry :=
  (s.filter (fun r => r.op.obj == obj && r.op.key == .map k && r.op.isValue && Row.isVisible r)).map rowEntry

/-- register of a sequence element: the visible value rows of that element in store order -/
def storeElemRegister (s : Store) (obj : ObjId) (e : OpId) : List Entry :=
  (s.filter (fun r => r.op.obj == obj && r.op.elem == some e && r.op.isValue && Row.isVisible r)).map rowEntry

/-- the insert ops of a sequence object in store order -/
def storeSeqOrder (s : Store) (obj : ObjId) : List Op :=
  (s.filter (fun r => r.op.obj == obj && r.op.insert)).map (·.op)

def dedupAdj : List Bytes → List Bytes
  | [] => []
  | [x] => [x]
  | x :: y :: rest => if x == y then dedupAdj (y :: rest) else x :: dedupAdj (y :: rest)

def Op.mapKey? (o : Op) : Option Bytes := match o.key with | .map k => some k | _ => none

/-- keys of a map object with a visible value, in store order -/
def storeMapKeys (s : Store) (obj : ObjId) : List Bytes :=
  dedupAdj ((s.filter (fun r => r.op.obj == obj && r.op.isValue && Row.isVisible r)).filterMap
    (fun r => r.op.mapKey?))

def storeSeqElems (s : Store) (obj : ObjId) : List (OpId × List Entry) :=
  (storeSeqOrder s obj).filterMap (fun e =>
    if e.isMark then none else
    match storeElemRegister s obj e.id with
    | [] => none
    | r => some (e.id, r))

/-- the rendering of `Spec.showObj`, every read taken from the store -/
def storeShowObj (s : Store) : Nat → ObjId → ObjType → String
  | 0, _, _ => "?"
  | fuel + 1, obj, ty =>
    let showEntry (e : Entry) : String :=
      showId e.id ++ ":" ++
        (match e.val with
         | .scalar v => showScalar v
         | .counter n => "c" ++ toString n
         | .obj t => storeShowObj s fuel (.id e.id) t)
    let showReg (r : List Entry) : String := joinWith "|" (r.map showEntry)
    match ty with
    | .map => "M{" ++ joinWith ";" ((storeMapKeys s obj).map (fun k => hexOfBytes k ++ "=" ++ showReg (storeMapRegister s obj k))) ++ "}"
    | .table => "B{" ++ joinWith ";" ((storeMapKeys s obj).map (fun k => hexOfBytes k ++ "=" ++ showReg (storeMapRegister s obj k))) ++ "}"
    | .list => "L[" ++ joinWith ";" ((storeSeqElems s obj).map (fun p => showReg p.2)) ++ "]"
    | .text => "T[" ++ joinWith ";" ((storeSeqElems s obj).map (fun p => showReg p.2)) ++ "]"

/-- the whole visible document read from the store (`fuel` bounds the nesting depth) -/
def storeShowDoc (s : Store) (fuel : Nat) : String := storeShowObj s fuel .root .map

/-! ### the hypotheses of the refinement theorems, as executable checks

  `Proofs/StoreBuild.lean` proves them sound (`admissibleB_sound`, …); the driver evaluates them on the
  op list of every replica it dumps, so the differential run also shows that the histories the
  library makes satisfy the hypotheses of `C02_store_*` / `C01_store_*`. -/

def strictIdsB : List Op → Bool
  | [] => true
  | x :: xs => xs.all (fun y => !(x.id == y.id)) && strictIdsB xs

def refsSmallerB (ops : List Op) : Bool :=
  ops.all (fun o => !o.insert || (match o.key with | .elem e => e.lt o.id | _ => true))

/-- `OpsWF`: distinct ids, an element is created after its reference element and updated after it is
    created, one kind of key per object, inserts are keyed on elements, only inserts on HEAD -/
def wfB (ops : List Op) : Bool :=
  strictIdsB ops && refsSmallerB ops &&
  ops.all (fun x => ops.all (fun y => !(x.obj == y.obj) || x.key.isMap == y.key.isMap)) &&
  ops.all (fun x => !x.insert || (!x.key.isMap && !x.isDel)) &&
  ops.all (fun x => x.insert || !(x.key == .head)) &&
  ops.all (fun x => x.insert || (match x.key with | .elem e => e.lt x.id | _ => true))

/-- `Fresh`: nothing refers to `N` yet, and the element `N` is keyed on is in the element order -/
def freshB (ops : List Op) (N : Op) : Bool :=
  (ops ++ [N]).all (fun x => !x.pred.contains N.id) &&
  (ops ++ [N]).all (fun x => !(x.key == .elem N.id)) &&
  (match N.key with
   | .elem e => (rgaOrder ops N.obj).any (fun c => c.id == e)
   | _ => true)

/-- every prefix is well formed and every op is fresh with respect to the ops before it -/
def admissibleB (ops : List Op) : Bool :=
  (List.range ops.length).all (fun i => wfB (ops.take (i + 1)) &&
    (match ops[i]? with | some N => freshB (ops.take i) N | none => false))

/-- `PredsOk`: every op names predecessors of its own register only -/
def predsOkB (ops : List Op) : Bool :=
  ops.all (fun N => ops.all (fun x => !N.pred.contains x.id || (x.obj == N.obj && x.regKey == N.regKey)))

/-! ### canonical text of the rows (shared with the harness hook `verif_dump_ops`) -/

def showKeyTok : Key → String
  | .map k => "m" ++ hexOfBytes k
  | .head => "h"
  | .elem e => "e" ++ showId e

def showObjTok : ObjId → String
  | .root => "_"
  | .id o => showId o

def showSucc (p : OpId × Option Int) : String :=
  showId p.1 ++ (match p.2 with | some n => "+" ++ toString n | none => "")

def showRow (r : Row) : String :=
  showId r.op.id ++ "/" ++ showObjTok r.op.obj ++ "/" ++ showKeyTok r.op.key ++ "/" ++
    (if r.op.insert then "1" else "0") ++ "/" ++
    (if r.succ.isEmpty then "-" else joinWith "," (r.succ.map showSucc)) ++ "/" ++
    (if r.vis then "1" else "0") ++ (if r.top then "1" else "0") ++ "/" ++
    (match r.width with | some n => toString n | none => "-")

def showStore (s : Store) : String := if s.isEmpty then "-" else joinWith ";" (s.map showRow)

end AmVerif.Crdt
