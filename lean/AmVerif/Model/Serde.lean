import AmVerif.Model.Json
/-
  M12b: serde export of a document (`rust/automerge/src/autoserde.rs`) and the CLI's JSON
  import/export (`rust/automerge-cli/src/{import,export}.rs`).

  * `Val` is the current state of a document as the read API shows it, INCLUDING what an export
    must not show: every register (map key / list element) carries its winner and the losing
    concurrent values, or is `dead` (deleted).  Map entries are kept in the order `keys()`
    iterates them (increasing key).
  * `SVal` is the serde data model restricted to what `AutoSerde` can emit; `image` is the
    winners-only view ("current state as nested maps, sequences, strings and scalars").
  * `Ev` is the sequence of `serde::Serializer` calls; `serialize` mirrors `AutoSerdeMap /
    AutoSerdeSeq / AutoSerdeVal::serialize` call by call, including the `len` hint of
    `serialize_map` / `serialize_seq`.
  * `Dec.run` is a consumer of such a call sequence (a length-prefixed format's encoder): it
    rebuilds the tree and FAILS when a container was announced with a wrong length.
  * `toJson` is `serde_json::value::Serializer` (what `serde_json::to_value` does with those calls),
    `exportJson` = `export.rs::get_state_json`, `importJson` = `import.rs::initialize_from_json`.

  Not modelled: `ScalarValue::Unknown` (serialised as a two-field struct), `ObjType::Table` (same
  code path as `Map`), i64 overflow of a counter's `start + increments`.
-/
namespace AmVerif

inductive Scalar where
  | bytes (b : List Nat)          -- each < 256
  | str (s : String)
  | int (i : Int)
  | uint (n : Nat)
  | f64 (bits : Nat)
  | counter (start inc : Int)     -- `Counter { start, current = start + inc }`
  | timestamp (i : Int)
  | bool (b : Bool)
  | null
  deriving DecidableEq, Repr

mutual
inductive Val where
  | scalar (s : Scalar)
  | text (s : String)                       -- a text object with its current content
  | map (es : List (String × Reg))
  | list (rs : List Reg)
inductive Reg where
  | live (winner : Val) (losers : List Val) -- `get` returns `winner`; `get_all` also the losers
  | dead                                     -- deleted key / element: not in `keys()`, not counted by `length()`
end

/-- serde data model, as far as `AutoSerde` reaches it -/
inductive SVal where
  | unit
  | bool (b : Bool)
  | i64 (i : Int)
  | u64 (n : Nat)
  | u8 (n : Nat)
  | f64 (bits : Nat)
  | str (s : String)
  | seq (xs : List SVal)
  | map (kvs : List (String × SVal))

/-- `serde::Serializer` calls -/
inductive Ev where
  | unit
  | bool (b : Bool)
  | i64 (i : Int)
  | u64 (n : Nat)
  | u8 (n : Nat)
  | f64 (bits : Nat)
  | str (s : String)
  | mapStart (len : Option Nat)   -- `serialize_map(len)`
  | key (k : String)              -- first half of `serialize_entry`
  | mapEnd                        -- `SerializeMap::end`
  | seqStart (len : Option Nat)   -- `serialize_seq(len)`
  | seqEnd
  deriving DecidableEq, Repr

/-! ### the winners-only image -/

def Scalar.image : Scalar → SVal
  | .bytes b => .seq (b.map SVal.u8)
  | .str s => .str s
  | .int i => .i64 i
  | .uint n => .u64 n
  | .f64 b => .f64 b
  | .counter s i => .i64 (s + i)
  | .timestamp i => .i64 i
  | .bool b => .bool b
  | .null => .unit

mutual
def Val.image : Val → SVal
  | .scalar s => s.image
  | .text s => .str s
  | .map es => .map (Val.imageEntries es)
  | .list rs => .seq (Val.imageRegs rs)
def Val.imageEntries : List (String × Reg) → List (String × SVal)
  | [] => []
  | (k, .live w _) :: es => (k, w.image) :: Val.imageEntries es
  | (_, .dead) :: es => Val.imageEntries es
def Val.imageRegs : List Reg → List SVal
  | [] => []
  | .live w _ :: rs => w.image :: Val.imageRegs rs
  | .dead :: rs => Val.imageRegs rs
end

/-! ### `AutoSerde` -/

def Reg.isLive : Reg → Bool
  | .live _ _ => true
  | .dead => false

/-- `ReadDoc::length(obj)` of a map: the number of keys with a visible value -/
def mapLength (es : List (String × Reg)) : Nat := (es.filter (fun e => e.2.isLive)).length

/-- `ReadDoc::length(obj)` of a list -/
def listLength (rs : List Reg) : Nat := (rs.filter Reg.isLive).length

/-- `ScalarValue as Serialize` (derived, `#[serde(untagged)]`) -/
def Scalar.serialize : Scalar → List Ev
  | .bytes b => Ev.seqStart (some b.length) :: (b.map Ev.u8 ++ [Ev.seqEnd])  -- `Vec<u8>`
  | .str s => [.str s]
  | .int i => [.i64 i]
  | .uint n => [.u64 n]
  | .f64 b => [.f64 b]
  | .counter s i => [.i64 (s + i)]       -- `Counter::serialize` = `serialize_i64(current)`
  | .timestamp i => [.i64 i]
  | .bool b => [.bool b]
  | .null => [.unit]

mutual
/-- `AutoSerdeVal::serialize` (and `AutoSerde::serialize` for the root, which is a map) -/
def Val.serialize : Val → List Ev
  | .scalar s => s.serialize
  | .text s => [.str s]                                -- `doc.text(obj).serialize`
  -- `AutoSerdeMap`: `serialize_map(Some(doc.length(&self.obj)))` (after fix D10; before it the
  -- ROOT's length was announced here), one `serialize_entry` per `keys()`, `end`
  | .map es => Ev.mapStart (some (mapLength es)) :: (Val.serializeEntries es ++ [Ev.mapEnd])
  -- `AutoSerdeSeq`: `serialize_seq(None)`, `for i in 0..length`, `end`
  | .list rs => Ev.seqStart none :: (Val.serializeRegs rs ++ [Ev.seqEnd])
def Val.serializeEntries : List (String × Reg) → List Ev
  | [] => []
  | (k, .live w _) :: es => Ev.key k :: (w.serialize ++ Val.serializeEntries es)
  | (_, .dead) :: es => Val.serializeEntries es
def Val.serializeRegs : List Reg → List Ev
  | [] => []
  | .live w _ :: rs => w.serialize ++ Val.serializeRegs rs
  | .dead :: rs => Val.serializeRegs rs
end

/- The same with the announced length as a function of the map's own length.  Used only to
   exhibit the pre-fix behaviour (D10: `ann = fun _ => length(ROOT)`) next to the theorems. -/
mutual
def Val.serializeWith (ann : Nat → Nat) : Val → List Ev
  | .scalar s => s.serialize
  | .text s => [.str s]
  | .map es => Ev.mapStart (some (ann (mapLength es))) :: (Val.serializeEntriesWith ann es ++ [Ev.mapEnd])
  | .list rs => Ev.seqStart none :: (Val.serializeRegsWith ann rs ++ [Ev.seqEnd])
def Val.serializeEntriesWith (ann : Nat → Nat) : List (String × Reg) → List Ev
  | [] => []
  | (k, .live w _) :: es => Ev.key k :: (w.serializeWith ann ++ Val.serializeEntriesWith ann es)
  | (_, .dead) :: es => Val.serializeEntriesWith ann es
def Val.serializeRegsWith (ann : Nat → Nat) : List Reg → List Ev
  | [] => []
  | .live w _ :: rs => w.serializeWith ann ++ Val.serializeRegsWith ann rs
  | .dead :: rs => Val.serializeRegsWith ann rs
end

/-! ### a length-checking consumer of the call sequence -/

namespace Dec

inductive Frame where
  /-- an open map: announced length, entries so far (newest first), key waiting for its value -/
  | map (ann : Option Nat) (acc : List (String × SVal)) (pending : Option String)
  /-- an open sequence: announced length, elements so far (newest first) -/
  | seq (ann : Option Nat) (acc : List SVal)

inductive St where
  | running (stack : List Frame)
  | done (v : SVal)

/-- hand a complete value to the innermost open container (or finish) -/
def deliver : St → SVal → Option St
  | .running [], x => some (.done x)
  | .running (.map ann acc (some k) :: st), x => some (.running (.map ann ((k, x) :: acc) none :: st))
  | .running (.map _ _ none :: _), _ => none
  | .running (.seq ann acc :: st), x => some (.running (.seq ann (x :: acc) :: st))
  | .done _, _ => none

def accepts : St → Bool
  | .running [] => true
  | .running (.map _ _ (some _) :: _) => true
  | .running (.map _ _ none :: _) => false
  | .running (.seq _ _ :: _) => true
  | .done _ => false

def push (f : Frame) : St → Option St
  | .running st => if accepts (.running st) then some (.running (f :: st)) else none
  | .done _ => none

/-- announced length agrees with the number of entries actually serialised -/
def lenOk (ann : Option Nat) (n : Nat) : Bool :=
  match ann with
  | none => true
  | some a => a == n

def step (s : St) : Ev → Option St
  | .unit => deliver s .unit
  | .bool b => deliver s (.bool b)
  | .i64 i => deliver s (.i64 i)
  | .u64 n => deliver s (.u64 n)
  | .u8 n => deliver s (.u8 n)
  | .f64 b => deliver s (.f64 b)
  | .str x => deliver s (.str x)
  | .mapStart len => push (.map len [] none) s
  | .seqStart len => push (.seq len []) s
  | .key k =>
    match s with
    | .running (.map ann acc none :: st) => some (.running (.map ann acc (some k) :: st))
    | _ => none
  | .mapEnd =>
    match s with
    | .running (.map ann acc none :: st) =>
      if lenOk ann acc.length then deliver (.running st) (.map acc.reverse) else none
    | _ => none
  | .seqEnd =>
    match s with
    | .running (.seq ann acc :: st) =>
      if lenOk ann acc.length then deliver (.running st) (.seq acc.reverse) else none
    | _ => none

def run (s : St) : List Ev → Option St
  | [] => some s
  | e :: es =>
    match step s e with
    | some s' => run s' es
    | none => none

end Dec

/-- decode a complete call sequence into the value it describes; `none` if it is malformed or a
    container's announced length differs from its real one -/
def decodeEvents (evs : List Ev) : Option SVal :=
  match Dec.run (.running []) evs with
  | some (.done v) => some v
  | _ => none

/-! ### the length discipline alone (what a length-prefixed encoder enforces) -/

namespace Len

/-- an open container: is it a map, announced length, entries so far, is a key waiting -/
structure Frame where
  isMap : Bool
  ann : Option Nat
  count : Nat
  pending : Bool
  deriving DecidableEq, Repr

/-- `none` = finished -/
abbrev St := Option (List Frame)

def deliver : St → Option St
  | some [] => some none
  | some (f :: st) =>
    if f.isMap then
      if f.pending then some (some ({ f with count := f.count + 1, pending := false } :: st)) else none
    else some (some ({ f with count := f.count + 1 } :: st))
  | none => none

def accepts : St → Bool
  | some [] => true
  | some (f :: _) => !f.isMap || f.pending
  | none => false

def push (f : Frame) (s : St) : Option St :=
  match s with
  | some st => if accepts (some st) then some (some (f :: st)) else none
  | none => none

def step (s : St) : Ev → Option St
  | .mapStart len => push ⟨true, len, 0, false⟩ s
  | .seqStart len => push ⟨false, len, 0, false⟩ s
  | .key _ =>
    match s with
    | some (f :: st) => if f.isMap && !f.pending then some (some ({ f with pending := true } :: st)) else none
    | _ => none
  | .mapEnd =>
    match s with
    | some (f :: st) =>
      if f.isMap && !f.pending && Dec.lenOk f.ann f.count then deliver (some st) else none
    | _ => none
  | .seqEnd =>
    match s with
    | some (f :: st) =>
      if !f.isMap && Dec.lenOk f.ann f.count then deliver (some st) else none
    | _ => none
  | _ => deliver s

def run (s : St) : List Ev → Option St
  | [] => some s
  | e :: es =>
    match step s e with
    | some s' => run s' es
    | none => none

end Len

/-- every `serialize_map(Some n)` / `serialize_seq(Some n)` of the call sequence is followed by
    exactly `n` entries / elements before its matching `end`, and the sequence is one complete
    well-bracketed value -/
def lengthsTrue (evs : List Ev) : Bool :=
  match Len.run (some []) evs with
  | some none => true
  | _ => false

/-! ### `serde_json::to_value` -/

mutual
/-- `serde_json::value::Serializer`: `serialize_i64/u64/u8` build a `Number` (`PosInt` when
    non-negative), `serialize_f64` gives `Null` for a non-finite float, maps are collected into a
    `BTreeMap`. -/
def SVal.toJson : SVal → Json
  | .unit => .null
  | .bool b => .bool b
  | .i64 i => .num (.int i)
  | .u64 n => if (n : Int) ≤ I64_MAX then .num (.int n) else .num (.uint n)
  | .u8 n => .num (.int n)
  | .f64 b => if f64Finite b then .num (.float b) else .null
  | .str s => .str s
  | .seq xs => .arr (SVal.toJsonList xs)
  | .map kvs => .obj (fromEntries (SVal.toJsonEntries kvs))
def SVal.toJsonList : List SVal → List Json
  | [] => []
  | x :: xs => x.toJson :: SVal.toJsonList xs
def SVal.toJsonEntries : List (String × SVal) → List (String × Json)
  | [] => []
  | (k, v) :: kvs => (k, v.toJson) :: SVal.toJsonEntries kvs
end

/-- `export.rs::get_state_json`: `serde_json::to_value(AutoSerde::from(&doc))` -/
def exportJson (v : Val) : Json := v.image.toJson

/-! ### the scalars of a document are values of their Rust types -/

def Scalar.InRange : Scalar → Prop
  | .bytes b => ∀ x ∈ b, x < 256
  | .int i => I64_MIN ≤ i ∧ i ≤ I64_MAX
  | .uint n => n ≤ U64_MAX
  | .counter s i => I64_MIN ≤ s + i ∧ s + i ≤ I64_MAX
  | .timestamp i => I64_MIN ≤ i ∧ i ≤ I64_MAX
  | _ => True

mutual
/-- every visible scalar is in range (losers and deleted registers are never exported) -/
def Val.InRange : Val → Prop
  | .scalar s => s.InRange
  | .text _ => True
  | .map es => Val.InRangeEntries es
  | .list rs => Val.InRangeRegs rs
def Val.InRangeEntries : List (String × Reg) → Prop
  | [] => True
  | (_, .live w _) :: es => w.InRange ∧ Val.InRangeEntries es
  | (_, .dead) :: es => Val.InRangeEntries es
def Val.InRangeRegs : List Reg → Prop
  | [] => True
  | .live w _ :: rs => w.InRange ∧ Val.InRangeRegs rs
  | .dead :: rs => Val.InRangeRegs rs
end

def Val.isMap : Val → Bool
  | .map _ => true
  | _ => false

/-! ### `import.rs` -/

def importNum : JNum → Scalar
  | .int i => .int i        -- `n.as_i64()` → `put(obj, key, m: i64)`
  | .uint n => .uint n      -- else `n.as_u64()`
  | .float b => .f64 b      -- else `n.as_f64()`

mutual
/-- one arm of the `match value` in `import_map` / `import_list`: the value the new register holds.
    `put`/`put_object` on a map key are `BTreeMap`-like (`insertKV`): the document keeps keys in
    increasing order and a second `put` of a key replaces the register; `insert(obj, i, …)` with
    `i` = number of elements so far appends. -/
def importVal : Json → Val
  | .null => .scalar .null
  | .bool b => .scalar (.bool b)
  | .num n => .scalar (importNum n)
  | .str s => .scalar (.str s)
  | .arr xs => .list (importList xs)
  | .obj kvs => .map (fromEntries (importEntries kvs))
def importList : List Json → List Reg
  | [] => []
  | x :: xs => .live (importVal x) [] :: importList xs
def importEntries : List (String × Json) → List (String × Reg)
  | [] => []
  | (k, v) :: kvs => (k, .live (importVal v) []) :: importEntries kvs
end

inductive ImportErr where
  | expectedObject     -- `anyhow::bail!("expected an object")`
  deriving DecidableEq, Repr

/-- `initialize_from_json` -/
def importJson : Json → Except ImportErr Val
  | .obj kvs => .ok (importVal (.obj kvs))
  | _ => .error .expectedObject

/-- the CLI round trip `import | export` on an already parsed value -/
def cliRoundTrip (j : Json) : Except ImportErr Json :=
  match importJson j with
  | .ok v => .ok (exportJson v)
  | .error e => .error e

end AmVerif
