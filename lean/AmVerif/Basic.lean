def hello := "world"
