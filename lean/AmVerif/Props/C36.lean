import AmVerif.Proofs.Handles
/-
  C36 — "The C API is memory-safe and agrees with the Rust API: Any sequence of C API calls on valid
  handles, including reading results, items and byte spans and freeing them, runs without memory
  errors or leaks. The resulting documents, values, heads and saved bytes equal those the Rust API
  produces for the same operations."

  WHAT IS AND IS NOT DECIDED HERE.  Memory safety of the library itself (`unsafe extern "C"` Rust in
  /repo/rust/automerge-c) is runtime behaviour of compiled code: it is NOT decided by any theorem in
  this file or anywhere in this project.  These theorems are about the CALLER's half of the contract
  only: the handle discipline of `AmVerif.Model.Handles` (a result owns its items; items, `AMitems`
  views, byte spans and typed pointers borrow from it; `AMitemResult`/`AMresultCat` share the item
  cells; `AMresultFree` ends a result and a cell dies with its last holder), and the fact that every
  handle trace of the grammar `Prog` — the eight usage templates the C driver
  /verif/harness/capi/driver.c is written from — obeys that discipline and frees everything.  That the
  driver's REAL traces obey it is not assumed: the driver prints its handle trace (`--trace`) and the
  `capi.trace` line of every differential case replays it through `check` (Driver/Capi.lean).
  Consequence: a memory error or leak reported by valgrind/ASan on a driver run, or a crash, is the
  library's fault, not the driver's.  The value half (documents,
  values, heads, saved bytes equal to the Rust API's) is carried by the `capi` engine's differential
  run against the Rust API and, for the `crdt.*` lines, by the Spec/Local model (C02/C03), not by
  this file.

  Property theorems only; helper lemmas are in `AmVerif.Proofs.Handles`.
  Model: `AmVerif.Model.Handles` (`step`/`run`/`finish`/`check` = the discipline; `Prog`/`comp`/
  `compileAll` = the driver's templates).
-/
namespace AmVerif.Props.C36
open AmVerif.Handles

/-- C36, "Any sequence of C API calls on valid handles, including reading results, items and byte
    spans and freeing them, runs without memory errors or leaks" — the caller's half, for the
    driver: EVERY program of the driver's grammar (all nestings of its eight templates, any sizes,
    any indices, any table references, resolvable or not) compiles to a trace that `check` accepts:
    every event is on a live handle / in range / on a pointer whose cell is still held, every
    observed `AMitemRefCount` equals the number of live holders, and at the end no result is live. -/
theorem C36_generated_programs_use_live_handles (p : Prog) : check (compileAll p) = true :=
  check_compileAll p

/-- the same, unfolded: the trace runs to completion from the empty state and ends with nothing
    live (no leak). -/
theorem C36_generated_programs_run_and_free_all (p : Prog) :
    ∃ s, run {} (compileAll p) = .ok s ∧ s.live = [] :=
  run_compileAll p

/-- non-vacuity: `Ex.prog` uses all eight constructors (a kept result with a stored pointer, a
    scope with reads / a scoped pointer / uses of both pointers, an `AMresultCat` of a kept and an
    open result with a nested keep, both detach templates, the cat-detach template); its trace has
    45 events, starts and ends as shown, and is accepted with 10 results, 12 cells and 4 stored
    pointers issued. -/
example :
    (compileAll Ex.prog).length = 45 ∧
    (compileAll Ex.prog).take 11 =
      [.alloc 0 2, .item 0 1, .borrow 0 0 1, .alloc 1 3, .view 1, .item 1 0, .item 1 2,
       .borrow 1 1 1, .use 1, .use 0, .cat 2 0 1] ∧
    (compileAll Ex.prog).drop 40 = [.use 0, .alloc 9 1, .free 9, .free 3, .free 0] ∧
    check (compileAll Ex.prog) = true ∧
    (∃ s, finish (compileAll Ex.prog) = .ok s ∧ s.nextRes = 10 ∧ s.nextCell = 12 ∧ s.nextPtr = 4) :=
  ⟨by decide, by decide, by decide, by decide, ⟨_, rfl, rfl, rfl, rfl⟩⟩

/-- `check` is not trivially true: use after free, leak, double free, use of a freed result,
    out-of-range item, a wrong observed refcount, a skipped id are all rejected … -/
example :
    check [.alloc 0 1, .borrow 0 0 0, .free 0, .use 0] = false ∧
    check [.alloc 0 1] = false ∧
    check [.alloc 0 1, .free 0, .free 0] = false ∧
    check [.alloc 0 1, .free 0, .item 0 0] = false ∧
    check [.alloc 0 1, .item 0 1, .free 0] = false ∧
    check [.alloc 0 1, .share 1 0 0, .refcnt 0 0 1, .free 0, .free 1] = false ∧
    check [.alloc 1 1, .free 1] = false :=
  ⟨by decide, by decide, by decide, by decide, by decide, by decide, by decide⟩

/-- … and sharing keeps a cell alive: the pointer borrowed from result 0 is still usable after
    `AMresultFree(0)` because `AMitemResult` made result 1 hold the same cell; once result 1 is
    freed too, the same use is rejected. -/
example :
    check [.alloc 0 1, .share 1 0 0, .borrow 0 0 0, .free 0, .use 0, .free 1] = true ∧
    check [.alloc 0 1, .share 1 0 0, .borrow 0 0 0, .free 0, .free 1, .use 0] = false :=
  ⟨by decide, by decide⟩

/-- C36, "freeing them … without memory errors or leaks", for ANY accepted trace (not only the
    driver's): a result id created in the trace (`alloc`, `AMitemResult`, `AMresultCat`) is freed
    exactly once, and an id that is never created is never freed. -/
theorem C36_freed_exactly_once {tr : List Ev} (h : check tr = true) (r : Nat) :
    (((∃ n, .alloc r n ∈ tr) ∨ (∃ r0 k, .share r r0 k ∈ tr) ∨ (∃ r1 r2, .cat r r1 r2 ∈ tr)) →
      tr.count (.free r) = 1) ∧
    (¬ ((∃ n, .alloc r n ∈ tr) ∨ (∃ r0 k, .share r r0 k ∈ tr) ∨ (∃ r1 r2, .cat r r1 r2 ∈ tr)) →
      tr.count (.free r) = 0) := by
  obtain ⟨heq, hle⟩ := check_count h r
  have hpos : 0 < tr.countP (Ev.creates r) ↔
      ((∃ n, .alloc r n ∈ tr) ∨ (∃ r0 k, .share r r0 k ∈ tr) ∨ (∃ r1 r2, .cat r r1 r2 ∈ tr)) := by
    rw [List.countP_pos_iff]
    constructor
    · rintro ⟨e, he, hc⟩
      rcases creates_iff.mp hc with ⟨n, rfl⟩ | ⟨r0, k, rfl⟩ | ⟨r1, r2, rfl⟩
      · exact .inl ⟨n, he⟩
      · exact .inr (.inl ⟨r0, k, he⟩)
      · exact .inr (.inr ⟨r1, r2, he⟩)
    · rintro (⟨n, he⟩ | ⟨r0, k, he⟩ | ⟨r1, r2, he⟩)
      · exact ⟨_, he, creates_iff.mpr (.inl ⟨n, rfl⟩)⟩
      · exact ⟨_, he, creates_iff.mpr (.inr (.inl ⟨r0, k, rfl⟩))⟩
      · exact ⟨_, he, creates_iff.mpr (.inr (.inr ⟨r1, r2, rfl⟩))⟩
  constructor
  · intro hc; have := hpos.mpr hc; omega
  · intro hc
    have : ¬ 0 < tr.countP (Ev.creates r) := fun h => hc (hpos.mp h)
    omega

/-- each result id is also CREATED at most once in an accepted trace (ids are never reused), so
    "freed exactly once" cannot be met by freeing two incarnations of the same id. -/
theorem C36_created_at_most_once {tr : List Ev} (h : check tr = true) (r : Nat) :
    tr.countP (fun e => match e with
      | .alloc r' _ => r' == r | .share r' _ _ => r' == r | .cat r' _ _ => r' == r
      | _ => false) ≤ 1 := by
  have := (check_count h r).2
  have hf : (fun e : Ev => match e with
      | .alloc r' _ => r' == r | .share r' _ _ => r' == r | .cat r' _ _ => r' == r
      | _ => false) = Ev.creates r := by
    funext e; cases e <;> rfl
  rw [hf]; exact this

/-- non-vacuity on the accepted trace of `Ex.prog`: result 3 (kept inside a scope, freed on the
    exit path) and result 5 (an `AMitemResult`) are each created and freed once; id 10 is neither. -/
example :
    check (compileAll Ex.prog) = true ∧
    Ev.alloc 3 1 ∈ compileAll Ex.prog ∧ (compileAll Ex.prog).count (.free 3) = 1 ∧
    Ev.share 5 4 1 ∈ compileAll Ex.prog ∧ (compileAll Ex.prog).count (.free 5) = 1 ∧
    (compileAll Ex.prog).count (.free 10) = 0 :=
  ⟨by decide, by decide, by decide, by decide, by decide, by decide⟩

/-- C36, "without memory errors": in ANY accepted trace, after `AMresultFree(r)` no later event
    names result `r` as a source — no item / view / borrow / `AMitemResult` / `AMresultCat` operand /
    refcount read / second free of `r` — and the id `r` is not issued again either. -/
theorem C36_no_use_after_free {tr pre post : List Ev} {r : Nat} (h : check tr = true)
    (htr : tr = pre ++ [.free r] ++ post) :
    ∀ e ∈ post,
      (∀ k, e ≠ .item r k) ∧ e ≠ .view r ∧ (∀ p k, e ≠ .borrow p r k) ∧
      (∀ r' k, e ≠ .share r' r k) ∧ (∀ r' r2, e ≠ .cat r' r r2 ∧ e ≠ .cat r' r2 r) ∧
      (∀ k c, e ≠ .refcnt r k c) ∧ e ≠ .free r ∧
      (∀ n, e ≠ .alloc r n) ∧ (∀ r0 k, e ≠ .share r r0 k) ∧ (∀ r1 r2, e ≠ .cat r r1 r2) := by
  subst htr
  intro e he
  obtain ⟨hu, hc⟩ := no_use_after_free h e he
  have hu' : ¬ e.uses r = true := by rw [hu]; exact Bool.false_ne_true
  have hc' : ¬ e.creates r = true := by rw [hc]; exact Bool.false_ne_true
  rw [uses_iff] at hu'
  rw [creates_iff] at hc'
  refine ⟨fun k hk => hu' (.inl ⟨k, hk⟩), fun hk => hu' (.inr (.inl hk)),
    fun p k hk => hu' (.inr (.inr (.inl ⟨p, k, hk⟩))),
    fun r' k hk => hu' (.inr (.inr (.inr (.inl ⟨r', k, hk⟩)))),
    fun r' r2 => ⟨fun hk => hu' (.inr (.inr (.inr (.inr (.inl ⟨r', r2, .inl hk⟩))))),
                  fun hk => hu' (.inr (.inr (.inr (.inr (.inl ⟨r', r2, .inr hk⟩)))))⟩,
    fun k c hk => hu' (.inr (.inr (.inr (.inr (.inr (.inl ⟨k, c, hk⟩)))))),
    fun hk => hu' (.inr (.inr (.inr (.inr (.inr (.inr hk)))))),
    fun n hk => hc' (.inl ⟨n, hk⟩), fun r0 k hk => hc' (.inr (.inl ⟨r0, k, hk⟩)),
    fun r1 r2 hk => hc' (.inr (.inr ⟨r1, r2, hk⟩))⟩

/-- non-vacuity: the accepted trace of `Ex.prog` splits at `AMresultFree(1)` (the end of the scope)
    with 20 events before and 24 after; and a trace that does touch the freed result is rejected. -/
example :
    check (compileAll Ex.prog) = true ∧
    compileAll Ex.prog = (compileAll Ex.prog).take 20 ++ [.free 1] ++ (compileAll Ex.prog).drop 21 ∧
    ((compileAll Ex.prog).drop 21).length = 24 ∧
    check [.alloc 0 2, .free 0, .view 0] = false :=
  ⟨by decide, by decide, by decide, by decide⟩

/-- C36, the `Rc` reading of "a cell dies with its last holder": a cell is alive (some live result
    holds it — what `use` of a stored pointer requires) iff its strong count (`occ`, what
    `AMitemRefCount` reports) is positive. -/
theorem C36_refcount_is_holders (live : List (Nat × List Nat)) (c : Nat) :
    alive live c = true ↔ 0 < occ live c :=
  alive_iff_occ_pos live c

/-- non-vacuity: cell 7 held by two results (count 2, alive); cell 9 held by none (count 0, dead). -/
example :
    alive [(3, [7]), (1, [5, 7, 6])] 7 = true ∧ occ [(3, [7]), (1, [5, 7, 6])] 7 = 2 ∧
    alive [(3, [7]), (1, [5, 7, 6])] 9 = false ∧ occ [(3, [7]), (1, [5, 7, 6])] 9 = 0 :=
  ⟨by decide, by decide, by decide, by decide⟩

end AmVerif.Props.C36
