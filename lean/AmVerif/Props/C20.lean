import AmVerif.Proofs.SyncRounds
import AmVerif.Proofs.SyncNetTie
/-
  C20 — Two-peer sync converges and goes quiet.
  Property theorems only; helper lemmas are in `AmVerif.Proofs.Sync*`.
  Model: `AmVerif.Model.Sync` (sync.rs / state.rs / message_builder.rs branch by branch, Bloom
  filter = `Model.Bloom`), two-peer system `AmVerif.Model.Sync2` (`Cfg`, `Step`, `Reachable`,
  `round`, `Quiescent`, `Converged`).  `fp : Hash → Bool` is the forced-false-positive hook; every
  theorem below holds for an ARBITRARY `fp`.

  FULL-STRENGTH STATEMENT (C20):
    theorem C20 (fp) (c) (h : Reachable fp c) :
        ∃ n ≤ bound c, Quiescent fp (rounds fp n c) ∧ Converged (rounds fp n c)
    with `bound c = 2 * |applied_A ∪ applied_B| + 4` (rounds without edits, messages flowing).
  It splits into
    (1) safety invariants of every reachable configuration             — proved, below;
    (2) no quiet non-converged configuration (deadlock freedom)         — proved: `C20_quiescent_converged`;
    (3) a quiet configuration stays quiet                               — proved: `C20_quiescent_stable`;
    (4) progress: within `bound c` rounds a quiescent configuration is reached
                                                                        — proved, for arbitrary `fp`, in
                                                                          `AmVerif.Props.C20Progress`
                                                                          (`C20_progress`, bound = missing + 4),
                                                                          which also states the combination
                                                                          `C20_converges_and_goes_quiet`.
  (1)–(3) say: whenever the exchange goes quiet — in whatever interleaving, after whatever Bloom
  false positives — both peers hold the same heads and the same changes, and it stays so; (4) says
  that it does go quiet within the bound.
-/
namespace AmVerif.Props.C20
open AmVerif AmVerif.Sync

/-! ### (1) safety invariants, by induction over arbitrary step sequences -/

/-- the change graphs stay dependency closed (topologically ordered, no repeated hash) and a
    hash means the same change at both peers -/
theorem C20_applied_dep_closed (fp : Hash → Bool) {c : Cfg} (h : Reachable fp c) :
    Topo c.docA.applied ∧ Topo c.docB.applied ∧
    (∀ x ∈ c.docA.applied, ∀ y ∈ c.docB.applied, x.hash = y.hash → x = y) :=
  let inv := Inv.of_reachable fp h
  ⟨inv.a.wf.topo, inv.b.wf.topo, inv.agree⟩

/-- every change in a message in flight is applied at its sender — or it is an orphan from the
    sender's queue shipped by `save()` inside a whole-document message, and then it is applied at
    the receiver (the design's "applied at its sender" is false for the code as it is: see
    `Builder.ofDoc`); the heads a message advertises are applied at its sender -/
theorem C20_message_changes_known (fp : Hash → Bool) {c : Cfg} (h : Reachable fp c) :
    (∀ m ∈ c.linkAB, (∀ x ∈ m.changes, x ∈ c.docA.applied ∨ x ∈ c.docB.applied) ∧
                      ∀ x ∈ m.heads, x ∈ c.docA.hashes) ∧
    (∀ m ∈ c.linkBA, (∀ x ∈ m.changes, x ∈ c.docB.applied ∨ x ∈ c.docA.applied) ∧
                      ∀ x ∈ m.heads, x ∈ c.docB.hashes) :=
  let inv := Inv.of_reachable fp h
  ⟨fun m hm => ⟨(inv.a.msgs m hm).changes, (inv.a.msgs m hm).heads⟩,
   fun m hm => ⟨(inv.b.msgs m hm).changes, (inv.b.msgs m hm).heads⟩⟩

/-- queued (not yet applicable) changes are applied at the other peer -/
theorem C20_queue_from_peer (fp : Hash → Bool) {c : Cfg} (h : Reachable fp c) :
    (∀ x ∈ c.docA.queue, x ∈ c.docB.applied) ∧ (∀ x ∈ c.docB.queue, x ∈ c.docA.applied) :=
  let inv := Inv.of_reachable fp h
  ⟨inv.a.queue, inv.b.queue⟩

/-- `shared_heads ⊆ applied_A ∩ applied_B`, for both states -/
theorem C20_shared_heads_common (fp : Hash → Bool) {c : Cfg} (h : Reachable fp c) :
    (∀ x ∈ c.stA.sharedHeads, x ∈ c.docA.hashes ∧ x ∈ c.docB.hashes) ∧
    (∀ x ∈ c.stB.sharedHeads, x ∈ c.docB.hashes ∧ x ∈ c.docA.hashes) :=
  let inv := Inv.of_reachable fp h
  ⟨inv.a.shared, inv.b.shared⟩

/-- `sent_hashes ⊆ applied` -/
theorem C20_sent_hashes_applied (fp : Hash → Bool) {c : Cfg} (h : Reachable fp c) :
    (∀ x ∈ c.stA.sentHashes, x ∈ c.docA.hashes) ∧ (∀ x ∈ c.stB.sentHashes, x ∈ c.docB.hashes) :=
  let inv := Inv.of_reachable fp h
  ⟨inv.a.sent, inv.b.sent⟩

/-- `in_flight_A ∧ in_flight_B → links non-empty`: the two peers never wait for each other -/
theorem C20_both_in_flight_link_nonempty (fp : Hash → Bool) {c : Cfg} (h : Reachable fp c)
    (ha : c.stA.inFlight = true) (hb : c.stB.inFlight = true) : c.linkAB ≠ [] ∨ c.linkBA ≠ [] := by
  rcases (Inv.of_reachable fp h).a.flight ha with h1 | h1 | h1
  · exact Or.inl h1
  · rw [hb] at h1; cases h1
  · exact Or.inr h1

/-- the reset message (`their last_sync is unknown to us`) is never sent between two peers that
    have not lost data -/
theorem C20_no_reset (fp : Hash → Bool) {c : Cfg} (h : Reachable fp c) :
    resetCond c.docA c.stA = false ∧ resetCond c.docB c.stB = false :=
  let inv := Inv.of_reachable fp h
  ⟨resetCond_false_of (fun hs hhs hv hhv x hx => (inv.a.theirHave hs hhs hv hhv x hx).1),
   resetCond_false_of (fun hs hhs hv hhv x hx => (inv.b.theirHave hs hhs hv hhv x hx).1)⟩

/-- documents only grow: no step of the protocol removes a change from a change graph (the
    first ingredient of the progress measure) -/
theorem C20_applied_monotone (fp : Hash → Bool) {c c' : Cfg} (h : Reachable fp c) (hs : Step fp c c') :
    (∀ x ∈ c.docA.applied, x ∈ c'.docA.applied) ∧ (∀ x ∈ c.docB.applied, x ∈ c'.docB.applied) :=
  hs.applied_mono (Inv.of_reachable fp h)

/-! ### (2) deadlock freedom: quiet implies converged — for arbitrary `fp` -/

/-- In any reachable configuration with empty links in which both `generate_sync_message` return
    `None`, both peers have the same heads and the same set of changes. -/
theorem C20_quiescent_converged (fp : Hash → Bool) {c : Cfg} (h : Reachable fp c)
    (hq : Quiescent fp c) : Converged c :=
  converged_of_quiescent (Inv.of_reachable fp h) hq

/-! ### (3) quiet stays quiet; rounds are step sequences -/

theorem C20_quiescent_stable (fp : Hash → Bool) {c : Cfg} (hq : Quiescent fp c) (n : Nat) :
    rounds fp n c = c :=
  rounds_quiescent n hq

/-- whatever number of rounds is run from a reachable configuration, the result is reachable, so
    (1) and (2) apply to it -/
theorem C20_rounds_reachable (fp : Hash → Bool) {c : Cfg} (h : Reachable fp c) (n : Nat) :
    Reachable fp (rounds fp n c) :=
  h.rounds n

/-- the combination used by the check: if after `n` rounds the configuration is quiescent, the
    peers have converged and further rounds change nothing -/
theorem C20_quiet_after_rounds_converged (fp : Hash → Bool) {c : Cfg} (h : Reachable fp c) (n : Nat)
    (hq : Quiescent fp (rounds fp n c)) :
    Converged (rounds fp n c) ∧ ∀ k, rounds fp k (rounds fp n c) = rounds fp n c :=
  ⟨C20_quiescent_converged fp (h.rounds n) hq, fun k => rounds_quiescent k hq⟩

/-! ### the theorems are about what the correspondence engine runs -/

/-- The n-peer network `Net` that the `sync` engine replays against the real code, looked at
    through any pair of distinct peers joined by a non-legacy link, takes exactly the steps of the
    two-peer system: local edit, generate, deliver commute with the pair projection (and the
    opposite direction is the `swap` of the pair). -/
theorem C20_net_pair_is_two_peer_system (net : Net) (a b : Nat) (hab : a ≠ b) :
    (∀ ch isFp, (net.edit a ch isFp).toCfg a b = (net.toCfg a b).editA ch) ∧
    (net.legacy a b = false → (net.gen a b).1.toCfg a b = (net.toCfg a b).genA net.fp) ∧
    (∀ m rest, net.link a b = m :: rest → (net.deliver a b).1.toCfg a b = (net.toCfg a b).recvB m rest) ∧
    net.toCfg b a = (net.toCfg a b).swap :=
  ⟨fun ch isFp => Net.toCfg_edit net a b hab ch isFp, Net.toCfg_gen net a b hab,
   fun m rest hl => Net.toCfg_deliver net a b hab m rest hl, rfl⟩

/-! ### non-vacuity: concrete divergent histories, with and without forced false positives -/

namespace Example

def c1 : Change := ⟨[1], []⟩
def c2 : Change := ⟨[2], [[1]]⟩
def c3 : Change := ⟨[3], [[1]]⟩
def c4 : Change := ⟨[4], [[3]]⟩

/-- A has c1 ← c2; B has c1 ← c3 ← c4 (a fork after the shared change c1) -/
def start : Cfg :=
  { docA := ⟨[c2, c1], []⟩, docB := ⟨[c4, c3, c1], []⟩, stA := State.new, stB := State.new,
    linkAB := [], linkBA := [] }

/-- the hook reports EVERY change as present in every filter: nothing is ever offered through the
    Bloom-filter path, everything has to be recovered through `need` -/
def fpAll : Hash → Bool := fun _ => true

theorem start_initial : Initial start := by
  refine ⟨⟨?_, ?_, ?_⟩, ⟨?_, ?_, ?_⟩, rfl, rfl, ?_, rfl, rfl, rfl, rfl⟩
  all_goals (simp [start, c1, c2, c3, c4, Topo, Doc.hashes])

end Example

/-- the hypotheses of `C20_quiescent_converged` are satisfiable on a non-trivial configuration:
    from the forked histories the exchange is not quiescent after 1 round, quiescent after 2
    (evaluated by the kernel), reachable, and — by the theorem, not by evaluation — converged -/
example : Reachable (fun _ => false) (rounds (fun _ => false) 2 Example.start) ∧
    ¬ Quiescent (fun _ => false) (rounds (fun _ => false) 1 Example.start) ∧
    Quiescent (fun _ => false) (rounds (fun _ => false) 2 Example.start) ∧
    (rounds (fun _ => false) 2 Example.start).docA.heads = [[2], [4]] :=
  ⟨(Reachable.init _ Example.start_initial).rounds 2, by decide, by decide, by decide⟩

/-- the same with every change a forced false positive: quiescence takes longer (4 rounds
    instead of 2, `need` requests recover the withheld changes one generation per round), the
    result is the same -/
example : ¬ Quiescent Example.fpAll (rounds Example.fpAll 3 Example.start) ∧
    Quiescent Example.fpAll (rounds Example.fpAll 4 Example.start) ∧
    (rounds Example.fpAll 4 Example.start).docB.heads = [[2], [4]] :=
  ⟨by decide, by decide, by decide⟩

example : Converged (rounds Example.fpAll 4 Example.start) :=
  C20_quiescent_converged _ ((Reachable.init _ Example.start_initial).rounds 4) (by decide)

/-
  ### (4) progress — see `AmVerif.Props.C20Progress`

    theorem C20_progress (fp) {c} (h : Reachable fp c) :
        ∃ n, n ≤ bound c ∧ Quiescent fp (rounds fp n c)        -- bound c = missing c + 4

  is proved there for every `fp` and every reachable configuration (helper lemmas in
  `AmVerif.Proofs.SyncProgress*`), with `missing c` = the changes applied at one peer that have not
  arrived (applied or queued) at the other, so `bound c ≤ |applied_A| + |applied_B| + 4
  ≤ 2·|applied_A ∪ applied_B| + 4`.  The `sync` engine checks the same bound on the real code
  (`! C20 sig=round-bound-exceeded`) in its pure two-peer sessions and compares the value of
  `missing` between implementation and model (step `b`).
-/

end AmVerif.Props.C20
