import AmVerif.Proofs.Chunk
/-
  C12 (chunk level) — "Any concatenation of one save and the save_incremental/save_after outputs
  written after it loads to the same document as the writer's in-memory one…"

  This file decides the framing part of that sentence on the executable model of
  `storage/chunk.rs`, `storage/load.rs` and `load_with_options` (`AmVerif.Model.Chunk`): parsing a
  concatenation of stored chunks yields exactly those chunks, in order, each with a valid
  checksum, whatever the chunk bodies are (`bodyOk` is the parameter standing for the body
  parsers).  What the chunks' contents do to the document is M5.

  A stored chunk (`Stored`) is an uncompressed chunk `plain ty data` (`ty` 0 document, 1 change,
  3 bundle; bytes `encodeChunk ty data`) or a compressed change `compressed data dec` whose stored
  bytes `data` inflate to `dec` (`Inflate.inflateExact` is only used as a function).  `fileOf ss` is
  the concatenation of the bytes of `ss`; `Stored.chunk s` is the chunk record the reader is to
  return for `s`.  Property theorems only; lemmas are in `AmVerif.Proofs.Chunk`.
-/
namespace AmVerif.Props.C12Chunks
open AmVerif AmVerif.Chunk

attribute [local instance] AmVerif.Leb.exceptDecEq

/-- the body parsers of the examples accept everything -/
def anyBody : Nat → Bytes → Bool := fun _ _ => true

/-- "loads to the same …", one chunk: `Chunk::parse` on a well-formed stored chunk followed by
    anything returns that chunk — type, data and hash as written, checksum valid — and leaves
    exactly what followed. -/
theorem C12_parseChunk_roundtrip (bodyOk : Nat → Bytes → Bool) (s : Stored) (h : s.WF bodyOk)
    (rest : Bytes) :
    parseChunk bodyOk (s.bytes ++ rest) = .ok (s.chunk, rest) ∧ s.chunk.checksumValid = true :=
  ⟨Stored.parse h rest, s.chunk_valid⟩

/-- the same for an uncompressed chunk, with the fields spelled out -/
theorem C12_parseChunk_encode (bodyOk : Nat → Bytes → Bool) (ty : Nat) (data : Bytes)
    (hty : ty ≤ 3) (hty2 : ty ≠ 2) (hd : data.length < 2 ^ 64) (hb : bodyOk ty data = true)
    (rest : Bytes) :
    ∃ chunk, parseChunk bodyOk (encodeChunk ty data ++ rest) = .ok (chunk, rest) ∧
      chunk.checksumValid = true ∧ chunk.ty = ty ∧ chunk.data = data ∧ chunk.body = data ∧
      chunk.hash = chunkHash ty data :=
  parseChunk_encode hty hty2 hd hb rest

/-- the chunk of the example below, written out: magic, checksum, type 0, length 1, data -/
example : encodeChunk 0 [7] = [133, 111, 74, 131, 203, 242, 20, 19, 0, 1, 7] := by
  set_option maxRecDepth 4000 in decide +kernel

set_option maxRecDepth 4000 in
/-- the model run on literal bytes: the chunk above followed by two more bytes -/
example : parseChunk anyBody [133, 111, 74, 131, 203, 242, 20, 19, 0, 1, 7, 55, 66] =
    .ok (⟨0, [203, 242, 20, 19], [7], [7], chunkHash 0 [7]⟩, [55, 66]) := by decide +kernel

/-- "Any concatenation of … outputs": `load_changes` on the concatenation of well-formed stored
    chunks returns exactly their chunks, in order, and no error, for every fuel (loop bound of the
    model) of at least the number of chunks. -/
theorem C12_loadChunks_concat (bodyOk : Nat → Bytes → Bool) (ss : List Stored)
    (h : ∀ s ∈ ss, s.WF bodyOk) (fuel : Nat) (hf : ss.length ≤ fuel) :
    loadChunks bodyOk fuel (fileOf ss) [] = ⟨ss.map Stored.chunk, none⟩ :=
  loadChunks_concat ss h fuel hf

/-- the bound the model's `loadFile` passes, `length + 1`, is such a fuel: a chunk has at least
    ten bytes -/
theorem C12_loadChunks_concat_fileFuel (bodyOk : Nat → Bytes → Bool) (ss : List Stored)
    (h : ∀ s ∈ ss, s.WF bodyOk) :
    10 * ss.length ≤ (fileOf ss).length ∧
    loadChunks bodyOk ((fileOf ss).length + 1) (fileOf ss) [] = ⟨ss.map Stored.chunk, none⟩ :=
  ⟨fileOf_length_ge ss, loadChunks_concat_fileFuel ss h⟩

/-- the loop bound is a device of the model only: on every input (well-formed or not) the result
    of `load_changes` does not depend on it once it exceeds the input length, because a successful
    `Chunk::parse` consumes at least ten bytes. -/
theorem C12_loadChunks_fuel_irrelevant (bodyOk : Nat → Bytes → Bool) (f1 f2 : Nat) (data : Bytes)
    (acc : List Chunk) (h1 : data.length < f1) (h2 : data.length < f2) :
    loadChunks bodyOk f1 data acc = loadChunks bodyOk f2 data acc :=
  loadChunks_fuel_irrelevant bodyOk f1 f2 data acc h1 h2

/-- "one save and the save_incremental/save_after outputs written after it loads …": `load`, in
    either partial-load mode, on the concatenation of a first well-formed chunk and any number of
    further ones succeeds with exactly those chunks, in order. -/
theorem C12_loadFile_concat (bodyOk : Nat → Bytes → Bool) (s : Stored) (ss : List Stored)
    (h : ∀ t ∈ s :: ss, t.WF bodyOk) (mode : OnPartial) :
    loadFile bodyOk mode (fileOf (s :: ss)) = .ok ((s :: ss).map Stored.chunk) :=
  loadFile_concat s ss h mode

/-- the hypotheses are satisfiable and the conclusion is about a real file: a document chunk, a
    change chunk and a compressed change (for any stored bytes that inflate) -/
example (data dec : Bytes) (hd : data.length < 2 ^ 64) (hi : Inflate.inflateExact data = some dec) :
    loadFile anyBody .error
      (encodeChunk 0 [7] ++ (encodeChunk 1 [8, 9] ++
        (encodeChunkWith ((chunkHash 1 dec).take 4) 2 data ++ []))) =
    .ok [⟨0, (chunkHash 0 [7]).take 4, [7], [7], chunkHash 0 [7]⟩,
         ⟨1, (chunkHash 1 [8, 9]).take 4, [8, 9], [8, 9], chunkHash 1 [8, 9]⟩,
         ⟨2, (chunkHash 1 dec).take 4, data, dec, chunkHash 1 dec⟩] :=
  C12_loadFile_concat anyBody (.plain 0 [7]) [.plain 1 [8, 9], .compressed data dec]
    (by
      intro t ht
      simp only [List.mem_cons, List.not_mem_nil, or_false] at ht
      rcases ht with rfl | rfl | rfl
      · exact ⟨by decide, by decide, by decide, rfl⟩
      · exact ⟨by decide, by decide, by decide, rfl⟩
      · exact ⟨hd, hi, rfl⟩) .error

set_option maxRecDepth 4000 in
/-- the model run on literal bytes: `encodeChunk 0 [7] ++ encodeChunk 1 [8, 9]`, strict load -/
example : loadFile anyBody .error
      [133, 111, 74, 131, 203, 242, 20, 19, 0, 1, 7, 133, 111, 74, 131, 72, 112, 140, 14, 1, 2, 8, 9] =
    .ok [⟨0, [203, 242, 20, 19], [7], [7], chunkHash 0 [7]⟩,
         ⟨1, [72, 112, 140, 14], [8, 9], [8, 9], chunkHash 1 [8, 9]⟩] := by decide +kernel

end AmVerif.Props.C12Chunks
