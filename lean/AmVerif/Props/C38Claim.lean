import AmVerif.Proofs.Graph
/-
  C38, last sentence seen over TIME — "A local commit that claims a sequence number discards queued
  changes from a conflicting branch of the same actor": once a local commit `c` (with ops, or the
  EMPTY change of `empty_change` / `empty_commit`, which goes through the same `commit_impl`) has
  claimed (actor, seq), NO later sequence of deliveries — in particular not the arrival of the
  dependency a discarded conflicting change was waiting for — ever puts a different change with
  that (actor, seq) into the document, applied or held; `c` itself stays applied, and an empty `c`
  leaves the op list (hence every read) as it was.
  This is the history-level statement behind the driver commands `crdt.local` / `crdt.emptycommit`
  and the scripted generator `generate_reuse` of the crdt engine.
  Property theorems only; helper lemmas are in `AmVerif.Proofs.Graph`.
-/
namespace AmVerif.Props.C38Claim
open AmVerif AmVerif.Crdt

/-- the document after a sequence of `apply_changes` calls (each may fail or succeed) -/
def deliver (d : Doc) (batches : List (List Change)) : Doc :=
  batches.foldl (fun d cs => (applyBatch d cs).1) d

/-- one call keeps every applied change applied -/
theorem applyBatch_applied_mono {d : Doc} (hinv : d.Inv) (cs : List Change) {c : Change}
    (hc : c ∈ d.applied) : c ∈ (applyBatch d cs).1.applied := by
  rcases applyBatch_cases d cs hinv with ⟨_, _, q, heq, _⟩ | ⟨_, topo, _, _, _, _, happ, _⟩
  · rw [heq]; exact hc
  · rw [happ]; exact List.mem_append_left _ hc

theorem deliver_inv {d : Doc} (hinv : d.Inv) (batches : List (List Change)) :
    (deliver d batches).Inv := by
  induction batches generalizing d with
  | nil => exact hinv
  | cons cs rest ih => exact ih (applyBatch_inv d cs hinv)

theorem deliver_applied_mono {d : Doc} (hinv : d.Inv) (batches : List (List Change)) {c : Change}
    (hc : c ∈ d.applied) : c ∈ (deliver d batches).applied := by
  induction batches generalizing d with
  | nil => exact hc
  | cons cs rest ih => exact ih (applyBatch_inv d cs hinv) (applyBatch_applied_mono hinv cs hc)

/-- C38 over time: after the local commit `c`, whatever is delivered afterwards (any number of
    calls, any change lists — stale branches of the same actor, their missing dependencies,
    duplicates), `c` stays applied and every change of the document, applied or held, that carries
    `c`'s actor and sequence number IS `c`. -/
theorem C38_claim_exclusive_forever {d : Doc} {c : Change} (hinv : d.Inv) (hl : LocalOK d c)
    (batches : List (List Change)) :
    let d' := deliver (localCommit d c) batches
    d'.Inv ∧ c ∈ d'.applied ∧
      ∀ x ∈ d'.applied ++ d'.queue, x.actor = c.actor → x.seq = c.seq → x = c := by
  intro d'
  have hinv' : (localCommit d c).Inv := localCommit_inv hinv hl
  have hc0 : c ∈ (localCommit d c).applied := by simp [localCommit]
  have hI : d'.Inv := deliver_inv hinv' batches
  have hc : c ∈ d'.applied := deliver_applied_mono hinv' batches hc0
  refine ⟨hI, hc, fun x hx ha hs => ?_⟩
  exact actorSeq_inj hI.seqNodup hx (List.mem_append_left _ hc) ha hs

/-- an EMPTY local change (`empty_change`) claims its (actor, seq) without touching the op list:
    every read of the document is unchanged -/
theorem C38_empty_change_reads_unchanged (d : Doc) {c : Change} (h : c.ops = []) :
    (localCommit d c).ops = d.ops := by
  simp [localCommit, Doc.ops, h]

/-- non-vacuity on the example document of `Proofs/Graph` (`doc2`: a diamond applied; `e1`, `e2`
    and `b3` = (B, 3) held).  Actor B's EMPTY local change claiming seq 3 meets `LocalOK`; the held
    `b3` carries the same (actor, seq); after the claim, offering `b3` again (with or without the
    other held changes) never brings it back, applied or held. -/
example :
    Ex.doc2.Inv ∧ LocalOK Ex.doc2 ⟨[10], [0xB], 3, 9, [[4]], []⟩ ∧
    Ex.b3 ∈ Ex.doc2.queue ∧ Ex.b3.actor = [0xB] ∧ Ex.b3.seq = 3 ∧
    Ex.b3 ∉ (deliver (localCommit Ex.doc2 ⟨[10], [0xB], 3, 9, [[4]], []⟩) [[Ex.b3], [Ex.e1, Ex.b3]]).applied ++
      (deliver (localCommit Ex.doc2 ⟨[10], [0xB], 3, 9, [[4]], []⟩) [[Ex.b3], [Ex.e1, Ex.b3]]).queue :=
  ⟨by decide, ⟨by decide, by decide, by decide, by decide⟩, by decide, by decide, by decide, by decide⟩

end AmVerif.Props.C38Claim
