import AmVerif.Proofs.Graph
/-
  C38 — "A document never contains two different changes with the same actor and sequence number.
  A change that would create such a pair, applied directly, via load, via sync or queued and later
  released, is rejected or discarded, and the document stays consistent. A local commit that claims
  a sequence number discards queued changes from a conflicting branch of the same actor."
  Property theorems only; helper lemmas are in `AmVerif.Proofs.Graph`.
  Model: `AmVerif.Model.Graph`.  Every ingestion path of the implementation (`apply_changes`,
  `load_incremental`, `merge`, `receive_sync_message`) ends in `apply_changes_batch_log_patches`,
  which is `applyBatch`; "queued and later released" is `applyBatch` followed by further
  `applyBatch` calls.  `Reachable` closes the empty document under `applyBatch` with ARBITRARY
  change lists (no well-formedness assumed: colliding hashes, reused (actor, seq), missing deps)
  and under local commits.
-/
namespace AmVerif.Props.C38
open AmVerif AmVerif.Crdt

/-- C38, first sentence: "A document never contains two different changes with the same actor and
    sequence number." — over applied AND held changes of every reachable document. -/
theorem C38_seq_unique {d : Doc} (hr : Reachable d) {c₁ c₂ : Change}
    (h₁ : c₁ ∈ d.applied ++ d.queue) (h₂ : c₂ ∈ d.applied ++ d.queue)
    (ha : c₁.actor = c₂.actor) (hs : c₁.seq = c₂.seq) : c₁ = c₂ :=
  actorSeq_inj hr.inv.seqNodup h₁ h₂ ha hs

/-- C38, second sentence, "the document stays consistent": whatever is offered and whether the call
    succeeds or fails, the document invariant (distinct hashes, topological order, nothing ready
    held back, distinct (actor, seq)) is preserved. -/
theorem C38_apply_stays_consistent {d : Doc} (hinv : d.Inv) (cs : List Change) :
    (applyBatch d cs).1.Inv :=
  applyBatch_inv d cs hinv

/-- C38, second sentence, "is rejected": a new change (unknown hash) claiming the actor and
    sequence number of a known change — applied or held — is rejected with `DuplicateSeqNumber`;
    nothing is applied and the queue can only lose entries (see C06 for that side effect). -/
theorem C38_conflict_rejected {d : Doc} {c x : Change} (hx : x ∈ d.applied ++ d.queue)
    (ha : x.actor = c.actor) (hs : x.seq = c.seq) (hnew : c.hash ∉ hashes (d.applied ++ d.queue)) :
    ∃ q, applyBatch d [c] = ({ d with queue := q }, .error (.duplicateSeq c.seq c.actor)) ∧
      q.Sublist d.queue :=
  applyBatch_conflict hx ha hs hnew

/-- C38, second sentence in general: "A change that would create such a pair, applied directly, via
    load, via sync or queued and later released, is rejected or discarded".  If `c` differs from a
    known change `x` (applied or held) with the same actor and sequence number, then after ANY
    `apply_changes` call from this state — whatever list is offered, `c` alone, `c` in the middle
    of a batch, `c` together with the changes that release `x` — `c` is neither applied nor held.
    (By `C38_apply_stays_consistent` the hypothesis `d.Inv` holds again afterwards, and `x` is
    still known unless a failing call pruned it, so this iterates over later calls.) -/
theorem C38_conflicting_change_never_enters {d : Doc} (hinv : d.Inv) {c x : Change}
    (hx : x ∈ d.applied ++ d.queue) (ha : x.actor = c.actor) (hs : x.seq = c.seq) (hne : c ≠ x)
    (cs : List Change) :
    c ∉ (applyBatch d cs).1.applied ++ (applyBatch d cs).1.queue :=
  conflicting_never_enters hinv hx ha hs hne cs

/-- C38, second sentence, "or discarded": changes whose hash is already known are ignored. -/
theorem C38_known_discarded {d : Doc} (hinv : d.Inv) {cs : List Change}
    (hk : ∀ c ∈ cs, c.hash ∈ hashes (d.applied ++ d.queue)) : applyBatch d cs = (d, .ok ()) :=
  applyBatch_known hinv hk

/-- C38, third sentence: "A local commit that claims a sequence number discards queued changes from
    a conflicting branch of the same actor." — exactly the branch (`InBranch`: held changes of the
    actor with seq ≥ the claimed one, and held changes transitively depending on them) goes; the
    invariant survives, so the new change's (actor, seq) is unique in the document. -/
theorem C38_local_commit_prunes {d : Doc} {c : Change} (hinv : d.Inv) (hl : LocalOK d c) :
    (∀ x, x ∈ (localCommit d c).queue ↔ x ∈ d.queue ∧ ¬ InBranch d.queue c.actor c.seq x.hash) ∧
    (∀ x ∈ (localCommit d c).queue, ¬ (x.actor = c.actor ∧ c.seq ≤ x.seq)) ∧
    (localCommit d c).Inv := by
  refine ⟨fun x => mem_removeActorBranchFrom, ?_, localCommit_inv hinv hl⟩
  intro x hx ⟨h1, h2⟩
  have := mem_removeActorBranchFrom.mp hx
  exact this.2 (.base this.1 h1 h2)

/-- non-vacuity.  `doc2` (diamond applied; `e1`, `e2`, `b3` held) is reachable.  Offering `b1'`,
    a different change claiming (B, 1), fails with `DuplicateSeqNumber(1, B)` and applies nothing;
    re-offering the known `b1` and `e1` is a no-op.  A local commit by actor E with seq … is not
    possible here (E has nothing applied), so the pruning example uses actor B claiming seq 3:
    the held `b3` (B, 3) is discarded, `e1`/`e2` stay. -/
example :
    Reachable Ex.doc2 ∧ Ex.doc2.queue = [Ex.e2, Ex.e1, Ex.b3] ∧
    (applyBatch Ex.doc2 [Ex.b1']).2 = .error (.duplicateSeq 1 [0xB]) ∧
    (applyBatch Ex.doc2 [Ex.b1']).1.applied = Ex.doc2.applied ∧
    applyBatch Ex.doc2 [Ex.b1, Ex.e1] = (Ex.doc2, .ok ()) ∧
    Ex.b1' ∉ (applyBatch Ex.doc2 [Ex.m0, Ex.b1']).1.applied ++ (applyBatch Ex.doc2 [Ex.m0, Ex.b1']).1.queue ∧
    (localCommit Ex.doc2 ⟨[10], [0xB], 3, 9, [[4]], []⟩).queue = [Ex.e2, Ex.e1] :=
  ⟨Ex.doc2_reachable, by decide, by decide, by decide, by decide, by decide, by decide⟩

example : LocalOK Ex.doc2 ⟨[10], [0xB], 3, 9, [[4]], []⟩ :=
  ⟨by decide, by decide, by decide, by decide⟩

end AmVerif.Props.C38
