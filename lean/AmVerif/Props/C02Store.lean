import AmVerif.Proofs.StoreFull
/-
  C02 (op store) — "For every history, the visible state equals an independent reading of its
  operation set, in which every map key and list element is a multi-value register whose values are
  the operations not named as predecessor by a later delete, overwrite or non-counter increment,
  with the greatest (counter, actor) id winning. List and text order follows RGA, with higher-id
  siblings first. A counter reads as its initial value plus every increment that names it as
  predecessor."

  `Props/C02.lean` pins the independent reading `Spec` to these words.  This file closes the gap
  between that reading and the Rust op store: `AmVerif.Model.Store` is the model of
  `op_set2::OpSet` + `BatchApply` (rows in the code's order, successor lists with the increment
  index, index columns; tied to the real store row by row by the `store` engine through the hook
  `Automerge::verif_dump_ops`), and here every read taken from the rows of a store that was built by
  `insertRemote` under causal delivery is proved equal to the `Spec` reading of the op set.
  Property theorems only; helper lemmas are in `AmVerif.Proofs.Store*`.
-/
namespace AmVerif.Props.C02Store
open AmVerif AmVerif.Crdt

/-! ### the example history: a map key with conflicting puts, a counter with increments, a list with
    concurrent siblings, overwritten and deleted elements -/

def A : Bytes := [1]
def B : Bytes := [2]
def lst : ObjId := .id ⟨1, A⟩
def mkL : Op := ⟨⟨1, A⟩, .root, .map [108], false, .make .list, []⟩
def ctr : Op := ⟨⟨2, A⟩, .root, .map [99], false, .put (.counter 10), []⟩
def insX : Op := ⟨⟨3, A⟩, lst, .head, true, .put (.str [120]), []⟩
/-- `y` (actor A) and `z` (actor B) inserted concurrently behind `x`; `w` behind `y` -/
def insY : Op := ⟨⟨4, A⟩, lst, .elem ⟨3, A⟩, true, .put (.str [121]), []⟩
def insZ : Op := ⟨⟨4, B⟩, lst, .elem ⟨3, A⟩, true, .put (.str [122]), []⟩
def insW : Op := ⟨⟨5, A⟩, lst, .elem ⟨4, A⟩, true, .put (.str [119]), []⟩
/-- concurrent overwrites of element `x`, a delete of `z`, increments of the counter (one of them
    also naming a plain put, which it deletes) -/
def setX1 : Op := ⟨⟨6, A⟩, lst, .elem ⟨3, A⟩, false, .put (.int 7), [⟨3, A⟩]⟩
def setX2 : Op := ⟨⟨5, B⟩, lst, .elem ⟨3, A⟩, false, .put (.counter 1), [⟨3, A⟩]⟩
def delZ : Op := ⟨⟨7, A⟩, lst, .elem ⟨4, B⟩, false, .del, [⟨4, B⟩]⟩
def inc3 : Op := ⟨⟨8, A⟩, .root, .map [99], false, .inc 3, [⟨2, A⟩]⟩
def putC : Op := ⟨⟨6, B⟩, .root, .map [99], false, .put (.int 0), []⟩
def inc4 : Op := ⟨⟨7, B⟩, .root, .map [99], false, .inc 4, [⟨2, A⟩, ⟨6, B⟩]⟩
def incX : Op := ⟨⟨8, B⟩, lst, .elem ⟨3, A⟩, false, .inc 2, [⟨5, B⟩]⟩

/-- one causally admissible application order … -/
def h1 : List Op := [mkL, ctr, insX, insY, insZ, insW, setX1, setX2, delZ, inc3, putC, inc4, incX]
/-- … and another one of the same ops (actor B's ops early, the concurrent siblings swapped) -/
def h2 : List Op := [mkL, insX, insZ, setX2, incX, ctr, putC, inc4, insY, delZ, insW, inc3, setX1]

/-- the width function of the examples (`Op::width`, one unit per op) -/
def w1 : Op → Nat := fun _ => 1

/-! ### `insertRemote` keeps the store in the code's order with exact successor lists -/

/-- "the Rust op store … `BatchApply` that inserts the ops of incoming changes": inserting an op
    whose predecessors and reference element are already in the store (causal delivery: `Fresh`)
    into a store that holds the ops `ops` in the code's order (`canon ops`: by object; inside a map
    by key bytes then id; inside a sequence each element followed by its updates in id order, the
    elements in RGA order) with exact successor lists (`succOf`: the ops naming the row as
    predecessor, ascending by id, an increment recorded with its amount only on a counter) gives
    the store of `ops ++ [N]` with the same properties; the ops held are the old ones plus `N`
    (a delete is not stored, it only leaves successor entries). -/
theorem C02_insertRemote_inv (w : Op → Nat) (ops : List Op) (s : Store) (N : Op)
    (hw : OpsWF (ops ++ [N])) (hf : Fresh ops N) (hi : StoreInv ops s) :
    StoreInv (ops ++ [N]) (insertRemote w s N) ∧
    ((insertRemote w s N).map (·.op)).Perm (s.map (·.op) ++ (if N.isDel then [] else [N])) :=
  ⟨insertRemote_inv hw hf hi, insertRemote_perm s N⟩

/-- the example order is admissible, so every prefix satisfies the hypotheses above -/
example : Admissible h1 ∧ Admissible h2 := ⟨admissibleB_sound (by decide), admissibleB_sound (by decide)⟩

/-- the rows of the example store: the root map by key bytes then id; in the list, `x` (3@A) is
    followed by its two updates and the increment in id order, then its children by descending id:
    `z` (4@B) first, then `y` (4@A) with its child `w` (5@A) -/
example : (buildStore w1 h1).map (fun r => r.op.id) =
    [⟨2, A⟩, ⟨6, B⟩, ⟨7, B⟩, ⟨8, A⟩, ⟨1, A⟩, ⟨3, A⟩, ⟨5, B⟩, ⟨6, A⟩, ⟨8, B⟩, ⟨4, B⟩, ⟨4, A⟩, ⟨5, A⟩] := by
  decide

/-- … and the successor lists: the counter keeps both increments with their amounts, the plain
    put named by `inc4` has a plain successor (`normalize_increment_successors`) -/
example : ((buildStore w1 h1).filter (fun r => r.op.key == .map [99])).map (·.succ) =
    [[(⟨7, B⟩, some 4), (⟨8, A⟩, some 3)], [(⟨7, B⟩, none)], [], []] := by decide

/-- **the RGA insertion lemma in general position** ("list and text order follows RGA, with
    higher-id siblings first"): one more insert op — greater than its reference element, but not
    necessarily than its concurrent siblings — goes behind its reference element and behind every
    following element up to the first one with a smaller id.  This is the scan the store performs
    (`skipGt`), and it is what the specification's depth-first order gives. -/
theorem C02_rga_insert_general (ops : List Op) (N : Op) (hs : StrictIds (ops ++ [N]))
    (hr : RefsSmaller (ops ++ [N])) (hnr : ∀ x ∈ ops ++ [N], x.insert = true → x.key ≠ .elem N.id)
    (hi : N.insert = true) :
    rgaOrder (ops ++ [N]) N.obj =
      if N.key = .head then skipGtL N (rgaOrder ops N.obj) else insSkip N (rgaOrder ops N.obj) :=
  rgaOrder_insert_general hs hr hnr hi

/-- a child `v` of `z` -/
def insV : Op := ⟨⟨5, B⟩, lst, .elem ⟨4, B⟩, true, .put (.str [118]), []⟩

/-- `y` (4@A) arrives after its greater sibling `z` (4@B) and `z`'s child `v` (5@B): it skips both -/
example : rgaOrder ([mkL, insX, insZ, insV] ++ [insY]) lst = [insX, insZ, insV, insY] ∧
    insSkip insY (rgaOrder [mkL, insX, insZ, insV] lst) = [insX, insZ, insV, insY] := by decide

/-! ### the store refines the specification -/

/-- "the visible state equals an independent reading of its operation set": for a store holding
    the ops `ops` in the code's order with exact successor lists,
    * a set / make row is visible by the code's rule (`Op::visible`: no successor, or — for a
      counter — only increment successors) iff the specification says so (not named as predecessor
      by a delete, overwrite or non-counter increment);
    * the register of every map key and of every sequence element read from the rows IN STORE
      ORDER is the specification's register (ascending id, the winner last, counters with their
      increments added);
    * the insert ops of every sequence object appear in the store in the specification's RGA order;
    * the keys of every map, the visible elements of every sequence and the rendered document are
      the specification's. -/
theorem C02_store_refines_spec (ops : List Op) (s : Store) (hw : OpsWF ops) (hi : StoreInv ops s) :
    (∀ r ∈ s, r.op.isValue = true → r.isVisible = visible ops r.op) ∧
    (∀ r ∈ s, rowEntry r = entryOf ops r.op) ∧
    (∀ obj k, storeMapRegister s obj k = mapRegister ops obj k) ∧
    (∀ obj e, storeElemRegister s obj e = elemRegister ops obj e) ∧
    (∀ obj, storeSeqOrder s obj = rgaOrder ops obj) ∧
    (∀ obj, storeMapKeys s obj = mapKeys ops obj) ∧
    (∀ obj, storeSeqElems s obj = seqElems ops obj) ∧
    (∀ fuel obj ty, storeShowObj s fuel obj ty = showObj ops fuel obj ty) ∧
    storeShowDoc s (ops.length + 1) = showDoc ops :=
  ⟨fun r hr hv => rowVisible_eq (hi.succ r hr) hv, fun r hr => rowEntry_eq (hi.succ r hr),
   storeMapRegister_eq hw hi, storeElemRegister_eq hw hi, storeSeqOrder_eq hw hi,
   storeMapKeys_eq hw hi, storeSeqElems_eq hw hi, storeShowObj_eq hw hi, storeShowDoc_eq hw hi⟩

/-- **C02 for the op store**: the document read from the rows of ANY store built by
    `insertRemote` in a causally admissible order is the specification's reading of the ops. -/
theorem C02_store_state_eq_interp (w : Op → Nat) (ops : List Op) (h : Admissible ops) :
    storeShowDoc (buildStore w ops) (ops.length + 1) = showDoc ops :=
  storeShowDoc_eq h.wf (buildStore_inv w h)

/-- the example: the counter reads 10 + 3 + 4, the plain put named by an increment is gone, element
    `x` holds the two concurrent values (the counter 1 + 2), `z` is deleted, order x y w -/
example : storeShowDoc (buildStore w1 h1) (h1.length + 1) = showDoc h1 ∧
    showDoc h1 = "M{63=2@01:c17;6c=1@01:L[5@02:c3|6@01:i7;4@01:s79;5@01:s77]}" := by decide

/-! ### the index columns: every fast indexed read equals the slow walk -/

/-- "the `visible` / `top` / `text` index columns": the three columns that `insertRemote` maintains
    incrementally — `add_succ` clears the flags of a row that gets a plain successor, the `Top`
    state machine of `batch.rs` with `OpSet::conflict` / `expose` moves the winner flag of the
    register, `Columns::splice` writes the flags of the new row — equal their from-scratch
    definitions after the op if they did before:
    `visibleCol` (`Op::visible` of every row), `topCol` (`IndexBuilder::flush`: the last visible row
    of every run of rows of one register), `widthCol` (the width of the `top` rows, none elsewhere).
    Hypotheses: causal delivery, and the op names predecessors of its own register only. -/
theorem C02_index_columns_maintained (w : Op → Nat) (ops : List Op) (s : Store) (N : Op)
    (hw : OpsWF (ops ++ [N])) (hf : Fresh ops N) (hp : PredsInReg ops N) (hi : StoreInv ops s)
    (hidx : IndexInv w s) : IndexInv w (insertRemote w s N) :=
  insertRemote_indexOk hw hf hp hi hidx.1 hidx.2.1 hidx.2.2.2

/-- the `visible` column needs no hypothesis at all -/
theorem C02_visible_column_maintained (w : Op → Nat) (s : Store) (N : Op)
    (h : s.map (·.vis) = visibleCol s) :
    (insertRemote w s N).map (·.vis) = visibleCol (insertRemote w s N) :=
  insertRemote_visibleCol w s N h

/-- hence every store built in a causally admissible order has exact index columns -/
theorem C02_store_index_exact (w : Op → Nat) (ops : List Op) (h : Admissible ops) (hp : PredsOk ops) :
    IndexInv w (buildStore w ops) ∧ indexOk w (buildStore w ops) = true :=
  ⟨buildStore_index w h hp, indexInv_indexOk (buildStore_index w h hp)⟩

/-- "`IndexBuilder`'s run-based `top`": on a store in the code's order the rows of one register are
    contiguous, so "last visible row of the run" is "visible, and no visible row of the register
    anywhere behind" — what `top_ops`, `keys`, `seek_list_ops_by_index_fast` rely on. -/
theorem C02_top_is_last_visible (ops : List Op) (s : Store) (hw : OpsWF ops) (hi : StoreInv ops s) :
    topCol s = topAny s ∧ NoReturn (s.map (·.op)) :=
  ⟨storeInv_topCol hw hi, by rw [hi.order]; exact canon_noReturn hw hi.complete⟩

/-- the example: `PredsOk`, exact columns, and the columns themselves (the counter 2@A stays `top`
    with its increments; of the two values of `x` the greater id 6@A is `top`; the deleted `z` has
    no flag) -/
example : PredsOk h1 ∧ indexOk w1 (buildStore w1 h1) = true ∧
    (buildStore w1 h1).map (fun r => (r.op.id, r.vis, r.top, r.width)) =
      [(⟨2, A⟩, true, true, some 1), (⟨6, B⟩, false, false, none), (⟨7, B⟩, false, false, none),
       (⟨8, A⟩, false, false, none), (⟨1, A⟩, true, true, some 1), (⟨3, A⟩, false, false, none),
       (⟨5, B⟩, true, false, none), (⟨6, A⟩, true, true, some 1), (⟨8, B⟩, false, false, none),
       (⟨4, B⟩, false, false, none), (⟨4, A⟩, true, true, some 1), (⟨5, A⟩, true, true, some 1)] := by
  decide

end AmVerif.Props.C02Store
