import AmVerif.Props.C09
import AmVerif.Props.C15Ids
import AmVerif.Props.C03
import AmVerif.Props.C10
/-
  C37 — Public API calls never panic.
  "No public call panics, whatever its arguments. Unknown object ids, out-of-range indexes or ranges,
  unknown or non-antichain heads, wrong object kinds and reversed mark ranges produce errors or empty
  results. Values the library itself produced, such as patches passed to
  hydrate::Value::apply_patches, are always accepted."

  A theorem can only speak about the MODELLED entry points (their Rust panic sites are explicit
  `Outcome.panic` branches or `Except` errors of the model); the rest of the API surface is exercised
  by the engines under `catch_unwind` (exploration), which is why the property is claimed at level
  `other`.  The theorems below restate, under C37's wording, results proved in the slices that
  model each entry point.
-/
namespace AmVerif.Props.C37
open AmVerif AmVerif.Crdt

/-- unknown / malformed object ids given as strings: `import` = `import_obj` + resolution never
    panics (D1, D8 were panics here before the fixes) -/
theorem C37_import_and_resolve_no_panic (actors : List Ids.Actor) (s : Bytes) (p : PanicSite) :
    (match Ids.importObj actors s with
     | .ok e => Ids.exidToOpid actors e
     | .err x => .err x
     | .panic q => .panic q) ≠ .panic p :=
  AmVerif.Props.C15Ids.import_then_resolve_no_panic actors s p

/-- any object id value (any counter, any actor, any index hint) resolves to an op id or an error -/
theorem C37_objid_resolution_no_panic (actors : List Ids.Actor) (e : Ids.ExId) (p : PanicSite) :
    Ids.exidToOpid actors e ≠ .panic p :=
  AmVerif.Props.C15Ids.exidToOpid_no_panic actors e p

/-- any cursor (any counter, any actor) resolves to an op id or an error -/
theorem C37_cursor_resolution_no_panic (actors : List Ids.Actor) (ctr : Nat) (a : Ids.Actor) (p : PanicSite) :
    Ids.opCursorToOpid actors ctr a ≠ .panic p :=
  AmVerif.Props.C15Ids.opCursorToOpid_no_panic actors ctr a p

/-- editing calls with unknown objects, wrong key kinds, out-of-range indexes or non-counter
    increments return one of the four documented errors — the model of `local_op` has no other
    failure mode -/
theorem C37_edit_errors_are_errors (e : Enc) (ops : List Op) (t : Tx) (obj : ObjId)
    (prop : Sum Bytes Nat) (a : Action) (ck : Bool) (err : EditErr)
    (h : localPut e ops t obj prop a ck = .error err) :
    err = .objid ∨ err = .invalidOp ∨ err = .index ∨ err = .missingCounter :=
  AmVerif.Props.C03.C03_put_error_only e ops t obj prop a ck err h

/-- unknown heads are ignored by historical reads (they contribute no ancestors) -/
theorem C37_unknown_heads_ignored (d : Doc) (hinv : d.Inv) (have_ : List Hash) :
    AmVerif.Crdt.getChanges d have_ = AmVerif.Crdt.getChanges d (have_.filter d.hasChange) :=
  AmVerif.Props.C10.C10_unknown_hashes_ignored d hinv have_

/-- patches the library produced: the map applier never panics, whatever the patch … -/
theorem C37_apply_patches_map_no_panic (es : List (Bytes × Bool × HView)) (a : PatchAction) :
    (applyMap es a).isPanic = false :=
  AmVerif.Props.C09.C37_applyMap_no_panic es a

/-- … and a `Mark` patch on a text is accepted (D13: `todo!()` before the fix) -/
theorem C37_apply_mark_accepted (e : Enc) (us : List Nat) (obj : ObjId) :
    applyPatch e (.text us) ⟨obj, [], .mark⟩ = .ok (.text us) :=
  AmVerif.Props.C09.C37_apply_mark_accepted e us obj

end AmVerif.Props.C37
