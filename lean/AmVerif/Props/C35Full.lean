import AmVerif.Proofs.HexaneFullUniq
import AmVerif.Proofs.HexaneFullDelta
import AmVerif.Proofs.HexaneFullBool
import AmVerif.Proofs.HexaneFullDomain
/-
  C35 — Hexane encodings round-trip and reject bad data safely: the theorems that close the two
  PARTIAL statements of `AmVerif.Props.C35` (`C35_delta_roundtrip_partial`,
  `C35_load_save_load_partial`, both kept there and marked superseded) and add the boolean column.
  Property theorems only; helper lemmas are in
  `AmVerif.Proofs.HexaneFull{Leb,Parse,Uniq,Delta,Bool,Domain}`.
  Model: `AmVerif.Model.HexaneCodec` (unchanged).

  * first sentence, delta columns: `C35_delta_roundtrip` runs the REAL loader model of
    `DeltaColumn::load` (`Weight.delta lo hi`: the checked per-slab offsets of `accumulate_run`, the
    slab cut every 32 segments, the `i128` domain walk of `load_with`) on the encoder's bytes.
    Hypothesis = the documented `DeltaValue` contract as a decidable condition (`deltaWindow`):
    every value in `T::MIN_I64 ..= T::MAX_I64` and all values inside a 2^63-wide range
    (`max - min < 2^63`; for the unsigned types and `i32` the domain itself is such a range, so only
    `Option<i64>` / `i64` columns have a genuine extra condition).
  * first sentence, boolean columns: `C35_bool_roundtrip` (both loader paths).
  * second sentence ("reject bad data"), delta columns: `C35_delta_load_in_domain` — the domain
    walk is sound: an accepted load has every realized value in `T::MIN_I64 ..= T::MAX_I64`.
  * third sentence: `C35_load_valid` derives the two former side conditions from the load itself;
    `C35_load_save_load` needs no side condition at all — no validity hypothesis, no length bound,
    every weight function (plain, prefix `u64` accumulator, wide prefix, delta): canonical segment
    lists are unique, so the second load sees the very segments of the first and repeats its
    bookkeeping.  (The bound `xs.length < 2^63` of the FIRST sentence stays: an arbitrary value list
    with a run of 2^63 equal values has no encoding — run counts are written as positive `i64`;
    a loaded list never contains one, while it can well be longer than 2^63 items, see the example.)
-/
namespace AmVerif.Props.C35Full
open AmVerif AmVerif.Hexane

/-! ## first sentence: delta columns through `DeltaColumn::load`'s own bookkeeping -/

/-- "Saving a column and loading the bytes gives the same values", `DeltaColumn<T>`: the loader
    with ITS OWN bookkeeping (`Weight.delta lo hi`) returns the original values whenever they
    respect the `DeltaValue` domain contract.  `deltaDom lo hi`: the type's bounds lie in `i64` and
    contain 0 (true of every `DeltaValue` impl); `deltaWindow nullable lo hi xs`: nulls only in
    nullable columns, every value in `lo ..= hi`, `max - min < 2^63`. -/
theorem C35_delta_roundtrip (nullable : Bool) (lo hi : Int) (hd : deltaDom lo hi = true)
    (xs : List (Option Int)) (hlen : xs.length < two63) (hw : deltaWindow nullable lo hi xs = true) :
    deltaDecode nullable lo hi (deltaEncode xs) = .ok xs :=
  deltaDecode_encode nullable lo hi hd xs hlen hw

/-- `DeltaColumn<u64>`, `<usize>` (64-bit) and their `Option`s: domain `0 ..= i64::MAX` — the domain
    is itself 2^63 wide, the window condition is just "every value `< 2^63`" -/
theorem C35_delta_roundtrip_u64 (nullable : Bool) (xs : List (Option Int)) (hlen : xs.length < two63)
    (hw : deltaWindow nullable 0 (2 ^ 63 - 1) xs = true) :
    deltaDecode nullable 0 (2 ^ 63 - 1) (deltaEncode xs) = .ok xs :=
  C35_delta_roundtrip nullable _ _ (by decide) xs hlen hw

theorem C35_delta_roundtrip_u32 (nullable : Bool) (xs : List (Option Int)) (hlen : xs.length < two63)
    (hw : deltaWindow nullable 0 (2 ^ 32 - 1) xs = true) :
    deltaDecode nullable 0 (2 ^ 32 - 1) (deltaEncode xs) = .ok xs :=
  C35_delta_roundtrip nullable _ _ (by decide) xs hlen hw

theorem C35_delta_roundtrip_i32 (nullable : Bool) (xs : List (Option Int)) (hlen : xs.length < two63)
    (hw : deltaWindow nullable (-(2 ^ 31)) (2 ^ 31 - 1) xs = true) :
    deltaDecode nullable (-(2 ^ 31)) (2 ^ 31 - 1) (deltaEncode xs) = .ok xs :=
  C35_delta_roundtrip nullable _ _ (by decide) xs hlen hw

/-- `DeltaColumn<i64>` / `<Option<i64>>`: the domain is all of `i64`, the window condition
    `max - min < 2^63` is the genuine restriction -/
theorem C35_delta_roundtrip_i64 (nullable : Bool) (xs : List (Option Int)) (hlen : xs.length < two63)
    (hw : deltaWindow nullable (-(2 ^ 63)) (2 ^ 63 - 1) xs = true) :
    deltaDecode nullable (-(2 ^ 63)) (2 ^ 63 - 1) (deltaEncode xs) = .ok xs :=
  C35_delta_roundtrip nullable _ _ (by decide) xs hlen hw

/-- non-vacuity, `DeltaColumn<Option<u64>>`: both ends of the window (0 and 2^63-1, i.e. the
    extreme deltas ±(2^63-1)), nulls, a run of three equal deltas (5, 10, 15, 20) -/
example :
    deltaWindow true 0 (2 ^ 63 - 1)
      [some 0, some (2 ^ 63 - 1), none, some 5, some 10, some 15, some 20, none, none, some (2 ^ 63 - 1), some 0]
      = true := by decide

example :
    (match deltaDecode true 0 (2 ^ 63 - 1) (deltaEncode
        [some 0, some (2 ^ 63 - 1), none, some 5, some 10, some 15, some 20, none, none, some (2 ^ 63 - 1), some 0]) with
     | .ok xs => xs == [some 0, some (2 ^ 63 - 1), none, some 5, some 10, some 15, some 20, none, none, some (2 ^ 63 - 1), some 0]
     | _ => false) = true := by decide

/-- non-vacuity, `DeltaColumn<Option<i64>>`: a window that does not contain 0
    (`i64::MIN ..= -1`, width 2^63 - 1) -/
example :
    deltaWindow true (-(2 ^ 63)) (2 ^ 63 - 1) [some (-(2 ^ 63)), some (-1), none, some (-(2 ^ 63))] = true ∧
    (match deltaDecode true (-(2 ^ 63)) (2 ^ 63 - 1) (deltaEncode [some (-(2 ^ 63)), some (-1), none, some (-(2 ^ 63))]) with
     | .ok xs => xs == [some (-(2 ^ 63)), some (-1), none, some (-(2 ^ 63))]
     | _ => false) = true := by decide

set_option maxRecDepth 4000 in
/-- non-vacuity across slab cuts: 40 literal segments (the squares 0, 1, 4, …, 1521; the loader cuts a
    slab after every 32 segments, so the domain walk sees two slab weights) -/
example :
    (match deltaDecode false 0 (2 ^ 63 - 1) (deltaEncode ((List.range 40).map (fun k => some ((k * k : Nat) : Int)))) with
     | .ok xs => xs == (List.range 40).map (fun k => some ((k * k : Nat) : Int))
     | _ => false) = true := by decide

/-- the window hypothesis is what the code documents, and it is sharp at the width: `-1` and
    `i64::MAX` are 2^63 apart, their difference is not an `i64` (the real `deltas_from` overflows
    there; the condition is false) -/
example : deltaWindow true (-(2 ^ 63)) (2 ^ 63 - 1) [some (-1), some (2 ^ 63 - 1)] = false := by decide

/-- the domain walk does reject what is outside the type's domain: `2^32` in a `DeltaColumn<u32>`,
    `-1` in the middle of one (`InvalidValue`, not a panic) -/
example :
    ([ [some (2 ^ 32)], [some 5, some (-1), some 7] ].all (fun xs =>
      match deltaDecode false 0 (2 ^ 32 - 1) (deltaEncode xs) with | .err .value => true | _ => false)) = true := by
  decide

/-- "Reject bad data", `DeltaColumn::load`: the per-slab aggregates and the domain walk are SOUND —
    whatever the loader accepts has every realized value inside the type's domain
    `lo ..= hi` (`T::MIN_I64 ..= T::MAX_I64`); out-of-domain data is therefore always an error
    (together with `C35_decode_total`: an error or one of the explicit panic sites, never a
    column with an unrepresentable value).  Any bytes, any `lo`, `hi`. -/
theorem C35_delta_load_in_domain (nullable : Bool) (lo hi : Int) (bs : Bytes) (xs : List (Option Int))
    (hload : deltaDecode nullable lo hi bs = .ok xs) : ∀ v, some v ∈ xs → lo ≤ v ∧ v ≤ hi :=
  deltaDecode_in_domain nullable lo hi bs xs hload

/-- non-vacuity: a `DeltaColumn<u32>` load that is accepted (a run that climbs to `u32::MAX` in
    three steps and comes back: deltas `03 d5aad5aa05` then `7f 8180808070`), and the same bytes with
    one more step up, rejected by the domain walk -/
example :
    (match deltaDecode false 0 (2 ^ 32 - 1) [0x03, 0xd5, 0xaa, 0xd5, 0xaa, 0x05, 0x7f, 0x81, 0x80, 0x80, 0x80, 0x70] with
     | .ok xs => xs == [some 1431655765, some 2863311530, some 4294967295, some 0] | _ => false) = true ∧
    (match deltaDecode false 0 (2 ^ 32 - 1) [0x04, 0xd5, 0xaa, 0xd5, 0xaa, 0x05] with
     | .err .value => true | _ => false) = true := by decide

/-! ## first sentence: boolean columns -/

/-- "Saving a column and loading the bytes gives the same values", `Column<bool>`
    (`checked = false`, the drain loop of `finalize`) and `PrefixColumn<bool>` (`checked = true`,
    the streaming path): the alternating run lengths are read back and expand to the values. -/
theorem C35_bool_roundtrip (checked : Bool) (xs : List Bool) (hlen : xs.length < two64) :
    boolDecode checked (boolEncode xs) = .ok xs :=
  boolDecode_encode checked xs hlen

/-- non-vacuity: a column starting with `true` (leading zero-length `false` run) -/
example : boolEncode [true, true, false, true] = [0, 2, 1, 1] := by decide
example :
    (match boolDecode false [0, 2, 1, 1] with | .ok xs => xs == [true, true, false, true] | _ => false) = true := by
  decide

/-! ## third sentence -/

/-- The two side conditions of `C35_load_save_load_partial`, derived from the load: every value a
    load returns is a value of the type (`Sound`: what `try_unpack` returns is `Valid`), and nulls
    only come out of loads of nullable columns.  Any weight function. -/
theorem C35_load_valid {α : Type} [DecidableEq α] {c : ValCodec α} {Valid : α → Prop}
    (snd : Sound c Valid) (nullable : Bool) (w : Weight) (num : α → Int) (bs : Bytes)
    (xs : List (Option α)) (hload : rleDecode c nullable w num bs = .ok xs) :
    ListValid Valid nullable xs :=
  rleDecode_valid snd nullable w num bs xs hload

/-- the concrete codecs: `u64` (`< 2^64`), `u32` (range-checked), `i64`, byte strings (length fits a
    `u64`), strings (UTF-8-checked) -/
theorem C35_load_valid_u64 (nullable : Bool) (w : Weight) (num : Nat → Int) (bs : Bytes) (xs : List (Option Nat))
    (h : rleDecode cU64 nullable w num bs = .ok xs) : ListValid validU64 nullable xs :=
  C35_load_valid sound_u64 nullable w num bs xs h

theorem C35_load_valid_u32 (nullable : Bool) (w : Weight) (num : Nat → Int) (bs : Bytes) (xs : List (Option Nat))
    (h : rleDecode cU32 nullable w num bs = .ok xs) : ListValid validU32 nullable xs :=
  C35_load_valid sound_u32 nullable w num bs xs h

theorem C35_load_valid_i64 (nullable : Bool) (w : Weight) (num : Int → Int) (bs : Bytes) (xs : List (Option Int))
    (h : rleDecode cI64 nullable w num bs = .ok xs) : ListValid validI64 nullable xs :=
  C35_load_valid sound_i64 nullable w num bs xs h

theorem C35_load_valid_bytes (nullable : Bool) (w : Weight) (num : Bytes → Int) (bs : Bytes) (xs : List (Option Bytes))
    (h : rleDecode cBytes nullable w num bs = .ok xs) : ListValid validBytes nullable xs :=
  C35_load_valid sound_bytes nullable w num bs xs h

theorem C35_load_valid_str (nullable : Bool) (w : Weight) (num : Bytes → Int) (bs : Bytes) (xs : List (Option Bytes))
    (h : rleDecode cStr nullable w num bs = .ok xs) : ListValid validStr nullable xs :=
  C35_load_valid sound_str nullable w num bs xs h

/-- non-vacuity of `C35_load_valid`: a load that succeeds, and loads the checks reject -/
example :
    (match rleDecode cU32 true .len (fun n => (n : Int)) [0x7e, 0xff, 0xff, 0xff, 0xff, 0x0f, 0x05, 0x00, 0x02] with
     | .ok xs => xs == [some (2 ^ 32 - 1), some 5, none, none] | _ => false) = true ∧
    (match rleDecode cU32 true .len (fun n => (n : Int)) [0x7f, 0x80, 0x80, 0x80, 0x80, 0x10] with
     | .err .value => true | _ => false) = true ∧
    (match rleDecode cU32 false .len (fun n => (n : Int)) [0x00, 0x02] with
     | .err .value => true | _ => false) = true := by decide

/-- "Whatever a load returned re-encodes to bytes that load to the same values": full strength —
    no hypothesis besides the load itself, every RLE value type with a lawful and sound codec, nullable
    or not, every weight function (also `PrefixColumn<u32>`'s `u64` accumulator and the delta
    bookkeeping), lists of any length. -/
theorem C35_load_save_load {α : Type} [DecidableEq α] {c : ValCodec α} {Valid : α → Prop}
    (law : Lawful c Valid) (snd : Sound c Valid) (nullable : Bool) (w : Weight) (num : α → Int)
    (bs : Bytes) (xs : List (Option α)) (hload : rleDecode c nullable w num bs = .ok xs) :
    rleDecode c nullable w num (rleEncode c xs) = .ok xs :=
  rleDecode_reencode law snd nullable w num bs xs hload

theorem C35_load_save_load_u64 (nullable : Bool) (w : Weight) (num : Nat → Int) (bs : Bytes) (xs : List (Option Nat))
    (h : rleDecode cU64 nullable w num bs = .ok xs) : rleDecode cU64 nullable w num (rleEncode cU64 xs) = .ok xs :=
  C35_load_save_load lawful_u64 sound_u64 nullable w num bs xs h

theorem C35_load_save_load_u32 (nullable : Bool) (w : Weight) (num : Nat → Int) (bs : Bytes) (xs : List (Option Nat))
    (h : rleDecode cU32 nullable w num bs = .ok xs) : rleDecode cU32 nullable w num (rleEncode cU32 xs) = .ok xs :=
  C35_load_save_load lawful_u32 sound_u32 nullable w num bs xs h

theorem C35_load_save_load_i64 (nullable : Bool) (w : Weight) (num : Int → Int) (bs : Bytes) (xs : List (Option Int))
    (h : rleDecode cI64 nullable w num bs = .ok xs) : rleDecode cI64 nullable w num (rleEncode cI64 xs) = .ok xs :=
  C35_load_save_load lawful_i64 sound_i64 nullable w num bs xs h

theorem C35_load_save_load_bytes (nullable : Bool) (w : Weight) (num : Bytes → Int) (bs : Bytes) (xs : List (Option Bytes))
    (h : rleDecode cBytes nullable w num bs = .ok xs) : rleDecode cBytes nullable w num (rleEncode cBytes xs) = .ok xs :=
  C35_load_save_load lawful_bytes sound_bytes nullable w num bs xs h

theorem C35_load_save_load_str (nullable : Bool) (w : Weight) (num : Bytes → Int) (bs : Bytes) (xs : List (Option Bytes))
    (h : rleDecode cStr nullable w num bs = .ok xs) : rleDecode cStr nullable w num (rleEncode cStr xs) = .ok xs :=
  C35_load_save_load lawful_str sound_str nullable w num bs xs h

/-- non-vacuity: over-long LEB forms load (count `82 00` = 2, value `85 00` = 5), the loaded values
    re-encode canonically (`02 05`) and load again to the same values -/
example :
    (match rleDecode cU64 false .len (fun n => (n : Int)) [0x82, 0x00, 0x85, 0x00] with
     | .ok xs => xs == [some 5, some 5] && rleEncode cU64 xs == [2, 5] &&
        (match rleDecode cU64 false .len (fun n => (n : Int)) (rleEncode cU64 xs) with
         | .ok ys => ys == xs | _ => false)
     | _ => false) = true := by decide

/-- The same at the level of the loaded segments (what the driver compares; nothing is expanded, so
    it also speaks about columns too long to materialise): the re-encoding of the loaded values is
    the canonical writing of the loaded segments, and loading it returns those segments, under any
    `with_length` expectation. -/
theorem C35_load_save_load_segments {α : Type} [DecidableEq α] {c : ValCodec α} {Valid : α → Prop}
    (law : Lawful c Valid) (snd : Sound c Valid) (nullable : Bool) (w : Weight) (num : α → Int)
    (expected : Option Nat) (bs : Bytes) (items : List (Item α))
    (hload : rleLoad c nullable w num expected bs = .ok items) :
    rleEncode c (expand items) = writeItems c items ∧
      rleLoad c nullable w num expected (rleEncode c (expand items)) = .ok items :=
  rleLoad_reencode law snd nullable w num expected bs items hload

/-- the boundary of the length bound of the first sentence: a column of 2^63 + 1 items (a null run of
    2^63, then one value; 13 bytes) loads, and its canonical re-writing loads to the same segments —
    `C35_load_save_load_segments` covers it, `C35_rle_roundtrip` (`xs.length < 2^63`) does not -/
example :
    (match rleLoad cU64 true .len (fun n => (n : Int)) none
        [0x00, 0x80, 0x80, 0x80, 0x80, 0x80, 0x80, 0x80, 0x80, 0x80, 0x01, 0x7f, 0x05] with
     | .ok items => items == [.null (2 ^ 63), .head 1, .litv 5] | _ => false) = true ∧
    writeItems cU64 [.null (2 ^ 63), .head 1, .litv 5]
      = [0x00, 0x80, 0x80, 0x80, 0x80, 0x80, 0x80, 0x80, 0x80, 0x80, 0x01, 0x7f, 0x05] := by decide

/-- Third sentence for delta columns, with the loader's own bookkeeping: the realized values a
    `DeltaColumn::load` returned re-encode (differences, then RLE) to bytes that load to the same
    values.  No window hypothesis: the load itself established it. -/
theorem C35_delta_load_save_load (nullable : Bool) (lo hi : Int) (bs : Bytes) (xs : List (Option Int))
    (hload : deltaDecode nullable lo hi bs = .ok xs) :
    deltaDecode nullable lo hi (deltaEncode xs) = .ok xs := by
  unfold deltaDecode at hload
  split at hload
  · rename_i ds hds
    simp only [Outcome.ok.injEq] at hload
    subst hload
    unfold deltaDecode deltaEncode
    rw [deltas_realise, C35_load_save_load_i64 nullable (.delta lo hi) id bs ds hds]
  · simp at hload
  · simp at hload

/-- non-vacuity: a `DeltaColumn<u64>` written with an over-long count (`83 00` = 3) and delta 7 -/
example :
    (match deltaDecode false 0 (2 ^ 63 - 1) [0x83, 0x00, 0x07] with
     | .ok xs => xs == [some 7, some 14, some 21] && deltaEncode xs == [3, 7] &&
        (match deltaDecode false 0 (2 ^ 63 - 1) (deltaEncode xs) with | .ok ys => ys == xs | _ => false)
     | _ => false) = true := by decide

/-- Third sentence for boolean columns (both loader paths). -/
theorem C35_bool_load_save_load (checked : Bool) (bs : Bytes) (xs : List Bool)
    (hload : boolDecode checked bs = .ok xs) : boolDecode checked (boolEncode xs) = .ok xs :=
  boolDecode_reencode checked bs xs hload

/-- non-vacuity: over-long run lengths (`82 00` = 2) load and re-encode canonically -/
example :
    (match boolDecode true [0x00, 0x82, 0x00, 0x01] with
     | .ok xs => xs == [true, true, false] && boolEncode xs == [0, 2, 1]
     | _ => false) = true := by decide

end AmVerif.Props.C35Full
