import AmVerif.Proofs.ChangeCodec
/-
  C39 — "Strings decoded from untrusted bytes are always valid UTF-8: every string the library hands
  out, such as map keys, text, string values, mark names and change messages, is valid UTF-8,
  whatever bytes were loaded, applied or received.  Input carrying invalid UTF-8 in any string
  position is rejected or repaired before any string is produced from it."
  Property theorems only; helpers are in `AmVerif.Proofs.ChangeCodec`.

  Scope of the proof: the change-chunk decode path `Change::from_bytes` → `Change::decode`
  (`Model/ChangeCodec.lean`).  The model keeps strings as byte lists and produces one only through
  the validators placed where the Rust validates: `parse::utf_8` (change message), `SmolStr::decode`
  (`str::from_utf8`: map keys, mark names), `ValueIter` type 6 (`str::from_utf8`: string values and
  text).  `validUtf8` is the table of Unicode 15 §3.9 (what `std::str::from_utf8` accepts).
  That the model rejects exactly where the Rust rejects is the correspondence run on the
  invalid-UTF-8 stream (over-long forms, surrogates, truncated sequences, 0xFF placed in key, value,
  mark-name, message and actor positions, checksum recomputed); the document (`load`) and bundle and
  sync-message paths are covered by the direct oracle `! C39 sig=invalid-utf8-escaped` only.
-/
namespace AmVerif.Props.C39
open AmVerif AmVerif.Crdt AmVerif.ChangeCodec AmVerif.Hexane

/-- Stored change (what `Change::from_bytes` returns): its message, every map key, every string
    value and every mark name is valid UTF-8, whatever the bytes were. -/
theorem C39_stored_strings_valid {limit : Nat} {bs : Bytes} {s : ChangeCodec.Stored} (h : fromBytes limit bs = .ok s) :
    (∀ msg, s.message = some msg → validUtf8 msg = true) ∧
    ∀ r ∈ s.rows,
      (∀ k, r.key = .prop k → validUtf8 k = true) ∧ (∀ v, r.val = .str v → validUtf8 v = true) ∧
      (∀ n, r.markName = some n → validUtf8 n = true) := by
  obtain ⟨hm, hr⟩ := fromBytes_strings_valid h
  refine ⟨hm, ?_⟩
  intro r hmem
  obtain ⟨h1, h2, h3⟩ := hr r hmem
  refine ⟨?_, ?_, h3⟩
  · intro k hk; rw [hk] at h1; exact h1
  · intro v hv; rw [hv] at h2; exact h2

/-- Expanded change (`Change::decode`, what applications and the op store see): every map key,
    every put / mark string value, every mark name and the change message is valid UTF-8. -/
theorem C39_decoded_strings_valid {limit : Nat} {bs hash : Bytes} {x : XChange}
    (h : decodeChange limit bs = .ok (hash, x)) :
    (∀ msg, x.message = some msg → validUtf8 msg = true) ∧
    ∀ o ∈ x.ops,
      (∀ k, o.key = .map k → validUtf8 k = true) ∧
      (∀ v, o.action = .put (.str v) → validUtf8 v = true) ∧
      (∀ n v e, o.action = .markBegin n v e → validUtf8 n = true ∧ ∀ sv, v = .str sv → validUtf8 sv = true) := by
  obtain ⟨hm, ho⟩ := decodeChange_strings_valid h
  refine ⟨hm, ?_⟩
  intro o hmem
  obtain ⟨h1, h2⟩ := ho o hmem
  refine ⟨h1, ?_, ?_⟩
  · intro v hv; rw [hv] at h2; exact h2
  · intro n v e hv
    rw [hv] at h2
    refine ⟨h2.1, ?_⟩
    intro sv hsv; subst hsv; exact h2.2

/-- non-vacuity (accepting side): the sample change of `C10Hash` carries the key "k" and the
    string value "hé" -/
example :
    (match decodeChange 100 sampleChange with
     | .ok (_, x) => x.ops.length == 3 &&
        (x.ops.head?.map (fun o => decide (o.key = .map [107]) && decide (o.action = .put (.str [104, 195, 169])))) == some true
     | _ => false) = true := by
  set_option maxRecDepth 20000 in decide +kernel

/-- the same chunk with the value "hé" (68 c3 a9) turned into the over-long form 68 c0 af and the
    checksum recomputed -/
def badValue : Bytes := Chunk.encodeChunk 1
  ((sampleChange.drop 10).map (fun b => if b = 195 then 192 else if b = 169 then 175 else b))

/-- "…is rejected": invalid UTF-8 in a string-value position makes the decoder return an error (not
    a string, not a panic); likewise 0xFF as the map key and as the change message -/
example :
    (match fromBytes 100 badValue with | .err .column => true | _ => false) = true := by
  set_option maxRecDepth 20000 in decide +kernel

example :
    (match fromBytes 100 (Chunk.encodeChunk 1 ((sampleChange.drop 10).map
        (fun b => if b = 107 then 255 else b))) with | .err .column => true | _ => false) = true := by
  set_option maxRecDepth 20000 in decide +kernel

example :
    (match fromBytes 100 (Chunk.encodeChunk 1 ((sampleChange.drop 10).map
        (fun b => if b = 109 then 255 else b))) with | .err (.parse .invalid) => true | _ => false) = true := by
  set_option maxRecDepth 20000 in decide +kernel

end AmVerif.Props.C39
