import AmVerif.Proofs.StoreFull
import AmVerif.Props.C02Store
/-
  C01 (op store) — "Convergence: Any two documents that hold the same set of changes show identical
  observable state … however the changes arrived: in any order, duplicated, batched".

  `Props/C01Spec.lean` proves it for the specification (the reading is a function of the op set),
  `Props/C01Deliver*.lean` for the history layer (which changes are applied).  This file proves it
  for the op store itself: whatever causally admissible order `BatchApply` (`insertRemote`) meets
  the ops in, it ends with the SAME rows in the SAME order with the SAME successor lists — the
  code's order is canonical — and hence with the same document.  Property theorems only.
-/
namespace AmVerif.Props.C01Store
open AmVerif AmVerif.Crdt AmVerif.Props.C02Store

/-- "however the changes arrived": two stores built by `insertRemote` from the same ops in any two
    causally admissible orders render the same document … -/
theorem C01_store_convergence (w : Op → Nat) (ops₁ ops₂ : List Op) (h₁ : Admissible ops₁)
    (h₂ : Admissible ops₂) (hp : ops₁.Perm ops₂) :
    storeShowDoc (buildStore w ops₁) (ops₁.length + 1) = storeShowDoc (buildStore w ops₂) (ops₂.length + 1) := by
  rw [storeShowDoc_eq h₁.wf (buildStore_inv w h₁), storeShowDoc_eq h₂.wf (buildStore_inv w h₂)]
  exact showDoc_perm ops₁ ops₂ hp h₁.wf.strict.distinctIds

/-- … and are equal as lists of rows: same ops in the same positions, same successor lists (the
    store order is a function of the op SET: `canon`). -/
theorem C01_store_canonical (w : Op → Nat) (ops₁ ops₂ : List Op) (h₁ : Admissible ops₁)
    (h₂ : Admissible ops₂) (hp : ops₁.Perm ops₂) :
    (buildStore w ops₁).map Row.core = (buildStore w ops₂).map Row.core :=
  store_core_unique hp h₁.wf.strict.distinctIds (buildStore_inv w h₁) (buildStore_inv w h₂)

/-- … including the index columns: the two stores are EQUAL (when every op names predecessors of
    its own register only, which is what makes the incrementally maintained `top` column exact). -/
theorem C01_store_equal (w : Op → Nat) (ops₁ ops₂ : List Op) (h₁ : Admissible ops₁)
    (h₂ : Admissible ops₂) (hp : ops₁.Perm ops₂) (hp₁ : PredsOk ops₁) (hp₂ : PredsOk ops₂) :
    buildStore w ops₁ = buildStore w ops₂ :=
  store_ext (C01_store_canonical w ops₁ ops₂ h₁ h₂ hp) (buildStore_index w h₁ hp₁)
    (buildStore_index w h₂ hp₂)

/-- the same, for any two stores satisfying the invariant (however they were built) -/
theorem C01_store_canonical_inv (ops₁ ops₂ : List Op) (s₁ s₂ : Store) (hp : ops₁.Perm ops₂)
    (hd : DistinctIds ops₁) (h₁ : StoreInv ops₁ s₁) (h₂ : StoreInv ops₂ s₂) :
    s₁.map Row.core = s₂.map Row.core ∧ s₁.map (·.op) = canon ops₁ ∧ canon ops₁ = canon ops₂ :=
  ⟨store_core_unique hp hd h₁ h₂, h₁.order, canon_perm hp hd⟩

/-- the two example orders of `Props/C02Store` (concurrent siblings, conflicting updates,
    increments, a delete; actor B's ops early in the second) end in the same store -/
example : Admissible h1 ∧ Admissible h2 ∧ h1.Perm h2 ∧ h1 ≠ h2 ∧ PredsOk h1 ∧ PredsOk h2 ∧
    (buildStore w1 h1).map Row.core = (buildStore w1 h2).map Row.core ∧
    buildStore w1 h1 = buildStore w1 h2 :=
  ⟨admissibleB_sound (by decide), admissibleB_sound (by decide), by decide, by decide, by decide,
   by decide, by decide, by decide⟩

end AmVerif.Props.C01Store
