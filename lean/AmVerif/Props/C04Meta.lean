import AmVerif.Proofs.Local
/-
  C04 (metadata half) — "Every change a document creates has the next sequence number for its
  actor and a start op greater than every op counter in the changes it has applied. Its
  dependencies are exactly the heads it was made on …, plus the actor's own previous change when
  the transaction is not isolated."

  The model (`AmVerif.Model.Local`): a transaction is opened with `Doc.beginTx` (start op), every
  editing call appends ops with ids `t.nextId, …`, and at commit the driver predicts
  `seq = d.seqForActor actor + 1`, `startOp = t.startOp`, `deps = d.localDeps actor`,
  `ops = t.pending`; the differential run compares these with `seq/start_op/deps/ops` of the
  change the real code produced.  The theorems below say that these predicted values are the ones
  the property demands.  (The heads half of C04 is in `Props/C04Heads.lean`; isolated
  transactions are not modelled here.)  Property theorems only; helpers in `Proofs/Local.lean`.
-/
namespace AmVerif.Props.C04Meta
open AmVerif AmVerif.Crdt

/-! ### the example document -/

def opA1 : Op := ⟨⟨1, [1]⟩, .root, .map [97], false, .put (.int 1), []⟩
def opA2 : Op := ⟨⟨2, [1]⟩, .root, .map [98], false, .put (.int 2), []⟩
def opB1 : Op := ⟨⟨3, [2]⟩, .root, .map [97], false, .put (.int 3), [⟨1, [1]⟩]⟩
def opA3 : Op := ⟨⟨3, [1]⟩, .root, .map [99], false, .put (.int 4), []⟩
/-- actor 01 made change h1 (ops 1,2) and, concurrently with actor 02's h2 (op 3 on top of h1),
    change h3 (op 3) -/
def cA1 : Change := ⟨[0xA1], [1], 1, 1, [], [opA1, opA2]⟩
def cB1 : Change := ⟨[0xB1], [2], 1, 3, [[0xA1]], [opB1]⟩
def cA2 : Change := ⟨[0xA2], [1], 2, 3, [[0xA1]], [opA3]⟩
def doc : Doc := ⟨[cA1, cB1, cA2], []⟩
/-- the same history as seen by a replica that has not made `cA2`: actor 01's last change is
    then not a head -/
def doc' : Doc := ⟨[cA1, cB1], []⟩

/-! ### "a start op greater than every op counter in the changes it has applied" -/

/-- The start op of a new transaction is greater than the counter of every op of every applied
    change, for each op whose counter lies inside its change's range (the change encoding gives
    an op the counter `startOp + position`, see `OpsNumbered`). -/
theorem C04_start_op_above_applied (d : Doc) (actor : Bytes) (c : Change) (hc : c ∈ d.applied)
    (o : Op) (ho : o ∈ c.ops) (hw : o.id.ctr < c.startOp + c.ops.length) :
    o.id.ctr < (d.beginTx actor).startOp :=
  beginTx_startOp_gt d actor hc ho hw

/-- the same with the well-formedness stated per change -/
theorem C04_start_op_above_all_ops (d : Doc) (actor : Bytes) (hn : ∀ c ∈ d.applied, OpsNumbered c) :
    ∀ o ∈ d.ops, o.id.ctr < (d.beginTx actor).startOp :=
  beginTx_startOp_gt_of_numbered d actor hn

example : (∀ c ∈ doc.applied, OpsNumbered c) ∧ (doc.beginTx [1]).startOp = 4 ∧
    doc.ops.map (·.id.ctr) = [1, 2, 3, 3] := by decide

/-! ### the ops of the new change are numbered from the start op -/

/-- Whatever sequence of editing calls (put, put_object, insert, insert_object, delete,
    increment, splice_text; failed calls included) the transaction runs, its pending ops carry
    the ids `startOp, startOp + 1, …` of its actor — so the committed change, whose ops are the
    pending ops, is again `OpsNumbered`, and start op and actor are those fixed at `beginTx`. -/
theorem C04_commit_ops_numbered (e : Enc) (d : Doc) (actor : Bytes) (t : Tx)
    (h : TxRun e d.ops (d.beginTx actor) t) (c : Change)
    (hc : c.actor = actor ∧ c.startOp = (d.beginTx actor).startOp ∧ c.ops = t.pending) :
    t.actor = actor ∧ t.startOp = d.maxOp + 1 ∧ OpsNumbered c := by
  obtain ⟨ha, hs, hn⟩ := h.numbered (Numbered.nil _ _)
  obtain ⟨h1, h2, h3⟩ := hc
  have ha' : t.actor = actor := ha
  refine ⟨ha', hs, ?_⟩
  unfold OpsNumbered
  rw [h1, h2, h3, ← hs, ← ha']
  exact hn

/-- a run of two calls on `doc`: a put on "a" (overwriting the conflict) and a failing one -/
example :
    let t₀ := doc.beginTx [1]
    let r₁ := localPut .utf8 (doc.ops ++ t₀.pending) t₀ .root (.inl [97]) (.put (.int 9)) true
    let t₁ := t₀.after r₁
    let r₂ := localPut .utf8 (doc.ops ++ t₁.pending) t₁ .root (.inr 0) (.put (.int 9)) true
    let t₂ := t₁.after r₂
    TxRun .utf8 doc.ops t₀ t₂ ∧ r₂ = .error .invalidOp ∧
      t₂.pending = [⟨⟨4, [1]⟩, .root, .map [97], false, .put (.int 9), [⟨3, [2]⟩]⟩] :=
  ⟨.step (.step .start (.put _ _ _ _)) (.put _ _ _ _), by decide, by decide⟩

/-- consequently the freshness hypothesis of the C03 theorems holds at every call of the
    transaction: every op the call sees has an id below the next id -/
theorem C04_next_id_above_all_ids (e : Enc) (d : Doc) (actor : Bytes) (t : Tx)
    (hn : ∀ c ∈ d.applied, OpsNumbered c) (h : TxRun e d.ops (d.beginTx actor) t) :
    ∀ x ∈ d.ops ++ t.pending, x.id.lt t.nextId = true :=
  h.ids_lt_next hn

example : ∀ x ∈ doc.ops ++ (doc.beginTx [1]).pending, x.id.lt (doc.beginTx [1]).nextId = true := by decide

/-! ### "the next sequence number for its actor" -/

/-- The predicted sequence number `seqForActor + 1` is the number of changes of that actor the
    document has applied, plus one — given that those changes carry the sequence numbers
    1, 2, …, n in application order (what `add_changes` asserts on every application). -/
theorem C04_seq_is_next (d : Doc) (actor : Bytes)
    (hc : (d.applied.filter (fun c => c.actor == actor)).map (·.seq) =
      List.range' 1 (d.applied.filter (fun c => c.actor == actor)).length) :
    d.seqForActor actor + 1 = (d.applied.filter (fun c => c.actor == actor)).length + 1 := by
  rw [seqForActor_eq_length d actor hc]

example : (doc.applied.filter (fun c => c.actor == [1])).map (·.seq) = List.range' 1 2 ∧
    doc.seqForActor [1] + 1 = 3 ∧ doc.seqForActor [2] + 1 = 2 ∧ doc.seqForActor [7] + 1 = 1 := by decide

/-! ### "Its dependencies are exactly the heads it was made on, plus the actor's own previous change" -/

/-- The predicted dependencies are the heads, followed by the hash of the actor's own last applied
    change exactly when the actor has one and it is not already a head. -/
theorem C04_deps_cases (d : Doc) (actor : Bytes) :
    ((d.applied.filter (fun c => c.actor == actor)).getLast? = none ∧ d.localDeps actor = d.heads) ∨
    ∃ last, (d.applied.filter (fun c => c.actor == actor)).getLast? = some last ∧
      ((last.hash ∈ d.heads ∧ d.localDeps actor = d.heads) ∨
       (last.hash ∉ d.heads ∧ d.localDeps actor = d.heads ++ [last.hash])) :=
  localDeps_cases d actor

/-- As a set: a hash is a dependency iff it is a head or the actor's own last change; and no
    hash is listed twice. -/
theorem C04_deps_are_heads_plus_own_last (d : Doc) (actor : Bytes) :
    (∀ h, h ∈ d.localDeps actor ↔
      h ∈ d.heads ∨
      ∃ last, (d.applied.filter (fun c => c.actor == actor)).getLast? = some last ∧ h = last.hash) ∧
    (d.localDeps actor).Nodup :=
  ⟨fun _ => mem_localDeps, localDeps_nodup d actor⟩

/-- `doc`: heads {A2, B1}, own last A2 is a head, nothing added; actor 03 has no change.
    `doc'` (A2 not made yet … by a second device of actor 01 that only has A1, B1): the only head
    is B1 and the own last change A1 is added. -/
example : doc.heads = [[0xA2], [0xB1]] ∧ doc.localDeps [1] = [[0xA2], [0xB1]] ∧
    doc.localDeps [3] = [[0xA2], [0xB1]] ∧
    doc'.heads = [[0xB1]] ∧ doc'.localDeps [1] = [[0xB1], [0xA1]] := by decide

end AmVerif.Props.C04Meta
