import AmVerif.Proofs.Bloom
import AmVerif.Proofs.Leb128
import AmVerif.Proofs.IdsMsg
import AmVerif.Props.C15Ids
/-
  C17 — Untrusted input cannot exhaust memory or time.
  "Processing an input of n bytes (loading it, decoding a sync message and generating the reply,
  parsing a cursor or id) allocates and computes at most an amount bounded by a fixed polynomial in
  n plus a constant. A few bytes can never trigger a multi-gigabyte allocation or a near-endless loop."

  Resource claims are theorems about an explicit cost semantics of the model (lengths of the lists a
  function builds = what the Rust allocates; number of loop iterations), never about Lean's own
  evaluation.  Covered by theorems here: the Bloom filter (the reply-generation hot spot: one
  `get_probes` per local change), LEB128, and every count-prefixed list of the sync codec.  NOT
  covered by a theorem: the deep column decoders of `load` (exploration only; known finding K99:
  a bundle chunk that makes `load` allocate gigabytes).
-/
namespace AmVerif.Props.C17
open AmVerif AmVerif.Bloom AmVerif.Leb

/-- cost of one `contains_hash` / `add_hash`: `get_probes` allocates a vector of `num_probes`
    `u32`s and loops `num_probes` times -/
def probeCost (f : Filter) : Nat := f.numProbes

/-- After fix D2b (more probes than bits are refused by the parser) the cost of querying ANY
    decoded filter is bounded by the size of the input it was decoded from: at most 8 probes per
    input byte (and a filter without bits is never probed at all). -/
theorem C17_decoded_filter_probe_bound (bs rest : Bytes) (f : Filter)
    (hp : parse bs = .ok (f, rest)) (hb : f.bits ≠ []) : probeCost f ≤ 8 * bs.length := by
  unfold parse at hp
  split at hp
  · -- empty input: default filter has no bits
    cases hp; exact absurd rfl hb
  · split at hp
    · cases hp
    · rename_i n i1 h1
      split at hp
      · cases hp
      · rename_i b i2 h2
        split at hp
        · cases hp
        · rename_i p i3 h3
          split at hp
          · cases hp
          · rename_i bits i4 h4
            split at hp
            · cases hp
            · rename_i hcap
              cases hp
              -- bits is a prefix of i3, which is a suffix of bs
              have hbits : bits.length ≤ i3.length := by
                unfold takeN at h4
                split at h4
                · cases h4
                · cases h4; simp; omega
              have l1 : i1.length ≤ bs.length := by
                obtain ⟨pre, hpre, _, _⟩ := uleb32_consumes bs i1 n h1
                rw [hpre]; simp
              have l2 : i2.length ≤ i1.length := by
                obtain ⟨pre, hpre, _, _⟩ := uleb32_consumes i1 i2 b h2
                rw [hpre]; simp
              have l3 : i3.length ≤ i2.length := by
                obtain ⟨pre, hpre, _, _⟩ := uleb32_consumes i2 i3 p h3
                rw [hpre]; simp
              have hne : bits ≠ [] := hb
              have hcap' : ¬ (p > 8 * bits.length) := by
                intro hgt
                apply hcap
                simp [hne, hgt]
              show p ≤ 8 * bs.length
              omega

/-- the probe list `get_probes` allocates has exactly `max 1 num_probes` entries -/
theorem C17_probes_length (f : Filter) (h : Hash) (ps : List Nat) (hps : getProbes f h = .ok ps) :
    ps.length = (f.numProbes - 1) + 1 := by
  have hl : ∀ m z k x y, (probesLoop m z k x y).length = k := by
    intro m z k
    induction k with
    | zero => intro x y; rfl
    | succ k ih => intro x y; simp [probesLoop, ih]
  unfold getProbes at hps
  simp only at hps
  by_cases hm : 8 * f.bits.length = 0
  · rw [if_pos hm] at hps; cases hps
  · rw [if_neg hm] at hps
    cases hps
    simp [hl]

/-- LEB128: a successful read consumes between 1 and 10 bytes — no loop driven by the value -/
theorem C17_uleb_steps (bs rest : Bytes) (n : Nat) (h : uleb64 bs = .ok (n, rest)) :
    ∃ pre, bs = pre ++ rest ∧ 1 ≤ pre.length ∧ pre.length ≤ 10 :=
  uleb64_consumes_pre bs rest n h

/-- count-prefixed lists (`length_prefixed` in storage/parse.rs: heads, need, have, changes of a sync
    message): whatever count the wire announces, the element parser runs at most `input length + 1`
    times, because every successful element consumes at least one byte -/
theorem C17_length_prefixed_iterations {α : Type} (g : Bytes → AmVerif.IdsMsg.MResult α)
    (hg : ∀ i x r, g i = .ok (x, r) → r.length < i.length) (count : Nat) (i : Bytes) :
    AmVerif.IdsMsg.repeatCalls g count i ≤ i.length + 1 :=
  AmVerif.Props.C15Ids.lengthPrefixed_iterations_le g hg count i

/-- non-vacuity: the 20-byte filter header that used to cost 2^32−1 probes (D2b) is now refused,
    and a well-formed 3-hash filter costs 7 probes ≤ 8 · 7 bytes -/
example : (match parse ([1, 10, 0xff, 0xff, 0xff, 0xff, 0x0f] ++ [0xff, 0xff]) with
           | .error .invalid => true | _ => false) = true := by decide

example : (match parse [3, 10, 7, 1, 2, 3, 4] with
           | .ok (f, _) => probeCost f == 7 && decide (probeCost f ≤ 8 * 7) | _ => false) = true := by decide

end AmVerif.Props.C17
