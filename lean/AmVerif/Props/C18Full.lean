import AmVerif.Proofs.ChangeCodecFullWF
import AmVerif.Proofs.ChangeCodecFullLocal
/-
  C18 — second sentence, for LIBRARY-WRITTEN (canonical) changes: "Expanding a change (`decode`) and
  re-encoding it gives the same hash", i.e. `decode (encode c) = c` for every change the library writes.
  (`Props/C18.lean` has the compressed form, the column-layer round trips and the NEGATED statement for
  foreign, non-canonical changes; bundles are decided by direct oracles only.)
  Property theorems only; helpers are in `AmVerif.Proofs.ChangeCodecFull*`:
    Cols  (legacy RLE / delta / Boolean iterators, one value at a time), Value (`ValueMeta`, `encode_val`,
    `ulebsize` / `lebsize`), Rows (`ChangeOpsIter` in lock step), Layout / Init / Iter (`Columns::parse2`
    on the canonical column table, `ChangeOpsColumns::try_from`, `iter`), Meta (`parse_following_header`,
    `from_bytes`), WF (`ChangeWF`, actor-table translation `decode ∘ AsChangeOp`), Local (numbering of the
    operations of the model's local transaction).
  Model: `AmVerif.Model.ChangeCodec` — `encodeChange` (`Change::from(ExpandedChange)`), `decodeChange`
  (`Change::from_bytes(..)?.decode()`), `Chunk.chunkHash` (SHA-256 of type ‖ length ‖ body).

  `ChangeWF c` (decidable, `Proofs/ChangeCodecFullWF.lean`): dependencies = 32-byte hashes in sorted order;
  actor ids / seq / counts within the length fields; `0 < startOp < 2^32` and every op counter of the
  change fits a `u32`; time an `i64`; message absent or a non-empty valid UTF-8 string; actor table
  (author, then the other actors sorted — `otherActors`) shorter than 2^32; operations numbered
  `startOp@actor, (startOp+1)@actor, …`; per operation: object / element ids with a positive `u32` counter,
  map keys and mark names valid UTF-8 of at most 10^9 bytes (`SmolStr::decode`'s allocation cap), values
  in their 64-bit ranges (strings valid UTF-8, lengths < 2^60, unknown type codes 10…15), increments
  `i64`, predecessors sorted as `SortedVec<OpId>` keeps them with `u32` counters; fewer than 2^63
  predecessors in total; chunk body shorter than 2^64 bytes.
  Tie: the `codec` engine evaluates `ChangeWF` on every change a real transaction wrote
  (`codec.wf <raw>`: `wf=ok rt=ok` expected from both sides).
-/
namespace AmVerif.Props.C18Full
open AmVerif AmVerif.Crdt AmVerif.Chunk AmVerif.ChangeCodec AmVerif.ChangeCodec.Full

/-- "decoding [the bytes of] a change … gives [the change]": `Change::from_bytes` of the chunk
    `Change::from(c)` writes, then `decode()`, is `c` again — every field: dependencies, actor, seq,
    start op, time, message, extra bytes, and every operation (id, object, key, insert, action with
    its value / mark name / expand flag, predecessors) — and the hash is that of the chunk.
    `limit` is the model's row budget (`rowsLoop`); any budget not below the number of operations. -/
theorem C18_change_roundtrip (limit : Nat) (c : XChange) (hw : ChangeWF c) (hlim : c.ops.length ≤ limit) :
    decodeChange limit (encodeChange c) = .ok (chunkHash Consts.CHUNK_TYPE_CHANGE (changeBody c), c) :=
  decode_encode limit c hw hlim

/-- a change with two other actors (`02`, `0307`), map / list / text objects, an insert into a foreign
    text object after a foreign element, a delete with two predecessors, a counter and an increment
    of it, a mark begin / end pair, a float, a negative integer, a message, a negative time,
    two dependencies and extra bytes -/
def sampleX : XChange :=
  let A : Bytes := [1, 1]
  let B : Bytes := [2]
  let C : Bytes := [3, 7]
  { actor := A, seq := 3, startOp := 10, time := -5, message := some [104, 105],
    deps := [List.replicate 32 1, List.replicate 32 2], extra := [9, 9, 9],
    ops := [
      ⟨⟨10, A⟩, .root, .map [109], false, .make .map, []⟩,
      ⟨⟨11, A⟩, .id ⟨10, A⟩, .map [107], false, .put (.str [118, 195, 169]), []⟩,
      ⟨⟨12, A⟩, .root, .map [108], false, .make .list, []⟩,
      ⟨⟨13, A⟩, .id ⟨12, A⟩, .head, true, .put (.uint 7), []⟩,
      ⟨⟨14, A⟩, .root, .map [116], false, .make .text, []⟩,
      ⟨⟨15, A⟩, .id ⟨5, B⟩, .elem ⟨6, C⟩, true, .put (.str [120]), []⟩,
      ⟨⟨16, A⟩, .root, .map [100], false, .del, [⟨3, B⟩, ⟨4, C⟩]⟩,
      ⟨⟨17, A⟩, .root, .map [99], false, .put (.counter 10), []⟩,
      ⟨⟨18, A⟩, .root, .map [99], false, .inc (-3), [⟨17, A⟩]⟩,
      ⟨⟨19, A⟩, .id ⟨14, A⟩, .elem ⟨15, A⟩, true, .markBegin [98] (.bool true) true, []⟩,
      ⟨⟨20, A⟩, .id ⟨14, A⟩, .elem ⟨19, A⟩, true, .markEnd false, []⟩,
      ⟨⟨21, A⟩, .id ⟨10, A⟩, .map [102], false, .put (.f64 4607182418800017408), []⟩,
      ⟨⟨22, A⟩, .id ⟨10, A⟩, .map [105], false, .put (.int (-1000000)), [⟨2, B⟩]⟩ ] }

set_option maxRecDepth 100000 in
/-- non-vacuity: the sample is well-formed … -/
example : ChangeWF sampleX := by decide +kernel

set_option maxRecDepth 100000 in
/-- … its actor table has two other actors, it has 13 operations, and (evaluated, independently of
    the theorem) it does decode to itself and the decoded change is written back as the same body -/
example :
    (otherActors sampleX.actor sampleX.ops == [[2], [3, 7]] && sampleX.ops.length == 13 &&
     (match decodeChange 100 (encodeChange sampleX) with
      | .ok (_, x) => x == sampleX && changeBody x == changeBody sampleX && (changeBody x).length == 284
      | _ => false)) = true := by decide +kernel

/-- "… and re-encoding it gives the same [bytes]": `Change::from(c'.decode())` for the change `c'` read
    from the bytes of `c` writes the very same chunk -/
theorem C18_reencode_same_bytes (limit : Nat) (c : XChange) (hw : ChangeWF c) (hlim : c.ops.length ≤ limit) :
    ∃ h x, decodeChange limit (encodeChange c) = .ok (h, x) ∧ encodeChange x = encodeChange c :=
  ⟨_, c, C18_change_roundtrip limit c hw hlim, rfl⟩

/-- "… gives the same hash": the hash `from_bytes` computed for the chunk is the SHA-256 chunk hash
    of the body the re-encoding writes -/
theorem C18_reencode_same_hash (limit : Nat) (c : XChange) (hw : ChangeWF c) (hlim : c.ops.length ≤ limit) :
    ∃ h x, decodeChange limit (encodeChange c) = .ok (h, x) ∧
      encodeChange x = encodeChunk Consts.CHUNK_TYPE_CHANGE (changeBody x) ∧
      h = chunkHash Consts.CHUNK_TYPE_CHANGE (changeBody x) :=
  ⟨_, c, C18_change_roundtrip limit c hw hlim, rfl, rfl⟩

set_option maxRecDepth 100000 in
/-- non-vacuity: the hypotheses hold for the sample (13 operations, budget 100), so its chunk decodes
    to a change that is written back with the same hash.  (An evaluated instance of the hash equality —
    SHA-256 in the kernel — is `C18_reencode_sample` in `Props/C18.lean`.) -/
example : ∃ h x, decodeChange 100 (encodeChange sampleX) = .ok (h, x) ∧
    encodeChange x = encodeChunk Consts.CHUNK_TYPE_CHANGE (changeBody x) ∧
    h = chunkHash Consts.CHUNK_TYPE_CHANGE (changeBody x) :=
  C18_reencode_same_hash 100 sampleX (by decide +kernel) (by decide)

/-- **PARTIAL** towards `C18_wf_of_local`.  Full statement (not proved): *for every transaction `t` the
    model's local editing functions build on a document (`Model/Local.lean`: `Doc.beginTx`, then
    `localPut` / `localInsert` / `localSpliceText` appended to `t.pending`, as `Driver/Crdt.lean` `edit`
    does) the change `crdt.commit` assembles — `⟨t.actor, seq, t.startOp, time, message, deps, extra,
    t.pending⟩` — satisfies `ChangeWF`.*
    Proved here: the clause of `ChangeWF` that depends on the transaction machinery — the operations
    are numbered `startOp@actor, (startOp+1)@actor, …` — for every transaction reachable by those
    functions (`TxReach`); with it `ChangeWF` follows from the remaining clauses (`ChangeWFRest`), which
    are kept as a hypothesis.
    MISSING for the full statement: (1) the size / range clauses are not consequences of the model
    (it has unbounded naturals: nothing bounds `startOp`, string lengths or the number of actors by
    the `u32` / `u64` fields of the format — on the real side they are type invariants); (2) valid
    UTF-8 of keys and values is a property of the caller's inputs (`&str` on the real side); (3)
    sorted predecessors need the op-set invariant that a register's ops (`mapRegOps`, `seqRegs`) are
    in ascending id order, which the `Spec` model does not carry as a theorem; (4) sorted 32-byte
    dependencies need the hash / heads invariants of the graph model.  The hypothesis is instead
    CHECKED on every change written by a real transaction in the `codec` correspondence run
    (`codec.wf`: 0 `wf=bad` expected). -/
theorem C18_wf_of_local_partial (e : Enc) (t : Tx) (hr : TxReach e t)
    (seq : Nat) (time : Int) (message : Option Bytes) (deps : List Bytes) (extra : Bytes)
    (hrest : ChangeWFRest ⟨t.actor, seq, t.startOp, time, message, deps, extra, t.pending⟩) :
    ChangeWF ⟨t.actor, seq, t.startOp, time, message, deps, extra, t.pending⟩ :=
  changeWF_of_rest _ (txReach_ids e t hr) hrest

/-- non-vacuity: a transaction on the empty document that makes a list, inserts two elements, deletes
    the first and puts a map key is reachable, numbers its 5 operations from 1, and the change
    assembled from it satisfies the remaining clauses -/
example : idsFrom sampleTx.actor sampleTx.startOp sampleTx.pending = true ∧ sampleTx.pending.length = 5 ∧
    ChangeWFRest ⟨sampleTx.actor, 1, sampleTx.startOp, 0, none, [], [], sampleTx.pending⟩ := by
  refine ⟨txReach_ids _ _ sampleTx_reach, ?_, ?_⟩
  · decide +kernel
  · decide +kernel

end AmVerif.Props.C18Full
