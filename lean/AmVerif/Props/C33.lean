import AmVerif.Proofs.Serde
/-
  C33 — CLI JSON import/export round-trips.
  Property theorems only; helper lemmas are in `AmVerif.Proofs.Serde` / `AmVerif.Proofs.Json`.
  Model: `AmVerif.Model.Json` (`serde_json::Value` of this build: `BTreeMap` objects, numbers as
  the three-way sum `i64 | u64 above i64::MAX | finite f64 by bit pattern`), `AmVerif.Model.Serde`
  (`import.rs::initialize_from_json`, `export.rs::get_state_json` = `to_value(AutoSerde)`).

  `Json.WF j` says that `j` is a value serde_json's parser can hand to `import.rs`: numbers in
  their canonical class, object keys strictly increasing.  It is a description of the input
  domain, not a restriction of the property.

  Deviation from DESIGN.md §5: the design expected `put` to reject empty-string keys.  At /repo's
  HEAD `put("", …)` is accepted and such keys round-trip (checked through the real binary,
  `{"":1}` and `{"a":{"":[1]}}`), so `export_import_id` is proved WITHOUT a `NoEmptyKeys`
  hypothesis and the only error branch is a top level that is not an object.
-/
namespace AmVerif.Props.C33
open AmVerif

/-- `export_import_id`: for every JSON object (any nesting, any keys — the empty string
    included —, arrays, strings, all three kinds of numbers), importing and then exporting gives
    back the same value: same keys, same array order, same strings, and every number with its
    value AND its kind (an integer stays that integer, a u64 above i64::MAX stays a u64, a float
    keeps its bit pattern — so `1.0` does not become `1` and `-0.0` keeps its sign). -/
theorem C33_export_import_id (j : Json) (hwf : j.WF) (htop : j.isObj = true) :
    cliRoundTrip j = .ok j := by
  cases j with
  | obj kvs =>
    have := export_import_val (.obj kvs) hwf
    simp only [cliRoundTrip, importJson, exportJson]
    rw [this]
  | null => simp [Json.isObj] at htop
  | bool b => simp [Json.isObj] at htop
  | num n => simp [Json.isObj] at htop
  | str s => simp [Json.isObj] at htop
  | arr xs => simp [Json.isObj] at htop

/-- the same for nested values on their own: whatever `import_map` / `import_list` store for a
    value is exported as that value -/
theorem C33_export_import_value (j : Json) (hwf : j.WF) : exportJson (importVal j) = j :=
  export_import_val j hwf

/-- the error branch: a top level that is not an object is rejected ("expected an object"),
    and that is the only way `initialize_from_json` fails. -/
theorem C33_import_error_iff (j : Json) :
    (∃ e, importJson j = .error e) ↔ j.isObj = false := by
  cases j with
  | obj kvs => simp [importJson, Json.isObj]
  | null => exact ⟨fun _ => rfl, fun _ => ⟨_, rfl⟩⟩
  | bool b => exact ⟨fun _ => rfl, fun _ => ⟨_, rfl⟩⟩
  | num n => exact ⟨fun _ => rfl, fun _ => ⟨_, rfl⟩⟩
  | str s => exact ⟨fun _ => rfl, fun _ => ⟨_, rfl⟩⟩
  | arr xs => exact ⟨fun _ => rfl, fun _ => ⟨_, rfl⟩⟩

theorem C33_non_object_rejected (j : Json) (htop : j.isObj = false) :
    cliRoundTrip j = .error .expectedObject := by
  cases j <;> simp_all [cliRoundTrip, importJson, Json.isObj]

/-- empty-string keys are NOT an error branch at /repo's HEAD: import succeeds whatever the keys -/
theorem C33_empty_keys_accepted (kvs : List (String × Json)) :
    ∃ v, importJson (.obj kvs) = .ok v := ⟨_, rfl⟩

/-- the imported document contains no conflict and no deleted register, so its export through the
    length-checking decoder of C32 is also exact -/
theorem C33_import_then_serialize (j : Json) :
    decodeEvents (importVal j).serialize = some (importVal j).image := by
  unfold decodeEvents
  rw [run_val (importVal j) (.running []) (.done (importVal j).image) rfl]

/-- starting from a DOCUMENT instead of a JSON value: what the CLI exports for any document —
    conflicts, deleted keys, counters, timestamps, bytes, text objects, unsigned integers … — is a
    fixed point of `import | export` (counters/timestamps come back as plain integers and bytes as
    arrays in the re-imported DOCUMENT, but the JSON is the same).  `v.InRange` says the document's
    integers fit their Rust types; `v.isMap` that `v` is a document root. -/
theorem C33_export_is_fixed_point (v : Val) (hr : v.InRange) (hroot : v.isMap = true) :
    cliRoundTrip (exportJson v) = .ok (exportJson v) := by
  apply C33_export_import_id _ (export_WF v hr)
  cases v <;> simp_all [Val.isMap, exportJson, Val.image, SVal.toJson, Json.isObj]

/-
  NOT PROVED — and false of the real binary (finding, see the harness oracle line
  `! C33 [float-text-parse]`): the TEXT-level round trip

    theorem C33_text_round_trip (t : String) (j : Json)
        (hp : JsonParse.parse t = some j) (htop : j.isObj = true) :
        ∃ t', cliExportText (cliImportText t) = some t' ∧ JsonParse.parse t' = some j

  where `cliImportText` runs `serde_json::from_str` of the CLI binary.  `automerge-cli` depends on
  serde_json WITHOUT the `float_roundtrip` feature (only the automerge crate's dev-dependencies
  enable it), so its decimal → f64 conversion is not correctly rounded: e.g.
  `{"a":9007199254740993.0}` exports as `9007199254740994.0`, `{"a":2.2250738585072011e-308}`
  as `2.2250738585072014e-308`, and `{"a":-5.299624371536199e+38}` — a text the CLI's own export
  prints — re-imports as `-5.299624371536198e+38`.  The value-level theorem above
  (`C33_export_import_id`, from the parsed `serde_json::Value` on) is the proved part; for text it
  gives `C33_text_round_trip_partial` below: the round trip is exact relative to whatever value
  the parser produced.
-/
theorem C33_text_round_trip_partial (parsed : Option Json) (j : Json)
    (hp : parsed = some j) (hwf : j.WF) (htop : j.isObj = true) :
    parsed.map cliRoundTrip = some (.ok j) := by
  subst hp
  simp [C33_export_import_id j hwf htop]

/-- a JSON object exercising every case: nesting, an empty-string key, an astral-plane key that
    sorts after a BMP one, i64::MIN, i64::MAX + 1, u64::MAX, 1.0, −0.0, the smallest subnormal,
    empty containers, null/bool/strings. -/
def sampleJson : Json :=
  .obj [("", .num (.int 1)),
        ("a", .arr [.num (.float 0x3ff0000000000000), .num (.float 0x8000000000000000),
                    .num (.float 1), .num (.int (-9223372036854775808)),
                    .num (.uint 9223372036854775808), .num (.uint 18446744073709551615),
                    .arr [], .obj [], .null, .bool true, .str "𝄞\u0000"]),
        ("b", .obj [("x", .obj [("", .arr [.arr [.num (.int 0)]])])]),
        ("￿", .str "bmp"),
        ("𐀀", .str "astral")]

/-- non-vacuity: the sample satisfies the hypotheses of `C33_export_import_id` … -/
example : sampleJson.WF ∧ sampleJson.isObj = true := by
  refine ⟨?_, rfl⟩
  simp only [sampleJson, Json.WF, Json.WFObj, Json.WFList, JNum.WF, KeysSorted, I64_MIN, I64_MAX,
    U64_MAX, f64Finite]
  decide

/-- … and the conclusion, evaluated directly (not through the theorem) -/
example : cliRoundTrip sampleJson = .ok sampleJson := by
  rfl

end AmVerif.Props.C33
