import AmVerif.Proofs.HexaneQuery
import AmVerif.Proofs.HexaneCanon
/-
  C34 — Hexane columns behave like vectors under any edits.
  Property theorems only; helper lemmas are in `AmVerif.Proofs.HexaneQuery` / `HexaneCanon`.

  The model (`AmVerif.Model.HexaneColumn`) is at the observable level: a column IS its list of
  values, so "any sequence of edits leaves contents equal to the same edits applied to a Vec" holds
  of the model by definition (`C34_splice_spec` and corollaries spell the definitions out); whether
  the slab / B-tree implementation refines this list model is decided by the correspondence check
  (edit programs on the real columns vs this model vs a `Vec`), not by a theorem — slab surgery is
  modelled-not-verified (DESIGN §7).  What IS proved here is that the accumulator forms of the
  derived queries equal their list definitions:
  * `C34_index_for_prefix_spec`  — the scan with a running accumulator returns the first index whose
    exclusive prefix reaches the target, or `len + 1`;
  * `C34_prefix_cache_correct`   — skipping whole runs by their cached contribution and locating
    the position inside a run by ceiling division (`find_prefix_in_slab`) gives the same index;
  * `C34_minmax_pruning_sound`   — skipping chunks whose min/max range misses the query
    (`find_by_value_range`) loses no hit and invents none, for any chunking;
  * `C34_save_is_function_of_values` / `C34_runs_expand` — `save()` bytes and run iteration are
    functions of the value list alone (insensitive to edit history: true by construction here).
-/
namespace AmVerif.Props.C34
open AmVerif AmVerif.Hexane

variable {β : Type}

/-- `splice` is `Vec::splice` on the value list; out-of-range arguments are the documented panic. -/
theorem C34_splice_spec (xs : List β) (i del : Nat) (ins : List β) :
    (i + del ≤ xs.length → splice xs i del ins = .ok (xs.take i ++ ins ++ xs.drop (i + del))) ∧
    (¬ i + del ≤ xs.length → splice xs i del ins = .panic .assertFailed) := by
  unfold splice
  constructor <;> intro h <;> simp [h]

theorem C34_push_spec (xs : List β) (v : β) : push xs v = .ok (xs ++ [v]) := by
  simp [push, splice]

theorem C34_truncate_spec (xs : List β) (n : Nat) : truncate xs n = .ok (xs.take n) := by
  unfold truncate splice
  by_cases h : n < xs.length
  · have : n + (xs.length - n) ≤ xs.length := by omega
    have e : n + (xs.length - n) = xs.length := by omega
    simp [h, e]
  · simp [h, List.take_of_length_le (by omega : xs.length ≤ n)]

theorem C34_clear_spec (xs : List β) : clear xs = .ok [] := by
  unfold clear splice
  by_cases h : xs.length > 0
  · simp [h]
  · have : xs = [] := List.eq_nil_of_length_eq_zero (by omega)
    simp [this]

theorem C34_insert_spec (xs : List β) (i : Nat) (v : β) (h : i ≤ xs.length) :
    Hexane.insert xs i v = .ok (xs.take i ++ v :: xs.drop i) := by
  simp [Hexane.insert, splice, h]

theorem C34_remove_spec (xs : List β) (i : Nat) : remove xs i = .ok (xs.eraseIdx i) := by
  unfold remove splice
  by_cases h : i < xs.length
  · have : i + 1 ≤ xs.length := by omega
    simp [h, this, List.eraseIdx_eq_take_drop_succ]
  · simp [h, List.eraseIdx_of_length_le (by omega : xs.length ≤ i)]

/-- non-vacuity: an edit program on a concrete column -/
example :
    (match splice [1, 2, 3, 4, 5] 1 2 [7, 8, 9] with
     | .ok ys => (match remove ys 0 with
        | .ok zs => zs == [7, 8, 9, 4, 5] && get zs 3 == some 4 && range zs 1 3 == [8, 9]
        | _ => false)
     | _ => false) = true := by decide

/-- `get_index_for_prefix` (for a positive target): the scanning form returns an index `r` in
    `1 ..= len + 1`; every earlier exclusive prefix is below the target; and if `r ≤ len` the
    exclusive prefix at `r` reaches it — i.e. `r` is the first index whose exclusive prefix reaches
    the target, and `len + 1` exactly when the grand total does not. -/
theorem C34_index_for_prefix_spec (wt : β → Nat) (xs : List β) (target : Nat) (ht : 0 < target) :
    let r := indexForPrefix wt xs target
    1 ≤ r ∧ r ≤ xs.length + 1 ∧
      (∀ j, j < r → j ≤ xs.length → psum wt xs j < target) ∧
      (r ≤ xs.length → target ≤ psum wt xs r) := by
  have hne : ¬ target = 0 := by omega
  simp only [indexForPrefix, hne, if_false]
  obtain ⟨h1, h2, h3, h4⟩ := indexForPrefixLoop_spec wt target xs 0 0 ht
  refine ⟨by omega, by omega, ?_, ?_⟩
  · intro j hj hj2
    have := h3 j (by omega) hj2
    omega
  · intro hr
    have := h4 (by omega)
    simpa using this

theorem C34_index_for_prefix_zero (wt : β → Nat) (xs : List β) : indexForPrefix wt xs 0 = 0 := by
  simp [indexForPrefix]

/-- `prefix_cache_correct`: the run-at-a-time search (cached per-run contribution, ceiling division
    inside the run that reaches the target) equals the item-at-a-time scan of the expanded runs. -/
theorem C34_prefix_cache_correct (wt : β → Nat) (runs : List (Nat × β)) (target : Nat) (ht : 0 < target) :
    indexForPrefixRuns wt runs 0 target 0 = indexForPrefix wt (expandRuns runs) target := by
  have hne : ¬ target = 0 := by omega
  simp only [indexForPrefix, hne, if_false]
  exact indexForPrefixRuns_eq wt target runs 0 0 ht

/-- non-vacuity: widths 3,3,3,0,0,5: the exclusive prefix reaches 7 at index 3, 9 at 3, 10 at 6,
    and 15 is beyond the total (len + 1 = 7); the run form agrees -/
example :
    (indexForPrefix (fun (n : Nat) => n) [3, 3, 3, 0, 0, 5] 7 == 3 &&
     indexForPrefix (fun (n : Nat) => n) [3, 3, 3, 0, 0, 5] 9 == 3 &&
     indexForPrefix (fun (n : Nat) => n) [3, 3, 3, 0, 0, 5] 10 == 6 &&
     indexForPrefix (fun (n : Nat) => n) [3, 3, 3, 0, 0, 5] 15 == 7 &&
     indexForPrefixRuns (fun (n : Nat) => n) [(3, 3), (2, 0), (1, 5)] 0 7 0 == 3 &&
     indexForPrefixRuns (fun (n : Nat) => n) [(3, 3), (2, 0), (1, 5)] 0 10 0 == 6) = true := by decide

/-- `minmax_pruning_sound`: for ANY way of cutting the column into chunks (slabs), searching only
    the chunks whose [min, max] meets `[lo, hi)` returns exactly the positions of the realised
    values in the range. -/
theorem C34_minmax_pruning_sound (chunks : List (List (Option Int))) (lo hi : Int) (h : lo < hi) :
    findPruned chunks lo hi 0 = findRange chunks.flatten lo hi := by
  rw [findPruned_eq]
  unfold findRange
  simp only [gt_iff_lt, h, if_true]
  rfl

example :
    (findPruned [[some 1, some 2, none], [some 50, some 60], [some 3, none, some 2]] 2 4 0 == [1, 5, 7] &&
     findRange [some 1, some 2, none, some 50, some 60, some 3, none, some 2] 2 4 == [1, 5, 7]) = true := by decide

/-- `save()` is a function of the values: two edit histories that reach the same list save the same
    bytes (trivial at list level — this is the statement the correspondence check ties to the real
    `save()`, which merges slabs re-normalising the seams). -/
theorem C34_save_is_function_of_values {α : Type} [DecidableEq α] (c : ValCodec α)
    (xs ys : List (Option α)) (h : xs = ys) : rleEncode c xs = rleEncode c ys := by rw [h]

/-- run iteration: the maximal runs of a column expand back to its values, neighbouring runs
    carry different values and no run is empty -/
theorem C34_runs_expand [DecidableEq β] (xs : List β) :
    expandRuns (runsOf xs) = xs ∧ GroupsOK (runsOf xs) :=
  ⟨expandRuns_groups xs, groups_ok xs⟩

example : runsOf [5, 5, 5, 1, 2, 2] = [(3, 5), (1, 1), (2, 2)] := by decide

end AmVerif.Props.C34
