import AmVerif.Proofs.History
import AmVerif.Proofs.Spec
/-
  C07 — "Historical reads equal reads of the document as it was: For any set of heads from a
  document's history, every read at those heads (get_at, keys_at, length_at, text_at, marks_at, …)
  equals the same read on a document that contains exactly those heads' ancestors. fork_at of those
  heads produces such a document, and its heads are the given heads."

  Setting.  `Doc.ancestors` is the traversal the model uses (`h ∈ d.ancestors heads` iff `h` is an
  applied hash reachable from `heads` through dependencies: `mem_ancestors`); `Doc.at heads` keeps
  the applied changes that are ancestors (what `fork_at` builds, and what the driver reads for
  `crdt.state_at`).  The implementation does not build that document for a read: it computes a
  vector clock (`ChangeGraph::clock_at`: per actor the max op of the actor's change with the
  greatest sequence number among the ancestors) and reads the ops the clock covers
  (`Clock::covers`).  `clockAt` / `covers` (Proofs/History §4) model exactly that; the theorems say
  that this reading and the reading of `d.at heads` are the same.

  Hypotheses, all decidable and checked on the example:
    `Chain d.applied`   distinct hashes, topological order, distinct (actor, seq), and the
                        per-actor chain (change n of an actor has change n − 1 among its ancestors);
    `OpOrder d.applied` start ops ≥ 1, ops numbered inside their change's range with its actor
                        (`OpsNumbered` implies it), start op above every op of every strict ancestor.
  Not modelled: marks_at / cursors at heads (C24/C25/C27 read the same `(d.at heads).ops`).
  Property theorems only; helpers in `Proofs/History.lean`.
-/
namespace AmVerif.Props.C07
open AmVerif AmVerif.Crdt

/-! ### the example history: a diamond a1 → {b1, c1} → b2, and a concurrent change m0 -/

def doc : Doc := ⟨[Ex.a1, Ex.m0, Ex.b1, Ex.c1, Ex.b2], []⟩

example : doc.Inv ∧ Chain doc.applied ∧ OpOrder doc.applied ∧ (∀ c ∈ doc.applied, OpsNumbered c) := by
  decide

/-! ### the clock -/

/-- The clock decides ancestry: an op of an applied change is covered by the clock at `heads`
    (`clock_at(heads).covers(id)`) iff its change is an ancestor of `heads`. -/
theorem C07_clock_covers_iff_ancestor (d : Doc) (hch : Chain d.applied) (hop : OpOrder d.applied)
    (heads : List Hash) (c : Change) (hc : c ∈ d.applied) (o : Op) (ho : o ∈ c.ops) :
    covers (clockAt d heads) o.id = true ↔ c.hash ∈ d.ancestors heads :=
  clockAt_covers_iff_ancestor hch hop heads hc ho

/-- the clock at {b1}: actor A up to op 1, actor B up to op 2, actors C and F nothing; b2's op
    (3@B) and c1's op (2@C) are not covered, a1's (1@A) and b1's (2@B) are -/
example : clockAt doc [[2]] = [([0xA], 1), ([0xB], 2), ([0xC], 0), ([0xF], 0)] ∧
    doc.ancestors [[2]] = [[1], [2]] ∧
    covers (clockAt doc [[2]]) ⟨2, [0xB]⟩ = true ∧ covers (clockAt doc [[2]]) ⟨3, [0xB]⟩ = false ∧
    covers (clockAt doc [[2]]) ⟨2, [0xC]⟩ = false ∧ covers (clockAt doc [[2]]) ⟨1, [0xA]⟩ = true := by
  decide

/-- "every read at those heads … equals the same read on a document that contains exactly those
    heads' ancestors": the ops the implementation's clock covers are — as a list, same ops in the
    same order — the ops of `d.at heads`; hence EVERY function of the op set (`showDoc`, registers,
    keys, element lists, text, …) gives the same result on both. -/
theorem C07_read_at_clock_is_read_of_ancestors (d : Doc) (hch : Chain d.applied)
    (hop : OpOrder d.applied) (heads : List Hash) :
    restrict d.ops (covers (clockAt d heads)) = (d.at heads).ops ∧
    showDoc (restrict d.ops (covers (clockAt d heads))) = showDoc (d.at heads).ops ∧
    ∀ {α : Type} (read : List Op → α),
      read (restrict d.ops (covers (clockAt d heads))) = read (d.at heads).ops := by
  have h := restrict_clockAt hch hop heads
  exact ⟨h, by rw [h], fun read => by rw [h]⟩

/-- the same with the numbering hypothesis in the form the change encoding provides it
    (`OpsNumbered`: the ops of a change carry its actor and the counters startOp, startOp + 1, …) -/
theorem C07_read_at_clock_numbered (d : Doc) (hch : Chain d.applied)
    (hpos : ∀ c ∈ d.applied, 1 ≤ c.startOp) (hnum : ∀ c ∈ d.applied, OpsNumbered c)
    (habove : ∀ c ∈ d.applied, ∀ p ∈ d.applied, p.hash ≠ c.hash → p.hash ∈ d.ancestors [c.hash] →
      p.startOp + p.ops.length ≤ c.startOp) (heads : List Hash) :
    restrict d.ops (covers (clockAt d heads)) = (d.at heads).ops :=
  restrict_clockAt hch (OpOrder.of_numbered hpos hnum habove) heads

example : (∀ c ∈ doc.applied, 1 ≤ c.startOp) ∧ (∀ c ∈ doc.applied, OpsNumbered c) ∧
    (∀ c ∈ doc.applied, ∀ p ∈ doc.applied, p.hash ≠ c.hash → p.hash ∈ doc.ancestors [c.hash] →
      p.startOp + p.ops.length ≤ c.startOp) := by decide

example : restrict doc.ops (covers (clockAt doc [[2], [3]])) =
      [Ex.putOp 1 [0xA] 10 [], Ex.putOp 2 [0xB] 20 [⟨1, [0xA]⟩], Ex.putOp 2 [0xC] 30 [⟨1, [0xA]⟩]] ∧
    (doc.at [[2], [3]]).applied = [Ex.a1, Ex.b1, Ex.c1] ∧
    mapRegister (doc.at [[2], [3]]).ops .root [107] =
      [⟨⟨2, [0xB]⟩, .scalar (.int 20)⟩, ⟨⟨2, [0xC]⟩, .scalar (.int 30)⟩] := by decide

/-- … and the order in which such a document received the ancestors does not matter: any
    document whose applied changes are a rearrangement of the ancestors reads the same. -/
theorem C07_any_document_with_exactly_the_ancestors (d d' : Doc) (heads : List Hash)
    (hp : d'.applied.Perm (d.at heads).applied) (hd : DistinctIds d'.ops) :
    showDoc d'.ops = showDoc (d.at heads).ops ∧
    (∀ obj k, mapRegister d'.ops obj k = mapRegister (d.at heads).ops obj k) ∧
    (∀ obj, mapKeys d'.ops obj = mapKeys (d.at heads).ops obj) ∧
    (∀ obj, seqElems d'.ops obj = seqElems (d.at heads).ops obj) := by
  have hops : d'.ops.Perm (d.at heads).ops := hp.flatMap_right _
  exact ⟨showDoc_perm _ _ hops hd, fun obj k => mapRegister_perm hops hd obj k,
    fun obj => mapKeys_perm hops obj, fun obj => seqElems_perm hops hd obj⟩

example : (⟨[Ex.a1, Ex.c1, Ex.b1], []⟩ : Doc).applied.Perm (doc.at [[2], [3]]).applied ∧
    DistinctIds (⟨[Ex.a1, Ex.c1, Ex.b1], []⟩ : Doc).ops := by
  refine ⟨?_, by decide⟩
  show [Ex.a1, Ex.c1, Ex.b1].Perm _
  rw [show (doc.at [[2], [3]]).applied = [Ex.a1, Ex.b1, Ex.c1] by decide]
  exact (List.Perm.swap _ _ _).cons _

/-! ### fork_at -/

/-- "fork_at of those heads produces such a document, and its heads are the given heads":
    `d.at heads` contains exactly the applied changes reachable from `heads` (hashes in `heads`
    the document does not have contribute nothing), in the document's order; it is a history of
    its own (`Inv`: closed under dependencies, topologically ordered, nothing held); and when
    the given heads are applied and none is an ancestor of another — as for every set of heads a
    document ever had — its heads are the given heads. -/
theorem C07_forkAt (d : Doc) (hinv : d.Inv) (heads : List Hash) :
    (∀ c, c ∈ (d.at heads).applied ↔ c ∈ d.applied ∧ Reach d.applied heads c.hash) ∧
    (d.at heads).applied.Sublist d.applied ∧ (d.at heads).queue = [] ∧
    (d.at heads).Inv ∧ DepsClosed (d.at heads).applied ∧
    ((∀ x ∈ heads, x ∈ hashes d.applied) →
     (∀ a ∈ heads, ∀ b ∈ heads, a ≠ b → a ∉ d.ancestors [b]) →
      (d.at heads).heads = sortHashes heads) := by
  have hn := hinv.inv0.applied_nodup
  refine ⟨fun c => ?_, at_applied_sublist d heads, rfl, at_inv hinv.inv0 heads,
    (at_inv hinv.inv0 heads).depsClosed, fun happ hanti => at_heads hinv.inv0 happ hanti⟩
  rw [mem_at_applied]
  constructor
  · rintro ⟨hc, ha⟩; exact ⟨hc, ((mem_ancestors hn).mp ha).2⟩
  · rintro ⟨hc, hr⟩; exact ⟨hc, (mem_ancestors hn).mpr ⟨mem_hashes_of_mem hc, hr⟩⟩

/-- the document at {b1, c1} (given in the other order, with an unknown hash): heads {b1, c1};
    at {b1, a1} the antichain hypothesis fails (a1 is an ancestor of b1) and the heads are {b1} -/
example : (∀ x ∈ [[3], [2]], x ∈ hashes doc.applied) ∧
    (∀ a ∈ [[3], [2]], ∀ b ∈ [[3], [2]], a ≠ b → a ∉ doc.ancestors [b]) ∧
    (doc.at [[3], [2]]).heads = [[2], [3]] ∧
    (doc.at [[3], [99], [2]]).applied = [Ex.a1, Ex.b1, Ex.c1] ∧
    (doc.at [[2], [1]]).heads = [[2]] := by decide

/-- The `None` fast path (`clock_at` returns `None` when `heads` are the current heads and the
    read is the unscoped one): the document at its own heads is the document. -/
theorem C07_at_heads_is_identity (d : Doc) (hinv : d.Inv) :
    (d.at d.heads).applied = d.applied ∧ (d.at d.heads).ops = d.ops ∧
    showDoc (d.at d.heads).ops = showDoc d.ops := by
  have h := at_heads_applied hinv.inv0
  have h2 : (d.at d.heads).ops = d.ops := by unfold Doc.ops; rw [h]
  exact ⟨h, h2, by rw [h2]⟩

example : doc.heads = [[0], [4]] ∧ (doc.at doc.heads).applied = doc.applied := by decide

end AmVerif.Props.C07
