import AmVerif.Proofs.History
/-
  C10 (second half) — "… get_changes(have) returns exactly the changes that are not ancestors of
  have, each after its dependencies."   (The first half of C10 — change hashes — is
  `Props/C10Hash.lean`.)

  Setting.  The driver answers `crdt.changes r have` with
  `d.applied.filter (fun c => !(d.ancestors have).contains c.hash)` (`getChanges`), compared with
  the real `get_changes` in the differential run.  The implementation does not walk ancestors per
  change: it computes the per-actor sequence clock of `have` (`seq_clock_for_heads`) and returns,
  per actor, the changes whose sequence number exceeds the clock entry, sorted by graph index
  (`get_build_indexes`): `getChangesClock`.  Both are characterised and proved equal.
  Property theorems only; helpers in `Proofs/History.lean` §1, §3, §5.
-/
namespace AmVerif.Props.C10
open AmVerif AmVerif.Crdt

/-- the diamond a1 → {b1, c1} → b2 plus the concurrent m0 -/
def doc : Doc := ⟨[Ex.a1, Ex.m0, Ex.b1, Ex.c1, Ex.b2], []⟩

example : doc.Inv ∧ Chain doc.applied := by decide

/-- "returns exactly the changes that are not ancestors of have": a change is returned iff it is
    applied and not reachable from `have` through dependencies of applied changes; the list has
    no duplicates and is in the document's (application) order. -/
theorem C10_exactly_the_non_ancestors (d : Doc) (hinv : d.Inv) (have_ : List Hash) :
    (∀ c, c ∈ getChanges d have_ ↔ c ∈ d.applied ∧ ¬ Reach d.applied have_ c.hash) ∧
    (∀ c ∈ d.applied, c ∈ getChanges d have_ ↔ c.hash ∉ d.ancestors have_) ∧
    (getChanges d have_).Sublist d.applied ∧ (hashes (getChanges d have_)).Nodup := by
  have hn := hinv.inv0.applied_nodup
  refine ⟨fun c => mem_getChanges hn, fun c hc => ?_, List.filter_sublist,
    List.Nodup.sublist (List.filter_sublist.map _) hn⟩
  rw [mem_getChanges hn, mem_ancestors hn]
  exact ⟨fun h hr => h.2 hr.2, fun h => ⟨hc, fun hr => h ⟨mem_hashes_of_mem hc, hr⟩⟩⟩

example : getChanges doc [[2]] = [Ex.m0, Ex.c1, Ex.b2] ∧ getChanges doc [] = doc.applied ∧
    getChanges doc doc.heads = [] := by decide

/-- "each after its dependencies": wherever a change stands in the returned list, each of its
    dependencies is an ancestor of `have` (the receiver already has it) or stands EARLIER in the
    list — so applying the list front to back never meets a missing dependency. -/
theorem C10_each_after_its_dependencies (d : Doc) (hinv : d.Inv) (have_ : List Hash)
    (pre post : List Change) (c : Change) (h : getChanges d have_ = pre ++ c :: post) :
    ∀ dep ∈ c.deps, dep ∈ d.ancestors have_ ∨ dep ∈ hashes pre :=
  getChanges_ordered hinv.depsClosed h

/-- b2 = [m0, c1] ++ b2 :: []: its dep c1 is earlier in the list, its dep b1 is an ancestor of have -/
example : getChanges doc [[2]] = [Ex.m0, Ex.c1] ++ Ex.b2 :: [] ∧ Ex.b2.deps = [[2], [3]] ∧
    [3] ∈ hashes [Ex.m0, Ex.c1] ∧ [2] ∈ doc.ancestors [[2]] := by decide

/-- Unknown hashes in `have` are ignored: only the hashes of applied changes matter. -/
theorem C10_unknown_hashes_ignored (d : Doc) (hinv : d.Inv) (have_ : List Hash) :
    getChanges d have_ = getChanges d (have_.filter d.hasChange) :=
  getChanges_known_only hinv.inv0.applied_nodup have_

example : getChanges doc [[2], [99]] = getChanges doc [[2]] ∧ doc.hasChange [99] = false ∧
    getChanges doc [[99]] = doc.applied := by decide

/-- The implementation's route — per-actor sequence clock of `have`, then every change whose
    sequence number exceeds its actor's entry, in graph order — returns the same list, under the
    per-actor chain invariant (`Chain`: an actor's change n has its change n − 1 among its
    ancestors).  Pointwise: a change is an ancestor of `have` iff its sequence number is at most
    the clock entry of its actor. -/
theorem C10_clock_implementation_agrees (d : Doc) (hch : Chain d.applied) (have_ : List Hash) :
    getChangesClock d have_ = getChanges d have_ ∧
    ∀ c ∈ d.applied, c.hash ∈ d.ancestors have_ ↔ c.seq ≤ seqClockAt d have_ c.actor :=
  ⟨getChangesClock_eq hch have_, fun _ hc => anc_iff_seq_le hch have_ hc⟩

example : seqClockAt doc [[2]] [0xB] = 1 ∧ seqClockAt doc [[2]] [0xA] = 1 ∧
    seqClockAt doc [[2]] [0xC] = 0 ∧ getChangesClock doc [[2]] = [Ex.m0, Ex.c1, Ex.b2] := by decide

/-- The chain hypothesis is needed: on a history where an actor's second change does NOT have
    the first among its ancestors, the clock route returns a different list (the first change is
    taken for an ancestor).  Such a history cannot be produced by the library (C04 / C29). -/
theorem C10_clock_needs_chain :
    let x1 : Change := ⟨[1], [0xA], 1, 1, [], []⟩
    let x2 : Change := ⟨[2], [0xA], 2, 1, [], []⟩
    let d : Doc := ⟨[x1, x2], []⟩
    d.Inv ∧ ¬ Chain d.applied ∧ getChanges d [[2]] = [x1] ∧ getChangesClock d [[2]] = [] := by
  decide

end AmVerif.Props.C10
